/-
C01, part 2 (over ℝ): what each constraint kind's error measure means geometrically
(points, lines, scalars).

The specification formalised here is the independent statement of the harness
(`/verif/harness/src/geom.rs`, `geom_err`): for every kind a list of geometric error components
(lengths or radians) and a scale factor `k` with `|solver measure| = k · |geometric error|`.
The geometric vocabulary (`Geo.*`) is written in plain coordinates and does not mention the kernels.

For every kind `K` of this file:
* `measures_K`   — each live residual component *is* the documented geometric quantity (exact
                   equation, with the scale factor where the code uses an unnormalised form), at
                   every configuration where the residual's guard is inactive;
* `satisfied_K`  — the verdict `isSatisfied … = some true` is the geometric statement "within
                   tolerance";
* `zero_iff_K`   — all live components vanish iff the exact geometric predicate holds.
Where a residual has a guard, `guard_K` says when it is active and `satisfied_of_guard_K` that the
verdict is then "satisfied" whatever the geometry (the error measure is `0` there).

Comparison with the specification (`k` = scale factor, solver measure = k · geometric error):
* scale 1, same sign: Distance, Vertical/HorizontalDistance (signed), Vertical, Horizontal, Fixed,
  ScalarEqual, PointsCoincident, CircleRadius, Midpoint, LinesEqualLength, PointLineDistance
  (positive on the left of `p0 → p1`), HorizontalPointLineDistance, Symmetric,
  LinesAtAngle(Other) (signed wrapped difference; the specification takes its absolute value);
* VerticalPointLineDistance: multiplied through by the *signed* `Δx` (specification: `k = |Δx|`);
* Parallel / Perpendicular: unnormalised cross / dot product, `k = |d0|·|d1|`
  (geometric error `sin ∠` / `cos ∠`).
No kind of this file measures something else than the specification says.  `Symmetric` has no
residual guard: on a collapsed axis the code computes `0/0` (NaN in floating point, so "not
satisfied"; over ℝ, where `x/0 = 0`, the formula degenerates), hence the explicit hypothesis there.
-/
import Ezpz.Real.Instance
import Ezpz.Model.Solve
import Ezpz.Properties.C01
import Mathlib.Analysis.SpecialFunctions.Complex.Arg
import Mathlib.Analysis.SpecialFunctions.Trigonometric.Angle
import Mathlib.Algebra.Order.ToIntervalMod
import Mathlib.Tactic.Linarith
import Mathlib.Tactic.LinearCombination
set_option linter.unusedSectionVars false
set_option linter.unusedSimpArgs false
namespace Ezpz
open Transc

/-! ## 1. Geometric vocabulary (plain coordinates, independent of the kernels) -/

namespace Geo

/-- A point or a vector of the plane. -/
structure P2 where
  x : ℝ
  y : ℝ

/-- The vector from `a` to `b`. -/
def vec (a b : P2) : P2 := ⟨b.x - a.x, b.y - a.y⟩

/-- Cross product (signed area of the parallelogram) `u × w`. -/
def cross (u w : P2) : ℝ := u.x * w.y - u.y * w.x

/-- Dot product `u · w`. -/
def dot (u w : P2) : ℝ := u.x * w.x + u.y * w.y

/-- Euclidean length of a vector. -/
noncomputable def len (u : P2) : ℝ := Real.sqrt (u.x ^ 2 + u.y ^ 2)

/-- Euclidean distance of two points. -/
noncomputable def dist2 (p q : P2) : ℝ := Real.sqrt ((p.x - q.x) ^ 2 + (p.y - q.y) ^ 2)

/-- Signed distance of `p` from the directed line `a → b` (positive on the left):
`cross (b - a) (p - a) / |b - a|`. -/
noncomputable def signedLineDist (p a b : P2) : ℝ := cross (vec a b) (vec a p) / len (vec a b)

/-- Midpoint of `a` and `b`. -/
noncomputable def mid (a b : P2) : P2 := ⟨(a.x + b.x) / 2, (a.y + b.y) / 2⟩

/-- Foot of the perpendicular from `p` on the line through `a` and `b`. -/
noncomputable def foot (p a b : P2) : P2 :=
  ⟨a.x + dot (vec a p) (vec a b) / dot (vec a b) (vec a b) * (b.x - a.x),
   a.y + dot (vec a p) (vec a b) / dot (vec a b) (vec a b) * (b.y - a.y)⟩

/-- Mirror image of `p` in the line through `a` and `b`: `2·foot − p`. -/
noncomputable def mirror (p a b : P2) : P2 :=
  ⟨2 * (foot p a b).x - p.x, 2 * (foot p a b).y - p.y⟩

/-- Height of the line through `a`, `b` above the abscissa `x` (line not vertical). -/
noncomputable def yOnLine (a b : P2) (x : ℝ) : ℝ := a.y + (b.y - a.y) * (x - a.x) / (b.x - a.x)

/-- Abscissa of the line through `a`, `b` at the height `y` (line not horizontal). -/
noncomputable def xOnLine (a b : P2) (y : ℝ) : ℝ := a.x + (b.x - a.x) * (y - a.y) / (b.y - a.y)

/-- Signed (counter-clockwise) angle from the vector `u` to the vector `w`, in `(−π, π]`:
`atan2 (u × w) (u · w)`. -/
noncomputable def angleFromTo (u w : P2) : ℝ := Complex.arg ⟨dot u w, cross u w⟩

/-- Lengths are non-negative. -/
theorem len_nonneg (u : P2) : 0 ≤ len u := Real.sqrt_nonneg _

/-- Distances are non-negative. -/
theorem dist2_nonneg (p q : P2) : 0 ≤ dist2 p q := Real.sqrt_nonneg _

/-- The distance of two points is the length of the vector joining them (either way round). -/
theorem len_vec (a b : P2) : len (vec a b) = dist2 a b := by
  unfold len vec dist2; congr 1; ring

/-- The distance of two points does not depend on their order. -/
theorem dist2_comm (p q : P2) : dist2 p q = dist2 q p := by
  unfold dist2; congr 1; ring

/-- Two points are at distance `0` iff they are the same point. -/
theorem dist2_eq_zero_iff (p q : P2) : dist2 p q = 0 ↔ p = q := by
  unfold dist2
  rw [Real.sqrt_eq_zero (by positivity)]
  constructor
  · intro h
    have h1 : p.x - q.x = 0 := by nlinarith [sq_nonneg (p.x - q.x), sq_nonneg (p.y - q.y)]
    have h2 : p.y - q.y = 0 := by nlinarith [sq_nonneg (p.x - q.x), sq_nonneg (p.y - q.y)]
    cases p; cases q; simp only [P2.mk.injEq]; constructor <;> linarith
  · rintro rfl; ring

/-- A vector has length `0` iff `u · u = 0`. -/
theorem len_eq_zero_iff (u : P2) : len u = 0 ↔ dot u u = 0 := by
  unfold len dot
  rw [Real.sqrt_eq_zero (by positivity)]
  constructor <;> intro h <;> nlinarith

/-- `|u|² = u · u`. -/
theorem len_sq (u : P2) : len u ^ 2 = dot u u := by
  unfold len dot
  rw [Real.sq_sqrt (by positivity)]; ring

/-- A segment is collapsed (`(b − a) · (b − a) = 0`) iff its two ends are the same point. -/
theorem dot_vec_self_eq_zero_iff (a b : P2) : dot (vec a b) (vec a b) = 0 ↔ a = b := by
  rw [← len_eq_zero_iff, len_vec, dist2_eq_zero_iff]

/-- Lagrange's identity: `(u · w)² + (u × w)² = |u|² |w|²`. -/
theorem dot_sq_add_cross_sq (u w : P2) :
    dot u w ^ 2 + cross u w ^ 2 = (len u * len w) ^ 2 := by
  rw [mul_pow, len_sq, len_sq]; unfold dot cross; ring

/-- `u · w = |u| |w| cos ∠(u, w)`. -/
theorem dot_eq_len_mul_cos (u w : P2) :
    dot u w = len u * len w * Real.cos (angleFromTo u w) := by
  have h := Complex.norm_mul_cos_arg ⟨dot u w, cross u w⟩
  have hn : ‖(⟨dot u w, cross u w⟩ : ℂ)‖ = len u * len w := by
    rw [Complex.norm_eq_sqrt_sq_add_sq]
    simp only
    rw [dot_sq_add_cross_sq, Real.sqrt_sq (mul_nonneg (len_nonneg u) (len_nonneg w))]
  rw [hn] at h
  exact h.symm

/-- `u × w = |u| |w| sin ∠(u, w)`. -/
theorem cross_eq_len_mul_sin (u w : P2) :
    cross u w = len u * len w * Real.sin (angleFromTo u w) := by
  have h := Complex.norm_mul_sin_arg ⟨dot u w, cross u w⟩
  have hn : ‖(⟨dot u w, cross u w⟩ : ℂ)‖ = len u * len w := by
    rw [Complex.norm_eq_sqrt_sq_add_sq]
    simp only
    rw [dot_sq_add_cross_sq, Real.sqrt_sq (mul_nonneg (len_nonneg u) (len_nonneg w))]
  rw [hn] at h
  exact h.symm

/-- The angle from `u` to `w` lies in `(−π, π]`. -/
theorem angleFromTo_mem (u w : P2) :
    -Real.pi < angleFromTo u w ∧ angleFromTo u w ≤ Real.pi :=
  ⟨Complex.neg_pi_lt_arg _, Complex.arg_le_pi _⟩

/-- **What the angle means**: `w` is `u` turned counter-clockwise by `∠(u, w)` and rescaled by
`|w| / |u|`; written without division: `|u| · w = |w| · R(∠(u,w)) u`. -/
theorem angleFromTo_rotates (u w : P2) :
    len u * w.x = len w * (Real.cos (angleFromTo u w) * u.x - Real.sin (angleFromTo u w) * u.y) ∧
    len u * w.y = len w * (Real.sin (angleFromTo u w) * u.x + Real.cos (angleFromTo u w) * u.y) := by
  by_cases hu : len u = 0
  · have h0 := (len_eq_zero_iff u).1 hu
    unfold dot at h0
    have hx : u.x = 0 := by nlinarith [sq_nonneg u.x, sq_nonneg u.y]
    have hy : u.y = 0 := by nlinarith [sq_nonneg u.x, sq_nonneg u.y]
    simp [hu, hx, hy]
  · have hd := dot_eq_len_mul_cos u w
    have hc := cross_eq_len_mul_sin u w
    have hl := len_sq u
    unfold dot at hd hl
    unfold cross at hc
    constructor
    · apply mul_left_cancel₀ hu
      linear_combination w.x * hl + u.x * hd - u.y * hc
    · apply mul_left_cancel₀ hu
      linear_combination w.y * hl + u.y * hd + u.x * hc

/-- The foot of the perpendicular lies on the line: `(b − a) × (foot − a) = 0`. -/
theorem foot_on_line (p a b : P2) : cross (vec a b) (vec a (foot p a b)) = 0 := by
  unfold cross vec foot; simp only; ring

/-- … and `p − foot` is perpendicular to the line (line not collapsed). -/
theorem foot_perp (p a b : P2) (hab : dot (vec a b) (vec a b) ≠ 0) :
    dot (vec (foot p a b) p) (vec a b) = 0 := by
  simp only [foot, dot, vec] at hab ⊢
  generalize hD : (b.x - a.x) * (b.x - a.x) + (b.y - a.y) * (b.y - a.y) = D at hab ⊢
  field_simp
  subst hD; ring

/-- **Characterisation of the mirror image** (line not collapsed): `m` is the mirror image of `p`
in the line `ab` iff the midpoint of `p` and `m` lies on the line and `m − p` is perpendicular to
it. -/
theorem eq_mirror_iff (m p a b : P2) (hab : dot (vec a b) (vec a b) ≠ 0) :
    m = mirror p a b ↔
      cross (vec a b) (vec a (mid p m)) = 0 ∧ dot (vec p m) (vec a b) = 0 := by
  constructor
  · rintro rfl
    simp only [mirror, foot, mid, dot, vec, cross] at hab ⊢
    generalize hD : (b.x - a.x) * (b.x - a.x) + (b.y - a.y) * (b.y - a.y) = D at hab ⊢
    constructor <;> · field_simp; subst hD; ring
  · rintro ⟨h1, h2⟩
    obtain ⟨mx, my⟩ := m
    simp only [mirror, foot, mid, dot, vec, cross, P2.mk.injEq] at hab h1 h2 ⊢
    generalize hD : (b.x - a.x) * (b.x - a.x) + (b.y - a.y) * (b.y - a.y) = D at hab ⊢
    constructor
    · field_simp
      subst hD
      linear_combination (-2 * (b.y - a.y)) * h1 + (b.x - a.x) * h2
    · field_simp
      subst hD
      linear_combination (2 * (b.x - a.x)) * h1 + (b.y - a.y) * h2

/-- The absolute value of the signed distance is the distance from the foot of the perpendicular
(line not collapsed). -/
theorem abs_signedLineDist (p a b : P2) (hab : dot (vec a b) (vec a b) ≠ 0) :
    |signedLineDist p a b| = dist2 p (foot p a b) := by
  rw [← Real.sqrt_sq_eq_abs]
  unfold dist2
  congr 1
  unfold signedLineDist
  rw [div_pow, len_sq]
  simp only [foot, dot, vec, cross] at hab ⊢
  generalize hD : (b.x - a.x) * (b.x - a.x) + (b.y - a.y) * (b.y - a.y) = D at hab ⊢
  field_simp
  subst hD; ring

/-- The point `(x, yOnLine a b x)` lies on the line through `a` and `b` (line not vertical). -/
theorem yOnLine_on_line (a b : P2) (x : ℝ) (h : b.x - a.x ≠ 0) :
    cross (vec a b) (vec a ⟨x, yOnLine a b x⟩) = 0 := by
  unfold cross vec yOnLine; simp only; field_simp; ring

/-- The point `(xOnLine a b y, y)` lies on the line through `a` and `b` (line not horizontal). -/
theorem xOnLine_on_line (a b : P2) (y : ℝ) (h : b.y - a.y ≠ 0) :
    cross (vec a b) (vec a ⟨xOnLine a b y, y⟩) = 0 := by
  unfold cross vec xOnLine; simp only; field_simp; ring

end Geo

open Geo

/-- The point a `DatumPoint` denotes under the assignment `v`. -/
def pt (v : Nat → ℝ) (p : Pt) : P2 := ⟨v p.x, v p.y⟩

/-- The direction vector of a `DatumLineSegment` under `v`: from `p0` to `p1`. -/
def dir (v : Nat → ℝ) (l : Seg) : P2 := vec (pt v l.p0) (pt v l.p1)


/-! ## 2. The verdict `isSatisfied` over ℝ -/

/-- `is_satisfied` over the reals: a constraint with `d ∈ {1,2,3}` rows is satisfied iff each of
its first `d` error components is below `EPSILON` in absolute value. -/
theorem isSatisfied_iff_real (d : Nat) (r : Res ℝ) (hd : d = 1 ∨ d = 2 ∨ d = 3) :
    isSatisfied d r = some true ↔
      |r.r0| < (EPS : ℝ) ∧ (2 ≤ d → |r.r1| < (EPS : ℝ)) ∧ (3 ≤ d → |r.r2| < (EPS : ℝ)) :=
  C01.isSatisfied_iff d r hd

/-- One live component. -/
theorem isSatisfied_one (r : Res ℝ) : isSatisfied 1 r = some true ↔ |r.r0| < (EPS : ℝ) := by
  rw [isSatisfied_iff_real 1 r (Or.inl rfl)]; simp

/-- Two live components. -/
theorem isSatisfied_two (r : Res ℝ) :
    isSatisfied 2 r = some true ↔ |r.r0| < (EPS : ℝ) ∧ |r.r1| < (EPS : ℝ) := by
  rw [isSatisfied_iff_real 2 r (Or.inr (Or.inl rfl))]; simp

/-- Three live components. -/
theorem isSatisfied_three (r : Res ℝ) :
    isSatisfied 3 r = some true ↔
      |r.r0| < (EPS : ℝ) ∧ |r.r1| < (EPS : ℝ) ∧ |r.r2| < (EPS : ℝ) := by
  rw [isSatisfied_iff_real 3 r (Or.inr (Or.inr rfl))]; simp

/-- When a residual guard fires, the error measure is `Res.degen` (all components `0`), so a
one-row constraint is reported *satisfied*. -/
theorem isSatisfied_degen : isSatisfied 1 (Res.degen : Res ℝ) = some true := by
  rw [isSatisfied_one]; simp [Res.degen, lit_0, EPS_pos]

/-- The tolerance is (much) smaller than `π`. -/
theorem EPS_lt_pi : (EPS : ℝ) < Real.pi := by
  have := Real.two_le_pi
  rw [EPS_real]; norm_num; linarith

/-! ## 3. `wrap_angle_delta` -/

/-- `wrap_angle_delta` over the reals is reduction modulo `2π` into `(−π, π]`, for **every** input
(the code does not subtract `2π` once: outside `(−π, π]` it takes `atan2 (sin δ) (cos δ)`). -/
theorem wrapAngleDelta_eq_toIocMod (δ : ℝ) :
    wrapAngleDelta δ = toIocMod Real.two_pi_pos (-Real.pi) δ := by
  unfold wrapAngleDelta
  simp only [pi_real, atan2_real, sin_real, cos_real, realAtan2]
  split
  · rename_i h
    symm
    rw [toIocMod_eq_self, Set.mem_Ioc]
    exact ⟨h.1, by linarith [h.2]⟩
  · have : (⟨Real.cos δ, Real.sin δ⟩ : ℂ) = Complex.exp (δ * Complex.I) := by
      apply Complex.ext
      · simp [Complex.exp_ofReal_mul_I_re]
      · simp [Complex.exp_ofReal_mul_I_im]
    rw [this, Complex.arg_exp_mul_I]

/-- The wrapped difference lies in `(−π, π]`. -/
theorem wrapAngleDelta_mem (δ : ℝ) :
    -Real.pi < wrapAngleDelta δ ∧ wrapAngleDelta δ ≤ Real.pi := by
  rw [wrapAngleDelta_eq_toIocMod]
  have h := toIocMod_mem_Ioc Real.two_pi_pos (-Real.pi) δ
  rw [Set.mem_Ioc] at h
  exact ⟨h.1, by linarith [h.2]⟩

/-- The wrapped difference is congruent to the input modulo `2π`. -/
theorem wrapAngleDelta_congr (δ : ℝ) : ∃ k : ℤ, wrapAngleDelta δ = δ + 2 * Real.pi * k := by
  rw [wrapAngleDelta_eq_toIocMod]
  refine ⟨-toIocDiv Real.two_pi_pos (-Real.pi) δ, ?_⟩
  have h := toIocMod_add_toIocDiv_zsmul Real.two_pi_pos (-Real.pi) δ
  rw [zsmul_eq_mul] at h
  push_cast
  linarith

/-- … and it is the only such number in `(−π, π]`. -/
theorem wrapAngleDelta_unique (δ c : ℝ) (k : ℤ) (hc : -Real.pi < c ∧ c ≤ Real.pi)
    (h : c = δ + 2 * Real.pi * k) : wrapAngleDelta δ = c := by
  rw [wrapAngleDelta_eq_toIocMod, toIocMod_eq_iff, Set.mem_Ioc]
  refine ⟨⟨hc.1, by linarith [hc.2]⟩, -k, ?_⟩
  rw [zsmul_eq_mul]; push_cast; linarith

/-- The wrapped difference is below a tolerance `ε ≤ π` iff the raw difference is within `ε` of a
multiple of `2π`. -/
theorem abs_wrapAngleDelta_lt_iff (δ ε : ℝ) (hε : ε ≤ Real.pi) :
    |wrapAngleDelta δ| < ε ↔ ∃ k : ℤ, |δ + 2 * Real.pi * k| < ε := by
  constructor
  · intro h
    obtain ⟨k, hk⟩ := wrapAngleDelta_congr δ
    exact ⟨k, hk ▸ h⟩
  · rintro ⟨k, hk⟩
    have hc := abs_lt.1 hk
    rw [wrapAngleDelta_unique δ _ k ⟨by linarith [hc.1], by linarith [hc.2]⟩ rfl]
    exact hk

/-- The wrapped difference is exactly `0` iff the raw difference is a multiple of `2π`. -/
theorem wrapAngleDelta_eq_zero_iff (δ : ℝ) :
    wrapAngleDelta δ = 0 ↔ ∃ k : ℤ, δ = 2 * Real.pi * k := by
  constructor
  · intro h
    obtain ⟨k, hk⟩ := wrapAngleDelta_congr δ
    refine ⟨-k, ?_⟩
    push_cast; linarith
  · rintro ⟨k, hk⟩
    have hpi := Real.pi_pos
    exact wrapAngleDelta_unique δ 0 (-k) ⟨by linarith, by linarith⟩ (by push_cast; linarith)

/-- `Angle::to_radians` over the reals. -/
theorem toRadians_real (θ : Angle ℝ) :
    θ.toRadians = if θ.degrees then θ.val * (Real.pi / 180) else θ.val := by
  simp [Angle.toRadians, lit_180]

/-! ## 4. Scalars and points -/

section Kinds
variable (v : Nat → ℝ)

/-- `Distance(p0, p1, d)`: the error measure is `dist(p0, p1) − d`; no guard. -/
theorem measures_distance (p0 p1 : Pt) (d : ℝ) :
    ((Constraint.distance p0 p1 d).residualV v).r0 = dist2 (pt v p0) (pt v p1) - d ∧
    ((Constraint.distance p0 p1 d).residualV v).degenerate = false := by
  refine ⟨?_, rfl⟩
  simp only [Constraint.residualV, Res.mk1, distResidual, hypot_real, dist2, pt, sq]

/-- `Distance` is reported satisfied iff the two points are at distance `d` up to `EPSILON`. -/
theorem satisfied_distance (p0 p1 : Pt) (d : ℝ) :
    isSatisfied (Constraint.distance p0 p1 d).residualDim
      ((Constraint.distance p0 p1 d).residualV v) = some true ↔
    |dist2 (pt v p0) (pt v p1) - d| < (EPS : ℝ) := by
  rw [show (Constraint.distance p0 p1 d).residualDim = 1 from rfl, isSatisfied_one,
    (measures_distance v p0 p1 d).1]

/-- `Distance`: the error measure vanishes iff the points are exactly at distance `d`. -/
theorem zero_iff_distance (p0 p1 : Pt) (d : ℝ) :
    ((Constraint.distance p0 p1 d).residualV v).r0 = 0 ↔ dist2 (pt v p0) (pt v p1) = d := by
  rw [(measures_distance v p0 p1 d).1, sub_eq_zero]

/-- `VerticalDistance(p0, p1, d)`: the error measure is the *signed* `(p0.y − p1.y) − d`. -/
theorem measures_verticalDistance (p0 p1 : Pt) (d : ℝ) :
    ((Constraint.verticalDistance p0 p1 d).residualV v).r0 = ((pt v p0).y - (pt v p1).y) - d ∧
    ((Constraint.verticalDistance p0 p1 d).residualV v).degenerate = false := ⟨rfl, rfl⟩

/-- `VerticalDistance` is reported satisfied iff `p0` is `d` above `p1` up to `EPSILON`. -/
theorem satisfied_verticalDistance (p0 p1 : Pt) (d : ℝ) :
    isSatisfied (Constraint.verticalDistance p0 p1 d).residualDim
      ((Constraint.verticalDistance p0 p1 d).residualV v) = some true ↔
    |((pt v p0).y - (pt v p1).y) - d| < (EPS : ℝ) := by
  rw [show (Constraint.verticalDistance p0 p1 d).residualDim = 1 from rfl, isSatisfied_one,
    (measures_verticalDistance v p0 p1 d).1]

/-- `VerticalDistance`: zero error iff `p0.y = p1.y + d` exactly. -/
theorem zero_iff_verticalDistance (p0 p1 : Pt) (d : ℝ) :
    ((Constraint.verticalDistance p0 p1 d).residualV v).r0 = 0 ↔
      (pt v p0).y = (pt v p1).y + d := by
  rw [(measures_verticalDistance v p0 p1 d).1]; constructor <;> intro h <;> linarith

/-- `HorizontalDistance(p0, p1, d)`: the error measure is the *signed* `(p0.x − p1.x) − d`. -/
theorem measures_horizontalDistance (p0 p1 : Pt) (d : ℝ) :
    ((Constraint.horizontalDistance p0 p1 d).residualV v).r0 = ((pt v p0).x - (pt v p1).x) - d ∧
    ((Constraint.horizontalDistance p0 p1 d).residualV v).degenerate = false := ⟨rfl, rfl⟩

/-- `HorizontalDistance` is reported satisfied iff `p0` is `d` to the right of `p1` up to
`EPSILON`. -/
theorem satisfied_horizontalDistance (p0 p1 : Pt) (d : ℝ) :
    isSatisfied (Constraint.horizontalDistance p0 p1 d).residualDim
      ((Constraint.horizontalDistance p0 p1 d).residualV v) = some true ↔
    |((pt v p0).x - (pt v p1).x) - d| < (EPS : ℝ) := by
  rw [show (Constraint.horizontalDistance p0 p1 d).residualDim = 1 from rfl, isSatisfied_one,
    (measures_horizontalDistance v p0 p1 d).1]

/-- `HorizontalDistance`: zero error iff `p0.x = p1.x + d` exactly. -/
theorem zero_iff_horizontalDistance (p0 p1 : Pt) (d : ℝ) :
    ((Constraint.horizontalDistance p0 p1 d).residualV v).r0 = 0 ↔
      (pt v p0).x = (pt v p1).x + d := by
  rw [(measures_horizontalDistance v p0 p1 d).1]; constructor <;> intro h <;> linarith

/-- `Vertical(l)`: the error measure is the difference of the abscissae of the two ends. -/
theorem measures_vertical (l : Seg) :
    ((Constraint.vertical l : Constraint ℝ).residualV v).r0 = (pt v l.p0).x - (pt v l.p1).x ∧
    ((Constraint.vertical l : Constraint ℝ).residualV v).degenerate = false := ⟨rfl, rfl⟩

/-- `Vertical` is reported satisfied iff the ends' abscissae differ by less than `EPSILON`. -/
theorem satisfied_vertical (l : Seg) :
    isSatisfied (Constraint.vertical l : Constraint ℝ).residualDim
      ((Constraint.vertical l : Constraint ℝ).residualV v) = some true ↔
    |(pt v l.p0).x - (pt v l.p1).x| < (EPS : ℝ) := by
  rw [show (Constraint.vertical l : Constraint ℝ).residualDim = 1 from rfl, isSatisfied_one,
    (measures_vertical v l).1]

/-- `Vertical`: zero error iff both ends have the same abscissa, i.e. the direction vector has no
`x` component (the line is vertical, or collapsed to a point). -/
theorem zero_iff_vertical (l : Seg) :
    ((Constraint.vertical l : Constraint ℝ).residualV v).r0 = 0 ↔ (dir v l).x = 0 := by
  rw [(measures_vertical v l).1]; simp only [dir, vec, pt]
  constructor <;> intro h <;> linarith

/-- `Horizontal(l)`: the error measure is the difference of the ordinates of the two ends. -/
theorem measures_horizontal (l : Seg) :
    ((Constraint.horizontal l : Constraint ℝ).residualV v).r0 = (pt v l.p0).y - (pt v l.p1).y ∧
    ((Constraint.horizontal l : Constraint ℝ).residualV v).degenerate = false := ⟨rfl, rfl⟩

/-- `Horizontal` is reported satisfied iff the ends' ordinates differ by less than `EPSILON`. -/
theorem satisfied_horizontal (l : Seg) :
    isSatisfied (Constraint.horizontal l : Constraint ℝ).residualDim
      ((Constraint.horizontal l : Constraint ℝ).residualV v) = some true ↔
    |(pt v l.p0).y - (pt v l.p1).y| < (EPS : ℝ) := by
  rw [show (Constraint.horizontal l : Constraint ℝ).residualDim = 1 from rfl, isSatisfied_one,
    (measures_horizontal v l).1]

/-- `Horizontal`: zero error iff both ends have the same ordinate (direction vector has no `y`
component). -/
theorem zero_iff_horizontal (l : Seg) :
    ((Constraint.horizontal l : Constraint ℝ).residualV v).r0 = 0 ↔ (dir v l).y = 0 := by
  rw [(measures_horizontal v l).1]; simp only [dir, vec, pt]
  constructor <;> intro h <;> linarith

/-- `Fixed(id, e)`: the error measure is `value − e`. -/
theorem measures_fixed (id : Nat) (e : ℝ) :
    ((Constraint.fixed id e).residualV v).r0 = v id - e ∧
    ((Constraint.fixed id e).residualV v).degenerate = false := ⟨rfl, rfl⟩

/-- `Fixed` is reported satisfied iff the variable is within `EPSILON` of the target. -/
theorem satisfied_fixed (id : Nat) (e : ℝ) :
    isSatisfied (Constraint.fixed id e).residualDim ((Constraint.fixed id e).residualV v)
      = some true ↔ |v id - e| < (EPS : ℝ) := by
  rw [show (Constraint.fixed id e).residualDim = 1 from rfl, isSatisfied_one,
    (measures_fixed v id e).1]

/-- `Fixed`: zero error iff the variable has exactly the target value. -/
theorem zero_iff_fixed (id : Nat) (e : ℝ) :
    ((Constraint.fixed id e).residualV v).r0 = 0 ↔ v id = e := by
  rw [(measures_fixed v id e).1, sub_eq_zero]

/-- `ScalarEqual(x, y)`: the error measure is the difference of the two variables. -/
theorem measures_scalarEqual (x y : Nat) :
    ((Constraint.scalarEqual x y : Constraint ℝ).residualV v).r0 = v x - v y ∧
    ((Constraint.scalarEqual x y : Constraint ℝ).residualV v).degenerate = false := ⟨rfl, rfl⟩

/-- `ScalarEqual` is reported satisfied iff the two variables differ by less than `EPSILON`. -/
theorem satisfied_scalarEqual (x y : Nat) :
    isSatisfied (Constraint.scalarEqual x y : Constraint ℝ).residualDim
      ((Constraint.scalarEqual x y : Constraint ℝ).residualV v) = some true ↔
    |v x - v y| < (EPS : ℝ) := by
  rw [show (Constraint.scalarEqual x y : Constraint ℝ).residualDim = 1 from rfl, isSatisfied_one,
    (measures_scalarEqual v x y).1]

/-- `ScalarEqual`: zero error iff the two variables are equal. -/
theorem zero_iff_scalarEqual (x y : Nat) :
    ((Constraint.scalarEqual x y : Constraint ℝ).residualV v).r0 = 0 ↔ v x = v y := by
  rw [(measures_scalarEqual v x y).1, sub_eq_zero]

/-- `CircleRadius(c, r)`: the error measure is `radius − r`. -/
theorem measures_circleRadius (c : Circ) (r : ℝ) :
    ((Constraint.circleRadius c r).residualV v).r0 = v c.radius - r ∧
    ((Constraint.circleRadius c r).residualV v).degenerate = false := ⟨rfl, rfl⟩

/-- `CircleRadius` is reported satisfied iff the radius is within `EPSILON` of the target. -/
theorem satisfied_circleRadius (c : Circ) (r : ℝ) :
    isSatisfied (Constraint.circleRadius c r).residualDim
      ((Constraint.circleRadius c r).residualV v) = some true ↔ |v c.radius - r| < (EPS : ℝ) := by
  rw [show (Constraint.circleRadius c r).residualDim = 1 from rfl, isSatisfied_one,
    (measures_circleRadius v c r).1]

/-- `CircleRadius`: zero error iff the radius variable has exactly the target value. -/
theorem zero_iff_circleRadius (c : Circ) (r : ℝ) :
    ((Constraint.circleRadius c r).residualV v).r0 = 0 ↔ v c.radius = r := by
  rw [(measures_circleRadius v c r).1, sub_eq_zero]

/-- `PointsCoincident(p0, p1)`: the two error components are the coordinates of `p0 − p1`. -/
theorem measures_pointsCoincident (p0 p1 : Pt) :
    ((Constraint.pointsCoincident p0 p1 : Constraint ℝ).residualV v).r0
      = (pt v p0).x - (pt v p1).x ∧
    ((Constraint.pointsCoincident p0 p1 : Constraint ℝ).residualV v).r1
      = (pt v p0).y - (pt v p1).y ∧
    ((Constraint.pointsCoincident p0 p1 : Constraint ℝ).residualV v).degenerate = false :=
  ⟨rfl, rfl, rfl⟩

/-- `PointsCoincident` is reported satisfied iff both coordinate differences are below `EPSILON`
(a square of half-side `EPSILON`, not a disc). -/
theorem satisfied_pointsCoincident (p0 p1 : Pt) :
    isSatisfied (Constraint.pointsCoincident p0 p1 : Constraint ℝ).residualDim
      ((Constraint.pointsCoincident p0 p1 : Constraint ℝ).residualV v) = some true ↔
    |(pt v p0).x - (pt v p1).x| < (EPS : ℝ) ∧ |(pt v p0).y - (pt v p1).y| < (EPS : ℝ) := by
  rw [show (Constraint.pointsCoincident p0 p1 : Constraint ℝ).residualDim = 2 from rfl,
    isSatisfied_two, (measures_pointsCoincident v p0 p1).1, (measures_pointsCoincident v p0 p1).2.1]

/-- Consequently the Euclidean distance of two points reported coincident is below `√2·EPSILON`,
and points closer than `EPSILON` are reported coincident. -/
theorem satisfied_pointsCoincident_dist (p0 p1 : Pt) :
    (isSatisfied (Constraint.pointsCoincident p0 p1 : Constraint ℝ).residualDim
      ((Constraint.pointsCoincident p0 p1 : Constraint ℝ).residualV v) = some true →
      dist2 (pt v p0) (pt v p1) < Real.sqrt 2 * (EPS : ℝ)) ∧
    (dist2 (pt v p0) (pt v p1) < (EPS : ℝ) →
      isSatisfied (Constraint.pointsCoincident p0 p1 : Constraint ℝ).residualDim
      ((Constraint.pointsCoincident p0 p1 : Constraint ℝ).residualV v) = some true) := by
  rw [satisfied_pointsCoincident]
  have he := EPS_pos
  constructor
  · rintro ⟨hx, hy⟩
    have hx2 := sq_lt_sq' (abs_lt.1 hx).1 (abs_lt.1 hx).2
    have hy2 := sq_lt_sq' (abs_lt.1 hy).1 (abs_lt.1 hy).2
    unfold dist2
    rw [show Real.sqrt 2 * (EPS : ℝ) = Real.sqrt (2 * (EPS : ℝ) ^ 2) by
      rw [Real.sqrt_mul (by norm_num), Real.sqrt_sq he.le]]
    apply Real.sqrt_lt_sqrt (by positivity)
    linarith
  · intro h
    unfold dist2 at h
    rw [Real.sqrt_lt' he] at h
    constructor
    · exact abs_lt_of_sq_lt_sq (by nlinarith [sq_nonneg ((pt v p0).y - (pt v p1).y)]) he.le
    · exact abs_lt_of_sq_lt_sq (by nlinarith [sq_nonneg ((pt v p0).x - (pt v p1).x)]) he.le

/-- `PointsCoincident`: zero error iff the two points are the same point. -/
theorem zero_iff_pointsCoincident (p0 p1 : Pt) :
    (((Constraint.pointsCoincident p0 p1 : Constraint ℝ).residualV v).r0 = 0 ∧
     ((Constraint.pointsCoincident p0 p1 : Constraint ℝ).residualV v).r1 = 0) ↔
    pt v p0 = pt v p1 := by
  rw [(measures_pointsCoincident v p0 p1).1, (measures_pointsCoincident v p0 p1).2.1]
  simp only [pt, P2.mk.injEq, sub_eq_zero]

/-! ## 5. Lines -/

/-- `Midpoint(l, p)`: the two error components are the coordinates of `p − mid(l.p0, l.p1)`. -/
theorem measures_midpoint (l : Seg) (p : Pt) :
    ((Constraint.midpoint l p : Constraint ℝ).residualV v).r0
      = (pt v p).x - (mid (pt v l.p0) (pt v l.p1)).x ∧
    ((Constraint.midpoint l p : Constraint ℝ).residualV v).r1
      = (pt v p).y - (mid (pt v l.p0) (pt v l.p1)).y ∧
    ((Constraint.midpoint l p : Constraint ℝ).residualV v).degenerate = false := by
  refine ⟨?_, ?_, rfl⟩ <;>
  · simp only [Constraint.residualV, Res.mk2, mid, pt, lit_2]; ring

/-- `Midpoint` is reported satisfied iff `p` is within `EPSILON` of the midpoint in each
coordinate. -/
theorem satisfied_midpoint (l : Seg) (p : Pt) :
    isSatisfied (Constraint.midpoint l p : Constraint ℝ).residualDim
      ((Constraint.midpoint l p : Constraint ℝ).residualV v) = some true ↔
    |(pt v p).x - (mid (pt v l.p0) (pt v l.p1)).x| < (EPS : ℝ) ∧
    |(pt v p).y - (mid (pt v l.p0) (pt v l.p1)).y| < (EPS : ℝ) := by
  rw [show (Constraint.midpoint l p : Constraint ℝ).residualDim = 2 from rfl,
    isSatisfied_two, (measures_midpoint v l p).1, (measures_midpoint v l p).2.1]

/-- `Midpoint`: zero error iff `p` is exactly the midpoint of the segment. -/
theorem zero_iff_midpoint (l : Seg) (p : Pt) :
    (((Constraint.midpoint l p : Constraint ℝ).residualV v).r0 = 0 ∧
     ((Constraint.midpoint l p : Constraint ℝ).residualV v).r1 = 0) ↔
    pt v p = mid (pt v l.p0) (pt v l.p1) := by
  rw [(measures_midpoint v l p).1, (measures_midpoint v l p).2.1]
  simp only [pt, mid, P2.mk.injEq, sub_eq_zero]

/-- `LinesEqualLength(l0, l1)`: the error measure is the difference of the two lengths. -/
theorem measures_linesEqualLength (l0 l1 : Seg) :
    ((Constraint.linesEqualLength l0 l1 : Constraint ℝ).residualV v).r0
      = dist2 (pt v l0.p0) (pt v l0.p1) - dist2 (pt v l1.p0) (pt v l1.p1) ∧
    ((Constraint.linesEqualLength l0 l1 : Constraint ℝ).residualV v).degenerate = false := by
  refine ⟨?_, rfl⟩
  simp only [Constraint.residualV, Res.mk1, hypot_real, dist2, pt, sq]

/-- `LinesEqualLength` is reported satisfied iff the two lengths differ by less than `EPSILON`. -/
theorem satisfied_linesEqualLength (l0 l1 : Seg) :
    isSatisfied (Constraint.linesEqualLength l0 l1 : Constraint ℝ).residualDim
      ((Constraint.linesEqualLength l0 l1 : Constraint ℝ).residualV v) = some true ↔
    |dist2 (pt v l0.p0) (pt v l0.p1) - dist2 (pt v l1.p0) (pt v l1.p1)| < (EPS : ℝ) := by
  rw [show (Constraint.linesEqualLength l0 l1 : Constraint ℝ).residualDim = 1 from rfl,
    isSatisfied_one, (measures_linesEqualLength v l0 l1).1]

/-- `LinesEqualLength`: zero error iff the two segments have exactly the same length. -/
theorem zero_iff_linesEqualLength (l0 l1 : Seg) :
    ((Constraint.linesEqualLength l0 l1 : Constraint ℝ).residualV v).r0 = 0 ↔
      dist2 (pt v l0.p0) (pt v l0.p1) = dist2 (pt v l1.p0) (pt v l1.p1) := by
  rw [(measures_linesEqualLength v l0 l1).1, sub_eq_zero]

/-! ### PointLineDistance -/

/-- `PointLineDistance`: the residual's guard fires exactly when the line is shorter than
`EPSILON`. -/
theorem guard_pointLineDistance (p : Pt) (l : Seg) (d : ℝ) :
    ((Constraint.pointLineDistance p l d).residualV v).degenerate = true ↔
      dist2 (pt v l.p0) (pt v l.p1) < (EPS : ℝ) := by
  have hswap : dist2 (pt v l.p0) (pt v l.p1) =
      Real.sqrt ((v l.p0.y - v l.p1.y) * (v l.p0.y - v l.p1.y) +
        (v l.p1.x - v l.p0.x) * (v l.p1.x - v l.p0.x)) := by
    unfold dist2 pt; congr 1; ring
  rw [hswap]
  simp only [Constraint.residualV, hypot_real]
  split <;> simp_all [Res.degen, Res.mk1]

/-- `PointLineDistance(p, l, d)`, guard inactive: the error measure is the signed distance of `p`
from the directed line `l.p0 → l.p1` (positive on the left) minus `d`; scale factor 1, same sign
convention as the specification. -/
theorem measures_pointLineDistance (p : Pt) (l : Seg) (d : ℝ)
    (h : ((Constraint.pointLineDistance p l d).residualV v).degenerate = false) :
    ((Constraint.pointLineDistance p l d).residualV v).r0
      = signedLineDist (pt v p) (pt v l.p0) (pt v l.p1) - d := by
  simp only [Constraint.residualV, hypot_real] at h ⊢
  split at h
  · simp [Res.degen] at h
  · rename_i hg
    rw [if_neg hg]
    simp only [Res.mk1, signedLineDist, cross, vec, len, pt]
    congr 1
    congr 1
    · ring
    · congr 1; ring

/-- `PointLineDistance`, guard inactive: reported satisfied iff the signed distance of the point
from the line is `d` up to `EPSILON`. -/
theorem satisfied_pointLineDistance (p : Pt) (l : Seg) (d : ℝ)
    (h : ((Constraint.pointLineDistance p l d).residualV v).degenerate = false) :
    isSatisfied (Constraint.pointLineDistance p l d).residualDim
      ((Constraint.pointLineDistance p l d).residualV v) = some true ↔
    |signedLineDist (pt v p) (pt v l.p0) (pt v l.p1) - d| < (EPS : ℝ) := by
  rw [show (Constraint.pointLineDistance p l d).residualDim = 1 from rfl, isSatisfied_one,
    measures_pointLineDistance v p l d h]

/-- `PointLineDistance`, guard inactive: zero error iff the signed distance is exactly `d`. -/
theorem zero_iff_pointLineDistance (p : Pt) (l : Seg) (d : ℝ)
    (h : ((Constraint.pointLineDistance p l d).residualV v).degenerate = false) :
    ((Constraint.pointLineDistance p l d).residualV v).r0 = 0 ↔
      signedLineDist (pt v p) (pt v l.p0) (pt v l.p1) = d := by
  rw [measures_pointLineDistance v p l d h, sub_eq_zero]

/-- `PointLineDistance`, guard active (line shorter than `EPSILON`): the error measure is `0` and
the constraint is reported **satisfied**, wherever the point is and whatever `d` is. -/
theorem satisfied_of_guard_pointLineDistance (p : Pt) (l : Seg) (d : ℝ)
    (h : ((Constraint.pointLineDistance p l d).residualV v).degenerate = true) :
    isSatisfied (Constraint.pointLineDistance p l d).residualDim
      ((Constraint.pointLineDistance p l d).residualV v) = some true := by
  have : (Constraint.pointLineDistance p l d).residualV v = Res.degen := by
    simp only [Constraint.residualV] at h ⊢
    split at h
    · rename_i hg; rw [if_pos hg]
    · simp [Res.mk1] at h
  rw [this]; exact isSatisfied_degen

/-! ### VerticalPointLineDistance -/

/-- `VerticalPointLineDistance`: the guard fires exactly when the line is within `EPSILON` of
vertical (`|Δx| < EPSILON`) or its *squared* length is below `EPSILON` (length below `0.01`). -/
theorem guard_verticalPointLineDistance (p : Pt) (l : Seg) (d : ℝ) :
    ((Constraint.verticalPointLineDistance p l d).residualV v).degenerate = true ↔
      (|(dir v l).x| < (EPS : ℝ) ∨ dot (dir v l) (dir v l) < (EPS : ℝ)) := by
  simp only [Constraint.residualV, abs_real, dir, vec, dot, pt]
  split <;> simp_all [Res.degen, Res.mk1]

/-- `VerticalPointLineDistance(p, l, d)`, guard inactive: the error measure is
`Δx · ((p.y − yOnLine(p.x)) − d)`: the height of the point above the line, measured at the point's
abscissa, minus `d`, **multiplied through by the signed `Δx = l.p1.x − l.p0.x`** (the specification
has scale factor `k = |Δx|`; the signs agree up to the sign of `Δx`). -/
theorem measures_verticalPointLineDistance (p : Pt) (l : Seg) (d : ℝ)
    (h : ((Constraint.verticalPointLineDistance p l d).residualV v).degenerate = false) :
    (dir v l).x ≠ 0 ∧
    ((Constraint.verticalPointLineDistance p l d).residualV v).r0
      = (dir v l).x * (((pt v p).y - yOnLine (pt v l.p0) (pt v l.p1) (pt v p).x) - d) := by
  simp only [Constraint.residualV, abs_real] at h ⊢
  split at h
  · simp [Res.degen] at h
  · rename_i hg
    rw [if_neg hg]
    have hdx : v l.p1.x - v l.p0.x ≠ 0 := by
      intro h0
      apply hg; left; rw [h0, abs_zero]; exact EPS_pos
    refine ⟨by simpa only [dir, vec, pt] using hdx, ?_⟩
    simp only [Res.mk1, yOnLine, dir, vec, pt]
    field_simp
    ring

/-- `VerticalPointLineDistance`, guard inactive: reported satisfied iff
`|Δx| · |height − d| < EPSILON` (so the tolerance on the height is `EPSILON / |Δx|`). -/
theorem satisfied_verticalPointLineDistance (p : Pt) (l : Seg) (d : ℝ)
    (h : ((Constraint.verticalPointLineDistance p l d).residualV v).degenerate = false) :
    isSatisfied (Constraint.verticalPointLineDistance p l d).residualDim
      ((Constraint.verticalPointLineDistance p l d).residualV v) = some true ↔
    |(dir v l).x| * |((pt v p).y - yOnLine (pt v l.p0) (pt v l.p1) (pt v p).x) - d|
      < (EPS : ℝ) := by
  rw [show (Constraint.verticalPointLineDistance p l d).residualDim = 1 from rfl, isSatisfied_one,
    (measures_verticalPointLineDistance v p l d h).2, abs_mul]

/-- `VerticalPointLineDistance`, guard inactive: zero error iff the point is exactly `d` above the
line (measured vertically). -/
theorem zero_iff_verticalPointLineDistance (p : Pt) (l : Seg) (d : ℝ)
    (h : ((Constraint.verticalPointLineDistance p l d).residualV v).degenerate = false) :
    ((Constraint.verticalPointLineDistance p l d).residualV v).r0 = 0 ↔
      (pt v p).y - yOnLine (pt v l.p0) (pt v l.p1) (pt v p).x = d := by
  obtain ⟨hdx, hm⟩ := measures_verticalPointLineDistance v p l d h
  rw [hm, mul_eq_zero, sub_eq_zero]
  exact ⟨fun h' => h'.resolve_left hdx, Or.inr⟩

/-- `VerticalPointLineDistance`, guard active: reported **satisfied** whatever the geometry. -/
theorem satisfied_of_guard_verticalPointLineDistance (p : Pt) (l : Seg) (d : ℝ)
    (h : ((Constraint.verticalPointLineDistance p l d).residualV v).degenerate = true) :
    isSatisfied (Constraint.verticalPointLineDistance p l d).residualDim
      ((Constraint.verticalPointLineDistance p l d).residualV v) = some true := by
  have : (Constraint.verticalPointLineDistance p l d).residualV v = Res.degen := by
    simp only [Constraint.residualV] at h ⊢
    split at h
    · rename_i hg; rw [if_pos hg]
    · simp [Res.mk1] at h
  rw [this]; exact isSatisfied_degen

/-! ### HorizontalPointLineDistance -/

/-- `HorizontalPointLineDistance`: the guard fires exactly when the line is within `EPSILON` of
horizontal (`|Δy| < EPSILON`) or its *squared* length is below `EPSILON`. -/
theorem guard_horizontalPointLineDistance (p : Pt) (l : Seg) (d : ℝ) :
    ((Constraint.horizontalPointLineDistance p l d).residualV v).degenerate = true ↔
      (|(dir v l).y| < (EPS : ℝ) ∨ dot (dir v l) (dir v l) < (EPS : ℝ)) := by
  simp only [Constraint.residualV, abs_real, dir, vec, dot, pt]
  split <;> simp_all [Res.degen, Res.mk1]

/-- `HorizontalPointLineDistance(p, l, d)`, guard inactive: the error measure is
`(p.x − xOnLine(p.y)) − d`: the horizontal offset of the point from the line, measured at the
point's ordinate, minus `d`; scale factor 1 (unlike the vertical variant, this one is normalised). -/
theorem measures_horizontalPointLineDistance (p : Pt) (l : Seg) (d : ℝ)
    (h : ((Constraint.horizontalPointLineDistance p l d).residualV v).degenerate = false) :
    (dir v l).y ≠ 0 ∧
    ((Constraint.horizontalPointLineDistance p l d).residualV v).r0
      = ((pt v p).x - xOnLine (pt v l.p0) (pt v l.p1) (pt v p).y) - d := by
  simp only [Constraint.residualV, abs_real] at h ⊢
  split at h
  · simp [Res.degen] at h
  · rename_i hg
    rw [if_neg hg]
    have hdy : v l.p1.y - v l.p0.y ≠ 0 := by
      intro h0
      apply hg; left; rw [h0, abs_zero]; exact EPS_pos
    have hdy' : -v l.p0.y + v l.p1.y ≠ 0 := by rwa [neg_add_eq_sub]
    refine ⟨by simpa only [dir, vec, pt] using hdy, ?_⟩
    simp only [Res.mk1, xOnLine, dir, vec, pt, recip, lit_1]
    field_simp
    ring

/-- `HorizontalPointLineDistance`, guard inactive: reported satisfied iff the horizontal offset of
the point from the line is `d` up to `EPSILON`. -/
theorem satisfied_horizontalPointLineDistance (p : Pt) (l : Seg) (d : ℝ)
    (h : ((Constraint.horizontalPointLineDistance p l d).residualV v).degenerate = false) :
    isSatisfied (Constraint.horizontalPointLineDistance p l d).residualDim
      ((Constraint.horizontalPointLineDistance p l d).residualV v) = some true ↔
    |((pt v p).x - xOnLine (pt v l.p0) (pt v l.p1) (pt v p).y) - d| < (EPS : ℝ) := by
  rw [show (Constraint.horizontalPointLineDistance p l d).residualDim = 1 from rfl,
    isSatisfied_one, (measures_horizontalPointLineDistance v p l d h).2]

/-- `HorizontalPointLineDistance`, guard inactive: zero error iff the point is exactly `d` to the
right of the line (measured horizontally). -/
theorem zero_iff_horizontalPointLineDistance (p : Pt) (l : Seg) (d : ℝ)
    (h : ((Constraint.horizontalPointLineDistance p l d).residualV v).degenerate = false) :
    ((Constraint.horizontalPointLineDistance p l d).residualV v).r0 = 0 ↔
      (pt v p).x - xOnLine (pt v l.p0) (pt v l.p1) (pt v p).y = d := by
  rw [(measures_horizontalPointLineDistance v p l d h).2, sub_eq_zero]

/-- `HorizontalPointLineDistance`, guard active: reported **satisfied** whatever the geometry. -/
theorem satisfied_of_guard_horizontalPointLineDistance (p : Pt) (l : Seg) (d : ℝ)
    (h : ((Constraint.horizontalPointLineDistance p l d).residualV v).degenerate = true) :
    isSatisfied (Constraint.horizontalPointLineDistance p l d).residualDim
      ((Constraint.horizontalPointLineDistance p l d).residualV v) = some true := by
  have : (Constraint.horizontalPointLineDistance p l d).residualV v = Res.degen := by
    simp only [Constraint.residualV] at h ⊢
    split at h
    · rename_i hg; rw [if_pos hg]
    · simp [Res.mk1] at h
  rw [this]; exact isSatisfied_degen

/-! ### Symmetric -/

/-- `Symmetric(l, a, b)`: the residual has **no guard** (the flag is never raised), although it
divides by the squared length of the axis. -/
theorem guard_symmetric (l : Seg) (a b : Pt) :
    ((Constraint.symmetric l a b : Constraint ℝ).residualV v).degenerate = false := rfl

/-- `Symmetric(l, a, b)`, axis not collapsed (`l.p0 ≠ l.p1`): the two error components are the
coordinates of `mirror(a) − b`, where `mirror(a)` is the mirror image of `a` in the line through
`l.p0` and `l.p1`; scale factor 1. -/
theorem measures_symmetric (l : Seg) (a b : Pt)
    (hax : dot (dir v l) (dir v l) ≠ 0) :
    ((Constraint.symmetric l a b : Constraint ℝ).residualV v).r0
      = (mirror (pt v a) (pt v l.p0) (pt v l.p1)).x - (pt v b).x ∧
    ((Constraint.symmetric l a b : Constraint ℝ).residualV v).r1
      = (mirror (pt v a) (pt v l.p0) (pt v l.p1)).y - (pt v b).y := by
  simp only [dir, dot, vec, pt] at hax
  simp only [Constraint.residualV, Res.mk2, mirror, foot, dot, vec, pt, lit_2]
  generalize hD : (v l.p1.x - v l.p0.x) * (v l.p1.x - v l.p0.x) +
    (v l.p1.y - v l.p0.y) * (v l.p1.y - v l.p0.y) = D at hax ⊢
  constructor <;> · field_simp; ring

/-- `Symmetric`, axis not collapsed: reported satisfied iff `b` is within `EPSILON` of the mirror
image of `a` in each coordinate. -/
theorem satisfied_symmetric (l : Seg) (a b : Pt) (hax : dot (dir v l) (dir v l) ≠ 0) :
    isSatisfied (Constraint.symmetric l a b : Constraint ℝ).residualDim
      ((Constraint.symmetric l a b : Constraint ℝ).residualV v) = some true ↔
    |(mirror (pt v a) (pt v l.p0) (pt v l.p1)).x - (pt v b).x| < (EPS : ℝ) ∧
    |(mirror (pt v a) (pt v l.p0) (pt v l.p1)).y - (pt v b).y| < (EPS : ℝ) := by
  rw [show (Constraint.symmetric l a b : Constraint ℝ).residualDim = 2 from rfl,
    isSatisfied_two, (measures_symmetric v l a b hax).1, (measures_symmetric v l a b hax).2]

/-- `Symmetric`, axis not collapsed: zero error iff `b` is exactly the mirror image of `a`,
i.e. iff the midpoint of `a` and `b` lies on the axis and `b − a` is perpendicular to it. -/
theorem zero_iff_symmetric (l : Seg) (a b : Pt) (hax : dot (dir v l) (dir v l) ≠ 0) :
    ((((Constraint.symmetric l a b : Constraint ℝ).residualV v).r0 = 0 ∧
      ((Constraint.symmetric l a b : Constraint ℝ).residualV v).r1 = 0) ↔
      pt v b = mirror (pt v a) (pt v l.p0) (pt v l.p1)) ∧
    (pt v b = mirror (pt v a) (pt v l.p0) (pt v l.p1) ↔
      cross (dir v l) (vec (pt v l.p0) (mid (pt v a) (pt v b))) = 0 ∧
      dot (vec (pt v a) (pt v b)) (dir v l) = 0) := by
  refine ⟨?_, eq_mirror_iff _ _ _ _ hax⟩
  rw [(measures_symmetric v l a b hax).1, (measures_symmetric v l a b hax).2, sub_eq_zero,
    sub_eq_zero]
  constructor
  · rintro ⟨h0, h1⟩
    generalize mirror (pt v a) (pt v l.p0) (pt v l.p1) = m at h0 h1 ⊢
    cases m; simp only [pt, P2.mk.injEq] at h0 h1 ⊢; exact ⟨h0.symm, h1.symm⟩
  · intro h; rw [← h]; exact ⟨rfl, rfl⟩

/-! ### LinesAtAngle -/

/-- `LinesAtAngle(l0, l1, Parallel)`: the error measure is the **unnormalised** cross product of
the two direction vectors, `d0 × d1 = |d0| |d1| sin ∠(d0, d1)`; the specification's error is
`sin ∠` with scale factor `k = |d0| |d1|`.  No guard. -/
theorem measures_parallel (l0 l1 : Seg) :
    ((Constraint.linesAtAngle l0 l1 .parallel : Constraint ℝ).residualV v).r0
      = cross (dir v l0) (dir v l1) ∧
    cross (dir v l0) (dir v l1)
      = len (dir v l0) * len (dir v l1) * Real.sin (angleFromTo (dir v l0) (dir v l1)) ∧
    ((Constraint.linesAtAngle l0 l1 .parallel : Constraint ℝ).residualV v).degenerate = false :=
  ⟨rfl, cross_eq_len_mul_sin _ _, rfl⟩

/-- `Parallel` is reported satisfied iff `|d0 × d1| < EPSILON`, i.e.
`|d0| |d1| |sin ∠(d0, d1)| < EPSILON`: the angular tolerance shrinks with the product of the
lengths, and two lines whose lengths multiply to less than `EPSILON` are always "parallel". -/
theorem satisfied_parallel (l0 l1 : Seg) :
    (isSatisfied (Constraint.linesAtAngle l0 l1 .parallel : Constraint ℝ).residualDim
      ((Constraint.linesAtAngle l0 l1 .parallel : Constraint ℝ).residualV v) = some true ↔
      |cross (dir v l0) (dir v l1)| < (EPS : ℝ)) ∧
    (|cross (dir v l0) (dir v l1)| =
      len (dir v l0) * len (dir v l1) * |Real.sin (angleFromTo (dir v l0) (dir v l1))|) := by
  constructor
  · rw [show (Constraint.linesAtAngle l0 l1 .parallel : Constraint ℝ).residualDim = 1 from rfl,
      isSatisfied_one, (measures_parallel v l0 l1).1]
  · rw [(measures_parallel v l0 l1).2.1, abs_mul, abs_mul, abs_of_nonneg (len_nonneg _),
      abs_of_nonneg (len_nonneg _)]

/-- `Parallel`: zero error iff the direction vectors are linearly dependent (`d0 × d1 = 0`:
parallel or anti-parallel lines, or a collapsed line). -/
theorem zero_iff_parallel (l0 l1 : Seg) :
    ((Constraint.linesAtAngle l0 l1 .parallel : Constraint ℝ).residualV v).r0 = 0 ↔
      cross (dir v l0) (dir v l1) = 0 := by
  rw [(measures_parallel v l0 l1).1]

/-- `LinesAtAngle(l0, l1, Perpendicular)`: the error measure is the **unnormalised** dot product of
the two direction vectors, `d0 · d1 = |d0| |d1| cos ∠(d0, d1)`; the specification's error is
`cos ∠` with scale factor `k = |d0| |d1|`.  No guard. -/
theorem measures_perpendicular (l0 l1 : Seg) :
    ((Constraint.linesAtAngle l0 l1 .perpendicular : Constraint ℝ).residualV v).r0
      = dot (dir v l0) (dir v l1) ∧
    dot (dir v l0) (dir v l1)
      = len (dir v l0) * len (dir v l1) * Real.cos (angleFromTo (dir v l0) (dir v l1)) ∧
    ((Constraint.linesAtAngle l0 l1 .perpendicular : Constraint ℝ).residualV v).degenerate
      = false :=
  ⟨rfl, dot_eq_len_mul_cos _ _, rfl⟩

/-- `Perpendicular` is reported satisfied iff `|d0 · d1| < EPSILON`, i.e.
`|d0| |d1| |cos ∠(d0, d1)| < EPSILON`. -/
theorem satisfied_perpendicular (l0 l1 : Seg) :
    (isSatisfied (Constraint.linesAtAngle l0 l1 .perpendicular : Constraint ℝ).residualDim
      ((Constraint.linesAtAngle l0 l1 .perpendicular : Constraint ℝ).residualV v) = some true ↔
      |dot (dir v l0) (dir v l1)| < (EPS : ℝ)) ∧
    (|dot (dir v l0) (dir v l1)| =
      len (dir v l0) * len (dir v l1) * |Real.cos (angleFromTo (dir v l0) (dir v l1))|) := by
  constructor
  · rw [show (Constraint.linesAtAngle l0 l1 .perpendicular : Constraint ℝ).residualDim = 1
      from rfl, isSatisfied_one, (measures_perpendicular v l0 l1).1]
  · rw [(measures_perpendicular v l0 l1).2.1, abs_mul, abs_mul, abs_of_nonneg (len_nonneg _),
      abs_of_nonneg (len_nonneg _)]

/-- `Perpendicular`: zero error iff the direction vectors are orthogonal (`d0 · d1 = 0`; includes a
collapsed line). -/
theorem zero_iff_perpendicular (l0 l1 : Seg) :
    ((Constraint.linesAtAngle l0 l1 .perpendicular : Constraint ℝ).residualV v).r0 = 0 ↔
      dot (dir v l0) (dir v l1) = 0 := by
  rw [(measures_perpendicular v l0 l1).1]

/-- `LinesAtAngle(Other θ)`: the guard fires exactly when one of the lines is shorter than
`EPSILON`. -/
theorem guard_linesAtAngle_other (l0 l1 : Seg) (θ : Angle ℝ) :
    ((Constraint.linesAtAngle l0 l1 (.other θ)).residualV v).degenerate = true ↔
      (len (dir v l0) < (EPS : ℝ) ∨ len (dir v l1) < (EPS : ℝ)) := by
  have h0 : len (dir v l0) = Real.sqrt ((v l0.p0.x - v l0.p1.x) * (v l0.p0.x - v l0.p1.x) +
      (v l0.p0.y - v l0.p1.y) * (v l0.p0.y - v l0.p1.y)) := by
    unfold len dir vec pt; congr 1; ring
  have h1 : len (dir v l1) = Real.sqrt ((v l1.p0.x - v l1.p1.x) * (v l1.p0.x - v l1.p1.x) +
      (v l1.p0.y - v l1.p1.y) * (v l1.p0.y - v l1.p1.y)) := by
    unfold len dir vec pt; congr 1; ring
  rw [h0, h1]
  simp only [Constraint.residualV, linesAtAngleResidual, hypot_real]
  split <;> simp_all [Res.degen, Res.mk1]

/-- `LinesAtAngle(l0, l1, Other θ)`, guard inactive: the error measure is the wrapped difference
between the signed angle from `d0` to `d1` (`atan2 (d0 × d1) (d0 · d1)`, counter-clockwise
positive) and `θ` in radians: a number of `(−π, π]` congruent to `∠(d0, d1) − θ` modulo `2π`.
The specification's error (`angular_distance`) is its absolute value; scale factor 1. -/
theorem measures_linesAtAngle_other (l0 l1 : Seg) (θ : Angle ℝ)
    (h : ((Constraint.linesAtAngle l0 l1 (.other θ)).residualV v).degenerate = false) :
    ((Constraint.linesAtAngle l0 l1 (.other θ)).residualV v).r0
      = wrapAngleDelta (angleFromTo (dir v l0) (dir v l1) - θ.toRadians) := by
  simp only [Constraint.residualV, linesAtAngleResidual] at h ⊢
  split at h
  · simp [Res.degen] at h
  · rename_i hg
    rw [if_neg hg]
    rfl

/-- `LinesAtAngle(Other θ)`, guard inactive: reported satisfied iff the signed angle from `d0` to
`d1` is within `EPSILON` radians of `θ` modulo a full turn. -/
theorem satisfied_linesAtAngle_other (l0 l1 : Seg) (θ : Angle ℝ)
    (h : ((Constraint.linesAtAngle l0 l1 (.other θ)).residualV v).degenerate = false) :
    isSatisfied (Constraint.linesAtAngle l0 l1 (.other θ)).residualDim
      ((Constraint.linesAtAngle l0 l1 (.other θ)).residualV v) = some true ↔
    ∃ k : ℤ, |angleFromTo (dir v l0) (dir v l1) - θ.toRadians + 2 * Real.pi * k| < (EPS : ℝ) := by
  rw [show (Constraint.linesAtAngle l0 l1 (.other θ)).residualDim = 1 from rfl, isSatisfied_one,
    measures_linesAtAngle_other v l0 l1 θ h, abs_wrapAngleDelta_lt_iff _ _ EPS_lt_pi.le]

/-- `LinesAtAngle(Other θ)`, guard inactive: zero error iff the signed angle from `d0` to `d1`
equals `θ` modulo a full turn, i.e. iff `d1` points in the direction of `d0` turned
counter-clockwise by `θ`: `d0 · d1 = |d0||d1| cos θ` and `d0 × d1 = |d0||d1| sin θ`. -/
theorem zero_iff_linesAtAngle_other (l0 l1 : Seg) (θ : Angle ℝ)
    (h : ((Constraint.linesAtAngle l0 l1 (.other θ)).residualV v).degenerate = false) :
    (((Constraint.linesAtAngle l0 l1 (.other θ)).residualV v).r0 = 0 ↔
      ∃ k : ℤ, angleFromTo (dir v l0) (dir v l1) - θ.toRadians = 2 * Real.pi * k) ∧
    ((∃ k : ℤ, angleFromTo (dir v l0) (dir v l1) - θ.toRadians = 2 * Real.pi * k) ↔
      dot (dir v l0) (dir v l1) = len (dir v l0) * len (dir v l1) * Real.cos θ.toRadians ∧
      cross (dir v l0) (dir v l1) = len (dir v l0) * len (dir v l1) * Real.sin θ.toRadians) := by
  constructor
  · rw [measures_linesAtAngle_other v l0 l1 θ h, wrapAngleDelta_eq_zero_iff]
  · have hg := (guard_linesAtAngle_other v l0 l1 θ).not.1 (by simp [h])
    rw [not_or, not_lt, not_lt] at hg
    have hpos : 0 < len (dir v l0) * len (dir v l1) :=
      mul_pos (lt_of_lt_of_le EPS_pos hg.1) (lt_of_lt_of_le EPS_pos hg.2)
    rw [← Real.Angle.angle_eq_iff_two_pi_dvd_sub]
    constructor
    · intro he
      have hc := congrArg Real.Angle.cos he
      have hs := congrArg Real.Angle.sin he
      simp only [Real.Angle.cos_coe, Real.Angle.sin_coe] at hc hs
      rw [← hc, ← hs]
      exact ⟨dot_eq_len_mul_cos _ _, cross_eq_len_mul_sin _ _⟩
    · rintro ⟨hd, hc⟩
      rw [dot_eq_len_mul_cos] at hd
      rw [cross_eq_len_mul_sin] at hc
      exact Real.Angle.cos_sin_inj (mul_left_cancel₀ hpos.ne' hd) (mul_left_cancel₀ hpos.ne' hc)

/-- `LinesAtAngle(Other θ)`, guard active (a line shorter than `EPSILON`): the error measure is `0`
and the constraint is reported **satisfied** whatever the angle. -/
theorem satisfied_of_guard_linesAtAngle_other (l0 l1 : Seg) (θ : Angle ℝ)
    (h : ((Constraint.linesAtAngle l0 l1 (.other θ)).residualV v).degenerate = true) :
    isSatisfied (Constraint.linesAtAngle l0 l1 (.other θ)).residualDim
      ((Constraint.linesAtAngle l0 l1 (.other θ)).residualV v) = some true := by
  have : (Constraint.linesAtAngle l0 l1 (.other θ)).residualV v = Res.degen := by
    simp only [Constraint.residualV, linesAtAngleResidual] at h ⊢
    split at h
    · rename_i hg; rw [if_pos hg]
    · simp [Res.mk1] at h
  rw [this]; exact isSatisfied_degen

end Kinds

/-! ## 6. Non-vacuity: concrete configurations -/

namespace MeaningEx

/-- A concrete assignment: `Q0 = (0,0)`, `Q1 = (3,4)`, `Q2 = (4,0)`, `Q3 = (1,2)`, `Q4 = (0,1)`,
`Q5 = (0.009, 0)`, `Q6 = (0, 0.009)`, `Q7 = (100, 100)`; every other variable is `0`. -/
noncomputable def vEx : Nat → ℝ
  | 2 => 3 | 3 => 4 | 4 => 4 | 6 => 1 | 7 => 2 | 9 => 1 | 10 => 0.009 | 13 => 0.009
  | 14 => 100 | 15 => 100 | _ => 0

/-- The point with variables `0`, `1`. -/
def Q0 : Pt := ⟨0, 1⟩
/-- The point with variables `2`, `3`. -/
def Q1 : Pt := ⟨2, 3⟩
/-- The point with variables `4`, `5`. -/
def Q2 : Pt := ⟨4, 5⟩
/-- The point with variables `6`, `7`. -/
def Q3 : Pt := ⟨6, 7⟩
/-- The point with variables `8`, `9`. -/
def Q4 : Pt := ⟨8, 9⟩
/-- The point with variables `10`, `11`. -/
def Q5 : Pt := ⟨10, 11⟩
/-- The point with variables `12`, `13`. -/
def Q6 : Pt := ⟨12, 13⟩
/-- The point with variables `14`, `15`. -/
def Q7 : Pt := ⟨14, 15⟩

/-- `|(0,0) − (3,4)| = 5`. -/
theorem dist2_Q0_Q1 : dist2 (pt vEx Q0) (pt vEx Q1) = 5 := by
  simp only [dist2, pt, vEx, Q0, Q1]
  rw [show ((0 : ℝ) - 3) ^ 2 + (0 - 4) ^ 2 = 5 ^ 2 by norm_num]
  exact Real.sqrt_sq (by norm_num)

/-- `|(0,0) − (4,0)| = 4`. -/
theorem dist2_Q0_Q2 : dist2 (pt vEx Q0) (pt vEx Q2) = 4 := by
  simp only [dist2, pt, vEx, Q0, Q2]
  rw [show ((0 : ℝ) - 4) ^ 2 + (0 - 0) ^ 2 = 4 ^ 2 by norm_num]
  exact Real.sqrt_sq (by norm_num)

/-- `(0,0)` and `(3,4)` are reported at distance `5` … -/
example : isSatisfied (Constraint.distance Q0 Q1 (5 : ℝ)).residualDim
    ((Constraint.distance Q0 Q1 5).residualV vEx) = some true := by
  rw [satisfied_distance, dist2_Q0_Q1]; simpa using EPS_pos

/-- … and not at distance `6`. -/
example : ¬ isSatisfied (Constraint.distance Q0 Q1 (6 : ℝ)).residualDim
    ((Constraint.distance Q0 Q1 6).residualV vEx) = some true := by
  rw [satisfied_distance, dist2_Q0_Q1, EPS_real]; norm_num

/-- `(1,2)` is reported *not* to be the midpoint of `(0,0)`–`(4,0)` (it is off by `(−1, 2)`). -/
example : ¬ isSatisfied (Constraint.midpoint ⟨Q0, Q2⟩ Q3 : Constraint ℝ).residualDim
    ((Constraint.midpoint ⟨Q0, Q2⟩ Q3 : Constraint ℝ).residualV vEx) = some true := by
  rw [satisfied_midpoint, EPS_real]
  simp only [pt, mid, vEx, Q0, Q2, Q3]; norm_num

/-- The guard of `PointLineDistance` is inactive on the line `(0,0) → (4,0)` … -/
theorem pld_guard_inactive (p : Pt) (d : ℝ) :
    ((Constraint.pointLineDistance p ⟨Q0, Q2⟩ d).residualV vEx).degenerate = false := by
  rw [Bool.eq_false_iff]
  intro h
  rw [guard_pointLineDistance] at h
  change dist2 (pt vEx Q0) (pt vEx Q2) < _ at h
  rw [dist2_Q0_Q2, EPS_real] at h; norm_num at h

/-- … the point `(1,2)` is at signed distance `2` on its left: `PointLineDistance … 2` is reported
satisfied, `PointLineDistance … (−2)` is not. -/
example :
    isSatisfied (Constraint.pointLineDistance Q3 ⟨Q0, Q2⟩ (2 : ℝ)).residualDim
      ((Constraint.pointLineDistance Q3 ⟨Q0, Q2⟩ 2).residualV vEx) = some true ∧
    ¬ isSatisfied (Constraint.pointLineDistance Q3 ⟨Q0, Q2⟩ (-2 : ℝ)).residualDim
      ((Constraint.pointLineDistance Q3 ⟨Q0, Q2⟩ (-2)).residualV vEx) = some true := by
  have hs : signedLineDist (pt vEx Q3) (pt vEx Q0) (pt vEx Q2) = 2 := by
    unfold signedLineDist
    rw [len_vec, dist2_Q0_Q2]
    simp only [cross, vec, pt, vEx, Q0, Q2, Q3]; norm_num
  rw [satisfied_pointLineDistance _ _ _ _ (pld_guard_inactive _ _),
    satisfied_pointLineDistance _ _ _ _ (pld_guard_inactive _ _), hs, EPS_real]
  norm_num

/-- **Verdict under an active guard**: on the zero-length "line" `(0,0) → (0,0)` the point
`(100,100)` is reported to be at distance `7` from the line (and at any other distance). -/
theorem guard_verdict_example (d : ℝ) :
    isSatisfied (Constraint.pointLineDistance Q7 ⟨Q0, Q0⟩ d).residualDim
      ((Constraint.pointLineDistance Q7 ⟨Q0, Q0⟩ d).residualV vEx) = some true := by
  apply satisfied_of_guard_pointLineDistance
  rw [guard_pointLineDistance]
  change dist2 (pt vEx Q0) (pt vEx Q0) < _
  rw [(dist2_eq_zero_iff _ _).2 rfl]; exact EPS_pos

/-- **Unnormalised measures**: the segments `(0,0) → (0.009,0)` and `(0,0) → (0,0.009)` (each 90
times longer than `EPSILON`, exactly at right angles) are reported parallel *and* perpendicular:
`d0 × d1 = 8.1e-5 < EPSILON`. -/
theorem short_lines_parallel_and_perpendicular :
    isSatisfied (Constraint.linesAtAngle ⟨Q0, Q5⟩ ⟨Q0, Q6⟩ .parallel : Constraint ℝ).residualDim
      ((Constraint.linesAtAngle ⟨Q0, Q5⟩ ⟨Q0, Q6⟩ .parallel : Constraint ℝ).residualV vEx)
        = some true ∧
    isSatisfied
      (Constraint.linesAtAngle ⟨Q0, Q5⟩ ⟨Q0, Q6⟩ .perpendicular : Constraint ℝ).residualDim
      ((Constraint.linesAtAngle ⟨Q0, Q5⟩ ⟨Q0, Q6⟩ .perpendicular : Constraint ℝ).residualV vEx)
        = some true := by
  rw [(satisfied_parallel _ _ _).1, (satisfied_perpendicular _ _ _).1, EPS_real]
  simp only [cross, dot, dir, vec, pt, vEx, Q0, Q5, Q6]
  norm_num

/-- The guard of `LinesAtAngle(Other)` is inactive on the segments `(0,0) → (4,0)` and
`(0,0) → (0,1)`, the angle from the first to the second is `π/2`, and `Other(90°)` is reported
satisfied while `Other(−90°)` is not (the angle is signed). -/
example :
    isSatisfied (Constraint.linesAtAngle ⟨Q0, Q2⟩ ⟨Q0, Q4⟩ (.other (⟨90, true⟩ : Angle ℝ))).residualDim
      ((Constraint.linesAtAngle ⟨Q0, Q2⟩ ⟨Q0, Q4⟩ (.other (⟨90, true⟩ : Angle ℝ))).residualV vEx)
        = some true ∧
    ¬ isSatisfied (Constraint.linesAtAngle ⟨Q0, Q2⟩ ⟨Q0, Q4⟩ (.other (⟨-90, true⟩ : Angle ℝ))).residualDim
      ((Constraint.linesAtAngle ⟨Q0, Q2⟩ ⟨Q0, Q4⟩ (.other (⟨-90, true⟩ : Angle ℝ))).residualV vEx)
        = some true := by
  have hpi := Real.pi_pos
  have hang : angleFromTo (dir vEx ⟨Q0, Q2⟩) (dir vEx ⟨Q0, Q4⟩) = Real.pi / 2 := by
    simp only [angleFromTo, dot, cross, dir, vec, pt, vEx, Q0, Q2, Q4]
    rw [show (⟨(4 - 0) * (0 - 0) + (0 - 0) * (1 - 0), (4 - 0) * (1 - 0) - (0 - 0) * (0 - 0)⟩ : ℂ)
      = ((4 : ℝ) : ℂ) * Complex.I by apply Complex.ext <;> simp]
    rw [Complex.arg_real_mul _ (by norm_num), Complex.arg_I]
  have hl0 : len (dir vEx ⟨Q0, Q2⟩) = 4 := by
    simp only [len, dir, vec, pt, vEx, Q0, Q2]
    rw [show ((4 : ℝ) - 0) ^ 2 + (0 - 0) ^ 2 = 4 ^ 2 by norm_num]
    exact Real.sqrt_sq (by norm_num)
  have hl1 : len (dir vEx ⟨Q0, Q4⟩) = 1 := by
    simp only [len, dir, vec, pt, vEx, Q0, Q4]
    rw [show ((0 : ℝ) - 0) ^ 2 + (1 - 0) ^ 2 = 1 ^ 2 by norm_num]
    exact Real.sqrt_sq (by norm_num)
  have hguard : ∀ θ : Angle ℝ,
      ((Constraint.linesAtAngle ⟨Q0, Q2⟩ ⟨Q0, Q4⟩ (.other θ)).residualV vEx).degenerate
        = false := by
    intro θ
    rw [Bool.eq_false_iff]
    intro h
    rw [guard_linesAtAngle_other, hl0, hl1, EPS_real] at h
    norm_num at h
  rw [satisfied_linesAtAngle_other _ _ _ _ (hguard _),
    satisfied_linesAtAngle_other _ _ _ _ (hguard _), hang]
  simp only [toRadians_real, if_true]
  constructor
  · refine ⟨0, ?_⟩
    rw [show Real.pi / 2 - 90 * (Real.pi / 180) + 2 * Real.pi * ((0 : ℤ) : ℝ) = 0 by
      push_cast; ring]
    simpa using EPS_pos
  · rintro ⟨k, hk⟩
    rw [show Real.pi / 2 - -90 * (Real.pi / 180) + 2 * Real.pi * (k : ℝ)
      = Real.pi * (1 + 2 * k) by ring, abs_mul, abs_of_pos hpi] at hk
    have h1 : (1 : ℝ) ≤ |1 + 2 * (k : ℝ)| := by
      have : (1 : ℤ) ≤ |1 + 2 * k| := by
        rcases le_or_gt 0 k with h | h
        · rw [abs_of_nonneg (by omega)]; omega
        · rw [abs_of_neg (by omega)]; omega
      exact_mod_cast this
    have := Real.two_le_pi
    rw [EPS_real] at hk
    nlinarith

/-- `wrap_angle_delta` really wraps: `3π ↦ π`, `2π + 1/2 ↦ 1/2`, `−π ↦ π`. -/
example : wrapAngleDelta (3 * Real.pi) = Real.pi ∧
    wrapAngleDelta (2 * Real.pi + 1 / 2) = 1 / 2 ∧ wrapAngleDelta (-Real.pi) = Real.pi := by
  have hpi := Real.pi_pos
  have h2 := Real.two_le_pi
  refine ⟨wrapAngleDelta_unique _ _ (-1) ⟨by linarith, le_refl _⟩ (by push_cast; ring),
    wrapAngleDelta_unique _ _ (-1) ⟨by linarith, by linarith⟩ (by push_cast; ring),
    wrapAngleDelta_unique _ _ 1 ⟨by linarith, le_refl _⟩ (by push_cast; ring)⟩

/-- The mirror image of `(1,2)` in the x-axis `(0,0) → (4,0)` is `(1,−2)`; `Symmetric` measures the
offset of `b` from it. -/
example : mirror (pt vEx Q3) (pt vEx Q0) (pt vEx Q2) = ⟨1, -2⟩ := by
  simp only [mirror, foot, dot, vec, pt, vEx, Q0, Q2, Q3, P2.mk.injEq]
  constructor <;> norm_num

end MeaningEx

end Ezpz
