/-
C04 — a consistent linear system is solved (exact arithmetic): the damped iteration converges
geometrically, with factor `lam/(c+lam)` per round, to the solution nearest the guess, where `c` is a
lower bound for `‖A z‖²/‖z‖²` on `range Aᵀ` (the smallest non-zero singular value squared).
With `lam = 1e-9` and `c` of order 1 that is nine digits per round.
-/
import Ezpz.Real.LocalContraction
namespace Ezpz.GN
open Matrix

variable {m n : Type} [Fintype m] [Fintype n] [DecidableEq n]

/-- One round: if the current error `x - x̂` to a solution `x̂` lies in `range Aᵀ`, so does the next
one, and its squared length shrinks by `(lam/(c+lam))²`. -/
theorem linear_round_contracts (A : Matrix m n ℝ) (b : m → ℝ) (lam c : ℝ) (hlam : 0 < lam)
    (hc : 0 ≤ c) (hgap : ∀ w : m → ℝ, c * ((Aᵀ *ᵥ w) ⬝ᵥ (Aᵀ *ᵥ w)) ≤
      (A *ᵥ (Aᵀ *ᵥ w)) ⬝ᵥ (A *ᵥ (Aᵀ *ᵥ w)))
    (xh x d : n → ℝ) (hxh : A *ᵥ xh = b) (w : m → ℝ) (hrange : x - xh = Aᵀ *ᵥ w)
    (h : IsStep A (A *ᵥ x - b) lam d) :
    (∃ w', x + d - xh = Aᵀ *ᵥ w') ∧
      (c + lam) ^ 2 * ((x + d - xh) ⬝ᵥ (x + d - xh)) ≤ lam ^ 2 * ((x - xh) ⬝ᵥ (x - xh)) := by
  -- the step is in range Aᵀ
  have hid := step_identity A (A *ᵥ x - b) lam d h
  have hd : d = Aᵀ *ᵥ ((1 / lam) • (-(A *ᵥ x - b + A *ᵥ d))) := by
    rw [mulVec_smul, ← hid, smul_smul]
    field_simp
    simp
  have hr' : x + d - xh = Aᵀ *ᵥ (w + (1 / lam) • (-(A *ᵥ x - b + A *ᵥ d))) := by
    rw [mulVec_add, ← hd, ← hrange]; abel
  refine ⟨⟨_, hr'⟩, ?_⟩
  have hrec := linear_error_recursion A b lam xh x d hxh h
  set e' := x + d - xh with he'
  set e := x - xh with he
  have hq := quad_form A lam e'
  rw [hrec, dotProduct_smul, smul_eq_mul] at hq
  have hg := hgap (w + (1 / lam) • (-(A *ᵥ x - b + A *ᵥ d)))
  rw [← hr'] at hg
  -- (c + lam) E' ≤ lam (e'·e)
  have h1 : (c + lam) * (e' ⬝ᵥ e') ≤ lam * (e' ⬝ᵥ e) := by nlinarith
  have hcs := dot_sq_le e' e
  have hE' : 0 ≤ e' ⬝ᵥ e' := dot_self_nonneg _
  have hE : 0 ≤ e ⬝ᵥ e := dot_self_nonneg _
  have hcl : 0 < c + lam := by linarith
  rcases eq_or_lt_of_le hE' with h0 | hpos
  · rw [← h0]; nlinarith [sq_nonneg lam]
  · -- square the inequality (both sides: left is ≥ 0)
    have hl : 0 ≤ (c + lam) * (e' ⬝ᵥ e') := by positivity
    have hsq : ((c + lam) * (e' ⬝ᵥ e')) ^ 2 ≤ (lam * (e' ⬝ᵥ e)) ^ 2 :=
      pow_le_pow_left₀ hl h1 2
    have : (c + lam) ^ 2 * (e' ⬝ᵥ e') * (e' ⬝ᵥ e') ≤ lam ^ 2 * (e ⬝ᵥ e) * (e' ⬝ᵥ e') := by
      have : (lam * (e' ⬝ᵥ e)) ^ 2 ≤ lam ^ 2 * ((e' ⬝ᵥ e') * (e ⬝ᵥ e)) := by
        rw [mul_pow]; exact mul_le_mul_of_nonneg_left hcs (sq_nonneg lam)
      nlinarith
    exact le_of_mul_le_mul_right (by linarith) hpos

/-- C04 — **a consistent linear system is solved**: starting from a guess `x0` and a solution `x̂`
with `x0 - x̂ ∈ range Aᵀ` (the solution nearest the guess), after `k` exact damped rounds the squared
distance to `x̂` is at most `(lam/(c+lam))^(2k)` times the initial one. -/
theorem linear_consistent_converges (A : Matrix m n ℝ) (b : m → ℝ) (lam c : ℝ) (hlam : 0 < lam)
    (hc : 0 ≤ c) (hgap : ∀ w : m → ℝ, c * ((Aᵀ *ᵥ w) ⬝ᵥ (Aᵀ *ᵥ w)) ≤
      (A *ᵥ (Aᵀ *ᵥ w)) ⬝ᵥ (A *ᵥ (Aᵀ *ᵥ w)))
    (xh : n → ℝ) (hxh : A *ᵥ xh = b) (xs : ℕ → n → ℝ) (w0 : m → ℝ) (h0 : xs 0 - xh = Aᵀ *ᵥ w0)
    (hstep : ∀ k, ∃ d, IsStep A (A *ᵥ xs k - b) lam d ∧ xs (k + 1) = xs k + d) (k : ℕ) :
    (∃ w, xs k - xh = Aᵀ *ᵥ w) ∧
      (c + lam) ^ (2 * k) * ((xs k - xh) ⬝ᵥ (xs k - xh)) ≤
        lam ^ (2 * k) * ((xs 0 - xh) ⬝ᵥ (xs 0 - xh)) := by
  induction k with
  | zero => exact ⟨⟨w0, h0⟩, by simp⟩
  | succ k ih =>
    obtain ⟨⟨w, hw⟩, hk⟩ := ih
    obtain ⟨d, hd, hx⟩ := hstep k
    obtain ⟨hw', hr⟩ := linear_round_contracts A b lam c hlam hc hgap xh (xs k) d hxh w hw hd
    rw [hx]
    refine ⟨hw', ?_⟩
    have hcl : 0 ≤ (c + lam) ^ (2 * k) := by positivity
    have hll : 0 ≤ lam ^ 2 := by positivity
    calc (c + lam) ^ (2 * (k + 1)) * ((xs k + d - xh) ⬝ᵥ (xs k + d - xh))
        = (c + lam) ^ (2 * k) * ((c + lam) ^ 2 * ((xs k + d - xh) ⬝ᵥ (xs k + d - xh))) := by ring
      _ ≤ (c + lam) ^ (2 * k) * (lam ^ 2 * ((xs k - xh) ⬝ᵥ (xs k - xh))) :=
          mul_le_mul_of_nonneg_left hr hcl
      _ = lam ^ 2 * ((c + lam) ^ (2 * k) * ((xs k - xh) ⬝ᵥ (xs k - xh))) := by ring
      _ ≤ lam ^ 2 * (lam ^ (2 * k) * ((xs 0 - xh) ⬝ᵥ (xs 0 - xh))) :=
          mul_le_mul_of_nonneg_left hk hll
      _ = lam ^ (2 * (k + 1)) * ((xs 0 - xh) ⬝ᵥ (xs 0 - xh)) := by ring

end Ezpz.GN
