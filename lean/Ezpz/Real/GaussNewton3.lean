/-
Existence of the step, what a stopped loop says about least-squares optimality (C04), "nearest
least-squares point" (C04), monotone approach to every solution of a consistent linear system, and
the abstract contraction argument behind C02's "settles on the nearby solution and never jumps to a
distant alternative".
-/
import Ezpz.Real.GaussNewton2
import Mathlib.LinearAlgebra.Matrix.ToLin
import Mathlib.LinearAlgebra.FiniteDimensional.Basic
import Mathlib.Analysis.Normed.Group.Basic
namespace Ezpz.GN
open Matrix

section Exists
set_option linter.unusedSectionVars false
variable {m n : Type} [Fintype m] [Fintype n] [DecidableEq n]

/-- The damped normal matrix has trivial kernel for positive damping. -/
theorem normal_matrix_ker (J : Matrix m n ℝ) (lam : ℝ) (hlam : 0 < lam) (z : n → ℝ)
    (hz : (Jᵀ * J + lam • (1 : Matrix n n ℝ)) *ᵥ z = 0) : z = 0 := by
  have hq := quad_form J lam z
  rw [hz, dotProduct_zero] at hq
  have h1 : 0 ≤ (J *ᵥ z) ⬝ᵥ (J *ᵥ z) := dot_self_nonneg _
  have h2 : 0 ≤ z ⬝ᵥ z := dot_self_nonneg _
  have h3 : z ⬝ᵥ z = 0 := by nlinarith
  exact dotProduct_self_eq_zero.mp h3

/-- C02.2 — **the step exists** for positive damping (so with `step_unique` it is a function of
`(J, r)`: the LU solve has exactly one right answer). -/
theorem step_exists (J : Matrix m n ℝ) (r : m → ℝ) (lam : ℝ) (hlam : 0 < lam) :
    ∃ d, IsStep J r lam d := by
  let A : Matrix n n ℝ := Jᵀ * J + lam • (1 : Matrix n n ℝ)
  have hinj : Function.Injective (Matrix.mulVecLin A) := by
    rw [← LinearMap.ker_eq_bot, LinearMap.ker_eq_bot']
    intro z hz
    exact normal_matrix_ker J lam hlam z (by rw [Matrix.mulVecLin_apply] at hz; exact hz)
  have hsurj : Function.Surjective (Matrix.mulVecLin A) :=
    LinearMap.injective_iff_surjective.mp hinj
  obtain ⟨d, hd⟩ := hsurj (-(Jᵀ *ᵥ r))
  exact ⟨d, by rw [Matrix.mulVecLin_apply] at hd; exact hd⟩

/-- C04.6 — **what a small last step certifies**: after a step `d` from `x`, the least-squares
gradient at the new point is exactly `-lam·d`.  When the loop stops because `‖d‖∞` is below the
step tolerance, the returned point is a least-squares stationary point up to `lam·‖d‖`. -/
theorem gradient_after_step (A : Matrix m n ℝ) (b : m → ℝ) (lam : ℝ) (x d : n → ℝ)
    (h : IsStep A (A *ᵥ x - b) lam d) : Aᵀ *ᵥ (A *ᵥ (x + d) - b) = -(lam • d) := by
  have hid := step_identity A (A *ᵥ x - b) lam d h
  have : A *ᵥ (x + d) - b = (A *ᵥ x - b) + A *ᵥ d := by rw [mulVec_add]; abel
  rw [this, hid, mulVec_neg, neg_neg]

/-- C04.5a — a stationary point of the least-squares problem is a global minimiser of `‖A x - b‖²`. -/
theorem stationary_is_minimiser (A : Matrix m n ℝ) (b : m → ℝ) (x : n → ℝ)
    (hstat : Aᵀ *ᵥ (A *ᵥ x - b) = 0) (y : n → ℝ) :
    (A *ᵥ x - b) ⬝ᵥ (A *ᵥ x - b) ≤ (A *ᵥ y - b) ⬝ᵥ (A *ᵥ y - b) := by
  obtain ⟨e, rfl⟩ : ∃ e, y = x + e := ⟨y - x, by abel⟩
  have e1 : A *ᵥ (x + e) - b = (A *ᵥ x - b) + A *ᵥ e := by rw [mulVec_add]; abel
  have hcross : (A *ᵥ x - b) ⬝ᵥ (A *ᵥ e) = 0 := by
    rw [dotProduct_mulVec, ← mulVec_transpose, hstat, zero_dotProduct]
  rw [e1]
  simp only [add_dotProduct, dotProduct_add]
  have c1 : (A *ᵥ e) ⬝ᵥ (A *ᵥ x - b) = (A *ᵥ x - b) ⬝ᵥ (A *ᵥ e) := dotProduct_comm _ _
  have h1 : 0 ≤ (A *ᵥ e) ⬝ᵥ (A *ᵥ e) := dot_self_nonneg _
  linarith

/-- C04.5b — **nearest least-squares fit**: if `x` is a least-squares stationary point and its
displacement from the guess `x0` lies in the range of `Aᵀ` (which every step does,
`GN.step_in_range_transpose` in `Ezpz/Real/LinearEntry.lean`, hence every sum of steps), then among *all* least-squares stationary points `y`, `x` is the one
closest to `x0`: `‖y - x0‖² = ‖x - x0‖² + ‖y - x‖²`. -/
theorem nearest_least_squares (A : Matrix m n ℝ) (b : m → ℝ) (x0 x : n → ℝ) (w : m → ℝ)
    (hstat : Aᵀ *ᵥ (A *ᵥ x - b) = 0) (hrange : x - x0 = Aᵀ *ᵥ w)
    (y : n → ℝ) (hy : Aᵀ *ᵥ (A *ᵥ y - b) = 0) :
    (y - x0) ⬝ᵥ (y - x0) = (x - x0) ⬝ᵥ (x - x0) + (y - x) ⬝ᵥ (y - x) := by
  -- A (y - x) = 0
  have hg : Aᵀ *ᵥ (A *ᵥ (y - x)) = 0 := by
    have : A *ᵥ (y - x) = (A *ᵥ y - b) - (A *ᵥ x - b) := by rw [mulVec_sub]; abel
    rw [this, mulVec_sub, hy, hstat, sub_zero]
  have hA : A *ᵥ (y - x) = 0 := by
    have : (A *ᵥ (y - x)) ⬝ᵥ (A *ᵥ (y - x)) = 0 := by
      rw [dotProduct_mulVec, ← mulVec_transpose, hg, zero_dotProduct]
    exact dotProduct_self_eq_zero.mp this
  have hcross : (x - x0) ⬝ᵥ (y - x) = 0 := by
    rw [hrange, dotProduct_comm, dotProduct_mulVec, vecMul_transpose, hA, zero_dotProduct]
  have e : y - x0 = (x - x0) + (y - x) := by abel
  rw [e]
  simp only [add_dotProduct, dotProduct_add]
  have c : (y - x) ⬝ᵥ (x - x0) = (x - x0) ⬝ᵥ (y - x) := dotProduct_comm _ _
  linarith

/-- Strictness: the nearest least-squares point is unique. -/
theorem nearest_least_squares_unique (A : Matrix m n ℝ) (b : m → ℝ) (x0 x : n → ℝ) (w : m → ℝ)
    (hstat : Aᵀ *ᵥ (A *ᵥ x - b) = 0) (hrange : x - x0 = Aᵀ *ᵥ w)
    (y : n → ℝ) (hy : Aᵀ *ᵥ (A *ᵥ y - b) = 0)
    (hle : (y - x0) ⬝ᵥ (y - x0) ≤ (x - x0) ⬝ᵥ (x - x0)) : y = x := by
  have h := nearest_least_squares A b x0 x w hstat hrange y hy
  have h2 : 0 ≤ (y - x) ⬝ᵥ (y - x) := dot_self_nonneg _
  have h3 : (y - x) ⬝ᵥ (y - x) = 0 := by linarith
  exact sub_eq_zero.mp (dotProduct_self_eq_zero.mp h3)

/-- Error recursion of the damped iteration on a consistent linear system `A x* = b`:
`(AᵀA + lam I)(x + d - x*) = lam (x - x*)`. -/
theorem linear_error_recursion (A : Matrix m n ℝ) (b : m → ℝ) (lam : ℝ) (xs x d : n → ℝ)
    (hxs : A *ᵥ xs = b) (h : IsStep A (A *ᵥ x - b) lam d) :
    (Aᵀ * A + lam • (1 : Matrix n n ℝ)) *ᵥ (x + d - xs) = lam • (x - xs) := by
  unfold IsStep at h
  have hr : A *ᵥ x - b = A *ᵥ (x - xs) := by rw [mulVec_sub, hxs]
  have e : x + d - xs = (x - xs) + d := by abel
  rw [e, mulVec_add, h, hr, add_mulVec, smul_mulVec, one_mulVec, ← mulVec_mulVec]
  abel

/-- C02/C04 — **never moves away from a solution**: on a consistent linear system every damped
step brings the iterate no farther from *every* exact solution `x*` (`‖x+d-x*‖ ≤ ‖x-x*‖`), so a
guess near a solution cannot jump to a distant alternative. -/
theorem linear_error_nonexpansive (A : Matrix m n ℝ) (b : m → ℝ) (lam : ℝ) (hlam : 0 < lam)
    (xs x d : n → ℝ) (hxs : A *ᵥ xs = b) (h : IsStep A (A *ᵥ x - b) lam d) :
    (x + d - xs) ⬝ᵥ (x + d - xs) ≤ (x - xs) ⬝ᵥ (x - xs) := by
  have hrec := linear_error_recursion A b lam xs x d hxs h
  set e' := x + d - xs with he'
  set e := x - xs with he
  have hq := quad_form A lam e'
  rw [hrec, dotProduct_smul, smul_eq_mul] at hq
  have h1 : 0 ≤ (A *ᵥ e') ⬝ᵥ (A *ᵥ e') := dot_self_nonneg _
  have h2 : 0 ≤ (e - e') ⬝ᵥ (e - e') := dot_self_nonneg _
  simp only [sub_dotProduct, dotProduct_sub] at h2
  have c : e ⬝ᵥ e' = e' ⬝ᵥ e := dotProduct_comm _ _
  have h3 : e' ⬝ᵥ e' ≤ e' ⬝ᵥ e := by
    rcases le_or_gt (e' ⬝ᵥ e') (e' ⬝ᵥ e) with hle | hcon
    · exact hle
    · nlinarith
  linarith

end Exists

section Contraction
variable {E : Type*} [SeminormedAddCommGroup E]

/-- C02.4 — **the abstract argument behind "settles on the nearby solution"**: if one round of the
iteration `G` contracts the distance to the solution `xs` by a factor `q ≤ 1/2` on a ball containing
the guess, then every iterate stays in the ball, the error after `k` rounds is at most `q^k` times
the initial error (so at most `2^-k`: a handful of rounds), and no iterate — in particular the
returned one — is farther from the guess than 1.5 times the distance from the guess to `xs`. -/
theorem contraction_gives_C02 (G : E → E) (xs : E) (ρ q : ℝ) (hq0 : 0 ≤ q) (hq : q ≤ 1 / 2)
    (hG : ∀ x, ‖x - xs‖ ≤ ρ → ‖G x - xs‖ ≤ q * ‖x - xs‖) (x0 : E) (h0 : ‖x0 - xs‖ ≤ ρ) (k : ℕ) :
    ‖G^[k] x0 - xs‖ ≤ q ^ k * ‖x0 - xs‖ ∧ ‖G^[k] x0 - xs‖ ≤ ρ ∧
      ‖G^[k] x0 - x0‖ ≤ 1.5 * ‖x0 - xs‖ := by
  have hn : 0 ≤ ‖x0 - xs‖ := norm_nonneg _
  have key : ∀ k : ℕ, ‖G^[k] x0 - xs‖ ≤ q ^ k * ‖x0 - xs‖ ∧ ‖G^[k] x0 - xs‖ ≤ ρ := by
    intro k
    induction k with
    | zero => simp [h0]
    | succ k ih =>
      rw [Function.iterate_succ_apply']
      have hstep := hG _ ih.2
      have hqle : q * ‖G^[k] x0 - xs‖ ≤ ‖G^[k] x0 - xs‖ := by
        have := norm_nonneg (G^[k] x0 - xs)
        nlinarith
      refine ⟨?_, le_trans hstep (le_trans hqle ih.2)⟩
      calc ‖G (G^[k] x0) - xs‖ ≤ q * ‖G^[k] x0 - xs‖ := hstep
        _ ≤ q * (q ^ k * ‖x0 - xs‖) := mul_le_mul_of_nonneg_left ih.1 hq0
        _ = q ^ (k + 1) * ‖x0 - xs‖ := by ring
  refine ⟨(key k).1, (key k).2, ?_⟩
  cases k with
  | zero =>
    have h15 : (1.5 : ℝ) = 3 / 2 := by norm_num
    simp only [Function.iterate_zero, id_eq, sub_self, norm_zero, h15]
    positivity
  | succ k =>
    have h1 := (key (k + 1)).1
    have hqk : q ^ (k + 1) ≤ 1 / 2 := by
      have : q ^ (k + 1) ≤ q ^ 1 := pow_le_pow_of_le_one hq0 (by linarith) (by omega)
      rw [pow_one] at this
      exact le_trans this hq
    have htri : ‖G^[k + 1] x0 - x0‖ ≤ ‖G^[k + 1] x0 - xs‖ + ‖x0 - xs‖ := by
      have : G^[k + 1] x0 - x0 = (G^[k + 1] x0 - xs) - (x0 - xs) := by abel
      rw [this]; exact norm_sub_le _ _
    have : q ^ (k + 1) * ‖x0 - xs‖ ≤ 1 / 2 * ‖x0 - xs‖ := mul_le_mul_of_nonneg_right hqk hn
    have h15 : (1.5 : ℝ) = 3 / 2 := by norm_num
    rw [h15]
    linarith

/-- Newton-type (quadratic) error reduction gives the contraction hypothesis: if
`‖G x - xs‖ ≤ C‖x - xs‖²` on the ball and `C·ρ ≤ 1/2`, then `G` is a `1/2`-contraction there. -/
theorem quadratic_gives_contraction (G : E → E) (xs : E) (ρ C : ℝ) (hC : 0 ≤ C) (hCρ : C * ρ ≤ 1 / 2)
    (hG : ∀ x, ‖x - xs‖ ≤ ρ → ‖G x - xs‖ ≤ C * ‖x - xs‖ ^ 2) :
    ∀ x, ‖x - xs‖ ≤ ρ → ‖G x - xs‖ ≤ (1 / 2) * ‖x - xs‖ := by
  intro x hx
  have h := hG x hx
  have hn := norm_nonneg (x - xs)
  have : C * ‖x - xs‖ ^ 2 ≤ (1 / 2) * ‖x - xs‖ := by
    have h1 : C * ‖x - xs‖ ≤ C * ρ := mul_le_mul_of_nonneg_left hx hC
    nlinarith
  linarith

/-- Number of rounds: with a `1/2`-contraction, after `k` rounds the error is at most `2^-k` of the
initial one — e.g. from 1e-2 to below 1e-8 within 20 rounds, well under the default cap of 35 (and
far fewer when the reduction is quadratic). -/
theorem contraction_rounds (G : E → E) (xs : E) (ρ : ℝ)
    (hG : ∀ x, ‖x - xs‖ ≤ ρ → ‖G x - xs‖ ≤ (1 / 2) * ‖x - xs‖) (x0 : E) (h0 : ‖x0 - xs‖ ≤ ρ)
    (k : ℕ) : ‖G^[k] x0 - xs‖ ≤ (1 / 2) ^ k * ‖x0 - xs‖ :=
  (contraction_gives_C02 G xs ρ (1 / 2) (by norm_num) le_rfl hG x0 h0 k).1

end Contraction
end Ezpz.GN
