/-
C02 at the RESULT of the model's loop.

`model_newtonRun_C02` / `model_newtonRun_C02_2` (Real/FDerivEntry*.lean) speak about continuing
rounds only.  When the loop returns at the step-size test it applies one more step
(`.done ⟨applyStep x d, …⟩`, `byResidual = false`); when it returns at the residual test the values
are untouched.  This file covers the returning round and hence the loop's result:

* `newtonStep_done_eq_gnMap`: a round that returns at the residual test has `res.values = x`; a round
  that returns at the step-size test has `pointOf n res.values = gnMap es n (lam k) (pointOf n x)`
  (exact solver, positive damping; all kinds).
* `newtonLoop_result_eq_iterate`: the result of a successful loop is `gnMap^[m]` of the start, with
  `m = iterations − k` (residual test) or `m = iterations − k + 1` (step-size test).
* `model_newtonLoop_C02_of_kindC1`, `model_newtonLoop_C02` (`RegularAt2`): the loop's result is within
  `(1/2)^(iterations − k) ‖x − xs‖` of the zero `xs` and within `1.5 ‖x − xs‖` of the start `x`, for
  every start within the radius `ρ` of the local theorem.
* `model_solveInner_C02`, `model_solve_C02_single_level`: the same for `o.finalValues` of `solveInner`
  and of the single-level `solveWithPriority`, relative to the guesses.
* Non-vacuity on "Offset point" (`pld1`, Real/FDerivEntry2.lean), and `loop_C02_example_with_step`: a
  concrete run inside the theorem's radius that is not started at the solution, takes one genuine
  step and returns, so the theorem's conclusion is obtained for an actual result of the loop.
-/
import Ezpz.Real.FDerivEntry2
import Ezpz.Real.UnionMany
namespace Ezpz
open Transc Matrix Topology

/-! ### 1. The returning round -/

/-- **A returning round of the model's `newtonStep` with an exact solver**: `es` any list, `x` with
`n` values, `solve` exact (`ExactSolve`) with damping `lam k > 0`.  If round `k` returns `res`, then
the result has `n` values and
* at the residual test (`byResidual = true`) the values are untouched: `res.values = x`;
* at the step-size test (`byResidual = false`) one more exact damped step was applied: the point of
  `res.values` is `gnMap es n (lam k)` of the point of `x`. -/
theorem newtonStep_done_eq_gnMap (es : List (Entry ℝ)) (n : Nat) (cfg : Config ℝ)
    (solve : Nat → List (Triplet ℝ) → List ℝ → Except SolveError (List ℝ)) (lam : Nat → ℝ)
    (hS : ExactSolve solve (numRows es) n lam)
    (k : Nat) (hlam : 0 < lam k) (x : List ℝ) (ws : List (Warning ℝ)) (res : NewtonOk ℝ)
    (hx : x.length = n) (h : newtonStep es cfg solve k x ws = .done res) :
    res.values.length = n ∧
    (res.byResidual = true → res.values = x) ∧
    (res.byResidual = false → pointOf n res.values = gnMap es n (lam k) (pointOf n x)) := by
  rcases newtonStep_done_inv es cfg solve k x ws res h with ⟨hb, hv⟩ | ⟨hb, r, wr, jac, wj, d, hr, hj,
    hs, hlen, hv⟩
  · exact ⟨by rw [hv, hx], fun _ => hv, fun hb' => (by rw [hb] at hb'; cases hb')⟩
  · obtain ⟨hdn, hstep⟩ := hS k jac r d hs
    have hstep' : GN.IsStep (JOf es n (pointOf n x)) (rOf es n (pointOf n x)).ofLp (lam k)
        (vecOf n res.values - vecOf n x) := by
      rw [rOf_eq es n (pointOf n x) r wr (by rw [coordList_pointOf n x hx]; exact hr),
        JOf_eq es n (pointOf n x) jac wj (by rw [coordList_pointOf n x hx]; exact hj),
        hv, vecOf_applyStep n x d hx hdn, add_sub_cancel_left]
      exact hstep
    refine ⟨by rw [hv, applyStep_length x d hlen, hx], fun hb' => (by rw [hb] at hb'; cases hb'), ?_⟩
    intro _
    have hd := (GN.step_iff_eq_inv _ _ _ hlam _).mp hstep'
    apply (WithLp.ofLp_injective 2)
    unfold gnMap
    rw [WithLp.ofLp_sub, GN.euclCLM_apply]
    show vecOf n res.values = vecOf n x - _
    rw [sub_eq_add_neg, ← hd]; abel

/-! ### 2. The loop's result is an iterate of `gnMap` -/

/-- **The result of a successful loop is an iterate of `gnMap`** (exact solver, constant damping
`lam > 0`): if the loop started in round `k` at `x` (`n` values) returns `res`, then
`k ≤ res.iterations`, `res.values` has `n` values, and with `j = res.iterations − k` (the number of
continuing rounds) the point of `res.values` is `gnMap^[j]` of the point of `x` when the loop returned
at the residual test, and `gnMap^[j + 1]` of it when the loop returned at the step-size test. -/
theorem newtonLoop_result_eq_iterate (es : List (Entry ℝ)) (n : Nat) (cfg : Config ℝ)
    (solve : Nat → List (Triplet ℝ) → List ℝ → Except SolveError (List ℝ)) (lam : ℝ)
    (hlam : 0 < lam) (hS : ExactSolve solve (numRows es) n (fun _ => lam))
    (fuel k : Nat) (x : List ℝ) (ws : List (Warning ℝ)) (res : NewtonOk ℝ) (hx : x.length = n)
    (h : newtonLoop es cfg solve fuel k x ws = .ok res) :
    k ≤ res.iterations ∧ res.values.length = n ∧
    (res.byResidual = true →
      pointOf n res.values = (gnMap es n lam)^[res.iterations - k] (pointOf n x)) ∧
    (res.byResidual = false →
      pointOf n res.values = (gnMap es n lam)^[res.iterations - k + 1] (pointOf n x)) := by
  obtain ⟨j, y, wy, _, hrun, hdone⟩ := newtonLoop_ok_run es cfg solve fuel k x ws res h
  have hit := newtonStep_done_iterations es cfg solve (k + j) y wy res hdone
  obtain ⟨hy, hpy⟩ := newtonRun_eq_iterate es n cfg solve lam hlam hS j k x ws y wy hx hrun
  obtain ⟨hlen, hres, hstep⟩ := newtonStep_done_eq_gnMap es n cfg solve (fun _ => lam) hS (k + j) hlam
    y wy res hy hdone
  have hj : res.iterations - k = j := by omega
  refine ⟨by omega, hlen, ?_, ?_⟩
  · intro hb
    rw [hj, hres hb, hpy]
  · intro hb
    rw [hj, hstep hb, hpy, Function.iterate_succ_apply']

/-! ### 3. C02 at the loop's result -/

/-- **C02 at the result of the model's loop (general form, `KindC1`)**: `es` with ids `< n`, every
request `C¹` at `xs`, `xs` a zero of the model's residual, `0 < lam < c ≤ σ_min(JOf es n xs)²`.  There
is `ρ > 0` (the radius of `model_local_C02_of_kindC1`) such that for every exact solver with damping
`lam`, every configuration, every start list `x` of `n` values within `ρ` of `xs`: if the model's
loop, started in round `k` at `x`, returns `res` — at the residual test OR at the step-size test — then
`‖res.values − xs‖ ≤ (1/2)^(res.iterations − k) ‖x − xs‖` and `‖res.values − x‖ ≤ 1.5 ‖x − xs‖`; a
step-size return even has the exponent `res.iterations − k + 1`.  Exact real arithmetic; nothing is
claimed about whether the loop returns. -/
theorem model_newtonLoop_C02_of_kindC1 (es : List (Entry ℝ)) (n : Nat) (hd : Declared es n)
    (xs : EuclideanSpace ℝ (Fin n)) (hk : ∀ e ∈ es, KindC1 e.c n xs)
    (hxs : rOf es n xs = 0) (lam c : ℝ) (hlam : 0 < lam) (hc : lam < c)
    (hJ : ∀ v : Fin n → ℝ, c * (v ⬝ᵥ v) ≤ (JOf es n xs *ᵥ v) ⬝ᵥ (JOf es n xs *ᵥ v)) :
    ∃ ρ : ℝ, 0 < ρ ∧
      ∀ (cfg : Config ℝ) (solve : Nat → List (Triplet ℝ) → List ℝ → Except SolveError (List ℝ)),
        ExactSolve solve (numRows es) n (fun _ => lam) →
        ∀ (x : List ℝ), x.length = n → ‖pointOf n x - xs‖ ≤ ρ →
        ∀ (fuel k : Nat) (ws : List (Warning ℝ)) (res : NewtonOk ℝ),
          newtonLoop es cfg solve fuel k x ws = .ok res →
          k ≤ res.iterations ∧ res.values.length = n ∧
          ‖pointOf n res.values - xs‖ ≤ (1 / 2) ^ (res.iterations - k) * ‖pointOf n x - xs‖ ∧
          ‖pointOf n res.values - pointOf n x‖ ≤ 1.5 * ‖pointOf n x - xs‖ ∧
          (res.byResidual = false →
            ‖pointOf n res.values - xs‖ ≤
              (1 / 2) ^ (res.iterations - k + 1) * ‖pointOf n x - xs‖) := by
  obtain ⟨ρ, hρ, hball⟩ := model_local_C02_of_kindC1 es n hd xs hk hxs lam c hlam hc hJ
  refine ⟨ρ, hρ, ?_⟩
  intro cfg solve hS x hx hx0 fuel k ws res hloop
  obtain ⟨hk', hlen, hres, hstep⟩ :=
    newtonLoop_result_eq_iterate es n cfg solve lam hlam hS fuel k x ws res hx hloop
  refine ⟨hk', hlen, ?_⟩
  rcases hb : res.byResidual with _ | _
  · rw [hstep hb]
    have h1 := hball _ hx0 (res.iterations - k + 1)
    refine ⟨le_trans h1.1 ?_, h1.2.2, fun _ => h1.1⟩
    apply mul_le_mul_of_nonneg_right _ (norm_nonneg _)
    rw [pow_succ]
    have : (0 : ℝ) ≤ (1 / 2) ^ (res.iterations - k) := by positivity
    nlinarith
  · rw [hres hb]
    have h1 := hball _ hx0 (res.iterations - k)
    exact ⟨h1.1, h1.2.2, fun h => by cases h⟩

/-- **C02 at the result of the model's loop, under `RegularAt2`** (every kind but
`PointArcCoincident`, each with its guards strictly inactive at `xs`): the statement of
`model_newtonLoop_C02_of_kindC1` for requests that are regular at the zero `xs`. -/
theorem model_newtonLoop_C02 (es : List (Entry ℝ)) (n : Nat) (hd : Declared es n)
    (xs : EuclideanSpace ℝ (Fin n)) (hk : ∀ e ∈ es, RegularAt2 e.c (asg n xs))
    (hxs : rOf es n xs = 0) (lam c : ℝ) (hlam : 0 < lam) (hc : lam < c)
    (hJ : ∀ v : Fin n → ℝ, c * (v ⬝ᵥ v) ≤ (JOf es n xs *ᵥ v) ⬝ᵥ (JOf es n xs *ᵥ v)) :
    ∃ ρ : ℝ, 0 < ρ ∧
      ∀ (cfg : Config ℝ) (solve : Nat → List (Triplet ℝ) → List ℝ → Except SolveError (List ℝ)),
        ExactSolve solve (numRows es) n (fun _ => lam) →
        ∀ (x : List ℝ), x.length = n → ‖pointOf n x - xs‖ ≤ ρ →
        ∀ (fuel k : Nat) (ws : List (Warning ℝ)) (res : NewtonOk ℝ),
          newtonLoop es cfg solve fuel k x ws = .ok res →
          k ≤ res.iterations ∧ res.values.length = n ∧
          ‖pointOf n res.values - xs‖ ≤ (1 / 2) ^ (res.iterations - k) * ‖pointOf n x - xs‖ ∧
          ‖pointOf n res.values - pointOf n x‖ ≤ 1.5 * ‖pointOf n x - xs‖ ∧
          (res.byResidual = false →
            ‖pointOf n res.values - xs‖ ≤
              (1 / 2) ^ (res.iterations - k + 1) * ‖pointOf n x - xs‖) :=
  model_newtonLoop_C02_of_kindC1 es n hd xs (fun e he => kindC1_of_regular2 e.c n xs (hk e he)) hxs
    lam c hlam hc hJ

/-! ### 4. `solveInner` and the single-level entry point -/

/-- **C02 at the outcome of `solveInner`** (`RegularAt2`): with `ρ` as in `model_newtonLoop_C02`, for
every exact solver with damping `lam`, every configuration and analysis, and every guess list of `n`
values within `ρ` of the zero `xs`: a successful `solveInner` returns `o.finalValues` (`n` values)
within `(1/2)^(o.iterations) ‖guess − xs‖` of `xs` and within `1.5 ‖guess − xs‖` of the guess. -/
theorem model_solveInner_C02 (es : List (Entry ℝ)) (n : Nat) (hd : Declared es n)
    (xs : EuclideanSpace ℝ (Fin n)) (hk : ∀ e ∈ es, RegularAt2 e.c (asg n xs))
    (hxs : rOf es n xs = 0) (lam c : ℝ) (hlam : 0 < lam) (hc : lam < c)
    (hJ : ∀ v : Fin n → ℝ, c * (v ⬝ᵥ v) ≤ (JOf es n xs *ᵥ v) ⬝ᵥ (JOf es n xs *ᵥ v)) :
    ∃ ρ : ℝ, 0 < ρ ∧
      ∀ (cfg : Config ℝ) (solve : Nat → List (Triplet ℝ) → List ℝ → Except SolveError (List ℝ))
        (analyze : Option (List (Triplet ℝ) → Except SolveError (List ℝ × List (List ℝ)))),
        ExactSolve solve (numRows es) n (fun _ => lam) →
        ∀ (g : List (Nat × ℝ)), g.length = n → ‖pointOf n (g.map (·.2)) - xs‖ ≤ ρ →
        ∀ (o : Outcome ℝ), solveInner es g cfg solve analyze = .ok o →
          o.finalValues.length = n ∧
          ‖pointOf n o.finalValues - xs‖ ≤
            (1 / 2) ^ o.iterations * ‖pointOf n (g.map (·.2)) - xs‖ ∧
          ‖pointOf n o.finalValues - pointOf n (g.map (·.2))‖ ≤
            1.5 * ‖pointOf n (g.map (·.2)) - xs‖ := by
  obtain ⟨ρ, hρ, hloop⟩ := model_newtonLoop_C02 es n hd xs hk hxs lam c hlam hc hJ
  refine ⟨ρ, hρ, ?_⟩
  intro cfg solve analyze hS g hg hg0 o ho
  obtain ⟨nr, hn, _, hv, hi, _⟩ := solveInner_ok es g cfg solve analyze o ho
  have hgl : (g.map (·.2)).length = n := by rw [List.length_map]; exact hg
  have hn' : newtonLoop es cfg solve cfg.maxIterations 0 (g.map (·.2)) [] = .ok nr := by
    rw [← hn]; rfl
  have hB := hloop cfg solve hS (g.map (·.2)) hgl
  have hC := hB hg0
  have hD := hC cfg.maxIterations 0 [] nr
  obtain ⟨_, hlen, h1, h2, _⟩ := hD hn'
  rw [Nat.sub_zero] at h1
  rw [hv, hi]
  exact ⟨hlen, h1, h2⟩

/-- **C02 at the public entry point, one priority level** (`RegularAt2`): requests `reqs` (non-empty,
all of priority `P`, ids `< n`), all regular at a zero `xs` of the residual map of `enumerate reqs`,
`0 < lam < c ≤ σ_min(J(xs))²`.  There is `ρ > 0` such that for every LU oracle whose call 0 is exact
with damping `lam`, every configuration, every SVD oracle, every guess list of `n` values within `ρ`
of `xs`: a successful `solveWithPriority` returns `o.finalValues` within
`(1/2)^(o.iterations) ‖guess − xs‖` of `xs` and within `1.5 ‖guess − xs‖` of the guess. -/
theorem model_solve_C02_single_level (reqs : List (Constraint ℝ × Nat)) (P n : Nat)
    (hne : reqs ≠ []) (hall : ∀ r ∈ reqs, r.2 = P)
    (hd : ∀ r ∈ reqs, ∀ i ∈ r.1.nonzeroes.all, i < n)
    (xs : EuclideanSpace ℝ (Fin n)) (hk : ∀ r ∈ reqs, RegularAt2 r.1 (asg n xs))
    (hxs : rOf (enumerate reqs) n xs = 0) (lam c : ℝ) (hlam : 0 < lam) (hc : lam < c)
    (hJ : ∀ v : Fin n → ℝ, c * (v ⬝ᵥ v) ≤
      (JOf (enumerate reqs) n xs *ᵥ v) ⬝ᵥ (JOf (enumerate reqs) n xs *ᵥ v)) :
    ∃ ρ : ℝ, 0 < ρ ∧
      ∀ (cfg : Config ℝ) (solve : LinSolve ℝ) (svd : Option (Svd ℝ)),
        ExactSolve (solve 0) (numRows (enumerate reqs)) n (fun _ => lam) →
        ∀ (g : List (Nat × ℝ)), g.length = n → ‖pointOf n (g.map (·.2)) - xs‖ ≤ ρ →
        ∀ (o : Outcome ℝ), solveWithPriority reqs g cfg solve svd = .ok o →
          o.finalValues.length = n ∧
          ‖pointOf n o.finalValues - xs‖ ≤
            (1 / 2) ^ o.iterations * ‖pointOf n (g.map (·.2)) - xs‖ ∧
          ‖pointOf n o.finalValues - pointOf n (g.map (·.2))‖ ≤
            1.5 * ‖pointOf n (g.map (·.2)) - xs‖ := by
  have hk' : ∀ e ∈ enumerate reqs, RegularAt2 e.c (asg n xs) := by
    intro e he
    exact hk _ (List.mem_of_getElem? (mem_enumerate reqs e he))
  obtain ⟨ρ, hρ, hin⟩ := model_solveInner_C02 (enumerate reqs) n (declared_enumerate reqs n hd) xs hk'
    hxs lam c hlam hc hJ
  refine ⟨ρ, hρ, ?_⟩
  intro cfg solve svd hS g hg hg0 o ho
  rw [solveWithPriority_single_level reqs g cfg solve svd P hne hall] at ho
  exact hin cfg (solve 0) _ hS g hg hg0 o ho

/-! ### 5. Non-vacuity -/

/-- **Non-vacuity of `model_newtonLoop_C02` and `model_solveInner_C02`**: "Offset point" (`pld1`: four
`Fixed`, `PointLineDistance`, one more `Fixed`; 6 variables, 6 rows; non-linear), its solution
`(0, 0, 2, 0, 1, 1)`, the code's damping `1e-9` and `c = 1/4` meet every hypothesis, and an exact
solver with that damping exists. -/
example : (∃ ρ : ℝ, 0 < ρ ∧
      ∀ (cfg : Config ℝ) (solve : Nat → List (Triplet ℝ) → List ℝ → Except SolveError (List ℝ)),
        ExactSolve solve (numRows pld1) 6 (fun _ => (1e-9 : ℝ)) →
        ∀ (x : List ℝ), x.length = 6 → ‖pointOf 6 x - pointOf 6 [0, 0, 2, 0, 1, 1]‖ ≤ ρ →
        ∀ (fuel k : Nat) (ws : List (Warning ℝ)) (res : NewtonOk ℝ),
          newtonLoop pld1 cfg solve fuel k x ws = .ok res →
          k ≤ res.iterations ∧ res.values.length = 6 ∧
          ‖pointOf 6 res.values - pointOf 6 [0, 0, 2, 0, 1, 1]‖ ≤
            (1 / 2) ^ (res.iterations - k) * ‖pointOf 6 x - pointOf 6 [0, 0, 2, 0, 1, 1]‖ ∧
          ‖pointOf 6 res.values - pointOf 6 x‖ ≤
            1.5 * ‖pointOf 6 x - pointOf 6 [0, 0, 2, 0, 1, 1]‖ ∧
          (res.byResidual = false →
            ‖pointOf 6 res.values - pointOf 6 [0, 0, 2, 0, 1, 1]‖ ≤
              (1 / 2) ^ (res.iterations - k + 1) *
                ‖pointOf 6 x - pointOf 6 [0, 0, 2, 0, 1, 1]‖)) ∧
    ∃ solve, ExactSolve solve (numRows pld1) 6 (fun _ => (1e-9 : ℝ)) :=
  ⟨model_newtonLoop_C02 pld1 6 pld1_declared _ pld1_regular pld1_zero 1e-9 (1 / 4)
    (by norm_num) (by norm_num) pld1_conditioned,
   (exists_exactSolve _ _ _ (fun _ => by norm_num)).imp fun _ h => h.1⟩

/-- The same system through `model_solveInner_C02`. -/
example : ∃ ρ : ℝ, 0 < ρ ∧
      ∀ (cfg : Config ℝ) (solve : Nat → List (Triplet ℝ) → List ℝ → Except SolveError (List ℝ))
        (analyze : Option (List (Triplet ℝ) → Except SolveError (List ℝ × List (List ℝ)))),
        ExactSolve solve (numRows pld1) 6 (fun _ => (1e-9 : ℝ)) →
        ∀ (g : List (Nat × ℝ)), g.length = 6 →
          ‖pointOf 6 (g.map (·.2)) - pointOf 6 [0, 0, 2, 0, 1, 1]‖ ≤ ρ →
        ∀ (o : Outcome ℝ), solveInner pld1 g cfg solve analyze = .ok o →
          o.finalValues.length = 6 ∧
          ‖pointOf 6 o.finalValues - pointOf 6 [0, 0, 2, 0, 1, 1]‖ ≤
            (1 / 2) ^ o.iterations * ‖pointOf 6 (g.map (·.2)) - pointOf 6 [0, 0, 2, 0, 1, 1]‖ ∧
          ‖pointOf 6 o.finalValues - pointOf 6 (g.map (·.2))‖ ≤
            1.5 * ‖pointOf 6 (g.map (·.2)) - pointOf 6 [0, 0, 2, 0, 1, 1]‖ :=
  model_solveInner_C02 pld1 6 pld1_declared _ pld1_regular pld1_zero 1e-9 (1 / 4)
    (by norm_num) (by norm_num) pld1_conditioned

/-! ### 6. Non-vacuity with a run that takes a genuine step -/

/-- "Variable 0 is 5" on one variable. -/
def fx5 : List (Entry ℝ) := [⟨.fixed 0 5, 0, 0⟩]

/-- The single `Fixed` request is regular at every point. -/
theorem fx5_regular (x : EuclideanSpace ℝ (Fin 1)) : ∀ e ∈ fx5, RegularAt2 e.c (asg 1 x) := by
  intro e he
  simp only [fx5, List.mem_singleton] at he
  subst he
  exact trivial

/-- `[5]` is a zero of the residual map of "variable 0 is 5". -/
theorem fx5_zero : rOf fx5 1 (pointOf 1 [5]) = 0 := by
  apply (WithLp.ofLp_injective 2)
  funext i
  rw [rOf_apply fx5 1 (declared_fixed 5 0)]
  show resRow fx5 i.val _ = (0 : ℝ)
  obtain ⟨i, hi⟩ := i
  have hi1 : i < 1 := hi
  interval_cases i
  simp [fx5, resRow, Constraint.residualDim, Constraint.residualV, Res.mk1, takeRows, asg_pointOf]

/-- The conditioning hypothesis for "variable 0 is 5" (`J = [1]`) with `c = 1/2`. -/
theorem fx5_conditioned (v : Fin 1 → ℝ) :
    (1 / 2 : ℝ) * (v ⬝ᵥ v) ≤ (JOf fx5 1 (pointOf 1 [5]) *ᵥ v) ⬝ᵥ (JOf fx5 1 (pointOf 1 [5]) *ᵥ v) := by
  have h := JOf_dot fx5 1 (declared_fixed 5 0) (pointOf 1 [5]) (WithLp.toLp 2 v)
  rw [show (WithLp.toLp 2 v).ofLp = v from rfl] at h
  rw [h]
  have hn : numRows fx5 = 1 := rfl
  have hv : ∀ k (hk : k < 1), asg 1 (WithLp.toLp 2 v) k = v ⟨k, hk⟩ := fun k hk => asg_lt 1 _ k hk
  rw [hn]
  simp [fx5, jacRow, Constraint.residualDim, Constraint.jacobianV, rowApply, takeRows, hv,
    dotProduct]
  rw [lit_1]
  nlinarith [sq_nonneg (v 0)]

/-- In one dimension the distance of two points is the absolute difference of their coordinates. -/
theorem norm_pointOf_one (a b : ℝ) : ‖pointOf 1 [a] - pointOf 1 [b]‖ = |a - b| := by
  rw [EuclideanSpace.norm_eq]
  simp [pointOf, vecOf, Real.sqrt_sq_eq_abs]

/-- The run of "variable 0 is 5" from `5 + δ` (`δ > 0`) with convergence tolerance `δ/2`, step
tolerance 0 and an exact total solver with damping `1e-9`: round 0 takes a genuine step, round 1
returns at the residual test. -/
theorem fx5_loop (δ : ℝ) (hδ : 0 < δ)
    (s : Nat → List (Triplet ℝ) → List ℝ → Except SolveError (List ℝ))
    (hs : ExactSolve s 1 1 (fun _ => 1e-9)) (htot : ∀ k jac r, ∃ d, s k jac r = .ok d) :
    newtonLoop fx5 ⟨30, δ / 2, 0⟩ s 30 0 [5 + δ] [] =
      .ok ⟨[5 + δ + -(5 + δ - 5) / (1 + 1e-9)], 1, [], [(0, 0, 1.0)], true⟩ := by
  obtain ⟨hr, hj, hm⟩ := dampedFixed_eval 5 (5 + δ) 0
  obtain ⟨d, hd⟩ := htot 0 [(0, 0, 1.0)] [5 + δ - 5]
  have hd' := exactSolve_one_by_one s (fun _ => 1e-9) (fun _ => by norm_num) hs 0 (5 + δ - 5) d hd
  subst hd'
  have hstep0 : newtonStep fx5 ⟨30, δ / 2, 0⟩ s 0 [5 + δ] [] =
      .next [5 + δ + -(5 + δ - 5) / (1 + 1e-9)] [] := by
    rw [fx5, newtonStep_eval _ _ s 0 [5 + δ] [] _ _ _ _ _ hr hj hm, if_neg (by
      rw [show (5 : ℝ) + δ - 5 = δ by ring, abs_of_pos hδ]; dsimp only; linarith), hd]
    simp [applyStep, allFinite, stepInfNorm, stepThreshold, maxAbs0, maxAbs?]
    exact ⟨ne_of_gt hδ, by norm_num⟩
  have hclose : |5 + δ + -(5 + δ - 5) / (1 + 1e-9) - 5| ≤ δ / 2 := by
    have e : 5 + δ + -(5 + δ - 5) / (1 + 1e-9) - 5 = δ * 1e-9 / (1 + 1e-9) := by
      field_simp; ring
    rw [e, abs_of_nonneg (by positivity), div_le_iff₀ (by norm_num)]
    nlinarith
  obtain ⟨hr1, hj1, hm1⟩ := dampedFixed_eval 5 (5 + δ + -(5 + δ - 5) / (1 + 1e-9)) 0
  have hstep1 : newtonStep fx5 ⟨30, δ / 2, 0⟩ s 1 [5 + δ + -(5 + δ - 5) / (1 + 1e-9)] [] =
      .done ⟨[5 + δ + -(5 + δ - 5) / (1 + 1e-9)], 1, [], [(0, 0, 1.0)], true⟩ := by
    rw [fx5, newtonStep_eval _ _ s 1 _ [] _ _ _ _ _ hr1 hj1 hm1, if_pos hclose]
    rfl
  show newtonLoop _ _ _ (28 + 1 + 1) 0 _ [] = _
  rw [newtonLoop, hstep0]
  dsimp only
  rw [newtonLoop, hstep1]

/-- **Non-vacuity of `model_newtonLoop_C02` on a run that takes a real step.**  For the system
"variable 0 is 5" (one variable, zero `[5]`, `lam = 1e-9`, `c = 1/2`) all hypotheses hold; taking the
radius `ρ` the theorem provides, the guess `5 + δ` with `δ = min ρ 1 > 0` (NOT the solution, within
`ρ`), the configuration with convergence tolerance `δ/2` and step tolerance 0, and an exact total
solver, the model's loop succeeds after one genuine step (`iterations = 1`, the value changes), and
the theorem's bounds hold for the returned value. -/
theorem loop_C02_example_with_step : ∃ (cfg : Config ℝ)
    (solve : Nat → List (Triplet ℝ) → List ℝ → Except SolveError (List ℝ)) (x : List ℝ)
    (res : NewtonOk ℝ),
    ExactSolve solve (numRows fx5) 1 (fun _ => (1e-9 : ℝ)) ∧ x.length = 1 ∧ x ≠ [5] ∧
    newtonLoop fx5 cfg solve cfg.maxIterations 0 x [] = .ok res ∧
    res.iterations = 1 ∧ res.values ≠ x ∧
    ‖pointOf 1 res.values - pointOf 1 [5]‖ ≤ (1 / 2) ^ 1 * ‖pointOf 1 x - pointOf 1 [5]‖ ∧
    ‖pointOf 1 res.values - pointOf 1 x‖ ≤ 1.5 * ‖pointOf 1 x - pointOf 1 [5]‖ := by
  obtain ⟨ρ, hρ, hloop⟩ := model_newtonLoop_C02 fx5 1 (declared_fixed 5 0) (pointOf 1 [5])
    (fx5_regular _) fx5_zero 1e-9 (1 / 2) (by norm_num) (by norm_num) fx5_conditioned
  obtain ⟨s, hs, ht⟩ := exists_exactSolve 1 1 (fun _ => (1e-9 : ℝ)) (fun _ => by norm_num)
  have hδ : 0 < min ρ 1 := lt_min hρ one_pos
  have hrun := fx5_loop (min ρ 1) hδ s hs ht
  have hx0 : ‖pointOf 1 [5 + min ρ 1] - pointOf 1 [5]‖ ≤ ρ := by
    rw [norm_pointOf_one, show (5 : ℝ) + min ρ 1 - 5 = min ρ 1 by ring, abs_of_pos hδ]
    exact min_le_left _ _
  have hB := hloop ⟨30, min ρ 1 / 2, 0⟩ s hs [5 + min ρ 1] rfl
  have hC := hB hx0
  obtain ⟨_, _, h1, h2, _⟩ := hC 30 0 [] _ hrun
  refine ⟨⟨30, min ρ 1 / 2, 0⟩, s, [5 + min ρ 1], _, hs, rfl, ?_, hrun, rfl, ?_, h1, h2⟩
  · intro h
    have : (5 : ℝ) + min ρ 1 = 5 := by simpa using h
    linarith
  · intro h
    have h' : (5 : ℝ) + min ρ 1 + -(5 + min ρ 1 - 5) / (1 + 1e-9) = 5 + min ρ 1 := by simpa using h
    rw [neg_div] at h'
    have h3 : (5 + min ρ 1 - 5) / (1 + 1e-9 : ℝ) = 0 := by linarith
    rw [div_eq_zero_iff] at h3
    rcases h3 with h3 | h3
    · linarith
    · norm_num at h3

/-- The hypotheses of `model_solve_C02_single_level` are met by the request list
`[(Fixed 0 5, priority 0)]` on one variable (zero `[5]`, `lam = 1e-9`, `c = 1/2`). -/
example : ∃ ρ : ℝ, 0 < ρ ∧
    ∀ (cfg : Config ℝ) (solve : LinSolve ℝ) (svd : Option (Svd ℝ)),
      ExactSolve (solve 0) (numRows (enumerate [((.fixed 0 5 : Constraint ℝ), 0)])) 1
        (fun _ => (1e-9 : ℝ)) →
      ∀ (g : List (Nat × ℝ)), g.length = 1 → ‖pointOf 1 (g.map (·.2)) - pointOf 1 [5]‖ ≤ ρ →
      ∀ (o : Outcome ℝ),
        solveWithPriority [((.fixed 0 5 : Constraint ℝ), 0)] g cfg solve svd = .ok o →
        o.finalValues.length = 1 ∧
        ‖pointOf 1 o.finalValues - pointOf 1 [5]‖ ≤
          (1 / 2) ^ o.iterations * ‖pointOf 1 (g.map (·.2)) - pointOf 1 [5]‖ ∧
        ‖pointOf 1 o.finalValues - pointOf 1 (g.map (·.2))‖ ≤
          1.5 * ‖pointOf 1 (g.map (·.2)) - pointOf 1 [5]‖ := by
  refine model_solve_C02_single_level [((.fixed 0 5 : Constraint ℝ), 0)] 0 1 (by simp) (by simp) ?_
    (pointOf 1 [5]) ?_ fx5_zero 1e-9 (1 / 2) (by norm_num) (by norm_num) fx5_conditioned
  · intro r hr i hi
    simp only [List.mem_singleton] at hr
    subst hr
    simp [Constraint.nonzeroes, Rows.all] at hi
    omega
  · intro r hr
    simp only [List.mem_singleton] at hr
    subst hr
    exact trivial

end Ezpz
