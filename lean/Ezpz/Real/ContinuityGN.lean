/-
C02, continuity of the damped Gauss–Newton operator: the hypothesis "`x ↦ (JₓᵀJₓ + lam I)⁻¹Jₓᵀ` is
continuous at the solution (in operator norm)" of `gauss_newton_local_C02` follows from entrywise
continuity of the Jacobian `x ↦ Jₓ` at the solution, for every positive damping.
-/
import Ezpz.Real.LocalContraction
import Mathlib.Topology.Instances.Matrix
import Mathlib.Topology.Algebra.GroupWithZero
import Mathlib.Topology.Algebra.Module.FiniteDimension
import Mathlib.LinearAlgebra.FreeModule.Finite.Basic
import Mathlib.Analysis.InnerProductSpace.PiL2
namespace Ezpz.GN
open Matrix Topology

section ContinuityGN
set_option linter.unusedSectionVars false
variable {m n : Type} [Fintype m] [Fintype n] [DecidableEq n] [DecidableEq m]

/-- `euclCLM` (a real matrix as a continuous linear map between Euclidean spaces) packaged as an
`ℝ`-linear map from the space of matrices to the space of continuous linear maps. -/
noncomputable def euclCLM_linear :
    Matrix m n ℝ →ₗ[ℝ] (EuclideanSpace ℝ n →L[ℝ] EuclideanSpace ℝ m) :=
  (LinearMap.toContinuousLinearMap :
      (EuclideanSpace ℝ n →ₗ[ℝ] EuclideanSpace ℝ m) ≃ₗ[ℝ] _).toLinearMap ∘ₗ
    (Matrix.toEuclideanLin :
      Matrix m n ℝ ≃ₗ[ℝ] (EuclideanSpace ℝ n →ₗ[ℝ] EuclideanSpace ℝ m)).toLinearMap

/-- The linear map `euclCLM_linear` is `euclCLM` on every matrix. -/
theorem euclCLM_linear_apply (M : Matrix m n ℝ) : euclCLM_linear M = euclCLM M := rfl

/-- `M ↦ euclCLM M` is continuous from matrices (entrywise topology) to continuous linear maps
(Euclidean operator norm): it is a linear map out of a finite-dimensional space. -/
theorem continuous_euclCLM :
    Continuous (euclCLM : Matrix m n ℝ → (EuclideanSpace ℝ n →L[ℝ] EuclideanSpace ℝ m)) :=
  (euclCLM_linear (m := m) (n := n)).continuous_of_finiteDimensional

/-- Matrix inversion is continuous (entrywise) at every real matrix with unit determinant. -/
theorem continuousAt_matrix_inv_of_isUnit_det (A : Matrix n n ℝ) (hA : IsUnit A.det) :
    ContinuousAt (Inv.inv : Matrix n n ℝ → Matrix n n ℝ) A := by
  refine continuousAt_matrix_inv A ?_
  rw [Ring.inverse_eq_inv']
  exact continuousAt_inv₀ hA.ne_zero

/-- **Continuity of the damped Gauss–Newton matrix.**  If the Jacobian `x ↦ Jx x` is continuous at
`xs` entrywise (as a map into `Matrix m n ℝ`) and `lam > 0`, then
`x ↦ (Jx xᵀ * Jx x + lam • 1)⁻¹ * Jx xᵀ` is continuous at `xs` entrywise.  (`X` is any topological
space; no rank assumption on the Jacobian: the damped normal matrix is always invertible.) -/
theorem continuousAt_gnMatrix {X : Type*} [TopologicalSpace X] (Jx : X → Matrix m n ℝ) (xs : X)
    (lam : ℝ) (hlam : 0 < lam) (hJ : ContinuousAt Jx xs) :
    ContinuousAt (fun x => ((Jx x)ᵀ * Jx x + lam • (1 : Matrix n n ℝ))⁻¹ * (Jx x)ᵀ) xs := by
  have hT : ContinuousAt (fun x => (Jx x)ᵀ) xs :=
    (continuous_id.matrix_transpose (R := ℝ) (m := m) (n := n)).continuousAt.comp hJ
  have hmul : ContinuousAt (fun x => (Jx x)ᵀ * Jx x) xs :=
    ((continuous_fst.matrix_mul continuous_snd :
        Continuous fun p : Matrix n m ℝ × Matrix m n ℝ => p.1 * p.2).continuousAt.comp
      (hT.prodMk hJ) :)
  have hN : ContinuousAt (fun x => (Jx x)ᵀ * Jx x + lam • (1 : Matrix n n ℝ)) xs :=
    hmul.add continuousAt_const
  have hinv : ContinuousAt (fun x => ((Jx x)ᵀ * Jx x + lam • (1 : Matrix n n ℝ))⁻¹) xs :=
    ContinuousAt.comp (g := (Inv.inv : Matrix n n ℝ → Matrix n n ℝ))
      (continuousAt_matrix_inv_of_isUnit_det _ (normal_matrix_isUnit_det (Jx xs) lam hlam)) hN
  exact ((continuous_fst.matrix_mul continuous_snd :
        Continuous fun p : Matrix n n ℝ × Matrix n m ℝ => p.1 * p.2).continuousAt.comp
      (hinv.prodMk hT) :)

/-- **Continuity of the damped Gauss–Newton operator.**  If the Jacobian `x ↦ Jx x` is continuous
at `xs` entrywise and `lam > 0`, then `x ↦ euclCLM ((Jx xᵀ * Jx x + lam • 1)⁻¹ * Jx xᵀ)` — the map
"residual ↦ minus damped step" built from the Jacobian at `x` — is continuous at `xs` in Euclidean
operator norm.  This is exactly the hypothesis `hcont` of `gauss_newton_local_C02`. -/
theorem continuousAt_gnOperator (Jx : EuclideanSpace ℝ n → Matrix m n ℝ)
    (xs : EuclideanSpace ℝ n) (lam : ℝ) (hlam : 0 < lam) (hJ : ContinuousAt Jx xs) :
    ContinuousAt
      (fun x => euclCLM (((Jx x)ᵀ * Jx x + lam • (1 : Matrix n n ℝ))⁻¹ * (Jx x)ᵀ)) xs :=
  (continuous_euclCLM (m := n) (n := m)).continuousAt.comp
    (continuousAt_gnMatrix Jx xs lam hlam hJ)

/-- C02.6f — **C02 for damped Gauss–Newton near a non-degenerate solution, from continuity of the
Jacobian**.  Let the residual map `r : ℝⁿ → ℝᵐ` be differentiable at the solution `xs`
(`r xs = 0`) with Jacobian `J`, let `σ_min(J)² ≥ c > lam > 0`, and let the iteration use at `x` the
matrix `Jx x` with `Jx xs = J`, where `x ↦ Jx x` is continuous at `xs` entrywise (the entries are the
partial derivatives of the residuals: continuous away from the guard sets), through
`B x = (JxᵀJx + lam I)⁻¹Jxᵀ`.  Then there is `ρ > 0` such that from every guess `x0` within `ρ` of
`xs`: the error at least halves every round, all iterates stay within `ρ` of `xs`, and no iterate is
farther from the guess than `1.5‖x0 - xs‖`.  Same conclusion as `gauss_newton_local_C02`; the
operator-norm continuity hypothesis there is replaced by continuity of the Jacobian. -/
theorem gauss_newton_local_C02_of_continuous_jacobian
    (r : EuclideanSpace ℝ n → EuclideanSpace ℝ m)
    (xs : EuclideanSpace ℝ n) (J : Matrix m n ℝ) (Jx : EuclideanSpace ℝ n → Matrix m n ℝ)
    (lam c : ℝ) (hlam : 0 < lam) (hc : lam < c)
    (hJ : ∀ v : n → ℝ, c * (v ⬝ᵥ v) ≤ (J *ᵥ v) ⬝ᵥ (J *ᵥ v))
    (hD : HasFDerivAt r (euclCLM J) xs) (hxs : r xs = 0) (hJxs : Jx xs = J)
    (hcont : ContinuousAt Jx xs) :
    ∃ ρ : ℝ, 0 < ρ ∧ ∀ x0, ‖x0 - xs‖ ≤ ρ → ∀ k : ℕ,
      ‖(fun x => x - euclCLM (((Jx x)ᵀ * Jx x + lam • (1 : Matrix n n ℝ))⁻¹ * (Jx x)ᵀ) (r x))^[k]
          x0 - xs‖ ≤ (1 / 2) ^ k * ‖x0 - xs‖ ∧
      ‖(fun x => x - euclCLM (((Jx x)ᵀ * Jx x + lam • (1 : Matrix n n ℝ))⁻¹ * (Jx x)ᵀ) (r x))^[k]
          x0 - xs‖ ≤ ρ ∧
      ‖(fun x => x - euclCLM (((Jx x)ᵀ * Jx x + lam • (1 : Matrix n n ℝ))⁻¹ * (Jx x)ᵀ) (r x))^[k]
          x0 - x0‖ ≤ 1.5 * ‖x0 - xs‖ :=
  gauss_newton_local_C02 r xs J Jx lam c hlam hc hJ hD hxs hJxs
    (continuousAt_gnOperator Jx xs lam hlam hcont)

/-- The hypotheses of `gauss_newton_local_C02_of_continuous_jacobian` are satisfiable: `r = id` on
`ℝ²`, `J = 1`, `c = 1`, `lam = 1e-9`, Jacobian `Jx x = 1` (constant, hence continuous). -/
example :
    let r : EuclideanSpace ℝ (Fin 2) → EuclideanSpace ℝ (Fin 2) := fun x => x
    let J : Matrix (Fin 2) (Fin 2) ℝ := 1
    let Jx : EuclideanSpace ℝ (Fin 2) → Matrix (Fin 2) (Fin 2) ℝ := fun _ => 1
    (0 : ℝ) < 1e-9 ∧ (1e-9 : ℝ) < 1 ∧
      (∀ v : Fin 2 → ℝ, 1 * (v ⬝ᵥ v) ≤ (J *ᵥ v) ⬝ᵥ (J *ᵥ v)) ∧
      HasFDerivAt r (euclCLM J) 0 ∧ r 0 = 0 ∧ Jx 0 = J ∧ ContinuousAt Jx 0 := by
  intro r J Jx
  refine ⟨by norm_num, by norm_num, fun v => by simp [J], ?_, rfl, rfl, continuousAt_const⟩
  have : euclCLM J = ContinuousLinearMap.id ℝ (EuclideanSpace ℝ (Fin 2)) := by
    ext v : 1
    apply (WithLp.ofLp_injective 2)
    rw [euclCLM_apply]; simp [J]
  rw [this]
  exact hasFDerivAt_id _

/-- A non-constant instance of the continuity hypothesis (the new theorem covers more than a frozen
Jacobian): the point-dependent matrix `Jx x = diagonal (1 + x₀², 1)` equals `1` at `0` and is
continuous at `0` entrywise. -/
example :
    let Jx : EuclideanSpace ℝ (Fin 2) → Matrix (Fin 2) (Fin 2) ℝ :=
      fun x => Matrix.diagonal ![1 + (x.ofLp 0) ^ 2, 1]
    Jx 0 = 1 ∧ ContinuousAt Jx 0 := by
  intro Jx
  refine ⟨?_, ?_⟩
  · ext i j
    fin_cases i <;> fin_cases j <;> simp [Jx, Matrix.diagonal]
  · refine Continuous.continuousAt ?_
    refine continuous_matrix fun i j => ?_
    fin_cases i <;> fin_cases j <;> simp [Jx, Matrix.diagonal] <;> fun_prop

end ContinuityGN

end Ezpz.GN
