/-
The real instantiation of the scalar interface: the model's generic definitions at `α := ℝ` unfold
to Mathlib terms, which is what the analytic theorems are about.
-/
import Mathlib.Analysis.SpecialFunctions.Sqrt
import Mathlib.Analysis.SpecialFunctions.Trigonometric.Deriv
import Mathlib.Analysis.SpecialFunctions.Complex.LogDeriv
import Mathlib.Analysis.SpecialFunctions.Pow.Deriv
import Mathlib.Tactic.NormNum.OfScientific
import Mathlib.Tactic.Ring
import Mathlib.Tactic.FieldSimp
import Ezpz.Model.Kernels

namespace Ezpz
open Transc

/-- `atan2 y x` as the argument of `x + iy`. -/
noncomputable def realAtan2 (y x : ℝ) : ℝ := Complex.arg ⟨x, y⟩

noncomputable instance : Transc ℝ where
  sqrt := Real.sqrt
  sin := Real.sin
  cos := Real.cos
  abs := fun x => |x|
  atan2 := realAtan2
  hypot := fun x y => Real.sqrt (x * x + y * y)
  powf := fun x y => x ^ y
  pi := Real.pi
  fmax := max
  isFinite := fun _ => true

@[simp] theorem hypot_real (x y : ℝ) : Transc.hypot x y = Real.sqrt (x * x + y * y) := rfl
@[simp] theorem sqrt_real (x : ℝ) : Transc.sqrt x = Real.sqrt x := rfl
@[simp] theorem sin_real (x : ℝ) : Transc.sin x = Real.sin x := rfl
@[simp] theorem cos_real (x : ℝ) : Transc.cos x = Real.cos x := rfl
@[simp] theorem abs_real (x : ℝ) : Transc.abs x = |x| := rfl
@[simp] theorem atan2_real (y x : ℝ) : Transc.atan2 y x = realAtan2 y x := rfl
@[simp] theorem powf_real (x y : ℝ) : Transc.powf x y = x ^ y := rfl
@[simp] theorem pi_real : (Transc.pi : ℝ) = Real.pi := rfl
@[simp] theorem fmax_real (x y : ℝ) : Transc.fmax x y = max x y := rfl

/-! Scientific literals of the model as plain numerals (`ring` does not normalise `1.0`). -/
theorem lit_0 : (0.0 : ℝ) = 0 := by norm_num
theorem lit_1 : (1.0 : ℝ) = 1 := by norm_num
theorem lit_2 : (2.0 : ℝ) = 2 := by norm_num
theorem lit_4 : (4.0 : ℝ) = 4 := by norm_num
theorem lit_half : (0.5 : ℝ) = 1 / 2 := by norm_num
theorem lit_1_5 : (1.5 : ℝ) = 3 / 2 := by norm_num
theorem lit_5 : (5.0 : ℝ) = 5 := by norm_num
theorem lit_7 : (7.0 : ℝ) = 7 := by norm_num
theorem lit_9 : (9.0 : ℝ) = 9 := by norm_num
theorem lit_90 : (90.0 : ℝ) = 90 := by norm_num
theorem lit_180 : (180.0 : ℝ) = 180 := by norm_num
theorem lit_360 : (360.0 : ℝ) = 360 := by norm_num

/-- `EPSILON` over the reals (value extracted from the source). -/
theorem EPS_real : (EPS : ℝ) = 1e-4 := rfl

theorem EPS_pos : (0 : ℝ) < EPS := by rw [EPS_real]; norm_num

/-- The weighted sum a Jacobian row assigns to a direction `u`: `Σ pd · u(id)`; with aliased ids
this is exactly what the scatter's `+=` accumulates. -/
def rowApply (row : List (JVar ℝ)) (u : Nat → ℝ) : ℝ := (row.map (fun e => e.pd * u e.id)).sum

/-- The line through `v` in direction `u`. -/
def lineThrough (v u : Nat → ℝ) (t : ℝ) : Nat → ℝ := fun i => v i + t * u i

theorem hasDerivAt_line (v u : Nat → ℝ) (i : Nat) :
    HasDerivAt (fun t => lineThrough v u t i) (u i) 0 := by
  unfold lineThrough
  simpa using ((hasDerivAt_id (0 : ℝ)).mul_const (u i)).const_add (v i)

end Ezpz
