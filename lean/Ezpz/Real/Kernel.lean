/-
The null space of a real matrix `J` read off an SVD: the part of exact linear algebra behind the
freedom analysis (`solver/find_dof.rs`).  The code only uses `σ` and `V`, so the SVD contract is
stated without `U`: `V` is orthogonal and diagonalises `JᵀJ` with the squared singular values.
-/
import Mathlib.LinearAlgebra.Matrix.PosDef
import Mathlib.LinearAlgebra.Matrix.NonsingularInverse
import Ezpz.Real.GaussNewton
namespace Ezpz.GN
open Matrix

variable {m : Type} [Fintype m] {n : Nat}

/-- The part of faer's SVD contract that the freedom analysis relies on (U is not used by the code):
V is orthogonal and diagonalises JᵀJ with the squared singular values (padded with zeros). -/
structure SvdSpec (J : Matrix m (Fin n) ℝ) (σ : Fin n → ℝ) (V : Matrix (Fin n) (Fin n) ℝ) : Prop where
  orth : Vᵀ * V = 1
  diag : Vᵀ * (Jᵀ * J) * V = Matrix.diagonal (fun k => σ k ^ 2)

/-- `vᵀ(JᵀJ)v = ‖J v‖²`. -/
theorem gram_quad {c : Type} [Fintype c] (J : Matrix m c ℝ) (v : c → ℝ) :
    v ⬝ᵥ ((Jᵀ * J) *ᵥ v) = (J *ᵥ v) ⬝ᵥ (J *ᵥ v) := by
  rw [← mulVec_mulVec, dotProduct_mulVec, vecMul_transpose]

/-- A direction is in the kernel of `J` iff it is in the kernel of the Gram matrix `JᵀJ`. -/
theorem mulVec_eq_zero_iff_gram {c : Type} [Fintype c] (J : Matrix m c ℝ) (v : c → ℝ) :
    J *ᵥ v = 0 ↔ (Jᵀ * J) *ᵥ v = 0 := by
  constructor
  · intro h
    rw [← mulVec_mulVec, h, mulVec_zero]
  · intro h
    have hq := gram_quad J v
    rw [h, dotProduct_zero] at hq
    exact dotProduct_self_eq_zero.mp hq.symm

/-- For a square orthogonal `V` the other product is the identity as well. -/
theorem SvdSpec.orth' {J : Matrix m (Fin n) ℝ} {σ : Fin n → ℝ} {V : Matrix (Fin n) (Fin n) ℝ}
    (h : SvdSpec J σ V) : V * Vᵀ = 1 :=
  mul_eq_one_comm.mp h.orth

/-- Under the SVD contract, `JᵀJ = V diag(σ²) Vᵀ`. -/
theorem SvdSpec.gram_eq {J : Matrix m (Fin n) ℝ} {σ : Fin n → ℝ} {V : Matrix (Fin n) (Fin n) ℝ}
    (h : SvdSpec J σ V) : Jᵀ * J = V * Matrix.diagonal (fun k => σ k ^ 2) * Vᵀ := by
  rw [← h.diag]
  calc Jᵀ * J = (V * Vᵀ) * (Jᵀ * J) * (V * Vᵀ) := by rw [h.orth', Matrix.one_mul, Matrix.mul_one]
    _ = V * (Vᵀ * (Jᵀ * J) * V) * Vᵀ := by simp only [Matrix.mul_assoc]

/-- Every vector is `V` applied to its coordinates `Vᵀ v`. -/
theorem SvdSpec.recompose {J : Matrix m (Fin n) ℝ} {σ : Fin n → ℝ} {V : Matrix (Fin n) (Fin n) ℝ}
    (h : SvdSpec J σ V) (v : Fin n → ℝ) : V *ᵥ (Vᵀ *ᵥ v) = v := by
  rw [mulVec_mulVec, h.orth', one_mulVec]

/-- Under the SVD contract, `v` is in the kernel of `J` iff its coordinates in the basis of the
columns of `V` vanish for every non-zero singular value. -/
theorem kernel_iff {J : Matrix m (Fin n) ℝ} {σ : Fin n → ℝ} {V : Matrix (Fin n) (Fin n) ℝ}
    (h : SvdSpec J σ V) (v : Fin n → ℝ) :
    J *ᵥ v = 0 ↔ ∀ k, σ k ≠ 0 → (Vᵀ *ᵥ v) k = 0 := by
  rw [mulVec_eq_zero_iff_gram, h.gram_eq]
  have key : (V * Matrix.diagonal (fun k => σ k ^ 2) * Vᵀ) *ᵥ v = 0 ↔
      Matrix.diagonal (fun k => σ k ^ 2) *ᵥ (Vᵀ *ᵥ v) = 0 := by
    rw [← mulVec_mulVec, ← mulVec_mulVec]
    constructor
    · intro h0
      have := congrArg (fun w => Vᵀ *ᵥ w) h0
      rwa [mulVec_mulVec, h.orth, one_mulVec, mulVec_zero] at this
    · intro h0
      rw [h0, mulVec_zero]
  rw [key]
  constructor
  · intro h0 k hk
    have := congrFun h0 k
    rw [mulVec_diagonal] at this
    simp only [Pi.zero_apply, mul_eq_zero] at this
    rcases this with h1 | h1
    · exact absurd ((pow_eq_zero_iff two_ne_zero).mp h1) hk
    · exact h1
  · intro h0
    ext k
    rw [mulVec_diagonal]
    by_cases hk : σ k = 0
    · simp [hk]
    · simp [h0 k hk]

/-- The coordinates of column `k` of `V` are the `k`-th unit vector. -/
theorem SvdSpec.coords_column {J : Matrix m (Fin n) ℝ} {σ : Fin n → ℝ}
    {V : Matrix (Fin n) (Fin n) ℝ} (h : SvdSpec J σ V) (k k' : Fin n) :
    (Vᵀ *ᵥ (fun j => V j k)) k' = if k' = k then 1 else 0 := by
  have := congrFun (congrFun h.orth k') k
  rw [Matrix.one_apply] at this
  rw [← this]
  rfl

/-- A column of `V` belonging to a zero singular value is a kernel direction of `J`. -/
theorem null_column_in_kernel {J : Matrix m (Fin n) ℝ} {σ : Fin n → ℝ}
    {V : Matrix (Fin n) (Fin n) ℝ} (h : SvdSpec J σ V) (k : Fin n) (hk : σ k = 0) :
    J *ᵥ (fun j => V j k) = 0 := by
  rw [kernel_iff h]
  intro k' hk'
  rw [h.coords_column]
  have : k' ≠ k := fun e => hk' (e ▸ hk)
  simp [this]

/-- **A variable takes part in the null space iff some null column of `V` has a non-zero entry in
its row.** -/
theorem participates_iff {J : Matrix m (Fin n) ℝ} {σ : Fin n → ℝ}
    {V : Matrix (Fin n) (Fin n) ℝ} (h : SvdSpec J σ V) (j : Fin n) :
    (∃ v, J *ᵥ v = 0 ∧ v j ≠ 0) ↔ ∃ k, σ k = 0 ∧ V j k ≠ 0 := by
  constructor
  · rintro ⟨v, hv, hj⟩
    by_contra hno
    have hno : ∀ k, σ k = 0 → V j k = 0 := fun k hk => by
      by_contra hne
      exact hno ⟨k, hk, hne⟩
    apply hj
    have hc := (kernel_iff h v).mp hv
    rw [← h.recompose v]
    show (fun k => V j k) ⬝ᵥ (Vᵀ *ᵥ v) = 0
    apply Finset.sum_eq_zero
    intro k _
    by_cases hk : σ k = 0
    · simp only [hno k hk, zero_mul]
    · simp only [hc k hk, mul_zero]
  · rintro ⟨k, hk, hjk⟩
    exact ⟨fun j => V j k, null_column_in_kernel h k hk, hjk⟩

omit [Fintype m] in
/-- A variable no constraint mentions (zero Jacobian column) can move alone: the unit vector `e_j`
is a kernel direction. -/
theorem unmentioned_unit_in_kernel {c : Type} [Fintype c] [DecidableEq c] (J : Matrix m c ℝ) (j : c)
    (hcol : ∀ i, J i j = 0) : J *ᵥ (Pi.single j 1) = 0 := by
  ext i
  simp [hcol i]

omit [Fintype m] in
/-- A variable no constraint mentions takes part in the null space. -/
theorem unmentioned_in_kernel {c : Type} [Fintype c] [DecidableEq c] (J : Matrix m c ℝ) (j : c)
    (hcol : ∀ i, J i j = 0) : ∃ v, J *ᵥ v = 0 ∧ v j ≠ 0 :=
  ⟨Pi.single j 1, unmentioned_unit_in_kernel J j hcol, by simp⟩

omit [Fintype m] in
/-- A pinned variable (some row of `J` is `c • e_j`, `c ≠ 0` — the contribution of a `Fixed`
request) is zero in every kernel direction. -/
theorem pinned_not_in_kernel {c : Type} [Fintype c] [DecidableEq c] (J : Matrix m c ℝ) (j : c)
    (i : m) (a : ℝ) (ha : a ≠ 0) (hrow : ∀ j', J i j' = if j' = j then a else 0)
    (v : c → ℝ) (hv : J *ᵥ v = 0) : v j = 0 := by
  have := congrFun hv i
  simp only [mulVec, dotProduct, hrow, ite_mul, zero_mul, Finset.sum_ite_eq', Finset.mem_univ,
    if_true, Pi.zero_apply] at this
  exact (mul_eq_zero.mp this).resolve_left ha

/-! ### The participation measure is the length of a projection -/

/-- Coordinates (in the basis of the columns of `V`) of the projection of `e_j` on `ker J`: row `j`
of `V` restricted to the null columns. -/
noncomputable def nullCoords (σ : Fin n → ℝ) (V : Matrix (Fin n) (Fin n) ℝ) (j : Fin n) :
    Fin n → ℝ := fun k => if σ k = 0 then V j k else 0

/-- The orthogonal projection of the unit vector `e_j` on `ker J`, written with the null columns of
`V`: `Σ_{k, σ k = 0} V j k • V_k`. -/
noncomputable def kerProj (σ : Fin n → ℝ) (V : Matrix (Fin n) (Fin n) ℝ) (j : Fin n) : Fin n → ℝ :=
  V *ᵥ nullCoords σ V j

/-- `kerProj` lies in the kernel of `J`. -/
theorem kerProj_in_kernel {J : Matrix m (Fin n) ℝ} {σ : Fin n → ℝ}
    {V : Matrix (Fin n) (Fin n) ℝ} (h : SvdSpec J σ V) (j : Fin n) :
    J *ᵥ kerProj σ V j = 0 := by
  rw [kernel_iff h]
  intro k hk
  unfold kerProj
  rw [mulVec_mulVec, h.orth, one_mulVec]
  simp [nullCoords, hk]

/-- `e_j - kerProj` is orthogonal to every kernel direction; with `kerProj_in_kernel` this says
that `kerProj σ V j` is the orthogonal projection of `e_j` on `ker J`. -/
theorem kerProj_residual_orth {J : Matrix m (Fin n) ℝ} {σ : Fin n → ℝ}
    {V : Matrix (Fin n) (Fin n) ℝ} (h : SvdSpec J σ V) (j : Fin n) (v : Fin n → ℝ)
    (hv : J *ᵥ v = 0) : (Pi.single j 1 - kerProj σ V j) ⬝ᵥ v = 0 := by
  have hc := (kernel_iff h v).mp hv
  rw [sub_dotProduct, single_dotProduct, one_mul, sub_eq_zero]
  have h1 : kerProj σ V j ⬝ᵥ v = nullCoords σ V j ⬝ᵥ (Vᵀ *ᵥ v) := by
    unfold kerProj
    rw [dotProduct_mulVec, vecMul_transpose, dotProduct_comm]
  have h2 : v j = (fun k => V j k) ⬝ᵥ (Vᵀ *ᵥ v) := by
    conv_lhs => rw [← h.recompose v]
    rfl
  rw [h1, h2]
  apply Finset.sum_congr rfl
  intro k _
  by_cases hk : σ k = 0
  · simp [nullCoords, hk]
  · simp [nullCoords, hk, hc k hk]

/-- The two properties above determine the vector: `kerProj σ V j` is *the* orthogonal projection of
`e_j` on `ker J`. -/
theorem kerProj_unique {J : Matrix m (Fin n) ℝ} {σ : Fin n → ℝ}
    {V : Matrix (Fin n) (Fin n) ℝ} (h : SvdSpec J σ V) (j : Fin n) (p : Fin n → ℝ)
    (hker : J *ᵥ p = 0) (horth : ∀ v, J *ᵥ v = 0 → (Pi.single j 1 - p) ⬝ᵥ v = 0) :
    p = kerProj σ V j := by
  have hd : J *ᵥ (kerProj σ V j - p) = 0 := by
    rw [mulVec_sub, kerProj_in_kernel h j, hker, sub_zero]
  have h1 := horth _ hd
  have h2 := kerProj_residual_orth h j _ hd
  have h3 : (kerProj σ V j - p) ⬝ᵥ (kerProj σ V j - p) = 0 := by
    have : kerProj σ V j - p = (Pi.single j 1 - p) - (Pi.single j 1 - kerProj σ V j) := by abel
    conv_lhs => arg 1; rw [this]
    rw [sub_dotProduct, h1, h2, sub_zero]
  have := dotProduct_self_eq_zero.mp h3
  exact (sub_eq_zero.mp this).symm

/-- **The squared participation of variable `j` — the sum of squares of row `j` of `V` over the
null columns — is the squared length of the orthogonal projection of `e_j` on `ker J`.** -/
theorem participation_eq_projection {J : Matrix m (Fin n) ℝ} {σ : Fin n → ℝ}
    {V : Matrix (Fin n) (Fin n) ℝ} (h : SvdSpec J σ V) (j : Fin n) :
    ∑ k ∈ Finset.univ.filter (fun k => σ k = 0), V j k ^ 2
      = kerProj σ V j ⬝ᵥ kerProj σ V j := by
  unfold kerProj
  rw [dotProduct_mulVec, vecMul_mulVec]
  rw [h.orth, vecMul_one, Finset.sum_filter]
  apply Finset.sum_congr rfl
  intro k _
  by_cases hk : σ k = 0
  · simp [nullCoords, hk, pow_two]
  · simp [nullCoords, hk]

end Ezpz.GN
