/-
The loop's stopping tests over ℝ depend only on the multiset of the numbers they look at (C12), and
on a union of groups the residual test passes iff it passes for every group (C17).
-/
import Ezpz.Real.Instance
import Ezpz.Model.Solve
import Mathlib.Data.List.Perm.Basic
namespace Ezpz
open Transc

/-- The running maximum of absolute values (what `fold(fmax ∘ abs)` computes over ℝ). -/
def fm (a : ℝ) (xs : List ℝ) : ℝ := xs.foldl (fun acc y => max acc |y|) a

theorem fm_nil (a : ℝ) : fm a [] = a := rfl
theorem fm_cons (a x : ℝ) (xs : List ℝ) : fm a (x :: xs) = fm (max a |x|) xs := rfl
theorem maxAbs?_cons (x : ℝ) (rest : List ℝ) : maxAbs? (x :: rest) = some (fm |x| rest) := rfl
theorem maxAbs0_eq (xs : List ℝ) : maxAbs0 xs = fm 0 xs := by
  unfold maxAbs0; rw [lit_0]; rfl

theorem fm_ge (xs : List ℝ) (a : ℝ) : a ≤ fm a xs ∧ ∀ x ∈ xs, |x| ≤ fm a xs := by
  induction xs generalizing a with
  | nil => simp [fm_nil]
  | cons x rest ih =>
    rw [fm_cons]
    obtain ⟨h1, h2⟩ := ih (max a |x|)
    refine ⟨le_trans (le_max_left _ _) h1, ?_⟩
    intro y hy
    rcases List.mem_cons.mp hy with rfl | hy
    · exact le_trans (le_max_right _ _) h1
    · exact h2 y hy

theorem fm_attained (xs : List ℝ) (a : ℝ) : fm a xs = a ∨ ∃ x ∈ xs, fm a xs = |x| := by
  induction xs generalizing a with
  | nil => simp [fm_nil]
  | cons x rest ih =>
    rw [fm_cons]
    rcases ih (max a |x|) with h | ⟨y, hy, h⟩
    · rcases max_cases a |x| with ⟨hm, _⟩ | ⟨hm, _⟩
      · left; rw [h, hm]
      · right; exact ⟨x, by simp, by rw [h, hm]⟩
    · right; exact ⟨y, by simp [hy], h⟩

/-- `maxAbs? xs = some m` says exactly: `m` bounds every `|x|` and is attained. -/
theorem maxAbs?_spec (xs : List ℝ) (m : ℝ) :
    maxAbs? xs = some m ↔ (∀ x ∈ xs, |x| ≤ m) ∧ ∃ x ∈ xs, |x| = m := by
  cases xs with
  | nil => simp [maxAbs?]
  | cons x rest =>
    rw [maxAbs?_cons, Option.some.injEq]
    obtain ⟨h1, h2⟩ := fm_ge rest |x|
    constructor
    · intro h
      subst h
      refine ⟨?_, ?_⟩
      · intro y hy
        rcases List.mem_cons.mp hy with rfl | hy
        · exact h1
        · exact h2 y hy
      · rcases fm_attained rest |x| with h | ⟨y, hy, h⟩
        · exact ⟨x, by simp, h.symm⟩
        · exact ⟨y, by simp [hy], h.symm⟩
    · rintro ⟨hb, y, hy, rfl⟩
      apply le_antisymm
      · rcases fm_attained rest |x| with h | ⟨z, hz, h⟩
        · rw [h]; exact hb x (by simp)
        · rw [h]; exact hb z (by simp [hz])
      · rcases List.mem_cons.mp hy with rfl | hy
        · exact h1
        · exact h2 y hy

theorem maxAbs?_isSome (xs : List ℝ) : (maxAbs? xs).isSome = !xs.isEmpty := by
  cases xs <;> simp [maxAbs?]

/-- C12.3 — **the residual test does not see the order of the equations**: the largest absolute
residual of a permuted list is the same number. -/
theorem maxAbs?_perm (xs ys : List ℝ) (h : xs.Perm ys) : maxAbs? xs = maxAbs? ys := by
  cases hx : maxAbs? xs with
  | none =>
    have : xs = [] := by cases xs <;> simp_all [maxAbs?]
    subst this
    have : ys = [] := List.Perm.eq_nil h.symm
    subst this; rfl
  | some m =>
    symm
    rw [maxAbs?_spec] at hx ⊢
    obtain ⟨hb, y, hy, hm⟩ := hx
    exact ⟨fun x hx' => hb x (h.mem_iff.mpr hx'), y, h.mem_iff.mp hy, hm⟩

/-- Same for the step's ∞-norm. -/
theorem stepInfNorm_perm (xs ys : List ℝ) (h : xs.Perm ys) : stepInfNorm xs = stepInfNorm ys := by
  unfold stepInfNorm; rw [maxAbs?_perm xs ys h]

/-- `maxAbs0 xs` is the least upper bound of `0` and the `|x|`. -/
theorem maxAbs0_spec (xs : List ℝ) (m : ℝ) :
    maxAbs0 xs = m ↔ (0 ≤ m ∧ (∀ x ∈ xs, |x| ≤ m) ∧ (m = 0 ∨ ∃ x ∈ xs, |x| = m)) := by
  rw [maxAbs0_eq]
  obtain ⟨h1, h2⟩ := fm_ge xs 0
  constructor
  · intro h
    subst h
    refine ⟨h1, h2, ?_⟩
    rcases fm_attained xs 0 with h | ⟨y, hy, h⟩
    · left; exact h
    · right; exact ⟨y, hy, h.symm⟩
  · rintro ⟨h0, hb, hz | ⟨y, hy, rfl⟩⟩
    · subst hz
      apply le_antisymm
      · rcases fm_attained xs 0 with h | ⟨z, hz, h⟩
        · rw [h]
        · rw [h]; exact hb z hz
      · exact h1
    · apply le_antisymm
      · rcases fm_attained xs 0 with h | ⟨z, hz, h⟩
        · rw [h]; exact abs_nonneg _
        · rw [h]; exact hb z hz
      · exact h2 y hy

/-- Same for the value ∞-norm used in the relative step test (so the threshold is invariant under
renumbering the variables). -/
theorem maxAbs0_perm (xs ys : List ℝ) (h : xs.Perm ys) : maxAbs0 xs = maxAbs0 ys := by
  symm
  rw [maxAbs0_spec]
  obtain ⟨h0, hb, hz⟩ := (maxAbs0_spec xs (maxAbs0 xs)).mp rfl
  refine ⟨h0, fun x hx => hb x (h.mem_iff.mpr hx), ?_⟩
  rcases hz with hz | ⟨y, hy, hm⟩
  · left; exact hz
  · right; exact ⟨y, h.mem_iff.mp hy, hm⟩

theorem stepThreshold_perm (cfg : Config ℝ) (xs ys : List ℝ) (h : xs.Perm ys) :
    stepThreshold cfg xs = stepThreshold cfg ys := by
  unfold stepThreshold; rw [maxAbs0_perm xs ys h]

/-- C17.3 — **the global residual test on a union of groups passes iff it passes for every
group**: for non-empty residual vectors `r1`, `r2`, the largest absolute entry of `r1 ++ r2` is
within the tolerance iff both groups' largest entries are. -/
theorem residual_test_of_union (r1 r2 : List ℝ) (tol m1 m2 : ℝ) (h1 : maxAbs? r1 = some m1)
    (h2 : maxAbs? r2 = some m2) :
    ∃ m, maxAbs? (r1 ++ r2) = some m ∧ m = max m1 m2 ∧ (m ≤ tol ↔ m1 ≤ tol ∧ m2 ≤ tol) := by
  rw [maxAbs?_spec] at h1 h2
  obtain ⟨hb1, y1, hy1, hm1⟩ := h1
  obtain ⟨hb2, y2, hy2, hm2⟩ := h2
  refine ⟨max m1 m2, ?_, rfl, max_le_iff⟩
  rw [maxAbs?_spec]
  constructor
  · intro x hx
    rcases List.mem_append.mp hx with hx | hx
    · exact le_trans (hb1 x hx) (le_max_left _ _)
    · exact le_trans (hb2 x hx) (le_max_right _ _)
  · rcases max_cases m1 m2 with ⟨hm, _⟩ | ⟨hm, _⟩
    · exact ⟨y1, by simp [hy1], by rw [hm, hm1]⟩
    · exact ⟨y2, by simp [hy2], by rw [hm, hm2]⟩

/-- The step-size test on a union: the step's ∞-norm is the larger of the groups' norms. -/
theorem step_norm_of_union (d1 d2 : List ℝ) (h1 : d1 ≠ []) (h2 : d2 ≠ []) :
    stepInfNorm (d1 ++ d2) = max (stepInfNorm d1) (stepInfNorm d2) := by
  obtain ⟨m1, hm1⟩ : ∃ m, maxAbs? d1 = some m := by
    cases d1 with
    | nil => exact absurd rfl h1
    | cons x r => exact ⟨_, rfl⟩
  obtain ⟨m2, hm2⟩ : ∃ m, maxAbs? d2 = some m := by
    cases d2 with
    | nil => exact absurd rfl h2
    | cons x r => exact ⟨_, rfl⟩
  obtain ⟨m, hm, hmax, _⟩ := residual_test_of_union d1 d2 0 m1 m2 hm1 hm2
  simp [stepInfNorm, hm, hm1, hm2, hmax]

end Ezpz
