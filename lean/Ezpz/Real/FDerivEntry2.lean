/-
C02 — the local-convergence theorem for the MODEL's residual map, with nine more kinds
(`PointLineDistance`, `VerticalPointLineDistance`, `HorizontalPointLineDistance`,
`LineTangentToCircle`, `Symmetric`, `ArcLength`, `CircleTangentToCircle`, general-angle
`LinesAtAngle`, `ArcAngle`) under the regularity hypothesis `RegularAt2`
(Real/FDerivKinds2.lean).
-/
import Ezpz.Real.FDerivEntry
import Ezpz.Real.FDerivKinds2
namespace Ezpz
open Transc Matrix Topology

/-- **`hasFDerivAt_rOf` under `RegularAt2`** (the 15 kinds of `RegularAt` plus `PointLineDistance`,
`VerticalPointLineDistance`, `HorizontalPointLineDistance`, `LineTangentToCircle`, `Symmetric`,
`ArcLength`, `CircleTangentToCircle`, general-angle `LinesAtAngle`, `ArcAngle`): for
requests with ids `< n` that are all regular at `xs` (every guard of the residual and of the Jacobian
kernel strictly inactive), the model's assembled residual map has at `xs` the Fréchet derivative given
by the model's assembled Jacobian at `xs`, and the assembled Jacobian is continuous at `xs`. -/
theorem hasFDerivAt_rOf_regular2 (es : List (Entry ℝ)) (n : Nat) (hd : Declared es n)
    (xs : EuclideanSpace ℝ (Fin n)) (hk : ∀ e ∈ es, RegularAt2 e.c (asg n xs)) :
    HasFDerivAt (rOf es n) (GN.euclCLM (JOf es n xs)) xs ∧ ContinuousAt (JOf es n) xs :=
  ⟨hasFDerivAt_rOf_of_kindC1 es n hd xs (fun e he => kindC1_of_regular2 e.c n xs (hk e he)),
    continuousAt_JOf_of_kindC1 es n hd xs (fun e he => kindC1_of_regular2 e.c n xs (hk e he))⟩

/-- **`model_local_C02` under `RegularAt2`**: `es` with ids `< n`, every request regular at `xs`
(`RegularAt2`), `xs` a zero of the model's residual map, `0 < lam < c ≤ σ_min(JOf es n xs)²`.  Then
there is `ρ > 0` such that the exact damped Gauss–Newton iteration built from the model's residual and
Jacobian (`gnMap`), started within `ρ` of `xs`, halves its error every round, stays within `ρ` of
`xs`, and never moves farther than `1.5 ‖x0 − xs‖` from the guess. -/
theorem model_local_C02_regular2 (es : List (Entry ℝ)) (n : Nat) (hd : Declared es n)
    (xs : EuclideanSpace ℝ (Fin n)) (hk : ∀ e ∈ es, RegularAt2 e.c (asg n xs))
    (hxs : rOf es n xs = 0) (lam c : ℝ) (hlam : 0 < lam) (hc : lam < c)
    (hJ : ∀ v : Fin n → ℝ, c * (v ⬝ᵥ v) ≤ (JOf es n xs *ᵥ v) ⬝ᵥ (JOf es n xs *ᵥ v)) :
    ∃ ρ : ℝ, 0 < ρ ∧ ∀ x0, ‖x0 - xs‖ ≤ ρ → ∀ k : ℕ,
      ‖(gnMap es n lam)^[k] x0 - xs‖ ≤ (1 / 2) ^ k * ‖x0 - xs‖ ∧
      ‖(gnMap es n lam)^[k] x0 - xs‖ ≤ ρ ∧
      ‖(gnMap es n lam)^[k] x0 - x0‖ ≤ 1.5 * ‖x0 - xs‖ :=
  model_local_C02_of_kindC1 es n hd xs (fun e he => kindC1_of_regular2 e.c n xs (hk e he)) hxs lam c
    hlam hc hJ

/-- **C02 for the executed rounds of the model's loop, under `RegularAt2`** (exact solver, exact
real arithmetic): `es` with ids `< n`, every request regular at `xs` (`RegularAt2`), `xs` a zero of
the model's residual, `0 < lam < c ≤ σ_min(JOf es n xs)²`.  There is `ρ > 0` such that for every
exact solver with damping `lam`, every configuration, and every guess list `x` of `n` values within
`ρ` of `xs`: whenever `j` rounds of the model's `newtonStep` continue from `x` to `y`,
`‖y − xs‖ ≤ 2^-j ‖x − xs‖` and `‖y − x‖ ≤ 1.5 ‖x − xs‖`.  A statement about the rounds the loop
executed; nothing is claimed about when the loop's stopping tests fire, and nothing about `f64`. -/
theorem model_newtonRun_C02_2 (es : List (Entry ℝ)) (n : Nat) (hd : Declared es n)
    (xs : EuclideanSpace ℝ (Fin n)) (hk : ∀ e ∈ es, RegularAt2 e.c (asg n xs))
    (hxs : rOf es n xs = 0) (lam c : ℝ) (hlam : 0 < lam) (hc : lam < c)
    (hJ : ∀ v : Fin n → ℝ, c * (v ⬝ᵥ v) ≤ (JOf es n xs *ᵥ v) ⬝ᵥ (JOf es n xs *ᵥ v)) :
    ∃ ρ : ℝ, 0 < ρ ∧
      ∀ (cfg : Config ℝ) (solve : Nat → List (Triplet ℝ) → List ℝ → Except SolveError (List ℝ)),
        ExactSolve solve (numRows es) n (fun _ => lam) →
        ∀ (x : List ℝ), x.length = n → ‖pointOf n x - xs‖ ≤ ρ →
        ∀ (j k : Nat) (ws : List (Warning ℝ)) (y : List ℝ) (wy : List (Warning ℝ)),
          newtonRun es cfg solve j k x ws = some (y, wy) →
          ‖pointOf n y - xs‖ ≤ (1 / 2) ^ j * ‖pointOf n x - xs‖ ∧
          ‖pointOf n y - pointOf n x‖ ≤ 1.5 * ‖pointOf n x - xs‖ := by
  obtain ⟨ρ, hρ, hball⟩ := model_local_C02_regular2 es n hd xs hk hxs lam c hlam hc hJ
  refine ⟨ρ, hρ, ?_⟩
  intro cfg solve hS x hx hx0 j k ws y wy hrun
  obtain ⟨_, hy⟩ := newtonRun_eq_iterate es n cfg solve lam hlam hS j k x ws y wy hx hrun
  rw [hy]
  exact ⟨(hball _ hx0 j).1, (hball _ hx0 j).2.2⟩

/-! ### Non-vacuity: a fully determined system with a `PointLineDistance` request -/

/-- "Offset point": `A = (v0, v1)` fixed at `(0, 0)`, `B = (v2, v3)` fixed at `(2, 0)`, `P = (v4, v5)`
at signed distance 1 from the line `AB` and with `v4 = 1`. -/
def pld1 : List (Entry ℝ) :=
  [⟨.fixed 0 0, 0, 0⟩, ⟨.fixed 1 0, 1, 0⟩, ⟨.fixed 2 2, 2, 0⟩, ⟨.fixed 3 0, 3, 0⟩,
   ⟨.pointLineDistance ⟨4, 5⟩ ⟨⟨0, 1⟩, ⟨2, 3⟩⟩ 1, 4, 0⟩, ⟨.fixed 4 1, 5, 0⟩]

/-- `√4 = 2`. -/
theorem sqrt4 : Real.sqrt 4 = 2 := by
  rw [show (4 : ℝ) = 2 ^ 2 by norm_num]; exact Real.sqrt_sq (by norm_num)

/-- All ids of "Offset point" are `< 6`. -/
theorem pld1_declared : Declared pld1 6 := by
  intro e he i hi
  simp only [pld1, List.mem_cons, List.not_mem_nil, or_false] at he
  rcases he with rfl | rfl | rfl | rfl | rfl | rfl <;>
    simp [Constraint.nonzeroes, Rows.all, Seg.vars, Pt.vars] at hi <;> omega

/-- Every request of "Offset point" is regular at `(0, 0, 2, 0, 1, 1)`: `A` and `B` are 2 apart. -/
theorem pld1_regular : ∀ e ∈ pld1, RegularAt2 e.c (asg 6 (pointOf 6 [0, 0, 2, 0, 1, 1])) := by
  intro e he
  simp only [pld1, List.mem_cons, List.not_mem_nil, or_false] at he
  rcases he with rfl | rfl | rfl | rfl | rfl | rfl
  · exact trivial
  · exact trivial
  · exact trivial
  · exact trivial
  · show EPS < Real.sqrt _
    simp only [asg_pointOf 6 [0, 0, 2, 0, 1, 1] rfl]
    norm_num [sqrt4, EPS_real]
  · exact trivial

/-- `(0, 0, 2, 0, 1, 1)` solves "Offset point": the model's residual map vanishes there. -/
theorem pld1_zero : rOf pld1 6 (pointOf 6 [0, 0, 2, 0, 1, 1]) = 0 := by
  apply (WithLp.ofLp_injective 2)
  funext i
  rw [rOf_apply pld1 6 pld1_declared]
  show resRow pld1 i.val _ = (0 : ℝ)
  obtain ⟨i, hi⟩ := i
  have hi6 : i < 6 := hi
  have hE : ¬ (2 : ℝ) < EPS := by rw [EPS_real]; norm_num
  interval_cases i <;>
    simp [pld1, resRow, Constraint.residualDim, Constraint.residualV, Res.mk1,
      takeRows, asg_pointOf, hE]

/-- `(2·2)^1.5 = 8` (the `powf _ 1.5` of the `PointLineDistance` Jacobian at a segment of length 2). -/
theorem rpow_four_1_5 : ((2 : ℝ) * 2) ^ (1.5 : ℝ) = 8 := by
  rw [lit_1_5, rpow_three_halves (by norm_num), Real.sqrt_mul_self (by norm_num)]
  norm_num

/-- The conditioning hypothesis of `model_local_C02_regular2` for "Offset point" at its solution,
with `c = 1/4`. -/
theorem pld1_conditioned (v : Fin 6 → ℝ) :
    (1 / 4 : ℝ) * (v ⬝ᵥ v) ≤ (JOf pld1 6 (pointOf 6 [0, 0, 2, 0, 1, 1]) *ᵥ v) ⬝ᵥ
      (JOf pld1 6 (pointOf 6 [0, 0, 2, 0, 1, 1]) *ᵥ v) := by
  have h := JOf_dot pld1 6 pld1_declared (pointOf 6 [0, 0, 2, 0, 1, 1]) (WithLp.toLp 2 v)
  rw [show (WithLp.toLp 2 v).ofLp = v from rfl] at h
  rw [h]
  have hn : numRows pld1 = 6 := rfl
  have hv : ∀ k (hk : k < 6), asg 6 (WithLp.toLp 2 v) k = v ⟨k, hk⟩ := fun k hk => asg_lt 6 _ k hk
  rw [hn]
  simp [Finset.sum_range_succ, pld1, jacRow, Constraint.residualDim, Constraint.jacobianV,
    rowApply, takeRows, asg_pointOf, hv, dotProduct, Fin.sum_univ_succ, sqr]
  rw [rpow_four_1_5, lit_1]
  nlinarith [sq_nonneg (v 5 - (v 1 + v 3) / 2), sq_nonneg (v 1 - v 3), sq_nonneg (v 1 + v 3),
    sq_nonneg (v 5 - (v 1 + v 3)), sq_nonneg (v 0), sq_nonneg (v 2), sq_nonneg (v 4),
    sq_nonneg (v 5), sq_nonneg (v 1), sq_nonneg (v 3)]

/-- **Non-vacuity of `model_local_C02_regular2` and of `RegularAt2`**: a fully determined system with
a `PointLineDistance` request (four `Fixed` spanning the line, `PointLineDistance(P, AB, 1)`, one more
`Fixed`; 6 variables, 6 rows), its solution `(0, 0, 2, 0, 1, 1)` — where the line's end points are 2
apart, far more than `EPSILON` —, the code's damping `lam = 1e-9` and `c = 1/4` meet every hypothesis. -/
example : ∃ ρ : ℝ, 0 < ρ ∧ ∀ x0, ‖x0 - pointOf 6 [0, 0, 2, 0, 1, 1]‖ ≤ ρ → ∀ k : ℕ,
    ‖(gnMap pld1 6 1e-9)^[k] x0 - pointOf 6 [0, 0, 2, 0, 1, 1]‖ ≤
      (1 / 2) ^ k * ‖x0 - pointOf 6 [0, 0, 2, 0, 1, 1]‖ ∧
    ‖(gnMap pld1 6 1e-9)^[k] x0 - pointOf 6 [0, 0, 2, 0, 1, 1]‖ ≤ ρ ∧
    ‖(gnMap pld1 6 1e-9)^[k] x0 - x0‖ ≤ 1.5 * ‖x0 - pointOf 6 [0, 0, 2, 0, 1, 1]‖ :=
  model_local_C02_regular2 pld1 6 pld1_declared _ pld1_regular pld1_zero 1e-9 (1 / 4)
    (by norm_num) (by norm_num) pld1_conditioned

/-- **Non-vacuity of `model_newtonRun_C02_2`**: the same system meets its hypotheses, and an exact
solver with the code's damping exists. -/
example : (∃ ρ : ℝ, 0 < ρ ∧
      ∀ (cfg : Config ℝ) (solve : Nat → List (Triplet ℝ) → List ℝ → Except SolveError (List ℝ)),
        ExactSolve solve (numRows pld1) 6 (fun _ => (1e-9 : ℝ)) →
        ∀ (x : List ℝ), x.length = 6 → ‖pointOf 6 x - pointOf 6 [0, 0, 2, 0, 1, 1]‖ ≤ ρ →
        ∀ (j k : Nat) (ws : List (Warning ℝ)) (y : List ℝ) (wy : List (Warning ℝ)),
          newtonRun pld1 cfg solve j k x ws = some (y, wy) →
          ‖pointOf 6 y - pointOf 6 [0, 0, 2, 0, 1, 1]‖ ≤
            (1 / 2) ^ j * ‖pointOf 6 x - pointOf 6 [0, 0, 2, 0, 1, 1]‖ ∧
          ‖pointOf 6 y - pointOf 6 x‖ ≤ 1.5 * ‖pointOf 6 x - pointOf 6 [0, 0, 2, 0, 1, 1]‖) ∧
    ∃ solve, ExactSolve solve (numRows pld1) 6 (fun _ => (1e-9 : ℝ)) :=
  ⟨model_newtonRun_C02_2 pld1 6 pld1_declared _ pld1_regular pld1_zero 1e-9 (1 / 4)
    (by norm_num) (by norm_num) pld1_conditioned,
   (exists_exactSolve _ _ _ (fun _ => by norm_num)).imp fun _ h => h.1⟩

/-- The residual map of "Offset point" is genuinely non-linear: its `PointLineDistance` Jacobian row
(row 4), applied to the direction `e₁` (moving `A` vertically), differs between the solution and the
point with `P` moved to `(3, 1)`. -/
example : jacRow pld1 4 (asg 6 (pointOf 6 [0, 0, 2, 0, 1, 1])) (fun i => if i = 1 then 1 else 0) ≠
    jacRow pld1 4 (asg 6 (pointOf 6 [0, 0, 2, 0, 3, 1])) (fun i => if i = 1 then 1 else 0) := by
  simp [pld1, jacRow, Constraint.residualDim, Constraint.jacobianV, rowApply, takeRows, asg_pointOf,
    sqr]

/-! ### Non-vacuity: a fully determined system with a `LineTangentToCircle` request -/

/-- "Tangent": circle with centre `(v0, v1)` fixed at `(0, 0)` and radius `v2` fixed at 1; line from
`A = (v3, v4)` fixed at `(1, 1)` to `B = (v5, v6)` with `v5 = -1`, tangent to the circle. -/
def tan1 : List (Entry ℝ) :=
  [⟨.fixed 0 0, 0, 0⟩, ⟨.fixed 1 0, 1, 0⟩, ⟨.fixed 2 1, 2, 0⟩, ⟨.fixed 3 1, 3, 0⟩,
   ⟨.fixed 4 1, 4, 0⟩, ⟨.fixed 5 (-1), 5, 0⟩,
   ⟨.lineTangentToCircle ⟨⟨3, 4⟩, ⟨5, 6⟩⟩ ⟨⟨0, 1⟩, 2⟩, 6, 0⟩]

/-- All ids of "Tangent" are `< 7`. -/
theorem tan1_declared : Declared tan1 7 := by
  intro e he i hi
  simp only [tan1, List.mem_cons, List.not_mem_nil, or_false] at he
  rcases he with rfl | rfl | rfl | rfl | rfl | rfl | rfl <;>
    simp [Constraint.nonzeroes, Rows.all, Seg.vars, Circ.vars] at hi <;> omega

/-- Every request of "Tangent" is regular at `(0, 0, 1, 1, 1, -1, 1)`: the line's end points are 2
apart, so `dx² + dy² = 4 > EPSILON`. -/
theorem tan1_regular : ∀ e ∈ tan1, RegularAt2 e.c (asg 7 (pointOf 7 [0, 0, 1, 1, 1, -1, 1])) := by
  intro e he
  simp only [tan1, List.mem_cons, List.not_mem_nil, or_false] at he
  rcases he with rfl | rfl | rfl | rfl | rfl | rfl | rfl
  · exact trivial
  · exact trivial
  · exact trivial
  · exact trivial
  · exact trivial
  · exact trivial
  · show EPS < segSq _ _ _ _ _
    simp only [segSq, asg_pointOf 7 [0, 0, 1, 1, 1, -1, 1] rfl]
    norm_num [EPS_real]

/-- `(0, 0, 1, 1, 1, -1, 1)` solves "Tangent": the model's residual map vanishes there. -/
theorem tan1_zero : rOf tan1 7 (pointOf 7 [0, 0, 1, 1, 1, -1, 1]) = 0 := by
  apply (WithLp.ofLp_injective 2)
  funext i
  rw [rOf_apply tan1 7 tan1_declared]
  show resRow tan1 i.val _ = (0 : ℝ)
  obtain ⟨i, hi⟩ := i
  have hi7 : i < 7 := hi
  have hE : ¬ (2 : ℝ) < EPS := by rw [EPS_real]; norm_num
  have hs : Real.sqrt ((-1 - 1) * (-1 - 1)) = 2 := by
    rw [show ((-1 : ℝ) - 1) * (-1 - 1) = 2 * 2 by norm_num]; exact Real.sqrt_mul_self (by norm_num)
  interval_cases i <;>
    simp [tan1, resRow, Constraint.residualDim, Constraint.residualV, Res.mk1,
      takeRows, asg_pointOf, hs, hE]

/-- The conditioning hypothesis of `model_local_C02_regular2` for "Tangent" at its solution, with
`c = 1/20`. -/
theorem tan1_conditioned (v : Fin 7 → ℝ) :
    (1 / 20 : ℝ) * (v ⬝ᵥ v) ≤ (JOf tan1 7 (pointOf 7 [0, 0, 1, 1, 1, -1, 1]) *ᵥ v) ⬝ᵥ
      (JOf tan1 7 (pointOf 7 [0, 0, 1, 1, 1, -1, 1]) *ᵥ v) := by
  have h := JOf_dot tan1 7 tan1_declared (pointOf 7 [0, 0, 1, 1, 1, -1, 1]) (WithLp.toLp 2 v)
  rw [show (WithLp.toLp 2 v).ofLp = v from rfl] at h
  rw [h]
  have hn : numRows tan1 = 7 := rfl
  have hv : ∀ k (hk : k < 7), asg 7 (WithLp.toLp 2 v) k = v ⟨k, hk⟩ := fun k hk => asg_lt 7 _ k hk
  have hE : ¬ ((1 : ℝ) + 1) * (1 + 1) < EPS := by rw [EPS_real]; norm_num
  rw [hn]
  simp [Finset.sum_range_succ, tan1, jacRow, Constraint.residualDim, Constraint.jacobianV,
    rowApply, takeRows, asg_pointOf, hv, dotProduct, Fin.sum_univ_succ, sqr, cube, hE]
  rw [lit_1]
  norm_num
  nlinarith [sq_nonneg (2 * (v 4 / 2 + v 6 / 2 - v 1 - v 2) + v 4),
    sq_nonneg (2 * (v 4 / 2 + v 6 / 2 - v 1 - v 2) - 2 * v 1),
    sq_nonneg (2 * (v 4 / 2 + v 6 / 2 - v 1 - v 2) - 2 * v 2),
    sq_nonneg (v 4 + 2 * v 1), sq_nonneg (v 4 + 2 * v 2), sq_nonneg (2 * v 1 - 2 * v 2),
    sq_nonneg (v 0), sq_nonneg (v 1), sq_nonneg (v 2), sq_nonneg (v 3), sq_nonneg (v 4),
    sq_nonneg (v 5), sq_nonneg (v 6), sq_nonneg (v 4 / 2 + v 6 / 2 - v 1 - v 2)]

/-- **Non-vacuity with `LineTangentToCircle`**: "Tangent" (six `Fixed`, one `LineTangentToCircle`;
7 variables, 7 rows), its solution `(0, 0, 1, 1, 1, -1, 1)`, `lam = 1e-9`, `c = 1/20` meet every
hypothesis of `model_local_C02_regular2`. -/
example : ∃ ρ : ℝ, 0 < ρ ∧ ∀ x0, ‖x0 - pointOf 7 [0, 0, 1, 1, 1, -1, 1]‖ ≤ ρ → ∀ k : ℕ,
    ‖(gnMap tan1 7 1e-9)^[k] x0 - pointOf 7 [0, 0, 1, 1, 1, -1, 1]‖ ≤
      (1 / 2) ^ k * ‖x0 - pointOf 7 [0, 0, 1, 1, 1, -1, 1]‖ ∧
    ‖(gnMap tan1 7 1e-9)^[k] x0 - pointOf 7 [0, 0, 1, 1, 1, -1, 1]‖ ≤ ρ ∧
    ‖(gnMap tan1 7 1e-9)^[k] x0 - x0‖ ≤ 1.5 * ‖x0 - pointOf 7 [0, 0, 1, 1, 1, -1, 1]‖ :=
  model_local_C02_regular2 tan1 7 tan1_declared _ tan1_regular tan1_zero 1e-9 (1 / 20)
    (by norm_num) (by norm_num) tan1_conditioned

/-- The one kind still not covered is excluded by `RegularAt2` (it is `False` for it):
`PointArcCoincident`. -/
example (p : Pt) (arc : ArcD) (v : Nat → ℝ) : ¬ RegularAt2 (.pointArcCoincident arc p) v := id

end Ezpz
