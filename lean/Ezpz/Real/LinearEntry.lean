/-
C04 — the bridge from the model to the real-number theorems about linear systems
(`GN.tikhonov_step`, `GN.nearest_least_squares`, `GN.linear_round_contracts`,
`GN.linear_consistent_converges_from_guess`), which are stated for an abstract matrix `A`, vector
`b` and a sequence of exact damped rounds.

* `isLinearList es`: every request is of a linear kind (`Constraint.isLinearKind`).
* `linA es n`, `linB es`: the matrix and right-hand side of the list, built from the model's
  `jacobianAll` / `residualAll` at the all-zero assignment (so from `es` alone).
* `jacobianAll_linear_const`: the assembled Jacobian is the same at every assignment.
* `assembled_affine`: for ids `< n` and every guess list `x` of length `n` the model's residual and
  Jacobian evaluate, `matOf … jac = linA es n` and `vecOf … r = linA es n *ᵥ x - linB es`
  (`assembled_affine_no_warnings`: with no warnings; `assembled_affine_diff`: difference form).
* `newtonStep_isStep` / `newtonStep_done_isStep`: a round of the model's `newtonStep` with an exact
  solver (`ExactSolve`) that continues / returns at the step-size test moves the values by a `d`
  with `GN.IsStep A (A x - b) (lam k) d`.
* `newtonStep_contracts`, `newtonRun_contracts`, `newtonRun_prefix`, `newtonRun_converges_prefix`,
  `newtonLoop_result_contracts`: the executed rounds are a prefix of a sequence satisfying `hstep`
  of `linear_consistent_converges`, and the error to the nearest solution shrinks by the proved
  factor in every executed round.  Finite statements over ℝ about executed rounds only.
* `GN.step_in_range_transpose`: for `lam ≠ 0` a step lies in `range Aᵀ`.
-/
import Ezpz.Real.Union
import Ezpz.Real.UnionEntry
import Ezpz.Real.Linear
import Ezpz.Real.GapExists
import Ezpz.Proofs.Total
namespace Ezpz
open Transc Matrix

/-! ### 0. A step lies in the range of `Aᵀ` -/

namespace GN
variable {m n : Type} [Fintype m] [Fintype n] [DecidableEq n]

/-- **The damped step lies in the range of `Aᵀ`**: for `IsStep A r lam d` with `lam ≠ 0` there is
`y` with `d = Aᵀ *ᵥ y` (explicitly `y = -(r + A d) / lam`). -/
theorem step_in_range_transpose (A : Matrix m n ℝ) (r : m → ℝ) (lam : ℝ) (hlam : lam ≠ 0)
    (d : n → ℝ) (h : IsStep A r lam d) : ∃ y : m → ℝ, d = Aᵀ *ᵥ y := by
  have hid := step_identity A r lam d h
  refine ⟨(1 / lam) • (-(r + A *ᵥ d)), ?_⟩
  rw [mulVec_smul, ← hid, smul_smul]
  field_simp
  simp

end GN

/-! ### 1. What a contribution list does to a direction, row by row -/

/-- The sum, over the contributions of row `i`, of `value · U(column)`. -/
def rowSum (ts : List (Triplet ℝ)) (U : Nat → ℝ) (i : Nat) : ℝ :=
  ((ts.filter (fun t => decide (t.1 = i))).map (fun t => t.2.2 * U t.2.1)).sum

/-- No contributions: every row sum is 0. -/
theorem rowSum_nil (U : Nat → ℝ) (i : Nat) : rowSum [] U i = 0 := rfl

/-- The row sum of a concatenation is the sum of the row sums. -/
theorem rowSum_append (a b : List (Triplet ℝ)) (U : Nat → ℝ) (i : Nat) :
    rowSum (a ++ b) U i = rowSum a U i + rowSum b U i := by
  simp [rowSum, List.filter_append]

/-- One more contribution adds `value · U(column)` to its own row. -/
theorem rowSum_cons (t : Triplet ℝ) (ts : List (Triplet ℝ)) (U : Nat → ℝ) (i : Nat) :
    rowSum (t :: ts) U i = (if t.1 = i then t.2.2 * U t.2.1 else 0) + rowSum ts U i := by
  by_cases h : t.1 = i <;> simp [rowSum, h]

/-- One Jacobian row scattered into row `r`. -/
theorem rowSum_mapRow (row : List (JVar ℝ)) (r : Nat) (U : Nat → ℝ) (i : Nat) :
    rowSum (row.map (fun jv => (r, jv.id, jv.pd))) U i = if r = i then rowApply row U else 0 := by
  induction row with
  | nil => simp [rowSum, rowApply]
  | cons jv rest ih =>
    rw [List.map_cons, rowSum_cons, ih]
    by_cases h : r = i <;> simp [h, rowApply]

/-- Rows scattered from row `row0 + k0` on. -/
theorem rowSum_rows (rows : List (List (JVar ℝ))) (row0 : Nat) (U : Nat → ℝ) (i : Nat) :
    ∀ k0, rowSum ((rows.zipIdx k0).flatMap
        (fun (row, k) => row.map (fun jv => (row0 + k, jv.id, jv.pd)))) U i =
      if row0 + k0 ≤ i then (rows.map (fun row => rowApply row U)).getD (i - (row0 + k0)) 0
      else 0 := by
  induction rows with
  | nil => intro k0; simp [rowSum]
  | cons row rest ih =>
    intro k0
    rw [List.zipIdx_cons, List.flatMap_cons, rowSum_append, rowSum_mapRow, ih (k0 + 1)]
    by_cases h1 : row0 + k0 ≤ i
    · rw [if_pos h1]
      by_cases h2 : row0 + k0 = i
      · subst h2
        simp
      · have h3 : row0 + (k0 + 1) ≤ i := by omega
        rw [if_neg h2, if_pos h3, zero_add]
        obtain ⟨m, hm⟩ : ∃ m, i - (row0 + k0) = m + 1 := ⟨i - (row0 + k0) - 1, by omega⟩
        rw [hm, List.map_cons, List.getD_cons_succ]
        congr 1
        omega
    · rw [if_neg h1, if_neg (by omega), if_neg (by omega), add_zero]

/-- **The assembled matrix applied to a direction, row by row**: if every contribution's column is
`< n`, row `i` of `matOf R n ts *ᵥ u` is the sum over row `i`'s contributions of `value · u(column)`
(aliased contributions add, as in the scatter's `+=`). -/
theorem matOf_mulVec (R n : Nat) (ts : List (Triplet ℝ)) (U : Nat → ℝ)
    (h : ∀ t ∈ ts, t.2.1 < n) (i : Fin R) :
    (matOf R n ts *ᵥ (fun j : Fin n => U j.val)) i = rowSum ts U i.val := by
  induction ts with
  | nil =>
    have : matOf R n [] = 0 := by ext a b; simp [matOf]
    rw [this]; simp [rowSum]
  | cons t ts ih =>
    have hsplit : matOf R n (t :: ts) = matOf R n [t] + matOf R n ts := by
      rw [← matOf_append]; rfl
    rw [hsplit, add_mulVec, Pi.add_apply, ih (fun t' ht' => h t' (List.mem_cons_of_mem _ ht')),
      rowSum_cons]
    congr 1
    have hc : t.2.1 < n := h t List.mem_cons_self
    simp only [mulVec, dotProduct, matOf]
    by_cases hr : t.1 = i.val
    · rw [if_pos hr, Finset.sum_eq_single (⟨t.2.1, hc⟩ : Fin n)]
      · simp [hr]
      · intro b _ hb
        have : ¬ t.2.1 = b.val := fun e => hb (Fin.ext e.symm)
        simp [this]
      · intro hn; exact absurd (Finset.mem_univ _) hn
    · rw [if_neg hr]
      apply Finset.sum_eq_zero
      intro b _
      simp [hr]

/-! ### 2. Lists of linear requests -/

/-- Every request of the list is of a linear kind (`Constraint.isLinearKind`). -/
def isLinearList (es : List (Entry ℝ)) : Prop := ∀ e ∈ es, e.c.isLinearKind = true

/-- Being a linear list is decidable. -/
instance (es : List (Entry ℝ)) : Decidable (isLinearList es) := by
  unfold isLinearList; infer_instance

/-- A list is linear iff its head is of a linear kind and its tail is linear. -/
theorem isLinearList_cons (e : Entry ℝ) (es : List (Entry ℝ)) :
    isLinearList (e :: es) ↔ e.c.isLinearKind = true ∧ isLinearList es := by
  simp [isLinearList]

/-- A linear kind's Jacobian reads no variable at all. -/
theorem linear_jacobianReads (c : Constraint ℝ) (h : c.isLinearKind = true) :
    c.jacobianReads = [] := by
  cases c <;> simp [Constraint.isLinearKind] at h <;> rfl

/-- The Jacobian rows of a linear kind always evaluate, to the same rows at every assignment. -/
theorem linear_jacobianRows (c : Constraint ℝ) (h : c.isLinearKind = true) (X : Nat → Option ℝ) :
    c.jacobianRows X = some (c.jacobianV (fun _ => 0)) := by
  unfold Constraint.jacobianRows
  rw [linear_jacobianReads c h]
  simp only [List.all_nil, if_true]
  rw [(linear_kinds_constant_jacobian c h (fun i => (X i).getD 0.0) (fun _ => 0)).1]

/-- **Constant Jacobian (assembled)**: for a list of linear requests the assembled Jacobian
(contributions, warnings, or the error) is the same at every assignment — even a partial one. -/
theorem jacobianAll_linear_const (es : List (Entry ℝ)) (hlin : isLinearList es)
    (X Y : Nat → Option ℝ) : jacobianAll es X = jacobianAll es Y := by
  unfold jacobianAll
  apply jacobianFrom_congr
  intro e he i hi
  rw [linear_jacobianReads e.c (hlin e he)] at hi
  simp at hi

/-- `getD` of the first `d` of three differences. -/
theorem takeRows_sub_getD (d : Nat) (a b c a' b' c' : ℝ) (m : Nat) :
    (takeRows d (a - a') (b - b') (c - c')).getD m 0 =
      (takeRows d a b c).getD m 0 - (takeRows d a' b' c').getD m 0 := by
  simp only [takeRows, List.getD_eq_getElem?_getD, List.getElem?_take]
  by_cases h : m < d
  · simp only [if_pos h]
    match m with
    | 0 => simp
    | 1 => simp
    | 2 => simp
    | m + 3 => simp
  · simp [if_neg h]

/-- Reading a concatenation inside the first part. -/
theorem getD_append_lt (a b : List ℝ) (m : Nat) (h : m < a.length) :
    (a ++ b).getD m 0 = a.getD m 0 := by
  simp [List.getD_eq_getElem?_getD, List.getElem?_append_left h]

/-- Reading a concatenation beyond the first part. -/
theorem getD_append_ge (a b : List ℝ) (m : Nat) (h : a.length ≤ m) :
    (a ++ b).getD m 0 = b.getD (m - a.length) 0 := by
  simp [List.getD_eq_getElem?_getD, List.getElem?_append_right h]

/-- Reading beyond the end gives the default 0. -/
theorem getD_beyond (a : List ℝ) (m : Nat) (h : a.length ≤ m) : a.getD m 0 = 0 := by
  simp [List.getD_eq_getElem?_getD, List.getElem?_eq_none h]

/-- Inversion of one successful residual fill step. -/
theorem residualAll_cons_okV (e : Entry ℝ) (rest : List (Entry ℝ)) (X : Nat → Option ℝ)
    (rs : List ℝ) (ws : List (Warning ℝ)) (h : residualAll (e :: rest) X = .ok (rs, ws)) :
    ∃ rs' ws', residualAll rest X = .ok (rs', ws') ∧
      rs = takeRows e.c.residualDim (e.c.residualV (fun i => (X i).getD 0.0)).r0
        (e.c.residualV (fun i => (X i).getD 0.0)).r1
        (e.c.residualV (fun i => (X i).getD 0.0)).r2 ++ rs' ∧
      ws = (if (e.c.residualV (fun i => (X i).getD 0.0)).degenerate then [degenerateWarning e]
        else []) ++ ws' := by
  rw [residualAll_cons] at h
  cases hr : e.c.residual X with
  | none => simp [hr] at h
  | some r =>
    have hr' : r = e.c.residualV (fun i => (X i).getD 0.0) := by
      unfold Constraint.residual at hr
      split at hr
      · injection hr with hr; exact hr.symm
      · simp at hr
    subst hr'
    simp only [hr] at h
    cases hrest : residualAll rest X with
    | error err => simp [hrest] at h
    | ok p =>
      obtain ⟨a, b⟩ := p
      simp only [hrest, Except.ok.injEq, Prod.mk.injEq] at h
      exact ⟨a, b, rfl, h.1.symm, h.2.symm⟩

/-- **Affine, assembled, row by row**: for a list of linear requests, the difference of the global
residuals at two assignments is the assembled Jacobian applied to the difference of the
assignments — in every row (rows below `row0` and above the list's last row are empty). -/
theorem assembled_affine_rows (pat : List (Nat × Nat)) (X Y : Nat → Option ℝ) :
    ∀ (es : List (Entry ℝ)) (row0 : Nat) (rx ry : List ℝ) (wx wy wj : List (Warning ℝ))
      (ts : List (Triplet ℝ)), isLinearList es →
      residualAll es X = .ok (rx, wx) → residualAll es Y = .ok (ry, wy) →
      jacobianFrom pat es Y row0 = .ok (ts, wj) →
      ∀ i, rowSum ts (fun j => (X j).getD 0.0 - (Y j).getD 0.0) i =
        if row0 ≤ i then rx.getD (i - row0) 0 - ry.getD (i - row0) 0 else 0 := by
  intro es
  induction es with
  | nil =>
    intro row0 rx ry wx wy wj ts _ hx hy hj i
    simp only [residualAll, Except.ok.injEq, Prod.mk.injEq] at hx hy
    simp only [jacobianFrom, Except.ok.injEq, Prod.mk.injEq] at hj
    rw [← hx.1, ← hy.1, ← hj.1]
    simp [rowSum]
  | cons e rest ih =>
    intro row0 rx ry wx wy wj ts hlin hx hy hj i
    obtain ⟨hle, hlrest⟩ := (isLinearList_cons e rest).mp hlin
    obtain ⟨rx', wx', hx', rfl, _⟩ := residualAll_cons_okV e rest X rx wx hx
    obtain ⟨ry', wy', hy', rfl, _⟩ := residualAll_cons_okV e rest Y ry wy hy
    obtain ⟨j, ts', wj', hjr, _, hj', rfl, _⟩ := jacobianFrom_cons_ok pat e rest Y row0 ts wj hj
    have hjv : j = e.c.jacobianV (fun i => (Y i).getD 0.0) := by
      unfold Constraint.jacobianRows at hjr
      split at hjr
      · injection hjr with hjr; exact hjr.symm
      · simp at hjr
    subst hjv
    have ihh := ih (row0 + e.c.residualDim) rx' ry' wx' wy' wj' ts' hlrest hx' hy' hj' i
    rw [rowSum_append, ihh]
    have hhead := rowSum_rows (takeRows e.c.residualDim
      (e.c.jacobianV (fun i => (Y i).getD 0.0)).r0 (e.c.jacobianV (fun i => (Y i).getD 0.0)).r1
      (e.c.jacobianV (fun i => (Y i).getD 0.0)).r2) row0
      (fun j => (X j).getD 0.0 - (Y j).getD 0.0) i 0
    unfold entryTrips
    rw [hhead]
    obtain ⟨a0, a1, a2⟩ := linear_kinds_affine e.c hle (fun i => (X i).getD 0.0)
      (fun i => (Y i).getD 0.0)
    rw [← takeRows_map (fun row => rowApply row (fun j => (X j).getD 0.0 - (Y j).getD 0.0)),
      ← a0, ← a1, ← a2, Nat.add_zero]
    have hlenx := takeRows_length_dim e.c (e.c.residualV (fun i => (X i).getD 0.0)).r0
      (e.c.residualV (fun i => (X i).getD 0.0)).r1 (e.c.residualV (fun i => (X i).getD 0.0)).r2
    have hleny := takeRows_length_dim e.c (e.c.residualV (fun i => (Y i).getD 0.0)).r0
      (e.c.residualV (fun i => (Y i).getD 0.0)).r1 (e.c.residualV (fun i => (Y i).getD 0.0)).r2
    by_cases h1 : row0 ≤ i
    · rw [if_pos h1, if_pos h1, takeRows_sub_getD]
      by_cases h2 : i - row0 < e.c.residualDim
      · rw [if_neg (by omega), add_zero, getD_append_lt _ _ _ (by rw [hlenx]; exact h2),
          getD_append_lt _ _ _ (by rw [hleny]; exact h2)]
      · rw [if_pos (by omega), getD_append_ge _ _ _ (by rw [hlenx]; omega),
          getD_append_ge _ _ _ (by rw [hleny]; omega), hlenx, hleny,
          getD_beyond _ _ (by rw [hlenx]; omega),
          getD_beyond _ _ (by rw [hleny]; omega)]
        have : i - (row0 + e.c.residualDim) = i - row0 - e.c.residualDim := by omega
        rw [this]; ring
    · rw [if_neg h1, if_neg h1, if_neg (by omega), add_zero]

/-! ### 3. The matrix and right-hand side of a list of linear requests -/

/-- The assignment "every variable is 0" (total, so every request evaluates). -/
def zeroAssign : Nat → Option ℝ := fun _ => some 0

/-- **The matrix `A` of a list of linear requests over `n` variables**: assembled from the
contributions of the model's `jacobianAll` (evaluated at the all-zero assignment; by
`jacobianAll_linear_const` any assignment gives the same contributions). -/
noncomputable def linA (es : List (Entry ℝ)) (n : Nat) : Matrix (Fin (numRows es)) (Fin n) ℝ :=
  match jacobianAll es zeroAssign with
  | .ok (jac, _) => matOf (numRows es) n jac
  | .error _ => 0

/-- **The right-hand side `b`**: minus the model's global residual at the all-zero assignment. -/
noncomputable def linB (es : List (Entry ℝ)) : Fin (numRows es) → ℝ :=
  match residualAll es zeroAssign with
  | .ok (r, _) => -(vecOf (numRows es) r)
  | .error _ => 0

/-- On a total assignment the global residual evaluates. -/
theorem residualAll_total (X : Nat → Option ℝ) (hX : ∀ i, (X i).isSome = true) :
    ∀ es : List (Entry ℝ), ∃ rs ws, residualAll es X = .ok (rs, ws) := by
  intro es
  induction es with
  | nil => exact ⟨[], [], rfl⟩
  | cons e rest ih =>
    obtain ⟨rs, ws, h⟩ := ih
    rw [residualAll_cons]
    have : e.c.residual X = some (e.c.residualV (fun i => (X i).getD 0.0)) := by
      unfold Constraint.residual
      rw [if_pos]
      exact List.all_eq_true.mpr (fun i _ => hX i)
    rw [this]
    simp only [h]
    exact ⟨_, _, rfl⟩

/-- The vector of a guess list, read through the model's `lookup`. -/
theorem vecOf_lookup (n : Nat) (x : List ℝ) :
    vecOf n x = fun j : Fin n => (fun i => (lookup x i).getD 0.0 - (zeroAssign i).getD 0.0) j.val := by
  ext j
  simp [vecOf, lookup, zeroAssign, List.getD_eq_getElem?_getD, lit_0]

/-- **The assembled system of linear requests is `A x − b` with a constant `A`**
(`assembled_affine`).  For a list `es` of linear requests whose declared ids are all `< n`, and
every guess list `x` with `n` values: the model's global residual and Jacobian evaluate; the
residual has `numRows es` components; the matrix assembled from the Jacobian's contributions is
`linA es n` — the same for every `x`; and the residual, as a vector, is `linA es n *ᵥ x - linB es`.
`linA`, `linB` are built from `es` alone. -/
theorem assembled_affine (es : List (Entry ℝ)) (n : Nat) (hlin : isLinearList es)
    (hd : Declared es n) (x : List ℝ) (hx : x.length = n) :
    ∃ r wr jac wj, residualAll es (lookup x) = .ok (r, wr) ∧
      jacobianAll es (lookup x) = .ok (jac, wj) ∧ r.length = numRows es ∧
      matOf (numRows es) n jac = linA es n ∧
      vecOf (numRows es) r = linA es n *ᵥ vecOf n x - linB es := by
  subst hx
  obtain ⟨r, wr, hr⟩ := residualAll_ok x es hd
  obtain ⟨jac, wj, hj⟩ := jacobianFrom_ok (pattern es) x es 0 hd (fun _ h => h)
  obtain ⟨r0, w0, hr0⟩ := residualAll_total zeroAssign (fun _ => rfl) es
  have hj0 : jacobianAll es zeroAssign = .ok (jac, wj) := by
    rw [jacobianAll_linear_const es hlin zeroAssign (lookup x)]; exact hj
  have hA : linA es x.length = matOf (numRows es) x.length jac := by
    unfold linA; rw [hj0]
  have hB : linB es = -(vecOf (numRows es) r0) := by
    unfold linB; rw [hr0]
  refine ⟨r, wr, jac, wj, hr, hj, residualAll_length _ es r wr hr, hA.symm, ?_⟩
  have hrows := assembled_affine_rows (pattern es) (lookup x) zeroAssign es 0 r r0 wr w0 wj jac
    hlin hr hr0 hj0
  have hcols : ∀ t ∈ jac, t.2.1 < x.length :=
    fun t ht => (jacobianAll_in_range es (lookup x) x.length hd jac wj hj t ht).2
  ext i
  rw [hA, hB, vecOf_lookup x.length x, Pi.sub_apply, matOf_mulVec _ _ jac
    (fun i => (lookup x i).getD 0.0 - (zeroAssign i).getD 0.0) hcols i, hrows i.val]
  simp [vecOf]

/-- **The assembled residual is affine in the guess list** (difference form, no `b`): for two
guess lists of length `n`, the difference of the global residuals is `A` applied to the difference
of the guesses. -/
theorem assembled_affine_diff (es : List (Entry ℝ)) (n : Nat) (hlin : isLinearList es)
    (hd : Declared es n) (x y : List ℝ) (hx : x.length = n) (hy : y.length = n)
    (rx ry : List ℝ) (wx wy : List (Warning ℝ)) (hrx : residualAll es (lookup x) = .ok (rx, wx))
    (hry : residualAll es (lookup y) = .ok (ry, wy)) :
    vecOf (numRows es) rx - vecOf (numRows es) ry = linA es n *ᵥ (vecOf n x - vecOf n y) := by
  obtain ⟨r1, _, _, _, h1, _, _, _, e1⟩ := assembled_affine es n hlin hd x hx
  obtain ⟨r2, _, _, _, h2, _, _, _, e2⟩ := assembled_affine es n hlin hd y hy
  rw [hrx] at h1; rw [hry] at h2
  simp only [Except.ok.injEq, Prod.mk.injEq] at h1 h2
  rw [h1.1, h2.1, e1, e2, mulVec_sub]
  abel

/-- Linear requests never raise a degeneracy warning: both warning lists are empty. -/
theorem assembled_no_warnings (X : Nat → Option ℝ) (pat : List (Nat × Nat)) :
    ∀ (es : List (Entry ℝ)) (row0 : Nat) (r : List ℝ) (wr : List (Warning ℝ))
      (jac : List (Triplet ℝ)) (wj : List (Warning ℝ)), isLinearList es →
      residualAll es X = .ok (r, wr) → jacobianFrom pat es X row0 = .ok (jac, wj) →
      wr = [] ∧ wj = [] := by
  intro es
  induction es with
  | nil =>
    intro row0 r wr jac wj _ hr hj
    simp only [residualAll, Except.ok.injEq, Prod.mk.injEq] at hr
    simp only [jacobianFrom, Except.ok.injEq, Prod.mk.injEq] at hj
    exact ⟨hr.2.symm, hj.2.symm⟩
  | cons e rest ih =>
    intro row0 r wr jac wj hlin hr hj
    obtain ⟨hle, hlrest⟩ := (isLinearList_cons e rest).mp hlin
    obtain ⟨r', wr', hr', _, rfl⟩ := residualAll_cons_okV e rest X r wr hr
    obtain ⟨j, ts', wj', hjr, _, hj', _, rfl⟩ := jacobianFrom_cons_ok pat e rest X row0 jac wj hj
    have hjv : j = e.c.jacobianV (fun i => (X i).getD 0.0) := by
      unfold Constraint.jacobianRows at hjr
      split at hjr
      · injection hjr with hjr; exact hjr.symm
      · simp at hjr
    subst hjv
    obtain ⟨e1, e2⟩ := ih _ r' wr' ts' wj' hlrest hr' hj'
    obtain ⟨_, d1, d2⟩ := linear_kinds_constant_jacobian e.c hle (fun i => (X i).getD 0.0)
      (fun i => (X i).getD 0.0)
    simp [e1, e2, d1, d2]

/-- `assembled_affine` with the warnings spelled out: on a list of linear requests with ids `< n`
both evaluations succeed *with no warnings*. -/
theorem assembled_affine_no_warnings (es : List (Entry ℝ)) (n : Nat) (hlin : isLinearList es)
    (hd : Declared es n) (x : List ℝ) (hx : x.length = n) :
    ∃ r jac, residualAll es (lookup x) = .ok (r, []) ∧ jacobianAll es (lookup x) = .ok (jac, []) ∧
      r.length = numRows es ∧ matOf (numRows es) n jac = linA es n ∧
      vecOf (numRows es) r = linA es n *ᵥ vecOf n x - linB es := by
  obtain ⟨r, wr, jac, wj, hr, hj, hl, hA, hb⟩ := assembled_affine es n hlin hd x hx
  obtain ⟨rfl, rfl⟩ := assembled_no_warnings (lookup x) (pattern es) es 0 r wr jac wj hlin hr hj
  exact ⟨r, jac, hr, hj, hl, hA, hb⟩

/-! ### 4. One round of the model's loop is an exact damped step of `A x = b` -/

/-- The vector of the updated values is the vector of the values plus the vector of the step. -/
theorem vecOf_applyStep (n : Nat) (x d : List ℝ) (hx : x.length = n) (hd : d.length = n) :
    vecOf n (applyStep x d) = vecOf n x + vecOf n d := by
  ext i
  have h1 : i.val < x.length := by rw [hx]; exact i.isLt
  have h2 : i.val < d.length := by rw [hd]; exact i.isLt
  simp [vecOf, applyStep, List.getD_eq_getElem?_getD, List.getElem?_zipWith,
    List.getElem?_eq_getElem h1, List.getElem?_eq_getElem h2]

/-- **One continuing round of the model's `newtonStep` on linear requests is an exact damped step
of the linear system `A x = b`** (`newtonStep_isStep`).  `es` linear with declared ids `< n`, `x`
of length `n`, `solve` exact for `numRows es × n` systems with damping `lam k` in round `k`
(`ExactSolve`).  If the round continues with values `x'`, then `x'` has `n` values and
`d := x' − x` satisfies `IsStep A (A x − b) (lam k) d` with `A = linA es n`, `b = linB es`. -/
theorem newtonStep_isStep (es : List (Entry ℝ)) (n : Nat) (cfg : Config ℝ)
    (solve : Nat → List (Triplet ℝ) → List ℝ → Except SolveError (List ℝ)) (lam : Nat → ℝ)
    (hlin : isLinearList es) (hd : Declared es n) (hS : ExactSolve solve (numRows es) n lam)
    (k : Nat) (x : List ℝ) (ws : List (Warning ℝ)) (x' : List ℝ) (ws' : List (Warning ℝ))
    (hx : x.length = n) (h : newtonStep es cfg solve k x ws = .next x' ws') :
    x'.length = n ∧
      GN.IsStep (linA es n) (linA es n *ᵥ vecOf n x - linB es) (lam k) (vecOf n x' - vecOf n x) := by
  obtain ⟨r, wr, jac, wj, m, d, hr, hj, _, _, hs, hlen, _, _, rfl, _⟩ :=
    newtonStep_next_inv es cfg solve k x ws x' ws' h
  obtain ⟨r2, _, jac2, _, hr2, hj2, _, hA, hb⟩ := assembled_affine es n hlin hd x hx
  rw [hr] at hr2; rw [hj] at hj2
  simp only [Except.ok.injEq, Prod.mk.injEq] at hr2 hj2
  obtain ⟨hdn, hstep⟩ := hS k jac r d hs
  rw [hj2.1, hA, hr2.1, hb] at hstep
  have e := vecOf_applyStep n x d hx hdn
  refine ⟨by rw [applyStep_length x d hlen, hx], ?_⟩
  rw [e, add_sub_cancel_left]
  exact hstep

/-- Anatomy of a round that returns: either at the residual test with the values untouched, or at
the step-size test after applying the solver's step `d`. -/
theorem newtonStep_done_inv (es : List (Entry ℝ)) (cfg : Config ℝ)
    (solve : Nat → List (Triplet ℝ) → List ℝ → Except SolveError (List ℝ)) (k : Nat) (x : List ℝ)
    (ws : List (Warning ℝ)) (res : NewtonOk ℝ) (h : newtonStep es cfg solve k x ws = .done res) :
    (res.byResidual = true ∧ res.values = x) ∨
    (res.byResidual = false ∧ ∃ r wr jac wj d, residualAll es (lookup x) = .ok (r, wr) ∧
      jacobianAll es (lookup x) = .ok (jac, wj) ∧ solve k jac r = .ok d ∧ d.length = x.length ∧
      res.values = applyStep x d) := by
  unfold newtonStep at h
  split at h
  · simp at h
  · rename_i r w1 hr
    split at h
    · simp at h
    · rename_i jac w2 hj
      split at h
      · simp at h
      · split at h
        · injection h with h; subst h; exact Or.inl ⟨rfl, rfl⟩
        · split at h
          · simp at h
          · rename_i d hd
            split at h
            · simp at h
            · rename_i hlen
              split at h
              · simp at h
              · split at h
                · injection h with h; subst h
                  exact Or.inr ⟨rfl, r, w1, jac, w2, d, hr, hj, hd, by simpa using hlen, rfl⟩
                · simp at h

/-- **A round that returns at the step-size test has also applied an exact damped step of
`A x = b`** (same hypotheses as `newtonStep_isStep`). -/
theorem newtonStep_done_isStep (es : List (Entry ℝ)) (n : Nat) (cfg : Config ℝ)
    (solve : Nat → List (Triplet ℝ) → List ℝ → Except SolveError (List ℝ)) (lam : Nat → ℝ)
    (hlin : isLinearList es) (hd : Declared es n) (hS : ExactSolve solve (numRows es) n lam)
    (k : Nat) (x : List ℝ) (ws : List (Warning ℝ)) (res : NewtonOk ℝ)
    (hx : x.length = n) (h : newtonStep es cfg solve k x ws = .done res)
    (hb : res.byResidual = false) :
    res.values.length = n ∧
      GN.IsStep (linA es n) (linA es n *ᵥ vecOf n x - linB es) (lam k)
        (vecOf n res.values - vecOf n x) := by
  rcases newtonStep_done_inv es cfg solve k x ws res h with ⟨hb', _⟩ | ⟨_, r, wr, jac, wj, d, hr, hj,
    hs, hlen, hv⟩
  · rw [hb] at hb'; simp at hb'
  · obtain ⟨r2, _, jac2, _, hr2, hj2, _, hA, hbb⟩ := assembled_affine es n hlin hd x hx
    rw [hr] at hr2; rw [hj] at hj2
    simp only [Except.ok.injEq, Prod.mk.injEq] at hr2 hj2
    obtain ⟨hdn, hstep⟩ := hS k jac r d hs
    rw [hj2.1, hA, hr2.1, hbb] at hstep
    rw [hv, vecOf_applyStep n x d hx hdn, add_sub_cancel_left]
    exact ⟨by rw [applyStep_length x d hlen, hx], hstep⟩

/-! ### 5. The executed rounds contract the error to the nearest solution -/

section Contract
variable (es : List (Entry ℝ)) (n : Nat) (cfg : Config ℝ)
  (solve : Nat → List (Triplet ℝ) → List ℝ → Except SolveError (List ℝ))

/-- **One executed round contracts** (`linear_round_contracts` applied to the model).  `es`
linear with ids `< n`, the solver exact with damping `lam k > 0`, `c ≥ 0` a gap constant of
`A = linA es n` on `range Aᵀ`, `x̂` a solution of `A x̂ = b` with `x − x̂ ∈ range Aᵀ`.  If round
`k` continues from `x` to `x'`, then `x' − x̂ ∈ range Aᵀ` and
`(c + lam k)² ‖x' − x̂‖² ≤ (lam k)² ‖x − x̂‖²`. -/
theorem newtonStep_contracts (lam : Nat → ℝ) (hlin : isLinearList es) (hd : Declared es n)
    (hS : ExactSolve solve (numRows es) n lam) (c : ℝ) (hc : 0 ≤ c)
    (hgap : ∀ w : Fin (numRows es) → ℝ, c * (((linA es n)ᵀ *ᵥ w) ⬝ᵥ ((linA es n)ᵀ *ᵥ w)) ≤
      (linA es n *ᵥ ((linA es n)ᵀ *ᵥ w)) ⬝ᵥ (linA es n *ᵥ ((linA es n)ᵀ *ᵥ w)))
    (xh : Fin n → ℝ) (hxh : linA es n *ᵥ xh = linB es)
    (k : Nat) (hlam : 0 < lam k) (x : List ℝ) (ws : List (Warning ℝ)) (x' : List ℝ)
    (ws' : List (Warning ℝ)) (hx : x.length = n)
    (hrange : ∃ w, vecOf n x - xh = (linA es n)ᵀ *ᵥ w)
    (h : newtonStep es cfg solve k x ws = .next x' ws') :
    x'.length = n ∧ (∃ w', vecOf n x' - xh = (linA es n)ᵀ *ᵥ w') ∧
      (c + lam k) ^ 2 * ((vecOf n x' - xh) ⬝ᵥ (vecOf n x' - xh)) ≤
        lam k ^ 2 * ((vecOf n x - xh) ⬝ᵥ (vecOf n x - xh)) := by
  obtain ⟨hlen, hstep⟩ := newtonStep_isStep es n cfg solve lam hlin hd hS k x ws x' ws' hx h
  obtain ⟨w, hw⟩ := hrange
  have := GN.linear_round_contracts (linA es n) (linB es) (lam k) c hlam hc hgap xh (vecOf n x)
    (vecOf n x' - vecOf n x) hxh w hw hstep
  rw [add_sub_cancel] at this
  exact ⟨hlen, this⟩

/-- **Every executed round contracts** (`newtonRun_contracts`; constant damping `lam > 0`, as in
the code).  If `j` rounds continue from `x` (round `k`) to `y`, then `y − x̂ ∈ range Aᵀ` and
`(c + lam)^(2j) ‖y − x̂‖² ≤ lam^(2j) ‖x − x̂‖²`: the values after the executed rounds are the first
`j` terms of a sequence satisfying `hstep` of `linear_consistent_converges`.  A finite statement
about the rounds the loop executed — nothing is claimed about rounds it did not execute. -/
theorem newtonRun_contracts (lam : ℝ) (hlam : 0 < lam) (hlin : isLinearList es)
    (hd : Declared es n) (hS : ExactSolve solve (numRows es) n (fun _ => lam)) (c : ℝ)
    (hc : 0 ≤ c)
    (hgap : ∀ w : Fin (numRows es) → ℝ, c * (((linA es n)ᵀ *ᵥ w) ⬝ᵥ ((linA es n)ᵀ *ᵥ w)) ≤
      (linA es n *ᵥ ((linA es n)ᵀ *ᵥ w)) ⬝ᵥ (linA es n *ᵥ ((linA es n)ᵀ *ᵥ w)))
    (xh : Fin n → ℝ) (hxh : linA es n *ᵥ xh = linB es) :
    ∀ (j k : Nat) (x : List ℝ) (ws : List (Warning ℝ)) (y : List ℝ) (wy : List (Warning ℝ)),
      x.length = n → (∃ w, vecOf n x - xh = (linA es n)ᵀ *ᵥ w) →
      newtonRun es cfg solve j k x ws = some (y, wy) →
      y.length = n ∧ (∃ w', vecOf n y - xh = (linA es n)ᵀ *ᵥ w') ∧
        (c + lam) ^ (2 * j) * ((vecOf n y - xh) ⬝ᵥ (vecOf n y - xh)) ≤
          lam ^ (2 * j) * ((vecOf n x - xh) ⬝ᵥ (vecOf n x - xh)) := by
  intro j
  induction j with
  | zero =>
    intro k x ws y wy hx hr h
    simp only [newtonRun, Option.some.injEq, Prod.mk.injEq] at h
    obtain ⟨rfl, rfl⟩ := h
    exact ⟨hx, hr, by simp⟩
  | succ j ih =>
    intro k x ws y wy hx hr h
    unfold newtonRun at h
    split at h
    · rename_i x' ws' hs
      obtain ⟨hx', hr', hcon⟩ := newtonStep_contracts es n cfg solve (fun _ => lam) hlin hd hS c hc
        hgap xh hxh k hlam x ws x' ws' hx hr hs
      obtain ⟨hy, hry, hcon'⟩ := ih (k + 1) x' ws' y wy hx' hr' h
      refine ⟨hy, hry, ?_⟩
      have hcl : 0 ≤ (c + lam) ^ 2 := by positivity
      have hll : 0 ≤ lam ^ (2 * j) := by positivity
      calc (c + lam) ^ (2 * (j + 1)) * ((vecOf n y - xh) ⬝ᵥ (vecOf n y - xh))
          = (c + lam) ^ 2 * ((c + lam) ^ (2 * j) * ((vecOf n y - xh) ⬝ᵥ (vecOf n y - xh))) := by
            ring
        _ ≤ (c + lam) ^ 2 * (lam ^ (2 * j) * ((vecOf n x' - xh) ⬝ᵥ (vecOf n x' - xh))) :=
            mul_le_mul_of_nonneg_left hcon' hcl
        _ = lam ^ (2 * j) * ((c + lam) ^ 2 * ((vecOf n x' - xh) ⬝ᵥ (vecOf n x' - xh))) := by ring
        _ ≤ lam ^ (2 * j) * (lam ^ 2 * ((vecOf n x - xh) ⬝ᵥ (vecOf n x - xh))) :=
            mul_le_mul_of_nonneg_left hcon hll
        _ = lam ^ (2 * (j + 1)) * ((vecOf n x - xh) ⬝ᵥ (vecOf n x - xh)) := by ring
    · simp at h

/-- **The executed rounds are a prefix of an exact damped iteration** (`newtonRun_prefix`): if `j`
rounds continue from `x` (round `k`) to `y`, there is an infinite sequence `xs` of exact damped
rounds of `A x = b` — the `hstep` hypothesis of `linear_consistent_converges` and
`linear_consistent_converges_from_guess` — whose terms `0 … j` are exactly the values the model
holds after `0 … j` rounds (`xs 0 = x`, `xs j = y`).  Beyond `j` the sequence is continued with the
exact step (`GN.step_exists`); nothing is claimed about what the loop would do there. -/
theorem newtonRun_prefix (lam : ℝ) (hlam : 0 < lam) (hlin : isLinearList es)
    (hd : Declared es n) (hS : ExactSolve solve (numRows es) n (fun _ => lam)) :
    ∀ (j k : Nat) (x : List ℝ) (ws : List (Warning ℝ)) (y : List ℝ) (wy : List (Warning ℝ)),
      x.length = n → newtonRun es cfg solve j k x ws = some (y, wy) →
      ∃ xs : ℕ → Fin n → ℝ, xs 0 = vecOf n x ∧ xs j = vecOf n y ∧
        (∀ i, i ≤ j → ∃ yi wi, newtonRun es cfg solve i k x ws = some (yi, wi) ∧
          xs i = vecOf n yi) ∧
        ∀ i, ∃ d, GN.IsStep (linA es n) (linA es n *ᵥ xs i - linB es) lam d ∧
          xs (i + 1) = xs i + d := by
  intro j
  induction j with
  | zero =>
    intro k x ws y wy hx h
    simp only [newtonRun, Option.some.injEq, Prod.mk.injEq] at h
    obtain ⟨rfl, rfl⟩ := h
    let next : (Fin n → ℝ) → (Fin n → ℝ) := fun v =>
      v + Classical.choose (GN.step_exists (linA es n) (linA es n *ᵥ v - linB es) lam hlam)
    refine ⟨fun i => next^[i] (vecOf n x), rfl, rfl, ?_, ?_⟩
    · intro i hi
      have : i = 0 := by omega
      subst this
      exact ⟨x, ws, rfl, rfl⟩
    · intro i
      refine ⟨Classical.choose (GN.step_exists (linA es n)
        (linA es n *ᵥ (next^[i] (vecOf n x)) - linB es) lam hlam),
        Classical.choose_spec (GN.step_exists (linA es n)
          (linA es n *ᵥ (next^[i] (vecOf n x)) - linB es) lam hlam), ?_⟩
      simp only [Function.iterate_succ_apply']
      rfl
  | succ j ih =>
    intro k x ws y wy hx h
    have h0 := h
    unfold newtonRun at h
    split at h
    · rename_i x' ws' hs
      obtain ⟨hx', hstep⟩ := newtonStep_isStep es n cfg solve (fun _ => lam) hlin hd hS k x ws x'
        ws' hx hs
      obtain ⟨xs', h0', hj', hpre', hst'⟩ := ih (k + 1) x' ws' y wy hx' h
      refine ⟨fun i => match i with | 0 => vecOf n x | i + 1 => xs' i, rfl, hj', ?_, ?_⟩
      · intro i hi
        match i with
        | 0 => exact ⟨x, ws, rfl, rfl⟩
        | i + 1 =>
          obtain ⟨yi, wi, hrun, hxi⟩ := hpre' i (by omega)
          refine ⟨yi, wi, ?_, hxi⟩
          rw [newtonRun, hs]
          exact hrun
      · intro i
        match i with
        | 0 =>
          refine ⟨vecOf n x' - vecOf n x, hstep, ?_⟩
          show xs' 0 = vecOf n x + (vecOf n x' - vecOf n x)
          rw [h0']; abel
        | i + 1 => exact hst' i
    · simp at h

/-- **C04 tied to the model** (`newtonRun_converges_prefix`): for every list `es` of linear
requests over `n` variables and damping `lam > 0` there is a rate `q ∈ [0, 1)` — it depends on
`es`, `n`, `lam` only — such that, whenever the system `A x = b` of `es` is consistent, for every
exact solver, configuration, start round `k` and guess list `x` there is a solution `x̂` with
`x − x̂ ∈ range Aᵀ` (the solution nearest the guess) such that after *every* number `j` of executed
(continuing) rounds the values `y` satisfy `‖y − x̂‖² ≤ q^(2j) ‖x − x̂‖²`.  Exact real arithmetic,
executed rounds only: no claim that the f64 loop converges. -/
theorem newtonRun_converges_prefix (lam : ℝ) (hlam : 0 < lam) (hlin : isLinearList es)
    (hd : Declared es n) :
    ∃ q : ℝ, 0 ≤ q ∧ q < 1 ∧
      ∀ (cfg : Config ℝ) (solve : Nat → List (Triplet ℝ) → List ℝ → Except SolveError (List ℝ)),
        ExactSolve solve (numRows es) n (fun _ => lam) → (∃ z, linA es n *ᵥ z = linB es) →
        ∀ (k : Nat) (x : List ℝ) (ws : List (Warning ℝ)), x.length = n →
        ∃ xh, linA es n *ᵥ xh = linB es ∧ (∃ w0, vecOf n x - xh = (linA es n)ᵀ *ᵥ w0) ∧
          ∀ (j : Nat) (y : List ℝ) (wy : List (Warning ℝ)),
            newtonRun es cfg solve j k x ws = some (y, wy) →
            (vecOf n y - xh) ⬝ᵥ (vecOf n y - xh) ≤
              q ^ (2 * j) * ((vecOf n x - xh) ⬝ᵥ (vecOf n x - xh)) := by
  obtain ⟨c, hc, hgap⟩ := GN.gap_exists (linA es n)
  have hcl : 0 < c + lam := by linarith
  refine ⟨lam / (c + lam), by positivity, by rw [div_lt_one hcl]; linarith, ?_⟩
  intro cfg solve hS hcons k x ws hx
  obtain ⟨xh, hxh, w0, hw0⟩ := GN.nearest_solution_exists (linA es n) (linB es) hcons (vecOf n x)
  refine ⟨xh, hxh, ⟨w0, hw0⟩, ?_⟩
  intro j y wy hrun
  have h := (newtonRun_contracts es n cfg solve lam hlam hlin hd hS c hc.le hgap xh hxh j k x ws y
    wy hx ⟨w0, hw0⟩ hrun).2.2
  have hp : 0 < (c + lam) ^ (2 * j) := by positivity
  rw [div_pow, div_mul_eq_mul_div, le_div_iff₀ hp, mul_comm]
  exact h

/-- **What a returned loop says** (`newtonLoop_result_contracts`): with the rate `q` and the
nearest solution `x̂` as in `newtonRun_converges_prefix`, if the model's loop, started in round `k`
at `x`, returns `res`, then `‖res.values − x̂‖² ≤ q^(2·(res.iterations − k)) ‖x − x̂‖²` — one factor
`q²` for each round executed before the returning one (a return at the step-size test applies one
more exact step, which does not increase the distance). -/
theorem newtonLoop_result_contracts (lam : ℝ) (hlam : 0 < lam) (hlin : isLinearList es)
    (hd : Declared es n) :
    ∃ q : ℝ, 0 ≤ q ∧ q < 1 ∧
      ∀ (cfg : Config ℝ) (solve : Nat → List (Triplet ℝ) → List ℝ → Except SolveError (List ℝ)),
        ExactSolve solve (numRows es) n (fun _ => lam) → (∃ z, linA es n *ᵥ z = linB es) →
        ∀ (k : Nat) (x : List ℝ) (ws : List (Warning ℝ)), x.length = n →
        ∃ xh, linA es n *ᵥ xh = linB es ∧ (∃ w0, vecOf n x - xh = (linA es n)ᵀ *ᵥ w0) ∧
          ∀ (fuel : Nat) (res : NewtonOk ℝ), newtonLoop es cfg solve fuel k x ws = .ok res →
            k ≤ res.iterations ∧
            (vecOf n res.values - xh) ⬝ᵥ (vecOf n res.values - xh) ≤
              q ^ (2 * (res.iterations - k)) * ((vecOf n x - xh) ⬝ᵥ (vecOf n x - xh)) := by
  obtain ⟨c, hc, hgap⟩ := GN.gap_exists (linA es n)
  have hcl : 0 < c + lam := by linarith
  refine ⟨lam / (c + lam), by positivity, by rw [div_lt_one hcl]; linarith, ?_⟩
  intro cfg solve hS hcons k x ws hx
  obtain ⟨xh, hxh, w0, hw0⟩ := GN.nearest_solution_exists (linA es n) (linB es) hcons (vecOf n x)
  refine ⟨xh, hxh, ⟨w0, hw0⟩, ?_⟩
  intro fuel res hloop
  obtain ⟨j, y, wy, _, hrun, hdone⟩ := newtonLoop_ok_run es cfg solve fuel k x ws res hloop
  have hit := newtonStep_done_iterations es cfg solve (k + j) y wy res hdone
  obtain ⟨hy, ⟨w, hw⟩, h⟩ := newtonRun_contracts es n cfg solve lam hlam hlin hd hS c hc.le hgap xh
    hxh j k x ws y wy hx ⟨w0, hw0⟩ hrun
  have hj : res.iterations - k = j := by omega
  refine ⟨by omega, ?_⟩
  rw [hj]
  have hp : 0 < (c + lam) ^ (2 * j) := by positivity
  have hy_le : (vecOf n y - xh) ⬝ᵥ (vecOf n y - xh) ≤
      (lam / (c + lam)) ^ (2 * j) * ((vecOf n x - xh) ⬝ᵥ (vecOf n x - xh)) := by
    rw [div_pow, div_mul_eq_mul_div, le_div_iff₀ hp, mul_comm]
    exact h
  rcases hb : res.byResidual with _ | _
  · obtain ⟨_, hstep⟩ := newtonStep_done_isStep es n cfg solve (fun _ => lam) hlin hd hS (k + j) y
      wy res hy hdone hb
    have hne := GN.linear_error_nonexpansive (linA es n) (linB es) lam hlam xh (vecOf n y)
      (vecOf n res.values - vecOf n y) hxh hstep
    rw [add_sub_cancel] at hne
    exact le_trans hne hy_le
  · rcases newtonStep_done_inv es cfg solve (k + j) y wy res hdone with ⟨_, hv⟩ | ⟨hb', _⟩
    · rw [hv]; exact hy_le
    · rw [hb] at hb'; simp at hb'

end Contract

/-! ### 6. Non-vacuity: concrete instances -/

/-- A list of two linear requests (`Fixed`, `Midpoint`) is a linear list. -/
example : isLinearList [(⟨.fixed 0 5, 0, 0⟩ : Entry ℝ), ⟨.midpoint ⟨⟨0, 1⟩, ⟨2, 3⟩⟩ ⟨4, 5⟩, 1, 0⟩] := by
  simp [isLinearList, Constraint.isLinearKind]

/-- The global residual of "variable 0 fixed to 5" at `[x0]` is `[x0 - 5]`, no warnings. -/
theorem fixed_resid (x0 : ℝ) : residualAll [(⟨.fixed 0 5, 0, 0⟩ : Entry ℝ)] (lookup [x0]) = .ok ([x0 - 5], []) := by
  simp [residualAll, Constraint.residual, Constraint.residualV, Constraint.residualReads, lookup,
    takeRows, Constraint.residualDim, Res.mk1]

/-- The Jacobian of "variable 0 fixed to 5" is the single contribution `(0, 0, 1)`. -/
theorem fixed_jac (x0 : ℝ) : jacobianAll [(⟨.fixed 0 5, 0, 0⟩ : Entry ℝ)] (lookup [x0]) = .ok ([(0, 0, 1)], []) := by
  simp [jacobianAll, jacobianFrom, pattern, patternFrom, Constraint.jacobianRows,
    Constraint.jacobianV, Constraint.jacobianReads, takeRows, Constraint.residualDim,
    Constraint.nonzeroes, lit_1]

/-- Concrete instance: for "variable 0 fixed to 5" the matrix `linA` is `(1)` — in particular the
definition does not take its `error` branch. -/
theorem fixed_A : linA [(⟨.fixed 0 5, 0, 0⟩ : Entry ℝ)] 1 = fun _ _ => 1 := by
  obtain ⟨r, wr, jac, wj, hr, hj, _, hA, _⟩ := assembled_affine [(⟨.fixed 0 5, 0, 0⟩ : Entry ℝ)] 1
    (by simp [isLinearList, Constraint.isLinearKind]) (declared_fixed 5 0) [0] rfl
  rw [fixed_jac] at hj
  simp only [Except.ok.injEq, Prod.mk.injEq] at hj
  rw [← hA, ← hj.1]
  ext i j
  have hi : i.val = 0 := by
    have h1 := i.isLt
    have h2 : numRows [(⟨.fixed 0 5, 0, 0⟩ : Entry ℝ)] = 1 := rfl
    omega
  have hj : j.val = 0 := by omega
  simp [matOf, hi]

/-- Concrete instance: for "variable 0 fixed to 5" the right-hand side `linB` is `(5)`. -/
theorem fixed_B : linB [(⟨.fixed 0 5, 0, 0⟩ : Entry ℝ)] = fun _ => 5 := by
  obtain ⟨r, wr, jac, wj, hr, hj, _, hA, hb⟩ := assembled_affine [(⟨.fixed 0 5, 0, 0⟩ : Entry ℝ)] 1
    (by simp [isLinearList, Constraint.isLinearKind]) (declared_fixed 5 0) [0] rfl
  rw [fixed_resid] at hr
  simp only [Except.ok.injEq, Prod.mk.injEq] at hr
  rw [← hr.1, fixed_A] at hb
  ext i
  have := congrFun hb i
  have hi : i.val = 0 := by
    have h1 := i.isLt
    have h2 : numRows [(⟨.fixed 0 5, 0, 0⟩ : Entry ℝ)] = 1 := rfl
    omega
  simp [vecOf, mulVec, dotProduct, hi] at this
  linarith

/-- All hypotheses of `newtonStep_isStep` hold together on a concrete instance: an exact solver with
damping 1 (`exists_exactSolve`), the linear list "variable 0 fixed to 5", and a round that continues
(from `[0]` to `[5/2]`). -/
theorem fixed_round_exact : ∃ (solve : Nat → List (Triplet ℝ) → List ℝ → Except SolveError (List ℝ)) (x' : List ℝ)
    (ws' : List (Warning ℝ)),
    ExactSolve solve (numRows [(⟨.fixed 0 5, 0, 0⟩ : Entry ℝ)]) 1 (fun _ => 1) ∧
    isLinearList [(⟨.fixed 0 5, 0, 0⟩ : Entry ℝ)] ∧ Declared [(⟨.fixed 0 5, 0, 0⟩ : Entry ℝ)] 1 ∧
    newtonStep [(⟨.fixed 0 5, 0, 0⟩ : Entry ℝ)] ⟨30, 1e-5, 1e-5⟩ solve 0 [0] [] = .next x' ws' := by
  obtain ⟨solve, hS, htot⟩ := exists_exactSolve 1 1 (fun _ => 1) (fun _ => one_pos)
  obtain ⟨d, hd⟩ := htot 0 [(0, 0, 1)] [0 - 5]
  obtain ⟨hlen, hstep⟩ := hS 0 _ _ d hd
  obtain ⟨a, rfl⟩ : ∃ a, d = [a] := by
    match d, hlen with
    | [a], _ => exact ⟨a, rfl⟩
  have ha : a = 5 / 2 := by
    have := congrFun hstep 0
    simp [matOf, vecOf, mulVec, dotProduct, Matrix.add_apply, Matrix.mul_apply] at this
    linarith
  subst ha
  refine ⟨solve, [5 / 2], [], hS, by simp [isLinearList, Constraint.isLinearKind],
    declared_fixed 5 0, ?_⟩
  rw [newtonStep_eval _ _ solve 0 [0] [] [0 - 5] [] [(0, 0, 1)] [] 5 (fixed_resid 0) (fixed_jac 0)
    (by simp [maxAbs?])]
  rw [if_neg (by norm_num), hd]
  simp [applyStep, allFinite, stepInfNorm, stepThreshold, maxAbs?, maxAbs0]
  norm_num

/-- The consistency hypothesis of `newtonRun_converges_prefix` holds on the concrete instance
(`x = 5` solves it) … -/
example : ∃ z, linA [(⟨.fixed 0 5, 0, 0⟩ : Entry ℝ)] 1 *ᵥ z = linB [(⟨.fixed 0 5, 0, 0⟩ : Entry ℝ)] := by
  refine ⟨fun _ => 5, ?_⟩
  rw [fixed_A, fixed_B]
  ext i
  simp [mulVec, dotProduct]

end Ezpz
