/-
C13 / C02 — regularity is an OPEN condition, so the model's Jacobian is the derivative of the model's
residual in a whole neighbourhood of a regular point (true `C¹`).

`KindC1 c n xs` (Real/FDerivKinds.lean) speaks about the single point `xs`: the model's Jacobian row
at `xs` is the Fréchet derivative of the residual slot at `xs`, and the row is continuous at `xs`.
Every regularity predicate used in `RegularAt3` is a finite conjunction / disjunction of strict
inequalities and of `≠` between continuous functions of the configuration; such a set is open.  Hence:

* per predicate: `farApart_eventually`, `regularPLD_eventually`, `regularVPLD_eventually`,
  `regularHPLD_eventually`, `strictLTC_eventually`, `strictSymmetric_eventually`,
  `regularArcLength_eventually`, `strictCTTC_eventually`, `regularLinesAtAngle_eventually`,
  `regularArcAngle_eventually`, `strictPAC0_eventually`, `regularPAC1_eventually`,
  `regularPAC2_eventually`, `strictPAC_eventually`;
* `regularAt_eventually`, `regularAt2_eventually`, `regularAt3_eventually`: all 23 kinds;
* `kindC1_eventually`: `KindC1` holds at every point of a neighbourhood;
* `slot0_hasFDerivAt_eventually` (and `slot1`, `slot2`), `rowCLM0_continuousAt` (…): "continuously
  differentiable at `xs`" spelled out; `contDiffAt_one_slot0` (…): the same as `ContDiffAt ℝ 1`;
* `isOpen_regularAt3`, `regularAt3_all_eventually`: the regular set is an open subset of `ℝⁿ`;
* `hasFDerivAt_rOf_eventually`, `contDiffAt_one_rOf`, `fderiv_rOf_eventually`: the assembled system.
-/
import Ezpz.Real.FDerivEntry3
import Mathlib.Analysis.Normed.Module.FiniteDimension
import Mathlib.Analysis.Calculus.ContDiff.Defs
namespace Ezpz
open Transc Matrix Topology Filter

/-! ### 0. Two generic facts -/

/-- A strict lower bound `c < g xs` on a function continuous at `xs` persists near `xs`. -/
theorem nhds_const_lt {E : Type} [TopologicalSpace E] {g : E → ℝ} {c : ℝ} {xs : E}
    (hg : ContinuousAt g xs) (h : c < g xs) : ∀ᶠ x in 𝓝 xs, c < g x :=
  hg.eventually (lt_mem_nhds h)

/-- A strict upper bound `g xs < c` on a function continuous at `xs` persists near `xs`. -/
theorem nhds_lt_const {E : Type} [TopologicalSpace E] {g : E → ℝ} {c : ℝ} {xs : E}
    (hg : ContinuousAt g xs) (h : g xs < c) : ∀ᶠ x in 𝓝 xs, g x < c :=
  hg.eventually (gt_mem_nhds h)

/-! ### 1. Each regularity predicate is open -/

/-- "Two points are strictly farther apart than `EPSILON`" persists near `xs`. -/
theorem farApart_eventually (p q : Pt) (n : Nat) (xs : EuclideanSpace ℝ (Fin n))
    (h : FarApart p q (asg n xs)) : ∀ᶠ x in 𝓝 xs, FarApart p q (asg n x) := by
  unfold FarApart at h ⊢
  refine nhds_const_lt ?_ h
  simp only [asg]; fun_prop

/-- `RegularPLD` (guard of `PointLineDistance` strictly inactive) persists near `xs`. -/
theorem regularPLD_eventually (l : Seg) (n : Nat) (xs : EuclideanSpace ℝ (Fin n))
    (h : RegularPLD l (asg n xs)) : ∀ᶠ x in 𝓝 xs, RegularPLD l (asg n x) := by
  unfold RegularPLD at h ⊢
  refine nhds_const_lt ?_ h
  simp only [asg]; fun_prop

/-- `RegularVPLD` (both guards of `VerticalPointLineDistance` strictly inactive) persists near
`xs`. -/
theorem regularVPLD_eventually (l : Seg) (n : Nat) (xs : EuclideanSpace ℝ (Fin n))
    (h : RegularVPLD l (asg n xs)) : ∀ᶠ x in 𝓝 xs, RegularVPLD l (asg n x) := by
  unfold RegularVPLD at h ⊢
  refine Filter.Eventually.and ?_ ?_
  · refine nhds_const_lt ?_ h.1
    simp only [asg]; fun_prop
  · refine nhds_const_lt ?_ h.2
    simp only [asg]; fun_prop

/-- `RegularHPLD` (both guards of `HorizontalPointLineDistance` strictly inactive) persists near
`xs`. -/
theorem regularHPLD_eventually (l : Seg) (n : Nat) (xs : EuclideanSpace ℝ (Fin n))
    (h : RegularHPLD l (asg n xs)) : ∀ᶠ x in 𝓝 xs, RegularHPLD l (asg n x) := by
  unfold RegularHPLD at h ⊢
  refine Filter.Eventually.and ?_ ?_
  · refine nhds_const_lt ?_ h.1
    simp only [asg]; fun_prop
  · refine nhds_const_lt ?_ h.2
    simp only [asg]; fun_prop

/-- `StrictLTC` (Jacobian guard of `LineTangentToCircle` strictly inactive) persists near `xs`. -/
theorem strictLTC_eventually (l : Seg) (n : Nat) (xs : EuclideanSpace ℝ (Fin n))
    (h : StrictLTC l (asg n xs)) : ∀ᶠ x in 𝓝 xs, StrictLTC l (asg n x) := by
  unfold StrictLTC segSq at h ⊢
  refine nhds_const_lt ?_ h
  simp only [asg]; fun_prop

/-- `StrictSymmetric` (Jacobian guard of `Symmetric` strictly inactive) persists near `xs`. -/
theorem strictSymmetric_eventually (l : Seg) (n : Nat) (xs : EuclideanSpace ℝ (Fin n))
    (h : StrictSymmetric l (asg n xs)) : ∀ᶠ x in 𝓝 xs, StrictSymmetric l (asg n x) := by
  unfold StrictSymmetric at h ⊢
  refine nhds_const_lt ?_ h
  simp only [asg]; fun_prop

/-- `RegularArcLength` (guard of `ArcLength` strictly inactive) persists near `xs`. -/
theorem regularArcLength_eventually (a : ArcD) (n : Nat) (xs : EuclideanSpace ℝ (Fin n))
    (h : RegularArcLength a (asg n xs)) : ∀ᶠ x in 𝓝 xs, RegularArcLength a (asg n x) := by
  unfold RegularArcLength at h ⊢
  refine nhds_const_lt ?_ h
  simp only [asg]; fun_prop

/-- `StrictCTTC` (centres strictly farther apart than `EPSILON`, strict internal / external choice,
distinct radii on the internal branch) persists near `xs`.  The third part is an implication; it is
open because its premise is strictly decided by the second part. -/
theorem strictCTTC_eventually (a b : Circ) (n : Nat) (xs : EuclideanSpace ℝ (Fin n))
    (h : StrictCTTC a b (asg n xs)) : ∀ᶠ x in 𝓝 xs, StrictCTTC a b (asg n x) := by
  obtain ⟨hd, hside, hrad⟩ := h
  have hcD : ContinuousAt (fun x => cttcDist a b (asg n x)) xs := by
    unfold cttcDist; simp only [asg]; fun_prop
  have hcG : ContinuousAt (fun x => cttcG a b (asg n x)) xs := by
    unfold cttcG cttcDist; simp only [asg]; fun_prop
  have hcH : ContinuousAt (fun x => cttcH a b (asg n x)) xs := by
    unfold cttcH cttcDist; simp only [asg]; fun_prop
  have hcA : ContinuousAt (fun x => asg n x a.radius) xs := by simp only [asg]; fun_prop
  have hcB : ContinuousAt (fun x => asg n x b.radius) xs := by simp only [asg]; fun_prop
  have e1 := nhds_const_lt hcD hd
  rcases lt_or_gt_of_ne hside with hint | hext
  · have e2 := hcG.eventually_lt hcH hint
    have e3' : ∀ᶠ x in 𝓝 xs, asg n x a.radius ≠ asg n x b.radius := by
      rcases lt_or_gt_of_ne (hrad hint) with hlt | hgt
      · filter_upwards [hcA.eventually_lt hcB hlt] with x hx using hx.ne
      · filter_upwards [hcB.eventually_lt hcA hgt] with x hx using hx.ne'
    filter_upwards [e1, e2, e3'] with x x1 x2 x3
    exact ⟨x1, x2.ne, fun _ => x3⟩
  · filter_upwards [e1, hcH.eventually_lt hcG hext] with x x1 x2
    exact ⟨x1, x2.ne', fun hlt => absurd hlt (not_lt.mpr x2.le)⟩

/-- The unwrapped angle error of `LinesAtAngle` is continuous at a point off the branch cut of
`atan2`. -/
theorem continuousAt_laDelta (l0 l1 : Seg) (ang : Angle ℝ) (n : Nat) (xs : EuclideanSpace ℝ (Fin n))
    (hs : 0 < laDot l0 l1 (asg n xs) ∨ laCross l0 l1 (asg n xs) ≠ 0) :
    ContinuousAt (fun x => laDelta l0 l1 ang (asg n x)) xs := by
  have hδ : DifferentiableAt ℝ (fun x => laDelta l0 l1 ang (asg n x)) xs := by
    unfold laDelta
    refine DifferentiableAt.sub_const ?_ _
    refine differentiableAt_realAtan2 ?_ ?_ (by rw [Complex.mem_slitPlane_iff]; exact hs)
    · unfold laDot; simp only [asg]; fun_prop
    · unfold laCross; simp only [asg]; fun_prop
  exact hδ.continuousAt

/-- `RegularLinesAtAngle` (both segments strictly longer than `EPSILON`, current angle off the
branch cut of `atan2`, angle error `≢ π (mod 2π)`) persists near `xs`. -/
theorem regularLinesAtAngle_eventually (l0 l1 : Seg) (ang : Angle ℝ) (n : Nat)
    (xs : EuclideanSpace ℝ (Fin n)) (h : RegularLinesAtAngle l0 l1 ang (asg n xs)) :
    ∀ᶠ x in 𝓝 xs, RegularLinesAtAngle l0 l1 ang (asg n x) := by
  obtain ⟨h0, h1, hs, hc⟩ := h
  have e0 : ∀ᶠ x in 𝓝 xs, EPS < Real.sqrt (segSqD l0 (asg n x)) := by
    refine nhds_const_lt ?_ h0
    unfold segSqD; simp only [asg]; fun_prop
  have e1 : ∀ᶠ x in 𝓝 xs, EPS < Real.sqrt (segSqD l1 (asg n x)) := by
    refine nhds_const_lt ?_ h1
    unfold segSqD; simp only [asg]; fun_prop
  have e2 : ∀ᶠ x in 𝓝 xs, 0 < laDot l0 l1 (asg n x) ∨ laCross l0 l1 (asg n x) ≠ 0 := by
    rcases hs with hd | hx
    · have hc' : ContinuousAt (fun x => laDot l0 l1 (asg n x)) xs := by
        unfold laDot; simp only [asg]; fun_prop
      exact (nhds_const_lt hc' hd).mono fun x hx => Or.inl hx
    · have hc' : ContinuousAt (fun x => laCross l0 l1 (asg n x)) xs := by
        unfold laCross; simp only [asg]; fun_prop
      exact (hc'.eventually_ne hx).mono fun x hx => Or.inr hx
  have e3 : ∀ᶠ x in 𝓝 xs, Real.cos (laDelta l0 l1 ang (asg n x)) ≠ -1 :=
    (Real.continuous_cos.continuousAt.comp (continuousAt_laDelta l0 l1 ang n xs hs)).eventually_ne hc
  filter_upwards [e0, e1, e2, e3] with x x0 x1 x2 x3
  exact ⟨x0, x1, x2, x3⟩

/-- `RegularArcAngle` persists near `xs`. -/
theorem regularArcAngle_eventually (a : ArcD) (ang : Angle ℝ) (n : Nat)
    (xs : EuclideanSpace ℝ (Fin n)) (h : RegularArcAngle a ang (asg n xs)) :
    ∀ᶠ x in 𝓝 xs, RegularArcAngle a ang (asg n x) :=
  regularLinesAtAngle_eventually ⟨a.center, a.start⟩ ⟨a.center, a.stop⟩ ang n xs h

/-- `StrictPAC0` (row 0 of `PointArcCoincident`: both Jacobian guards strictly inactive) persists
near `xs`. -/
theorem strictPAC0_eventually (arc : ArcD) (p : Pt) (n : Nat) (xs : EuclideanSpace ℝ (Fin n))
    (h : StrictPAC0 arc p (asg n xs)) : ∀ᶠ x in 𝓝 xs, StrictPAC0 arc p (asg n x) := by
  unfold StrictPAC0 at h ⊢
  refine Filter.Eventually.and ?_ ?_
  · refine nhds_const_lt ?_ h.1
    simp only [asg]; fun_prop
  · refine nhds_const_lt ?_ h.2
    simp only [asg]; fun_prop

/-- `RegularPAC1` (row 1 of `PointArcCoincident`: strictly inside the gate, or strictly outside it
with non-zero orientation and non-zero start cross product) persists near `xs`. -/
theorem regularPAC1_eventually (arc : ArcD) (p : Pt) (n : Nat) (xs : EuclideanSpace ℝ (Fin n))
    (h : RegularPAC1 arc p (asg n xs)) : ∀ᶠ x in 𝓝 xs, RegularPAC1 arc p (asg n x) := by
  have hcR := (continuous_abs_pacR0 arc p n).continuousAt (x := xs)
  have hcO := (continuous_pacOrient arc n).continuousAt (x := xs)
  have hcS : ContinuousAt (fun x => pacStartRaw arc p (asg n x)) xs := by
    unfold pacStartRaw; simp only [asg]; fun_prop
  rcases h with hin | ⟨hout, hor, hst⟩
  · exact (nhds_lt_const hcR hin).mono fun x hx => Or.inl hx
  · filter_upwards [nhds_const_lt hcR hout, hcO.eventually_ne hor, hcS.eventually_ne hst]
      with x x1 x2 x3
    exact Or.inr ⟨x1, x2, x3⟩

/-- `RegularPAC2` (row 2 of `PointArcCoincident`: the same with the end cross product) persists near
`xs`. -/
theorem regularPAC2_eventually (arc : ArcD) (p : Pt) (n : Nat) (xs : EuclideanSpace ℝ (Fin n))
    (h : RegularPAC2 arc p (asg n xs)) : ∀ᶠ x in 𝓝 xs, RegularPAC2 arc p (asg n x) := by
  have hcR := (continuous_abs_pacR0 arc p n).continuousAt (x := xs)
  have hcO := (continuous_pacOrient arc n).continuousAt (x := xs)
  have hcS : ContinuousAt (fun x => pacEndRaw arc p (asg n x)) xs := by
    unfold pacEndRaw; simp only [asg]; fun_prop
  rcases h with hin | ⟨hout, hor, hst⟩
  · exact (nhds_lt_const hcR hin).mono fun x hx => Or.inl hx
  · filter_upwards [nhds_const_lt hcR hout, hcO.eventually_ne hor, hcS.eventually_ne hst]
      with x x1 x2 x3
    exact Or.inr ⟨x1, x2, x3⟩

/-- `StrictPAC` (all three rows of `PointArcCoincident` strictly decided) persists near `xs`. -/
theorem strictPAC_eventually (arc : ArcD) (p : Pt) (n : Nat) (xs : EuclideanSpace ℝ (Fin n))
    (h : StrictPAC arc p (asg n xs)) : ∀ᶠ x in 𝓝 xs, StrictPAC arc p (asg n x) := by
  filter_upwards [strictPAC0_eventually arc p n xs h.1, regularPAC1_eventually arc p n xs h.2.1,
    regularPAC2_eventually arc p n xs h.2.2] with x x0 x1 x2
  exact ⟨x0, x1, x2⟩

/-! ### 2. The three regularity predicates are open, for every kind -/

/-- **`RegularAt` is an open condition** (the 15 kinds it covers; `False` for the others, so nothing
to prove there): regular at `xs` ⇒ regular at every point of a neighbourhood of `xs`. -/
theorem regularAt_eventually (c : Constraint ℝ) (n : Nat) (xs : EuclideanSpace ℝ (Fin n))
    (h : RegularAt c (asg n xs)) : ∀ᶠ x in 𝓝 xs, RegularAt c (asg n x) := by
  cases c with
  | distance p q d => exact farApart_eventually p q n xs h
  | linesEqualLength l0 l1 =>
    exact (farApart_eventually _ _ n xs h.1).and (farApart_eventually _ _ n xs h.2)
  | arcRadius a r =>
    exact (farApart_eventually _ _ n xs h.1).and (farApart_eventually _ _ n xs h.2)
  | linesAtAngle l0 l1 k => cases k <;> exact Filter.Eventually.of_forall fun _ => h
  | _ => exact Filter.Eventually.of_forall fun _ => h

/-- **`RegularAt2` is an open condition** (every kind except `PointArcCoincident`, for which it is
`False`). -/
theorem regularAt2_eventually (c : Constraint ℝ) (n : Nat) (xs : EuclideanSpace ℝ (Fin n))
    (h : RegularAt2 c (asg n xs)) : ∀ᶠ x in 𝓝 xs, RegularAt2 c (asg n x) := by
  cases c with
  | pointLineDistance p l d => exact regularPLD_eventually l n xs h
  | verticalPointLineDistance p l d => exact regularVPLD_eventually l n xs h
  | horizontalPointLineDistance p l d => exact regularHPLD_eventually l n xs h
  | lineTangentToCircle l c => exact strictLTC_eventually l n xs h
  | symmetric l a b => exact strictSymmetric_eventually l n xs h
  | arcLength a d => exact regularArcLength_eventually a n xs h
  | circleTangentToCircle a b => exact strictCTTC_eventually a b n xs h
  | arcAngle a ang => exact regularArcAngle_eventually a ang n xs h
  | linesAtAngle l0 l1 k =>
    cases k with
    | other ang => exact regularLinesAtAngle_eventually l0 l1 ang n xs h
    | parallel =>
      refine Filter.Eventually.mono ?_ (fun x hx => regularAt2_of_regularAt _ _ hx)
      exact regularAt_eventually _ n xs h
    | perpendicular =>
      refine Filter.Eventually.mono ?_ (fun x hx => regularAt2_of_regularAt _ _ hx)
      exact regularAt_eventually _ n xs h
  | _ =>
    refine Filter.Eventually.mono ?_ (fun x hx => regularAt2_of_regularAt _ _ hx)
    exact regularAt_eventually _ n xs h

/-- **Regularity is an open condition, all 23 kinds** (`PointArcCoincident` included): if the request
`c` is regular (`RegularAt3`) at the configuration `xs`, it is regular at every configuration of a
neighbourhood of `xs`.  No kind had to be left out: every predicate is built from strict
inequalities and `≠` between continuous functions. -/
theorem regularAt3_eventually (c : Constraint ℝ) (n : Nat) (xs : EuclideanSpace ℝ (Fin n))
    (h : RegularAt3 c (asg n xs)) : ∀ᶠ x in 𝓝 xs, RegularAt3 c (asg n x) := by
  cases c with
  | pointArcCoincident arc p => exact strictPAC_eventually arc p n xs h
  | _ =>
    refine Filter.Eventually.mono ?_ (fun x hx => regularAt3_of_regularAt2 _ _ hx)
    exact regularAt2_eventually _ n xs h

/-- **The regular configurations of a request form an open subset of `ℝⁿ`.** -/
theorem isOpen_regularAt3 (c : Constraint ℝ) (n : Nat) :
    IsOpen {x : EuclideanSpace ℝ (Fin n) | RegularAt3 c (asg n x)} :=
  isOpen_iff_mem_nhds.mpr fun xs h => regularAt3_eventually c n xs h

/-- The same for a whole system: the configurations at which every request of `es` is regular form
an open subset of `ℝⁿ`, and regularity of the system persists near a regular configuration. -/
theorem regularAt3_all_eventually (es : List (Entry ℝ)) (n : Nat) (xs : EuclideanSpace ℝ (Fin n))
    (h : ∀ e ∈ es, RegularAt3 e.c (asg n xs)) :
    ∀ᶠ x in 𝓝 xs, ∀ e ∈ es, RegularAt3 e.c (asg n x) := by
  induction es with
  | nil => exact Filter.Eventually.of_forall fun _ e he => by simp at he
  | cons e rest ih =>
    have h1 := regularAt3_eventually e.c n xs (h e (by simp))
    have h2 := ih (fun e' he' => h e' (by simp [he']))
    filter_upwards [h1, h2] with x x1 x2
    intro e' he'
    rcases List.mem_cons.mp he' with rfl | hm
    · exact x1
    · exact x2 e' hm

/-! ### 3. `C¹` in a neighbourhood -/

/-- **The model's Jacobian is the derivative of the model's residual in a whole neighbourhood of a
regular point**: if `c` is regular at `xs`, then `KindC1 c n x` holds at every `x` near `xs` — at each
such `x` the three residual slots have the model's Jacobian rows *at `x`* as Fréchet derivative, and
the rows are continuous at `x`. -/
theorem kindC1_eventually (c : Constraint ℝ) (n : Nat) (xs : EuclideanSpace ℝ (Fin n))
    (h : RegularAt3 c (asg n xs)) : ∀ᶠ x in 𝓝 xs, KindC1 c n x :=
  (regularAt3_eventually c n xs h).mono fun x hx => kindC1_of_regular3 c n x hx

/-! ### 4. "Continuously differentiable at `xs`", spelled out and as `ContDiffAt ℝ 1` -/

/-- A Jacobian row, as a continuous linear functional on `ℝⁿ`, depends continuously on the point
(operator norm) as soon as it does so applied to every fixed direction (`ℝⁿ` is finite
dimensional). -/
theorem rowCLM_continuousAt {n : Nat} (row : EuclideanSpace ℝ (Fin n) → List (JVar ℝ))
    (x : EuclideanSpace ℝ (Fin n))
    (h : ∀ U : Nat → ℝ, ContinuousAt (fun y => rowApply (row y) U) x) :
    ContinuousAt (fun y => rowCLM n (row y)) x := by
  rw [continuousAt_clm_apply]
  intro u
  simp only [rowCLM_apply]
  exact h (asg n u)

/-- A real function on `ℝⁿ` that, at every point `x` near `xs`, has the functional `rowCLM n (row x)`
as Fréchet derivative, with `row` continuous at `x` (applied to each fixed direction), is `C¹` at
`xs` in Mathlib's sense. -/
theorem contDiffAt_one_of_rows {n : Nat} (f : EuclideanSpace ℝ (Fin n) → ℝ)
    (row : EuclideanSpace ℝ (Fin n) → List (JVar ℝ)) (xs : EuclideanSpace ℝ (Fin n))
    (h : ∀ᶠ x in 𝓝 xs, HasFDerivAt f (rowCLM n (row x)) x ∧
      ∀ U : Nat → ℝ, ContinuousAt (fun y => rowApply (row y) U) x) :
    ContDiffAt ℝ 1 f xs := by
  rw [contDiffAt_one_iff]
  refine ⟨fun x => rowCLM n (row x), _, h, ?_, fun x hx => hx.1⟩
  intro x hx
  exact (rowCLM_continuousAt row x hx.2).continuousWithinAt

variable (c : Constraint ℝ) (n : Nat) (xs : EuclideanSpace ℝ (Fin n))

/-- **Slot 0, derivative nearby**: at every `x` near a regular point `xs`, residual slot 0 of `c` has
the model's Jacobian row 0 *computed at `x`* as Fréchet derivative at `x`. -/
theorem slot0_hasFDerivAt_eventually (h : RegularAt3 c (asg n xs)) :
    ∀ᶠ x in 𝓝 xs, HasFDerivAt (fun y => (c.residualV (asg n y)).r0)
      (rowCLM n (c.jacobianV (asg n x)).r0) x :=
  (kindC1_eventually c n xs h).mono fun _ hx => hx.d0

/-- **Slot 1, derivative nearby** (see `slot0_hasFDerivAt_eventually`). -/
theorem slot1_hasFDerivAt_eventually (h : RegularAt3 c (asg n xs)) :
    ∀ᶠ x in 𝓝 xs, HasFDerivAt (fun y => (c.residualV (asg n y)).r1)
      (rowCLM n (c.jacobianV (asg n x)).r1) x :=
  (kindC1_eventually c n xs h).mono fun _ hx => hx.d1

/-- **Slot 2, derivative nearby** (see `slot0_hasFDerivAt_eventually`). -/
theorem slot2_hasFDerivAt_eventually (h : RegularAt3 c (asg n xs)) :
    ∀ᶠ x in 𝓝 xs, HasFDerivAt (fun y => (c.residualV (asg n y)).r2)
      (rowCLM n (c.jacobianV (asg n x)).r2) x :=
  (kindC1_eventually c n xs h).mono fun _ hx => hx.d2

/-- **Row 0 is continuous at a regular point** as a map from configurations to linear functionals
(operator norm) — and, by `kindC1_eventually`, at every point near it. -/
theorem rowCLM0_continuousAt (h : RegularAt3 c (asg n xs)) :
    ContinuousAt (fun x => rowCLM n (c.jacobianV (asg n x)).r0) xs :=
  rowCLM_continuousAt _ xs (kindC1_of_regular3 c n xs h).c0

/-- **Row 1 is continuous at a regular point** (see `rowCLM0_continuousAt`). -/
theorem rowCLM1_continuousAt (h : RegularAt3 c (asg n xs)) :
    ContinuousAt (fun x => rowCLM n (c.jacobianV (asg n x)).r1) xs :=
  rowCLM_continuousAt _ xs (kindC1_of_regular3 c n xs h).c1

/-- **Row 2 is continuous at a regular point** (see `rowCLM0_continuousAt`). -/
theorem rowCLM2_continuousAt (h : RegularAt3 c (asg n xs)) :
    ContinuousAt (fun x => rowCLM n (c.jacobianV (asg n x)).r2) xs :=
  rowCLM_continuousAt _ xs (kindC1_of_regular3 c n xs h).c2

/-- **Residual slot 0 of every kind is `C¹` (Mathlib's `ContDiffAt ℝ 1`) at every regular point.** -/
theorem contDiffAt_one_slot0 (h : RegularAt3 c (asg n xs)) :
    ContDiffAt ℝ 1 (fun y => (c.residualV (asg n y)).r0) xs :=
  contDiffAt_one_of_rows _ (fun x => (c.jacobianV (asg n x)).r0) xs
    ((kindC1_eventually c n xs h).mono fun _ hx => ⟨hx.d0, hx.c0⟩)

/-- **Residual slot 1 of every kind is `C¹` at every regular point.** -/
theorem contDiffAt_one_slot1 (h : RegularAt3 c (asg n xs)) :
    ContDiffAt ℝ 1 (fun y => (c.residualV (asg n y)).r1) xs :=
  contDiffAt_one_of_rows _ (fun x => (c.jacobianV (asg n x)).r1) xs
    ((kindC1_eventually c n xs h).mono fun _ hx => ⟨hx.d1, hx.c1⟩)

/-- **Residual slot 2 of every kind is `C¹` at every regular point.** -/
theorem contDiffAt_one_slot2 (h : RegularAt3 c (asg n xs)) :
    ContDiffAt ℝ 1 (fun y => (c.residualV (asg n y)).r2) xs :=
  contDiffAt_one_of_rows _ (fun x => (c.jacobianV (asg n x)).r2) xs
    ((kindC1_eventually c n xs h).mono fun _ hx => ⟨hx.d2, hx.c2⟩)

/-- The Fréchet derivative (`fderiv`) of residual slot 0 **is** the model's Jacobian row 0 at every
point near a regular point. -/
theorem fderiv_slot0_eventually (h : RegularAt3 c (asg n xs)) :
    ∀ᶠ x in 𝓝 xs, fderiv ℝ (fun y => (c.residualV (asg n y)).r0) x =
      rowCLM n (c.jacobianV (asg n x)).r0 :=
  (slot0_hasFDerivAt_eventually c n xs h).mono fun _ hx => hx.fderiv

/-! ### 5. The assembled system -/

/-- **The model's assembled Jacobian is the derivative of the model's assembled residual in a whole
neighbourhood of a regular configuration**, and is continuous there: `es` with ids `< n`, every
request regular at `xs`; then at every `x` near `xs`, `rOf es n` has the Fréchet derivative
`JOf es n x` at `x` and `JOf es n` is continuous at `x`. -/
theorem hasFDerivAt_rOf_eventually (es : List (Entry ℝ)) (n : Nat) (hd : Declared es n)
    (xs : EuclideanSpace ℝ (Fin n)) (hk : ∀ e ∈ es, RegularAt3 e.c (asg n xs)) :
    ∀ᶠ x in 𝓝 xs, HasFDerivAt (rOf es n) (GN.euclCLM (JOf es n x)) x ∧
      ContinuousAt (JOf es n) x :=
  (regularAt3_all_eventually es n xs hk).mono fun x hx => hasFDerivAt_rOf_regular3 es n hd x hx

/-- **The model's assembled residual map `rOf es n : ℝⁿ → ℝᵐ` is `C¹` (Mathlib's `ContDiffAt ℝ 1`) at
every configuration where all its requests are regular** (all 23 kinds). -/
theorem contDiffAt_one_rOf (es : List (Entry ℝ)) (n : Nat) (hd : Declared es n)
    (xs : EuclideanSpace ℝ (Fin n)) (hk : ∀ e ∈ es, RegularAt3 e.c (asg n xs)) :
    ContDiffAt ℝ 1 (rOf es n) xs := by
  rw [contDiffAt_one_iff]
  refine ⟨fun x => GN.euclCLM (JOf es n x), _, hasFDerivAt_rOf_eventually es n hd xs hk, ?_,
    fun x hx => hx.1⟩
  intro x hx
  exact (GN.continuous_euclCLM.continuousAt.comp hx.2).continuousWithinAt

/-- At every configuration near a regular one, `fderiv` of the model's residual map **is** the
model's assembled Jacobian there. -/
theorem fderiv_rOf_eventually (es : List (Entry ℝ)) (n : Nat) (hd : Declared es n)
    (xs : EuclideanSpace ℝ (Fin n)) (hk : ∀ e ∈ es, RegularAt3 e.c (asg n xs)) :
    ∀ᶠ x in 𝓝 xs, fderiv ℝ (rOf es n) x = GN.euclCLM (JOf es n x) :=
  (hasFDerivAt_rOf_eventually es n hd xs hk).mono fun _ hx => hx.1.fderiv

/-! ### 6. Non-vacuity -/

/-- Non-vacuity of `contDiffAt_one_rOf` / `hasFDerivAt_rOf_eventually`: the fully determined system
"Point on arc" (`pac1`, Real/FDerivEntry3.lean; seven `Fixed` requests and one `PointArcCoincident`)
meets the hypotheses at its solution, so its residual map is `C¹` there and its Jacobian is the
derivative at all nearby configurations. -/
example : ContDiffAt ℝ 1 (rOf pac1 8) (pointOf 8 [0, 0, 1, 0, 0, 1, 0, 1]) ∧
    ∀ᶠ x in 𝓝 (pointOf 8 [0, 0, 1, 0, 0, 1, 0, 1]),
      fderiv ℝ (rOf pac1 8) x = GN.euclCLM (JOf pac1 8 x) :=
  ⟨contDiffAt_one_rOf pac1 8 pac1_declared _ pac1_regular,
    fderiv_rOf_eventually pac1 8 pac1_declared _ pac1_regular⟩

/-- `kindC1_eventually` specialised to a `PointArcCoincident` request on `ℝ⁸`: wherever `StrictPAC`
holds (it is satisfiable both strictly inside and strictly outside the gate, see the examples at the
end of Real/FDerivKinds3.lean), the request is `C¹` at all nearby configurations. -/
example (xs : EuclideanSpace ℝ (Fin 8))
    (h : StrictPAC ⟨⟨0, 1⟩, ⟨2, 3⟩, ⟨4, 5⟩⟩ ⟨6, 7⟩ (asg 8 xs)) :
    ∀ᶠ x in 𝓝 xs, KindC1 (.pointArcCoincident ⟨⟨0, 1⟩, ⟨2, 3⟩, ⟨4, 5⟩⟩ ⟨6, 7⟩) 8 x :=
  kindC1_eventually _ 8 xs h

end Ezpz
