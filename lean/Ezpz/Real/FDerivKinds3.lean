/-
C02 — Fréchet bridge, part 3: `PointArcCoincident`, the last kind, is `C¹` (`KindC1`) where its
guards, its gate and its one-sided penalties are strictly decided.

* `StrictPAC0`, `StrictPAC`: the regularity set (row 0's two guards of the *Jacobian* kernel strictly
  inactive — the residual kernel has no guard on row 0 —, and `RegularPAC1`, `RegularPAC2` of
  Real/DerivC.lean for the gated rows);
* neighbourhood versions (in `ℝⁿ`, not along a line) of "the gate stays closed / open", "`dir` is
  constant", "the penalty stays active / inactive": `eventually_gate_closed`, `eventually_gate_open`,
  `eventually_pacDir_nhds`, `pac_r1_local`, `pac_r2_local`, `pac_j1_local`, `pac_j2_local`;
* `kindC1_pointArcCoincident`: all six fields of `KindC1`;
* `RegularAt3`, `kindC1_of_regular3`: every kind, no exception.
-/
import Ezpz.Real.FDerivKinds2
namespace Ezpz
open Transc Matrix Topology Filter

/-! ### 1. The regularity set -/

/-- Row 0 of `PointArcCoincident`: both guards of the **Jacobian** kernel are *strictly* inactive —
the distance from the arc's centre to the point is strictly above `EPSILON` (the guard
`dist < EPSILON` of the `Distance` sub-row) and the arc's radius is strictly above `EPSILON` (the
`rad_ok` guard `EPSILON ≤ radius`).  The residual kernel has no guard on row 0 (it is
`|centre − p| − |centre − start|` at every point, `pac_res_r0`).

This strengthens `RegularPAC0` (`¬ dist < EPSILON ∧ EPSILON ≤ radius`), and the strengthening is
forced: `RegularPAC0` allows `dist = EPSILON` (or `radius = EPSILON`) exactly, and there the model's
Jacobian row 0 is not continuous — arbitrarily close points have `dist < EPSILON` (resp.
`radius < EPSILON`), where the kernel drops the four (resp. the other four) entries of the row.
Machine-checked for the first guard at a concrete point: `pacB_row0_not_continuous`,
`pacB_not_kindC1` (Real/FDerivEntry3.lean). -/
def StrictPAC0 (arc : ArcD) (p : Pt) (v : Nat → ℝ) : Prop :=
  EPS < Real.sqrt ((v arc.center.x - v p.x) * (v arc.center.x - v p.x)
      + (v arc.center.y - v p.y) * (v arc.center.y - v p.y)) ∧
  EPS < Real.sqrt ((v arc.center.x - v arc.start.x) * (v arc.center.x - v arc.start.x)
      + (v arc.center.y - v arc.start.y) * (v arc.center.y - v arc.start.y))

/-- `StrictPAC0` implies the (non-strict) `RegularPAC0` the directional-derivative theorem needs. -/
theorem StrictPAC0.regular {arc : ArcD} {p : Pt} {v : Nat → ℝ} (h : StrictPAC0 arc p v) :
    RegularPAC0 arc p v :=
  ⟨not_lt.mpr h.1.le, h.2.le⟩

/-- **Strictly regular points of `PointArcCoincident(arc, p)`**:

* `StrictPAC0`: row 0's two Jacobian guards are strictly inactive (`EPSILON < |centre − p|`,
  `EPSILON < |centre − start|`; strict where `RegularPAC0` is not, because continuity of the Jacobian
  row in a neighbourhood needs it — see `StrictPAC0`);
* `RegularPAC1`: the point is strictly inside the gate (`|r0| < ANG_TOL`), or strictly outside it
  (`ANG_TOL < |r0|`) with the arc's orientation cross product `≠ 0` and the start cross product `≠ 0`;
* `RegularPAC2`: the same with the end cross product.

The gate `|r0| ≤ ANG_TOL` is the same expression in the residual and in the Jacobian kernel, so
"strictly inside" / "strictly outside" decides both. -/
def StrictPAC (arc : ArcD) (p : Pt) (v : Nat → ℝ) : Prop :=
  StrictPAC0 arc p v ∧ RegularPAC1 arc p v ∧ RegularPAC2 arc p v

/-- `StrictPAC` implies the three per-row regularity conditions of Real/DerivC.lean. -/
theorem StrictPAC.regular {arc : ArcD} {p : Pt} {v : Nat → ℝ} (h : StrictPAC arc p v) :
    RegularPAC0 arc p v ∧ RegularPAC1 arc p v ∧ RegularPAC2 arc p v :=
  ⟨h.1.regular, h.2.1, h.2.2⟩

/-- **At a zero of row 0 the gated conditions are automatic**: if `r0 = 0` (the point is on the arc's
circle — in particular at every zero of the residual) and the arc's radius is strictly above
`EPSILON`, the point is strictly regular: the distance equals the radius, and `|r0| = 0 < ANG_TOL`
puts it strictly inside the gate. -/
theorem strictPAC_of_r0_zero {arc : ArcD} {p : Pt} {v : Nat → ℝ} (hr : pacR0 arc p v = 0)
    (hrad : EPS < Real.sqrt ((v arc.center.x - v arc.start.x) * (v arc.center.x - v arc.start.x)
      + (v arc.center.y - v arc.start.y) * (v arc.center.y - v arc.start.y))) :
    StrictPAC arc p v := by
  have hin : |pacR0 arc p v| < ANG_TOL := by rw [hr, abs_zero]; exact ANG_TOL_pos
  refine ⟨⟨?_, hrad⟩, Or.inl hin, Or.inl hin⟩
  unfold pacR0 at hr
  linarith

/-! ### 2. Continuity of the quantities that decide the branches, as functions on `ℝⁿ` -/

/-- `|r0|` is continuous on `ℝⁿ`. -/
theorem continuous_abs_pacR0 (arc : ArcD) (p : Pt) (n : Nat) :
    Continuous (fun x : EuclideanSpace ℝ (Fin n) => |pacR0 arc p (asg n x)|) := by
  unfold pacR0; simp only [asg]; fun_prop

/-- The arc's orientation cross product is continuous on `ℝⁿ`. -/
theorem continuous_pacOrient (arc : ArcD) (n : Nat) :
    Continuous (fun x : EuclideanSpace ℝ (Fin n) => pacOrient arc (asg n x)) := by
  unfold pacOrient; simp only [asg]; fun_prop

/-- The start cross product (times a constant) is continuous on `ℝⁿ`. -/
theorem continuous_pacStartRaw (arc : ArcD) (p : Pt) (n : Nat) (d : ℝ) :
    Continuous (fun x : EuclideanSpace ℝ (Fin n) => pacStartRaw arc p (asg n x) * d) := by
  unfold pacStartRaw; simp only [asg]; fun_prop

/-- The end cross product (times a constant) is continuous on `ℝⁿ`. -/
theorem continuous_pacEndRaw (arc : ArcD) (p : Pt) (n : Nat) (d : ℝ) :
    Continuous (fun x : EuclideanSpace ℝ (Fin n) => pacEndRaw arc p (asg n x) * d) := by
  unfold pacEndRaw; simp only [asg]; fun_prop

/-- Strictly inside the gate at `xs` ⇒ inside the gate in a neighbourhood of `xs` in `ℝⁿ`. -/
theorem eventually_gate_closed (arc : ArcD) (p : Pt) (n : Nat) (xs : EuclideanSpace ℝ (Fin n))
    (h : |pacR0 arc p (asg n xs)| < ANG_TOL) :
    ∀ᶠ x in 𝓝 xs, |pacR0 arc p (asg n x)| ≤ ANG_TOL := by
  filter_upwards [(continuous_abs_pacR0 arc p n).continuousAt.eventually (gt_mem_nhds h)] with x hx
  exact hx.le

/-- Strictly outside the gate at `xs` ⇒ outside the gate in a neighbourhood of `xs` in `ℝⁿ`. -/
theorem eventually_gate_open (arc : ArcD) (p : Pt) (n : Nat) (xs : EuclideanSpace ℝ (Fin n))
    (h : ANG_TOL < |pacR0 arc p (asg n xs)|) :
    ∀ᶠ x in 𝓝 xs, ¬ |pacR0 arc p (asg n x)| ≤ ANG_TOL := by
  filter_upwards [(continuous_abs_pacR0 arc p n).continuousAt.eventually (lt_mem_nhds h)] with x hx
  exact not_le.mpr hx

/-- Where the arc's orientation cross product is non-zero, `dir` is constant in a neighbourhood in
`ℝⁿ`. -/
theorem eventually_pacDir_nhds (arc : ArcD) (n : Nat) (xs : EuclideanSpace ℝ (Fin n))
    (hor : pacOrient arc (asg n xs) ≠ 0) :
    ∀ᶠ x in 𝓝 xs, pacDir arc (asg n x) = pacDir arc (asg n xs) := by
  have hc := (continuous_pacOrient arc n).continuousAt (x := xs)
  rcases lt_or_gt_of_ne hor with h | h
  · filter_upwards [hc.eventually (gt_mem_nhds h)] with x hx
    rw [pacDir_of_neg hx, pacDir_of_neg h]
  · filter_upwards [hc.eventually (lt_mem_nhds h)] with x hx
    rw [pacDir_of_pos hx, pacDir_of_pos h]

/-! ### 3. Local form of the gated rows -/

/-- Near a regular point of row 1, the residual's row 1 is a **constant** multiple of the start cross
product (`0` inside the gate or where the penalty is inactive, `−dir` where it is active). -/
theorem pac_r1_local (arc : ArcD) (p : Pt) (n : Nat) (xs : EuclideanSpace ℝ (Fin n))
    (h : RegularPAC1 arc p (asg n xs)) :
    ∃ k : ℝ, ∀ᶠ x in 𝓝 xs, ((Constraint.pointArcCoincident arc p).residualV (asg n x)).r1 =
      k * pacStartRaw arc p (asg n x) := by
  rcases h with hin | ⟨hout, hor, hs⟩
  · refine ⟨0, ?_⟩
    filter_upwards [eventually_gate_closed arc p n xs hin] with x hx
    rw [pac_res_r1, if_pos hx, lit_0, zero_mul]
  · have hgate := eventually_gate_open arc p n xs hout
    have hdir := eventually_pacDir_nhds arc n xs hor
    have hs' : pacStartRaw arc p (asg n xs) * pacDir arc (asg n xs) ≠ 0 := by
      rcases pacDir_cases arc (asg n xs) with h | h <;> rw [h] <;> simpa using hs
    have hcs := (continuous_pacStartRaw arc p n (pacDir arc (asg n xs))).continuousAt (x := xs)
    rcases lt_or_gt_of_ne hs' with hneg | hpos
    · refine ⟨0, ?_⟩
      filter_upwards [hgate, hdir, hcs.eventually (gt_mem_nhds hneg)] with x t1 t2 t3
      rw [pac_res_r1, if_neg t1, t2]
      simp only [lit_0]
      rw [if_pos t3.le, zero_mul]
    · refine ⟨-pacDir arc (asg n xs), ?_⟩
      filter_upwards [hgate, hdir, hcs.eventually (lt_mem_nhds hpos)] with x t1 t2 t3
      rw [pac_res_r1, if_neg t1, t2]
      simp only [lit_0]
      rw [if_neg (not_le.mpr t3)]
      ring

/-- Near a regular point of row 2, the residual's row 2 is a **constant** multiple of the end cross
product (`0` inside the gate or where the penalty is inactive, `dir` where it is active). -/
theorem pac_r2_local (arc : ArcD) (p : Pt) (n : Nat) (xs : EuclideanSpace ℝ (Fin n))
    (h : RegularPAC2 arc p (asg n xs)) :
    ∃ k : ℝ, ∀ᶠ x in 𝓝 xs, ((Constraint.pointArcCoincident arc p).residualV (asg n x)).r2 =
      k * pacEndRaw arc p (asg n x) := by
  rcases h with hin | ⟨hout, hor, hs⟩
  · refine ⟨0, ?_⟩
    filter_upwards [eventually_gate_closed arc p n xs hin] with x hx
    rw [pac_res_r2, if_pos hx, lit_0, zero_mul]
  · have hgate := eventually_gate_open arc p n xs hout
    have hdir := eventually_pacDir_nhds arc n xs hor
    have hs' : pacEndRaw arc p (asg n xs) * pacDir arc (asg n xs) ≠ 0 := by
      rcases pacDir_cases arc (asg n xs) with h | h <;> rw [h] <;> simpa using hs
    have hcs := (continuous_pacEndRaw arc p n (pacDir arc (asg n xs))).continuousAt (x := xs)
    rcases lt_or_gt_of_ne hs' with hneg | hpos
    · refine ⟨pacDir arc (asg n xs), ?_⟩
      filter_upwards [hgate, hdir, hcs.eventually (gt_mem_nhds hneg)] with x t1 t2 t3
      rw [pac_res_r2, if_neg t1, t2]
      simp only [lit_0]
      rw [if_neg (not_le.mpr t3)]
      ring
    · refine ⟨0, ?_⟩
      filter_upwards [hgate, hdir, hcs.eventually (lt_mem_nhds hpos)] with x t1 t2 t3
      rw [pac_res_r2, if_neg t1, t2]
      simp only [lit_0]
      rw [if_pos t3.le, zero_mul]

/-- The polynomial part of the Jacobian's row 1 applied to a direction `U` (the gradient of the start
cross product, paired with `U`). -/
def pacRow1Poly (arc : ArcD) (p : Pt) (w U : Nat → ℝ) : ℝ :=
  (w arc.start.y - w p.y) * U arc.center.x + -(w arc.start.x - w p.x) * U arc.center.y
    + -(w arc.center.y - w p.y) * U arc.start.x + (w arc.center.x - w p.x) * U arc.start.y
    + -(w arc.start.y - w arc.center.y) * U p.x + (w arc.start.x - w arc.center.x) * U p.y

/-- The polynomial part of the Jacobian's row 2 applied to a direction `U` (the gradient of the end
cross product, paired with `U`, with the kernel's signs). -/
def pacRow2Poly (arc : ArcD) (p : Pt) (w U : Nat → ℝ) : ℝ :=
  -(w arc.stop.y - w p.y) * U arc.center.x + (w arc.stop.x - w p.x) * U arc.center.y
    + (w arc.center.y - w p.y) * U arc.stop.x + -(w arc.center.x - w p.x) * U arc.stop.y
    + (w arc.stop.y - w arc.center.y) * U p.x + -(w arc.stop.x - w arc.center.x) * U p.y

/-- Near a regular point of row 1, the Jacobian's row 1 applied to `U` is a **constant** multiple of
`pacRow1Poly` (`0` inside the gate, `sw · dir` with the weight and `dir` frozen at `xs` outside). -/
theorem pac_j1_local (arc : ArcD) (p : Pt) (n : Nat) (xs : EuclideanSpace ℝ (Fin n))
    (h : RegularPAC1 arc p (asg n xs)) (U : Nat → ℝ) :
    ∃ k : ℝ, ∀ᶠ x in 𝓝 xs,
      rowApply ((Constraint.pointArcCoincident arc p).jacobianV (asg n x)).r1 U =
        k * pacRow1Poly arc p (asg n x) U := by
  rcases h with hin | ⟨hout, hor, hs⟩
  · refine ⟨0, ?_⟩
    filter_upwards [eventually_gate_closed arc p n xs hin] with x hx
    rw [pac_jac_r1, if_pos hx, zero_mul]
    simp [rowApply]
  · have hgate := eventually_gate_open arc p n xs hout
    have hdir := eventually_pacDir_nhds arc n xs hor
    have hs' : pacStartRaw arc p (asg n xs) * pacDir arc (asg n xs) ≠ 0 := by
      rcases pacDir_cases arc (asg n xs) with h | h <;> rw [h] <;> simpa using hs
    have hcs := (continuous_pacStartRaw arc p n (pacDir arc (asg n xs))).continuousAt (x := xs)
    rcases lt_or_gt_of_ne hs' with hneg | hpos
    · refine ⟨0, ?_⟩
      filter_upwards [hgate, hdir, hcs.eventually (gt_mem_nhds hneg)] with x t1 t2 t3
      rw [pac_jac_r1, if_neg t1, t2, pacSW_of_neg t3]
      simp only [rowApply, List.map_cons, List.map_nil, List.sum_cons, List.sum_nil]
      ring
    · refine ⟨pacDir arc (asg n xs), ?_⟩
      filter_upwards [hgate, hdir, hcs.eventually (lt_mem_nhds hpos)] with x t1 t2 t3
      rw [pac_jac_r1, if_neg t1, t2, pacSW_of_pos t3]
      simp only [rowApply, List.map_cons, List.map_nil, List.sum_cons, List.sum_nil, pacRow1Poly]
      ring

/-- Near a regular point of row 2, the Jacobian's row 2 applied to `U` is a **constant** multiple of
`pacRow2Poly` (`0` inside the gate, `ew · dir` with the weight and `dir` frozen at `xs` outside). -/
theorem pac_j2_local (arc : ArcD) (p : Pt) (n : Nat) (xs : EuclideanSpace ℝ (Fin n))
    (h : RegularPAC2 arc p (asg n xs)) (U : Nat → ℝ) :
    ∃ k : ℝ, ∀ᶠ x in 𝓝 xs,
      rowApply ((Constraint.pointArcCoincident arc p).jacobianV (asg n x)).r2 U =
        k * pacRow2Poly arc p (asg n x) U := by
  rcases h with hin | ⟨hout, hor, hs⟩
  · refine ⟨0, ?_⟩
    filter_upwards [eventually_gate_closed arc p n xs hin] with x hx
    rw [pac_jac_r2, if_pos hx, zero_mul]
    simp [rowApply]
  · have hgate := eventually_gate_open arc p n xs hout
    have hdir := eventually_pacDir_nhds arc n xs hor
    have hs' : pacEndRaw arc p (asg n xs) * pacDir arc (asg n xs) ≠ 0 := by
      rcases pacDir_cases arc (asg n xs) with h | h <;> rw [h] <;> simpa using hs
    have hcs := (continuous_pacEndRaw arc p n (pacDir arc (asg n xs))).continuousAt (x := xs)
    rcases lt_or_gt_of_ne hs' with hneg | hpos
    · refine ⟨pacDir arc (asg n xs), ?_⟩
      filter_upwards [hgate, hdir, hcs.eventually (gt_mem_nhds hneg)] with x t1 t2 t3
      rw [pac_jac_r2, if_neg t1, t2, pacEW_of_neg t3]
      simp only [rowApply, List.map_cons, List.map_nil, List.sum_cons, List.sum_nil, pacRow2Poly]
      ring
    · refine ⟨0, ?_⟩
      filter_upwards [hgate, hdir, hcs.eventually (lt_mem_nhds hpos)] with x t1 t2 t3
      rw [pac_jac_r2, if_neg t1, t2, pacEW_of_pos t3]
      simp only [rowApply, List.map_cons, List.map_nil, List.sum_cons, List.sum_nil]
      ring

/-! ### 4. Row 0 of the Jacobian where both of its guards are off -/

/-- Row 0 of the Jacobian of `PointArcCoincident` with both guards off: the `Distance(centre, p)`
sub-row followed by the radius sub-row (eight entries; aliased ids accumulate). -/
noncomputable def pacRow0 (arc : ArcD) (p : Pt) (v : Nat → ℝ) : List (JVar ℝ) :=
  [⟨arc.center.x, (v arc.center.x - v p.x) / Real.sqrt ((v arc.center.x - v p.x) * (v arc.center.x - v p.x)
    + (v arc.center.y - v p.y) * (v arc.center.y - v p.y))⟩,
   ⟨arc.center.y, (v arc.center.y - v p.y) / Real.sqrt ((v arc.center.x - v p.x) * (v arc.center.x - v p.x)
    + (v arc.center.y - v p.y) * (v arc.center.y - v p.y))⟩,
   ⟨p.x, (-v arc.center.x + v p.x) / Real.sqrt ((v arc.center.x - v p.x) * (v arc.center.x - v p.x)
    + (v arc.center.y - v p.y) * (v arc.center.y - v p.y))⟩,
   ⟨p.y, (-v arc.center.y + v p.y) / Real.sqrt ((v arc.center.x - v p.x) * (v arc.center.x - v p.x)
    + (v arc.center.y - v p.y) * (v arc.center.y - v p.y))⟩,
   ⟨arc.start.x, -(v arc.start.x - v arc.center.x) / Real.sqrt ((v arc.center.x - v arc.start.x) * (v arc.center.x - v arc.start.x)
    + (v arc.center.y - v arc.start.y) * (v arc.center.y - v arc.start.y))⟩,
   ⟨arc.start.y, -(v arc.start.y - v arc.center.y) / Real.sqrt ((v arc.center.x - v arc.start.x) * (v arc.center.x - v arc.start.x)
    + (v arc.center.y - v arc.start.y) * (v arc.center.y - v arc.start.y))⟩,
   ⟨arc.center.x, -(-(v arc.start.x - v arc.center.x) / Real.sqrt ((v arc.center.x - v arc.start.x) * (v arc.center.x - v arc.start.x)
    + (v arc.center.y - v arc.start.y) * (v arc.center.y - v arc.start.y)))⟩,
   ⟨arc.center.y, -(-(v arc.start.y - v arc.center.y) / Real.sqrt ((v arc.center.x - v arc.start.x) * (v arc.center.x - v arc.start.x)
    + (v arc.center.y - v arc.start.y) * (v arc.center.y - v arc.start.y)))⟩]

/-- With both guards off (`RegularPAC0`), row 0 of the model's Jacobian is `pacRow0`, inside and
outside the gate alike. -/
theorem pac_jac_r0 (arc : ArcD) (p : Pt) (v : Nat → ℝ) (h : RegularPAC0 arc p v) :
    ((Constraint.pointArcCoincident arc p).jacobianV v).r0 = pacRow0 arc p v := by
  obtain ⟨h1, h2⟩ := h
  simp only [Constraint.jacobianV, distJacRow, hypot_real, abs_real]
  rw [if_neg h1]
  simp only [h2, decide_true, if_true]
  by_cases hg : |Real.sqrt ((v arc.center.x - v p.x) * (v arc.center.x - v p.x)
      + (v arc.center.y - v p.y) * (v arc.center.y - v p.y))
    - Real.sqrt ((v arc.center.x - v arc.start.x) * (v arc.center.x - v arc.start.x)
      + (v arc.center.y - v arc.start.y) * (v arc.center.y - v arc.start.y))| ≤ ANG_TOL
  · rw [if_pos hg]; rfl
  · rw [if_neg hg]; rfl

/-! ### 5. `PointArcCoincident` is `C¹` at strictly regular points -/

/-- **`PointArcCoincident(arc, p)` is `C¹` at every strictly regular point** (`StrictPAC`): the
model's three Jacobian rows at `xs` are the Fréchet derivatives of the three residual slots at `xs`,
and each row, applied to a fixed direction, is continuous at `xs`.  All id assignments (aliasing
included). -/
theorem kindC1_pointArcCoincident (arc : ArcD) (p : Pt) (n : Nat)
    (xs : EuclideanSpace ℝ (Fin n)) (h : StrictPAC arc p (asg n xs)) :
    KindC1 (.pointArcCoincident arc p) n xs := by
  obtain ⟨h0, h1, h2⟩ := h
  have hD := lt_trans EPS_pos h0.1
  have hR := lt_trans EPS_pos h0.2
  have hDS := Real.sqrt_pos.mp hD
  have hRS := Real.sqrt_pos.mp hR
  have hev0 : ∀ᶠ x in 𝓝 xs, RegularPAC0 arc p (asg n x) := by
    have e1 : ∀ᶠ x in 𝓝 xs, ¬ Real.sqrt ((asg n x arc.center.x - asg n x p.x) * (asg n x arc.center.x - asg n x p.x)
        + (asg n x arc.center.y - asg n x p.y) * (asg n x arc.center.y - asg n x p.y)) < EPS := by
      refine eventually_guard_off ?_ h0.1
      simp only [asg]; fun_prop
    have e2 : ∀ᶠ x in 𝓝 xs, ¬ Real.sqrt ((asg n x arc.center.x - asg n x arc.start.x) * (asg n x arc.center.x - asg n x arc.start.x)
        + (asg n x arc.center.y - asg n x arc.start.y) * (asg n x arc.center.y - asg n x arc.start.y)) < EPS := by
      refine eventually_guard_off ?_ h0.2
      simp only [asg]; fun_prop
    filter_upwards [e1, e2] with x x1 x2
    exact ⟨x1, not_lt.mp x2⟩
  simp only [asg] at hD hR hDS hRS
  constructor
  · refine hasFDerivAt_of_derivRow _ n xs (·.r0) (·.r0) ?_
      (fun u => deriv_pointArcCoincident_row0 (asg n xs) u arc p h0.regular)
    simp only [pac_res_r0, asg]
    fun_prop (disch := first | exact hDS.ne' | exact hRS.ne')
  · obtain ⟨k, hk⟩ := pac_r1_local arc p n xs h1
    refine hasFDerivAt_of_derivRow _ n xs (·.r1) (·.r1) ?_
      (fun u => deriv_pointArcCoincident_row1 (asg n xs) u arc p h1)
    have hF : DifferentiableAt ℝ (fun x => k * pacStartRaw arc p (asg n x)) xs := by
      unfold pacStartRaw; simp only [asg]; fun_prop
    exact hF.congr_of_eventuallyEq hk
  · obtain ⟨k, hk⟩ := pac_r2_local arc p n xs h2
    refine hasFDerivAt_of_derivRow _ n xs (·.r2) (·.r2) ?_
      (fun u => deriv_pointArcCoincident_row2 (asg n xs) u arc p h2)
    have hF : DifferentiableAt ℝ (fun x => k * pacEndRaw arc p (asg n x)) xs := by
      unfold pacEndRaw; simp only [asg]; fun_prop
    exact hF.congr_of_eventuallyEq hk
  · intro U
    have hF : ContinuousAt (fun x => rowApply (pacRow0 arc p (asg n x)) U) xs := by
      simp only [pacRow0, rowApply, List.map_cons, List.map_nil, List.sum_cons, List.sum_nil, asg]
      fun_prop (disch := first | exact hD.ne' | exact hR.ne')
    refine hF.congr ?_
    filter_upwards [hev0] with x hx
    rw [pac_jac_r0 arc p (asg n x) hx]
  · intro U
    obtain ⟨k, hk⟩ := pac_j1_local arc p n xs h1 U
    have hF : ContinuousAt (fun x => k * pacRow1Poly arc p (asg n x) U) xs := by
      unfold pacRow1Poly; simp only [asg]; fun_prop
    exact hF.congr (hk.mono fun x hx => hx.symm)
  · intro U
    obtain ⟨k, hk⟩ := pac_j2_local arc p n xs h2 U
    have hF : ContinuousAt (fun x => k * pacRow2Poly arc p (asg n x) U) xs := by
      unfold pacRow2Poly; simp only [asg]; fun_prop
    exact hF.congr (hk.mono fun x hx => hx.symm)

/-! ### 6. Every kind -/

/-- **Regularity of a request at an assignment, third version**: `StrictPAC` for
`PointArcCoincident` (row 0's Jacobian guards strictly inactive; strictly inside the gate, or strictly
outside it with non-zero orientation and non-zero start / end cross products), and `RegularAt2` for
every other kind.  No kind is excluded any more. -/
def RegularAt3 : Constraint ℝ → (Nat → ℝ) → Prop
  | .pointArcCoincident arc p, v => StrictPAC arc p v
  | c, v => RegularAt2 c v

/-- `RegularAt3` extends `RegularAt2`. -/
theorem regularAt3_of_regularAt2 (c : Constraint ℝ) (v : Nat → ℝ) (h : RegularAt2 c v) :
    RegularAt3 c v := by
  cases c with
  | pointArcCoincident arc p => exact (h : False).elim
  | _ => exact h

/-- **Every kind is `C¹` where it is regular**: `RegularAt3 c (asg n xs) → KindC1 c n xs`, for all
23 kinds of request (no exception). -/
theorem kindC1_of_regular3 (c : Constraint ℝ) (n : Nat) (xs : EuclideanSpace ℝ (Fin n))
    (h : RegularAt3 c (asg n xs)) : KindC1 c n xs := by
  cases c with
  | pointArcCoincident arc p => exact kindC1_pointArcCoincident arc p n xs h
  | _ => exact kindC1_of_regular2 _ n xs h

/-! ### 7. Non-vacuity -/

/-- Non-vacuity of `StrictPAC`, **strictly outside the gate with a penalty active**: arc with centre
`(0,0)`, start `(1,0)`, stop `(1,1)`, point `(0,2)` (`pacExample`): `r0 = 2 − 1 = 1 > ANG_TOL`,
orientation `1`, start cross `−2` (start penalty inactive), end cross `−2 < 0` (end penalty active:
row 2 is `end_cross`). -/
example : StrictPAC ⟨⟨0, 1⟩, ⟨2, 3⟩, ⟨4, 5⟩⟩ ⟨6, 7⟩ pacExample := by
  refine ⟨?_, Or.inr ?_, Or.inr ?_⟩
  · norm_num [StrictPAC0, pacExample, EPS_real, sqrt_four]
  · norm_num [pacR0, pacOrient, pacStartRaw, pacExample, ANG_TOL_real, sqrt_four]
  · norm_num [pacR0, pacOrient, pacEndRaw, pacExample, ANG_TOL_real, sqrt_four]

/-- In that example the end penalty is genuinely active: row 2 of the residual is `−2`. -/
example : ((Constraint.pointArcCoincident ⟨⟨0, 1⟩, ⟨2, 3⟩, ⟨4, 5⟩⟩ ⟨6, 7⟩).residualV pacExample).r2
    = -2 := by
  rw [pac_res_r2]
  norm_num [pacR0, pacOrient, pacDir, pacEndRaw, pacExample, ANG_TOL_real, sqrt_four]

/-- Non-vacuity of `StrictPAC`, **strictly inside the gate**: the same arc, the point being the arc's
start (`r0 = 0`). -/
example : StrictPAC ⟨⟨0, 1⟩, ⟨2, 3⟩, ⟨4, 5⟩⟩ ⟨2, 3⟩ pacExample := by
  refine ⟨?_, Or.inl ?_, Or.inl ?_⟩
  · norm_num [StrictPAC0, pacExample, EPS_real]
  · norm_num [pacR0, pacExample, ANG_TOL_real]
  · norm_num [pacR0, pacExample, ANG_TOL_real]

end Ezpz
