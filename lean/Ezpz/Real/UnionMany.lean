/-
C17 at the public entry point `solveWithPriority` for ANY NUMBER of variable-disjoint groups, and for
any interleaving of their requests and any numbering of their variables — over ℝ, one priority
level, every group's Newton run returning at the residual test in the same round, exact solvers
(`ExactSolve`) with one common positive damping.

* `unionMany` — the union of `k` groups `(reqs_i, n_i, g_i)` in the contiguous layout: requests and
  guesses concatenated, group `i`'s ids shifted by `n_0 + … + n_{i-1}` (`unionMany_append`,
  `unionMany_split`, `unionMany_n` describe the layout explicitly).
* `solveAgree_of_exact`, `solveInner_solveAgree` — two exact solvers of the same size and damping
  are interchangeable on a successful run (the damped step is unique).
* `newton_union_byResidual`, `solveWithPriority_union_flag` — the ghost flag "returned at the
  residual test" of the union's Newton run (missing from `Real/UnionEntry.lean`, needed to iterate).
* `solveWithPriority_unionMany_converged` — the theorem for `k ≥ 1` groups.
* `unsatMany_split`, `mem_unsatMany`, `flatten_values_group`, `reordered_values_group` — where each
  group's unsatisfied ids and final values sit in the union's results.
* `solveWithPriority_reorder_renumber`, `solveWithPriority_unionMany_any_order`,
  `solveWithPriority_unionMany_any_order_exact` — the union's requests in any order, its variables
  under any numbering.
* two `example`s: three one-request groups from guesses away from the solution, damped exact solvers.

Restrictions that remain: one priority level; every group returns at the residual test (not at the
step test); all groups report the same iteration count; no freedom analysis (`svd = none`).
-/
import Ezpz.Real.UnionEntry
set_option linter.unusedSectionVars false
set_option linter.unusedSimpArgs false
set_option linter.unusedVariables false
namespace Ezpz
open Transc

/-! ### Exact solvers of the same size are interchangeable -/

/-- `solve'` answers like `solve` whenever `solve` answers on in-range data of an `R × n` system. -/
def SolveAgree (solve solve' : Nat → List (Triplet ℝ) → List ℝ → Except SolveError (List ℝ))
    (R n : Nat) : Prop :=
  ∀ k jac r d, r.length = R → (∀ t ∈ jac, t.1 < R ∧ t.2.1 < n) → solve k jac r = .ok d →
    solve' k jac r = .ok d

/-- Two exact solvers for the same dimensions and the same positive damping agree wherever the
first answers, provided the second answers on in-range data (the damped step is unique). -/
theorem solveAgree_of_exact (solve solve' : Nat → List (Triplet ℝ) → List ℝ →
    Except SolveError (List ℝ)) (R n : Nat) (lam : Nat → ℝ) (hlam : ∀ k, 0 < lam k)
    (h : ExactSolve solve R n lam) (h' : ExactSolve solve' R n lam)
    (htot : ∀ k jac r, r.length = R → (∀ t ∈ jac, t.1 < R ∧ t.2.1 < n) →
      ∃ d, solve' k jac r = .ok d) : SolveAgree solve solve' R n := by
  intro k jac r d hr hj hs
  obtain ⟨d', hd'⟩ := htot k jac r hr hj
  obtain ⟨hl, hst⟩ := h k jac r d hs
  obtain ⟨hl', hst'⟩ := h' k jac r d' hd'
  have := GN.step_unique _ _ _ (hlam k) _ _ hst' hst
  rw [hd', vecOf_inj n d' d hl' hl this]

/-- One round with an agreeing solver: if the round with `solve` does not fail, the round with
`solve'` gives the same result. -/
theorem newtonStep_solveAgree (es : List (Entry ℝ)) (cfg : Config ℝ)
    (solve solve' : Nat → List (Triplet ℝ) → List ℝ → Except SolveError (List ℝ)) (n : Nat)
    (hd : Declared es n) (hA : SolveAgree solve solve' (numRows es) n) (k : Nat) (x : List ℝ)
    (ws : List (Warning ℝ)) (hx : x.length = n)
    (hnf : ∀ e w, newtonStep es cfg solve k x ws ≠ .fail e w) :
    newtonStep es cfg solve' k x ws = newtonStep es cfg solve k x ws := by
  unfold newtonStep at hnf ⊢
  cases hr : residualAll es (lookup x) with
  | error e => rfl
  | ok p =>
    obtain ⟨r, w1⟩ := p
    simp only [hr] at hnf ⊢
    cases hj : jacobianAll es (lookup x) with
    | error e => rfl
    | ok q =>
      obtain ⟨jac, w2⟩ := q
      simp only [hj] at hnf ⊢
      cases hm : maxAbs? r with
      | none => rfl
      | some m =>
        simp only [hm] at hnf ⊢
        by_cases hl : m ≤ cfg.convergenceTolerance
        · simp only [if_pos hl]
        · simp only [if_neg hl] at hnf ⊢
          cases hs : solve k jac r with
          | error e => exact absurd (by simp only [hs]) (hnf e (ws ++ w1 ++ w2))
          | ok d =>
            rw [hA k jac r d (residualAll_length _ es r w1 hr)
              (jacobianAll_in_range es _ n hd jac w2 hj) hs]

/-- The whole loop with an agreeing solver: a successful run with `solve` is the run with `solve'`.
-/
theorem newtonLoop_solveAgree (es : List (Entry ℝ)) (cfg : Config ℝ)
    (solve solve' : Nat → List (Triplet ℝ) → List ℝ → Except SolveError (List ℝ)) (n : Nat)
    (hd : Declared es n) (hA : SolveAgree solve solve' (numRows es) n) :
    ∀ (fuel k : Nat) (x : List ℝ) (ws : List (Warning ℝ)) (r : NewtonOk ℝ), x.length = n →
      newtonLoop es cfg solve fuel k x ws = .ok r → newtonLoop es cfg solve' fuel k x ws = .ok r := by
  intro fuel
  induction fuel with
  | zero => intro k x ws r _ h; simp [newtonLoop] at h
  | succ fuel ih =>
    intro k x ws r hx h
    rw [newtonLoop] at h ⊢
    have hnf : ∀ e w, newtonStep es cfg solve k x ws ≠ .fail e w := by
      intro e w he
      rw [he] at h
      simp at h
    rw [newtonStep_solveAgree es cfg solve solve' n hd hA k x ws hx hnf]
    cases hs : newtonStep es cfg solve k x ws with
    | done r' => simpa [hs] using h
    | fail e w => exact absurd hs (hnf e w)
    | next y w =>
      simp only [hs] at h ⊢
      exact ih (k + 1) y w r
        ((newtonStep_next_length es cfg solve k x y ws w hs).trans hx) h

/-- `solveInner` with an agreeing solver: a successful solve with `solve` is the solve with
`solve'`. -/
theorem solveInner_solveAgree (es : List (Entry ℝ)) (cfg : Config ℝ)
    (solve solve' : Nat → List (Triplet ℝ) → List ℝ → Except SolveError (List ℝ)) (n : Nat)
    (hd : Declared es n) (hA : SolveAgree solve solve' (numRows es) n) (g : List (Nat × ℝ))
    (hg : g.length = n) (o : Outcome ℝ) (h : solveInner es g cfg solve none = .ok o) :
    solveInner es g cfg solve' none = .ok o := by
  obtain ⟨nr, hn, _⟩ := solveInner_ok _ _ _ _ _ _ h
  have hn' := newtonLoop_solveAgree es cfg solve solve' n hd hA _ _ _ _ nr (by simpa using hg) hn
  unfold solveInner at h ⊢
  rw [show newton es cfg solve' (g.map (·.2)) = .ok nr from hn']
  rw [show newton es cfg solve (g.map (·.2)) = .ok nr from hn] at h
  exact h

/-! ### The ghost flag of the union's Newton run (two groups) -/

/-- **The union's Newton run returns at the residual test** when both groups' runs do, in the same
round: the run of the union succeeds, its record carries `byResidual = true`, its values are the
concatenation of the groups' values and its round number is the groups'. -/
theorem newton_union_byResidual (es1 es2 : List (Entry ℝ)) (n1 n2 : Nat) (cfg : Config ℝ)
    (solveU solve1 solve2 : Nat → List (Triplet ℝ) → List ℝ → Except SolveError (List ℝ))
    (hd1 : Declared es1 n1) (hd2 : Declared es2 n2)
    (hB : BlockSolve solveU solve1 solve2 (numRows es1) (numRows es2) n1 n2)
    (x1 x2 : List ℝ) (hx1 : x1.length = n1) (hx2 : x2.length = n2) (nr1 nr2 : NewtonOk ℝ)
    (hn1 : newton es1 cfg solve1 x1 = .ok nr1) (hn2 : newton es2 cfg solve2 x2 = .ok nr2)
    (hb1 : nr1.byResidual = true) (hb2 : nr2.byResidual = true)
    (hit : nr1.iterations = nr2.iterations) :
    ∃ res, newton (unionEntries n1 es1 es2) cfg solveU (x1 ++ x2) = .ok res ∧
      res.byResidual = true ∧ res.values = nr1.values ++ nr2.values ∧
      res.iterations = nr1.iterations := by
  obtain ⟨j1, y1, wy1, hj1, hrun1, hdone1⟩ := newtonLoop_ok_run es1 cfg solve1 _ _ _ _ nr1 hn1
  obtain ⟨j2, y2, wy2, hj2, hrun2, hdone2⟩ := newtonLoop_ok_run es2 cfg solve2 _ _ _ _ nr2 hn2
  have hk1 := newtonStep_done_iterations es1 cfg solve1 _ _ _ _ hdone1
  have hk2 := newtonStep_done_iterations es2 cfg solve2 _ _ _ _ hdone2
  have hjj : j2 = j1 := by omega
  subst hjj
  obtain ⟨res, hres, hval, hbU, hiter, _⟩ := newtonLoop_union_converged es1 es2 cfg solveU solve1
    solve2 n1 n2 hd1 hd2 hB j2 (cfg.maxIterations - j2 - 1) 0 x1 x2 [] [] []
    y1 y2 wy1 wy2 hx1 hx2 hrun1 hrun2 nr1 nr2 hdone1 hb1 hdone2 hb2
  have hfuel : j2 + (cfg.maxIterations - j2 - 1 + 1) = cfg.maxIterations := by omega
  rw [hfuel] at hres
  obtain ⟨_, _, _, _, _, _, _, _, _, hnr1⟩ :=
    (newtonStep_done_byResidual_iff es1 cfg solve1 _ y1 wy1 nr1).mp ⟨hdone1, hb1⟩
  obtain ⟨_, _, _, _, _, _, _, _, _, hnr2⟩ :=
    (newtonStep_done_byResidual_iff es2 cfg solve2 _ y2 wy2 nr2).mp ⟨hdone2, hb2⟩
  have hv1 : nr1.values = y1 := by rw [hnr1]
  have hv2 : nr2.values = y2 := by rw [hnr2]
  exact ⟨res, hres, hbU, by rw [hval, hv1, hv2], by rw [hiter, hk1]⟩

/-- The values of the union's guess list. -/
theorem union_guess_values (n1 : Nat) (g1 g2 : List (Nat × ℝ)) :
    (g1 ++ g2.map (fun lv => (lv.1 + n1, lv.2))).map (·.2) = g1.map (·.2) ++ g2.map (·.2) := by
  simp [List.map_append, List.map_map, Function.comp_def]

/-- **The ghost flag at the entry point, two groups**: under the hypotheses of
`solveWithPriority_union_converged`, the Newton run of the union (the one `solveWithPriority`
performs at its only level) returns at the residual test. -/
theorem solveWithPriority_union_flag (reqs1 reqs2 : List (Constraint ℝ × Nat)) (P n1 n2 : Nat)
    (hne1 : reqs1 ≠ []) (hne2 : reqs2 ≠ []) (hP1 : ∀ r ∈ reqs1, r.2 = P)
    (hP2 : ∀ r ∈ reqs2, r.2 = P)
    (hd1 : ∀ r ∈ reqs1, ∀ i ∈ r.1.nonzeroes.all, i < n1)
    (hd2 : ∀ r ∈ reqs2, ∀ i ∈ r.1.nonzeroes.all, i < n2)
    (cfg : Config ℝ) (solveU solve1 solve2 : LinSolve ℝ)
    (hB : BlockSolve (solveU 0) (solve1 0) (solve2 0) (numRows (enumerate reqs1))
      (numRows (enumerate reqs2)) n1 n2)
    (g1 g2 : List (Nat × ℝ)) (hg1 : g1.length = n1) (hg2 : g2.length = n2) (o1 o2 : Outcome ℝ)
    (h1 : solveWithPriority reqs1 g1 cfg solve1 none = .ok o1)
    (h2 : solveWithPriority reqs2 g2 cfg solve2 none = .ok o2)
    (hb1 : ∀ r, newton (enumerate reqs1) cfg (solve1 0) (g1.map (·.2)) = .ok r →
      r.byResidual = true)
    (hb2 : ∀ r, newton (enumerate reqs2) cfg (solve2 0) (g2.map (·.2)) = .ok r →
      r.byResidual = true)
    (hit : o1.iterations = o2.iterations) :
    ∀ r, newton (enumerate (reqs1 ++ reqs2.map (fun r => (r.1.rename (· + n1), r.2)))) cfg
      (solveU 0) ((g1 ++ g2.map (fun lv => (lv.1 + n1, lv.2))).map (·.2)) = .ok r →
      r.byResidual = true := by
  rw [solveWithPriority_single_level reqs1 g1 cfg solve1 none P hne1 hP1] at h1
  rw [solveWithPriority_single_level reqs2 g2 cfg solve2 none P hne2 hP2] at h2
  simp only [Option.map_none] at h1 h2
  obtain ⟨nr1, hn1, _, _, hi1, _⟩ := solveInner_ok _ _ _ _ _ _ h1
  obtain ⟨nr2, hn2, _, _, hi2, _⟩ := solveInner_ok _ _ _ _ _ _ h2
  have hn2' : newton ((enumerate reqs2).map (Entry.relabel (· + reqs1.length))) cfg (solve2 0)
      (g2.map (·.2)) = .ok (nr2.relabel (· + reqs1.length)) := by
    rw [newton_relabel, hn2]; rfl
  obtain ⟨res, hres, hbU, _, _⟩ := newton_union_byResidual (enumerate reqs1)
    ((enumerate reqs2).map (Entry.relabel (· + reqs1.length))) n1 n2 cfg (solveU 0) (solve1 0)
    (solve2 0) (declared_enumerate reqs1 n1 hd1)
    (declared_relabel _ _ n2 (declared_enumerate reqs2 n2 hd2)) (by rwa [numRows_relabel])
    (g1.map (·.2)) (g2.map (·.2)) (by simpa using hg1) (by simpa using hg2) nr1
    (nr2.relabel (· + reqs1.length)) hn1 hn2' (hb1 nr1 hn1) (hb2 nr2 hn2)
    (by show nr1.iterations = nr2.iterations; omega)
  intro r hr
  rw [enumerate_union, union_guess_values, hres] at hr
  injection hr with hr
  rw [← hr, hbU]

/-! ### The union of any number of groups -/

/-- A group: its requests (constraint, priority) over the ids `0 … n-1`, its number of variables
`n`, and its guess list. -/
abbrev ReqGroup := List (Constraint ℝ × Nat) × Nat × List (Nat × ℝ)

/-- The two-group union in the contiguous layout: `a`'s requests followed by `b`'s with every
variable id shifted by `a`'s number of variables; the guess lists likewise. -/
def union2 (a b : ReqGroup) : ReqGroup :=
  (a.1 ++ b.1.map (fun r => (r.1.rename (· + a.2.1), r.2)), a.2.1 + b.2.1,
    a.2.2 ++ b.2.2.map (fun lv => (lv.1 + a.2.1, lv.2)))

/-- **The union of `k` groups**: the concatenation of the groups' request lists and guess lists,
group `i`'s variable ids shifted by `n_0 + … + n_{i-1}` (the first group united with the union of
the others). -/
def unionMany : List ReqGroup → ReqGroup
  | [] => ([], 0, [])
  | grp :: rest => union2 grp (unionMany rest)

/-- The union of a single group is the group. -/
theorem unionMany_singleton (grp : ReqGroup) : unionMany [grp] = grp := by
  obtain ⟨reqs, n, g⟩ := grp
  simp [unionMany, union2]

/-- The union's requests all have priority `P` when the groups' requests do. -/
theorem unionMany_priority (P : Nat) : ∀ gs : List ReqGroup,
    (∀ grp ∈ gs, ∀ r ∈ grp.1, r.2 = P) → ∀ r ∈ (unionMany gs).1, r.2 = P := by
  intro gs
  induction gs with
  | nil => intro _ r hr; simp [unionMany] at hr
  | cons grp rest ih =>
    intro h r hr
    simp only [unionMany, union2, List.mem_append, List.mem_map] at hr
    rcases hr with hr | ⟨r0, hr0, rfl⟩
    · exact h grp (by simp) r hr
    · exact ih (fun g hg => h g (by simp [hg])) r0 hr0

/-- The union's requests mention only ids below the total number of variables when every group's
requests mention only ids below the group's number of variables. -/
theorem unionMany_declared : ∀ gs : List ReqGroup,
    (∀ grp ∈ gs, ∀ r ∈ grp.1, ∀ i ∈ r.1.nonzeroes.all, i < grp.2.1) →
    ∀ r ∈ (unionMany gs).1, ∀ i ∈ r.1.nonzeroes.all, i < (unionMany gs).2.1 := by
  intro gs
  induction gs with
  | nil => intro _ r hr; simp [unionMany] at hr
  | cons grp rest ih =>
    intro h r hr i hi
    simp only [unionMany, union2, List.mem_append, List.mem_map] at hr ⊢
    rcases hr with hr | ⟨r0, hr0, rfl⟩
    · have := h grp (by simp) r hr i hi
      omega
    · rw [nonzeroes_all_rename, List.mem_map] at hi
      obtain ⟨j, hj, rfl⟩ := hi
      have := ih (fun g hg => h g (by simp [hg])) r0 hr0 j hj
      omega

/-- The union has one guess per variable when every group has. -/
theorem unionMany_guess_length : ∀ gs : List ReqGroup,
    (∀ grp ∈ gs, grp.2.2.length = grp.2.1) → (unionMany gs).2.2.length = (unionMany gs).2.1 := by
  intro gs
  induction gs with
  | nil => intro _; rfl
  | cons grp rest ih =>
    intro h
    simp only [unionMany, union2, List.length_append, List.length_map]
    rw [h grp (by simp), ih (fun g hg => h g (by simp [hg]))]

/-- The union of a non-empty list of non-empty groups is non-empty. -/
theorem unionMany_ne_nil (grp : ReqGroup) (rest : List ReqGroup) (h : grp.1 ≠ []) :
    (unionMany (grp :: rest)).1 ≠ [] := by
  simp only [unionMany, union2]
  intro hc
  exact h (List.append_eq_nil_iff.mp hc).1

/-- The number of rows of the two-group union is the sum of the groups' numbers of rows. -/
theorem numRows_enumerate_union (n1 : Nat) (reqs1 reqs2 : List (Constraint ℝ × Nat)) :
    numRows (enumerate (reqs1 ++ reqs2.map (fun r => (r.1.rename (· + n1), r.2)))) =
      numRows (enumerate reqs1) + numRows (enumerate reqs2) := by
  rw [enumerate_union, numRows_unionEntries, numRows_relabel]

/-! ### The layout of the union, explicitly -/

/-- Renaming twice is renaming by the composition. -/
private theorem Constraint.rename_rename (f g : Nat → Nat) (c : Constraint ℝ) :
    (c.rename f).rename g = c.rename (fun i => g (f i)) := by
  cases c <;> simp [Constraint.rename, Pt.rename, Seg.rename, Circ.rename, ArcD.rename]

/-- Renaming by the identity changes nothing. -/
private theorem Constraint.rename_id (c : Constraint ℝ) : c.rename (fun x => x) = c := by
  cases c <;> simp [Constraint.rename, Pt.rename, Seg.rename, Circ.rename, ArcD.rename]

/-- The empty group is a left unit of the two-group union. -/
theorem union2_nil_left (b : ReqGroup) : union2 ([], 0, []) b = b := by
  obtain ⟨reqs, n, g⟩ := b
  simp [union2, Constraint.rename_id]

/-- The two-group union is associative. -/
theorem union2_assoc (a b c : ReqGroup) : union2 (union2 a b) c = union2 a (union2 b c) := by
  obtain ⟨r1, n1, g1⟩ := a
  obtain ⟨r2, n2, g2⟩ := b
  obtain ⟨r3, n3, g3⟩ := c
  simp only [union2, List.map_append, List.map_map, List.append_assoc, Prod.mk.injEq]
  refine ⟨?_, by omega, ?_⟩
  · congr 2
    apply List.map_congr_left
    intro r _
    simp only [Function.comp, Constraint.rename_rename]
    congr 2
    funext i
    omega
  · congr 2
    apply List.map_congr_left
    intro lv _
    simp only [Function.comp, Prod.mk.injEq, and_true]
    omega

/-- **The union of a concatenated list of groups** is the two-group union of the unions of the two
parts: wherever the list is cut, the groups after the cut appear with their ids shifted by the total
number of variables of the groups before it. -/
theorem unionMany_append (as bs : List ReqGroup) :
    unionMany (as ++ bs) = union2 (unionMany as) (unionMany bs) := by
  induction as with
  | nil => simp [unionMany, union2_nil_left]
  | cons a rest ih => simp only [List.cons_append, unionMany, ih, union2_assoc]

/-- The union's number of variables is the sum of the groups' numbers of variables. -/
theorem unionMany_n (gs : List ReqGroup) : (unionMany gs).2.1 = (gs.map (fun g => g.2.1)).sum := by
  induction gs with
  | nil => rfl
  | cons a rest ih => simp [unionMany, union2, ih]

/-- The union's number of requests is the sum of the groups' numbers of requests. -/
theorem unionMany_reqs_length (gs : List ReqGroup) :
    (unionMany gs).1.length = (gs.map (fun g => g.1.length)).sum := by
  induction gs with
  | nil => rfl
  | cons a rest ih => simp [unionMany, union2, ih]

/-- **Where a group sits in the union**: for the group `grp` standing after the groups `pre` and
before the groups `post`, the union's request list is the union of `pre`, then `grp`'s requests with
ids shifted by the number of variables of `pre`, then the union of `post` shifted by the number of
variables of `pre` and `grp`; the guess list likewise. -/
theorem unionMany_split (pre post : List ReqGroup) (grp : ReqGroup) :
    (unionMany (pre ++ grp :: post)).1 = (unionMany pre).1 ++
      (grp.1.map (fun r => (r.1.rename (· + (pre.map (fun g => g.2.1)).sum), r.2)) ++
       (unionMany post).1.map (fun r =>
        (r.1.rename (· + ((pre.map (fun g => g.2.1)).sum + grp.2.1)), r.2))) ∧
    (unionMany (pre ++ grp :: post)).2.2 = (unionMany pre).2.2 ++
      (grp.2.2.map (fun lv => (lv.1 + (pre.map (fun g => g.2.1)).sum, lv.2)) ++
       (unionMany post).2.2.map (fun lv =>
        (lv.1 + ((pre.map (fun g => g.2.1)).sum + grp.2.1), lv.2))) := by
  rw [unionMany_append, ← unionMany_n]
  have : unionMany (grp :: post) = union2 grp (unionMany post) := rfl
  rw [this, ← union2_assoc]
  constructor
  · simp only [union2, List.append_assoc]
  · simp only [union2, List.append_assoc]

/-! ### The theorem for any number of groups -/

/-- A group together with the solver it is solved with on its own and the outcome of that solve. -/
structure GroupRun where
  /-- the group's requests -/
  reqs : List (Constraint ℝ × Nat)
  /-- the group's number of variables -/
  n : Nat
  /-- the group's guesses -/
  g : List (Nat × ℝ)
  /-- the LU oracle used when the group is solved alone -/
  solve : LinSolve ℝ
  /-- the outcome of solving the group alone -/
  o : Outcome ℝ

/-- The group of a run. -/
def GroupRun.grp (G : GroupRun) : ReqGroup := (G.reqs, G.n, G.g)

/-- The hypotheses on one group: non-empty, all requests of priority `P`, ids in range, one guess
per variable, the solve alone succeeds with outcome `o`, its Newton run returns at the residual
test, after `it` iterations, and the group's solver is exact with damping `lam`. -/
structure GroupRun.Ok (P : Nat) (cfg : Config ℝ) (lam : Nat → ℝ) (it : Nat) (G : GroupRun) :
    Prop where
  /-- the group has a request -/
  ne : G.reqs ≠ []
  /-- every request has priority `P` -/
  prio : ∀ r ∈ G.reqs, r.2 = P
  /-- every declared id is one of the group's variables -/
  decl : ∀ r ∈ G.reqs, ∀ i ∈ r.1.nonzeroes.all, i < G.n
  /-- one guess per variable -/
  guess : G.g.length = G.n
  /-- the group solves alone -/
  solved : solveWithPriority G.reqs G.g cfg G.solve none = .ok G.o
  /-- the Newton run of the group returns at the residual test -/
  flag : ∀ r, newton (enumerate G.reqs) cfg (G.solve 0) (G.g.map (·.2)) = .ok r →
    r.byResidual = true
  /-- the common iteration count -/
  iters : G.o.iterations = it
  /-- the group's solver is exact -/
  exact : ExactSolve (G.solve 0) (numRows (enumerate G.reqs)) G.n lam

/-- The unsatisfied list of the union: every group's list moved up by the number of requests of the
groups before it. -/
def unsatMany : List GroupRun → List Nat
  | [] => []
  | G :: rest => G.o.unsatisfied ++ (unsatMany rest).map (· + G.reqs.length)

/-- The union of the groups of a list of runs. -/
def unionRuns (Gs : List GroupRun) : ReqGroup := unionMany (Gs.map GroupRun.grp)

/-- **C17 at the entry point for any number of groups** (`solveWithPriority_unionMany_converged`).
`k ≥ 1` groups, each non-empty, all requests of priority `P`, ids in range, one guess per variable;
each group solved alone (with its own solver, exact with damping `lam > 0`) succeeds, its Newton
run returns at the residual test, and all groups report the same iteration count `it`.  The union's
solver is exact with the same damping for the union's dimensions and answers on in-range data.
Then `solve` on the union (`unionMany`: requests concatenated, group `i`'s ids shifted by the
number of variables of the groups before it, guesses likewise) succeeds with: final values the
concatenation of the groups' final values, iteration count `it`, unsatisfied list the groups' lists
moved up by the number of requests before them (`unsatMany`), solved priority `P`; and the union's
Newton run returns at the residual test. -/
theorem solveWithPriority_unionMany_converged (P : Nat) (cfg : Config ℝ) (lam : Nat → ℝ)
    (hlam : ∀ k, 0 < lam k) (it : Nat) :
    ∀ (Gs : List GroupRun), Gs ≠ [] → (∀ G ∈ Gs, G.Ok P cfg lam it) →
    ∀ solveU : LinSolve ℝ,
      ExactSolve (solveU 0) (numRows (enumerate (unionRuns Gs).1)) (unionRuns Gs).2.1 lam →
      (∀ k jac r, r.length = numRows (enumerate (unionRuns Gs).1) →
        (∀ t ∈ jac, t.1 < numRows (enumerate (unionRuns Gs).1) ∧ t.2.1 < (unionRuns Gs).2.1) →
        ∃ d, solveU 0 k jac r = .ok d) →
      ∃ oU, solveWithPriority (unionRuns Gs).1 (unionRuns Gs).2.2 cfg solveU none = .ok oU ∧
        oU.finalValues = (Gs.map (fun G => G.o.finalValues)).flatten ∧ oU.iterations = it ∧
        oU.unsatisfied = unsatMany Gs ∧ oU.prioritySolved = P ∧
        ∀ r, newton (enumerate (unionRuns Gs).1) cfg (solveU 0) ((unionRuns Gs).2.2.map (·.2)) =
          .ok r → r.byResidual = true := by
  intro Gs
  induction Gs with
  | nil => intro h; exact absurd rfl h
  | cons G rest ih =>
    intro _ hok solveU hU htot
    have hG := hok G (by simp)
    cases hrest : rest with
    | nil =>
      subst hrest
      have hu : unionRuns [G] = (G.reqs, G.n, G.g) := by
        simp [unionRuns, unionMany_singleton, GroupRun.grp]
      rw [hu] at hU htot ⊢
      simp only at hU htot ⊢
      have hA := solveAgree_of_exact (G.solve 0) (solveU 0) _ _ lam hlam hG.exact hU htot
      have hdecl := declared_enumerate G.reqs G.n hG.decl
      have hs := hG.solved
      rw [solveWithPriority_single_level G.reqs G.g cfg G.solve none P hG.ne hG.prio] at hs
      simp only [Option.map_none] at hs
      have hsU := solveInner_solveAgree (enumerate G.reqs) cfg (G.solve 0) (solveU 0) G.n hdecl hA
        G.g hG.guess G.o hs
      obtain ⟨nr, hn, _, _, _, _, hp, _⟩ := solveInner_ok _ _ _ _ _ _ hs
      have hnU := newtonLoop_solveAgree (enumerate G.reqs) cfg (G.solve 0) (solveU 0) G.n hdecl hA
        _ _ _ _ nr (by simpa using hG.guess) hn
      refine ⟨G.o, ?_, by simp, hG.iters, by simp [unsatMany], ?_, ?_⟩
      · rw [solveWithPriority_single_level G.reqs G.g cfg solveU none P hG.ne hG.prio]
        simpa using hsU
      · have hf : ∃ r ∈ G.reqs, r.2 = P := by
          cases hq : G.reqs with
          | nil => exact absurd hq hG.ne
          | cons r rs => exact ⟨r, by simp, hG.prio r (by simp [hq])⟩
        have m1 := maxPriority_filter (enumerate G.reqs) P ((enumerate_priorities G.reqs P).mpr hf)
        rw [filter_single_level G.reqs P P hG.prio hf] at m1
        rw [hp, m1]
      · intro r hr
        have : newton (enumerate G.reqs) cfg (solveU 0) (G.g.map (·.2)) = .ok nr := hnU
        rw [this] at hr
        injection hr with hr
        rw [← hr]
        exact hG.flag nr hn
    | cons G2 rest' =>
      rw [← hrest]
      have hne : rest ≠ [] := by rw [hrest]; simp
      have hokR : ∀ G' ∈ rest, G'.Ok P cfg lam it := fun G' hG' => hok G' (by simp [hG'])
      -- facts about the union of the rest
      have hgsP : ∀ grp ∈ rest.map GroupRun.grp, ∀ r ∈ grp.1, r.2 = P := by
        intro grp hgrp
        obtain ⟨G', hG', rfl⟩ := List.mem_map.mp hgrp
        exact (hokR G' hG').prio
      have hgsD : ∀ grp ∈ rest.map GroupRun.grp, ∀ r ∈ grp.1, ∀ i ∈ r.1.nonzeroes.all,
          i < grp.2.1 := by
        intro grp hgrp
        obtain ⟨G', hG', rfl⟩ := List.mem_map.mp hgrp
        exact (hokR G' hG').decl
      have hgsL : ∀ grp ∈ rest.map GroupRun.grp, grp.2.2.length = grp.2.1 := by
        intro grp hgrp
        obtain ⟨G', hG', rfl⟩ := List.mem_map.mp hgrp
        exact (hokR G' hG').guess
      have hPR := unionMany_priority P _ hgsP
      have hDR := unionMany_declared _ hgsD
      have hLR := unionMany_guess_length _ hgsL
      have hNR : (unionRuns rest).1 ≠ [] := by
        rw [hrest]
        exact unionMany_ne_nil _ _ (hokR G2 (by simp [hrest])).ne
      -- an exact solver for the union of the rest
      obtain ⟨sR, hsR, htR⟩ := exists_exactSolve (numRows (enumerate (unionRuns rest).1))
        (unionRuns rest).2.1 lam hlam
      obtain ⟨oR, hoR, hfR, hiR, huR, _, hbR⟩ := ih hne hokR (fun _ => sR) hsR
        (fun k jac r _ _ => htR k jac r)
      -- the union as a two-group union
      have hu : unionRuns (G :: rest) = union2 (G.reqs, G.n, G.g) (unionRuns rest) := rfl
      rw [hu] at hU htot ⊢
      simp only [union2] at hU htot ⊢
      rw [numRows_enumerate_union] at hU htot
      have hB := blockSolve_of_exact (solveU 0) (G.solve 0) sR _ _ _ _ lam hlam hU hG.exact hsR htot
      obtain ⟨oU, hoU, hfU, hiU, huU, hpU⟩ := solveWithPriority_union_converged G.reqs
        (unionRuns rest).1 P G.n (unionRuns rest).2.1 hG.ne hNR hG.prio hPR hG.decl hDR cfg solveU
        G.solve (fun _ => sR) hB G.g (unionRuns rest).2.2 hG.guess hLR G.o oR hG.solved hoR hG.flag
        hbR (by rw [hG.iters, hiR])
      refine ⟨oU, hoU, ?_, by rw [hiU, hG.iters], ?_, hpU, ?_⟩
      · rw [hfU, hfR]; simp
      · rw [huU, huR]; rfl
      · exact solveWithPriority_union_flag G.reqs (unionRuns rest).1 P G.n (unionRuns rest).2.1
          hG.ne hNR hG.prio hPR hG.decl hDR cfg solveU G.solve (fun _ => sR) hB G.g
          (unionRuns rest).2.2 hG.guess hLR G.o oR hG.solved hoR hG.flag hbR
          (by rw [hG.iters, hiR])

/-! ### Where each group's results sit in the union's results -/

/-- **Where a group's unsatisfied ids sit in the union's list**: for the run `G` standing after the
runs `pre` and before the runs `post`, the union's unsatisfied list is that of `pre`, then `G`'s
moved up by the number of requests of `pre`, then that of `post` moved up by the number of requests
of `pre` and `G`. -/
theorem unsatMany_split (pre post : List GroupRun) (G : GroupRun) :
    unsatMany (pre ++ G :: post) = unsatMany pre ++
      (G.o.unsatisfied.map (· + (pre.map (fun G' => G'.reqs.length)).sum) ++
       (unsatMany post).map (· + ((pre.map (fun G' => G'.reqs.length)).sum + G.reqs.length))) := by
  induction pre with
  | nil => simp [unsatMany]
  | cons A rest ih =>
    simp only [List.cons_append, unsatMany, ih, List.map_append, List.map_map, List.map_cons,
      List.sum_cons, List.append_assoc]
    congr 2
    · congr 1
      · apply List.map_congr_left; intro i _; simp only [Function.comp]; omega
      · apply List.map_congr_left; intro i _; simp only [Function.comp]; omega

/-- A group solved alone returns one final value per variable. -/
theorem GroupRun.Ok.values_length {P : Nat} {cfg : Config ℝ} {lam : Nat → ℝ} {it : Nat}
    {G : GroupRun} (h : G.Ok P cfg lam it) : G.o.finalValues.length = G.n := by
  have hs := h.solved
  rw [solveWithPriority_single_level G.reqs G.g cfg G.solve none P h.ne h.prio] at hs
  obtain ⟨nr, hn, _, hf, _⟩ := solveInner_ok _ _ _ _ _ _ hs
  rw [hf, newtonLoop_length _ cfg _ _ _ _ _ nr hn]
  simpa using h.guess

/-- The concatenated final values have one entry per variable of the groups. -/
theorem flatten_values_length {P : Nat} {cfg : Config ℝ} {lam : Nat → ℝ} {it : Nat} :
    ∀ Gs : List GroupRun, (∀ G ∈ Gs, G.Ok P cfg lam it) →
      (Gs.map (fun G => G.o.finalValues)).flatten.length = (Gs.map (fun G => G.n)).sum := by
  intro Gs
  induction Gs with
  | nil => intro _; rfl
  | cons G rest ih =>
    intro h
    simp only [List.map_cons, List.flatten_cons, List.length_append, List.sum_cons]
    rw [(h G (by simp)).values_length, ih (fun G' hG' => h G' (by simp [hG']))]

/-- **Where a group's values sit in the concatenation**: for the run `G` standing after the runs
`pre`, value `j` of `G` is entry `(number of variables of pre) + j` of the concatenated final values.
-/
theorem flatten_values_group {P : Nat} {cfg : Config ℝ} {lam : Nat → ℝ} {it : Nat}
    (pre post : List GroupRun) (G : GroupRun) (h : ∀ G' ∈ pre ++ G :: post, G'.Ok P cfg lam it)
    (j : Nat) (hj : j < G.n) :
    ((pre ++ G :: post).map (fun G => G.o.finalValues)).flatten[(pre.map (fun G => G.n)).sum + j]? =
      G.o.finalValues[j]? := by
  have hpre := flatten_values_length (P := P) (cfg := cfg) (lam := lam) (it := it) pre
    (fun G' hG' => h G' (by simp [hG']))
  have hG := (h G (by simp)).values_length
  simp only [List.map_append, List.map_cons, List.flatten_append, List.flatten_cons]
  rw [List.getElem?_append_right (by omega), hpre, Nat.add_sub_cancel_left,
    List.getElem?_append_left (by omega)]

/-- The number of variables of the union of runs. -/
theorem unionRuns_n (Gs : List GroupRun) : (unionRuns Gs).2.1 = (Gs.map (fun G => G.n)).sum := by
  rw [unionRuns, unionMany_n, List.map_map]
  rfl

/-- **Each group's values at the renumbered ids**: if `vals` is the concatenation of the groups'
final values reordered by `π`, then for the run `G` standing after the runs `pre`, value `j` of `G`
is found at id `π ((number of variables of pre) + j)`. -/
theorem reordered_values_group {P : Nat} {cfg : Config ℝ} {lam : Nat → ℝ} {it : Nat}
    (pre post : List GroupRun) (G : GroupRun) (h : ∀ G' ∈ pre ++ G :: post, G'.Ok P cfg lam it)
    (π : Nat → Nat) (vals : List ℝ)
    (hr : Reordered π (unionRuns (pre ++ G :: post)).2.1
      ((pre ++ G :: post).map (fun G => G.o.finalValues)).flatten vals)
    (j : Nat) (hj : j < G.n) :
    vals[π ((pre.map (fun G => G.n)).sum + j)]? = G.o.finalValues[j]? := by
  rw [hr.2.2 _ (by rw [unionRuns_n]; simp; omega), flatten_values_group pre post G h j hj]

/-- **Which ids the union reports unsatisfied**: exactly the ids `u0 + (number of requests of the
groups before G)` for a group `G` of the list and an id `u0` that `G` alone reports unsatisfied. -/
theorem mem_unsatMany (u : Nat) : ∀ Gs : List GroupRun, u ∈ unsatMany Gs ↔
    ∃ pre G post, Gs = pre ++ G :: post ∧ ∃ u0 ∈ G.o.unsatisfied,
      u = u0 + (pre.map (fun G' => G'.reqs.length)).sum := by
  intro Gs
  induction Gs generalizing u with
  | nil => simp [unsatMany]
  | cons A rest ih =>
    simp only [unsatMany, List.mem_append, List.mem_map]
    constructor
    · rintro (hu | ⟨u', hu', rfl⟩)
      · exact ⟨[], A, rest, rfl, u, hu, by simp⟩
      · obtain ⟨pre, G, post, rfl, u0, hu0, rfl⟩ := (ih u').mp hu'
        exact ⟨A :: pre, G, post, rfl, u0, hu0, by simp; omega⟩
    · rintro ⟨pre, G, post, hsplit, u0, hu0, rfl⟩
      cases pre with
      | nil =>
        simp only [List.nil_append, List.cons.injEq] at hsplit
        obtain ⟨rfl, rfl⟩ := hsplit
        left; simpa using hu0
      | cons A' pre' =>
        simp only [List.cons_append, List.cons.injEq] at hsplit
        obtain ⟨rfl, rfl⟩ := hsplit
        right
        exact ⟨u0 + (pre'.map (fun G' => G'.reqs.length)).sum,
          (ih _).mpr ⟨pre', G, post, rfl, u0, hu0, rfl⟩, by simp; omega⟩

/-! ### Any interleaving of the requests, any numbering of the variables -/

/-- On a single priority level only the oracle of call 0 is consulted. -/
theorem solveWithPriority_single_level_const (reqs : List (Constraint ℝ × Nat)) (g : List (Nat × ℝ))
    (cfg : Config ℝ) (solve : LinSolve ℝ) (P : Nat) (hne : reqs ≠ [])
    (hall : ∀ r ∈ reqs, r.2 = P) :
    solveWithPriority reqs g cfg (fun _ => solve 0) none = solveWithPriority reqs g cfg solve none := by
  rw [solveWithPriority_single_level reqs g cfg solve none P hne hall,
    solveWithPriority_single_level reqs g cfg (fun _ => solve 0) none P hne hall]

/-- **One level, any listing order and any numbering**: a successful single-level solve stays
successful when the request list is reordered by a bijection `σ` of the positions and the variables
are renumbered by a bijection `π` (guess values reordered to match), under the row-permutation and
column-permutation hypotheses on the first LU oracles.  The new run has the final values reordered
by `π`, the same iteration count and solved priority, and an unsatisfied list that is, up to order,
the original one mapped through `σ`. -/
theorem solveWithPriority_reorder_renumber (reqs reqs' : List (Constraint ℝ × Nat)) (P : Nat)
    (hne : reqs ≠ []) (hP : ∀ r ∈ reqs, r.2 = P) (n : Nat)
    (hd : ∀ r ∈ reqs, ∀ i ∈ r.1.nonzeroes.all, i < n)
    (σ : Nat → Nat) (N : Nat) (hσ : PermOn N σ) (hre : Reordered σ N reqs reqs')
    (π : Nat → Nat) (hπ : PermOn n π) (g g' : List (Nat × ℝ))
    (hval : Reordered π n (g.map (·.2)) (g'.map (·.2)))
    (hlab : ∀ v, v < n → (g'.map (·.1)).contains (π v) = (g.map (·.1)).contains v)
    (cfg : Config ℝ) (solve solveP solveF : LinSolve ℝ)
    (hR : RowPermSolve (solve 0) (solveP 0) (numRows (enumerate reqs)))
    (hC : ColPermSolve (solveP 0) (solveF 0) π n)
    (a : Outcome ℝ) (ha : solveWithPriority reqs g cfg solve none = .ok a) :
    ∃ b, solveWithPriority (reqs'.map (fun r => (r.1.rename π, r.2))) g' cfg solveF none = .ok b ∧
      Reordered π n a.finalValues b.finalValues ∧ b.iterations = a.iterations ∧
      b.prioritySolved = a.prioritySolved ∧ b.unsatisfied.Perm (a.unsatisfied.map σ) := by
  have hf : ∃ r ∈ reqs, r.2 = P := by
    cases hq : reqs with
    | nil => exact absurd hq hne
    | cons r rs => exact ⟨r, by simp, hP r (by simp [hq])⟩
  have hS : ∀ i p, (levels (enumerate reqs))[i]? = some p → RowPermSolve (solve i) (solveP i)
      (numRows ((enumerate reqs).filter (fun e => e.priority ≤ p))) := by
    intro i p hp
    rw [levels_single reqs P hne hP] at hp
    cases i with
    | zero =>
      simp only [List.getElem?_cons_zero, Option.some.injEq] at hp
      subst hp
      rw [filter_single_level reqs P P hP hf]
      exact hR
    | succ i => simp at hp
  obtain ⟨b1, hb1, hv1, hi1, hp1, _, hu1, _, _⟩ :=
    solveWithPriority_perm_ok reqs reqs' σ N hσ hre g cfg solve solveP hS a ha
  have hperm := reorder_perm σ N hσ reqs reqs' hre
  have hne' : reqs' ≠ [] := by
    intro h
    rw [h] at hperm
    exact hne (List.Perm.nil_eq hperm).symm
  have hP' : ∀ r ∈ reqs', r.2 = P := fun r hr => hP r (hperm.mem_iff.mp hr)
  have hd' : ∀ r ∈ reqs', ∀ i ∈ r.1.nonzeroes.all, i < n := fun r hr => hd r (hperm.mem_iff.mp hr)
  have hneF : reqs'.map (fun r => (r.1.rename π, r.2)) ≠ [] := by simpa using hne'
  have hPF : ∀ r ∈ reqs'.map (fun r => (r.1.rename π, r.2)), r.2 = P := by
    intro r hr
    obtain ⟨r0, hr0, rfl⟩ := List.mem_map.mp hr
    exact hP' r0 hr0
  have key := solveWithPriority_renumber π n hπ reqs' hd' cfg (fun _ => solveP 0)
    (fun _ => solveF 0) (fun _ => hC) g g' hval hlab
  rw [solveWithPriority_single_level_const reqs' g cfg solveP P hne' hP', hb1,
    solveWithPriority_single_level_const _ g' cfg solveF P hneF hPF] at key
  cases hb : solveWithPriority (reqs'.map (fun r => (r.1.rename π, r.2))) g' cfg solveF none with
  | error fb => rw [hb] at key; exact key.elim
  | ok b =>
    rw [hb] at key
    obtain ⟨k1, k2, k3, k4, _, _⟩ := id key
    refine ⟨b, rfl, ?_, by rw [k3, hi1], by rw [k4, hp1], ?_⟩
    · rw [← hv1]; exact k1
    · rw [k2]; exact hu1

/-- **C17 for any number of groups, any interleaving of the requests and any numbering of the
variables** (`solveWithPriority_unionMany_any_order`).  Under the hypotheses of
`solveWithPriority_unionMany_converged`: let `reqs'` be the union's request list reordered by any
bijection `σ` of its positions, let `π` be any bijection of the union's variables, the requests
renamed by `π` and the guess list `g'` reordered to match; let the LU oracles satisfy the
row-permutation hypothesis (union vs reordered list) and the column-permutation hypothesis
(reordered vs renumbered).  Then the solve succeeds; its final values are the concatenation of the
groups' final values reordered by `π` (`b.finalValues[π i] = concatenation[i]`), the iteration count
is `it`, the solved priority `P`, and the unsatisfied list is, up to order, the groups' lists moved
up by the number of requests before them and mapped through `σ`. -/
theorem solveWithPriority_unionMany_any_order (P : Nat) (cfg : Config ℝ) (lam : Nat → ℝ)
    (hlam : ∀ k, 0 < lam k) (it : Nat) (Gs : List GroupRun) (hne : Gs ≠ [])
    (hok : ∀ G ∈ Gs, G.Ok P cfg lam it) (solveU : LinSolve ℝ)
    (hU : ExactSolve (solveU 0) (numRows (enumerate (unionRuns Gs).1)) (unionRuns Gs).2.1 lam)
    (htot : ∀ k jac r, r.length = numRows (enumerate (unionRuns Gs).1) →
      (∀ t ∈ jac, t.1 < numRows (enumerate (unionRuns Gs).1) ∧ t.2.1 < (unionRuns Gs).2.1) →
      ∃ d, solveU 0 k jac r = .ok d)
    (reqs' : List (Constraint ℝ × Nat)) (σ : Nat → Nat)
    (hσ : PermOn (unionRuns Gs).1.length σ)
    (hre : Reordered σ (unionRuns Gs).1.length (unionRuns Gs).1 reqs')
    (π : Nat → Nat) (hπ : PermOn (unionRuns Gs).2.1 π) (g' : List (Nat × ℝ))
    (hval : Reordered π (unionRuns Gs).2.1 ((unionRuns Gs).2.2.map (·.2)) (g'.map (·.2)))
    (hlab : ∀ v, v < (unionRuns Gs).2.1 →
      (g'.map (·.1)).contains (π v) = ((unionRuns Gs).2.2.map (·.1)).contains v)
    (solveP solveF : LinSolve ℝ)
    (hR : RowPermSolve (solveU 0) (solveP 0) (numRows (enumerate (unionRuns Gs).1)))
    (hC : ColPermSolve (solveP 0) (solveF 0) π (unionRuns Gs).2.1) :
    ∃ b, solveWithPriority (reqs'.map (fun r => (r.1.rename π, r.2))) g' cfg solveF none = .ok b ∧
      Reordered π (unionRuns Gs).2.1 (Gs.map (fun G => G.o.finalValues)).flatten b.finalValues ∧
      b.iterations = it ∧ b.prioritySolved = P ∧ b.unsatisfied.Perm ((unsatMany Gs).map σ) := by
  obtain ⟨oU, hoU, hfU, hiU, huU, hpU, _⟩ := solveWithPriority_unionMany_converged P cfg lam hlam
    it Gs hne hok solveU hU htot
  have hgsP : ∀ grp ∈ Gs.map GroupRun.grp, ∀ r ∈ grp.1, r.2 = P := by
    intro grp hgrp
    obtain ⟨G', hG', rfl⟩ := List.mem_map.mp hgrp
    exact (hok G' hG').prio
  have hgsD : ∀ grp ∈ Gs.map GroupRun.grp, ∀ r ∈ grp.1, ∀ i ∈ r.1.nonzeroes.all,
      i < grp.2.1 := by
    intro grp hgrp
    obtain ⟨G', hG', rfl⟩ := List.mem_map.mp hgrp
    exact (hok G' hG').decl
  have hNU : (unionRuns Gs).1 ≠ [] := by
    cases hq : Gs with
    | nil => exact absurd hq hne
    | cons G rest => exact unionMany_ne_nil _ _ (hok G (by simp [hq])).ne
  obtain ⟨b, hb, h1, h2, h3, h4⟩ := solveWithPriority_reorder_renumber (unionRuns Gs).1 reqs' P hNU
    (unionMany_priority P _ hgsP) (unionRuns Gs).2.1 (unionMany_declared _ hgsD) σ _ hσ hre π hπ
    (unionRuns Gs).2.2 g' hval hlab cfg solveU solveP solveF hR hC oU hoU
  exact ⟨b, hb, by rw [← hfU]; exact h1, by rw [h2, hiU], by rw [h3, hpU], by rw [← huU]; exact h4⟩

/-- The same with exact solvers throughout: the three LU oracles (for the union as built, for the
reordered list, for the reordered and renumbered list) are exact for the union's dimensions with
the same positive damping and always answer; then the permutation hypotheses hold and the
conclusion of `solveWithPriority_unionMany_any_order` follows. -/
theorem solveWithPriority_unionMany_any_order_exact (P : Nat) (cfg : Config ℝ) (lam : Nat → ℝ)
    (hlam : ∀ k, 0 < lam k) (it : Nat) (Gs : List GroupRun) (hne : Gs ≠ [])
    (hok : ∀ G ∈ Gs, G.Ok P cfg lam it) (solveU solveP solveF : LinSolve ℝ)
    (hU : ExactSolve (solveU 0) (numRows (enumerate (unionRuns Gs).1)) (unionRuns Gs).2.1 lam)
    (hPx : ExactSolve (solveP 0) (numRows (enumerate (unionRuns Gs).1)) (unionRuns Gs).2.1 lam)
    (hF : ExactSolve (solveF 0) (numRows (enumerate (unionRuns Gs).1)) (unionRuns Gs).2.1 lam)
    (htU : ∀ k jac r, ∃ d, solveU 0 k jac r = .ok d)
    (htP : ∀ k jac r, ∃ d, solveP 0 k jac r = .ok d)
    (htF : ∀ k jac r, ∃ d, solveF 0 k jac r = .ok d)
    (reqs' : List (Constraint ℝ × Nat)) (σ : Nat → Nat)
    (hσ : PermOn (unionRuns Gs).1.length σ)
    (hre : Reordered σ (unionRuns Gs).1.length (unionRuns Gs).1 reqs')
    (π : Nat → Nat) (hπ : PermOn (unionRuns Gs).2.1 π) (g' : List (Nat × ℝ))
    (hval : Reordered π (unionRuns Gs).2.1 ((unionRuns Gs).2.2.map (·.2)) (g'.map (·.2)))
    (hlab : ∀ v, v < (unionRuns Gs).2.1 →
      (g'.map (·.1)).contains (π v) = ((unionRuns Gs).2.2.map (·.1)).contains v) :
    ∃ b, solveWithPriority (reqs'.map (fun r => (r.1.rename π, r.2))) g' cfg solveF none = .ok b ∧
      Reordered π (unionRuns Gs).2.1 (Gs.map (fun G => G.o.finalValues)).flatten b.finalValues ∧
      b.iterations = it ∧ b.prioritySolved = P ∧ b.unsatisfied.Perm ((unsatMany Gs).map σ) :=
  solveWithPriority_unionMany_any_order P cfg lam hlam it Gs hne hok solveU hU
    (fun k jac r _ _ => htU k jac r) reqs' σ hσ hre π hπ g' hval hlab solveP solveF
    (rowPermSolve_of_exact (solveU 0) (solveP 0) _ _ lam hlam hU hPx
      (fun k jac r _ _ => htU k jac r) (fun k jac r _ _ => htP k jac r))
    (colPermSolve_of_exact (solveP 0) (solveF 0) _ _ π hπ lam hlam hPx hF htP htF)

/-! ### Non-vacuity: three groups, exact damped solvers, guesses away from the solution -/

/-- The residual, Jacobian and largest residual of the one-request group "variable 0 fixed to `v`" at
the value `x0`. -/
theorem dampedFixed_eval (v x0 : ℝ) (id : Nat) :
    residualAll [(⟨.fixed 0 v, id, 0⟩ : Entry ℝ)] (lookup [x0]) = .ok ([x0 - v], []) ∧
    jacobianAll [(⟨.fixed 0 v, id, 0⟩ : Entry ℝ)] (lookup [x0]) = .ok ([(0, 0, 1.0)], []) ∧
    maxAbs? [x0 - v] = some |x0 - v| := by
  refine ⟨?_, ?_, ?_⟩
  · simp [residualAll, Constraint.residual, Constraint.residualV,
      Constraint.residualReads, lookup, takeRows, Constraint.residualDim, Res.mk1]
  · simp [jacobianAll, jacobianFrom, pattern, patternFrom,
      Constraint.jacobianRows, Constraint.jacobianV,
      Constraint.jacobianReads, lookup, takeRows, Constraint.residualDim, Constraint.nonzeroes]
  · simp [maxAbs?]

open Matrix in
/-- What an exact solver with damping `lam` answers on the `1 × 1` system with matrix `1` and residual
`ρ`: the step `-ρ / (1 + lam k)`. -/
theorem exactSolve_one_by_one (s : Nat → List (Triplet ℝ) → List ℝ → Except SolveError (List ℝ)) (lam : Nat → ℝ)
    (hlam : ∀ k, 0 < lam k) (hs : ExactSolve s 1 1 lam) (k : Nat) (ρ : ℝ) (d : List ℝ)
    (h : s k [(0, 0, 1.0)] [ρ] = .ok d) : d = [-ρ / (1 + lam k)] := by
  obtain ⟨hl, hst⟩ := hs k _ _ d h
  match d, hl with
  | [d0], _ =>
    have := congrFun hst 0
    simp [GN.IsStep, matOf, vecOf, Matrix.mulVec, dotProduct, Matrix.add_apply, Matrix.mul_apply] at this
    have h1 : (1 + lam k) ≠ 0 := by have := hlam k; positivity
    congr 1
    field_simp
    linarith

/-- At a value within `1e-5` of `v` the group "variable 0 fixed to `v`" returns at the residual test
(whatever the solver). -/
theorem dampedFixed_done (v x1 : ℝ) (id k : Nat) (h : |x1 - v| ≤ 1e-5)
    (s : Nat → List (Triplet ℝ) → List ℝ → Except SolveError (List ℝ)) :
    newtonStep [(⟨.fixed 0 v, id, 0⟩ : Entry ℝ)] ⟨30, 1e-5, 1e-5⟩ s k [x1] [] =
      .done ⟨[x1], k, [], [(0, 0, 1.0)], true⟩ := by
  obtain ⟨hr, hj, hm⟩ := dampedFixed_eval v x1 id
  rw [newtonStep_eval _ _ s k [x1] [] _ _ _ _ _ hr hj hm, if_pos h]
  rfl

/-- From the guess 0, with an exact solver of damping `1e-6`, the group "variable 0 fixed to `v`"
(`v ≥ 1`) continues to `v / (1 + 1e-6)`. -/
theorem dampedFixed_next (v : ℝ) (hv : 1 ≤ v) (id : Nat)
    (s : Nat → List (Triplet ℝ) → List ℝ → Except SolveError (List ℝ))
    (hs : ExactSolve s 1 1 (fun _ => 1e-6)) (htot : ∀ k jac r, ∃ d, s k jac r = .ok d) :
    newtonStep [(⟨.fixed 0 v, id, 0⟩ : Entry ℝ)] ⟨30, 1e-5, 1e-5⟩ s 0 [0] [] =
      .next [v / (1 + 1e-6)] [] := by
  obtain ⟨hr, hj, hm⟩ := dampedFixed_eval v 0 id
  obtain ⟨d, hd⟩ := htot 0 [(0, 0, 1.0)] [0 - v]
  have hd' := exactSolve_one_by_one s (fun _ => 1e-6) (fun _ => by norm_num) hs 0 (0 - v) d hd
  subst hd'
  have e : -(0 - v) / (1 + 1e-6) = v / (1 + 1e-6) := by ring
  rw [e] at hd
  have hpos : (0:ℝ) < v / (1 + 1e-6) := by positivity
  have hbig : (1:ℝ) / 2 ≤ v / (1 + 1e-6) := by
    rw [le_div_iff₀ (by norm_num)]; norm_num; linarith
  rw [newtonStep_eval _ _ s 0 [0] [] _ _ _ _ _ hr hj hm, if_neg (by
    simp only [zero_sub, abs_neg, abs_of_nonneg (by linarith : (0:ℝ) ≤ v)]; norm_num; linarith), hd]
  simp [applyStep, allFinite, stepInfNorm, stepThreshold, maxAbs0, maxAbs?, abs_of_pos hpos]
  rw [lit_0]
  norm_num
  linarith

/-- `v / (1 + 1e-6)` is within the residual tolerance `1e-5` of `v` for `1 ≤ v ≤ 9`. -/
theorem dampedFixed_close (v : ℝ) (hv : 1 ≤ v) (hv9 : v ≤ 9) : |v / (1 + 1e-6) - v| ≤ 1e-5 := by
  have e : v / (1 + 1e-6) - v = -(v * 1e-6 / (1 + 1e-6)) := by field_simp; ring
  rw [e, abs_neg, abs_of_nonneg (by positivity), div_le_iff₀ (by norm_num)]
  norm_num
  linarith

/-- The whole Newton run of that group: one continuing round, then a return at the residual test. -/
theorem dampedFixed_newton (v : ℝ) (hv : 1 ≤ v) (hv9 : v ≤ 9) (id : Nat)
    (s : Nat → List (Triplet ℝ) → List ℝ → Except SolveError (List ℝ))
    (hs : ExactSolve s 1 1 (fun _ => 1e-6)) (htot : ∀ k jac r, ∃ d, s k jac r = .ok d) :
    newton [(⟨.fixed 0 v, id, 0⟩ : Entry ℝ)] ⟨30, 1e-5, 1e-5⟩ s [0] =
      .ok ⟨[v / (1 + 1e-6)], 1, [], [(0, 0, 1.0)], true⟩ := by
  show newtonLoop _ _ _ (28 + 1 + 1) 0 [0] [] = _
  rw [newtonLoop, dampedFixed_next v hv id s hs htot]
  dsimp only
  rw [newtonLoop, dampedFixed_done v _ id _ (dampedFixed_close v hv hv9)]

/-- `solveInner` on that group: success after one iteration, nothing unsatisfied. -/
theorem dampedFixed_solveInner (v : ℝ) (hv : 1 ≤ v) (hv9 : v ≤ 9) (id : Nat)
    (s : Nat → List (Triplet ℝ) → List ℝ → Except SolveError (List ℝ))
    (hs : ExactSolve s 1 1 (fun _ => 1e-6)) (htot : ∀ k jac r, ∃ d, s k jac r = .ok d) :
    solveInner [(⟨.fixed 0 v, id, 0⟩ : Entry ℝ)] [(0, 0)] ⟨30, 1e-5, 1e-5⟩ s none =
      .ok ⟨[], [v / (1 + 1e-6)], 1, [], 0, none⟩ := by
  have hm : modelNew [(⟨.fixed 0 v, id, 0⟩ : Entry ℝ)] ([((0 : Nat), (0 : ℝ))].map (·.1)) = .ok () := by
    simp [modelNew, validateVariables, firstMissing, Constraint.nonzeroes, pattern, patternFrom,
      takeRows, Constraint.residualDim, List.zipIdx]
  have hn := dampedFixed_newton v hv hv9 id s hs htot
  have hc := dampedFixed_close v hv hv9
  have hs : unsatisfiedSweep [(⟨.fixed 0 v, id, 0⟩ : Entry ℝ)] (lookup [v / (1 + 1e-6)]) = .ok [] := by
    simp [unsatisfiedSweep, Constraint.residual, Constraint.residualV, Constraint.residualReads,
      lookup, Constraint.residualDim, Res.mk1, isSatisfied, EPS_real]
    have : (1e-5 : ℝ) < 1e-4 := by norm_num
    exact decide_eq_true (lt_of_le_of_lt hc this)
  simp only [solveInner, hm]
  simp only [List.map_cons, List.map_nil, hn, hs, runAnalysis]
  simp [lint, lintOne, maxPriority]

/-- The run of the one-request group "variable 0 fixed to `v`" from the guess 0 with an exact solver
`s` of damping `1e-6`. -/
noncomputable def fixedRun (v : ℝ) (s : Nat → List (Triplet ℝ) → List ℝ → Except SolveError (List ℝ)) :
    GroupRun :=
  ⟨[((.fixed 0 v : Constraint ℝ), 0)], 1, [(0, 0)], fun _ => s,
    ⟨[], [v / (1 + 1e-6)], 1, [], 0, none⟩⟩

/-- The group `fixedRun v s` satisfies all the per-group hypotheses of
`solveWithPriority_unionMany_converged` (priority 0, damping `1e-6`, one iteration). -/
theorem fixedRun_ok (v : ℝ) (hv : 1 ≤ v) (hv9 : v ≤ 9)
    (s : Nat → List (Triplet ℝ) → List ℝ → Except SolveError (List ℝ))
    (hs : ExactSolve s 1 1 (fun _ => 1e-6)) (htot : ∀ k jac r, ∃ d, s k jac r = .ok d) :
    (fixedRun v s).Ok 0 ⟨30, 1e-5, 1e-5⟩ (fun _ => 1e-6) 1 where
  ne := by simp [fixedRun]
  prio := by simp [fixedRun]
  decl := by
    intro r hr i hi
    simp only [fixedRun, List.mem_singleton] at hr
    subst hr
    simp [Constraint.nonzeroes, Rows.all] at hi
    simp [fixedRun]; omega
  guess := rfl
  solved := by
    show solveWithPriority [((.fixed 0 v : Constraint ℝ), 0)] [(0, 0)] _ _ none = _
    rw [solveWithPriority_single_level _ _ _ _ none 0 (by simp) (by simp)]
    exact dampedFixed_solveInner v hv hv9 0 s hs htot
  flag := by
    intro r hr
    have := dampedFixed_newton v hv hv9 0 s hs htot
    rw [show newton (enumerate (fixedRun v s).reqs) ⟨30, 1e-5, 1e-5⟩ ((fixedRun v s).solve 0)
      ((fixedRun v s).g.map (·.2)) = newton [(⟨.fixed 0 v, 0, 0⟩ : Entry ℝ)] ⟨30, 1e-5, 1e-5⟩
        s [0] from rfl, this] at hr
    injection hr with hr
    rw [← hr]
  iters := rfl
  exact := hs

/-- Non-vacuity of `solveWithPriority_unionMany_converged`: three one-request groups ("variable 0
fixed to 5 / 7 / 9"), each from the guess 0 (away from the solution) with an exact solver of
damping `1e-6`; each group alone takes one iteration and returns at the residual test.  All
hypotheses hold, and the theorem gives the result of the union
`fixed 0 5, fixed 1 7, fixed 2 9`. -/
example : ∃ (sU : Nat → List (Triplet ℝ) → List ℝ → Except SolveError (List ℝ)) (oU : Outcome ℝ),
    solveWithPriority [((.fixed 0 5 : Constraint ℝ), 0), (.fixed 1 7, 0), (.fixed 2 9, 0)]
      [(0, 0), (1, 0), (2, 0)] ⟨30, 1e-5, 1e-5⟩ (fun _ => sU) none = .ok oU ∧
    oU.finalValues = [5 / (1 + 1e-6), 7 / (1 + 1e-6), 9 / (1 + 1e-6)] ∧ oU.iterations = 1 ∧
    oU.unsatisfied = [] ∧ oU.prioritySolved = 0 := by
  obtain ⟨s, hs, ht⟩ := exists_exactSolve 1 1 (fun _ => (1e-6 : ℝ)) (fun _ => by norm_num)
  obtain ⟨sU, hsU, htU⟩ := exists_exactSolve 3 3 (fun _ => (1e-6 : ℝ)) (fun _ => by norm_num)
  obtain ⟨oU, hU, h1, h2, h3, h4, _⟩ := solveWithPriority_unionMany_converged 0 ⟨30, 1e-5, 1e-5⟩
    (fun _ => 1e-6) (fun _ => by norm_num) 1 [fixedRun 5 s, fixedRun 7 s, fixedRun 9 s] (by simp)
    (by
      intro G hG
      simp only [List.mem_cons, List.mem_nil_iff, or_false] at hG
      rcases hG with rfl | rfl | rfl
      · exact fixedRun_ok 5 (by norm_num) (by norm_num) s hs ht
      · exact fixedRun_ok 7 (by norm_num) (by norm_num) s hs ht
      · exact fixedRun_ok 9 (by norm_num) (by norm_num) s hs ht)
    (fun _ => sU) hsU (fun k jac r _ _ => htU k jac r)
  exact ⟨sU, oU, hU, h1, h2, h3, h4⟩

/-- Non-vacuity of `solveWithPriority_unionMany_any_order_exact`: the same three groups with the
union's requests listed in reverse order and the variables renumbered cyclically (`0→1→2→0`): the
values of the groups are found at the renumbered ids. -/
example : ∃ (sU : Nat → List (Triplet ℝ) → List ℝ → Except SolveError (List ℝ)) (b : Outcome ℝ),
    solveWithPriority [((.fixed 0 9 : Constraint ℝ), 0), (.fixed 2 7, 0), (.fixed 1 5, 0)]
      [(0, 0), (1, 0), (2, 0)] ⟨30, 1e-5, 1e-5⟩ (fun _ => sU) none = .ok b ∧
    b.finalValues = [9 / (1 + 1e-6), 5 / (1 + 1e-6), 7 / (1 + 1e-6)] ∧ b.iterations = 1 ∧
    b.unsatisfied = [] ∧ b.prioritySolved = 0 := by
  obtain ⟨s, hs, ht⟩ := exists_exactSolve 1 1 (fun _ => (1e-6 : ℝ)) (fun _ => by norm_num)
  obtain ⟨sU, hsU, htU⟩ := exists_exactSolve 3 3 (fun _ => (1e-6 : ℝ)) (fun _ => by norm_num)
  have h3 : ∀ i, i < 3 → i = 0 ∨ i = 1 ∨ i = 2 := by omega
  obtain ⟨b, hb, h1, h2, h3', h4⟩ := solveWithPriority_unionMany_any_order_exact 0
    ⟨30, 1e-5, 1e-5⟩ (fun _ => 1e-6) (fun _ => by norm_num) 1
    [fixedRun 5 s, fixedRun 7 s, fixedRun 9 s] (by simp)
    (by
      intro G hG
      simp only [List.mem_cons, List.mem_nil_iff, or_false] at hG
      rcases hG with rfl | rfl | rfl
      · exact fixedRun_ok 5 (by norm_num) (by norm_num) s hs ht
      · exact fixedRun_ok 7 (by norm_num) (by norm_num) s hs ht
      · exact fixedRun_ok 9 (by norm_num) (by norm_num) s hs ht)
    (fun _ => sU) (fun _ => sU) (fun _ => sU) hsU hsU hsU htU htU htU
    [((.fixed 2 9 : Constraint ℝ), 0), (.fixed 1 7, 0), (.fixed 0 5, 0)] (fun i => 2 - i)
    ⟨fun i hi => by show 2 - i < 3; omega, fun i j hi hj h => by
      have hi' : i < 3 := hi
      have hj' : j < 3 := hj
      simp only at h; omega⟩
    ⟨rfl, rfl, fun i hi => by rcases h3 i hi with rfl | rfl | rfl <;> rfl⟩
    (fun i => (i + 1) % 3)
    ⟨fun i hi => by show (i + 1) % 3 < 3; omega, fun i j hi hj h => by
      have hi' : i < 3 := hi
      have hj' : j < 3 := hj
      simp only at h; omega⟩
    [(0, 0), (1, 0), (2, 0)]
    ⟨rfl, rfl, fun i hi => by rcases h3 i hi with rfl | rfl | rfl <;> rfl⟩
    (fun v hv => by rcases h3 v hv with rfl | rfl | rfl <;> rfl)
  refine ⟨sU, b, hb, ?_, h2, List.Perm.eq_nil h4, h3'⟩
  obtain ⟨_, hl, hr⟩ := h1
  have e0 := hr 0 (by show 0 < 3; omega)
  have e1 := hr 1 (by show 1 < 3; omega)
  have e2 := hr 2 (by show 2 < 3; omega)
  match hq : b.finalValues, hl with
  | [x, y, z], _ =>
    rw [hq] at e0 e1 e2
    simp only [fixedRun] at e0 e1 e2
    simp at e0 e1 e2
    rw [e0, e1, e2]

end Ezpz
