/-
C17 on the Newton loop over ℝ: which stopping test fires on the union of two groups that share no
variables (contiguous layout of `Ezpz/Proofs/Union.lean`).

* residual test: the union returns at the residual test iff both groups do
  (`residual_test_union_iff`), with the values untouched;
* step test: the union's step norm is the larger of the groups' norms and the union's threshold is
  *one of* the groups' thresholds (the one of the group with the larger values), so if neither
  group stops, the union does not stop either (`newtonStep_union`) — but a group that would
  continue alone can be stopped by the other group's larger threshold (`step_test_is_global`);
* iterating: as long as both groups continue, after `j` rounds the union's values are the
  concatenation of the groups' values (`newtonRun_union`, `newtonLoop_union_prefix`,
  `newtonLoop_union_converged`);
* the block-solver hypothesis `BlockSolve` is what exact solvers satisfy: the matrix assembled from
  the union's contributions is `fromBlocks J1 0 0 J2`, so `GN.step_of_blocks` and `GN.step_unique`
  give it (`blockSolve_of_exact`, `exists_blockSolve`).
-/
import Ezpz.Real.StopTests
import Ezpz.Proofs.Union
import Ezpz.Real.GaussNewton3
namespace Ezpz
open Transc

/-! ### The numbers the stopping tests look at, on a concatenation -/

/-- The step's ∞-norm is never negative. -/
theorem stepInfNorm_nonneg (d : List ℝ) : 0 ≤ stepInfNorm d := by
  unfold stepInfNorm
  cases h : maxAbs? d with
  | none => simp [lit_0]
  | some m =>
    obtain ⟨_, y, _, hy⟩ := (maxAbs?_spec d m).mp h
    simp only [Option.getD_some]
    rw [← hy]; exact abs_nonneg y

/-- The step's ∞-norm of an empty step is 0. -/
theorem stepInfNorm_nil : stepInfNorm ([] : List ℝ) = 0 := by
  simp [stepInfNorm, maxAbs?, lit_0]

/-- The union's step norm is the larger of the groups' step norms (empty groups allowed). -/
theorem stepInfNorm_append (d1 d2 : List ℝ) :
    stepInfNorm (d1 ++ d2) = max (stepInfNorm d1) (stepInfNorm d2) := by
  by_cases h1 : d1 = []
  · subst h1
    rw [List.nil_append, stepInfNorm_nil, max_eq_right (stepInfNorm_nonneg d2)]
  · by_cases h2 : d2 = []
    · subst h2
      rw [List.append_nil, stepInfNorm_nil, max_eq_left (stepInfNorm_nonneg d1)]
    · exact step_norm_of_union d1 d2 h1 h2

/-- The ∞-norm of the union's values is the larger of the groups' value norms. -/
theorem maxAbs0_append (x1 x2 : List ℝ) :
    maxAbs0 (x1 ++ x2) = max (maxAbs0 x1) (maxAbs0 x2) := by
  obtain ⟨p1, b1, a1⟩ := (maxAbs0_spec x1 (maxAbs0 x1)).mp rfl
  obtain ⟨p2, b2, a2⟩ := (maxAbs0_spec x2 (maxAbs0 x2)).mp rfl
  rw [maxAbs0_spec]
  refine ⟨le_trans p1 (le_max_left _ _), ?_, ?_⟩
  · intro x hx
    rcases List.mem_append.mp hx with hx | hx
    · exact le_trans (b1 x hx) (le_max_left _ _)
    · exact le_trans (b2 x hx) (le_max_right _ _)
  · rcases max_cases (maxAbs0 x1) (maxAbs0 x2) with ⟨hm, _⟩ | ⟨hm, _⟩
    · rw [hm]
      rcases a1 with a1 | ⟨y, hy, hm1⟩
      · left; exact a1
      · right; exact ⟨y, by simp [hy], hm1⟩
    · rw [hm]
      rcases a2 with a2 | ⟨y, hy, hm2⟩
      · left; exact a2
      · right; exact ⟨y, by simp [hy], hm2⟩

/-- **The union's step threshold is one of the groups' thresholds** — that of the group whose
values have the larger ∞-norm (no sign assumption on the tolerance). -/
theorem stepThreshold_append (cfg : Config ℝ) (x1 x2 : List ℝ) :
    stepThreshold cfg (x1 ++ x2) = stepThreshold cfg x1 ∨
      stepThreshold cfg (x1 ++ x2) = stepThreshold cfg x2 := by
  unfold stepThreshold
  rw [maxAbs0_append]
  rcases max_cases (maxAbs0 x1) (maxAbs0 x2) with ⟨hm, _⟩ | ⟨hm, _⟩
  · left; rw [hm]
  · right; rw [hm]

/-- For a non-negative step tolerance the union's threshold is the larger of the groups'
thresholds. -/
theorem stepThreshold_append_max (cfg : Config ℝ) (h : 0 ≤ cfg.stepTolerance) (x1 x2 : List ℝ) :
    stepThreshold cfg (x1 ++ x2) = max (stepThreshold cfg x1) (stepThreshold cfg x2) := by
  unfold stepThreshold
  rw [maxAbs0_append]
  rcases le_total (maxAbs0 x1) (maxAbs0 x2) with hle | hle
  · rw [max_eq_right hle, max_eq_right]
    exact mul_le_mul_of_nonneg_left (by linarith) h
  · rw [max_eq_left hle, max_eq_left]
    exact mul_le_mul_of_nonneg_left (by linarith) h

/-- **If neither group passes its step test, the union does not pass its step test** (no
hypothesis on the tolerance). -/
theorem step_test_union_of_neither (cfg : Config ℝ) (x1 x2 d1 d2 : List ℝ)
    (h1 : ¬ stepInfNorm d1 ≤ stepThreshold cfg x1) (h2 : ¬ stepInfNorm d2 ≤ stepThreshold cfg x2) :
    ¬ stepInfNorm (d1 ++ d2) ≤ stepThreshold cfg (x1 ++ x2) := by
  rw [stepInfNorm_append]
  intro h
  rcases stepThreshold_append cfg x1 x2 with e | e
  · rw [e] at h; exact h1 (le_trans (le_max_left _ _) h)
  · rw [e] at h; exact h2 (le_trans (le_max_right _ _) h)

/-- If both groups pass their step tests (non-negative tolerance), the union passes its step
test. -/
theorem step_test_union_of_both (cfg : Config ℝ) (hτ : 0 ≤ cfg.stepTolerance)
    (x1 x2 d1 d2 : List ℝ)
    (h1 : stepInfNorm d1 ≤ stepThreshold cfg x1) (h2 : stepInfNorm d2 ≤ stepThreshold cfg x2) :
    stepInfNorm (d1 ++ d2) ≤ stepThreshold cfg (x1 ++ x2) := by
  rw [stepInfNorm_append, stepThreshold_append_max cfg hτ]
  exact max_le_max h1 h2

/-- If the union passes its step test, at least one group passes its own step test (no hypothesis
on the tolerance). -/
theorem step_test_union_some (cfg : Config ℝ) (x1 x2 d1 d2 : List ℝ)
    (h : stepInfNorm (d1 ++ d2) ≤ stepThreshold cfg (x1 ++ x2)) :
    stepInfNorm d1 ≤ stepThreshold cfg x1 ∨ stepInfNorm d2 ≤ stepThreshold cfg x2 := by
  by_cases h1 : stepInfNorm d1 ≤ stepThreshold cfg x1
  · exact Or.inl h1
  · by_cases h2 : stepInfNorm d2 ≤ stepThreshold cfg x2
    · exact Or.inr h2
    · exact absurd h (step_test_union_of_neither cfg x1 x2 d1 d2 h1 h2)

/-- **The step test is a global decision, not the conjunction of the groups' tests**: with the
default-sized tolerance `1e-5`, group 1 at value `100` with step `0.001` stops, group 2 at value `1`
with step `0.0005` does not stop on its own, but the union stops (its threshold is group 1's). -/
theorem step_test_is_global :
    let cfg : Config ℝ := ⟨30, 1e-5, 1e-5⟩
    stepInfNorm [(0.001 : ℝ)] ≤ stepThreshold cfg [100] ∧
    ¬ stepInfNorm [(0.0005 : ℝ)] ≤ stepThreshold cfg [1] ∧
    stepInfNorm ([(0.001 : ℝ)] ++ [0.0005]) ≤ stepThreshold cfg ([100] ++ [1]) := by
  intro cfg
  have e1 : stepInfNorm [(0.001 : ℝ)] = 0.001 := by
    simp [stepInfNorm, maxAbs?]; norm_num
  have e2 : stepInfNorm [(0.0005 : ℝ)] = 0.0005 := by
    simp [stepInfNorm, maxAbs?]; norm_num
  have m1 : maxAbs0 [(100 : ℝ)] = 100 := by
    rw [maxAbs0_eq]; simp [fm]
  have m2 : maxAbs0 [(1 : ℝ)] = 1 := by
    rw [maxAbs0_eq]; simp [fm]
  rw [stepInfNorm_append, e1, e2]
  simp only [stepThreshold, maxAbs0_append, m1, m2, cfg]
  refine ⟨?_, ?_, ?_⟩ <;> norm_num

/-! ### One round of the union -/

section
variable (es1 es2 : List (Entry ℝ)) (cfg : Config ℝ)
  (solveU solve1 solve2 : Nat → List (Triplet ℝ) → List ℝ → Except SolveError (List ℝ))

/-- **Main theorem (one round, both groups continue)**: if at round `k` group 1 alone continues
from `x1` to `x1'` and group 2 alone continues from `x2` to `x2'`, then — under the block-solver
hypothesis — the union continues from `x1 ++ x2` to `x1' ++ x2'`.  No extra hypothesis about the
union's step test is needed: its threshold is one of the groups' thresholds and its step norm is
the larger of the groups' norms.  The union's warnings are the incoming ones, then both groups'
residual warnings, then both groups' Jacobian warnings. -/
theorem newtonStep_union (k : Nat) (x1 x2 : List ℝ) (ws ws1 ws2 : List (Warning ℝ))
    (x1' x2' : List ℝ) (ws1' ws2' : List (Warning ℝ))
    (hd1 : Declared es1 x1.length) (hd2 : Declared es2 x2.length)
    (hB : BlockSolve solveU solve1 solve2 (numRows es1) (numRows es2) x1.length x2.length)
    (h1 : newtonStep es1 cfg solve1 k x1 ws1 = .next x1' ws1')
    (h2 : newtonStep es2 cfg solve2 k x2 ws2 = .next x2' ws2') :
    ∃ wr1 wj1 wr2 wj2, ws1' = ws1 ++ wr1 ++ wj1 ∧ ws2' = ws2 ++ wr2 ++ wj2 ∧
      newtonStep (unionEntries x1.length es1 es2) cfg solveU k (x1 ++ x2) ws =
        .next (x1' ++ x2') (ws ++ (wr1 ++ wr2) ++ (wj1 ++ wj2)) := by
  obtain ⟨r1, wr1, jac1, wj1, m1, d1, hr1, hj1, hm1, hl1, hs1, hlen1, hf1, hst1, rfl, rfl⟩ :=
    newtonStep_next_inv es1 cfg solve1 k x1 ws1 x1' ws1' h1
  obtain ⟨r2, wr2, jac2, wj2, m2, d2, hr2, hj2, hm2, hl2, hs2, hlen2, hf2, hst2, rfl, rfl⟩ :=
    newtonStep_next_inv es2 cfg solve2 k x2 ws2 x2' ws2' h2
  obtain ⟨m, hm, _, hiff⟩ := residual_test_of_union r1 r2 cfg.convergenceTolerance m1 m2 hm1 hm2
  refine ⟨wr1, wj1, wr2, wj2, rfl, rfl, ?_⟩
  rw [newtonStep_union_eq es1 es2 cfg solveU solve1 solve2 k x1 x2 ws r1 r2 wr1 wr2 jac1 jac2
    wj1 wj2 d1 d2 ⟨hd1, hr1, hj1, hs1, hlen1⟩ ⟨hd2, hr2, hj2, hs2, hlen2⟩ hB m hm]
  rw [if_neg (fun h => hl1 (hiff.mp h).1), hf1, hf2]
  simp only [Bool.and_self, Bool.not_true, Bool.false_eq_true, ↓reduceIte]
  rw [if_neg (step_test_union_of_neither cfg x1 x2 d1 d2 hst1 hst2)]

/-- **The union returns at the residual test iff both groups do** (non-empty groups; the solvers
play no role).  The returned record is explicit: values `x1 ++ x2` untouched, round `k`, the
block Jacobian. -/
theorem residual_test_union_iff (k : Nat) (x1 x2 : List ℝ) (ws ws1 ws2 : List (Warning ℝ))
    (hd1 : Declared es1 x1.length) (hne1 : es1 ≠ []) (hne2 : es2 ≠ []) :
    (∃ res, newtonStep (unionEntries x1.length es1 es2) cfg solveU k (x1 ++ x2) ws = .done res ∧
        res.byResidual = true) ↔
      (∃ res1, newtonStep es1 cfg solve1 k x1 ws1 = .done res1 ∧ res1.byResidual = true) ∧
      (∃ res2, newtonStep es2 cfg solve2 k x2 ws2 = .done res2 ∧ res2.byResidual = true) := by
  constructor
  · rintro ⟨res, h⟩
    obtain ⟨r, wr, jac, wj, m, hr, hj, hm, hl, _⟩ :=
      (newtonStep_done_byResidual_iff _ cfg solveU k (x1 ++ x2) ws res).mp h
    obtain ⟨r1, wr1, r2, wr2, hr1, hr2, rfl, rfl⟩ :=
      residualAll_union_ok_inv es1 es2 x1 x2 hd1 r wr hr
    obtain ⟨t1, wj1, t2, wj2, hj1, hj2, rfl, rfl⟩ :=
      jacobianAll_union_ok_inv es1 es2 x1 x2 hd1 jac wj hj
    obtain ⟨m1, hm1⟩ : ∃ m1, maxAbs? r1 = some m1 := by
      cases h : maxAbs? r1 with
      | none => exact absurd ((maxAbs?_eq_none_iff r1).mp h) (residualAll_ne_nil es1 _ r1 wr1 hr1 hne1)
      | some m1 => exact ⟨m1, rfl⟩
    obtain ⟨m2, hm2⟩ : ∃ m2, maxAbs? r2 = some m2 := by
      cases h : maxAbs? r2 with
      | none => exact absurd ((maxAbs?_eq_none_iff r2).mp h) (residualAll_ne_nil es2 _ r2 wr2 hr2 hne2)
      | some m2 => exact ⟨m2, rfl⟩
    obtain ⟨m', hm', _, hiff⟩ :=
      residual_test_of_union r1 r2 cfg.convergenceTolerance m1 m2 hm1 hm2
    rw [hm] at hm'
    injection hm' with hm'
    subst hm'
    obtain ⟨hl1, hl2⟩ := hiff.mp hl
    exact ⟨⟨_, (newtonStep_done_byResidual_iff es1 cfg solve1 k x1 ws1 _).mpr
        ⟨r1, wr1, t1, wj1, m1, hr1, hj1, hm1, hl1, rfl⟩⟩,
      ⟨_, (newtonStep_done_byResidual_iff es2 cfg solve2 k x2 ws2 _).mpr
        ⟨r2, wr2, t2, wj2, m2, hr2, hj2, hm2, hl2, rfl⟩⟩⟩
  · rintro ⟨⟨res1, h1⟩, ⟨res2, h2⟩⟩
    obtain ⟨r1, wr1, t1, wj1, m1, hr1, hj1, hm1, hl1, _⟩ :=
      (newtonStep_done_byResidual_iff es1 cfg solve1 k x1 ws1 res1).mp h1
    obtain ⟨r2, wr2, t2, wj2, m2, hr2, hj2, hm2, hl2, _⟩ :=
      (newtonStep_done_byResidual_iff es2 cfg solve2 k x2 ws2 res2).mp h2
    obtain ⟨m, hm, _, hiff⟩ := residual_test_of_union r1 r2 cfg.convergenceTolerance m1 m2 hm1 hm2
    exact ⟨_, (newtonStep_done_byResidual_iff _ cfg solveU k (x1 ++ x2) ws _).mpr
      ⟨r1 ++ r2, wr1 ++ wr2, blockJac (numRows es1) x1.length t1 t2, wj1 ++ wj2, m,
        residualAll_union es1 es2 x1 x2 hd1 r1 r2 wr1 wr2 hr1 hr2,
        jacobianAll_union es1 es2 x1 x2 hd1 t1 t2 wj1 wj2 hj1 hj2, hm, hiff.mpr ⟨hl1, hl2⟩, rfl⟩⟩

/-- When both groups return at the residual test, the record the union returns: the values
`x1 ++ x2` untouched, the same round number, the block combination of the groups' last Jacobians.
-/
theorem residual_test_union_record (k : Nat) (x1 x2 : List ℝ) (ws ws1 ws2 : List (Warning ℝ))
    (hd1 : Declared es1 x1.length) (res1 res2 : NewtonOk ℝ)
    (h1 : newtonStep es1 cfg solve1 k x1 ws1 = .done res1) (hb1 : res1.byResidual = true)
    (h2 : newtonStep es2 cfg solve2 k x2 ws2 = .done res2) (hb2 : res2.byResidual = true) :
    ∃ wsU, newtonStep (unionEntries x1.length es1 es2) cfg solveU k (x1 ++ x2) ws =
      .done ⟨x1 ++ x2, k, wsU, blockJac (numRows es1) x1.length res1.lastJac res2.lastJac, true⟩ ∧
      res1.values = x1 ∧ res2.values = x2 := by
  obtain ⟨r1, wr1, t1, wj1, m1, hr1, hj1, hm1, hl1, rfl⟩ :=
    (newtonStep_done_byResidual_iff es1 cfg solve1 k x1 ws1 res1).mp ⟨h1, hb1⟩
  obtain ⟨r2, wr2, t2, wj2, m2, hr2, hj2, hm2, hl2, rfl⟩ :=
    (newtonStep_done_byResidual_iff es2 cfg solve2 k x2 ws2 res2).mp ⟨h2, hb2⟩
  obtain ⟨m, hm, _, hiff⟩ := residual_test_of_union r1 r2 cfg.convergenceTolerance m1 m2 hm1 hm2
  exact ⟨_, ((newtonStep_done_byResidual_iff _ cfg solveU k (x1 ++ x2) ws _).mpr
      ⟨r1 ++ r2, wr1 ++ wr2, blockJac (numRows es1) x1.length t1 t2, wj1 ++ wj2, m,
        residualAll_union es1 es2 x1 x2 hd1 r1 r2 wr1 wr2 hr1 hr2,
        jacobianAll_union es1 es2 x1 x2 hd1 t1 t2 wj1 wj2 hj1 hj2, hm, hiff.mpr ⟨hl1, hl2⟩,
        rfl⟩).1, rfl, rfl⟩

/-! ### Iterating -/

/-- **After `j` rounds in which both groups continue, the union's values are the concatenation of
the groups' values** (and the union has continued for `j` rounds too). -/
theorem newtonRun_union (n1 n2 : Nat)
    (hd1 : Declared es1 n1) (hd2 : Declared es2 n2)
    (hB : BlockSolve solveU solve1 solve2 (numRows es1) (numRows es2) n1 n2) :
    ∀ (j k : Nat) (x1 x2 : List ℝ) (ws ws1 ws2 : List (Warning ℝ)) (y1 y2 : List ℝ)
      (wy1 wy2 : List (Warning ℝ)), x1.length = n1 → x2.length = n2 →
      newtonRun es1 cfg solve1 j k x1 ws1 = some (y1, wy1) →
      newtonRun es2 cfg solve2 j k x2 ws2 = some (y2, wy2) →
      y1.length = n1 ∧ y2.length = n2 ∧
      ∃ wyU, newtonRun (unionEntries n1 es1 es2) cfg solveU j k (x1 ++ x2) ws =
        some (y1 ++ y2, wyU) := by
  intro j
  induction j with
  | zero =>
    intro k x1 x2 ws ws1 ws2 y1 y2 wy1 wy2 hx1 hx2 h1 h2
    simp only [newtonRun, Option.some.injEq, Prod.mk.injEq] at h1 h2
    obtain ⟨rfl, rfl⟩ := h1
    obtain ⟨rfl, rfl⟩ := h2
    exact ⟨hx1, hx2, ws, rfl⟩
  | succ j ih =>
    intro k x1 x2 ws ws1 ws2 y1 y2 wy1 wy2 hx1 hx2 h1 h2
    unfold newtonRun at h1 h2
    split at h1
    · rename_i x1' ws1' hs1
      split at h2
      · rename_i x2' ws2' hs2
        subst hx1 hx2
        obtain ⟨wr1, wj1, wr2, wj2, _, _, hU⟩ :=
          newtonStep_union es1 es2 cfg solveU solve1 solve2 k x1 x2 ws ws1 ws2 x1' x2' ws1' ws2'
            hd1 hd2 hB hs1 hs2
        have hl1 := newtonStep_next_length es1 cfg solve1 k x1 x1' ws1 ws1' hs1
        have hl2 := newtonStep_next_length es2 cfg solve2 k x2 x2' ws2 ws2' hs2
        obtain ⟨e1, e2, wyU, hrun⟩ := ih (k + 1) x1' x2' (ws ++ (wr1 ++ wr2) ++ (wj1 ++ wj2))
          ws1' ws2' y1 y2 wy1 wy2 hl1 hl2 h1 h2
        refine ⟨e1, e2, wyU, ?_⟩
        rw [newtonRun, hU]
        exact hrun
      · simp at h2
    · simp at h1

/-- **The union's loop follows the groups' loops** (`newtonLoop_union_prefix`): if both groups
continue for `j` rounds, reaching `y1` and `y2`, the union's loop with `j + fuel` rounds of fuel is
the union's loop restarted at round `k + j` from the values `y1 ++ y2` with `fuel` rounds left. -/
theorem newtonLoop_union_prefix (n1 n2 : Nat)
    (hd1 : Declared es1 n1) (hd2 : Declared es2 n2)
    (hB : BlockSolve solveU solve1 solve2 (numRows es1) (numRows es2) n1 n2)
    (j fuel k : Nat) (x1 x2 : List ℝ) (ws ws1 ws2 : List (Warning ℝ)) (y1 y2 : List ℝ)
    (wy1 wy2 : List (Warning ℝ)) (hx1 : x1.length = n1) (hx2 : x2.length = n2)
    (h1 : newtonRun es1 cfg solve1 j k x1 ws1 = some (y1, wy1))
    (h2 : newtonRun es2 cfg solve2 j k x2 ws2 = some (y2, wy2)) :
    ∃ wyU, newtonLoop (unionEntries n1 es1 es2) cfg solveU (j + fuel) k (x1 ++ x2) ws =
      newtonLoop (unionEntries n1 es1 es2) cfg solveU fuel (k + j) (y1 ++ y2) wyU := by
  obtain ⟨_, _, wyU, hrun⟩ := newtonRun_union es1 es2 cfg solveU solve1 solve2 n1 n2 hd1 hd2 hB j k
    x1 x2 ws ws1 ws2 y1 y2 wy1 wy2 hx1 hx2 h1 h2
  exact ⟨wyU, newtonLoop_of_run _ cfg solveU j fuel k (x1 ++ x2) ws (y1 ++ y2) wyU hrun⟩

/-- **Both groups converge in the same round ⇒ the union converges in that round to the
concatenation**: if both groups continue for `j` rounds and then both return at the residual test
with values `y1`, `y2`, the union's loop (with at least `j + 1` rounds of fuel) returns `y1 ++ y2`
at the residual test after the same number of rounds. -/
theorem newtonLoop_union_converged (n1 n2 : Nat)
    (hd1 : Declared es1 n1) (hd2 : Declared es2 n2)
    (hB : BlockSolve solveU solve1 solve2 (numRows es1) (numRows es2) n1 n2)
    (j fuel k : Nat) (x1 x2 : List ℝ) (ws ws1 ws2 : List (Warning ℝ)) (y1 y2 : List ℝ)
    (wy1 wy2 : List (Warning ℝ)) (hx1 : x1.length = n1) (hx2 : x2.length = n2)
    (h1 : newtonRun es1 cfg solve1 j k x1 ws1 = some (y1, wy1))
    (h2 : newtonRun es2 cfg solve2 j k x2 ws2 = some (y2, wy2))
    (res1 res2 : NewtonOk ℝ)
    (hf1 : newtonStep es1 cfg solve1 (k + j) y1 wy1 = .done res1) (hb1 : res1.byResidual = true)
    (hf2 : newtonStep es2 cfg solve2 (k + j) y2 wy2 = .done res2) (hb2 : res2.byResidual = true) :
    ∃ res, newtonLoop (unionEntries n1 es1 es2) cfg solveU (j + (fuel + 1)) k (x1 ++ x2) ws =
        .ok res ∧ res.values = y1 ++ y2 ∧ res.byResidual = true ∧ res.iterations = k + j ∧
        res.lastJac = blockJac (numRows es1) n1 res1.lastJac res2.lastJac := by
  obtain ⟨e1, e2, wyU, hrun⟩ := newtonRun_union es1 es2 cfg solveU solve1 solve2 n1 n2 hd1 hd2 hB
    j k x1 x2 ws ws1 ws2 y1 y2 wy1 wy2 hx1 hx2 h1 h2
  rw [newtonLoop_of_run _ cfg solveU j (fuel + 1) k (x1 ++ x2) ws (y1 ++ y2) wyU hrun]
  subst e1
  obtain ⟨wsU, hdone, _, _⟩ := residual_test_union_record es1 es2 cfg solveU solve1 solve2 (k + j)
    y1 y2 wyU wy1 wy2 hd1 res1 res2 hf1 hb1 hf2 hb2
  rw [newtonLoop, hdone]
  exact ⟨_, rfl, rfl, rfl, rfl, rfl⟩

end

/-! ### Non-vacuity: a concrete instance of all hypotheses -/

/-- The exact undamped solver for identity Jacobians (`d = -r`), used in the examples below. -/
def negSolve : Nat → List (Triplet ℝ) → List ℝ → Except SolveError (List ℝ) :=
  fun _ _ r => .ok (r.map (fun v => -v))

/-- `negSolve` satisfies the block-solver hypothesis. -/
theorem negSolve_block (R1 R2 n1 n2 : Nat) : BlockSolve negSolve negSolve negSolve R1 R2 n1 n2 := by
  intro k jac1 jac2 r1 r2 d1 d2 _ _ _ _ h1 h2 _ _
  simp only [negSolve, Except.ok.injEq] at h1 h2 ⊢
  subst h1 h2
  simp

/-- One `Fixed` request on one variable declares only id 0. -/
theorem declared_fixed (v : ℝ) (id : Nat) : Declared [(⟨.fixed 0 v, id, 0⟩ : Entry ℝ)] 1 := by
  intro e he i hi
  simp only [List.mem_singleton] at he
  subst he
  simp [Constraint.nonzeroes, Rows.all] at hi
  omega

/-- One round of the group "variable 0 fixed to `v`" started at 0 with `negSolve` continues to
`[v]` (for `v ≥ 1`, tolerances `1e-5`). -/
theorem fixed_round (v : ℝ) (hv : 1 ≤ v) (id : Nat) :
    newtonStep [(⟨.fixed 0 v, id, 0⟩ : Entry ℝ)] ⟨30, 1e-5, 1e-5⟩ negSolve 0 [0] [] =
      .next [v] [] := by
  simp [newtonStep, residualAll, jacobianAll, jacobianFrom, pattern, patternFrom,
    Constraint.residual, Constraint.jacobianRows, Constraint.residualV, Constraint.jacobianV,
    Constraint.residualReads, Constraint.jacobianReads, lookup, takeRows, Constraint.residualDim,
    Res.mk1, maxAbs?, negSolve, applyStep, allFinite, stepInfNorm, stepThreshold, maxAbs0,
    Constraint.nonzeroes]
  rw [abs_of_nonneg (by linarith : (0 : ℝ) ≤ v), if_neg (by norm_num; linarith),
    if_neg (by norm_num [lit_0]; linarith)]

/-- The union of "variable 0 fixed to 5" and "variable 0 fixed to 7" is "variable 0 fixed to 5,
variable 1 fixed to 7". -/
example : unionEntries 1 [(⟨.fixed 0 5, 0, 0⟩ : Entry ℝ)] [⟨.fixed 0 7, 1, 0⟩] =
    [⟨.fixed 0 5, 0, 0⟩, ⟨.fixed 1 7, 1, 0⟩] := rfl

/-- All hypotheses of `newtonStep_union` hold for these two groups, and the theorem gives the
union's round: from `[0, 0]` to `[5, 7]`. -/
example : ∃ wsU, newtonStep [(⟨.fixed 0 5, 0, 0⟩ : Entry ℝ), ⟨.fixed 1 7, 1, 0⟩] ⟨30, 1e-5, 1e-5⟩
    negSolve 0 [0, 0] [] = .next [5, 7] wsU := by
  obtain ⟨wr1, wj1, wr2, wj2, _, _, h⟩ := newtonStep_union [(⟨.fixed 0 5, 0, 0⟩ : Entry ℝ)]
    [⟨.fixed 0 7, 1, 0⟩] ⟨30, 1e-5, 1e-5⟩ negSolve negSolve negSolve 0 [0] [0] [] [] [] [5] [7] [] []
    (declared_fixed 5 0) (declared_fixed 7 1) (negSolve_block _ _ _ _)
    (fixed_round 5 (by norm_num) 0) (fixed_round 7 (by norm_num) 1)
  exact ⟨_, h⟩

/-! ### The block-solver hypothesis is what exact solvers satisfy -/

section Exact
open Matrix

/-- The dense `R × n` matrix of a contribution list: a cell's value is the sum of its contributions. -/
noncomputable def matOf (R n : Nat) (ts : List (Triplet ℝ)) : Matrix (Fin R) (Fin n) ℝ :=
  fun i j => ((ts.filter (fun t => decide (t.1 = i.val ∧ t.2.1 = j.val))).map (fun t => t.2.2)).sum

/-- A list of numbers as a vector with `n` components. -/
def vecOf (n : Nat) (l : List ℝ) : Fin n → ℝ := fun i => l.getD i.val 0

/-- The matrix of a concatenated contribution list is the sum of the matrices. -/
theorem matOf_append (R n : Nat) (a b : List (Triplet ℝ)) :
    matOf R n (a ++ b) = matOf R n a + matOf R n b := by
  ext i j
  simp [matOf, List.filter_append]

/-- A cell without contributions is 0. -/
theorem matOf_eq_zero (R n : Nat) (ts : List (Triplet ℝ)) (i : Fin R) (j : Fin n)
    (h : ∀ t ∈ ts, ¬ (t.1 = i.val ∧ t.2.1 = j.val)) : matOf R n ts i j = 0 := by
  unfold matOf
  rw [List.filter_eq_nil_iff.mpr (fun t ht => by simpa using h t ht)]
  simp

/-- **The union's matrix is block diagonal**: the matrix of the block combination of the groups'
contributions, with rows and columns split as (group 1, group 2), is `fromBlocks J1 0 0 J2`. -/
theorem matOf_block (R1 R2 n1 n2 : Nat) (jac1 jac2 : List (Triplet ℝ))
    (h1 : ∀ t ∈ jac1, t.1 < R1 ∧ t.2.1 < n1) :
    (matOf (R1 + R2) (n1 + n2) (blockJac R1 n1 jac1 jac2)).submatrix finSumFinEquiv finSumFinEquiv =
      fromBlocks (matOf R1 n1 jac1) 0 0 (matOf R2 n2 jac2) := by
  unfold blockJac
  rw [matOf_append]
  ext i j
  rcases i with i | i <;> rcases j with j | j
  · simp only [submatrix_apply, Matrix.add_apply, fromBlocks_apply₁₁, finSumFinEquiv_apply_left]
    rw [matOf_eq_zero _ _ (shiftTriplets R1 n1 jac2)]
    · simp [matOf]
    · intro t ht
      simp only [shiftTriplets, List.mem_map] at ht
      obtain ⟨t', _, rfl⟩ := ht
      simp only [Fin.val_castAdd]
      have := i.isLt
      omega
  · simp only [submatrix_apply, Matrix.add_apply, fromBlocks_apply₁₂, finSumFinEquiv_apply_left,
      finSumFinEquiv_apply_right, Matrix.zero_apply]
    rw [matOf_eq_zero _ _ (shiftTriplets R1 n1 jac2), matOf_eq_zero _ _ jac1]
    · simp
    · intro t ht
      have := h1 t ht
      simp only [Fin.val_natAdd]
      omega
    · intro t ht
      simp only [shiftTriplets, List.mem_map] at ht
      obtain ⟨t', _, rfl⟩ := ht
      simp only [Fin.val_castAdd]
      have := i.isLt
      omega
  · simp only [submatrix_apply, Matrix.add_apply, fromBlocks_apply₂₁, finSumFinEquiv_apply_left,
      finSumFinEquiv_apply_right, Matrix.zero_apply]
    rw [matOf_eq_zero _ _ (shiftTriplets R1 n1 jac2), matOf_eq_zero _ _ jac1]
    · simp
    · intro t ht
      have := h1 t ht
      simp only [Fin.val_natAdd]
      omega
    · intro t ht
      simp only [shiftTriplets, List.mem_map] at ht
      obtain ⟨t', _, rfl⟩ := ht
      simp only [Fin.val_castAdd]
      have := j.isLt
      omega
  · simp only [submatrix_apply, Matrix.add_apply, fromBlocks_apply₂₂, finSumFinEquiv_apply_right]
    rw [matOf_eq_zero _ _ jac1]
    · simp only [matOf, shiftTriplets, zero_add, List.filter_map, List.map_map]
      congr 2
      apply List.filter_congr
      intro t _
      simp only [Function.comp, Fin.val_natAdd]
      rw [decide_eq_decide]
      omega
    · intro t ht
      have := h1 t ht
      simp only [Fin.val_natAdd]
      omega

/-- The vector of a concatenated list, split as (group 1, group 2). -/
theorem vecOf_append (n1 n2 : Nat) (a b : List ℝ) (ha : a.length = n1) :
    vecOf (n1 + n2) (a ++ b) ∘ finSumFinEquiv = Sum.elim (vecOf n1 a) (vecOf n2 b) := by
  ext i
  rcases i with i | i
  · simp only [Function.comp, finSumFinEquiv_apply_left, Sum.elim_inl, vecOf, Fin.val_castAdd,
      List.getD_eq_getElem?_getD]
    rw [List.getElem?_append_left (by rw [ha]; exact i.isLt)]
  · simp only [Function.comp, finSumFinEquiv_apply_right, Sum.elim_inr, vecOf, Fin.val_natAdd,
      List.getD_eq_getElem?_getD]
    rw [List.getElem?_append_right (by omega)]
    congr 2
    omega

/-- Lists of length `n` with the same vector are equal. -/
theorem vecOf_inj (n : Nat) (a b : List ℝ) (ha : a.length = n) (hb : b.length = n)
    (h : vecOf n a = vecOf n b) : a = b := by
  apply List.ext_getElem (by rw [ha, hb])
  intro i h1 h2
  have := congrFun h ⟨i, by omega⟩
  simpa [vecOf, List.getD_eq_getElem?_getD, List.getElem?_eq_getElem h1,
    List.getElem?_eq_getElem h2] using this

/-- A solver is *exact* for `R × n` systems with damping `lam k` in round `k`: whatever it returns
has `n` components and solves the damped normal equations of the matrix assembled from the
contributions. -/
def ExactSolve (solve : Nat → List (Triplet ℝ) → List ℝ → Except SolveError (List ℝ)) (R n : Nat)
    (lam : Nat → ℝ) : Prop :=
  ∀ k jac r d, solve k jac r = .ok d →
    d.length = n ∧ GN.IsStep (matOf R n jac) (vecOf R r) (lam k) (vecOf n d)

/-- **The block-solver hypothesis holds for exact solvers**: if the three solvers are exact for the
union's and the groups' dimensions with the same positive damping, and the union's solver answers
on in-range data, then `BlockSolve` holds (`GN.step_of_blocks` for the block-diagonal matrix,
`GN.step_unique` for "the" step). -/
theorem blockSolve_of_exact (solveU solve1 solve2 : Nat → List (Triplet ℝ) → List ℝ →
    Except SolveError (List ℝ)) (R1 R2 n1 n2 : Nat) (lam : Nat → ℝ)
    (hlam : ∀ k, 0 < lam k)
    (hU : ExactSolve solveU (R1 + R2) (n1 + n2) lam) (h1 : ExactSolve solve1 R1 n1 lam)
    (h2 : ExactSolve solve2 R2 n2 lam)
    (htot : ∀ k jac r, r.length = R1 + R2 → (∀ t ∈ jac, t.1 < R1 + R2 ∧ t.2.1 < n1 + n2) →
      ∃ d, solveU k jac r = .ok d) :
    BlockSolve solveU solve1 solve2 R1 R2 n1 n2 := by
  intro k jac1 jac2 r1 r2 d1 d2 hr1 hr2 hj1 hj2 hs1 hs2 hd1 hd2
  obtain ⟨dU, hdU⟩ := htot k (blockJac R1 n1 jac1 jac2) (r1 ++ r2) (by simp [hr1, hr2]) (by
    intro t ht
    rcases List.mem_append.mp ht with ht | ht
    · have := hj1 t ht; omega
    · simp only [shiftTriplets, List.mem_map] at ht
      obtain ⟨t', ht', rfl⟩ := ht
      have := hj2 t' ht'
      simp only; omega)
  obtain ⟨hlenU, hstepU⟩ := hU k _ _ dU hdU
  obtain ⟨_, hstep1⟩ := h1 k _ _ d1 hs1
  obtain ⟨_, hstep2⟩ := h2 k _ _ d2 hs2
  have hblock := (GN.step_of_blocks (matOf R1 n1 jac1) (matOf R2 n2 jac2) (vecOf R1 r1)
    (vecOf R2 r2) (lam k) (vecOf n1 d1) (vecOf n2 d2)).mpr ⟨hstep1, hstep2⟩
  rw [← matOf_block R1 R2 n1 n2 jac1 jac2 hj1, ← vecOf_append R1 R2 r1 r2 hr1,
    ← vecOf_append n1 n2 d1 d2 hd1] at hblock
  have hcomb : GN.IsStep (matOf (R1 + R2) (n1 + n2) (blockJac R1 n1 jac1 jac2))
      (vecOf (R1 + R2) (r1 ++ r2)) (lam k) (vecOf (n1 + n2) (d1 ++ d2)) := by
    rw [← GN.step_row_perm finSumFinEquiv, ← GN.step_col_perm finSumFinEquiv]
    exact hblock
  have := GN.step_unique _ _ _ (hlam k) _ _ hstepU hcomb
  rw [hdU, vecOf_inj (n1 + n2) dU (d1 ++ d2) hlenU (by simp [hd1, hd2]) this]


/-- The vector of `List.ofFn f` is `f`. -/
theorem vecOf_ofFn (n : Nat) (f : Fin n → ℝ) : vecOf n (List.ofFn f) = f := by
  ext i
  simp [vecOf, List.getD_eq_getElem?_getD]

/-- Exact solvers that always answer exist for every positive damping (`GN.step_exists`), so the
hypotheses of `blockSolve_of_exact` are satisfiable. -/
theorem exists_exactSolve (R n : Nat) (lam : Nat → ℝ) (hlam : ∀ k, 0 < lam k) :
    ∃ solve, ExactSolve solve R n lam ∧ ∀ k jac r, ∃ d, solve k jac r = .ok d := by
  refine ⟨fun k jac r => .ok (List.ofFn
    (Classical.choose (GN.step_exists (matOf R n jac) (vecOf R r) (lam k) (hlam k)))), ?_, ?_⟩
  · intro k jac r d h
    injection h with h
    subst h
    refine ⟨by simp, ?_⟩
    rw [vecOf_ofFn]
    exact Classical.choose_spec (GN.step_exists (matOf R n jac) (vecOf R r) (lam k) (hlam k))
  · intro k jac r; exact ⟨_, rfl⟩

/-- Hence block solvers exist for all dimensions: the hypothesis `BlockSolve` of the theorems
above is satisfied by exact solvers. -/
theorem exists_blockSolve (R1 R2 n1 n2 : Nat) :
    ∃ solveU solve1 solve2 : Nat → List (Triplet ℝ) → List ℝ → Except SolveError (List ℝ),
      BlockSolve solveU solve1 solve2 R1 R2 n1 n2 ∧
      ExactSolve solveU (R1 + R2) (n1 + n2) (fun _ => 1) := by
  obtain ⟨sU, eU, tU⟩ := exists_exactSolve (R1 + R2) (n1 + n2) (fun _ => 1) (fun _ => one_pos)
  obtain ⟨s1, e1, _⟩ := exists_exactSolve R1 n1 (fun _ => 1) (fun _ => one_pos)
  obtain ⟨s2, e2, _⟩ := exists_exactSolve R2 n2 (fun _ => 1) (fun _ => one_pos)
  exact ⟨sU, s1, s2, blockSolve_of_exact sU s1 s2 R1 R2 n1 n2 (fun _ => 1) (fun _ => one_pos)
    eU e1 e2 (fun k jac r _ _ => tU k jac r), eU⟩

end Exact

end Ezpz
