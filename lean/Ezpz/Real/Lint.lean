/-
Warnings are truthful (real-number part): exactly when the angle lint fires, and what the
degeneracy flag of the guarded kinds means geometrically.  Everything here is about `α := ℝ`.
-/
import Ezpz.Real.Instance
import Ezpz.Model.Solve
import Ezpz.Proofs.Lint
namespace Ezpz
open Transc

/-! ### Literals and the tolerance test -/

/-- The literal `-90.0` as a numeral. -/
theorem lit_neg90 : (-90.0 : ℝ) = -90 := by norm_num

/-- The angle of a request in degrees, as the lint computes it. -/
theorem toDegrees_real (θ : Angle ℝ) :
    θ.toDegrees = if θ.degrees then θ.val else θ.val * (180 / Real.pi) := by
  unfold Angle.toDegrees
  rw [lit_180, pi_real]

/-- `nearly_eq(a, b)` over the reals: `|a − b| < EPSILON`. -/
theorem nearlyEq_iff (a b : ℝ) : nearlyEq a b = true ↔ |a - b| < (EPS : ℝ) := by
  simp [nearlyEq]

/-- The lint of one explicit-angle line request over the reals, with the literals as numerals. -/
theorem lintOne_real (e : Entry ℝ) (l0 l1 : Seg) (θ : Angle ℝ)
    (hc : e.c = .linesAtAngle l0 l1 (.other θ)) :
    lintOne e =
      if |θ.toDegrees - 0| < (EPS : ℝ) ∨ |θ.toDegrees - 360| < (EPS : ℝ) ∨
          |θ.toDegrees - 180| < (EPS : ℝ) then
        some ⟨some e.id, .shouldBeParallel θ⟩
      else if |θ.toDegrees - 90| < (EPS : ℝ) ∨ |θ.toDegrees - (-90)| < (EPS : ℝ) then
        some ⟨some e.id, .shouldBePerpendicular θ⟩
      else none := by
  unfold lintOne
  rw [hc]
  simp only [Bool.or_eq_true, nearlyEq_iff, lit_0, lit_360, lit_180, lit_90, or_assoc]

/-! ### 1–2. The lint fires for the special angles, in either unit -/

/-- An explicit angle of 0, 180 or 360 degrees (0, π, 2π radians) always gets the "use Parallel"
warning naming the request. -/
theorem lint_fires_parallel (e : Entry ℝ) (l0 l1 : Seg) (θ : Angle ℝ)
    (hc : e.c = .linesAtAngle l0 l1 (.other θ))
    (h : (θ.degrees = true ∧ (θ.val = 0 ∨ θ.val = 180 ∨ θ.val = 360)) ∨
      (θ.degrees = false ∧ (θ.val = 0 ∨ θ.val = Real.pi ∨ θ.val = 2 * Real.pi))) :
    lintOne e = some ⟨some e.id, .shouldBeParallel θ⟩ := by
  rw [lintOne_real e l0 l1 θ hc, toDegrees_real]
  have hpi : Real.pi ≠ 0 := Real.pi_ne_zero
  have heps : (0 : ℝ) < EPS := EPS_pos
  rw [if_pos]
  rcases h with ⟨hd, hv | hv | hv⟩ | ⟨hd, hv | hv | hv⟩
  · left; simp [hd, hv, heps]
  · right; right; simp [hd, hv, heps]
  · right; left; simp [hd, hv, heps]
  · left; simp [hd, hv, heps]
  · right; right
    have : Real.pi * (180 / Real.pi) = 180 := by field_simp
    simp [hd, hv, this, heps]
  · right; left
    have : 2 * Real.pi * (180 / Real.pi) = 360 := by field_simp; norm_num
    simp [hd, hv, this, heps]

/-- An explicit angle of +90 or −90 degrees (π/2 or −π/2 radians) always gets the "use
Perpendicular" warning naming the request. -/
theorem lint_fires_perpendicular (e : Entry ℝ) (l0 l1 : Seg) (θ : Angle ℝ)
    (hc : e.c = .linesAtAngle l0 l1 (.other θ))
    (h : (θ.degrees = true ∧ (θ.val = 90 ∨ θ.val = -90)) ∨
      (θ.degrees = false ∧ (θ.val = Real.pi / 2 ∨ θ.val = -(Real.pi / 2)))) :
    lintOne e = some ⟨some e.id, .shouldBePerpendicular θ⟩ := by
  rw [lintOne_real e l0 l1 θ hc, toDegrees_real]
  have hpi : Real.pi ≠ 0 := Real.pi_ne_zero
  have heps : (0 : ℝ) < EPS := EPS_pos
  have heps' : (EPS : ℝ) = 1e-4 := EPS_real
  have h1 : Real.pi / 2 * (180 / Real.pi) = 90 := by field_simp; norm_num
  have h2 : -(Real.pi / 2) * (180 / Real.pi) = -90 := by field_simp; norm_num
  have key : ∀ d : ℝ, (d = 90 ∨ d = -90) →
      (if |d - 0| < (EPS : ℝ) ∨ |d - 360| < (EPS : ℝ) ∨ |d - 180| < (EPS : ℝ) then
        some (⟨some e.id, .shouldBeParallel θ⟩ : Warning ℝ)
      else if |d - 90| < (EPS : ℝ) ∨ |d - (-90)| < (EPS : ℝ) then
        some ⟨some e.id, .shouldBePerpendicular θ⟩
      else none) = some ⟨some e.id, .shouldBePerpendicular θ⟩ := by
    intro d hd
    rw [if_neg, if_pos]
    · rcases hd with rfl | rfl
      · left; simpa using heps
      · right; simpa using heps
    · rw [heps']
      rcases hd with rfl | rfl <;> norm_num
  rcases h with ⟨hd, hv | hv⟩ | ⟨hd, hv | hv⟩
  · simpa [hd, hv] using key 90 (Or.inl rfl)
  · simpa [hd, hv] using key (-90) (Or.inr rfl)
  · simpa [hd, hv, h1] using key 90 (Or.inl rfl)
  · simpa [hd, hv, h2] using key (-90) (Or.inr rfl)

/-! ### 3. The lint is quiet away from the special angles -/

/-- Sharp version: if the angle in degrees is at least `EPSILON` away from each of the five tested
values 0, 360, 180, 90, −90, no lint warning is produced. -/
theorem lint_quiet_sharp (e : Entry ℝ) (l0 l1 : Seg) (θ : Angle ℝ)
    (hc : e.c = .linesAtAngle l0 l1 (.other θ))
    (h0 : (EPS : ℝ) ≤ |θ.toDegrees - 0|) (h360 : (EPS : ℝ) ≤ |θ.toDegrees - 360|)
    (h180 : (EPS : ℝ) ≤ |θ.toDegrees - 180|) (h90 : (EPS : ℝ) ≤ |θ.toDegrees - 90|)
    (hn90 : (EPS : ℝ) ≤ |θ.toDegrees - (-90)|) : lintOne e = none := by
  rw [lintOne_real e l0 l1 θ hc, if_neg, if_neg]
  · rintro (h | h) <;> linarith
  · rintro (h | h | h) <;> linarith

/-- An explicit angle more than 0.01 degrees away from every multiple of 90 degrees never gets a
lint warning. -/
theorem lint_quiet (e : Entry ℝ) (l0 l1 : Seg) (θ : Angle ℝ)
    (hc : e.c = .linesAtAngle l0 l1 (.other θ))
    (h : ∀ k : ℤ, (0.01 : ℝ) < |θ.toDegrees - 90 * k|) : lintOne e = none := by
  have heps : (EPS : ℝ) = 1e-4 := EPS_real
  have hle : (EPS : ℝ) ≤ 0.01 := by rw [heps]; norm_num
  apply lint_quiet_sharp e l0 l1 θ hc
  · have := h 0; simp only [Int.cast_zero, mul_zero] at this; linarith
  · have := h 4
    have e4 : (90 : ℝ) * ((4 : ℤ) : ℝ) = 360 := by norm_num
    rw [e4] at this; linarith
  · have := h 2
    have e2 : (90 : ℝ) * ((2 : ℤ) : ℝ) = 180 := by norm_num
    rw [e2] at this; linarith
  · have := h 1
    have e1 : (90 : ℝ) * ((1 : ℤ) : ℝ) = 90 := by norm_num
    rw [e1] at this; linarith
  · have := h (-1)
    have e1 : (90 : ℝ) * ((-1 : ℤ) : ℝ) = -90 := by norm_num
    rw [e1] at this; linarith

/-! ### 4. The two kinds are never confused -/

/-- A lint warning is either "use Parallel" — and then the angle is within `EPSILON` of 0, 180 or
360 degrees and not within `EPSILON` of ±90 — or "use Perpendicular" — and then the angle is within
`EPSILON` of +90 or −90 degrees and not within `EPSILON` of 0, 180, 360.  Either way it names the
request. -/
theorem lint_exclusive (e : Entry ℝ) (l0 l1 : Seg) (θ : Angle ℝ)
    (hc : e.c = .linesAtAngle l0 l1 (.other θ)) (w : Warning ℝ) (h : lintOne e = some w) :
    w.about = some e.id ∧
    ((w.content = .shouldBeParallel θ ∧
        (|θ.toDegrees - 0| < (EPS : ℝ) ∨ |θ.toDegrees - 180| < (EPS : ℝ) ∨
          |θ.toDegrees - 360| < (EPS : ℝ)) ∧
        ¬ (|θ.toDegrees - 90| < (EPS : ℝ) ∨ |θ.toDegrees - (-90)| < (EPS : ℝ))) ∨
     (w.content = .shouldBePerpendicular θ ∧
        (|θ.toDegrees - 90| < (EPS : ℝ) ∨ |θ.toDegrees - (-90)| < (EPS : ℝ)) ∧
        ¬ (|θ.toDegrees - 0| < (EPS : ℝ) ∨ |θ.toDegrees - 180| < (EPS : ℝ) ∨
          |θ.toDegrees - 360| < (EPS : ℝ)))) := by
  have heps : (EPS : ℝ) = 1e-4 := EPS_real
  rw [lintOne_real e l0 l1 θ hc] at h
  generalize θ.toDegrees = d at h ⊢
  split at h
  · rename_i hpar
    injection h with h; subst h
    refine ⟨rfl, Or.inl ⟨rfl, ?_, ?_⟩⟩
    · rcases hpar with h | h | h
      · exact Or.inl h
      · exact Or.inr (Or.inr h)
      · exact Or.inr (Or.inl h)
    · rw [heps] at hpar ⊢
      rintro (h | h) <;> rcases hpar with h' | h' | h' <;>
        (rw [abs_lt] at h h'; norm_num at h h'; linarith)
  · rename_i hnpar
    split at h
    · rename_i hperp
      injection h with h; subst h
      refine ⟨rfl, Or.inr ⟨rfl, hperp, ?_⟩⟩
      rintro (h | h | h)
      · exact hnpar (Or.inl h)
      · exact hnpar (Or.inr (Or.inr h))
      · exact hnpar (Or.inr (Or.inl h))
    · simp at h

/-! ### 5. What the degeneracy flag means, kind by kind (as coded) -/

/-- Length of the segment from `p` to `q` under the assignment `v`. -/
noncomputable def ptDist (v : Nat → ℝ) (p q : Pt) : ℝ :=
  Real.sqrt ((v p.x - v q.x) * (v p.x - v q.x) + (v p.y - v q.y) * (v p.y - v q.y))

/-- The distance between two points does not depend on their order. -/
theorem ptDist_comm (v : Nat → ℝ) (p q : Pt) : ptDist v p q = ptDist v q p := by
  unfold ptDist; congr 1; ring

/-- `√s < 0.01` is `s < EPSILON`: a guard on a squared length is a guard at 0.01 on the length. -/
theorem sqrt_lt_cent (s : ℝ) : Real.sqrt s < 0.01 ↔ s < (EPS : ℝ) := by
  rw [Real.sqrt_lt' (by norm_num), EPS_real]; norm_num

/-- `Distance`: the residual never raises the flag; the Jacobian raises it exactly when the two
points are closer than `EPSILON`. -/
theorem degenerate_sound_distance (v : Nat → ℝ) (p0 p1 : Pt) (d : ℝ) :
    ((Constraint.distance p0 p1 d).residualV v).degenerate = false ∧
    (((Constraint.distance p0 p1 d).jacobianV v).degenerate = true ↔
      ptDist v p0 p1 < (EPS : ℝ)) := by
  constructor
  · simp [Constraint.residualV, Res.mk1]
  · simp only [Constraint.jacobianV, distJacRow, hypot_real, ptDist]
    split <;> simp_all

/-- `LinesAtAngle(Other θ)`: residual and Jacobian raise the flag exactly when one of the two lines
is shorter than `EPSILON`. -/
theorem degenerate_sound_linesAtAngle (v : Nat → ℝ) (l0 l1 : Seg) (θ : Angle ℝ) :
    (((Constraint.linesAtAngle l0 l1 (.other θ)).residualV v).degenerate = true ↔
      (ptDist v l0.p0 l0.p1 < (EPS : ℝ) ∨ ptDist v l1.p0 l1.p1 < (EPS : ℝ))) ∧
    (((Constraint.linesAtAngle l0 l1 (.other θ)).jacobianV v).degenerate = true ↔
      (ptDist v l0.p0 l0.p1 < (EPS : ℝ) ∨ ptDist v l1.p0 l1.p1 < (EPS : ℝ))) := by
  constructor
  · simp only [Constraint.residualV, linesAtAngleResidual, hypot_real, ptDist]
    split <;> simp_all [Res.degen, Res.mk1]
  · simp only [Constraint.jacobianV, linesAtAngleJac, hypot_real, ptDist]
    split <;> simp_all

/-- `ArcAngle`: residual and Jacobian raise the flag exactly when the start radius or the end
radius of the arc is below `EPSILON`. -/
theorem degenerate_sound_arcAngle (v : Nat → ℝ) (a : ArcD) (θ : Angle ℝ) :
    (((Constraint.arcAngle a θ).residualV v).degenerate = true ↔
      (ptDist v a.center a.start < (EPS : ℝ) ∨ ptDist v a.center a.stop < (EPS : ℝ))) ∧
    (((Constraint.arcAngle a θ).jacobianV v).degenerate = true ↔
      (ptDist v a.center a.start < (EPS : ℝ) ∨ ptDist v a.center a.stop < (EPS : ℝ))) := by
  constructor
  · simp only [Constraint.residualV, linesAtAngleResidual, hypot_real, ptDist]
    split <;> simp_all [Res.degen, Res.mk1]
  · simp only [Constraint.jacobianV, linesAtAngleJac, hypot_real, ptDist]
    split <;> simp_all

/-- `LineTangentToCircle`: the residual raises the flag exactly when the line is shorter than
`EPSILON`; the Jacobian guards the *squared* length with the same constant, so it raises the flag
exactly when the line is shorter than `0.01`.  The circle's radius is not looked at. -/
theorem degenerate_sound_lineTangentToCircle (v : Nat → ℝ) (l : Seg) (c : Circ) :
    (((Constraint.lineTangentToCircle l c).residualV v).degenerate = true ↔
      ptDist v l.p0 l.p1 < (EPS : ℝ)) ∧
    (((Constraint.lineTangentToCircle l c).jacobianV v).degenerate = true ↔
      ptDist v l.p0 l.p1 < 0.01) := by
  constructor
  · rw [ptDist_comm]
    simp only [Constraint.residualV, hypot_real, ptDist]
    split <;> simp_all [Res.degen, Res.mk1]
  · rw [ptDist, sqrt_lt_cent]
    simp only [Constraint.jacobianV, sqr]
    by_cases h : (v l.p0.x - v l.p1.x) * (v l.p0.x - v l.p1.x) +
        (v l.p0.y - v l.p1.y) * (v l.p0.y - v l.p1.y) < (EPS : ℝ) <;> simp [h]

/-- `PointLineDistance`: the residual raises the flag exactly when the line is shorter than
`EPSILON`; the Jacobian has no guard and never raises it. -/
theorem degenerate_sound_pointLineDistance (v : Nat → ℝ) (p : Pt) (l : Seg) (d : ℝ) :
    (((Constraint.pointLineDistance p l d).residualV v).degenerate = true ↔
      ptDist v l.p0 l.p1 < (EPS : ℝ)) ∧
    ((Constraint.pointLineDistance p l d).jacobianV v).degenerate = false := by
  constructor
  · have hswap : ptDist v l.p0 l.p1 = Real.sqrt ((v l.p0.y - v l.p1.y) * (v l.p0.y - v l.p1.y) +
        (v l.p1.x - v l.p0.x) * (v l.p1.x - v l.p0.x)) := by
      unfold ptDist; congr 1; ring
    rw [hswap]
    simp only [Constraint.residualV, hypot_real]
    split <;> simp_all [Res.degen, Res.mk1]
  · simp [Constraint.jacobianV]

/-- `VerticalPointLineDistance`: both evaluations raise the flag exactly when the line is within
`EPSILON` of vertical or its squared length is below `EPSILON` (length below `0.01`). -/
theorem degenerate_sound_verticalPointLineDistance (v : Nat → ℝ) (p : Pt) (l : Seg) (d : ℝ) :
    (((Constraint.verticalPointLineDistance p l d).residualV v).degenerate = true ↔
      (|v l.p1.x - v l.p0.x| < (EPS : ℝ) ∨ ptDist v l.p1 l.p0 < 0.01)) ∧
    (((Constraint.verticalPointLineDistance p l d).jacobianV v).degenerate = true ↔
      (|v l.p1.x - v l.p0.x| < (EPS : ℝ) ∨ ptDist v l.p1 l.p0 < 0.01)) := by
  rw [ptDist, sqrt_lt_cent]
  constructor
  · simp only [Constraint.residualV, abs_real]
    split <;> simp_all [Res.degen, Res.mk1]
  · simp only [Constraint.jacobianV, abs_real]
    split <;> simp_all

/-- `HorizontalPointLineDistance`: both evaluations raise the flag exactly when the line is within
`EPSILON` of horizontal or its squared length is below `EPSILON` (length below `0.01`). -/
theorem degenerate_sound_horizontalPointLineDistance (v : Nat → ℝ) (p : Pt) (l : Seg) (d : ℝ) :
    (((Constraint.horizontalPointLineDistance p l d).residualV v).degenerate = true ↔
      (|v l.p1.y - v l.p0.y| < (EPS : ℝ) ∨ ptDist v l.p1 l.p0 < 0.01)) ∧
    (((Constraint.horizontalPointLineDistance p l d).jacobianV v).degenerate = true ↔
      (|v l.p1.y - v l.p0.y| < (EPS : ℝ) ∨ ptDist v l.p1 l.p0 < 0.01)) := by
  rw [ptDist, sqrt_lt_cent]
  constructor
  · simp only [Constraint.residualV, abs_real]
    split <;> simp_all [Res.degen, Res.mk1]
  · simp only [Constraint.jacobianV, abs_real]
    split <;> simp_all

/-- `LinesEqualLength`: the residual never raises the flag; the Jacobian raises it exactly when one
of the two lines is shorter than `EPSILON`. -/
theorem degenerate_sound_linesEqualLength (v : Nat → ℝ) (l0 l1 : Seg) :
    ((Constraint.linesEqualLength l0 l1 : Constraint ℝ).residualV v).degenerate = false ∧
    (((Constraint.linesEqualLength l0 l1 : Constraint ℝ).jacobianV v).degenerate = true ↔
      (ptDist v l0.p0 l0.p1 < (EPS : ℝ) ∨ ptDist v l1.p0 l1.p1 < (EPS : ℝ))) := by
  constructor
  · simp [Constraint.residualV, Res.mk1]
  · simp only [Constraint.jacobianV, hypot_real, ptDist]
    split <;> simp_all

/-- `ArcRadius`: the residual never raises the flag; the Jacobian raises it exactly when the start
radius or the end radius is below `EPSILON` (zero-radius arc). -/
theorem degenerate_sound_arcRadius (v : Nat → ℝ) (a : ArcD) (r : ℝ) :
    ((Constraint.arcRadius a r).residualV v).degenerate = false ∧
    (((Constraint.arcRadius a r).jacobianV v).degenerate = true ↔
      (ptDist v a.center a.start < (EPS : ℝ) ∨ ptDist v a.center a.stop < (EPS : ℝ))) := by
  constructor
  · simp [Constraint.residualV, Res.mk2]
  · simp only [Constraint.jacobianV, distJacRow, hypot_real, ptDist]
    split <;> split <;> simp_all

/-- `ArcLength`: both evaluations raise the flag exactly when the squared start radius is below
`EPSILON`, i.e. the radius is below `0.01`. -/
theorem degenerate_sound_arcLength (v : Nat → ℝ) (a : ArcD) (d : ℝ) :
    (((Constraint.arcLength a d).residualV v).degenerate = true ↔
      ptDist v a.start a.center < 0.01) ∧
    (((Constraint.arcLength a d).jacobianV v).degenerate = true ↔
      ptDist v a.start a.center < 0.01) := by
  rw [ptDist, sqrt_lt_cent]
  constructor
  · simp only [Constraint.residualV]
    split <;> simp_all [Res.degen, Res.mk2]
  · simp only [Constraint.jacobianV]
    by_cases h : (v a.start.x - v a.center.x) * (v a.start.x - v a.center.x) +
        (v a.start.y - v a.center.y) * (v a.start.y - v a.center.y) < (EPS : ℝ) <;> simp [h]

/-- `Symmetric`: the residual never raises the flag (it divides by the squared length of the axis
unguarded); the Jacobian raises it exactly when the *fourth power* of the axis length is below
`EPSILON`. -/
theorem degenerate_sound_symmetric (v : Nat → ℝ) (l : Seg) (a b : Pt) :
    ((Constraint.symmetric l a b : Constraint ℝ).residualV v).degenerate = false ∧
    (((Constraint.symmetric l a b : Constraint ℝ).jacobianV v).degenerate = true ↔
      ((v l.p0.x - v l.p1.x) * (v l.p0.x - v l.p1.x) +
        (v l.p0.y - v l.p1.y) * (v l.p0.y - v l.p1.y)) *
      ((v l.p0.x - v l.p1.x) * (v l.p0.x - v l.p1.x) +
        (v l.p0.y - v l.p1.y) * (v l.p0.y - v l.p1.y)) < (EPS : ℝ)) := by
  constructor
  · simp [Constraint.residualV, Res.mk2]
  · simp only [Constraint.jacobianV, sqr]
    by_cases h : ((v l.p0.x - v l.p1.x) * (v l.p0.x - v l.p1.x) +
        (v l.p0.y - v l.p1.y) * (v l.p0.y - v l.p1.y)) *
      ((v l.p0.x - v l.p1.x) * (v l.p0.x - v l.p1.x) +
        (v l.p0.y - v l.p1.y) * (v l.p0.y - v l.p1.y)) < (EPS : ℝ) <;> simp [h]

/-- `PointArcCoincident`: the residual never raises the flag; the Jacobian raises it exactly when
the point is within `EPSILON` of the centre or the arc's radius is below `EPSILON`. -/
theorem degenerate_sound_pointArcCoincident (v : Nat → ℝ) (a : ArcD) (p : Pt) :
    ((Constraint.pointArcCoincident a p : Constraint ℝ).residualV v).degenerate = false ∧
    (((Constraint.pointArcCoincident a p : Constraint ℝ).jacobianV v).degenerate = true ↔
      (ptDist v a.center p < (EPS : ℝ) ∨ ptDist v a.center a.start < (EPS : ℝ))) := by
  constructor
  · simp only [Constraint.residualV]
    split <;> rfl
  · simp only [Constraint.jacobianV, distJacRow, hypot_real, ptDist]
    split <;> split <;> simp_all

/-- `CircleRadius` has no guard at all: a zero (or negative) radius never produces a degeneracy
notice from this kind. -/
theorem circle_kinds_unguarded (v : Nat → ℝ) (c : Circ) (r : ℝ) :
    ((Constraint.circleRadius c r).residualV v).degenerate = false ∧
    ((Constraint.circleRadius c r).jacobianV v).degenerate = false :=
  ⟨(never_degenerate_kinds _ rfl v).1, (never_degenerate_kinds _ rfl v).2⟩

/-- `CircleTangentToCircle` (after the fix for finding F22): the residual never raises the flag; the
Jacobian raises it exactly when the two centres are closer than `EPSILON` (the derivative with
respect to the centres is the unit vector between them, undefined for concentric circles).  A zero
or negative radius is still not guarded. -/
theorem degenerate_sound_circleTangentToCircle (v : Nat → ℝ) (c c' : Circ) :
    ((Constraint.circleTangentToCircle c c' : Constraint ℝ).residualV v).degenerate = false ∧
    (((Constraint.circleTangentToCircle c c' : Constraint ℝ).jacobianV v).degenerate = true ↔
      Real.sqrt ((v c.center.x - v c'.center.x) * (v c.center.x - v c'.center.x)
        + (v c.center.y - v c'.center.y) * (v c.center.y - v c'.center.y)) < (EPS : ℝ)) := by
  constructor
  · simp only [Constraint.residualV]
    split <;> rfl
  · simp only [Constraint.jacobianV, sqrt_real, sqr]
    by_cases h : Real.sqrt ((v c.center.x - v c'.center.x) * (v c.center.x - v c'.center.x)
        + (v c.center.y - v c'.center.y) * (v c.center.y - v c'.center.y)) < (EPS : ℝ)
    · simp [h]
    · simp [h]

/-! ### 6. `neverDegenerate` is exactly the set of unguarded kinds -/

/-- Every kind outside `neverDegenerate` does raise the flag somewhere: at the all-zero assignment
(every line of zero length, every radius zero). -/
theorem guarded_kinds_can_degenerate (c : Constraint ℝ) (h : neverDegenerate c = false) :
    (c.residualV (fun _ => 0)).degenerate = true ∨
    (c.jacobianV (fun _ => 0)).degenerate = true := by
  have heps : (0 : ℝ) < EPS := EPS_pos
  cases c with
  | linesAtAngle l0 l1 k =>
    cases k <;> simp_all [neverDegenerate, Constraint.residualV, linesAtAngleResidual, Res.degen]
  | pointArcCoincident a p =>
    right
    simp only [Constraint.jacobianV, distJacRow, hypot_real, sub_self, mul_zero, add_zero,
      Real.sqrt_zero, heps, if_true]
    split <;> simp
  | _ =>
    simp_all [neverDegenerate, Constraint.residualV, Constraint.jacobianV, linesAtAngleResidual,
      Res.degen, distJacRow, sqr]

/-! ### 7. A collapse at the initial guess is reported, naming the request -/

/-- Coincident points have distance zero. -/
theorem ptDist_eq_zero (v : Nat → ℝ) (p q : Pt) (hx : v p.x = v q.x) (hy : v p.y = v q.y) :
    ptDist v p q = 0 := by
  simp [ptDist, hx, hy]

/-- **Zero-length line in an explicit-angle request.**  If the initial guess puts both ends of one
of the two lines of a `LinesAtAngle(Other θ)` request `e` at the same place, then (the system being
accepted by `Model::new`, with at least one iteration allowed) the result — `Ok` or `Err` — of
`solveInner` contains the degeneracy notice naming `e`. -/
theorem collapse_reported_linesAtAngle (es : List (Entry ℝ)) (g : List (Nat × ℝ)) (cfg : Config ℝ)
    (solve : Nat → List (Triplet ℝ) → List ℝ → Except SolveError (List ℝ))
    (analyze : Option (List (Triplet ℝ) → Except SolveError (List ℝ × List (List ℝ))))
    (hm : modelNew es (g.map (·.1)) = .ok ()) (hit : 1 ≤ cfg.maxIterations)
    (e : Entry ℝ) (he : e ∈ es) (l0 l1 : Seg) (θ : Angle ℝ)
    (hc : e.c = .linesAtAngle l0 l1 (.other θ))
    (hzero : (guessValuation g l0.p0.x = guessValuation g l0.p1.x ∧
        guessValuation g l0.p0.y = guessValuation g l0.p1.y) ∨
      (guessValuation g l1.p0.x = guessValuation g l1.p1.x ∧
        guessValuation g l1.p0.y = guessValuation g l1.p1.y)) :
    degenerateWarning e ∈ resultWarnings (solveInner es g cfg solve analyze) := by
  apply degenerate_complete_at_guess_kernel es g cfg solve analyze hm hit e he
  left
  rw [hc, (degenerate_sound_linesAtAngle _ l0 l1 θ).1]
  rcases hzero with ⟨hx, hy⟩ | ⟨hx, hy⟩
  · left; rw [ptDist_eq_zero _ _ _ hx hy]; exact EPS_pos
  · right; rw [ptDist_eq_zero _ _ _ hx hy]; exact EPS_pos

/-- **Coincident points in a `Distance` request** are reported. -/
theorem collapse_reported_distance (es : List (Entry ℝ)) (g : List (Nat × ℝ)) (cfg : Config ℝ)
    (solve : Nat → List (Triplet ℝ) → List ℝ → Except SolveError (List ℝ))
    (analyze : Option (List (Triplet ℝ) → Except SolveError (List ℝ × List (List ℝ))))
    (hm : modelNew es (g.map (·.1)) = .ok ()) (hit : 1 ≤ cfg.maxIterations)
    (e : Entry ℝ) (he : e ∈ es) (p0 p1 : Pt) (d : ℝ) (hc : e.c = .distance p0 p1 d)
    (hx : guessValuation g p0.x = guessValuation g p1.x)
    (hy : guessValuation g p0.y = guessValuation g p1.y) :
    degenerateWarning e ∈ resultWarnings (solveInner es g cfg solve analyze) := by
  apply degenerate_complete_at_guess_kernel es g cfg solve analyze hm hit e he
  right
  rw [hc, (degenerate_sound_distance _ p0 p1 d).2, ptDist_eq_zero _ _ _ hx hy]
  exact EPS_pos

/-- **Zero-length line in a `LineTangentToCircle` request** is reported. -/
theorem collapse_reported_lineTangentToCircle (es : List (Entry ℝ)) (g : List (Nat × ℝ))
    (cfg : Config ℝ)
    (solve : Nat → List (Triplet ℝ) → List ℝ → Except SolveError (List ℝ))
    (analyze : Option (List (Triplet ℝ) → Except SolveError (List ℝ × List (List ℝ))))
    (hm : modelNew es (g.map (·.1)) = .ok ()) (hit : 1 ≤ cfg.maxIterations)
    (e : Entry ℝ) (he : e ∈ es) (l : Seg) (c : Circ) (hc : e.c = .lineTangentToCircle l c)
    (hx : guessValuation g l.p0.x = guessValuation g l.p1.x)
    (hy : guessValuation g l.p0.y = guessValuation g l.p1.y) :
    degenerateWarning e ∈ resultWarnings (solveInner es g cfg solve analyze) := by
  apply degenerate_complete_at_guess_kernel es g cfg solve analyze hm hit e he
  left
  rw [hc, (degenerate_sound_lineTangentToCircle _ l c).1, ptDist_eq_zero _ _ _ hx hy]
  exact EPS_pos

/-- **Zero-length line in a `PointLineDistance` request** is reported. -/
theorem collapse_reported_pointLineDistance (es : List (Entry ℝ)) (g : List (Nat × ℝ))
    (cfg : Config ℝ)
    (solve : Nat → List (Triplet ℝ) → List ℝ → Except SolveError (List ℝ))
    (analyze : Option (List (Triplet ℝ) → Except SolveError (List ℝ × List (List ℝ))))
    (hm : modelNew es (g.map (·.1)) = .ok ()) (hit : 1 ≤ cfg.maxIterations)
    (e : Entry ℝ) (he : e ∈ es) (p : Pt) (l : Seg) (d : ℝ) (hc : e.c = .pointLineDistance p l d)
    (hx : guessValuation g l.p0.x = guessValuation g l.p1.x)
    (hy : guessValuation g l.p0.y = guessValuation g l.p1.y) :
    degenerateWarning e ∈ resultWarnings (solveInner es g cfg solve analyze) := by
  apply degenerate_complete_at_guess_kernel es g cfg solve analyze hm hit e he
  left
  rw [hc, (degenerate_sound_pointLineDistance _ p l d).1, ptDist_eq_zero _ _ _ hx hy]
  exact EPS_pos

/-- **Zero-radius arc** (start point on the centre) in an `ArcRadius`, `ArcLength` or `ArcAngle`
request is reported. -/
theorem collapse_reported_zero_radius_arc (es : List (Entry ℝ)) (g : List (Nat × ℝ))
    (cfg : Config ℝ)
    (solve : Nat → List (Triplet ℝ) → List ℝ → Except SolveError (List ℝ))
    (analyze : Option (List (Triplet ℝ) → Except SolveError (List ℝ × List (List ℝ))))
    (hm : modelNew es (g.map (·.1)) = .ok ()) (hit : 1 ≤ cfg.maxIterations)
    (e : Entry ℝ) (he : e ∈ es) (a : ArcD)
    (hc : (∃ r, e.c = .arcRadius a r) ∨ (∃ d, e.c = .arcLength a d) ∨ (∃ θ, e.c = .arcAngle a θ))
    (hx : guessValuation g a.center.x = guessValuation g a.start.x)
    (hy : guessValuation g a.center.y = guessValuation g a.start.y) :
    degenerateWarning e ∈ resultWarnings (solveInner es g cfg solve analyze) := by
  apply degenerate_complete_at_guess_kernel es g cfg solve analyze hm hit e he
  right
  rcases hc with ⟨r, hc⟩ | ⟨d, hc⟩ | ⟨θ, hc⟩
  · rw [hc, (degenerate_sound_arcRadius _ a r).2]
    left; rw [ptDist_eq_zero _ _ _ hx hy]; exact EPS_pos
  · rw [hc, (degenerate_sound_arcLength _ a d).2, ptDist_eq_zero _ _ _ hx.symm hy.symm]
    norm_num
  · rw [hc, (degenerate_sound_arcAngle _ a θ).2]
    left; rw [ptDist_eq_zero _ _ _ hx hy]; exact EPS_pos

/-! ### 8. Non-vacuity -/

/-- The hypotheses of `collapse_reported_distance` are met by a concrete system: one `Distance`
request between the points `(x₀,x₁)` and `(x₂,x₃)`, four guesses all equal to `0`. -/
example :
    modelNew ([⟨.distance ⟨0, 1⟩ ⟨2, 3⟩ 5, 0, 0⟩] : List (Entry ℝ))
      (([(0, 0), (1, 0), (2, 0), (3, 0)] : List (Nat × ℝ)).map (·.1)) = .ok () ∧
    1 ≤ (Config.default : Config ℝ).maxIterations ∧
    guessValuation ([(0, 0), (1, 0), (2, 0), (3, 0)] : List (Nat × ℝ)) 0 =
      guessValuation ([(0, 0), (1, 0), (2, 0), (3, 0)] : List (Nat × ℝ)) 2 ∧
    guessValuation ([(0, 0), (1, 0), (2, 0), (3, 0)] : List (Nat × ℝ)) 1 =
      guessValuation ([(0, 0), (1, 0), (2, 0), (3, 0)] : List (Nat × ℝ)) 3 :=
  ⟨rfl, by decide, rfl, rfl⟩

/-- The hypotheses of the lint theorems are met: 180 degrees fires, 45 degrees is quiet. -/
example : lintOne (⟨.linesAtAngle ⟨⟨0, 1⟩, ⟨2, 3⟩⟩ ⟨⟨4, 5⟩, ⟨6, 7⟩⟩ (.other ⟨180, true⟩), 3, 0⟩ :
    Entry ℝ) = some ⟨some 3, .shouldBeParallel ⟨180, true⟩⟩ :=
  lint_fires_parallel _ _ _ _ rfl (Or.inl ⟨rfl, Or.inr (Or.inl rfl)⟩)

example : lintOne (⟨.linesAtAngle ⟨⟨0, 1⟩, ⟨2, 3⟩⟩ ⟨⟨4, 5⟩, ⟨6, 7⟩⟩ (.other ⟨45, true⟩), 3, 0⟩ :
    Entry ℝ) = none := by
  apply lint_quiet_sharp _ _ _ _ rfl <;>
    (simp only [Angle.toDegrees, if_true, EPS_real]; norm_num)

/-! ### 9. The lint does NOT always survive at the public entry point (witness) -/

/-- **Counterexample to "a special-angle request always gets its warning".**  Two requests: a
`Fixed` at priority 0 that the guess already satisfies, and an explicit 90-degree line request at
priority 1 (whose level fails — here because its variables have no guesses).  The prioritised solve
returns `Ok` with the level-0 outcome, whose warnings are empty: the 90-degree request is not
warned about, although `lintOne` does produce the "use Perpendicular" warning for it.  By
`no_warning_above_solved_priority` the same happens whenever the returned outcome is that of an
earlier level (a later level failed or was left unsatisfied). -/
theorem lint_lost_below_solved_priority (cfg : Config ℝ) (solve : LinSolve ℝ)
    (hit : 1 ≤ cfg.maxIterations) (htol : 0 ≤ cfg.convergenceTolerance) :
    ∃ o, solveWithPriority
        [(.fixed 0 1, 0),
         (.linesAtAngle ⟨⟨1, 2⟩, ⟨3, 4⟩⟩ ⟨⟨5, 6⟩, ⟨7, 8⟩⟩ (.other ⟨90, true⟩), 1)]
        [(0, (1 : ℝ))] cfg solve none = .ok o ∧ o.warnings = [] ∧ o.unsatisfied = [] ∧
      lintOne (⟨.linesAtAngle ⟨⟨1, 2⟩, ⟨3, 4⟩⟩ ⟨⟨5, 6⟩, ⟨7, 8⟩⟩ (.other ⟨90, true⟩), 1, 1⟩ :
        Entry ℝ) = some ⟨some 1, .shouldBePerpendicular ⟨90, true⟩⟩ := by
  obtain ⟨m, hm⟩ : ∃ m, cfg.maxIterations = m + 1 := ⟨cfg.maxIterations - 1, by omega⟩
  have heps : (0 : ℝ) < EPS := EPS_pos
  have h0 : solveInner ([⟨.fixed 0 1, 0, 0⟩] : List (Entry ℝ)) [(0, (1 : ℝ))] cfg (solve 0) none =
      .ok ⟨[], [1], 0, [], 0, none⟩ := by
    simp [solveInner, modelNew, validateVariables,
      firstMissing, Constraint.nonzeroes, pattern, patternFrom, takeRows, Constraint.residualDim,
      newton, hm, newtonLoop, newtonStep, residualAll, jacobianAll, jacobianFrom,
      Constraint.residual, Constraint.residualReads, Constraint.jacobianRows,
      Constraint.jacobianReads, Constraint.residualV, Constraint.jacobianV, lookup, Res.mk1,
      maxAbs?, htol, unsatisfiedSweep, isSatisfied, heps, runAnalysis, lint, lintOne,
      maxPriority]
  have h1 : ∃ f, solveInner ([⟨.fixed 0 1, 0, 0⟩,
      ⟨.linesAtAngle ⟨⟨1, 2⟩, ⟨3, 4⟩⟩ ⟨⟨5, 6⟩, ⟨7, 8⟩⟩ (.other ⟨90, true⟩), 1, 1⟩] : List (Entry ℝ))
      [(0, (1 : ℝ))] cfg (solve 1) none = .error f := by
    have hmn : modelNew ([⟨.fixed 0 1, 0, 0⟩,
        ⟨.linesAtAngle ⟨⟨1, 2⟩, ⟨3, 4⟩⟩ ⟨⟨5, 6⟩, ⟨7, 8⟩⟩ (.other ⟨90, true⟩), 1, 1⟩] :
        List (Entry ℝ)) (([(0, (1 : ℝ))] : List (Nat × ℝ)).map (·.1)) =
        .error (.missingGuess 1 1) := rfl
    unfold solveInner
    rw [hmn]
    exact ⟨_, rfl⟩
  obtain ⟨f, h1⟩ := h1
  refine ⟨⟨[], [1], 0, [], 0, none⟩, ?_, rfl, rfl, ?_⟩
  · have hl : levels (enumerate ([(.fixed 0 1, 0),
         (.linesAtAngle ⟨⟨1, 2⟩, ⟨3, 4⟩⟩ ⟨⟨5, 6⟩, ⟨7, 8⟩⟩ (.other ⟨90, true⟩), 1)] :
         List (Constraint ℝ × Nat))) = [0, 1] := rfl
    have he : enumerate ([(.fixed 0 1, 0),
         (.linesAtAngle ⟨⟨1, 2⟩, ⟨3, 4⟩⟩ ⟨⟨5, 6⟩, ⟨7, 8⟩⟩ (.other ⟨90, true⟩), 1)] :
         List (Constraint ℝ × Nat)) = [⟨.fixed 0 1, 0, 0⟩,
      ⟨.linesAtAngle ⟨⟨1, 2⟩, ⟨3, 4⟩⟩ ⟨⟨5, 6⟩, ⟨7, 8⟩⟩ (.other ⟨90, true⟩), 1, 1⟩] := rfl
    unfold solveWithPriority
    rw [hl, he]
    simp [priorityLoop, h0, h1]
  · exact lint_fires_perpendicular _ _ _ _ rfl (Or.inl ⟨rfl, Or.inl rfl⟩)

end Ezpz
