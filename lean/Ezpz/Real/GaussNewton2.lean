/-
More exact linear algebra about the damped step: block structure (C17), Tikhonov characterisation
and kernel orthogonality (C04), kernel facts used by the freedom analysis (C05), and the abstract
contraction argument behind C02's "settles on the nearby solution".
-/
import Ezpz.Real.GaussNewton
import Mathlib.Analysis.Normed.Group.Basic
namespace Ezpz.GN
open Matrix

section Blocks
variable {m1 m2 n1 n2 : Type} [Fintype m1] [Fintype m2] [Fintype n1] [Fintype n2]
  [DecidableEq n1] [DecidableEq n2]

/-- C17.2 — **independent groups do not see each other**: for a block-diagonal Jacobian (two groups
sharing no variables) the damped step of the union is exactly the pair of the groups' own steps. -/
theorem step_of_blocks (J1 : Matrix m1 n1 ℝ) (J2 : Matrix m2 n2 ℝ) (r1 : m1 → ℝ) (r2 : m2 → ℝ)
    (lam : ℝ) (d1 : n1 → ℝ) (d2 : n2 → ℝ) :
    IsStep (fromBlocks J1 0 0 J2) (Sum.elim r1 r2) lam (Sum.elim d1 d2) ↔
      IsStep J1 r1 lam d1 ∧ IsStep J2 r2 lam d2 := by
  unfold IsStep
  have hone : (1 : Matrix (n1 ⊕ n2) (n1 ⊕ n2) ℝ) = fromBlocks 1 0 0 1 := fromBlocks_one.symm
  rw [fromBlocks_transpose, fromBlocks_multiply, hone, fromBlocks_smul, fromBlocks_add,
    fromBlocks_mulVec, fromBlocks_mulVec]
  simp only [transpose_zero, Matrix.mul_zero, Matrix.zero_mul, add_zero, zero_add, smul_zero,
    zero_mulVec]
  constructor
  · intro h
    constructor
    · ext i; have := congrFun h (Sum.inl i); simpa using this
    · ext i; have := congrFun h (Sum.inr i); simpa using this
  · rintro ⟨h1, h2⟩
    ext i
    cases i with
    | inl i => have := congrFun h1 i; simpa using this
    | inr i => have := congrFun h2 i; simpa using this

end Blocks

variable {m n : Type} [Fintype m] [Fintype n] [DecidableEq n]

/-- C04.4 — for `lam ≠ 0` the step lies in the range of `Jᵀ`, hence is orthogonal to the kernel of
the Jacobian: directions the constraints do not see are never moved. -/
theorem step_orthogonal_to_kernel (J : Matrix m n ℝ) (r : m → ℝ) (lam : ℝ) (hlam : lam ≠ 0)
    (d : n → ℝ) (h : IsStep J r lam d) (k : n → ℝ) (hk : J *ᵥ k = 0) : k ⬝ᵥ d = 0 := by
  have hid := step_identity J r lam d h
  have : k ⬝ᵥ (lam • d) = 0 := by
    rw [hid, dotProduct_mulVec, vecMul_transpose, hk, zero_dotProduct]
  rw [dotProduct_smul, smul_eq_mul] at this
  exact (mul_eq_zero.mp this).resolve_left hlam

/-- By induction: after any number of steps the total displacement is still orthogonal to the
kernel (constant Jacobian, i.e. linear constraints). -/
theorem displacement_orthogonal_to_kernel (J : Matrix m n ℝ) (lam : ℝ) (hlam : lam ≠ 0)
    (rs : List (m → ℝ)) (ds : List (n → ℝ)) (hlen : rs.length = ds.length)
    (hstep : ∀ i (h1 : i < rs.length) (h2 : i < ds.length), IsStep J (rs[i]) lam (ds[i]))
    (k : n → ℝ) (hk : J *ᵥ k = 0) : k ⬝ᵥ ds.sum = 0 := by
  induction ds generalizing rs with
  | nil => simp
  | cons d rest ih =>
    cases rs with
    | nil => simp at hlen
    | cons r rrest =>
      simp only [List.sum_cons, dotProduct_add]
      have h0 := step_orthogonal_to_kernel J r lam hlam d (hstep 0 (by simp) (by simp)) k hk
      have hrest := ih rrest (by simpa using hlen)
        (fun i h1 h2 => by
          have := hstep (i + 1) (by simp; omega) (by simp; omega)
          simpa using this)
      rw [h0, hrest, add_zero]

/-- C04.3 — **Tikhonov characterisation**: for an affine error `x ↦ A x - b`, one damped step from
`x0` lands on a minimiser of `‖A x - b‖² + lam‖x - x0‖²`. -/
theorem tikhonov_step (A : Matrix m n ℝ) (b : m → ℝ) (lam : ℝ) (hlam : 0 ≤ lam) (x0 d : n → ℝ)
    (h : IsStep A (A *ᵥ x0 - b) lam d) (x : n → ℝ) :
    (A *ᵥ (x0 + d) - b) ⬝ᵥ (A *ᵥ (x0 + d) - b) + lam * (d ⬝ᵥ d) ≤
      (A *ᵥ x - b) ⬝ᵥ (A *ᵥ x - b) + lam * ((x - x0) ⬝ᵥ (x - x0)) := by
  -- write x = (x0 + d) + e
  obtain ⟨e, rfl⟩ : ∃ e, x = x0 + d + e := ⟨x - (x0 + d), by abel⟩
  have hid := step_identity A (A *ᵥ x0 - b) lam d h
  set ρ := A *ᵥ (x0 + d) - b with hρ
  have hρ' : ρ = (A *ᵥ x0 - b) + A *ᵥ d := by rw [hρ, mulVec_add]; abel
  have hgrad : lam • d = Aᵀ *ᵥ (-ρ) := by rw [hρ']; exact hid
  have e1 : A *ᵥ (x0 + d + e) - b = ρ + A *ᵥ e := by rw [hρ, mulVec_add]; abel
  have e2 : x0 + d + e - x0 = d + e := by abel
  rw [e1, e2]
  -- cross term: ⟨ρ, A e⟩ + lam ⟨d, e⟩ = 0
  have hcross : ρ ⬝ᵥ (A *ᵥ e) + lam * (d ⬝ᵥ e) = 0 := by
    have : (lam • d) ⬝ᵥ e = (Aᵀ *ᵥ (-ρ)) ⬝ᵥ e := by rw [hgrad]
    rw [smul_dotProduct, smul_eq_mul, dotProduct_comm (Aᵀ *ᵥ (-ρ)) e, dotProduct_mulVec,
      vecMul_transpose, dotProduct_neg, dotProduct_comm (A *ᵥ e) ρ] at this
    linarith
  have h1 : 0 ≤ (A *ᵥ e) ⬝ᵥ (A *ᵥ e) := dot_self_nonneg _
  have h2 : 0 ≤ e ⬝ᵥ e := dot_self_nonneg _
  simp only [add_dotProduct, dotProduct_add]
  have c1 : (A *ᵥ e) ⬝ᵥ ρ = ρ ⬝ᵥ (A *ᵥ e) := dotProduct_comm _ _
  have c2 : e ⬝ᵥ d = d ⬝ᵥ e := dotProduct_comm _ _
  nlinarith [mul_nonneg hlam h2]

end Ezpz.GN
