/-
C13 over ℝ, part C: `CircleTangentToCircle` (row 0) and `PointArcCoincident` (rows 0, 1, 2).
For each row: outside the stated regularity set, the model's Jacobian row is the derivative of the
model's error measure along every line `t ↦ v + t·u` (all id assignments, aliasing included).
-/
import Ezpz.Real.Deriv
namespace Ezpz
open Transc Filter Topology

theorem ANG_TOL_real : (ANG_TOL : ℝ) = 0.05 := rfl

theorem ANG_TOL_pos : (0 : ℝ) < ANG_TOL := by rw [ANG_TOL_real]; norm_num

variable (v u : Nat → ℝ)

/-- Row 0 of the error measure of `PointArcCoincident` does not depend on the gate. -/
theorem pac_res_r0 (arc : ArcD) (p : Pt) (w : Nat → ℝ) :
    ((Constraint.pointArcCoincident arc p).residualV w).r0 =
      Real.sqrt ((w arc.center.x - w p.x) * (w arc.center.x - w p.x)
        + (w arc.center.y - w p.y) * (w arc.center.y - w p.y))
      - Real.sqrt ((w arc.center.x - w arc.start.x) * (w arc.center.x - w arc.start.x)
        + (w arc.center.y - w arc.start.y) * (w arc.center.y - w arc.start.y)) := by
  simp only [Constraint.residualV, hypot_real, abs_real]
  split_ifs <;> rfl

/-- Both square roots in row 0 of `PointArcCoincident` are away from zero: the distance from the
arc centre to the point is not below `EPS` (the guard of the `Distance` row) and the arc radius is
at least `EPS` (the `rad_ok` guard).  Equivalent to the Jacobian's `degenerate` flag being false. -/
def RegularPAC0 (arc : ArcD) (p : Pt) (v : Nat → ℝ) : Prop :=
  ¬ Real.sqrt ((v arc.center.x - v p.x) * (v arc.center.x - v p.x)
      + (v arc.center.y - v p.y) * (v arc.center.y - v p.y)) < EPS ∧
  EPS ≤ Real.sqrt ((v arc.center.x - v arc.start.x) * (v arc.center.x - v arc.start.x)
      + (v arc.center.y - v arc.start.y) * (v arc.center.y - v arc.start.y))

theorem regularPAC0_iff (arc : ArcD) (p : Pt) :
    RegularPAC0 arc p v ↔ ((Constraint.pointArcCoincident arc p).jacobianV v).degenerate = false := by
  unfold RegularPAC0
  simp only [Constraint.jacobianV, distJacRow, hypot_real, abs_real]
  by_cases h1 : Real.sqrt ((v arc.center.x - v p.x) * (v arc.center.x - v p.x)
      + (v arc.center.y - v p.y) * (v arc.center.y - v p.y)) < EPS <;>
  by_cases h2 : EPS ≤ Real.sqrt ((v arc.center.x - v arc.start.x) * (v arc.center.x - v arc.start.x)
      + (v arc.center.y - v arc.start.y) * (v arc.center.y - v arc.start.y)) <;>
  split_ifs <;> simp [h1, h2]

theorem deriv_pointArcCoincident_row0 (arc : ArcD) (p : Pt) (hreg : RegularPAC0 arc p v) :
    DerivRow (.pointArcCoincident arc p) v u (·.r0) (·.r0) := by
  obtain ⟨h1, h2⟩ := hreg
  have hpos1 := lt_of_lt_of_le EPS_pos (not_lt.mp h1)
  have hpos2 := lt_of_lt_of_le EPS_pos h2
  have hne1 : (v arc.center.x - v p.x) * (v arc.center.x - v p.x)
      + (v arc.center.y - v p.y) * (v arc.center.y - v p.y) ≠ 0 := by
    intro h0; rw [h0, Real.sqrt_zero] at hpos1; exact lt_irrefl _ hpos1
  have hne2 : (v arc.center.x - v arc.start.x) * (v arc.center.x - v arc.start.x)
      + (v arc.center.y - v arc.start.y) * (v arc.center.y - v arc.start.y) ≠ 0 := by
    intro h0; rw [h0, Real.sqrt_zero] at hpos2; exact lt_irrefl _ hpos2
  unfold DerivRow
  simp only [pac_res_r0]
  have hrow : ((Constraint.pointArcCoincident arc p).jacobianV v).r0 =
      [⟨arc.center.x, (v arc.center.x - v p.x) / Real.sqrt ((v arc.center.x - v p.x) * (v arc.center.x - v p.x)
        + (v arc.center.y - v p.y) * (v arc.center.y - v p.y))⟩,
       ⟨arc.center.y, (v arc.center.y - v p.y) / Real.sqrt ((v arc.center.x - v p.x) * (v arc.center.x - v p.x)
        + (v arc.center.y - v p.y) * (v arc.center.y - v p.y))⟩,
       ⟨p.x, (-v arc.center.x + v p.x) / Real.sqrt ((v arc.center.x - v p.x) * (v arc.center.x - v p.x)
        + (v arc.center.y - v p.y) * (v arc.center.y - v p.y))⟩,
       ⟨p.y, (-v arc.center.y + v p.y) / Real.sqrt ((v arc.center.x - v p.x) * (v arc.center.x - v p.x)
        + (v arc.center.y - v p.y) * (v arc.center.y - v p.y))⟩,
       ⟨arc.start.x, -(v arc.start.x - v arc.center.x) / Real.sqrt ((v arc.center.x - v arc.start.x) * (v arc.center.x - v arc.start.x)
        + (v arc.center.y - v arc.start.y) * (v arc.center.y - v arc.start.y))⟩,
       ⟨arc.start.y, -(v arc.start.y - v arc.center.y) / Real.sqrt ((v arc.center.x - v arc.start.x) * (v arc.center.x - v arc.start.x)
        + (v arc.center.y - v arc.start.y) * (v arc.center.y - v arc.start.y))⟩,
       ⟨arc.center.x, -(-(v arc.start.x - v arc.center.x) / Real.sqrt ((v arc.center.x - v arc.start.x) * (v arc.center.x - v arc.start.x)
        + (v arc.center.y - v arc.start.y) * (v arc.center.y - v arc.start.y)))⟩,
       ⟨arc.center.y, -(-(v arc.start.y - v arc.center.y) / Real.sqrt ((v arc.center.x - v arc.start.x) * (v arc.center.x - v arc.start.x)
        + (v arc.center.y - v arc.start.y) * (v arc.center.y - v arc.start.y)))⟩] := by
    simp only [Constraint.jacobianV, distJacRow, hypot_real, abs_real]
    rw [if_neg h1]
    simp only [h2, decide_true, if_true]
    by_cases hg : |Real.sqrt ((v arc.center.x - v p.x) * (v arc.center.x - v p.x)
        + (v arc.center.y - v p.y) * (v arc.center.y - v p.y))
      - Real.sqrt ((v arc.center.x - v arc.start.x) * (v arc.center.x - v arc.start.x)
        + (v arc.center.y - v arc.start.y) * (v arc.center.y - v arc.start.y))| ≤ ANG_TOL
    · rw [if_pos hg]; rfl
    · rw [if_neg hg]; rfl
  rw [hrow]
  simp only [rowApply, List.map_cons, List.map_nil, List.sum_cons, List.sum_nil]
  apply HasDerivAt.congr_deriv
  · deriv_struct
    · simpa [lineThrough] using hne1
    · simpa [lineThrough] using hne2
  · lits
    have hs1 := hpos1.ne'
    have hs2 := hpos2.ne'
    field_simp
    ring

/-! ### `PointArcCoincident`, rows 1 and 2 (gated one-sided penalties) -/

theorem lineThrough_zero : lineThrough v u 0 = v := by
  funext i; simp [lineThrough]

/-- Row 0 of the error measure: `|centre − p| − |centre − start|`. -/
noncomputable def pacR0 (arc : ArcD) (p : Pt) (w : Nat → ℝ) : ℝ :=
  Real.sqrt ((w arc.center.x - w p.x) * (w arc.center.x - w p.x)
      + (w arc.center.y - w p.y) * (w arc.center.y - w p.y))
    - Real.sqrt ((w arc.center.x - w arc.start.x) * (w arc.center.x - w arc.start.x)
      + (w arc.center.y - w arc.start.y) * (w arc.center.y - w arc.start.y))

/-- Orientation of the arc: `(start − centre) × (stop − centre)`. -/
def pacOrient (arc : ArcD) (w : Nat → ℝ) : ℝ :=
  (w arc.start.x - w arc.center.x) * (w arc.stop.y - w arc.center.y)
    - (w arc.start.y - w arc.center.y) * (w arc.stop.x - w arc.center.x)

/-- `dir`: `+1` for a counter-clockwise arc (orientation `≥ 0`), `-1` otherwise. -/
noncomputable def pacDir (arc : ArcD) (w : Nat → ℝ) : ℝ :=
  if (0.0 : ℝ) ≤ pacOrient arc w then 1.0 else -1.0

/-- `start_cross_raw = (start − centre) × (centre − p)`. -/
def pacStartRaw (arc : ArcD) (p : Pt) (w : Nat → ℝ) : ℝ :=
  (w arc.start.x - w arc.center.x) * (w arc.center.y - w p.y)
    - (w arc.start.y - w arc.center.y) * (w arc.center.x - w p.x)

/-- `end_cross_raw = (stop − centre) × (centre − p)`. -/
def pacEndRaw (arc : ArcD) (p : Pt) (w : Nat → ℝ) : ℝ :=
  (w arc.stop.x - w arc.center.x) * (w arc.center.y - w p.y)
    - (w arc.stop.y - w arc.center.y) * (w arc.center.x - w p.x)

/-- Weight of the start penalty in the Jacobian. -/
noncomputable def pacSW (s : ℝ) : ℝ :=
  if (0.0 : ℝ) < s then 1.0 else if s ≤ 0.0 ∧ (0.0 : ℝ) ≤ s then 0.5 else 0.0

/-- Weight of the end penalty in the Jacobian. -/
noncomputable def pacEW (s : ℝ) : ℝ :=
  if (0.0 : ℝ) < s then 0.0 else if s ≤ 0.0 ∧ (0.0 : ℝ) ≤ s then 0.5 else 1.0

theorem pac_res_r1 (arc : ArcD) (p : Pt) (w : Nat → ℝ) :
    ((Constraint.pointArcCoincident arc p).residualV w).r1 =
      if |pacR0 arc p w| ≤ ANG_TOL then 0.0
      else if pacStartRaw arc p w * pacDir arc w ≤ 0.0 then 0.0
      else -(pacStartRaw arc p w * pacDir arc w) := by
  simp only [Constraint.residualV, hypot_real, abs_real]
  rw [apply_ite Res.r1]
  rfl

theorem pac_res_r2 (arc : ArcD) (p : Pt) (w : Nat → ℝ) :
    ((Constraint.pointArcCoincident arc p).residualV w).r2 =
      if |pacR0 arc p w| ≤ ANG_TOL then 0.0
      else if (0.0 : ℝ) ≤ pacEndRaw arc p w * pacDir arc w then 0.0
      else pacEndRaw arc p w * pacDir arc w := by
  simp only [Constraint.residualV, hypot_real, abs_real]
  rw [apply_ite Res.r2]
  rfl

theorem pac_jac_r1 (arc : ArcD) (p : Pt) :
    ((Constraint.pointArcCoincident arc p).jacobianV v).r1 =
      if |pacR0 arc p v| ≤ ANG_TOL then []
      else
        [⟨arc.center.x, (v arc.start.y - v p.y) * pacSW (pacStartRaw arc p v * pacDir arc v) * pacDir arc v⟩,
         ⟨arc.center.y, -(v arc.start.x - v p.x) * pacSW (pacStartRaw arc p v * pacDir arc v) * pacDir arc v⟩,
         ⟨arc.start.x, -(v arc.center.y - v p.y) * pacSW (pacStartRaw arc p v * pacDir arc v) * pacDir arc v⟩,
         ⟨arc.start.y, (v arc.center.x - v p.x) * pacSW (pacStartRaw arc p v * pacDir arc v) * pacDir arc v⟩,
         ⟨p.x, -(v arc.start.y - v arc.center.y) * pacSW (pacStartRaw arc p v * pacDir arc v) * pacDir arc v⟩,
         ⟨p.y, (v arc.start.x - v arc.center.x) * pacSW (pacStartRaw arc p v * pacDir arc v) * pacDir arc v⟩] := by
  simp only [Constraint.jacobianV, hypot_real, abs_real]
  rw [apply_ite Jac.r1]
  rfl

theorem pac_jac_r2 (arc : ArcD) (p : Pt) :
    ((Constraint.pointArcCoincident arc p).jacobianV v).r2 =
      if |pacR0 arc p v| ≤ ANG_TOL then []
      else
        [⟨arc.center.x, -(v arc.stop.y - v p.y) * pacEW (pacEndRaw arc p v * pacDir arc v) * pacDir arc v⟩,
         ⟨arc.center.y, (v arc.stop.x - v p.x) * pacEW (pacEndRaw arc p v * pacDir arc v) * pacDir arc v⟩,
         ⟨arc.stop.x, (v arc.center.y - v p.y) * pacEW (pacEndRaw arc p v * pacDir arc v) * pacDir arc v⟩,
         ⟨arc.stop.y, -(v arc.center.x - v p.x) * pacEW (pacEndRaw arc p v * pacDir arc v) * pacDir arc v⟩,
         ⟨p.x, (v arc.stop.y - v arc.center.y) * pacEW (pacEndRaw arc p v * pacDir arc v) * pacDir arc v⟩,
         ⟨p.y, -(v arc.stop.x - v arc.center.x) * pacEW (pacEndRaw arc p v * pacDir arc v) * pacDir arc v⟩] := by
  simp only [Constraint.jacobianV, hypot_real, abs_real]
  rw [apply_ite Jac.r2]
  rfl

theorem eventually_const_lt {g : ℝ → ℝ} {c : ℝ} (hg : ContinuousAt g 0) (h : c < g 0) :
    ∀ᶠ t in 𝓝 (0 : ℝ), c < g t := hg.eventually (lt_mem_nhds h)

theorem eventually_lt_const {g : ℝ → ℝ} {c : ℝ} (hg : ContinuousAt g 0) (h : g 0 < c) :
    ∀ᶠ t in 𝓝 (0 : ℝ), g t < c := hg.eventually (gt_mem_nhds h)

theorem pacDir_of_pos {arc : ArcD} {w : Nat → ℝ} (h : 0 < pacOrient arc w) : pacDir arc w = 1 := by
  unfold pacDir; simp only [lit_0, lit_1]; rw [if_pos h.le]

theorem pacDir_of_neg {arc : ArcD} {w : Nat → ℝ} (h : pacOrient arc w < 0) : pacDir arc w = -1 := by
  unfold pacDir; simp only [lit_0, lit_1]; rw [if_neg (not_le.mpr h)]

theorem pacDir_cases (arc : ArcD) (w : Nat → ℝ) : pacDir arc w = 1 ∨ pacDir arc w = -1 := by
  unfold pacDir; simp only [lit_0, lit_1]; split_ifs <;> simp

theorem pacSW_of_pos {s : ℝ} (h : 0 < s) : pacSW s = 1 := by
  unfold pacSW; simp only [lit_0, lit_1]; rw [if_pos h]

theorem pacSW_of_neg {s : ℝ} (h : s < 0) : pacSW s = 0 := by
  unfold pacSW; simp only [lit_0, lit_1]
  rw [if_neg (not_lt.mpr h.le), if_neg (fun hh => absurd hh.2 (not_le.mpr h))]

theorem pacEW_of_pos {s : ℝ} (h : 0 < s) : pacEW s = 0 := by
  unfold pacEW; simp only [lit_0, lit_1]; rw [if_pos h]

theorem pacEW_of_neg {s : ℝ} (h : s < 0) : pacEW s = 1 := by
  unfold pacEW; simp only [lit_0, lit_1]
  rw [if_neg (not_lt.mpr h.le), if_neg (fun hh => absurd hh.2 (not_le.mpr h))]

theorem pacR0_cont (arc : ArcD) (p : Pt) :
    Continuous (fun t => |pacR0 arc p (lineThrough v u t)|) := by
  unfold pacR0 lineThrough; fun_prop

theorem pacOrient_cont (arc : ArcD) : Continuous (fun t => pacOrient arc (lineThrough v u t)) := by
  unfold pacOrient lineThrough; fun_prop

theorem pacStartRaw_cont (arc : ArcD) (p : Pt) (d : ℝ) :
    Continuous (fun t => pacStartRaw arc p (lineThrough v u t) * d) := by
  unfold pacStartRaw lineThrough; fun_prop

theorem pacEndRaw_cont (arc : ArcD) (p : Pt) (d : ℝ) :
    Continuous (fun t => pacEndRaw arc p (lineThrough v u t) * d) := by
  unfold pacEndRaw lineThrough; fun_prop

/-- Near a point where the arc's orientation cross product is non-zero, `dir` is constant. -/
theorem eventually_pacDir (arc : ArcD) (hor : pacOrient arc v ≠ 0) :
    ∀ᶠ t in 𝓝 (0 : ℝ), pacDir arc (lineThrough v u t) = pacDir arc v := by
  have hc := (pacOrient_cont v u arc).continuousAt (x := 0)
  rcases lt_or_gt_of_ne hor with h | h
  · filter_upwards [eventually_lt_const hc (by simpa [lineThrough_zero] using h)] with t ht
    rw [pacDir_of_neg ht, pacDir_of_neg h]
  · filter_upwards [eventually_const_lt hc (by simpa [lineThrough_zero] using h)] with t ht
    rw [pacDir_of_pos ht, pacDir_of_pos h]

/-- Regular points for row 1 of `PointArcCoincident`: either strictly inside the gate
(`|r0| < ANG_TOL`, where the row is identically zero), or strictly outside it
(`ANG_TOL < |r0|`) with the arc's orientation cross product non-zero (so `dir` is locally constant)
and the start cross product non-zero (`start_cross = start_cross_raw · dir` with `dir = ±1`, so
this is `start_cross ≠ 0`: the one-sided penalty is strictly active or strictly inactive). -/
def RegularPAC1 (arc : ArcD) (p : Pt) (v : Nat → ℝ) : Prop :=
  |pacR0 arc p v| < ANG_TOL ∨
  (ANG_TOL < |pacR0 arc p v| ∧ pacOrient arc v ≠ 0 ∧ pacStartRaw arc p v ≠ 0)

/-- Same for row 2, with the end cross product. -/
def RegularPAC2 (arc : ArcD) (p : Pt) (v : Nat → ℝ) : Prop :=
  |pacR0 arc p v| < ANG_TOL ∨
  (ANG_TOL < |pacR0 arc p v| ∧ pacOrient arc v ≠ 0 ∧ pacEndRaw arc p v ≠ 0)

theorem deriv_pointArcCoincident_row1 (arc : ArcD) (p : Pt) (hreg : RegularPAC1 arc p v) :
    DerivRow (.pointArcCoincident arc p) v u (·.r1) (·.r1) := by
  unfold DerivRow
  simp only [pac_res_r1, pac_jac_r1]
  have hc0 := (pacR0_cont v u arc p).continuousAt (x := 0)
  rcases hreg with hin | ⟨hout, hor, hs⟩
  · -- strictly inside the gate: the row is identically zero nearby
    have hev : ∀ᶠ t in 𝓝 (0 : ℝ),
        (if |pacR0 arc p (lineThrough v u t)| ≤ ANG_TOL then (0.0 : ℝ)
          else if pacStartRaw arc p (lineThrough v u t) * pacDir arc (lineThrough v u t) ≤ 0.0 then 0.0
          else -(pacStartRaw arc p (lineThrough v u t) * pacDir arc (lineThrough v u t))) = 0 := by
      filter_upwards [eventually_lt_const hc0 (by simpa [lineThrough_zero] using hin)] with t ht
      rw [if_pos ht.le, lit_0]
    refine HasDerivAt.congr_of_eventuallyEq ?_ hev
    rw [if_pos hin.le]
    simp only [rowApply, List.map_nil, List.sum_nil]
    exact hasDerivAt_const _ _
  · -- strictly outside the gate
    have hgate : ∀ᶠ t in 𝓝 (0 : ℝ), ¬ |pacR0 arc p (lineThrough v u t)| ≤ ANG_TOL := by
      filter_upwards [eventually_const_lt hc0 (by simpa [lineThrough_zero] using hout)] with t ht
      exact not_le.mpr ht
    have hdir := eventually_pacDir v u arc hor
    have hs' : pacStartRaw arc p v * pacDir arc v ≠ 0 := by
      rcases pacDir_cases arc v with h | h <;> rw [h] <;> simpa using hs
    have hcs := (pacStartRaw_cont v u arc p (pacDir arc v)).continuousAt (x := 0)
    rw [if_neg (not_le.mpr hout)]
    rcases lt_or_gt_of_ne hs' with hneg | hpos
    · -- `start_cross < 0`: the penalty is inactive
      have hev : ∀ᶠ t in 𝓝 (0 : ℝ),
          (if |pacR0 arc p (lineThrough v u t)| ≤ ANG_TOL then (0.0 : ℝ)
            else if pacStartRaw arc p (lineThrough v u t) * pacDir arc (lineThrough v u t) ≤ 0.0 then 0.0
            else -(pacStartRaw arc p (lineThrough v u t) * pacDir arc (lineThrough v u t))) = 0 := by
        filter_upwards [hgate, hdir,
          eventually_lt_const hcs (by simpa [lineThrough_zero] using hneg)] with t t1 t2 t3
        rw [if_neg t1, t2]
        simp only [lit_0]
        rw [if_pos t3.le]
      refine HasDerivAt.congr_of_eventuallyEq ?_ hev
      rw [pacSW_of_neg hneg]
      simp only [rowApply, List.map_cons, List.map_nil, List.sum_cons, List.sum_nil]
      apply HasDerivAt.congr_deriv (hasDerivAt_const _ _)
      ring
    · -- `start_cross > 0`: the penalty is `-start_cross`
      have hev : ∀ᶠ t in 𝓝 (0 : ℝ),
          (if |pacR0 arc p (lineThrough v u t)| ≤ ANG_TOL then (0.0 : ℝ)
            else if pacStartRaw arc p (lineThrough v u t) * pacDir arc (lineThrough v u t) ≤ 0.0 then 0.0
            else -(pacStartRaw arc p (lineThrough v u t) * pacDir arc (lineThrough v u t)))
          = -(pacStartRaw arc p (lineThrough v u t) * pacDir arc v) := by
        filter_upwards [hgate, hdir,
          eventually_const_lt hcs (by simpa [lineThrough_zero] using hpos)] with t t1 t2 t3
        rw [if_neg t1, t2]
        simp only [lit_0]
        rw [if_neg (not_le.mpr t3)]
      refine HasDerivAt.congr_of_eventuallyEq ?_ hev
      rw [pacSW_of_pos hpos]
      simp only [rowApply, List.map_cons, List.map_nil, List.sum_cons, List.sum_nil, pacStartRaw]
      apply HasDerivAt.congr_deriv
      · deriv_struct
      · lits
        ring

theorem deriv_pointArcCoincident_row2 (arc : ArcD) (p : Pt) (hreg : RegularPAC2 arc p v) :
    DerivRow (.pointArcCoincident arc p) v u (·.r2) (·.r2) := by
  unfold DerivRow
  simp only [pac_res_r2, pac_jac_r2]
  have hc0 := (pacR0_cont v u arc p).continuousAt (x := 0)
  rcases hreg with hin | ⟨hout, hor, hs⟩
  · -- strictly inside the gate: the row is identically zero nearby
    have hev : ∀ᶠ t in 𝓝 (0 : ℝ),
        (if |pacR0 arc p (lineThrough v u t)| ≤ ANG_TOL then (0.0 : ℝ)
          else if (0.0 : ℝ) ≤ pacEndRaw arc p (lineThrough v u t) * pacDir arc (lineThrough v u t) then 0.0
          else pacEndRaw arc p (lineThrough v u t) * pacDir arc (lineThrough v u t)) = 0 := by
      filter_upwards [eventually_lt_const hc0 (by simpa [lineThrough_zero] using hin)] with t ht
      rw [if_pos ht.le, lit_0]
    refine HasDerivAt.congr_of_eventuallyEq ?_ hev
    rw [if_pos hin.le]
    simp only [rowApply, List.map_nil, List.sum_nil]
    exact hasDerivAt_const _ _
  · -- strictly outside the gate
    have hgate : ∀ᶠ t in 𝓝 (0 : ℝ), ¬ |pacR0 arc p (lineThrough v u t)| ≤ ANG_TOL := by
      filter_upwards [eventually_const_lt hc0 (by simpa [lineThrough_zero] using hout)] with t ht
      exact not_le.mpr ht
    have hdir := eventually_pacDir v u arc hor
    have hs' : pacEndRaw arc p v * pacDir arc v ≠ 0 := by
      rcases pacDir_cases arc v with h | h <;> rw [h] <;> simpa using hs
    have hcs := (pacEndRaw_cont v u arc p (pacDir arc v)).continuousAt (x := 0)
    rw [if_neg (not_le.mpr hout)]
    rcases lt_or_gt_of_ne hs' with hneg | hpos
    · -- `end_cross < 0`: the penalty is `end_cross`
      have hev : ∀ᶠ t in 𝓝 (0 : ℝ),
          (if |pacR0 arc p (lineThrough v u t)| ≤ ANG_TOL then (0.0 : ℝ)
            else if (0.0 : ℝ) ≤ pacEndRaw arc p (lineThrough v u t) * pacDir arc (lineThrough v u t) then 0.0
            else pacEndRaw arc p (lineThrough v u t) * pacDir arc (lineThrough v u t))
          = pacEndRaw arc p (lineThrough v u t) * pacDir arc v := by
        filter_upwards [hgate, hdir,
          eventually_lt_const hcs (by simpa [lineThrough_zero] using hneg)] with t t1 t2 t3
        rw [if_neg t1, t2]
        simp only [lit_0]
        rw [if_neg (not_le.mpr t3)]
      refine HasDerivAt.congr_of_eventuallyEq ?_ hev
      rw [pacEW_of_neg hneg]
      simp only [rowApply, List.map_cons, List.map_nil, List.sum_cons, List.sum_nil, pacEndRaw]
      apply HasDerivAt.congr_deriv
      · deriv_struct
      · lits
        ring
    · -- `end_cross > 0`: the penalty is inactive
      have hev : ∀ᶠ t in 𝓝 (0 : ℝ),
          (if |pacR0 arc p (lineThrough v u t)| ≤ ANG_TOL then (0.0 : ℝ)
            else if (0.0 : ℝ) ≤ pacEndRaw arc p (lineThrough v u t) * pacDir arc (lineThrough v u t) then 0.0
            else pacEndRaw arc p (lineThrough v u t) * pacDir arc (lineThrough v u t)) = 0 := by
        filter_upwards [hgate, hdir,
          eventually_const_lt hcs (by simpa [lineThrough_zero] using hpos)] with t t1 t2 t3
        rw [if_neg t1, t2]
        simp only [lit_0]
        rw [if_pos t3.le]
      refine HasDerivAt.congr_of_eventuallyEq ?_ hev
      rw [pacEW_of_pos hpos]
      simp only [rowApply, List.map_cons, List.map_nil, List.sum_cons, List.sum_nil]
      apply HasDerivAt.congr_deriv (hasDerivAt_const _ _)
      ring

/-! ### `CircleTangentToCircle` -/

/-- Distance between the two centres. -/
noncomputable def cttcDist (a b : Circ) (w : Nat → ℝ) : ℝ :=
  Real.sqrt ((w a.center.x - w b.center.x) * (w a.center.x - w b.center.x)
    + (w a.center.y - w b.center.y) * (w a.center.y - w b.center.y))

/-- `|dist − |ar − br||`: how far the configuration is from internal tangency. -/
noncomputable def cttcG (a b : Circ) (w : Nat → ℝ) : ℝ :=
  |cttcDist a b w - (|w a.radius - w b.radius|)|

/-- `|ar + br − dist|`: how far the configuration is from external tangency. -/
noncomputable def cttcH (a b : Circ) (w : Nat → ℝ) : ℝ :=
  |w a.radius + w b.radius - cttcDist a b w|

theorem cttc_res (a b : Circ) (w : Nat → ℝ) :
    ((Constraint.circleTangentToCircle a b).residualV w).r0 =
      if cttcG a b w < cttcH a b w then -cttcDist a b w + |w a.radius - w b.radius|
      else w a.radius + w b.radius - cttcDist a b w := rfl

theorem cttc_jac (a b : Circ) (hg : ¬ cttcDist a b v < (EPS : ℝ)) :
    ((Constraint.circleTangentToCircle a b).jacobianV v).r0 =
      [⟨a.center.x, (-v a.center.x + v b.center.x) * (1.0 / cttcDist a b v)⟩,
       ⟨a.center.y, (-v a.center.y + v b.center.y) * (1.0 / cttcDist a b v)⟩,
       ⟨a.radius, if cttcG a b v < cttcH a b v then (if v b.radius < v a.radius then 1.0 else -1.0) else 1.0⟩,
       ⟨b.center.x, -(-v a.center.x + v b.center.x) * (1.0 / cttcDist a b v)⟩,
       ⟨b.center.y, -(-v a.center.y + v b.center.y) * (1.0 / cttcDist a b v)⟩,
       ⟨b.radius, if cttcG a b v < cttcH a b v then (if v b.radius < v a.radius then -1.0 else 1.0) else 1.0⟩] := by
  simp only [Constraint.jacobianV]
  rw [if_neg (by simpa [cttcDist, sqrt_real, sqr] using hg)]
  rfl

theorem cttcG_cont (a b : Circ) : Continuous (fun t => cttcG a b (lineThrough v u t)) := by
  unfold cttcG cttcDist lineThrough; fun_prop

theorem cttcH_cont (a b : Circ) : Continuous (fun t => cttcH a b (lineThrough v u t)) := by
  unfold cttcH cttcDist lineThrough; fun_prop

/-- Regular points of `CircleTangentToCircle`: the centres are at least `EPSILON` apart (the
Jacobian's guard, added by the fix for finding F22, is inactive), the internal/external choice is strict (the two "how far from
tangency" measures differ, so the same branch is taken in a neighbourhood), and when the internal
branch is taken the radii differ (so `|ar − br|` is differentiable). -/
def RegularCTTC (a b : Circ) (v : Nat → ℝ) : Prop :=
  ¬ cttcDist a b v < (EPS : ℝ) ∧
  cttcG a b v ≠ cttcH a b v ∧
  (cttcG a b v < cttcH a b v → v a.radius ≠ v b.radius)

theorem deriv_circleTangentToCircle (a b : Circ) (hreg : RegularCTTC a b v) :
    DerivRow (.circleTangentToCircle a b) v u (·.r0) (·.r0) := by
  obtain ⟨hg, hside, hrad⟩ := hreg
  unfold DerivRow
  simp only [cttc_res, cttc_jac v a b hg]
  have hdpos : 0 < cttcDist a b v := lt_of_lt_of_le EPS_pos (not_lt.mp hg)
  have hne : (v a.center.x - v b.center.x) * (v a.center.x - v b.center.x)
      + (v a.center.y - v b.center.y) * (v a.center.y - v b.center.y) ≠ 0 := by
    intro h0
    have : cttcDist a b v = 0 := by unfold cttcDist; rw [h0, Real.sqrt_zero]
    linarith
  have hcG := (cttcG_cont v u a b).continuousAt (x := 0)
  have hcH := (cttcH_cont v u a b).continuousAt (x := 0)
  have hcR : ContinuousAt (fun t => lineThrough v u t a.radius - lineThrough v u t b.radius) 0 := by
    unfold lineThrough; fun_prop
  rcases lt_or_gt_of_ne hside with hint | hext
  · -- internal tangency
    have hevI : ∀ᶠ t in 𝓝 (0 : ℝ), cttcG a b (lineThrough v u t) < cttcH a b (lineThrough v u t) :=
      hcG.eventually_lt hcH (by simpa [lineThrough_zero] using hint)
    simp only [if_pos hint]
    rcases lt_or_gt_of_ne (hrad hint) with hlt | hgt
    · -- `ar < br`
      have hev : ∀ᶠ t in 𝓝 (0 : ℝ),
          (if cttcG a b (lineThrough v u t) < cttcH a b (lineThrough v u t)
            then -cttcDist a b (lineThrough v u t) + |lineThrough v u t a.radius - lineThrough v u t b.radius|
            else lineThrough v u t a.radius + lineThrough v u t b.radius - cttcDist a b (lineThrough v u t))
          = -cttcDist a b (lineThrough v u t) + -(lineThrough v u t a.radius - lineThrough v u t b.radius) := by
        filter_upwards [hevI, eventually_lt_const hcR (c := 0) (by simpa [lineThrough] using hlt)] with t t1 t2
        rw [if_pos t1, abs_of_neg t2]
      refine HasDerivAt.congr_of_eventuallyEq ?_ hev
      rw [if_neg (not_lt.mpr hlt.le), if_neg (not_lt.mpr hlt.le)]
      simp only [rowApply, List.map_cons, List.map_nil, List.sum_cons, List.sum_nil, cttcDist]
      apply HasDerivAt.congr_deriv
      · deriv_struct
        simpa [lineThrough] using hne
      · lits
        have hs := hdpos.ne'
        unfold cttcDist at hs
        field_simp
        ring
    · -- `br < ar`
      have hev : ∀ᶠ t in 𝓝 (0 : ℝ),
          (if cttcG a b (lineThrough v u t) < cttcH a b (lineThrough v u t)
            then -cttcDist a b (lineThrough v u t) + |lineThrough v u t a.radius - lineThrough v u t b.radius|
            else lineThrough v u t a.radius + lineThrough v u t b.radius - cttcDist a b (lineThrough v u t))
          = -cttcDist a b (lineThrough v u t) + (lineThrough v u t a.radius - lineThrough v u t b.radius) := by
        filter_upwards [hevI, eventually_const_lt hcR (c := 0) (by simpa [lineThrough] using hgt)] with t t1 t2
        rw [if_pos t1, abs_of_pos t2]
      refine HasDerivAt.congr_of_eventuallyEq ?_ hev
      rw [if_pos hgt, if_pos hgt]
      simp only [rowApply, List.map_cons, List.map_nil, List.sum_cons, List.sum_nil, cttcDist]
      apply HasDerivAt.congr_deriv
      · deriv_struct
        simpa [lineThrough] using hne
      · lits
        have hs := hdpos.ne'
        unfold cttcDist at hs
        field_simp
        ring
  · -- external tangency
    have hevE : ∀ᶠ t in 𝓝 (0 : ℝ), cttcH a b (lineThrough v u t) < cttcG a b (lineThrough v u t) :=
      hcH.eventually_lt hcG (by simpa [lineThrough_zero] using hext)
    have hev : ∀ᶠ t in 𝓝 (0 : ℝ),
        (if cttcG a b (lineThrough v u t) < cttcH a b (lineThrough v u t)
          then -cttcDist a b (lineThrough v u t) + |lineThrough v u t a.radius - lineThrough v u t b.radius|
          else lineThrough v u t a.radius + lineThrough v u t b.radius - cttcDist a b (lineThrough v u t))
        = lineThrough v u t a.radius + lineThrough v u t b.radius - cttcDist a b (lineThrough v u t) := by
      filter_upwards [hevE] with t t1
      rw [if_neg (not_lt.mpr t1.le)]
    refine HasDerivAt.congr_of_eventuallyEq ?_ hev
    simp only [if_neg (not_lt.mpr (le_of_lt hext))]
    simp only [rowApply, List.map_cons, List.map_nil, List.sum_cons, List.sum_nil, cttcDist]
    apply HasDerivAt.congr_deriv
    · deriv_struct
      simpa [lineThrough] using hne
    · lits
      have hs := hdpos.ne'
      unfold cttcDist at hs
      field_simp
      ring

/-! ### Non-vacuity: concrete regular points -/

theorem sqrt_four : Real.sqrt 4 = 2 := by
  rw [show (4 : ℝ) = 2 ^ 2 by norm_num]; exact Real.sqrt_sq (by norm_num)

/-- Arc with centre `(0,0)`, start `(1,0)`, stop `(1,1)`, point `(0,2)` (ids 0…7). -/
def pacExample : Nat → ℝ := fun i => if i = 2 ∨ i = 4 ∨ i = 5 then 1 else if i = 7 then 2 else 0

example : RegularPAC0 ⟨⟨0, 1⟩, ⟨2, 3⟩, ⟨4, 5⟩⟩ ⟨6, 7⟩ pacExample := by
  norm_num [RegularPAC0, pacExample, EPS_real, sqrt_four]

example : RegularPAC1 ⟨⟨0, 1⟩, ⟨2, 3⟩, ⟨4, 5⟩⟩ ⟨6, 7⟩ pacExample := by
  right
  norm_num [pacR0, pacOrient, pacStartRaw, pacExample, ANG_TOL_real, sqrt_four]

example : RegularPAC2 ⟨⟨0, 1⟩, ⟨2, 3⟩, ⟨4, 5⟩⟩ ⟨6, 7⟩ pacExample := by
  right
  norm_num [pacR0, pacOrient, pacEndRaw, pacExample, ANG_TOL_real, sqrt_four]

/-- Inside the gate: the point is the arc's start. -/
example : RegularPAC1 ⟨⟨0, 1⟩, ⟨2, 3⟩, ⟨4, 5⟩⟩ ⟨2, 3⟩ pacExample := by
  left
  norm_num [pacR0, pacExample, ANG_TOL_real]

/-- Internal tangency: circles `(0,0), r = 2` and `(1,0), r = 1` (ids 0…5). -/
example : RegularCTTC ⟨⟨0, 1⟩, 2⟩ ⟨⟨3, 4⟩, 5⟩
    (fun i => if i = 2 then 2 else if i = 3 ∨ i = 5 then 1 else 0) := by
  norm_num [RegularCTTC, cttcG, cttcH, cttcDist, EPS_real]

/-- External tangency with equal radii: circles `(0,0), r = 1/2` and `(1,0), r = 1/2`. -/
example : RegularCTTC ⟨⟨0, 1⟩, 2⟩ ⟨⟨3, 4⟩, 5⟩
    (fun i => if i = 2 ∨ i = 5 then 1 / 2 else if i = 3 then 1 else 0) := by
  norm_num [RegularCTTC, cttcG, cttcH, cttcDist, EPS_real]

end Ezpz
