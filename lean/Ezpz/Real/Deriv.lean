/-
C13 over ℝ: for each constraint kind, the Jacobian rows of the model are the derivative of its
error measure along every line `t ↦ v + t·u` — for every configuration outside the kind's guard
set and for **every** assignment of variable ids to the constraint's slots (aliasing included:
`rowApply` sums the entries of a shared id, which is exactly the scatter's `+=`).
-/
import Ezpz.Real.Instance
namespace Ezpz
open Transc Filter Topology

/-- Row `row` of the Jacobian of `c` at `v` is the derivative at `t = 0` of component `sel` of the
error measure of `c` along `t ↦ v + t·u`. -/
def DerivRow (c : Constraint ℝ) (v u : Nat → ℝ) (sel : Res ℝ → ℝ) (row : Jac ℝ → List (JVar ℝ)) :
    Prop :=
  HasDerivAt (fun t => sel (c.residualV (lineThrough v u t))) (rowApply (row (c.jacobianV v)) u) 0

/-- Structural derivative of an expression built from `lineThrough`, constants, `+ - * neg`,
division by a constant. -/
macro "deriv_poly" : tactic => `(tactic| (
  repeat (first
    | exact hasDerivAt_line _ _ _
    | exact hasDerivAt_const _ _
    | apply HasDerivAt.fun_add
    | apply HasDerivAt.fun_sub
    | apply HasDerivAt.fun_mul
    | apply HasDerivAt.fun_neg
    | apply HasDerivAt.div_const)))

macro "lits" : tactic => `(tactic| simp only [lineThrough, mul_zero, zero_mul, add_zero, one_mul,
  mul_one, sub_zero, zero_add, zero_sub, neg_zero, lit_0, lit_1, lit_2, lit_4, lit_half, lit_1_5])

/-- Close `HasDerivAt f D 0` for a polynomial `f` of the line: structural derivative, then `ring`. -/
macro "deriv_by_ring" : tactic => `(tactic| (
  apply HasDerivAt.congr_deriv
  · deriv_poly
  · lits
    try ring))

macro "unfold_kernels" : tactic => `(tactic| simp only [DerivRow, Constraint.residualV,
  Constraint.jacobianV, linesAtAngleResidual, linesAtAngleJac, jvars4, distResidual, Res.mk1,
  Res.mk2, rowApply, List.map_cons, List.map_nil, List.sum_cons, List.sum_nil, sqr, cube, recip])

variable (v u : Nat → ℝ)

/-! ### Linear kinds -/

theorem deriv_fixed (id : Nat) (e : ℝ) : DerivRow (.fixed id e) v u (·.r0) (·.r0) := by
  unfold_kernels; deriv_by_ring

theorem deriv_scalarEqual (x y : Nat) : DerivRow (.scalarEqual x y) v u (·.r0) (·.r0) := by
  unfold_kernels; deriv_by_ring

theorem deriv_vertical (l : Seg) : DerivRow (.vertical l) v u (·.r0) (·.r0) := by
  unfold_kernels; deriv_by_ring

theorem deriv_horizontal (l : Seg) : DerivRow (.horizontal l) v u (·.r0) (·.r0) := by
  unfold_kernels; deriv_by_ring

theorem deriv_verticalDistance (p q : Pt) (d : ℝ) :
    DerivRow (.verticalDistance p q d) v u (·.r0) (·.r0) := by
  unfold_kernels; deriv_by_ring

theorem deriv_horizontalDistance (p q : Pt) (d : ℝ) :
    DerivRow (.horizontalDistance p q d) v u (·.r0) (·.r0) := by
  unfold_kernels; deriv_by_ring

theorem deriv_circleRadius (c : Circ) (r : ℝ) : DerivRow (.circleRadius c r) v u (·.r0) (·.r0) := by
  unfold_kernels; deriv_by_ring

theorem deriv_pointsCoincident_row0 (p q : Pt) :
    DerivRow (.pointsCoincident p q) v u (·.r0) (·.r0) := by
  unfold_kernels; deriv_by_ring

theorem deriv_pointsCoincident_row1 (p q : Pt) :
    DerivRow (.pointsCoincident p q) v u (·.r1) (·.r1) := by
  unfold_kernels; deriv_by_ring

theorem deriv_midpoint_row0 (l : Seg) (p : Pt) : DerivRow (.midpoint l p) v u (·.r0) (·.r0) := by
  unfold_kernels; deriv_by_ring

theorem deriv_midpoint_row1 (l : Seg) (p : Pt) : DerivRow (.midpoint l p) v u (·.r1) (·.r1) := by
  unfold_kernels; deriv_by_ring

/-! ### Polynomial kinds -/

theorem deriv_parallel (l0 l1 : Seg) : DerivRow (.linesAtAngle l0 l1 .parallel) v u (·.r0) (·.r0) := by
  unfold_kernels; deriv_by_ring

theorem deriv_perpendicular (l0 l1 : Seg) :
    DerivRow (.linesAtAngle l0 l1 .perpendicular) v u (·.r0) (·.r0) := by
  unfold_kernels; deriv_by_ring

theorem deriv_isArc (a : ArcD) : DerivRow (.isArc a) v u (·.r0) (·.r0) := by
  unfold_kernels; deriv_by_ring

/-! ### Helpers for guarded and non-polynomial kinds -/

/-- The line is continuous in `t` (for `fun_prop` / continuity arguments about guards). -/
theorem continuous_line (i : Nat) : Continuous (fun t => lineThrough v u t i) := by
  unfold lineThrough; fun_prop

/-- If a guard `g t < c` is strictly false at `t = 0` (`c < g 0`) and `g` is continuous at 0, it is
false in a neighbourhood of 0. -/
theorem eventually_not_lt {g : ℝ → ℝ} {c : ℝ} (hg : ContinuousAt g 0) (h0 : c < g 0) :
    ∀ᶠ t in 𝓝 (0 : ℝ), ¬ g t < c := by
  have := hg.eventually (lt_mem_nhds h0)
  filter_upwards [this] with t ht
  exact not_lt.mpr (le_of_lt ht)

/-- Structural derivative including `sqrt` and division (side conditions are left as goals). -/
macro "deriv_struct" : tactic => `(tactic| (
  repeat' (first
    | exact hasDerivAt_line _ _ _
    | exact hasDerivAt_const _ _
    | apply HasDerivAt.fun_add
    | apply HasDerivAt.fun_sub
    | apply HasDerivAt.fun_mul
    | apply HasDerivAt.fun_neg
    | apply HasDerivAt.div_const
    | apply HasDerivAt.sqrt
    | apply HasDerivAt.fun_div)))

/-! ### Vertical point–line distance (polynomial, guarded) -/

/-- The guard of `VerticalPointLineDistance` is strictly inactive at `v`. -/
def RegularVPLD (l : Seg) (v : Nat → ℝ) : Prop :=
  EPS < |v l.p1.x - v l.p0.x| ∧
  EPS < (v l.p1.x - v l.p0.x) * (v l.p1.x - v l.p0.x) + (v l.p1.y - v l.p0.y) * (v l.p1.y - v l.p0.y)

theorem deriv_verticalPointLineDistance (p : Pt) (l : Seg) (d : ℝ) (hreg : RegularVPLD l v) :
    DerivRow (.verticalPointLineDistance p l d) v u (·.r0) (·.r0) := by
  obtain ⟨h1, h2⟩ := hreg
  -- at `v` the Jacobian guard is inactive
  have hj : ¬ (|v l.p1.x - v l.p0.x| < EPS ∨
      (v l.p1.x - v l.p0.x) * (v l.p1.x - v l.p0.x) + (v l.p1.y - v l.p0.y) * (v l.p1.y - v l.p0.y) < EPS) := by
    rintro (h | h)
    · exact absurd h (not_lt.mpr h1.le)
    · exact absurd h (not_lt.mpr h2.le)
  -- near `t = 0` the residual guard is inactive too
  have hev : ∀ᶠ t in 𝓝 (0 : ℝ),
      ((Constraint.verticalPointLineDistance p l d).residualV (lineThrough v u t)).r0 =
      (lineThrough v u t p.y - lineThrough v u t l.p0.y - d) * (lineThrough v u t l.p1.x - lineThrough v u t l.p0.x)
        - (lineThrough v u t l.p1.y - lineThrough v u t l.p0.y) * (lineThrough v u t p.x - lineThrough v u t l.p0.x) := by
    have c1 : ContinuousAt (fun t => |lineThrough v u t l.p1.x - lineThrough v u t l.p0.x|) 0 := by
      have := continuous_line v u l.p1.x; have := continuous_line v u l.p0.x
      fun_prop
    have c2 : ContinuousAt (fun t =>
        (lineThrough v u t l.p1.x - lineThrough v u t l.p0.x) * (lineThrough v u t l.p1.x - lineThrough v u t l.p0.x)
        + (lineThrough v u t l.p1.y - lineThrough v u t l.p0.y) * (lineThrough v u t l.p1.y - lineThrough v u t l.p0.y)) 0 := by
      have := continuous_line v u l.p1.x; have := continuous_line v u l.p0.x
      have := continuous_line v u l.p1.y; have := continuous_line v u l.p0.y
      fun_prop
    have e1 := eventually_not_lt c1 (by simpa [lineThrough] using h1)
    have e2 := eventually_not_lt c2 (by simpa [lineThrough] using h2)
    filter_upwards [e1, e2] with t t1 t2
    simp only [Constraint.residualV, abs_real]
    rw [if_neg (by rintro (h | h); exact t1 h; exact t2 h)]
    rfl
  unfold DerivRow
  refine HasDerivAt.congr_of_eventuallyEq ?_ hev
  simp only [Constraint.jacobianV, abs_real]
  rw [if_neg hj]
  simp only [rowApply, List.map_cons, List.map_nil, List.sum_cons, List.sum_nil]
  deriv_by_ring

/-! ### Distance (square root) -/

theorem deriv_distance (p q : Pt) (d : ℝ)
    (hreg : ((Constraint.distance p q d).jacobianV v).degenerate = false) :
    DerivRow (.distance p q d) v u (·.r0) (·.r0) := by
  -- the Jacobian guard `dist < EPS` is inactive, so `dist > 0`
  have hguard : ¬ Real.sqrt ((v p.x - v q.x) * (v p.x - v q.x) + (v p.y - v q.y) * (v p.y - v q.y)) < EPS := by
    intro h
    simp [Constraint.jacobianV, distJacRow, h] at hreg
  have hpos : 0 < Real.sqrt ((v p.x - v q.x) * (v p.x - v q.x) + (v p.y - v q.y) * (v p.y - v q.y)) :=
    lt_of_lt_of_le EPS_pos (not_lt.mp hguard)
  have hne : (v p.x - v q.x) * (v p.x - v q.x) + (v p.y - v q.y) * (v p.y - v q.y) ≠ 0 := by
    intro h0; rw [h0, Real.sqrt_zero] at hpos; exact lt_irrefl _ hpos
  unfold DerivRow
  simp only [Constraint.residualV, Constraint.jacobianV, distResidual, distJacRow, hypot_real, Res.mk1]
  rw [if_neg hguard]
  simp only [rowApply, List.map_cons, List.map_nil, List.sum_cons, List.sum_nil]
  apply HasDerivAt.congr_deriv
  · deriv_struct
    simpa [lineThrough] using hne
  · lits
    have hs := hpos.ne'
    field_simp
    ring

end Ezpz
