/-
C12, part A, lifted to the Newton loop and to `solveInner` over ℝ: **the listing order of the
requests does not matter**.  `es'` is any permutation of `es` (entries keep `id` and `priority`).

* `RowPermSolve` (in `Proofs/EquivHelpers.lean`) is the hypothesis on the two linear solvers: on a
  row-permuted presentation of a system the second answers what the first answers on the system.
  Exact solvers of the damped normal equations that always answer satisfy it
  (`rowPermSolve_of_exact`, from `GN.step_row_perm` and `GN.step_unique`); such solvers exist
  (`exists_rowPermSolve`).
* one round (`newtonStep_perm`), the loop (`newtonLoop_perm`, `newton_perm`) and `solveInner`
  (`solveInner_perm`, `solveInner_perm_invalid`) of the reordered list give the same constructor,
  values, round number, stopping test and error; warnings and the unsatisfied list are the same up
  to order; the last Jacobian is a row-permuted presentation.
-/
import Ezpz.Real.Union
import Ezpz.Proofs.EquivHelpers
import Mathlib.Data.Fintype.EquivFin
import Ezpz.Properties.C05
namespace Ezpz
open Transc

/-! ### From a bijection of `{0..R-1}` to a permutation of `Fin R` -/

section Exact
open Matrix

/-- The permutation of `Fin R` given by a bijection of `{0..R-1}`. -/
noncomputable def equivOfPermOn (R : Nat) (τ : Nat → Nat) (h : PermOn R τ) : Equiv.Perm (Fin R) :=
  Equiv.ofBijective (fun i => ⟨τ i.val, h.1 _ i.isLt⟩)
    (Finite.injective_iff_bijective.mp (fun a b hab =>
      Fin.ext (h.2 _ _ a.isLt b.isLt (by simpa using congrArg Fin.val hab))))

/-- It acts as `τ` on the underlying numbers. -/
theorem equivOfPermOn_val (R : Nat) (τ : Nat → Nat) (h : PermOn R τ) (i : Fin R) :
    (equivOfPermOn R τ h i).val = τ i.val := rfl

/-- `τ a = i` iff `a` is the preimage of `i`. -/
theorem equivOfPermOn_symm_iff (R : Nat) (τ : Nat → Nat) (h : PermOn R τ) (a : Nat) (ha : a < R)
    (i : Fin R) : τ a = i.val ↔ a = ((equivOfPermOn R τ h).symm i).val := by
  constructor
  · intro e
    have : equivOfPermOn R τ h ⟨a, ha⟩ = i := Fin.ext e
    rw [← this, Equiv.symm_apply_apply]
  · intro e
    subst e
    rw [← equivOfPermOn_val R τ h, Equiv.apply_symm_apply]

/-- The dense matrix does not depend on the order of the contributions. -/
theorem matOf_perm (R n : Nat) {ts ts' : List (Triplet ℝ)} (hp : ts.Perm ts') :
    matOf R n ts = matOf R n ts' := by
  ext i j
  exact ((hp.filter _).map _).sum_eq

/-- Mapping the rows of the contributions through a bijection of `{0..R-1}` permutes the rows of
the dense matrix. -/
theorem matOf_mapRow (R n : Nat) (τ : Nat → Nat) (h : PermOn R τ) (ts : List (Triplet ℝ))
    (hrows : ∀ t ∈ ts, t.1 < R) :
    matOf R n (ts.map (mapRow τ)) = (matOf R n ts).submatrix (equivOfPermOn R τ h).symm id := by
  ext i j
  simp only [matOf, submatrix_apply, id, List.filter_map, List.map_map]
  have e1 : ((fun t : Triplet ℝ => t.2.2) ∘ mapRow τ) = fun t => t.2.2 := rfl
  rw [e1]
  congr 2
  apply List.filter_congr
  intro t ht
  have key := equivOfPermOn_symm_iff R τ h t.1 (hrows t ht) i
  show decide (τ t.1 = i.val ∧ t.2.1 = j.val) = decide _
  rw [Bool.eq_iff_iff, decide_eq_true_iff, decide_eq_true_iff, key]

/-- Moving the components of a vector by a bijection of `{0..R-1}`. -/
theorem vecOf_mapRow (R : Nat) (τ : Nat → Nat) (h : PermOn R τ) (r r' : List ℝ)
    (hr : ∀ i, i < R → r'[τ i]? = r[i]?) :
    vecOf R r' = vecOf R r ∘ (equivOfPermOn R τ h).symm := by
  ext i
  simp only [vecOf, Function.comp, List.getD_eq_getElem?_getD]
  have := hr ((equivOfPermOn R τ h).symm i).val ((equivOfPermOn R τ h).symm i).isLt
  rw [← equivOfPermOn_val R τ h, Equiv.apply_symm_apply] at this
  rw [this]

/-- **A row-permuted presentation in matrix form**: there is a permutation `ρ` of the `R` rows with
`matOf jac' = (matOf jac).submatrix ρ id` and `vecOf r' = vecOf r ∘ ρ`. -/
theorem rowPres_matrix (R n : Nat) (jac jac' : List (Triplet ℝ)) (r r' : List ℝ)
    (hrows : ∀ t ∈ jac, t.1 < R) (h : RowPres R jac r jac' r') :
    ∃ ρ : Equiv.Perm (Fin R), matOf R n jac' = (matOf R n jac).submatrix ρ id ∧
      vecOf R r' = vecOf R r ∘ ρ := by
  obtain ⟨τ, hτ, hp, hr⟩ := h
  exact ⟨(equivOfPermOn R τ hτ).symm, by rw [matOf_perm R n hp, matOf_mapRow R n τ hτ jac hrows],
    vecOf_mapRow R τ hτ r r' hr⟩

/-- **Exact solvers satisfy the row-permutation hypothesis**: if both solvers are exact for `R × n`
systems with the same positive damping and answer whenever the residual has `R` components and the
rows are in range, then `RowPermSolve` holds (`GN.step_row_perm`: the permuted system has the same
steps; `GN.step_unique`: there is only one). -/
theorem rowPermSolve_of_exact (solve solve' : Nat → List (Triplet ℝ) → List ℝ →
    Except SolveError (List ℝ)) (R n : Nat) (lam : Nat → ℝ) (hlam : ∀ k, 0 < lam k)
    (h : ExactSolve solve R n lam) (h' : ExactSolve solve' R n lam)
    (htot : ∀ k jac r, r.length = R → (∀ t ∈ jac, t.1 < R) → ∃ d, solve k jac r = .ok d)
    (htot' : ∀ k jac r, r.length = R → (∀ t ∈ jac, t.1 < R) → ∃ d, solve' k jac r = .ok d) :
    RowPermSolve solve solve' R := by
  intro k jac jac' r r' hr hr' hrows hpres
  have hrows' : ∀ t ∈ jac', t.1 < R := by
    obtain ⟨τ, hτ, hp, _⟩ := hpres
    intro t ht
    obtain ⟨t0, ht0, rfl⟩ := List.mem_map.mp (hp.mem_iff.mp ht)
    exact hτ.1 _ (hrows t0 ht0)
  obtain ⟨d, hd⟩ := htot k jac r hr hrows
  obtain ⟨d', hd'⟩ := htot' k jac' r' hr' hrows'
  obtain ⟨hlen, hstep⟩ := h k jac r d hd
  obtain ⟨hlen', hstep'⟩ := h' k jac' r' d' hd'
  obtain ⟨ρ, hm, hv⟩ := rowPres_matrix R n jac jac' r r' hrows hpres
  rw [hm, hv, GN.step_row_perm] at hstep'
  have := GN.step_unique _ _ _ (hlam k) _ _ hstep' hstep
  rw [hd, hd', vecOf_inj n d' d hlen' hlen this]

/-- Solvers satisfying the row-permutation hypothesis exist for all dimensions (one exact solver
used for both lists). -/
theorem exists_rowPermSolve (R n : Nat) :
    ∃ solve : Nat → List (Triplet ℝ) → List ℝ → Except SolveError (List ℝ),
      RowPermSolve solve solve R ∧ ExactSolve solve R n (fun _ => 1) := by
  obtain ⟨s, hs, ht⟩ := exists_exactSolve R n (fun _ => 1) (fun _ => one_pos)
  exact ⟨s, rowPermSolve_of_exact s s R n (fun _ => 1) (fun _ => one_pos) hs hs
    (fun k jac r _ _ => ht k jac r) (fun k jac r _ _ => ht k jac r), hs⟩

end Exact

/-! ### One round -/

section
variable {es es' : List (Entry ℝ)} (hp : es.Perm es') (cfg : Config ℝ)
  (solve solve' : Nat → List (Triplet ℝ) → List ℝ → Except SolveError (List ℝ))
include hp

/-- The assembled systems of the two lists at the same values are row-permuted presentations of
each other. -/
theorem assembled_rowPres (x : Nat → Option ℝ) (r r' : List ℝ) (w1 w1' : List (Warning ℝ))
    (jac jac' : List (Triplet ℝ)) (w2 w2' : List (Warning ℝ))
    (hr : residualAll es x = .ok (r, w1)) (hr' : residualAll es' x = .ok (r', w1'))
    (hj : jacobianAll es x = .ok (jac, w2)) (hj' : jacobianAll es' x = .ok (jac', w2')) :
    RowPres (numRows es) jac r jac' r' := by
  rw [jacobianFrom_eq_tripsOf _ x es 0 jac w2 hj, jacobianFrom_eq_tripsOf _ x es' 0 jac' w2' hj',
    residualAll_eq_resOf x es r w1 hr, residualAll_eq_resOf x es' r' w1' hr']
  exact assembly_rowPres hp x

/-- **One round of the loop does not depend on the listing order** (`newtonStep_perm`): under the
row-permutation hypothesis on the solvers, the round on the reordered list has the same
constructor (`done`/`fail`/`next`), the same values, round number, stopping test and error; the
warnings are the same up to order (given that the incoming ones are); the last Jacobian is a
row-permuted presentation. -/
theorem newtonStep_perm (hS : RowPermSolve solve solve' (numRows es)) (k : Nat) (x : List ℝ)
    (ws ws' : List (Warning ℝ)) (hw : ws'.Perm ws) :
    StepResult.PermEq (numRows es) (newtonStep es cfg solve k x ws)
      (newtonStep es' cfg solve' k x ws') := by
  cases hr : residualAll es (lookup x) with
  | error e =>
    have hr' := residualAll_perm_error hp _ e hr
    simp only [newtonStep, hr, hr']
    exact ⟨rfl, hw⟩
  | ok p =>
    obtain ⟨r, w1⟩ := p
    obtain ⟨r', w1', hr', hrp, hw1⟩ := residualAll_perm hp _ r w1 hr
    cases hj : jacobianAll es (lookup x) with
    | error e =>
      have hj' := jacobianAll_perm_error hp _ e hj
      simp only [newtonStep, hr, hr', hj, hj']
      exact ⟨rfl, hw.append hw1⟩
    | ok q =>
      obtain ⟨jac, w2⟩ := q
      obtain ⟨jac', w2', hj', _, _, hw2⟩ := jacobianAll_perm hp _ jac w2 hj
      have hW : (ws' ++ w1' ++ w2').Perm (ws ++ w1 ++ w2) := (hw.append hw1).append hw2
      have hm := maxAbs?_perm r' r hrp
      cases hmax : maxAbs? r with
      | none =>
        rw [hmax] at hm
        simp only [newtonStep, hr, hr', hj, hj', hm, hmax]
        exact ⟨rfl, hW⟩
      | some m =>
        rw [hmax] at hm
        rw [newtonStep_eval es cfg solve k x ws r w1 jac w2 m hr hj hmax,
          newtonStep_eval es' cfg solve' k x ws' r' w1' jac' w2' m hr' hj' hm]
        have hpres := assembled_rowPres hp (lookup x) r r' w1 w1' jac jac' w2 w2' hr hr' hj hj'
        by_cases hl : m ≤ cfg.convergenceTolerance
        · rw [if_pos hl, if_pos hl]
          exact ⟨rfl, rfl, rfl, hW, hpres.jac⟩
        · rw [if_neg hl, if_neg hl]
          have hrows : ∀ t ∈ jac, t.1 < numRows es := by
            rintro ⟨a, c, v⟩ ht
            have := (jacobianFrom_rows_cols _ _ es 0 jac w2 hj a c v ht).2.1
            simpa using this
          rw [hS k jac jac' r r' (residualAll_length _ es r w1 hr)
            (by rw [residualAll_length _ es' r' w1' hr', numRows_perm hp]) hrows hpres]
          cases solve k jac r with
          | error e => exact ⟨rfl, hW⟩
          | ok d =>
            dsimp only
            by_cases h1 : d.length ≠ x.length
            · rw [if_pos h1, if_pos h1]; exact ⟨rfl, hW⟩
            · rw [if_neg h1, if_neg h1]
              by_cases h2 : (!allFinite (applyStep x d)) = true
              · rw [if_pos h2, if_pos h2]; exact ⟨rfl, hW⟩
              · rw [if_neg h2, if_neg h2]
                by_cases h3 : stepInfNorm d ≤ stepThreshold cfg x
                · rw [if_pos h3, if_pos h3]; exact ⟨rfl, rfl, rfl, hW, hpres.jac⟩
                · rw [if_neg h3, if_neg h3]; exact ⟨rfl, hW⟩

/-! ### The loop -/

/-- **The loop does not depend on the listing order** (`newtonLoop_perm`): same result (values,
round number, stopping test) or same error; warnings equal up to order; last Jacobian a
row-permuted presentation. -/
theorem newtonLoop_perm (hS : RowPermSolve solve solve' (numRows es)) :
    ∀ (fuel k : Nat) (x : List ℝ) (ws ws' : List (Warning ℝ)), ws'.Perm ws →
      LoopPermEq (numRows es) (newtonLoop es cfg solve fuel k x ws)
        (newtonLoop es' cfg solve' fuel k x ws') := by
  intro fuel
  induction fuel with
  | zero => intro k x ws ws' hw; exact ⟨rfl, hw⟩
  | succ fuel ih =>
    intro k x ws ws' hw
    have hstep := newtonStep_perm hp cfg solve solve' hS k x ws ws' hw
    rw [newtonLoop, newtonLoop]
    cases h1 : newtonStep es cfg solve k x ws with
    | done a =>
      cases h2 : newtonStep es' cfg solve' k x ws' with
      | done b => rw [h1, h2] at hstep; exact hstep
      | fail e w => rw [h1, h2] at hstep; exact hstep.elim
      | next y w => rw [h1, h2] at hstep; exact hstep.elim
    | fail e w =>
      cases h2 : newtonStep es' cfg solve' k x ws' with
      | done b => rw [h1, h2] at hstep; exact hstep.elim
      | fail e' w' => rw [h1, h2] at hstep; exact hstep
      | next y w => rw [h1, h2] at hstep; exact hstep.elim
    | next y w =>
      cases h2 : newtonStep es' cfg solve' k x ws' with
      | done b => rw [h1, h2] at hstep; exact hstep.elim
      | fail e' w' => rw [h1, h2] at hstep; exact hstep.elim
      | next y' w' =>
        rw [h1, h2] at hstep
        obtain ⟨rfl, hw'⟩ := hstep
        exact ih (k + 1) y' w w' hw'

/-- **`newton` does not depend on the listing order.** -/
theorem newton_perm (hS : RowPermSolve solve solve' (numRows es)) (x : List ℝ) :
    LoopPermEq (numRows es) (newton es cfg solve x) (newton es' cfg solve' x) :=
  newtonLoop_perm hp cfg solve solve' hS cfg.maxIterations 0 x [] [] (List.Perm.refl _)

/-- Spelled out for a successful run: the reordered run succeeds with the same values, the same
iteration count and the same stopping test. -/
theorem newton_perm_ok (hS : RowPermSolve solve solve' (numRows es)) (x : List ℝ) (a : NewtonOk ℝ)
    (h : newton es cfg solve x = .ok a) :
    ∃ b, newton es' cfg solve' x = .ok b ∧ b.values = a.values ∧ b.iterations = a.iterations ∧
      b.byResidual = a.byResidual ∧ b.warnings.Perm a.warnings ∧
      JacRowPerm (numRows es) a.lastJac b.lastJac := by
  have := newton_perm hp cfg solve solve' hS x
  rw [h] at this
  cases h' : newton es' cfg solve' x with
  | error p => rw [h'] at this; exact this.elim
  | ok b => rw [h'] at this; exact ⟨b, rfl, this⟩

/-- Spelled out for a failing run: the reordered run fails with the same error. -/
theorem newton_perm_error (hS : RowPermSolve solve solve' (numRows es)) (x : List ℝ)
    (e : SolveError) (w : List (Warning ℝ)) (h : newton es cfg solve x = .error (e, w)) :
    ∃ w', newton es' cfg solve' x = .error (e, w') ∧ w'.Perm w := by
  have := newton_perm hp cfg solve solve' hS x
  rw [h] at this
  cases h' : newton es' cfg solve' x with
  | error p =>
    obtain ⟨e', w'⟩ := p
    rw [h'] at this
    obtain ⟨rfl, hw⟩ := this
    exact ⟨w', rfl, hw⟩
  | ok b => rw [h'] at this; exact this.elim

/-! ### `solveInner` -/

/-- **`solveInner` does not depend on the listing order** (valid models).  Hypotheses: the
row-permutation hypothesis on the LU oracles; the analogous hypothesis on the freedom analysis (on a
row-permuted presentation of an in-range Jacobian the second analysis answers what the first
answers; trivially true for `NoAnalysis`); and `Model::new` succeeds.  Then both calls fail or both
succeed; on success: same final values, iteration count, priority and analysis result, unsatisfied
ids and warnings equal up to order; on failure: same error, `numVars`, `numEqs`, warnings equal up
to order. -/
theorem solveInner_perm (hS : RowPermSolve solve solve' (numRows es)) (g : List (Nat × ℝ))
    (analyze analyze' : Option (List (Triplet ℝ) → Except SolveError (List ℝ × List (List ℝ))))
    (hA : ∀ jac jac', (∀ t ∈ jac, t.1 < numRows es) → JacRowPerm (numRows es) jac jac' →
      runAnalysis analyze' jac' g.length = runAnalysis analyze jac g.length)
    (hm : modelNew es (g.map (·.1)) = .ok ()) :
    SolvePermEq (solveInner es g cfg solve analyze) (solveInner es' g cfg solve' analyze') := by
  have hm' := modelNew_perm_ok hp _ hm
  have hN := newton_perm hp cfg solve solve' hS (g.map (·.2))
  have hrows := numRows_perm hp
  have hlint := (lint_perm hp).symm
  unfold solveInner
  simp only [hm, hm']
  cases h1 : newton es cfg solve (g.map (·.2)) with
  | error p =>
    obtain ⟨e, w⟩ := p
    cases h2 : newton es' cfg solve' (g.map (·.2)) with
    | ok b => rw [h1, h2] at hN; exact hN.elim
    | error p' =>
      obtain ⟨e', w'⟩ := p'
      rw [h1, h2] at hN
      obtain ⟨rfl, hw⟩ := hN
      exact ⟨rfl, rfl, hrows.symm, hlint.append hw⟩
  | ok a =>
    cases h2 : newton es' cfg solve' (g.map (·.2)) with
    | error p' => rw [h1, h2] at hN; exact hN.elim
    | ok b =>
      rw [h1, h2] at hN
      obtain ⟨hv, hi, _, hw, hJ⟩ := hN
      have hW : (lint es' ++ b.warnings).Perm (lint es ++ a.warnings) := hlint.append hw
      have hin : ∀ t ∈ a.lastJac, t.1 < numRows es := by
        obtain ⟨y, w2, hj, _, _⟩ := C05.newtonLoop_lastJac es cfg solve _ _ _ _ a h1
        rintro ⟨r, c, v⟩ ht
        have := (jacobianFrom_rows_cols _ _ es 0 a.lastJac w2 hj r c v ht).2.1
        simpa using this
      dsimp only
      rw [hv, hA a.lastJac b.lastJac hin hJ]
      rcases unsatisfiedSweep_perm hp (lookup a.values) with ⟨err, hs, hs'⟩ | ⟨us, us', hs, hs', hu⟩
      · rw [hs, hs']
        exact ⟨rfl, rfl, hrows.symm, hW⟩
      · rw [hs, hs']
        dsimp only
        cases runAnalysis analyze a.lastJac g.length with
        | error e => exact ⟨rfl, rfl, hrows.symm, hW⟩
        | ok under => exact ⟨rfl, hi, (maxPriority_perm hp).symm, rfl, hu, hW⟩

/-- `solveInner_perm` without freedom analysis. -/
theorem solveInner_perm_noAnalysis (hS : RowPermSolve solve solve' (numRows es))
    (g : List (Nat × ℝ)) (hm : modelNew es (g.map (·.1)) = .ok ()) :
    SolvePermEq (solveInner es g cfg solve none) (solveInner es' g cfg solve' none) :=
  solveInner_perm hp cfg solve solve' hS g none none (fun _ _ _ _ => rfl) hm

/-- **`solveInner` on an invalid model**: if `Model::new` rejects the original list it rejects the
reordered one; both calls fail with the same `numVars` and `numEqs` and with the lint warnings
(equal up to order); either both report `faerMatrix`, or both report a missing guess, each naming
some request with a missing guess and that request's first missing id.  The *named request is not
invariant*: the first one in listing order wins. -/
theorem solveInner_perm_invalid (g : List (Nat × ℝ))
    (analyze analyze' : Option (List (Triplet ℝ) → Except SolveError (List ℝ × List (List ℝ))))
    (err : SolveError) (hm : modelNew es (g.map (·.1)) = .error err) :
    ∃ err', solveInner es g cfg solve analyze = .error ⟨err, lint es, g.length, numRows es⟩ ∧
      solveInner es' g cfg solve' analyze' = .error ⟨err', lint es', g.length, numRows es⟩ ∧
      (lint es').Perm (lint es) ∧
      ((err = .faerMatrix ∧ err' = .faerMatrix) ∨
        (IsMissingGuessOf es (g.map (·.1)) err ∧ IsMissingGuessOf es' (g.map (·.1)) err')) := by
  obtain ⟨err', hm', hkind⟩ := modelNew_perm_error hp _ err hm
  refine ⟨err', ?_, ?_, (lint_perm hp).symm, hkind⟩
  · simp only [solveInner, hm]
  · simp only [solveInner, hm', numRows_perm hp]

end

/-- After sorting, the unsatisfied lists of two outcomes that agree up to order are equal. -/
theorem unsatisfied_sorted_eq (a b : Outcome ℝ) (h : Outcome.PermEq a b) :
    b.unsatisfied.mergeSort (fun i j => decide (i ≤ j)) =
      a.unsatisfied.mergeSort (fun i j => decide (i ≤ j)) := by
  have hp : (b.unsatisfied.mergeSort (fun i j => decide (i ≤ j))).Perm
      (a.unsatisfied.mergeSort (fun i j => decide (i ≤ j))) :=
    (List.mergeSort_perm _ _).trans (h.2.2.2.2.1.trans (List.mergeSort_perm _ _).symm)
  have hs : ∀ l : List Nat, (l.mergeSort (fun i j => decide (i ≤ j))).Pairwise
      (fun i j => decide (i ≤ j) = true) :=
    fun l => List.pairwise_mergeSort (fun a b c h1 h2 => by simp at *; omega)
      (fun a b => by simp; omega) l
  exact hp.eq_of_pairwise (fun a b _ _ h1 h2 => by simp at *; omega) (hs _) (hs _)

/-- Non-vacuity: all hypotheses of `solveInner_perm` hold for a concrete two-request model (a pinned
variable and an equality sharing it) listed in both orders, with an exact solver from
`exists_rowPermSolve`. -/
example : ∃ solve : Nat → List (Triplet ℝ) → List ℝ → Except SolveError (List ℝ),
    SolvePermEq
      (solveInner [(⟨.fixed 0 5, 0, 0⟩ : Entry ℝ), ⟨.scalarEqual 0 1, 1, 0⟩] [(0, 0), (1, 0)]
        ⟨30, 1e-5, 1e-5⟩ solve none)
      (solveInner [(⟨.scalarEqual 0 1, 1, 0⟩ : Entry ℝ), ⟨.fixed 0 5, 0, 0⟩] [(0, 0), (1, 0)]
        ⟨30, 1e-5, 1e-5⟩ solve none) := by
  obtain ⟨s, hs, _⟩ := exists_rowPermSolve
    (numRows [(⟨.fixed 0 5, 0, 0⟩ : Entry ℝ), ⟨.scalarEqual 0 1, 1, 0⟩]) 2
  refine ⟨s, solveInner_perm_noAnalysis (List.Perm.swap _ _ _) _ s s hs _ ?_⟩
  simp [modelNew, validateVariables, firstMissing, Constraint.nonzeroes, pattern, patternFrom,
    takeRows, Constraint.residualDim, List.zipIdx]

end Ezpz
