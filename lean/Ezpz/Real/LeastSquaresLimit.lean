/-
C04 — INCONSISTENT linear systems: the exact damped Gauss–Newton iteration converges geometrically to
the least-squares point nearest the guess.

For every real matrix `A` and right-hand side `b` the normal equations `AᵀA x = Aᵀ b` are consistent
(`normal_equations_consistent`), and for every guess `x0` there is a least-squares stationary point
`x̂` with `x0 - x̂ ∈ range Aᵀ` (`nearest_least_squares_exists`); it minimises `‖A x - b‖²` and is the
unique minimiser nearest `x0` (`nearest_least_squares_exists_spec`).  Because `Aᵀ(A x̂ - b) = 0`, a
damped round of `A x = b` is the same thing as a damped round of the CONSISTENT system `A x = A x̂`
(`isStep_shift`), so the convergence theorem for consistent systems applies verbatim
(`linear_converges_to_least_squares`), with no consistency hypothesis.
-/
import Ezpz.Real.GapExists
namespace Ezpz.GN
open Matrix

section NormalEquations
variable {m n : Type} [Fintype m] [Fintype n]

/-- `range (A Aᵀ) = range A` (the rank argument `rank (A Aᵀ) = rank A`): every `A v` is `A Aᵀ w`
for some `w`. -/
theorem range_self_mul_transpose (A : Matrix m n ℝ) (v : n → ℝ) :
    ∃ w : m → ℝ, (A * Aᵀ) *ᵥ w = A *ᵥ v := by
  classical
  have hle : LinearMap.range (A * Aᵀ).mulVecLin ≤ LinearMap.range A.mulVecLin := by
    rintro _ ⟨w, rfl⟩
    exact ⟨Aᵀ *ᵥ w, by rw [mulVecLin_apply, mulVecLin_apply, mulVec_mulVec]⟩
  have heq := Submodule.eq_of_le_of_finrank_eq hle (by
    have := rank_self_mul_transpose A
    simpa [Matrix.rank] using this)
  have hmem : A *ᵥ v ∈ LinearMap.range (A * Aᵀ).mulVecLin := by
    rw [heq]; exact ⟨_, rfl⟩
  obtain ⟨w, hw⟩ := hmem
  exact ⟨w, by rw [← mulVecLin_apply]; exact hw⟩

/-- `range (AᵀA) = range Aᵀ`: every `Aᵀ v` is `AᵀA x` for some `x`. -/
theorem range_transpose_mul_self (A : Matrix m n ℝ) (v : m → ℝ) :
    ∃ x : n → ℝ, (Aᵀ * A) *ᵥ x = Aᵀ *ᵥ v := by
  have h := range_self_mul_transpose Aᵀ v
  rwa [transpose_transpose] at h

/-- C04 — **the normal equations are always consistent**: for every matrix `A` and right-hand side
`b` (whether or not `A x = b` has a solution) there is `x` with `AᵀA x = Aᵀ b`. -/
theorem normal_equations_consistent (A : Matrix m n ℝ) (b : m → ℝ) :
    ∃ x : n → ℝ, (Aᵀ * A) *ᵥ x = Aᵀ *ᵥ b :=
  range_transpose_mul_self A b

/-- Every system has a least-squares stationary point: `Aᵀ(A x - b) = 0` for some `x`. -/
theorem stationary_point_exists (A : Matrix m n ℝ) (b : m → ℝ) :
    ∃ x : n → ℝ, Aᵀ *ᵥ (A *ᵥ x - b) = 0 := by
  obtain ⟨x, hx⟩ := normal_equations_consistent A b
  exact ⟨x, by rw [mulVec_sub, mulVec_mulVec, hx, sub_self]⟩

/-- C04 — **the least-squares point nearest the guess exists**: for every `A`, `b` and guess `x0`
there is `x̂` satisfying the normal equations `Aᵀ(A x̂ - b) = 0` whose displacement from the guess
lies in `range Aᵀ` (is orthogonal to `ker A`). -/
theorem nearest_least_squares_exists (A : Matrix m n ℝ) (b : m → ℝ) (x0 : n → ℝ) :
    ∃ xh : n → ℝ, Aᵀ *ᵥ (A *ᵥ xh - b) = 0 ∧ ∃ w : m → ℝ, x0 - xh = Aᵀ *ᵥ w := by
  obtain ⟨x, hx⟩ := stationary_point_exists A b
  obtain ⟨xh, hxh, w, hw⟩ := nearest_solution_exists A (A *ᵥ x) ⟨x, rfl⟩ x0
  exact ⟨xh, by rw [hxh]; exact hx, w, hw⟩

/-- A global minimiser of `‖A y - b‖²` is a least-squares stationary point (the converse of
`stationary_is_minimiser`): so "minimiser of the sum of squared errors" and "solution of the normal
equations" are the same set. -/
theorem minimiser_is_stationary (A : Matrix m n ℝ) (b : m → ℝ) (y : n → ℝ)
    (hmin : ∀ z : n → ℝ, (A *ᵥ y - b) ⬝ᵥ (A *ᵥ y - b) ≤ (A *ᵥ z - b) ⬝ᵥ (A *ᵥ z - b)) :
    Aᵀ *ᵥ (A *ᵥ y - b) = 0 := by
  obtain ⟨x, hx⟩ := stationary_point_exists A b
  have e1 : A *ᵥ y - b = (A *ᵥ x - b) + A *ᵥ (y - x) := by rw [mulVec_sub]; abel
  have hcross : (A *ᵥ x - b) ⬝ᵥ (A *ᵥ (y - x)) = 0 := by
    rw [dotProduct_mulVec, ← mulVec_transpose, hx, zero_dotProduct]
  have hle := hmin x
  rw [e1] at hle
  simp only [add_dotProduct, dotProduct_add] at hle
  have c1 : (A *ᵥ (y - x)) ⬝ᵥ (A *ᵥ x - b) = (A *ᵥ x - b) ⬝ᵥ (A *ᵥ (y - x)) :=
    dotProduct_comm _ _
  have h1 : 0 ≤ (A *ᵥ (y - x)) ⬝ᵥ (A *ᵥ (y - x)) := dot_self_nonneg _
  have h0 : (A *ᵥ (y - x)) ⬝ᵥ (A *ᵥ (y - x)) = 0 := by linarith
  have hA : A *ᵥ (y - x) = 0 := dotProduct_self_eq_zero.mp h0
  rw [e1, hA, add_zero]; exact hx

/-- C04 — **what the nearest least-squares point is**: for every `A`, `b`, `x0` there is `x̂` with
(1) the normal equations `Aᵀ(A x̂ - b) = 0`, (2) `x0 - x̂ ∈ range Aᵀ`, (3) `x̂` minimises the sum of
squared errors `‖A y - b‖²` over all `y`, (4) every minimiser `y` of the sum of squared errors
satisfies `‖y - x0‖² = ‖x̂ - x0‖² + ‖y - x̂‖²` (Pythagoras: `x̂` is the minimiser closest to the guess),
and (5) a minimiser at most as far from `x0` as `x̂` IS `x̂` (uniqueness). -/
theorem nearest_least_squares_exists_spec (A : Matrix m n ℝ) (b : m → ℝ) (x0 : n → ℝ) :
    ∃ xh : n → ℝ, Aᵀ *ᵥ (A *ᵥ xh - b) = 0 ∧ (∃ w : m → ℝ, x0 - xh = Aᵀ *ᵥ w) ∧
      (∀ y : n → ℝ, (A *ᵥ xh - b) ⬝ᵥ (A *ᵥ xh - b) ≤ (A *ᵥ y - b) ⬝ᵥ (A *ᵥ y - b)) ∧
      (∀ y : n → ℝ,
        (∀ z : n → ℝ, (A *ᵥ y - b) ⬝ᵥ (A *ᵥ y - b) ≤ (A *ᵥ z - b) ⬝ᵥ (A *ᵥ z - b)) →
        (y - x0) ⬝ᵥ (y - x0) = (xh - x0) ⬝ᵥ (xh - x0) + (y - xh) ⬝ᵥ (y - xh)) ∧
      (∀ y : n → ℝ,
        (∀ z : n → ℝ, (A *ᵥ y - b) ⬝ᵥ (A *ᵥ y - b) ≤ (A *ᵥ z - b) ⬝ᵥ (A *ᵥ z - b)) →
        (y - x0) ⬝ᵥ (y - x0) ≤ (xh - x0) ⬝ᵥ (xh - x0) → y = xh) := by
  classical
  obtain ⟨xh, hstat, w, hw⟩ := nearest_least_squares_exists A b x0
  have hrange : xh - x0 = Aᵀ *ᵥ (-w) := by rw [mulVec_neg, ← hw]; abel
  refine ⟨xh, hstat, ⟨w, hw⟩, stationary_is_minimiser A b xh hstat, ?_, ?_⟩
  · intro y hy
    exact nearest_least_squares A b x0 xh (-w) hstat hrange y (minimiser_is_stationary A b y hy)
  · intro y hy hle
    exact nearest_least_squares_unique A b x0 xh (-w) hstat hrange y
      (minimiser_is_stationary A b y hy) hle

end NormalEquations

section Converges
variable {m n : Type} [Fintype m] [Fintype n] [DecidableEq n]

/-- C04 — **a damped round of `A x = b` is a damped round of the consistent system `A x = A x̂`**
whenever `x̂` satisfies the normal equations: the two right-hand sides `-Aᵀ(A x - b)` and
`-Aᵀ(A x - A x̂)` of the step equation coincide. -/
theorem isStep_shift (A : Matrix m n ℝ) (b : m → ℝ) (xh x : n → ℝ) (lam : ℝ) (d : n → ℝ)
    (hstat : Aᵀ *ᵥ (A *ᵥ xh - b) = 0) :
    IsStep A (A *ᵥ x - b) lam d ↔ IsStep A (A *ᵥ x - A *ᵥ xh) lam d := by
  have e : Aᵀ *ᵥ (A *ᵥ x - b) = Aᵀ *ᵥ (A *ᵥ x - A *ᵥ xh) := by
    have : A *ᵥ x - b = (A *ᵥ x - A *ᵥ xh) + (A *ᵥ xh - b) := by abel
    rw [this, mulVec_add, hstat, add_zero]
  unfold IsStep
  rw [e]

/-- One round, inconsistent systems included: if `x̂` satisfies the normal equations and the current
error `x - x̂` lies in `range Aᵀ`, so does the next one, and its squared length shrinks by
`(lam/(c+lam))²` (`linear_round_contracts` with `A x̂ = b` weakened to `Aᵀ(A x̂ - b) = 0`). -/
theorem linear_round_contracts_ls (A : Matrix m n ℝ) (b : m → ℝ) (lam c : ℝ) (hlam : 0 < lam)
    (hc : 0 ≤ c) (hgap : ∀ w : m → ℝ, c * ((Aᵀ *ᵥ w) ⬝ᵥ (Aᵀ *ᵥ w)) ≤
      (A *ᵥ (Aᵀ *ᵥ w)) ⬝ᵥ (A *ᵥ (Aᵀ *ᵥ w)))
    (xh x d : n → ℝ) (hstat : Aᵀ *ᵥ (A *ᵥ xh - b) = 0) (w : m → ℝ) (hrange : x - xh = Aᵀ *ᵥ w)
    (h : IsStep A (A *ᵥ x - b) lam d) :
    (∃ w', x + d - xh = Aᵀ *ᵥ w') ∧
      (c + lam) ^ 2 * ((x + d - xh) ⬝ᵥ (x + d - xh)) ≤ lam ^ 2 * ((x - xh) ⬝ᵥ (x - xh)) :=
  linear_round_contracts A (A *ᵥ xh) lam c hlam hc hgap xh x d rfl w hrange
    ((isStep_shift A b xh x lam d hstat).mp h)

/-- **Never moves away from a least-squares point**: for every `A`, `b` (consistent or not) a damped
step brings the iterate no farther from every solution `x̂` of the normal equations
(`linear_error_nonexpansive` with `A x̂ = b` weakened to `Aᵀ(A x̂ - b) = 0`). -/
theorem linear_error_nonexpansive_ls (A : Matrix m n ℝ) (b : m → ℝ) (lam : ℝ) (hlam : 0 < lam)
    (xh x d : n → ℝ) (hstat : Aᵀ *ᵥ (A *ᵥ xh - b) = 0) (h : IsStep A (A *ᵥ x - b) lam d) :
    (x + d - xh) ⬝ᵥ (x + d - xh) ≤ (x - xh) ⬝ᵥ (x - xh) :=
  linear_error_nonexpansive A (A *ᵥ xh) lam hlam xh x d rfl
    ((isStep_shift A b xh x lam d hstat).mp h)

/-- `linear_consistent_converges_uniform` with the consistency hypothesis removed: for every `A`
and `lam > 0` there is a rate `q ∈ [0, 1)` such that for every `b`, every solution `x̂` of the normal
equations with `xs 0 - x̂ ∈ range Aᵀ` and every run `xs` of exact damped rounds of `A x = b`,
`‖xs k - x̂‖² ≤ q^(2k) ‖xs 0 - x̂‖²`. -/
theorem linear_converges_uniform_ls (A : Matrix m n ℝ) (lam : ℝ) (hlam : 0 < lam) :
    ∃ q : ℝ, 0 ≤ q ∧ q < 1 ∧ ∀ (b : m → ℝ) (xh : n → ℝ), Aᵀ *ᵥ (A *ᵥ xh - b) = 0 →
      ∀ (xs : ℕ → n → ℝ) (w0 : m → ℝ), xs 0 - xh = Aᵀ *ᵥ w0 →
      (∀ k, ∃ d, IsStep A (A *ᵥ xs k - b) lam d ∧ xs (k + 1) = xs k + d) →
      ∀ k : ℕ, (xs k - xh) ⬝ᵥ (xs k - xh) ≤ q ^ (2 * k) * ((xs 0 - xh) ⬝ᵥ (xs 0 - xh)) := by
  obtain ⟨q, hq0, hq1, h⟩ := linear_consistent_converges_uniform A lam hlam
  refine ⟨q, hq0, hq1, fun b xh hstat xs w0 h0 hstep => ?_⟩
  refine h (A *ᵥ xh) xh rfl xs w0 h0 (fun k => ?_)
  obtain ⟨d, hd, hx⟩ := hstep k
  exact ⟨d, (isStep_shift A b xh (xs k) lam d hstat).mp hd, hx⟩

/-- C04 — **capstone, inconsistent systems included**: for every matrix `A` and damping `lam > 0`
there is a rate `q ∈ [0, 1)` (depending on `A`, `lam` only) such that for EVERY right-hand side `b`
— whether or not `A x = b` has a solution — every run `xs` of exact damped rounds from any guess
`xs 0` converges geometrically (squared error `≤ q^(2k)` times the initial one) to a point `x̂`
satisfying the normal equations `Aᵀ(A x̂ - b) = 0` whose displacement from the guess lies in
`range Aᵀ`: the minimiser of the sum of squared errors nearest the guess
(`nearest_least_squares_exists_spec`, `nearest_least_squares`). -/
theorem linear_converges_to_least_squares (A : Matrix m n ℝ) (lam : ℝ) (hlam : 0 < lam) :
    ∃ q : ℝ, 0 ≤ q ∧ q < 1 ∧ ∀ (b : m → ℝ) (xs : ℕ → n → ℝ),
      (∀ k, ∃ d, IsStep A (A *ᵥ xs k - b) lam d ∧ xs (k + 1) = xs k + d) →
      ∃ xh, Aᵀ *ᵥ (A *ᵥ xh - b) = 0 ∧ (∃ w0 : m → ℝ, xs 0 - xh = Aᵀ *ᵥ w0) ∧
        ∀ k : ℕ, (xs k - xh) ⬝ᵥ (xs k - xh) ≤ q ^ (2 * k) * ((xs 0 - xh) ⬝ᵥ (xs 0 - xh)) := by
  obtain ⟨q, hq0, hq1, h⟩ := linear_converges_uniform_ls A lam hlam
  refine ⟨q, hq0, hq1, fun b xs hstep => ?_⟩
  obtain ⟨xh, hstat, w0, hw0⟩ := nearest_least_squares_exists A b (xs 0)
  exact ⟨xh, hstat, ⟨w0, hw0⟩, h b xh hstat xs w0 hw0 hstep⟩

/-- C04 — the capstone with the meaning of the limit spelled out: for every `A`, `lam > 0` there is
`q ∈ [0, 1)` such that for every `b` (consistent or not) and every run `xs` of exact damped rounds
there is a point `x̂` which (1) minimises the sum of squared errors `‖A y - b‖²` over all `y`,
(2) among all such minimisers `y` is the one closest to the guess
(`‖y - xs 0‖² = ‖x̂ - xs 0‖² + ‖y - x̂‖²`), and (3) is the geometric limit of the run:
`‖xs k - x̂‖² ≤ q^(2k) ‖xs 0 - x̂‖²` for all `k`. -/
theorem linear_converges_to_least_squares_spec (A : Matrix m n ℝ) (lam : ℝ) (hlam : 0 < lam) :
    ∃ q : ℝ, 0 ≤ q ∧ q < 1 ∧ ∀ (b : m → ℝ) (xs : ℕ → n → ℝ),
      (∀ k, ∃ d, IsStep A (A *ᵥ xs k - b) lam d ∧ xs (k + 1) = xs k + d) →
      ∃ xh,
        (∀ y : n → ℝ, (A *ᵥ xh - b) ⬝ᵥ (A *ᵥ xh - b) ≤ (A *ᵥ y - b) ⬝ᵥ (A *ᵥ y - b)) ∧
        (∀ y : n → ℝ,
          (∀ z : n → ℝ, (A *ᵥ y - b) ⬝ᵥ (A *ᵥ y - b) ≤ (A *ᵥ z - b) ⬝ᵥ (A *ᵥ z - b)) →
          (y - xs 0) ⬝ᵥ (y - xs 0) = (xh - xs 0) ⬝ᵥ (xh - xs 0) + (y - xh) ⬝ᵥ (y - xh)) ∧
        ∀ k : ℕ, (xs k - xh) ⬝ᵥ (xs k - xh) ≤ q ^ (2 * k) * ((xs 0 - xh) ⬝ᵥ (xs 0 - xh)) := by
  obtain ⟨q, hq0, hq1, h⟩ := linear_converges_uniform_ls A lam hlam
  refine ⟨q, hq0, hq1, fun b xs hstep => ?_⟩
  obtain ⟨xh, hstat, ⟨w0, hw0⟩, hmin, hnear, _⟩ := nearest_least_squares_exists_spec A b (xs 0)
  exact ⟨xh, hmin, hnear, h b xh hstat xs w0 hw0 hstep⟩

/-- The limit is the same whichever run is taken and it is the point described by
`nearest_least_squares_exists_spec`: any two points `x̂`, `x̂'` satisfying the normal equations with
`x0 - x̂`, `x0 - x̂' ∈ range Aᵀ` coincide. -/
theorem nearest_least_squares_point_unique (A : Matrix m n ℝ) (b : m → ℝ) (x0 xh xh' : n → ℝ)
    (hstat : Aᵀ *ᵥ (A *ᵥ xh - b) = 0) (w : m → ℝ) (hw : x0 - xh = Aᵀ *ᵥ w)
    (hstat' : Aᵀ *ᵥ (A *ᵥ xh' - b) = 0) (w' : m → ℝ) (hw' : x0 - xh' = Aᵀ *ᵥ w') : xh' = xh := by
  have hr : xh - x0 = Aᵀ *ᵥ (-w) := by rw [mulVec_neg, ← hw]; abel
  have hr' : xh' - x0 = Aᵀ *ᵥ (-w') := by rw [mulVec_neg, ← hw']; abel
  have h1 := nearest_least_squares A b x0 xh (-w) hstat hr xh' hstat'
  have h2 := nearest_least_squares A b x0 xh' (-w') hstat' hr' xh hstat
  have e : (xh - xh') ⬝ᵥ (xh - xh') = (xh' - xh) ⬝ᵥ (xh' - xh) := by
    have : xh - xh' = -(xh' - xh) := by abel
    rw [this, neg_dotProduct_neg]
  have h3 : 0 ≤ (xh' - xh) ⬝ᵥ (xh' - xh) := dot_self_nonneg _
  have h0 : (xh' - xh) ⬝ᵥ (xh' - xh) = 0 := by linarith
  exact sub_eq_zero.mp (dotProduct_self_eq_zero.mp h0)

end Converges

/-! ### Non-vacuity: the two requests "x = 0" and "x = 1" on one variable -/

section Example

/-- The 2×1 system `x = 0`, `x = 1`. -/
def exA : Matrix (Fin 2) (Fin 1) ℝ := !![1; 1]
/-- Its right-hand side. -/
def exB : Fin 2 → ℝ := ![0, 1]

/-- The example system is INCONSISTENT: no `x` has `x = 0` and `x = 1`. -/
theorem ex_inconsistent : ¬ ∃ x : Fin 1 → ℝ, exA *ᵥ x = exB := by
  rintro ⟨x, hx⟩
  have h0 := congrFun hx 0
  have h1 := congrFun hx 1
  simp [exA, exB, mulVec, dotProduct] at h0 h1
  linarith

/-- Its least-squares point is `1/2`: the normal equations hold there. -/
theorem ex_stationary : exAᵀ *ᵥ (exA *ᵥ ![1 / 2] - exB) = 0 := by
  ext i
  fin_cases i
  simp [exA, exB, mulVec, dotProduct, Fin.sum_univ_two]
  norm_num

/-- `1/2` is the only solution of the example's normal equations (the matrix has full column rank,
so `x̂ = 1/2` whatever the guess). -/
theorem ex_stationary_unique (x : Fin 1 → ℝ) (h : exAᵀ *ᵥ (exA *ᵥ x - exB) = 0) :
    x = ![1 / 2] := by
  have h0 := congrFun h 0
  simp [exA, exB, mulVec, dotProduct, Fin.sum_univ_two] at h0
  ext i
  fin_cases i
  simp
  linarith

/-- The capstone on the inconsistent example: every run of exact damped rounds (damping `lam > 0`)
from any guess converges geometrically to `1/2`. -/
example (lam : ℝ) (hlam : 0 < lam) :
    ∃ q : ℝ, 0 ≤ q ∧ q < 1 ∧ ∀ xs : ℕ → Fin 1 → ℝ,
      (∀ k, ∃ d, IsStep exA (exA *ᵥ xs k - exB) lam d ∧ xs (k + 1) = xs k + d) →
      ∀ k : ℕ, (xs k - ![1 / 2]) ⬝ᵥ (xs k - ![1 / 2]) ≤
        q ^ (2 * k) * ((xs 0 - ![1 / 2]) ⬝ᵥ (xs 0 - ![1 / 2])) := by
  obtain ⟨q, hq0, hq1, h⟩ := linear_converges_to_least_squares exA lam hlam
  refine ⟨q, hq0, hq1, fun xs hstep => ?_⟩
  obtain ⟨xh, hstat, _, hk⟩ := h exB xs hstep
  rw [ex_stationary_unique xh hstat] at hk
  exact hk

end Example

end Ezpz.GN
