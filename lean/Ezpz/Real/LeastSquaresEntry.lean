/-
C04 — model-level versions of the least-squares convergence theorem
(`GN.linear_converges_to_least_squares`, `Ezpz/Real/LeastSquaresLimit.lean`): the rounds executed by
the model's Newton loop on a list of LINEAR requests — consistent or not — contract the distance to
the least-squares point nearest the guess.  These are `newtonStep_contracts`, `newtonRun_contracts`,
`newtonRun_converges_prefix`, `newtonLoop_result_contracts` of `Ezpz/Real/LinearEntry.lean` with the
consistency hypothesis `∃ z, A z = b` removed and `A x̂ = b` replaced by the normal equations
`Aᵀ(A x̂ - b) = 0`.
-/
import Ezpz.Real.LinearEntry
import Ezpz.Real.LeastSquaresLimit
namespace Ezpz
open Transc Matrix

section ContractLS
variable (es : List (Entry ℝ)) (n : Nat) (cfg : Config ℝ)
  (solve : Nat → List (Triplet ℝ) → List ℝ → Except SolveError (List ℝ))

/-- **One executed round contracts towards the least-squares point** (`newtonStep_contracts`
without consistency).  `es` linear with ids `< n`, the solver exact with damping `lam k > 0`,
`c ≥ 0` a gap constant of `A = linA es n` on `range Aᵀ`, `x̂` a solution of the normal equations
`Aᵀ(A x̂ - b) = 0` with `x − x̂ ∈ range Aᵀ`.  If round `k` continues from `x` to `x'`, then
`x' − x̂ ∈ range Aᵀ` and `(c + lam k)² ‖x' − x̂‖² ≤ (lam k)² ‖x − x̂‖²`. -/
theorem newtonStep_contracts_ls (lam : Nat → ℝ) (hlin : isLinearList es) (hd : Declared es n)
    (hS : ExactSolve solve (numRows es) n lam) (c : ℝ) (hc : 0 ≤ c)
    (hgap : ∀ w : Fin (numRows es) → ℝ, c * (((linA es n)ᵀ *ᵥ w) ⬝ᵥ ((linA es n)ᵀ *ᵥ w)) ≤
      (linA es n *ᵥ ((linA es n)ᵀ *ᵥ w)) ⬝ᵥ (linA es n *ᵥ ((linA es n)ᵀ *ᵥ w)))
    (xh : Fin n → ℝ) (hxh : (linA es n)ᵀ *ᵥ (linA es n *ᵥ xh - linB es) = 0)
    (k : Nat) (hlam : 0 < lam k) (x : List ℝ) (ws : List (Warning ℝ)) (x' : List ℝ)
    (ws' : List (Warning ℝ)) (hx : x.length = n)
    (hrange : ∃ w, vecOf n x - xh = (linA es n)ᵀ *ᵥ w)
    (h : newtonStep es cfg solve k x ws = .next x' ws') :
    x'.length = n ∧ (∃ w', vecOf n x' - xh = (linA es n)ᵀ *ᵥ w') ∧
      (c + lam k) ^ 2 * ((vecOf n x' - xh) ⬝ᵥ (vecOf n x' - xh)) ≤
        lam k ^ 2 * ((vecOf n x - xh) ⬝ᵥ (vecOf n x - xh)) := by
  obtain ⟨hlen, hstep⟩ := newtonStep_isStep es n cfg solve lam hlin hd hS k x ws x' ws' hx h
  obtain ⟨w, hw⟩ := hrange
  have := GN.linear_round_contracts_ls (linA es n) (linB es) (lam k) c hlam hc hgap xh (vecOf n x)
    (vecOf n x' - vecOf n x) hxh w hw hstep
  rw [add_sub_cancel] at this
  exact ⟨hlen, this⟩

/-- **Every executed round contracts towards the least-squares point** (`newtonRun_contracts`
without consistency; constant damping `lam > 0`, as in the code).  If `j` rounds continue from `x`
(round `k`) to `y`, then `y − x̂ ∈ range Aᵀ` and `(c + lam)^(2j) ‖y − x̂‖² ≤ lam^(2j) ‖x − x̂‖²`, for
every solution `x̂` of the normal equations with `x − x̂ ∈ range Aᵀ`.  A finite statement about the
rounds the loop executed. -/
theorem newtonRun_contracts_ls (lam : ℝ) (hlam : 0 < lam) (hlin : isLinearList es)
    (hd : Declared es n) (hS : ExactSolve solve (numRows es) n (fun _ => lam)) (c : ℝ)
    (hc : 0 ≤ c)
    (hgap : ∀ w : Fin (numRows es) → ℝ, c * (((linA es n)ᵀ *ᵥ w) ⬝ᵥ ((linA es n)ᵀ *ᵥ w)) ≤
      (linA es n *ᵥ ((linA es n)ᵀ *ᵥ w)) ⬝ᵥ (linA es n *ᵥ ((linA es n)ᵀ *ᵥ w)))
    (xh : Fin n → ℝ) (hxh : (linA es n)ᵀ *ᵥ (linA es n *ᵥ xh - linB es) = 0) :
    ∀ (j k : Nat) (x : List ℝ) (ws : List (Warning ℝ)) (y : List ℝ) (wy : List (Warning ℝ)),
      x.length = n → (∃ w, vecOf n x - xh = (linA es n)ᵀ *ᵥ w) →
      newtonRun es cfg solve j k x ws = some (y, wy) →
      y.length = n ∧ (∃ w', vecOf n y - xh = (linA es n)ᵀ *ᵥ w') ∧
        (c + lam) ^ (2 * j) * ((vecOf n y - xh) ⬝ᵥ (vecOf n y - xh)) ≤
          lam ^ (2 * j) * ((vecOf n x - xh) ⬝ᵥ (vecOf n x - xh)) := by
  intro j
  induction j with
  | zero =>
    intro k x ws y wy hx hr h
    simp only [newtonRun, Option.some.injEq, Prod.mk.injEq] at h
    obtain ⟨rfl, rfl⟩ := h
    exact ⟨hx, hr, by simp⟩
  | succ j ih =>
    intro k x ws y wy hx hr h
    unfold newtonRun at h
    split at h
    · rename_i x' ws' hs
      obtain ⟨hx', hr', hcon⟩ := newtonStep_contracts_ls es n cfg solve (fun _ => lam) hlin hd hS c
        hc hgap xh hxh k hlam x ws x' ws' hx hr hs
      obtain ⟨hy, hry, hcon'⟩ := ih (k + 1) x' ws' y wy hx' hr' h
      refine ⟨hy, hry, ?_⟩
      have hcl : 0 ≤ (c + lam) ^ 2 := by positivity
      have hll : 0 ≤ lam ^ (2 * j) := by positivity
      calc (c + lam) ^ (2 * (j + 1)) * ((vecOf n y - xh) ⬝ᵥ (vecOf n y - xh))
          = (c + lam) ^ 2 * ((c + lam) ^ (2 * j) * ((vecOf n y - xh) ⬝ᵥ (vecOf n y - xh))) := by
            ring
        _ ≤ (c + lam) ^ 2 * (lam ^ (2 * j) * ((vecOf n x' - xh) ⬝ᵥ (vecOf n x' - xh))) :=
            mul_le_mul_of_nonneg_left hcon' hcl
        _ = lam ^ (2 * j) * ((c + lam) ^ 2 * ((vecOf n x' - xh) ⬝ᵥ (vecOf n x' - xh))) := by ring
        _ ≤ lam ^ (2 * j) * (lam ^ 2 * ((vecOf n x - xh) ⬝ᵥ (vecOf n x - xh))) :=
            mul_le_mul_of_nonneg_left hcon hll
        _ = lam ^ (2 * (j + 1)) * ((vecOf n x - xh) ⬝ᵥ (vecOf n x - xh)) := by ring
    · simp at h

/-- **C04 tied to the model, inconsistent systems included** (`newtonRun_converges_prefix_ls`): for
every list `es` of linear requests over `n` variables and damping `lam > 0` there is a rate
`q ∈ [0, 1)` — it depends on `es`, `n`, `lam` only — such that (with NO consistency hypothesis on
the system `A x = b` of `es`) for every exact solver, configuration, start round `k` and guess list
`x` there is a point `x̂` satisfying the normal equations `Aᵀ(A x̂ − b) = 0` with
`x − x̂ ∈ range Aᵀ` (the minimiser of the sum of squared errors nearest the guess,
`GN.nearest_least_squares_exists_spec`) such that after *every* number `j` of executed (continuing)
rounds the values `y` satisfy `‖y − x̂‖² ≤ q^(2j) ‖x − x̂‖²`.  Exact real arithmetic, executed rounds
only: no claim that the f64 loop converges. -/
theorem newtonRun_converges_prefix_ls (lam : ℝ) (hlam : 0 < lam) (hlin : isLinearList es)
    (hd : Declared es n) :
    ∃ q : ℝ, 0 ≤ q ∧ q < 1 ∧
      ∀ (cfg : Config ℝ) (solve : Nat → List (Triplet ℝ) → List ℝ → Except SolveError (List ℝ)),
        ExactSolve solve (numRows es) n (fun _ => lam) →
        ∀ (k : Nat) (x : List ℝ) (ws : List (Warning ℝ)), x.length = n →
        ∃ xh, (linA es n)ᵀ *ᵥ (linA es n *ᵥ xh - linB es) = 0 ∧
          (∃ w0, vecOf n x - xh = (linA es n)ᵀ *ᵥ w0) ∧
          ∀ (j : Nat) (y : List ℝ) (wy : List (Warning ℝ)),
            newtonRun es cfg solve j k x ws = some (y, wy) →
            (vecOf n y - xh) ⬝ᵥ (vecOf n y - xh) ≤
              q ^ (2 * j) * ((vecOf n x - xh) ⬝ᵥ (vecOf n x - xh)) := by
  obtain ⟨c, hc, hgap⟩ := GN.gap_exists (linA es n)
  have hcl : 0 < c + lam := by linarith
  refine ⟨lam / (c + lam), by positivity, by rw [div_lt_one hcl]; linarith, ?_⟩
  intro cfg solve hS k x ws hx
  obtain ⟨xh, hxh, w0, hw0⟩ := GN.nearest_least_squares_exists (linA es n) (linB es) (vecOf n x)
  refine ⟨xh, hxh, ⟨w0, hw0⟩, ?_⟩
  intro j y wy hrun
  have h := (newtonRun_contracts_ls es n cfg solve lam hlam hlin hd hS c hc.le hgap xh hxh j k x ws
    y wy hx ⟨w0, hw0⟩ hrun).2.2
  have hp : 0 < (c + lam) ^ (2 * j) := by positivity
  rw [div_pow, div_mul_eq_mul_div, le_div_iff₀ hp, mul_comm]
  exact h

/-- **What a returned loop says, inconsistent systems included** (`newtonLoop_result_contracts_ls`):
with the rate `q` and the nearest least-squares point `x̂` as in `newtonRun_converges_prefix_ls`, if
the model's loop, started in round `k` at `x`, returns `res`, then
`‖res.values − x̂‖² ≤ q^(2·(res.iterations − k)) ‖x − x̂‖²` — one factor `q²` for each round executed
before the returning one (a return at the step-size test applies one more exact step, which does not
increase the distance, `GN.linear_error_nonexpansive_ls`).  No consistency hypothesis. -/
theorem newtonLoop_result_contracts_ls (lam : ℝ) (hlam : 0 < lam) (hlin : isLinearList es)
    (hd : Declared es n) :
    ∃ q : ℝ, 0 ≤ q ∧ q < 1 ∧
      ∀ (cfg : Config ℝ) (solve : Nat → List (Triplet ℝ) → List ℝ → Except SolveError (List ℝ)),
        ExactSolve solve (numRows es) n (fun _ => lam) →
        ∀ (k : Nat) (x : List ℝ) (ws : List (Warning ℝ)), x.length = n →
        ∃ xh, (linA es n)ᵀ *ᵥ (linA es n *ᵥ xh - linB es) = 0 ∧
          (∃ w0, vecOf n x - xh = (linA es n)ᵀ *ᵥ w0) ∧
          ∀ (fuel : Nat) (res : NewtonOk ℝ), newtonLoop es cfg solve fuel k x ws = .ok res →
            k ≤ res.iterations ∧
            (vecOf n res.values - xh) ⬝ᵥ (vecOf n res.values - xh) ≤
              q ^ (2 * (res.iterations - k)) * ((vecOf n x - xh) ⬝ᵥ (vecOf n x - xh)) := by
  obtain ⟨c, hc, hgap⟩ := GN.gap_exists (linA es n)
  have hcl : 0 < c + lam := by linarith
  refine ⟨lam / (c + lam), by positivity, by rw [div_lt_one hcl]; linarith, ?_⟩
  intro cfg solve hS k x ws hx
  obtain ⟨xh, hxh, w0, hw0⟩ := GN.nearest_least_squares_exists (linA es n) (linB es) (vecOf n x)
  refine ⟨xh, hxh, ⟨w0, hw0⟩, ?_⟩
  intro fuel res hloop
  obtain ⟨j, y, wy, _, hrun, hdone⟩ := newtonLoop_ok_run es cfg solve fuel k x ws res hloop
  have hit := newtonStep_done_iterations es cfg solve (k + j) y wy res hdone
  obtain ⟨hy, ⟨w, hw⟩, h⟩ := newtonRun_contracts_ls es n cfg solve lam hlam hlin hd hS c hc.le hgap
    xh hxh j k x ws y wy hx ⟨w0, hw0⟩ hrun
  have hj : res.iterations - k = j := by omega
  refine ⟨by omega, ?_⟩
  rw [hj]
  have hp : 0 < (c + lam) ^ (2 * j) := by positivity
  have hy_le : (vecOf n y - xh) ⬝ᵥ (vecOf n y - xh) ≤
      (lam / (c + lam)) ^ (2 * j) * ((vecOf n x - xh) ⬝ᵥ (vecOf n x - xh)) := by
    rw [div_pow, div_mul_eq_mul_div, le_div_iff₀ hp, mul_comm]
    exact h
  rcases hb : res.byResidual with _ | _
  · obtain ⟨_, hstep⟩ := newtonStep_done_isStep es n cfg solve (fun _ => lam) hlin hd hS (k + j) y
      wy res hy hdone hb
    have hne := GN.linear_error_nonexpansive_ls (linA es n) (linB es) lam hlam xh (vecOf n y)
      (vecOf n res.values - vecOf n y) hxh hstep
    rw [add_sub_cancel] at hne
    exact le_trans hne hy_le
  · rcases newtonStep_done_inv es cfg solve (k + j) y wy res hdone with ⟨_, hv⟩ | ⟨hb', _⟩
    · rw [hv]; exact hy_le
    · rw [hb] at hb'; simp at hb'

end ContractLS

/-! ### Non-vacuity: the inconsistent list "variable 0 fixed to 0" and "variable 0 fixed to 1" -/

/-- The two requests `x = 0` and `x = 1` on variable 0. -/
def twoFixed : List (Entry ℝ) := [⟨.fixed 0 0, 0, 0⟩, ⟨.fixed 0 1, 1, 0⟩]

/-- `twoFixed` is a linear list. -/
theorem twoFixed_linear : isLinearList twoFixed := by
  simp [twoFixed, isLinearList, Constraint.isLinearKind]

/-- `twoFixed` declares only id 0. -/
theorem twoFixed_declared : Declared twoFixed 1 := by
  intro e he i hi
  simp only [twoFixed, List.mem_cons, List.mem_nil_iff, or_false] at he
  rcases he with rfl | rfl <;> simp [Constraint.nonzeroes, Rows.all] at hi <;> omega

/-- The global residual of `twoFixed` at `[t]` is `[t - 0, t - 1]`. -/
theorem twoFixed_resid (t : ℝ) :
    residualAll twoFixed (lookup [t]) = .ok ([t - 0, t - 1], []) := by
  simp [twoFixed, residualAll, Constraint.residual, Constraint.residualV,
    Constraint.residualReads, lookup, takeRows, Constraint.residualDim, Res.mk1]

/-- The system of `twoFixed` is INCONSISTENT: the hypotheses of `newtonRun_converges_prefix_ls` /
`newtonLoop_result_contracts_ls` (`twoFixed_linear`, `twoFixed_declared`) hold for it while the
consistency hypothesis of `newtonRun_converges_prefix` fails. -/
theorem twoFixed_inconsistent : ¬ ∃ z, linA twoFixed 1 *ᵥ z = linB twoFixed := by
  rintro ⟨z, hz⟩
  obtain ⟨r, wr, jac, wj, hr, _, _, _, hb⟩ :=
    assembled_affine twoFixed 1 twoFixed_linear twoFixed_declared [z 0] rfl
  rw [twoFixed_resid] at hr
  simp only [Except.ok.injEq, Prod.mk.injEq] at hr
  have hv : vecOf 1 [z 0] = z := by
    ext i
    have hi : i = 0 := Subsingleton.elim _ _
    subst hi
    simp [vecOf]
  rw [hv, hz, sub_self, ← hr.1] at hb
  have h2 : numRows twoFixed = 2 := rfl
  have h0 := congrFun hb ⟨0, by omega⟩
  have h1 := congrFun hb ⟨1, by omega⟩
  simp [vecOf] at h0 h1
  linarith

/-- The least-squares theorem applies to the inconsistent list `twoFixed`: there is a rate `q < 1`
and, for every exact solver and guess `[t]`, a normal-equations point towards which all executed
rounds contract. -/
example (lam : ℝ) (hlam : 0 < lam) :
    ∃ q : ℝ, 0 ≤ q ∧ q < 1 ∧
      ∀ (cfg : Config ℝ) (solve : Nat → List (Triplet ℝ) → List ℝ → Except SolveError (List ℝ)),
        ExactSolve solve (numRows twoFixed) 1 (fun _ => lam) →
        ∀ (k : Nat) (x : List ℝ) (ws : List (Warning ℝ)), x.length = 1 →
        ∃ xh, (linA twoFixed 1)ᵀ *ᵥ (linA twoFixed 1 *ᵥ xh - linB twoFixed) = 0 ∧
          (∃ w0, vecOf 1 x - xh = (linA twoFixed 1)ᵀ *ᵥ w0) ∧
          ∀ (j : Nat) (y : List ℝ) (wy : List (Warning ℝ)),
            newtonRun twoFixed cfg solve j k x ws = some (y, wy) →
            (vecOf 1 y - xh) ⬝ᵥ (vecOf 1 y - xh) ≤
              q ^ (2 * j) * ((vecOf 1 x - xh) ⬝ᵥ (vecOf 1 x - xh)) :=
  newtonRun_converges_prefix_ls twoFixed 1 lam hlam twoFixed_linear twoFixed_declared

end Ezpz
