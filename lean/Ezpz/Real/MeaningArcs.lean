/-
C01 over ℝ, part 2 (circle and arc kinds): what each kind's error measure means geometrically.

The specification formalised here is the independent description in `harness/src/geom.rs`
(`geom_err`): per kind, the geometric error components and the factor `k` with
`|solver measure| = k · |geometric error|`.  All statements are in plain coordinates.
-/
import Ezpz.Real.Instance
import Ezpz.Model.Solve
namespace Ezpz
open Transc

/-! ### 0. Geometric vocabulary (explicit coordinate formulas) -/

/-- Euclidean distance between the points `p` and `q` at the coordinates `v`. -/
noncomputable def arcDist (v : Nat → ℝ) (p q : Pt) : ℝ :=
  Real.sqrt ((v p.x - v q.x) ^ 2 + (v p.y - v q.y) ^ 2)

/-- Cross product `(a − o) × (b − o)`: positive when `b` is to the left of the ray `o → a`. -/
def arcCross (v : Nat → ℝ) (o a b : Pt) : ℝ :=
  (v a.x - v o.x) * (v b.y - v o.y) - (v a.y - v o.y) * (v b.x - v o.x)

/-- Dot product `(a − o) · (b − o)`. -/
def arcDot (v : Nat → ℝ) (o a b : Pt) : ℝ :=
  (v a.x - v o.x) * (v b.x - v o.x) + (v a.y - v o.y) * (v b.y - v o.y)

/-- Signed distance of the point `c` from the directed line `l.p0 → l.p1`, positive on the LEFT
of the direction of travel: `((p1 − p0) × (c − p0)) / |p1 − p0|`. -/
noncomputable def arcLineDist (v : Nat → ℝ) (l : Seg) (c : Pt) : ℝ :=
  arcCross v l.p0 l.p1 c / arcDist v l.p0 l.p1

theorem arcDist_nonneg (v : Nat → ℝ) (p q : Pt) : 0 ≤ arcDist v p q := Real.sqrt_nonneg _

/-- The distance does not depend on the order of the two points. -/
theorem arcDist_comm (v : Nat → ℝ) (p q : Pt) : arcDist v p q = arcDist v q p := by
  unfold arcDist; congr 1; ring

/-- Squared distance as a polynomial. -/
theorem arcDist_sq (v : Nat → ℝ) (p q : Pt) :
    arcDist v p q ^ 2 = (v p.x - v q.x) ^ 2 + (v p.y - v q.y) ^ 2 := by
  unfold arcDist; exact Real.sq_sqrt (by positivity)

/-- The model's `hypot (p − q)` is the distance. -/
theorem arc_hypot (v : Nat → ℝ) (p q : Pt) :
    Real.sqrt ((v p.x - v q.x) * (v p.x - v q.x) + (v p.y - v q.y) * (v p.y - v q.y))
      = arcDist v p q := by
  unfold arcDist; congr 1; ring

/-- The model's `hypot (q − p)` is the same distance. -/
theorem arc_hypot' (v : Nat → ℝ) (p q : Pt) :
    Real.sqrt ((v q.x - v p.x) * (v q.x - v p.x) + (v q.y - v p.y) * (v q.y - v p.y))
      = arcDist v p q := by
  unfold arcDist; congr 1; ring

/-- The distance is zero exactly when the two points coincide. -/
theorem arcDist_eq_zero (v : Nat → ℝ) (p q : Pt) :
    arcDist v p q = 0 ↔ v p.x = v q.x ∧ v p.y = v q.y := by
  unfold arcDist
  rw [Real.sqrt_eq_zero (by positivity)]
  constructor
  · intro h
    have h1 : (v p.x - v q.x) ^ 2 = 0 := by nlinarith [sq_nonneg (v p.x - v q.x), sq_nonneg (v p.y - v q.y)]
    have h2 : (v p.y - v q.y) ^ 2 = 0 := by nlinarith [sq_nonneg (v p.x - v q.x), sq_nonneg (v p.y - v q.y)]
    exact ⟨by nlinarith [pow_eq_zero_iff (two_ne_zero) |>.mp h1], by nlinarith [pow_eq_zero_iff (two_ne_zero) |>.mp h2]⟩
  · rintro ⟨h1, h2⟩; rw [h1, h2]; ring

/-- Why `arcLineDist` is a distance: its square is the minimum of the squared distance from `c` to
the points `p0 + t (p1 − p0)` of the line, attained at the orthogonal projection. -/
theorem arcLineDist_sq_le (v : Nat → ℝ) (l : Seg) (c : Pt) (h : arcDist v l.p0 l.p1 ≠ 0) (t : ℝ) :
    arcLineDist v l c ^ 2 ≤
      (v c.x - (v l.p0.x + t * (v l.p1.x - v l.p0.x))) ^ 2 +
      (v c.y - (v l.p0.y + t * (v l.p1.y - v l.p0.y))) ^ 2 := by
  have hpos : 0 < arcDist v l.p0 l.p1 ^ 2 := by positivity
  unfold arcLineDist
  rw [div_pow, div_le_iff₀ hpos, arcDist_sq]
  unfold arcCross
  nlinarith [sq_nonneg ((v l.p1.x - v l.p0.x) * (v c.x - v l.p0.x) + (v l.p1.y - v l.p0.y) * (v c.y - v l.p0.y)
    - t * ((v l.p0.x - v l.p1.x) ^ 2 + (v l.p0.y - v l.p1.y) ^ 2))]

/-- The minimum in `arcLineDist_sq_le` is attained at `t = ((p1 − p0) · (c − p0)) / |p1 − p0|²`. -/
theorem arcLineDist_sq_eq (v : Nat → ℝ) (l : Seg) (c : Pt) (h : arcDist v l.p0 l.p1 ≠ 0) :
    arcLineDist v l c ^ 2 =
      (v c.x - (v l.p0.x + arcDot v l.p0 l.p1 c / arcDist v l.p0 l.p1 ^ 2 * (v l.p1.x - v l.p0.x))) ^ 2 +
      (v c.y - (v l.p0.y + arcDot v l.p0 l.p1 c / arcDist v l.p0 l.p1 ^ 2 * (v l.p1.y - v l.p0.y))) ^ 2 := by
  have hne : arcDist v l.p0 l.p1 ^ 2 ≠ 0 := by positivity
  unfold arcLineDist
  rw [div_pow]
  have hs := arcDist_sq v l.p0 l.p1
  field_simp
  unfold arcCross arcDot
  rw [hs]
  ring

/-! The verdict on one, two, three live components. -/

theorem arc_isSat1 (r : Res ℝ) : isSatisfied 1 r = some true ↔ |r.r0| < (EPS : ℝ) := by
  simp [isSatisfied]

theorem arc_isSat2 (r : Res ℝ) :
    isSatisfied 2 r = some true ↔ |r.r0| < (EPS : ℝ) ∧ |r.r1| < (EPS : ℝ) := by
  simp [isSatisfied]

theorem arc_isSat3 (r : Res ℝ) :
    isSatisfied 3 r = some true ↔ |r.r0| < (EPS : ℝ) ∧ |r.r1| < (EPS : ℝ) ∧ |r.r2| < (EPS : ℝ) := by
  simp [isSatisfied, and_assoc]

/-! ### 1. `LineTangentToCircle` -/

/-- `LineTangentToCircle`, guard inactive (the line is not shorter than `EPSILON`): the single error
component is `signed distance of the centre from the directed line p0 → p1` minus the radius,
*positive on the left* of the direction of travel; scale factor `k = 1`.  (The code takes the cross
product with `centre − p1`, which equals the one with `centre − p0`.)  So the kind is directional:
with a positive radius it asks for the centre on the LEFT of `p0 → p1`. -/
theorem measures_lineTangentToCircle (v : Nat → ℝ) (l : Seg) (c : Circ)
    (hg : ¬ arcDist v l.p0 l.p1 < (EPS : ℝ)) :
    ((Constraint.lineTangentToCircle l c).residualV v).r0 = arcLineDist v l c.center - v c.radius ∧
    ((Constraint.lineTangentToCircle l c).residualV v).degenerate = false := by
  simp only [Constraint.residualV, hypot_real, arc_hypot']
  rw [if_neg hg]
  refine ⟨?_, rfl⟩
  show _ / _ - _ = _
  unfold arcLineDist arcCross
  congr 2; ring

/-- `LineTangentToCircle`, guard ACTIVE (line shorter than `EPSILON`): the error measure is `0` with
the degeneracy flag raised, so the verdict is "satisfied" whatever the circle is. -/
theorem guarded_lineTangentToCircle (v : Nat → ℝ) (l : Seg) (c : Circ)
    (hg : arcDist v l.p0 l.p1 < (EPS : ℝ)) :
    (Constraint.lineTangentToCircle l c).residualV v = Res.degen ∧
    isSatisfied (Constraint.lineTangentToCircle l c : Constraint ℝ).residualDim
      ((Constraint.lineTangentToCircle l c).residualV v) = some true := by
  have h : (Constraint.lineTangentToCircle l c).residualV v = Res.degen := by
    simp only [Constraint.residualV, hypot_real, arc_hypot']
    rw [if_pos hg]
  refine ⟨h, ?_⟩
  rw [h, Constraint.residualDim, arc_isSat1]
  show |(0.0 : ℝ)| < EPS
  rw [lit_0, abs_zero]; exact EPS_pos

/-- Verdict of `LineTangentToCircle` (guard inactive): satisfied iff the signed distance of the
centre from the directed line (positive on the left) is within `EPSILON` of the radius. -/
theorem satisfied_lineTangentToCircle (v : Nat → ℝ) (l : Seg) (c : Circ)
    (hg : ¬ arcDist v l.p0 l.p1 < (EPS : ℝ)) :
    isSatisfied (Constraint.lineTangentToCircle l c : Constraint ℝ).residualDim
      ((Constraint.lineTangentToCircle l c).residualV v) = some true ↔
    |arcLineDist v l c.center - v c.radius| < (EPS : ℝ) := by
  rw [Constraint.residualDim, arc_isSat1, (measures_lineTangentToCircle v l c hg).1]

/-- Exact form: the error measure is `0` iff the signed distance of the centre from the directed
line equals the radius (centre on the left for a positive radius). -/
theorem zero_iff_lineTangentToCircle (v : Nat → ℝ) (l : Seg) (c : Circ)
    (hg : ¬ arcDist v l.p0 l.p1 < (EPS : ℝ)) :
    ((Constraint.lineTangentToCircle l c).residualV v).r0 = 0 ↔
    arcLineDist v l c.center = v c.radius := by
  rw [(measures_lineTangentToCircle v l c hg).1, sub_eq_zero]

/-- Consequence in unsigned form: when the measure is `0`, the (unsigned) distance from the centre
to the line is `|radius|`, i.e. the line touches the circle. -/
theorem zero_lineTangentToCircle_unsigned (v : Nat → ℝ) (l : Seg) (c : Circ)
    (hg : ¬ arcDist v l.p0 l.p1 < (EPS : ℝ))
    (h : ((Constraint.lineTangentToCircle l c).residualV v).r0 = 0) :
    |arcLineDist v l c.center| = |v c.radius| := by
  rw [(zero_iff_lineTangentToCircle v l c hg).mp h]

/-- The sign convention matters: a circle touching the line on the RIGHT of `p0 → p1` (signed
distance `-r`, `r > 0`) has error `-2r`, so it is not satisfied once `r ≥ EPSILON / 2`. -/
theorem lineTangentToCircle_right_side (v : Nat → ℝ) (l : Seg) (c : Circ)
    (hg : ¬ arcDist v l.p0 l.p1 < (EPS : ℝ))
    (hside : arcLineDist v l c.center = - v c.radius) :
    ((Constraint.lineTangentToCircle l c).residualV v).r0 = -2 * v c.radius := by
  rw [(measures_lineTangentToCircle v l c hg).1, hside]; ring

/-! ### 2. `CircleTangentToCircle` -/

/-- `CircleTangentToCircle` (no guard): with `d` the distance of the centres, the code compares
`|d − |ra − rb||` (distance from internal tangency) with `|ra + rb − d|` (distance from external
tangency).  If the internal one is STRICTLY smaller the measure is `|ra − rb| − d`, otherwise
(ties included) it is `ra + rb − d`.  The radii are used as given (no sign check). -/
theorem measures_circleTangentToCircle (v : Nat → ℝ) (a b : Circ) :
    ((Constraint.circleTangentToCircle a b).residualV v).r0 =
      (if |arcDist v a.center b.center - (|v a.radius - v b.radius|)|
            < |v a.radius + v b.radius - arcDist v a.center b.center|
       then |v a.radius - v b.radius| - arcDist v a.center b.center
       else v a.radius + v b.radius - arcDist v a.center b.center) ∧
    ((Constraint.circleTangentToCircle a b).residualV v).degenerate = false := by
  simp only [Constraint.residualV, sqrt_real, abs_real, sqr, arc_hypot]
  refine ⟨?_, rfl⟩
  show (if _ then _ else _) = _
  split_ifs <;> ring

/-- In absolute value the measure is the smaller of the two tangency defects, exactly the quantity
of `geom.rs` (`k = 1`): `min |d − (ra + rb)| |d − |ra − rb||`. -/
theorem abs_measure_circleTangentToCircle (v : Nat → ℝ) (a b : Circ) :
    |((Constraint.circleTangentToCircle a b).residualV v).r0| =
      min |arcDist v a.center b.center - (v a.radius + v b.radius)|
          |arcDist v a.center b.center - (|v a.radius - v b.radius|)| := by
  rw [(measures_circleTangentToCircle v a b).1]
  have e1 : |v a.radius + v b.radius - arcDist v a.center b.center|
      = |arcDist v a.center b.center - (v a.radius + v b.radius)| := by
    rw [← abs_neg]; congr 1; ring
  have e2 : |(|v a.radius - v b.radius|) - arcDist v a.center b.center|
      = |arcDist v a.center b.center - (|v a.radius - v b.radius|)| := by
    rw [← abs_neg]; congr 1; ring
  split_ifs with h
  · rw [e1] at h; rw [e2, min_eq_right h.le]
  · rw [e1] at h; rw [e1, min_eq_left (not_lt.mp h)]

/-- Verdict of `CircleTangentToCircle`: satisfied iff the centre distance is within `EPSILON` of
`ra + rb` (external tangency) or of `|ra − rb|` (internal tangency). -/
theorem satisfied_circleTangentToCircle (v : Nat → ℝ) (a b : Circ) :
    isSatisfied (Constraint.circleTangentToCircle a b : Constraint ℝ).residualDim
      ((Constraint.circleTangentToCircle a b).residualV v) = some true ↔
    (|arcDist v a.center b.center - (v a.radius + v b.radius)| < (EPS : ℝ) ∨
     |arcDist v a.center b.center - (|v a.radius - v b.radius|)| < (EPS : ℝ)) := by
  rw [Constraint.residualDim, arc_isSat1, abs_measure_circleTangentToCircle, min_lt_iff]

/-- Exact form: the measure is `0` iff the centre distance equals `ra + rb` or `|ra − rb|`. -/
theorem zero_iff_circleTangentToCircle (v : Nat → ℝ) (a b : Circ) :
    ((Constraint.circleTangentToCircle a b).residualV v).r0 = 0 ↔
    (arcDist v a.center b.center = v a.radius + v b.radius ∨
     arcDist v a.center b.center = |v a.radius - v b.radius|) := by
  rw [← abs_eq_zero, abs_measure_circleTangentToCircle]
  constructor
  · intro h
    rcases min_choice |arcDist v a.center b.center - (v a.radius + v b.radius)|
        |arcDist v a.center b.center - (|v a.radius - v b.radius|)| with h1 | h1
    · rw [h1, abs_eq_zero, sub_eq_zero] at h; exact Or.inl h
    · rw [h1, abs_eq_zero, sub_eq_zero] at h; exact Or.inr h
  · intro h
    apply le_antisymm _ (le_min (abs_nonneg _) (abs_nonneg _))
    rcases h with h | h
    · exact (min_le_left _ _).trans (by rw [h, sub_self, abs_zero])
    · exact (min_le_right _ _).trans (by rw [h, sub_self, abs_zero])

/-! ### 3. `ArcRadius` -/

/-- `ArcRadius(a, r)` (the residual has no guard): row 0 is `|centre − start| − r`, row 1 is
`|centre − end| − r`; `k = 1`. -/
theorem measures_arcRadius (v : Nat → ℝ) (a : ArcD) (r : ℝ) :
    ((Constraint.arcRadius a r).residualV v).r0 = arcDist v a.center a.start - r ∧
    ((Constraint.arcRadius a r).residualV v).r1 = arcDist v a.center a.stop - r ∧
    ((Constraint.arcRadius a r).residualV v).degenerate = false := by
  simp only [Constraint.residualV, distResidual, hypot_real, arc_hypot]
  exact ⟨rfl, rfl, rfl⟩

/-- Verdict of `ArcRadius`: satisfied iff both the start radius and the end radius are within
`EPSILON` of `r`. -/
theorem satisfied_arcRadius (v : Nat → ℝ) (a : ArcD) (r : ℝ) :
    isSatisfied (Constraint.arcRadius a r).residualDim
      ((Constraint.arcRadius a r).residualV v) = some true ↔
    (|arcDist v a.center a.start - r| < (EPS : ℝ) ∧ |arcDist v a.center a.stop - r| < (EPS : ℝ)) := by
  obtain ⟨h0, h1, _⟩ := measures_arcRadius v a r
  rw [Constraint.residualDim, arc_isSat2, h0, h1]

/-- Exact form: both rows are `0` iff `|centre − start| = r` and `|centre − end| = r`. -/
theorem zero_iff_arcRadius (v : Nat → ℝ) (a : ArcD) (r : ℝ) :
    (((Constraint.arcRadius a r).residualV v).r0 = 0 ∧
     ((Constraint.arcRadius a r).residualV v).r1 = 0) ↔
    (arcDist v a.center a.start = r ∧ arcDist v a.center a.stop = r) := by
  obtain ⟨h0, h1, _⟩ := measures_arcRadius v a r
  rw [h0, h1, sub_eq_zero, sub_eq_zero]

/-! ### 4. `Arc` (`isArc`) -/

/-- `Arc(a)` (no guard): the single row is the difference of the SQUARED radii,
`|start − centre|² − |end − centre|²`, which is `(ds − de) · (ds + de)`: the geometric error
`ds − de` of `geom.rs` times the scale factor `k = ds + de`. -/
theorem measures_isArc (v : Nat → ℝ) (a : ArcD) :
    ((Constraint.isArc a : Constraint ℝ).residualV v).r0 =
      arcDist v a.start a.center ^ 2 - arcDist v a.stop a.center ^ 2 ∧
    ((Constraint.isArc a : Constraint ℝ).residualV v).r0 =
      (arcDist v a.start a.center - arcDist v a.stop a.center) *
      (arcDist v a.start a.center + arcDist v a.stop a.center) ∧
    ((Constraint.isArc a : Constraint ℝ).residualV v).degenerate = false := by
  have h : ((Constraint.isArc a : Constraint ℝ).residualV v).r0 =
      arcDist v a.start a.center ^ 2 - arcDist v a.stop a.center ^ 2 := by
    rw [arcDist_sq, arcDist_sq]
    simp only [Constraint.residualV, sqr]
    show _ - _ = _
    ring
  refine ⟨h, ?_, rfl⟩
  rw [h]; ring

/-- Verdict of `Arc`: satisfied iff `|ds − de| · (ds + de) < EPSILON` (`ds`, `de` the distances of
start and end from the centre).  The tolerance on the radius difference therefore scales like
`EPSILON / (ds + de)`. -/
theorem satisfied_isArc (v : Nat → ℝ) (a : ArcD) :
    isSatisfied (Constraint.isArc a : Constraint ℝ).residualDim
      ((Constraint.isArc a : Constraint ℝ).residualV v) = some true ↔
    |arcDist v a.start a.center - arcDist v a.stop a.center| *
      (arcDist v a.start a.center + arcDist v a.stop a.center) < (EPS : ℝ) := by
  rw [Constraint.residualDim, arc_isSat1, (measures_isArc v a).2.1, abs_mul,
    abs_of_nonneg (add_nonneg (arcDist_nonneg _ _ _) (arcDist_nonneg _ _ _))]

/-- Exact form: the row is `0` iff start and end are at the same distance from the centre. -/
theorem zero_iff_isArc (v : Nat → ℝ) (a : ArcD) :
    ((Constraint.isArc a : Constraint ℝ).residualV v).r0 = 0 ↔
    arcDist v a.start a.center = arcDist v a.stop a.center := by
  rw [(measures_isArc v a).1]
  have h1 := arcDist_nonneg v a.start a.center
  have h2 := arcDist_nonneg v a.stop a.center
  constructor
  · intro h
    have : arcDist v a.start a.center ^ 2 = arcDist v a.stop a.center ^ 2 := by linarith
    exact (pow_left_inj₀ h1 h2 two_ne_zero).mp this
  · intro h; rw [h]; ring

/-! ### 5. `PointArcCoincident` -/

/-- `ANGULAR_DISTANCE_TOLERANCE` over the reals. -/
theorem arc_ANG_TOL : (ANG_TOL : ℝ) = 0.05 := rfl

/-- Row 0 of `PointArcCoincident`: how far the point is off the circle about `centre` through
`start`: `|centre − p| − |centre − start|`. -/
noncomputable def arcCircleErr (v : Nat → ℝ) (arc : ArcD) (p : Pt) : ℝ :=
  arcDist v arc.center p - arcDist v arc.center arc.start

/-- The code's `dir`: `+1` when `(start − centre) × (end − centre) ≥ 0` (the short way from start
to end is counter-clockwise, or start, centre, end are collinear), `-1` otherwise. -/
noncomputable def arcDir (v : Nat → ℝ) (arc : ArcD) : ℝ :=
  if 0 ≤ arcCross v arc.center arc.start arc.stop then 1 else -1

/-- "Within the sweep" as the code tests it (two half-plane tests, oriented by `arcDir`): the point
is not on the wrong side of the ray `centre → start`, and `end` is not on the wrong side of the ray
`centre → p`.  For a counter-clockwise minor arc this is the sector between start and end. -/
def arcInSweep (v : Nat → ℝ) (arc : ArcD) (p : Pt) : Prop :=
  0 ≤ arcDir v arc * arcCross v arc.center arc.start p ∧
  0 ≤ arcDir v arc * arcCross v arc.center p arc.stop

/-- `PointArcCoincident` (the residual has no degeneracy guard).  Row 0 is the off-circle error
`|centre − p| − |centre − start|` (`k = 1`).  Rows 1 and 2 are GATED: they are `0` whenever the point
is within `0.05` of the circle (`|row 0| ≤ 0.05`); only when the point is farther than `0.05` from the
circle are they the one-sided penalties `min 0 (dir · (start − c) × (p − c))` and
`min 0 (dir · (p − c) × (end − c))`. -/
theorem measures_pointArcCoincident (v : Nat → ℝ) (arc : ArcD) (p : Pt) :
    ((Constraint.pointArcCoincident arc p : Constraint ℝ).residualV v).r0 = arcCircleErr v arc p ∧
    ((Constraint.pointArcCoincident arc p : Constraint ℝ).residualV v).r1 =
      (if |arcCircleErr v arc p| ≤ 0.05 then 0
       else min 0 (arcDir v arc * arcCross v arc.center arc.start p)) ∧
    ((Constraint.pointArcCoincident arc p : Constraint ℝ).residualV v).r2 =
      (if |arcCircleErr v arc p| ≤ 0.05 then 0
       else min 0 (arcDir v arc * arcCross v arc.center p arc.stop)) ∧
    ((Constraint.pointArcCoincident arc p : Constraint ℝ).residualV v).degenerate = false := by
  simp only [Constraint.residualV, hypot_real, abs_real, arc_hypot, arc_ANG_TOL]
  have hd : (if (0.0 : ℝ) ≤ (v arc.start.x - v arc.center.x) * (v arc.stop.y - v arc.center.y)
      - (v arc.start.y - v arc.center.y) * (v arc.stop.x - v arc.center.x) then (1.0 : ℝ) else -1.0)
      = arcDir v arc := by
    unfold arcDir arcCross; rw [lit_0, lit_1]
  rw [hd]
  have hs : (v arc.start.x - v arc.center.x) * (v arc.center.y - v p.y)
      - (v arc.start.y - v arc.center.y) * (v arc.center.x - v p.x)
      = - arcCross v arc.center arc.start p := by unfold arcCross; ring
  have he : (v arc.stop.x - v arc.center.x) * (v arc.center.y - v p.y)
      - (v arc.stop.y - v arc.center.y) * (v arc.center.x - v p.x)
      = arcCross v arc.center p arc.stop := by unfold arcCross; ring
  rw [hs, he]
  change (if |arcCircleErr v arc p| ≤ 0.05 then _ else _ : Res ℝ).r0 = _ ∧
    (if |arcCircleErr v arc p| ≤ 0.05 then _ else _ : Res ℝ).r1 = _ ∧
    (if |arcCircleErr v arc p| ≤ 0.05 then _ else _ : Res ℝ).r2 = _ ∧
    (if |arcCircleErr v arc p| ≤ 0.05 then _ else _ : Res ℝ).degenerate = _
  by_cases hgate : |arcCircleErr v arc p| ≤ 0.05
  · simp only [if_pos hgate]
    exact ⟨rfl, lit_0, lit_0, trivial⟩
  · simp only [if_neg hgate]
    refine ⟨rfl, ?_, ?_, trivial⟩
    · show (if -arcCross v arc.center arc.start p * arcDir v arc ≤ 0.0 then (0.0 : ℝ)
        else -(-arcCross v arc.center arc.start p * arcDir v arc)) = _
      rw [lit_0]
      split_ifs with h
      · rw [min_eq_left (by linarith)]
      · rw [min_eq_right (by linarith)]; ring
    · show (if (0.0 : ℝ) ≤ arcCross v arc.center p arc.stop * arcDir v arc then (0.0 : ℝ)
        else arcCross v arc.center p arc.stop * arcDir v arc) = _
      rw [lit_0]
      split_ifs with h
      · rw [min_eq_left (by linarith)]
      · rw [min_eq_right (by linarith)]; ring

/-- The gate, first half: a point within `0.05` of the circle has its two angular rows switched
OFF (both `0`), wherever it is relative to the sweep. -/
theorem pointArc_rows_off_near_circle (v : Nat → ℝ) (arc : ArcD) (p : Pt)
    (h : |arcCircleErr v arc p| ≤ 0.05) :
    ((Constraint.pointArcCoincident arc p : Constraint ℝ).residualV v).r1 = 0 ∧
    ((Constraint.pointArcCoincident arc p : Constraint ℝ).residualV v).r2 = 0 := by
  obtain ⟨_, h1, h2, _⟩ := measures_pointArcCoincident v arc p
  rw [h1, h2, if_pos h, if_pos h]; exact ⟨rfl, rfl⟩

/-- The gate, second half: for a point farther than `0.05` from the circle the two angular rows are
both `0` exactly when the point passes the code's two half-plane tests (`arcInSweep`). -/
theorem pointArc_rows_far_from_circle (v : Nat → ℝ) (arc : ArcD) (p : Pt)
    (h : ¬ |arcCircleErr v arc p| ≤ 0.05) :
    (((Constraint.pointArcCoincident arc p : Constraint ℝ).residualV v).r1 = 0 ∧
     ((Constraint.pointArcCoincident arc p : Constraint ℝ).residualV v).r2 = 0) ↔
    arcInSweep v arc p := by
  obtain ⟨_, h1, h2, _⟩ := measures_pointArcCoincident v arc p
  rw [h1, h2, if_neg h, if_neg h]
  unfold arcInSweep
  simp only [min_eq_left_iff]

/-- Verdict of `PointArcCoincident`: satisfied iff the point is within `EPSILON` of the circle about
`centre` through `start`.  The sweep rows never influence the verdict: a satisfied row 0 is inside
the `0.05` gate, which switches rows 1 and 2 off. -/
theorem satisfied_pointArcCoincident (v : Nat → ℝ) (arc : ArcD) (p : Pt) :
    isSatisfied (Constraint.pointArcCoincident arc p : Constraint ℝ).residualDim
      ((Constraint.pointArcCoincident arc p : Constraint ℝ).residualV v) = some true ↔
    |arcDist v arc.center p - arcDist v arc.center arc.start| < (EPS : ℝ) := by
  obtain ⟨h0, h1, h2, _⟩ := measures_pointArcCoincident v arc p
  rw [Constraint.residualDim, arc_isSat3, h0, h1, h2]
  show _ ↔ |arcCircleErr v arc p| < (EPS : ℝ)
  constructor
  · exact fun h => h.1
  · intro h
    have hgate : |arcCircleErr v arc p| ≤ 0.05 := by
      rw [EPS_real] at h; norm_num at h ⊢; linarith
    rw [if_pos hgate, if_pos hgate, abs_zero]
    exact ⟨h, EPS_pos, EPS_pos⟩

/-- Exact form: all three rows are `0` iff the point is exactly on the circle about `centre`
through `start` — nothing about the sweep. -/
theorem zero_iff_pointArcCoincident (v : Nat → ℝ) (arc : ArcD) (p : Pt) :
    (((Constraint.pointArcCoincident arc p : Constraint ℝ).residualV v).r0 = 0 ∧
     ((Constraint.pointArcCoincident arc p : Constraint ℝ).residualV v).r1 = 0 ∧
     ((Constraint.pointArcCoincident arc p : Constraint ℝ).residualV v).r2 = 0) ↔
    arcDist v arc.center p = arcDist v arc.center arc.start := by
  obtain ⟨h0, h1, h2, _⟩ := measures_pointArcCoincident v arc p
  rw [h0, h1, h2]
  constructor
  · intro h; have := h.1; unfold arcCircleErr at this; linarith
  · intro h
    have hz : arcCircleErr v arc p = 0 := by unfold arcCircleErr; linarith
    have hgate : |arcCircleErr v arc p| ≤ 0.05 := by rw [hz, abs_zero]; norm_num
    rw [if_pos hgate, if_pos hgate]
    exact ⟨hz, rfl, rfl⟩

/-- Coordinates of the witness: centre `(0,0)` (ids 0,1), start `(1,0)` (ids 2,3), end `(0,1)`
(ids 4,5) — the quarter arc from 0° to 90° of the unit circle — and the point `(-1,0)` (ids 6,7),
which is on the circle at 180°. -/
def arcWitness : Nat → ℝ := fun i => if i = 2 ∨ i = 5 then 1 else if i = 6 then -1 else 0

/-- The arc of the witness. -/
def arcWitnessArc : ArcD := ⟨⟨0, 1⟩, ⟨2, 3⟩, ⟨4, 5⟩⟩

/-- KNOWN FINDING, confirmed on the model: a point on the circle but OUTSIDE the sweep is reported
satisfied.  Arc from 0° to 90° about the origin with radius 1, point at 180°: the verdict is
"satisfied", all three error components are `0`, and yet the point fails the code's own sweep test
(`(p − c) × (end − c) = -1 < 0`). -/
theorem pointArc_outside_sweep_satisfied :
    isSatisfied (Constraint.pointArcCoincident arcWitnessArc ⟨6, 7⟩ : Constraint ℝ).residualDim
      ((Constraint.pointArcCoincident arcWitnessArc ⟨6, 7⟩ : Constraint ℝ).residualV arcWitness)
        = some true ∧
    arcCross arcWitness arcWitnessArc.center ⟨6, 7⟩ arcWitnessArc.stop = -1 ∧
    arcDir arcWitness arcWitnessArc = 1 ∧
    ¬ arcInSweep arcWitness arcWitnessArc ⟨6, 7⟩ := by
  have hd1 : arcDist arcWitness arcWitnessArc.center ⟨6, 7⟩ = 1 := by
    simp [arcDist, arcWitness, arcWitnessArc]
  have hd2 : arcDist arcWitness arcWitnessArc.center arcWitnessArc.start = 1 := by
    simp [arcDist, arcWitness, arcWitnessArc]
  have hc : arcCross arcWitness arcWitnessArc.center ⟨6, 7⟩ arcWitnessArc.stop = -1 := by
    simp [arcCross, arcWitness, arcWitnessArc]
  have hdir : arcDir arcWitness arcWitnessArc = 1 := by
    simp [arcDir, arcCross, arcWitness, arcWitnessArc]
  refine ⟨?_, hc, hdir, ?_⟩
  · rw [satisfied_pointArcCoincident, hd1, hd2, sub_self, abs_zero]; exact EPS_pos
  · unfold arcInSweep
    rw [hc, hdir]; norm_num

/-- The same witness, seen from the sweep angle: the point sits at angle `π` from the start
direction, outside the quarter turn `[0, π/2]` swept by the arc. -/
theorem pointArc_witness_angle :
    realAtan2 (arcCross arcWitness arcWitnessArc.center arcWitnessArc.start ⟨6, 7⟩)
      (arcDot arcWitness arcWitnessArc.center arcWitnessArc.start ⟨6, 7⟩) = Real.pi ∧
    realAtan2 (arcCross arcWitness arcWitnessArc.center arcWitnessArc.start arcWitnessArc.stop)
      (arcDot arcWitness arcWitnessArc.center arcWitnessArc.start arcWitnessArc.stop) = Real.pi / 2 := by
  constructor
  · have h1 : arcCross arcWitness arcWitnessArc.center arcWitnessArc.start ⟨6, 7⟩ = 0 := by
      simp [arcCross, arcWitness, arcWitnessArc]
    have h2 : arcDot arcWitness arcWitnessArc.center arcWitnessArc.start ⟨6, 7⟩ = -1 := by
      simp [arcDot, arcWitness, arcWitnessArc]
    rw [h1, h2, realAtan2]
    have : (⟨-1, 0⟩ : ℂ) = -1 := by apply Complex.ext <;> simp
    rw [this, Complex.arg_neg_one]
  · have h1 : arcCross arcWitness arcWitnessArc.center arcWitnessArc.start arcWitnessArc.stop = 1 := by
      simp [arcCross, arcWitness, arcWitnessArc]
    have h2 : arcDot arcWitness arcWitnessArc.center arcWitnessArc.start arcWitnessArc.stop = 0 := by
      simp [arcDot, arcWitness, arcWitnessArc]
    rw [h1, h2, realAtan2]
    have : (⟨0, 1⟩ : ℂ) = Complex.I := by apply Complex.ext <;> simp
    rw [this, Complex.arg_I]

/-! ### 6. The swept angle and `wrapAngleDelta` -/

/-- Signed swept angle from `start − centre` to `end − centre`, in `(-π, π]`, counter-clockwise
positive: `atan2 ((start − c) × (end − c)) ((start − c) · (end − c))`. -/
noncomputable def arcSweep (v : Nat → ℝ) (a : ArcD) : ℝ :=
  realAtan2 (arcCross v a.center a.start a.stop) (arcDot v a.center a.start a.stop)

/-- The swept angle lies in `(-π, π]`. -/
theorem arcSweep_mem (v : Nat → ℝ) (a : ArcD) : arcSweep v a ∈ Set.Ioc (-Real.pi) Real.pi :=
  Complex.arg_mem_Ioc _

/-- Lagrange's identity: `dot² + cross² = |a − o|² |b − o|²`. -/
theorem arc_lagrange (v : Nat → ℝ) (o a b : Pt) :
    arcDot v o a b ^ 2 + arcCross v o a b ^ 2 = arcDist v o a ^ 2 * arcDist v o b ^ 2 := by
  rw [arcDist_sq, arcDist_sq]; unfold arcDot arcCross; ring

/-- The complex number `dot + i·cross` has modulus `|a − o| · |b − o|`. -/
theorem arc_norm (v : Nat → ℝ) (o a b : Pt) :
    ‖(⟨arcDot v o a b, arcCross v o a b⟩ : ℂ)‖ = arcDist v o a * arcDist v o b := by
  rw [Complex.norm_def, Complex.normSq_apply]
  have : arcDot v o a b * arcDot v o a b + arcCross v o a b * arcCross v o a b
      = (arcDist v o a * arcDist v o b) ^ 2 := by
    have := arc_lagrange v o a b; nlinarith
  rw [this, Real.sqrt_sq (mul_nonneg (arcDist_nonneg _ _ _) (arcDist_nonneg _ _ _))]

/-- Cosine and sine of the swept angle (both radii non-zero): `dot / (|u||w|)` and
`cross / (|u||w|)`, `u = start − c`, `w = end − c`. -/
theorem arcSweep_cos_sin (v : Nat → ℝ) (a : ArcD)
    (hs : arcDist v a.center a.start ≠ 0) (he : arcDist v a.center a.stop ≠ 0) :
    Real.cos (arcSweep v a) = arcDot v a.center a.start a.stop /
      (arcDist v a.center a.start * arcDist v a.center a.stop) ∧
    Real.sin (arcSweep v a) = arcCross v a.center a.start a.stop /
      (arcDist v a.center a.start * arcDist v a.center a.stop) := by
  have hn := arc_norm v a.center a.start a.stop
  have hz : (⟨arcDot v a.center a.start a.stop, arcCross v a.center a.start a.stop⟩ : ℂ) ≠ 0 := by
    rw [← norm_ne_zero_iff, hn]; exact mul_ne_zero hs he
  unfold arcSweep realAtan2
  rw [Complex.cos_arg hz, Complex.sin_arg, hn]
  exact ⟨rfl, rfl⟩

/-- What the swept angle means: the direction of `end − centre` is the direction of
`start − centre` rotated counter-clockwise by `arcSweep` (stated without division:
`|u| · w = |w| · Rot(sweep) u`). -/
theorem arcSweep_spec (v : Nat → ℝ) (a : ArcD)
    (hs : arcDist v a.center a.start ≠ 0) (he : arcDist v a.center a.stop ≠ 0) :
    arcDist v a.center a.start * (v a.stop.x - v a.center.x) =
      arcDist v a.center a.stop *
        (Real.cos (arcSweep v a) * (v a.start.x - v a.center.x)
          - Real.sin (arcSweep v a) * (v a.start.y - v a.center.y)) ∧
    arcDist v a.center a.start * (v a.stop.y - v a.center.y) =
      arcDist v a.center a.stop *
        (Real.sin (arcSweep v a) * (v a.start.x - v a.center.x)
          + Real.cos (arcSweep v a) * (v a.start.y - v a.center.y)) := by
  obtain ⟨hc, hsn⟩ := arcSweep_cos_sin v a hs he
  rw [hc, hsn]
  have k1 : arcDot v a.center a.start a.stop * (v a.start.x - v a.center.x)
      - arcCross v a.center a.start a.stop * (v a.start.y - v a.center.y)
      = arcDist v a.center a.start ^ 2 * (v a.stop.x - v a.center.x) := by
    rw [arcDist_sq]; unfold arcDot arcCross; ring
  have k2 : arcCross v a.center a.start a.stop * (v a.start.x - v a.center.x)
      + arcDot v a.center a.start a.stop * (v a.start.y - v a.center.y)
      = arcDist v a.center a.start ^ 2 * (v a.stop.y - v a.center.y) := by
    rw [arcDist_sq]; unfold arcDot arcCross; ring
  constructor
  · have e : arcDist v a.center a.stop *
        (arcDot v a.center a.start a.stop / (arcDist v a.center a.start * arcDist v a.center a.stop)
            * (v a.start.x - v a.center.x)
          - arcCross v a.center a.start a.stop / (arcDist v a.center a.start * arcDist v a.center a.stop)
            * (v a.start.y - v a.center.y))
        = (arcDot v a.center a.start a.stop * (v a.start.x - v a.center.x)
          - arcCross v a.center a.start a.stop * (v a.start.y - v a.center.y))
            / arcDist v a.center a.start := by
      field_simp
    rw [e, k1]; field_simp
  · have e : arcDist v a.center a.stop *
        (arcCross v a.center a.start a.stop / (arcDist v a.center a.start * arcDist v a.center a.stop)
            * (v a.start.x - v a.center.x)
          + arcDot v a.center a.start a.stop / (arcDist v a.center a.start * arcDist v a.center a.stop)
            * (v a.start.y - v a.center.y))
        = (arcCross v a.center a.start a.stop * (v a.start.x - v a.center.x)
          + arcDot v a.center a.start a.stop * (v a.start.y - v a.center.y))
            / arcDist v a.center a.start := by
      field_simp
    rw [e, k2]; field_simp

/-- Over the reals `wrap_angle_delta` is reduction modulo `2π` into `(-π, π]`. -/
theorem arc_wrapAngleDelta_eq_toIocMod (δ : ℝ) :
    wrapAngleDelta δ = toIocMod Real.two_pi_pos (-Real.pi) δ := by
  unfold wrapAngleDelta
  simp only [pi_real, sin_real, cos_real, atan2_real]
  split_ifs with h
  · symm; rw [toIocMod_eq_self]; exact ⟨h.1, by linarith [h.2]⟩
  · rw [realAtan2, ← Complex.arg_cos_add_sin_mul_I_eq_toIocMod]
    congr 1
    apply Complex.ext <;> simp [← Complex.ofReal_cos, ← Complex.ofReal_sin]

/-- `wrap_angle_delta` is the identity on `(-π, π]`. -/
theorem wrapAngleDelta_id (δ : ℝ) (h : -Real.pi < δ ∧ δ ≤ Real.pi) : wrapAngleDelta δ = δ := by
  unfold wrapAngleDelta
  simp only [pi_real]
  rw [if_pos h]

/-- The wrapped value lies in `(-π, π]`. -/
theorem arc_wrapAngleDelta_mem (δ : ℝ) : -Real.pi < wrapAngleDelta δ ∧ wrapAngleDelta δ ≤ Real.pi := by
  rw [arc_wrapAngleDelta_eq_toIocMod]
  have := toIocMod_mem_Ioc Real.two_pi_pos (-Real.pi) δ
  exact ⟨this.1, by linarith [this.2]⟩

/-- The wrapped value differs from the argument by a whole number of turns. -/
theorem wrapAngleDelta_exists (δ : ℝ) : ∃ k : ℤ, wrapAngleDelta δ = δ + 2 * Real.pi * k := by
  rw [arc_wrapAngleDelta_eq_toIocMod]
  refine ⟨- toIocDiv Real.two_pi_pos (-Real.pi) δ, ?_⟩
  have := toIocMod_add_toIocDiv_zsmul Real.two_pi_pos (-Real.pi) δ
  rw [zsmul_eq_mul] at this
  push_cast
  linarith

/-- The wrapped value is `c` iff `c ∈ (-π, π]` and `δ − c` is a whole number of turns. -/
theorem wrapAngleDelta_eq_iff (δ c : ℝ) :
    wrapAngleDelta δ = c ↔ (-Real.pi < c ∧ c ≤ Real.pi) ∧ ∃ k : ℤ, δ = c + 2 * Real.pi * k := by
  rw [arc_wrapAngleDelta_eq_toIocMod, toIocMod_eq_iff]
  constructor
  · rintro ⟨hm, z, hz⟩
    refine ⟨⟨hm.1, by linarith [hm.2]⟩, z, ?_⟩
    rw [hz, zsmul_eq_mul]; ring
  · rintro ⟨hm, z, hz⟩
    refine ⟨⟨hm.1, by linarith [hm.2]⟩, z, ?_⟩
    rw [hz, zsmul_eq_mul]; ring

/-- The wrapped value is `0` iff the argument is a whole number of turns. -/
theorem arc_wrapAngleDelta_eq_zero_iff (δ : ℝ) :
    wrapAngleDelta δ = 0 ↔ ∃ k : ℤ, δ = 2 * Real.pi * k := by
  rw [wrapAngleDelta_eq_iff]
  have := Real.pi_pos
  constructor
  · rintro ⟨_, k, hk⟩; exact ⟨k, by linarith⟩
  · rintro ⟨k, hk⟩; exact ⟨⟨by linarith, by linarith⟩, k, by linarith⟩

/-- For a tolerance `ε ≤ π`: the wrapped value is below `ε` in absolute value iff the argument is
within `ε` of a whole number of turns (angular distance below `ε`). -/
theorem arc_abs_wrapAngleDelta_lt_iff (δ ε : ℝ) (hε : ε ≤ Real.pi) :
    |wrapAngleDelta δ| < ε ↔ ∃ k : ℤ, |δ - 2 * Real.pi * k| < ε := by
  constructor
  · intro h
    obtain ⟨k, hk⟩ := wrapAngleDelta_exists δ
    refine ⟨-k, ?_⟩
    rw [hk] at h
    push_cast
    have e : δ - 2 * Real.pi * -(k : ℝ) = δ + 2 * Real.pi * k := by ring
    rw [e]; exact h
  · rintro ⟨k, hk⟩
    have hc : wrapAngleDelta δ = δ - 2 * Real.pi * k := by
      rw [wrapAngleDelta_eq_iff]
      rw [abs_lt] at hk
      exact ⟨⟨by linarith [hk.1], by linarith [hk.2]⟩, k, by ring⟩
    rw [hc]; exact hk

/-! ### 7. `ArcLength` -/

/-- The guard of `ArcLength` (`|start − centre|² < EPSILON`) is a guard at `0.01` on the radius. -/
theorem arc_sq_lt_EPS_iff (v : Nat → ℝ) (p q : Pt) :
    arcDist v p q ^ 2 < (EPS : ℝ) ↔ arcDist v p q < 0.01 := by
  have h := arcDist_nonneg v p q
  rw [EPS_real]
  constructor <;> intro h' <;> nlinarith

/-- x-coordinate of `start` rotated about `centre` by the angle `α` (counter-clockwise). -/
noncomputable def arcRotX (v : Nat → ℝ) (a : ArcD) (α : ℝ) : ℝ :=
  v a.center.x + (Real.cos α * (v a.start.x - v a.center.x) - Real.sin α * (v a.start.y - v a.center.y))

/-- y-coordinate of `start` rotated about `centre` by the angle `α` (counter-clockwise). -/
noncomputable def arcRotY (v : Nat → ℝ) (a : ArcD) (α : ℝ) : ℝ :=
  v a.center.y + (Real.sin α * (v a.start.x - v a.center.x) + Real.cos α * (v a.start.y - v a.center.y))

/-- `ArcLength(a, d)`, guard inactive (`r² ≥ EPSILON`, `r = |start − centre|`): with `u = start − c`,
`w = end − c`, the two rows are `u·w / r² − cos (d / r)` and `u×w / r² − sin (d / r)`; `k = 1`.
The second row is NOT the `Arc` condition: the two rows together compare `w / r` (in the frame of
`u`) with the unit vector at angle `d / r`, which encodes both "end at the same radius" and "swept
angle `= d / r`" (counter-clockwise for `d > 0`). -/
theorem measures_arcLength (v : Nat → ℝ) (a : ArcD) (d : ℝ)
    (hg : ¬ arcDist v a.center a.start ^ 2 < (EPS : ℝ)) :
    ((Constraint.arcLength a d).residualV v).r0 =
      arcDot v a.center a.start a.stop / arcDist v a.center a.start ^ 2
        - Real.cos (d / arcDist v a.center a.start) ∧
    ((Constraint.arcLength a d).residualV v).r1 =
      arcCross v a.center a.start a.stop / arcDist v a.center a.start ^ 2
        - Real.sin (d / arcDist v a.center a.start) ∧
    ((Constraint.arcLength a d).residualV v).degenerate = false := by
  have hn : (v a.start.x - v a.center.x) * (v a.start.x - v a.center.x)
      + (v a.start.y - v a.center.y) * (v a.start.y - v a.center.y)
      = arcDist v a.center a.start ^ 2 := by rw [arcDist_sq]; ring
  simp only [Constraint.residualV, sqr, recip, cos_real, sin_real, sqrt_real, hn]
  rw [if_neg hg, Real.sqrt_sq (arcDist_nonneg _ _ _), lit_1]
  refine ⟨?_, ?_, rfl⟩
  · show _ * (1 / _) - Real.cos (d * (1 / _)) = _
    rw [mul_one_div, mul_one_div]; rfl
  · show _ * (1 / _) - Real.sin (d * (1 / _)) = _
    rw [mul_one_div, mul_one_div]; rfl

/-- The same in the polar form of `geom.rs`: `ρ cos θ − cos α` and `ρ sin θ − sin α` with
`ρ = |end − c| / |start − c|`, `θ` the swept angle and `α = d / r` (needs `end ≠ centre`). -/
theorem measures_arcLength_polar (v : Nat → ℝ) (a : ArcD) (d : ℝ)
    (hg : ¬ arcDist v a.center a.start ^ 2 < (EPS : ℝ)) (he : arcDist v a.center a.stop ≠ 0) :
    ((Constraint.arcLength a d).residualV v).r0 =
      arcDist v a.center a.stop / arcDist v a.center a.start * Real.cos (arcSweep v a)
        - Real.cos (d / arcDist v a.center a.start) ∧
    ((Constraint.arcLength a d).residualV v).r1 =
      arcDist v a.center a.stop / arcDist v a.center a.start * Real.sin (arcSweep v a)
        - Real.sin (d / arcDist v a.center a.start) := by
  have hs : arcDist v a.center a.start ≠ 0 := by
    intro h; apply hg; rw [h]; simpa using EPS_pos
  obtain ⟨h0, h1, _⟩ := measures_arcLength v a d hg
  obtain ⟨hc, hsn⟩ := arcSweep_cos_sin v a hs he
  rw [h0, h1, hc, hsn]
  constructor <;> · congr 1; field_simp

/-- Exact form: both rows are `0` iff `end` is `start` rotated about the centre by `d / r` radians
counter-clockwise (`r = |start − centre|`).  In particular `|end − c| = r` and the arc from start
to end has length `r · (d / r) = d` (up to whole turns of `d / r`). -/
theorem zero_iff_arcLength (v : Nat → ℝ) (a : ArcD) (d : ℝ)
    (hg : ¬ arcDist v a.center a.start ^ 2 < (EPS : ℝ)) :
    (((Constraint.arcLength a d).residualV v).r0 = 0 ∧
     ((Constraint.arcLength a d).residualV v).r1 = 0) ↔
    (v a.stop.x = arcRotX v a (d / arcDist v a.center a.start) ∧
     v a.stop.y = arcRotY v a (d / arcDist v a.center a.start)) := by
  obtain ⟨h0, h1, _⟩ := measures_arcLength v a d hg
  rw [h0, h1]
  have hpos : 0 < arcDist v a.center a.start ^ 2 := lt_of_lt_of_le EPS_pos (not_lt.mp hg)
  have hn := arcDist_sq v a.center a.start
  unfold arcRotX arcRotY
  generalize Real.cos (d / arcDist v a.center a.start) = C
  generalize Real.sin (d / arcDist v a.center a.start) = S
  rw [hn] at hpos ⊢
  have hne := hpos.ne'
  unfold arcDot arcCross
  constructor
  · rintro ⟨e0, e1⟩
    rw [sub_eq_zero, div_eq_iff hne] at e0 e1
    constructor
    · apply mul_left_cancel₀ hne
      linear_combination (v a.start.x - v a.center.x) * e0 - (v a.start.y - v a.center.y) * e1
    · apply mul_left_cancel₀ hne
      linear_combination (v a.start.y - v a.center.y) * e0 + (v a.start.x - v a.center.x) * e1
  · rintro ⟨ex, ey⟩
    rw [ex, ey]
    constructor
    · rw [sub_eq_zero, div_eq_iff hne]; ring
    · rw [sub_eq_zero, div_eq_iff hne]; ring

/-- Size of the error: `row0² + row1²` is the squared distance between `end` and the rotated start
point, divided by `r²`. -/
theorem arcLength_error_sq (v : Nat → ℝ) (a : ArcD) (d : ℝ)
    (hg : ¬ arcDist v a.center a.start ^ 2 < (EPS : ℝ)) :
    ((Constraint.arcLength a d).residualV v).r0 ^ 2 + ((Constraint.arcLength a d).residualV v).r1 ^ 2 =
      ((v a.stop.x - arcRotX v a (d / arcDist v a.center a.start)) ^ 2 +
       (v a.stop.y - arcRotY v a (d / arcDist v a.center a.start)) ^ 2) /
        arcDist v a.center a.start ^ 2 := by
  obtain ⟨h0, h1, _⟩ := measures_arcLength v a d hg
  rw [h0, h1]
  have hpos : 0 < arcDist v a.center a.start ^ 2 := lt_of_lt_of_le EPS_pos (not_lt.mp hg)
  have hn := arcDist_sq v a.center a.start
  unfold arcRotX arcRotY
  generalize Real.cos (d / arcDist v a.center a.start) = C
  generalize Real.sin (d / arcDist v a.center a.start) = S
  rw [hn] at hpos ⊢
  have hne := hpos.ne'
  unfold arcDot arcCross
  field_simp
  ring

/-- Verdict of `ArcLength` (guard inactive): satisfied iff both `u·w / r² − cos (d / r)` and
`u×w / r² − sin (d / r)` are below `EPSILON` in absolute value. -/
theorem satisfied_arcLength (v : Nat → ℝ) (a : ArcD) (d : ℝ)
    (hg : ¬ arcDist v a.center a.start ^ 2 < (EPS : ℝ)) :
    isSatisfied (Constraint.arcLength a d).residualDim
      ((Constraint.arcLength a d).residualV v) = some true ↔
    (|arcDot v a.center a.start a.stop / arcDist v a.center a.start ^ 2
        - Real.cos (d / arcDist v a.center a.start)| < (EPS : ℝ) ∧
     |arcCross v a.center a.start a.stop / arcDist v a.center a.start ^ 2
        - Real.sin (d / arcDist v a.center a.start)| < (EPS : ℝ)) := by
  obtain ⟨h0, h1, _⟩ := measures_arcLength v a d hg
  rw [Constraint.residualDim, arc_isSat2, h0, h1]

/-- Geometric consequence of a "satisfied" `ArcLength`: `end` is within `√2 · EPSILON · r` of the
point obtained by rotating `start` about the centre by `d / r` (squared form). -/
theorem satisfied_arcLength_near (v : Nat → ℝ) (a : ArcD) (d : ℝ)
    (hg : ¬ arcDist v a.center a.start ^ 2 < (EPS : ℝ))
    (h : isSatisfied (Constraint.arcLength a d).residualDim
      ((Constraint.arcLength a d).residualV v) = some true) :
    (v a.stop.x - arcRotX v a (d / arcDist v a.center a.start)) ^ 2 +
      (v a.stop.y - arcRotY v a (d / arcDist v a.center a.start)) ^ 2
      < 2 * (EPS : ℝ) ^ 2 * arcDist v a.center a.start ^ 2 := by
  rw [Constraint.residualDim, arc_isSat2] at h
  have hpos : 0 < arcDist v a.center a.start ^ 2 := lt_of_lt_of_le EPS_pos (not_lt.mp hg)
  have hE := arcLength_error_sq v a d hg
  rw [eq_div_iff hpos.ne'] at hE
  rw [← hE]
  have s0 := sq_lt_sq' (abs_lt.mp h.1).1 (abs_lt.mp h.1).2
  have s1 := sq_lt_sq' (abs_lt.mp h.2).1 (abs_lt.mp h.2).2
  nlinarith

/-- Conversely, an `end` point within `EPSILON · r` of the rotated start point is reported
satisfied. -/
theorem satisfied_arcLength_of_near (v : Nat → ℝ) (a : ArcD) (d : ℝ)
    (hg : ¬ arcDist v a.center a.start ^ 2 < (EPS : ℝ))
    (h : (v a.stop.x - arcRotX v a (d / arcDist v a.center a.start)) ^ 2 +
      (v a.stop.y - arcRotY v a (d / arcDist v a.center a.start)) ^ 2
      < (EPS : ℝ) ^ 2 * arcDist v a.center a.start ^ 2) :
    isSatisfied (Constraint.arcLength a d).residualDim
      ((Constraint.arcLength a d).residualV v) = some true := by
  rw [Constraint.residualDim, arc_isSat2]
  have hpos : 0 < arcDist v a.center a.start ^ 2 := lt_of_lt_of_le EPS_pos (not_lt.mp hg)
  have hE := arcLength_error_sq v a d hg
  rw [eq_div_iff hpos.ne'] at hE
  rw [← hE] at h
  have hlt : ((Constraint.arcLength a d).residualV v).r0 ^ 2
      + ((Constraint.arcLength a d).residualV v).r1 ^ 2 < (EPS : ℝ) ^ 2 :=
    lt_of_mul_lt_mul_right h hpos.le
  constructor
  · exact abs_lt_of_sq_lt_sq (by nlinarith [sq_nonneg ((Constraint.arcLength a d).residualV v).r1])
      EPS_pos.le
  · exact abs_lt_of_sq_lt_sq (by nlinarith [sq_nonneg ((Constraint.arcLength a d).residualV v).r0])
      EPS_pos.le

/-- Exact form in terms of radius and swept angle: both rows are `0` iff `end` is at the same
distance from the centre as `start` AND the swept angle equals `d / r` wrapped into `(-π, π]`. -/
theorem zero_iff_arcLength_sweep (v : Nat → ℝ) (a : ArcD) (d : ℝ)
    (hg : ¬ arcDist v a.center a.start ^ 2 < (EPS : ℝ)) :
    (((Constraint.arcLength a d).residualV v).r0 = 0 ∧
     ((Constraint.arcLength a d).residualV v).r1 = 0) ↔
    (arcDist v a.center a.stop = arcDist v a.center a.start ∧
     arcSweep v a = wrapAngleDelta (d / arcDist v a.center a.start)) := by
  have hpos : 0 < arcDist v a.center a.start ^ 2 := lt_of_lt_of_le EPS_pos (not_lt.mp hg)
  have hs : arcDist v a.center a.start ≠ 0 := by
    intro h; rw [h] at hpos; simp at hpos
  constructor
  · intro hz
    obtain ⟨h0, h1, _⟩ := measures_arcLength v a d hg
    rw [h0, h1] at hz
    obtain ⟨e0, e1⟩ := hz
    rw [sub_eq_zero, div_eq_iff hpos.ne'] at e0 e1
    have hl := arc_lagrange v a.center a.start a.stop
    have hcs := Real.cos_sq_add_sin_sq (d / arcDist v a.center a.start)
    have hde : arcDist v a.center a.stop ^ 2 = arcDist v a.center a.start ^ 2 := by
      apply mul_left_cancel₀ hpos.ne'
      rw [← hl, e0, e1]
      linear_combination (arcDist v a.center a.start ^ 2) ^ 2 * hcs
    refine ⟨(pow_left_inj₀ (arcDist_nonneg _ _ _) (arcDist_nonneg _ _ _) two_ne_zero).mp hde, ?_⟩
    unfold arcSweep realAtan2
    rw [e0, e1, arc_wrapAngleDelta_eq_toIocMod,
      ← Complex.arg_mul_cos_add_sin_mul_I_eq_toIocMod hpos]
    congr 1
    rw [← Complex.ofReal_cos, ← Complex.ofReal_sin]
    generalize Real.cos (d / arcDist v a.center a.start) = C
    generalize Real.sin (d / arcDist v a.center a.start) = S
    generalize arcDist v a.center a.start ^ 2 = n
    apply Complex.ext
    · simp only [Complex.mul_re, Complex.add_re, Complex.ofReal_re, Complex.ofReal_im,
        Complex.mul_im, Complex.I_re, Complex.I_im, Complex.add_im]; ring
    · simp only [Complex.mul_re, Complex.add_re, Complex.ofReal_re, Complex.ofReal_im,
        Complex.mul_im, Complex.I_re, Complex.I_im, Complex.add_im]; ring
  · rintro ⟨hde, hsw⟩
    have he : arcDist v a.center a.stop ≠ 0 := by rw [hde]; exact hs
    obtain ⟨h0, h1⟩ := measures_arcLength_polar v a d hg he
    obtain ⟨k, hk⟩ := wrapAngleDelta_exists (d / arcDist v a.center a.start)
    have e : d / arcDist v a.center a.start + 2 * Real.pi * k
        = d / arcDist v a.center a.start + k * (2 * Real.pi) := by ring
    rw [h0, h1, hde, div_self hs, hsw, hk, e, Real.cos_add_int_mul_two_pi,
      Real.sin_add_int_mul_two_pi]
    constructor <;> ring

/-- "Radius × swept angle = d": when both rows are `0` and `d / r ∈ (-π, π]`, the swept angle
times the radius is exactly the requested length `d` (negative `d`: clockwise). -/
theorem zero_arcLength_radius_times_sweep (v : Nat → ℝ) (a : ArcD) (d : ℝ)
    (hg : ¬ arcDist v a.center a.start ^ 2 < (EPS : ℝ))
    (hz : ((Constraint.arcLength a d).residualV v).r0 = 0 ∧
      ((Constraint.arcLength a d).residualV v).r1 = 0)
    (hr : -Real.pi < d / arcDist v a.center a.start ∧ d / arcDist v a.center a.start ≤ Real.pi) :
    arcDist v a.center a.start * arcSweep v a = d := by
  have hpos : 0 < arcDist v a.center a.start ^ 2 := lt_of_lt_of_le EPS_pos (not_lt.mp hg)
  have hs : arcDist v a.center a.start ≠ 0 := by
    intro h; rw [h] at hpos; simp at hpos
  rw [((zero_iff_arcLength_sweep v a d hg).mp hz).2, wrapAngleDelta_id _ hr]
  field_simp

/-- `ArcLength`, guard ACTIVE (`|start − centre|² < EPSILON`, radius below `0.01`): the measure is
`0` with the degeneracy flag raised, so the verdict is "satisfied" whatever `d` is. -/
theorem guarded_arcLength (v : Nat → ℝ) (a : ArcD) (d : ℝ)
    (hg : arcDist v a.center a.start ^ 2 < (EPS : ℝ)) :
    (Constraint.arcLength a d).residualV v = Res.degen ∧
    isSatisfied (Constraint.arcLength a d).residualDim
      ((Constraint.arcLength a d).residualV v) = some true := by
  have hn : (v a.start.x - v a.center.x) * (v a.start.x - v a.center.x)
      + (v a.start.y - v a.center.y) * (v a.start.y - v a.center.y)
      = arcDist v a.center a.start ^ 2 := by rw [arcDist_sq]; ring
  have h : (Constraint.arcLength a d).residualV v = Res.degen := by
    simp only [Constraint.residualV, hn]
    rw [if_pos hg]
  refine ⟨h, ?_⟩
  rw [h, Constraint.residualDim, arc_isSat2]
  show |(0.0 : ℝ)| < EPS ∧ |(0.0 : ℝ)| < EPS
  rw [lit_0, abs_zero]; exact ⟨EPS_pos, EPS_pos⟩

/-! ### 8. `ArcAngle` -/

/-- `Angle::to_radians` over the reals. -/
theorem arc_toRadians (θ : Angle ℝ) :
    θ.toRadians = if θ.degrees then θ.val * (Real.pi / 180) else θ.val := by
  unfold Angle.toRadians; rw [pi_real, lit_180]

/-- `ArcAngle(a, θ)`, guards inactive (neither radius below `EPSILON`): the single row is the
swept angle from `start − centre` to `end − centre` (signed, counter-clockwise positive, in
`(-π, π]`) minus the requested angle in radians, wrapped into `(-π, π]`; `k = 1`. -/
theorem measures_arcAngle (v : Nat → ℝ) (a : ArcD) (θ : Angle ℝ)
    (hs : ¬ arcDist v a.center a.start < (EPS : ℝ)) (he : ¬ arcDist v a.center a.stop < (EPS : ℝ)) :
    ((Constraint.arcAngle a θ).residualV v).r0 = wrapAngleDelta (arcSweep v a - θ.toRadians) ∧
    ((Constraint.arcAngle a θ).residualV v).degenerate = false := by
  simp only [Constraint.residualV, linesAtAngleResidual, hypot_real, arc_hypot]
  rw [if_neg (not_or.mpr ⟨hs, he⟩)]
  exact ⟨rfl, rfl⟩

/-- Verdict of `ArcAngle` (guards inactive): satisfied iff the swept angle is within `EPSILON` of
the requested angle modulo whole turns (angular distance below `EPSILON`). -/
theorem satisfied_arcAngle (v : Nat → ℝ) (a : ArcD) (θ : Angle ℝ)
    (hs : ¬ arcDist v a.center a.start < (EPS : ℝ)) (he : ¬ arcDist v a.center a.stop < (EPS : ℝ)) :
    isSatisfied (Constraint.arcAngle a θ).residualDim ((Constraint.arcAngle a θ).residualV v)
      = some true ↔
    ∃ k : ℤ, |arcSweep v a - θ.toRadians - 2 * Real.pi * k| < (EPS : ℝ) := by
  rw [Constraint.residualDim, arc_isSat1, (measures_arcAngle v a θ hs he).1,
    arc_abs_wrapAngleDelta_lt_iff]
  rw [EPS_real]
  have := Real.two_le_pi
  norm_num; linarith

/-- Exact form: the row is `0` iff the swept angle equals the requested angle modulo `2π`. -/
theorem zero_iff_arcAngle (v : Nat → ℝ) (a : ArcD) (θ : Angle ℝ)
    (hs : ¬ arcDist v a.center a.start < (EPS : ℝ)) (he : ¬ arcDist v a.center a.stop < (EPS : ℝ)) :
    ((Constraint.arcAngle a θ).residualV v).r0 = 0 ↔
    ∃ k : ℤ, arcSweep v a - θ.toRadians = 2 * Real.pi * k := by
  rw [(measures_arcAngle v a θ hs he).1, arc_wrapAngleDelta_eq_zero_iff]

/-- Exact form for a requested angle in `(-π, π]`: the row is `0` iff the swept angle IS the
requested angle. -/
theorem zero_iff_arcAngle_principal (v : Nat → ℝ) (a : ArcD) (θ : Angle ℝ)
    (hs : ¬ arcDist v a.center a.start < (EPS : ℝ)) (he : ¬ arcDist v a.center a.stop < (EPS : ℝ))
    (hθ : -Real.pi < θ.toRadians ∧ θ.toRadians ≤ Real.pi) :
    ((Constraint.arcAngle a θ).residualV v).r0 = 0 ↔ arcSweep v a = θ.toRadians := by
  rw [zero_iff_arcAngle v a θ hs he]
  have hm := arcSweep_mem v a
  have hpi := Real.pi_pos
  constructor
  · rintro ⟨k, hk⟩
    have h1 : (k : ℝ) < 1 := by
      by_contra hcon
      have : 2 * Real.pi * 1 ≤ 2 * Real.pi * (k : ℝ) :=
        mul_le_mul_of_nonneg_left (not_lt.mp hcon) (by linarith)
      linarith [hm.2, hθ.1]
    have h2 : (-1 : ℝ) < k := by
      by_contra hcon
      have : 2 * Real.pi * (k : ℝ) ≤ 2 * Real.pi * (-1) :=
        mul_le_mul_of_nonneg_left (not_lt.mp hcon) (by linarith)
      linarith [hm.1, hθ.2]
    have hk0 : k = 0 := by
      have h1' : k < 1 := by exact_mod_cast h1
      have h2' : -1 < k := by exact_mod_cast h2
      omega
    rw [hk0] at hk; simp at hk; linarith
  · intro h; exact ⟨0, by rw [h]; simp⟩

/-- `ArcAngle`, a guard ACTIVE (start or end closer than `EPSILON` to the centre): the measure is
`0` with the degeneracy flag raised, so the verdict is "satisfied" whatever the angle is. -/
theorem guarded_arcAngle (v : Nat → ℝ) (a : ArcD) (θ : Angle ℝ)
    (hg : arcDist v a.center a.start < (EPS : ℝ) ∨ arcDist v a.center a.stop < (EPS : ℝ)) :
    (Constraint.arcAngle a θ).residualV v = Res.degen ∧
    isSatisfied (Constraint.arcAngle a θ).residualDim
      ((Constraint.arcAngle a θ).residualV v) = some true := by
  have h : (Constraint.arcAngle a θ).residualV v = Res.degen := by
    simp only [Constraint.residualV, linesAtAngleResidual, hypot_real, arc_hypot]
    rw [if_pos hg]
  refine ⟨h, ?_⟩
  rw [h, Constraint.residualDim, arc_isSat1]
  show |(0.0 : ℝ)| < EPS
  rw [lit_0, abs_zero]; exact EPS_pos

/-! ### 9. Non-vacuity: concrete configurations -/

/-- Line `(0,0) → (1,0)` (ids 0..3), circle centre `(0,1)` (ids 4,5), radius `1` (id 6), and a
second centre `(0,-1)` (ids 8,9). -/
def arcExLine : Nat → ℝ := fun i => if i = 2 ∨ i = 5 ∨ i = 6 then 1 else if i = 9 then -1 else 0

theorem arcExLine_len : arcDist arcExLine ⟨0, 1⟩ ⟨2, 3⟩ = 1 := by
  simp [arcDist, arcExLine]

theorem arcExLine_guard : ¬ arcDist arcExLine (Seg.mk ⟨0, 1⟩ ⟨2, 3⟩).p0 (Seg.mk ⟨0, 1⟩ ⟨2, 3⟩).p1 < (EPS : ℝ) := by
  show ¬ arcDist arcExLine ⟨0, 1⟩ ⟨2, 3⟩ < (EPS : ℝ)
  rw [arcExLine_len, EPS_real]; norm_num

/-- The unit circle about `(0,1)` touches the x-axis travelled in the `+x` direction on its LEFT:
measure `0`, satisfied. -/
example :
    ((Constraint.lineTangentToCircle ⟨⟨0, 1⟩, ⟨2, 3⟩⟩ ⟨⟨4, 5⟩, 6⟩).residualV arcExLine).r0 = 0 ∧
    isSatisfied (Constraint.lineTangentToCircle ⟨⟨0, 1⟩, ⟨2, 3⟩⟩ ⟨⟨4, 5⟩, 6⟩ : Constraint ℝ).residualDim
      ((Constraint.lineTangentToCircle ⟨⟨0, 1⟩, ⟨2, 3⟩⟩ ⟨⟨4, 5⟩, 6⟩).residualV arcExLine) = some true := by
  have hd : arcLineDist arcExLine ⟨⟨0, 1⟩, ⟨2, 3⟩⟩ ⟨4, 5⟩ = 1 := by
    unfold arcLineDist; rw [arcExLine_len]; simp [arcCross, arcExLine]
  have hr : arcExLine 6 = 1 := by simp [arcExLine]
  constructor
  · rw [zero_iff_lineTangentToCircle _ _ _ arcExLine_guard]; rw [hd, hr]
  · rw [satisfied_lineTangentToCircle _ _ _ arcExLine_guard]
    show |arcLineDist arcExLine ⟨⟨0, 1⟩, ⟨2, 3⟩⟩ ⟨4, 5⟩ - arcExLine 6| < _
    rw [hd, hr, sub_self, abs_zero]; exact EPS_pos

/-- The mirror image — the unit circle about `(0,-1)`, which touches the same line on its RIGHT —
has measure `-2` and is NOT satisfied: the kind is directional. -/
example :
    ((Constraint.lineTangentToCircle ⟨⟨0, 1⟩, ⟨2, 3⟩⟩ ⟨⟨8, 9⟩, 6⟩).residualV arcExLine).r0 = -2 ∧
    isSatisfied (Constraint.lineTangentToCircle ⟨⟨0, 1⟩, ⟨2, 3⟩⟩ ⟨⟨8, 9⟩, 6⟩ : Constraint ℝ).residualDim
      ((Constraint.lineTangentToCircle ⟨⟨0, 1⟩, ⟨2, 3⟩⟩ ⟨⟨8, 9⟩, 6⟩).residualV arcExLine) ≠ some true := by
  have hd : arcLineDist arcExLine ⟨⟨0, 1⟩, ⟨2, 3⟩⟩ ⟨8, 9⟩ = -1 := by
    unfold arcLineDist; rw [arcExLine_len]; simp [arcCross, arcExLine]
  have hr : arcExLine 6 = 1 := by simp [arcExLine]
  have h0 : ((Constraint.lineTangentToCircle ⟨⟨0, 1⟩, ⟨2, 3⟩⟩ ⟨⟨8, 9⟩, 6⟩).residualV arcExLine).r0 = -2 := by
    rw [(measures_lineTangentToCircle _ _ _ arcExLine_guard).1]
    show arcLineDist arcExLine ⟨⟨0, 1⟩, ⟨2, 3⟩⟩ ⟨8, 9⟩ - arcExLine 6 = -2
    rw [hd, hr]; norm_num
  refine ⟨h0, ?_⟩
  rw [Ne, Constraint.residualDim, arc_isSat1, h0, EPS_real]; norm_num

/-- Circle A: centre `(0,0)` (ids 0,1), radius `1` (id 2); circle B: centre `(3,0)` (ids 3,4),
radius `2` (id 5); circle C: centre `(1,0)` (ids 6,7), radius `2` (id 5). -/
def arcExCirc : Nat → ℝ :=
  fun i => if i = 2 ∨ i = 6 then 1 else if i = 3 then 3 else if i = 5 then 2 else 0

/-- External tangency (`d = 3 = 1 + 2`) and internal tangency (`d = 1 = |1 − 2|`) both have measure
`0`. -/
example :
    ((Constraint.circleTangentToCircle ⟨⟨0, 1⟩, 2⟩ ⟨⟨3, 4⟩, 5⟩).residualV arcExCirc).r0 = 0 ∧
    ((Constraint.circleTangentToCircle ⟨⟨0, 1⟩, 2⟩ ⟨⟨6, 7⟩, 5⟩).residualV arcExCirc).r0 = 0 := by
  have d1 : arcDist arcExCirc ⟨0, 1⟩ ⟨3, 4⟩ = 3 := by
    unfold arcDist
    rw [Real.sqrt_eq_iff_mul_self_eq_of_pos (by norm_num)]
    simp [arcExCirc]; norm_num
  have d2 : arcDist arcExCirc ⟨0, 1⟩ ⟨6, 7⟩ = 1 := by
    simp [arcDist, arcExCirc]
  constructor
  · rw [zero_iff_circleTangentToCircle]; left
    show arcDist arcExCirc ⟨0, 1⟩ ⟨3, 4⟩ = arcExCirc 2 + arcExCirc 5
    rw [d1]; simp [arcExCirc]; norm_num
  · rw [zero_iff_circleTangentToCircle]; right
    show arcDist arcExCirc ⟨0, 1⟩ ⟨6, 7⟩ = |arcExCirc 2 - arcExCirc 5|
    rw [d2]; simp [arcExCirc]; norm_num

theorem arcWitness_start : arcDist arcWitness arcWitnessArc.center arcWitnessArc.start = 1 := by
  simp [arcDist, arcWitness, arcWitnessArc]

theorem arcWitness_stop : arcDist arcWitness arcWitnessArc.center arcWitnessArc.stop = 1 := by
  simp [arcDist, arcWitness, arcWitnessArc]

/-- The quarter arc of the unit circle (`arcWitnessArc` at `arcWitness`): `ArcRadius 1` and `Arc`
have all rows `0`. -/
example :
    (((Constraint.arcRadius arcWitnessArc 1).residualV arcWitness).r0 = 0 ∧
     ((Constraint.arcRadius arcWitnessArc 1).residualV arcWitness).r1 = 0) ∧
    ((Constraint.isArc arcWitnessArc : Constraint ℝ).residualV arcWitness).r0 = 0 := by
  constructor
  · rw [zero_iff_arcRadius]; exact ⟨arcWitness_start, arcWitness_stop⟩
  · rw [zero_iff_isArc, arcDist_comm, arcWitness_start, arcDist_comm, arcWitness_stop]

/-- The same quarter arc has length `π / 2`: `ArcLength (π/2)` has both rows `0`, and its guard is
inactive. -/
example :
    ¬ arcDist arcWitness arcWitnessArc.center arcWitnessArc.start ^ 2 < (EPS : ℝ) ∧
    ((Constraint.arcLength arcWitnessArc (Real.pi / 2)).residualV arcWitness).r0 = 0 ∧
    ((Constraint.arcLength arcWitnessArc (Real.pi / 2)).residualV arcWitness).r1 = 0 := by
  have hg : ¬ arcDist arcWitness arcWitnessArc.center arcWitnessArc.start ^ 2 < (EPS : ℝ) := by
    rw [arcWitness_start, EPS_real]; norm_num
  refine ⟨hg, ?_⟩
  rw [zero_iff_arcLength _ _ _ hg, arcWitness_start]
  simp [arcRotX, arcRotY, arcWitness, arcWitnessArc]

/-- The same quarter arc sweeps 90°: `ArcAngle 90°` has measure `0`, and so has `ArcAngle 450°`
(the wrap identifies angles modulo a full turn). -/
example :
    ((Constraint.arcAngle arcWitnessArc ⟨90, true⟩).residualV arcWitness).r0 = 0 ∧
    ((Constraint.arcAngle arcWitnessArc ⟨450, true⟩).residualV arcWitness).r0 = 0 := by
  have hs : ¬ arcDist arcWitness arcWitnessArc.center arcWitnessArc.start < (EPS : ℝ) := by
    rw [arcWitness_start, EPS_real]; norm_num
  have he : ¬ arcDist arcWitness arcWitnessArc.center arcWitnessArc.stop < (EPS : ℝ) := by
    rw [arcWitness_stop, EPS_real]; norm_num
  have hsw : arcSweep arcWitness arcWitnessArc = Real.pi / 2 := pointArc_witness_angle.2
  constructor
  · rw [zero_iff_arcAngle _ _ _ hs he, hsw, arc_toRadians]
    exact ⟨0, by simp; ring⟩
  · rw [zero_iff_arcAngle _ _ _ hs he, hsw, arc_toRadians]
    exact ⟨-1, by simp; ring⟩

end Ezpz
