/-
C04 — the spectral-gap hypothesis of `linear_consistent_converges` is satisfiable with a POSITIVE
constant for every real matrix, so the exact damped Gauss–Newton iteration converges geometrically on
every consistent linear system, to the solution nearest the guess.
-/
import Ezpz.Real.LinearConvergence
import Mathlib.Analysis.Normed.Module.FiniteDimension
import Mathlib.LinearAlgebra.Matrix.Rank
namespace Ezpz.GN
open Matrix

section Gap
variable {m n : Type} [Fintype m] [Fintype n]

/-- `A` is injective on `range Aᵀ`: if `A (Aᵀ w) = 0` then `Aᵀ w = 0`. -/
theorem mulVec_transpose_mulVec_eq_zero (A : Matrix m n ℝ) (w : m → ℝ)
    (h : A *ᵥ (Aᵀ *ᵥ w) = 0) : Aᵀ *ᵥ w = 0 := by
  have h0 : (Aᵀ *ᵥ w) ⬝ᵥ (Aᵀ *ᵥ w) = 0 := by
    have e : (Aᵀ *ᵥ w) ⬝ᵥ (Aᵀ *ᵥ w) = (A *ᵥ (Aᵀ *ᵥ w)) ⬝ᵥ w := by
      rw [dotProduct_mulVec, vecMul_transpose]
    rw [e, h, zero_dotProduct]
  exact dotProduct_self_eq_zero.mp h0

/-- **Every real matrix has a positive spectral gap on `range Aᵀ`**: there is `c > 0` with
`c‖z‖² ≤ ‖A z‖²` for every `z = Aᵀ w` (the smallest non-zero singular value squared is positive). -/
theorem gap_exists (A : Matrix m n ℝ) :
    ∃ c : ℝ, 0 < c ∧ ∀ w : m → ℝ, c * ((Aᵀ *ᵥ w) ⬝ᵥ (Aᵀ *ᵥ w)) ≤
      (A *ᵥ (Aᵀ *ᵥ w)) ⬝ᵥ (A *ᵥ (Aᵀ *ᵥ w)) := by
  classical
  let g : EuclideanSpace ℝ n →ₗ[ℝ] EuclideanSpace ℝ m := (euclCLM A : _ →ₗ[ℝ] _)
  let R : Submodule ℝ (EuclideanSpace ℝ n) :=
    LinearMap.range (euclCLM Aᵀ : EuclideanSpace ℝ m →ₗ[ℝ] EuclideanSpace ℝ n)
  let f : R →ₗ[ℝ] EuclideanSpace ℝ m := g.domRestrict R
  have hker : LinearMap.ker f = ⊥ := by
    rw [LinearMap.ker_eq_bot']
    rintro ⟨z, w, rfl⟩ hz
    have hz' : A *ᵥ (Aᵀ *ᵥ w.ofLp) = 0 := by
      have := congrArg WithLp.ofLp hz
      simpa [f, g, euclCLM_apply] using this
    have h0 := mulVec_transpose_mulVec_eq_zero A w.ofLp hz'
    apply Subtype.ext
    apply (WithLp.ofLp_injective 2)
    simpa [euclCLM_apply] using h0
  obtain ⟨K, hK, hanti⟩ := f.exists_antilipschitzWith hker
  have hK' : (0 : ℝ) < K := by exact_mod_cast hK
  refine ⟨1 / (K : ℝ) ^ 2, by positivity, fun w => ?_⟩
  let z : R := ⟨euclCLM Aᵀ (WithLp.toLp 2 w), ⟨_, rfl⟩⟩
  have h1 : ‖z‖ ≤ K * ‖f z‖ := by
    have := hanti.le_mul_dist z 0
    simpa [dist_eq_norm] using this
  have h2 : ‖z‖ ^ 2 ≤ (K : ℝ) ^ 2 * ‖f z‖ ^ 2 := by
    rw [← mul_pow]
    exact pow_le_pow_left₀ (norm_nonneg _) h1 2
  have e1 : ‖z‖ ^ 2 = (Aᵀ *ᵥ w) ⬝ᵥ (Aᵀ *ᵥ w) := by
    rw [Submodule.coe_norm, eucl_norm_sq]; rfl
  have e2 : ‖f z‖ ^ 2 = (A *ᵥ (Aᵀ *ᵥ w)) ⬝ᵥ (A *ᵥ (Aᵀ *ᵥ w)) := by
    rw [eucl_norm_sq]; rfl
  rw [e1, e2] at h2
  rw [one_div, inv_mul_le_iff₀ (by positivity)]
  exact h2

end Gap

section Converges
variable {m n : Type} [Fintype m] [Fintype n] [DecidableEq n]

/-- C04 — **every consistent linear system is solved, geometrically fast** (no spectral-gap
hypothesis).  For every matrix `A` and damping `lam > 0` there is a rate `q ∈ [0, 1)` — namely
`lam/(c+lam)` with `c > 0` the gap of `gap_exists`; it depends on `A` and `lam` only, not on `b` —
such that for every right-hand side `b`, every solution `x̂` with `x0 - x̂ ∈ range Aᵀ` (the solution
nearest the guess) and every sequence `xs` of exact damped rounds started at `x0 = xs 0`, the
squared distance to `x̂` after `k` rounds is at most `q^(2k)` times the initial one. -/
theorem linear_consistent_converges_uniform (A : Matrix m n ℝ) (lam : ℝ) (hlam : 0 < lam) :
    ∃ q : ℝ, 0 ≤ q ∧ q < 1 ∧ ∀ (b : m → ℝ) (xh : n → ℝ), A *ᵥ xh = b →
      ∀ (xs : ℕ → n → ℝ) (w0 : m → ℝ), xs 0 - xh = Aᵀ *ᵥ w0 →
      (∀ k, ∃ d, IsStep A (A *ᵥ xs k - b) lam d ∧ xs (k + 1) = xs k + d) →
      ∀ k : ℕ, (xs k - xh) ⬝ᵥ (xs k - xh) ≤ q ^ (2 * k) * ((xs 0 - xh) ⬝ᵥ (xs 0 - xh)) := by
  obtain ⟨c, hc, hgap⟩ := gap_exists A
  have hcl : 0 < c + lam := by linarith
  refine ⟨lam / (c + lam), by positivity, by rw [div_lt_one hcl]; linarith, ?_⟩
  intro b xh hxh xs w0 h0 hstep k
  have h := (linear_consistent_converges A b lam c hlam hc.le hgap xh hxh xs w0 h0 hstep k).2
  have hp : 0 < (c + lam) ^ (2 * k) := by positivity
  rw [div_pow, div_mul_eq_mul_div, le_div_iff₀ hp, mul_comm]
  exact h

/-- C04 — `linear_consistent_converges` **without the gap hypothesis**: for every `A`, `b`,
`lam > 0` there is `q ∈ [0, 1)` such that the exact damped iteration on `A x = b`, started at a guess
whose displacement from the solution `x̂` lies in `range Aᵀ`, satisfies
`‖xs k - x̂‖² ≤ q^(2k) ‖xs 0 - x̂‖²` for all `k`. -/
theorem linear_consistent_converges_unconditional (A : Matrix m n ℝ) (b : m → ℝ) (lam : ℝ)
    (hlam : 0 < lam) :
    ∃ q : ℝ, 0 ≤ q ∧ q < 1 ∧ ∀ (xh : n → ℝ), A *ᵥ xh = b →
      ∀ (xs : ℕ → n → ℝ) (w0 : m → ℝ), xs 0 - xh = Aᵀ *ᵥ w0 →
      (∀ k, ∃ d, IsStep A (A *ᵥ xs k - b) lam d ∧ xs (k + 1) = xs k + d) →
      ∀ k : ℕ, (xs k - xh) ⬝ᵥ (xs k - xh) ≤ q ^ (2 * k) * ((xs 0 - xh) ⬝ᵥ (xs 0 - xh)) := by
  obtain ⟨q, hq0, hq1, h⟩ := linear_consistent_converges_uniform A lam hlam
  exact ⟨q, hq0, hq1, h b⟩

omit [DecidableEq n] in
/-- **The solution nearest the guess exists**: for a consistent system `A x = b` and any guess `x0`
there is a solution `x̂` whose displacement from the guess lies in `range Aᵀ` (equivalently, is
orthogonal to `ker A`). -/
theorem nearest_solution_exists (A : Matrix m n ℝ) (b : m → ℝ) (hcons : ∃ x, A *ᵥ x = b)
    (x0 : n → ℝ) : ∃ xh, A *ᵥ xh = b ∧ ∃ w0 : m → ℝ, x0 - xh = Aᵀ *ᵥ w0 := by
  classical
  obtain ⟨x, hx⟩ := hcons
  have hle : LinearMap.range (A * Aᵀ).mulVecLin ≤ LinearMap.range A.mulVecLin := by
    rintro _ ⟨w, rfl⟩
    exact ⟨Aᵀ *ᵥ w, by rw [mulVecLin_apply, mulVecLin_apply, mulVec_mulVec]⟩
  have heq := Submodule.eq_of_le_of_finrank_eq hle (by
    have := rank_self_mul_transpose A
    simpa [Matrix.rank] using this)
  have hmem : A *ᵥ (x0 - x) ∈ LinearMap.range (A * Aᵀ).mulVecLin := by
    rw [heq]; exact ⟨_, rfl⟩
  obtain ⟨w, hw⟩ := hmem
  rw [mulVecLin_apply, ← mulVec_mulVec] at hw
  refine ⟨x0 - Aᵀ *ᵥ w, ?_, w, by abel⟩
  rw [mulVec_sub, hw, mulVec_sub, hx]; abel

/-- C04 — **capstone**: for every matrix `A` and damping `lam > 0` there is a rate `q ∈ [0, 1)`
such that on every consistent system `A x = b`, every run `xs` of exact damped rounds from any guess
`xs 0` converges geometrically (squared error `≤ q^(2k)` times the initial one) to a solution `x̂`
of `A x = b` whose displacement from the guess lies in `range Aᵀ` — the solution nearest the guess
(`nearest_least_squares`). -/
theorem linear_consistent_converges_from_guess (A : Matrix m n ℝ) (lam : ℝ) (hlam : 0 < lam) :
    ∃ q : ℝ, 0 ≤ q ∧ q < 1 ∧ ∀ (b : m → ℝ), (∃ x, A *ᵥ x = b) → ∀ (xs : ℕ → n → ℝ),
      (∀ k, ∃ d, IsStep A (A *ᵥ xs k - b) lam d ∧ xs (k + 1) = xs k + d) →
      ∃ xh, A *ᵥ xh = b ∧ (∃ w0 : m → ℝ, xs 0 - xh = Aᵀ *ᵥ w0) ∧
        ∀ k : ℕ, (xs k - xh) ⬝ᵥ (xs k - xh) ≤ q ^ (2 * k) * ((xs 0 - xh) ⬝ᵥ (xs 0 - xh)) := by
  obtain ⟨q, hq0, hq1, h⟩ := linear_consistent_converges_uniform A lam hlam
  refine ⟨q, hq0, hq1, fun b hcons xs hstep => ?_⟩
  obtain ⟨xh, hxh, w0, hw0⟩ := nearest_solution_exists A b hcons (xs 0)
  exact ⟨xh, hxh, ⟨w0, hw0⟩, h b xh hxh xs w0 hw0 hstep⟩

end Converges

end Ezpz.GN
