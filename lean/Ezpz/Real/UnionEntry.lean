/-
C17 at the public entry point `solveWithPriority` for a single priority level, over ℝ: two request
lists over disjoint variable blocks in the contiguous layout of `Proofs/Union.lean` (group 1 over
ids `0 … n1-1`, group 2 over `0 … n2-1`, shifted by `n1` in the union; guess list `g1 ++ g2` with
group 2's labels shifted).

* `solveWithPriority_single_level` (every scalar type): when all requests have the same priority the
  prioritised solve is one call of `solveInner` on the enumerated list with the first LU oracle.
* `enumerate_union`: the enumerated union is `unionEntries` of the enumerated groups, group 2's ids
  moved up by the length of group 1.
* `solveInner_union_converged`, `solveWithPriority_union_converged`: if both groups, solved alone,
  return at the residual test in the same round, then — under the block-solver hypothesis — the
  union solved through the entry point succeeds with final values the concatenation of the groups'
  final values, the same iteration count, unsatisfied list group 1's followed by group 2's moved up
  by the length of group 1, and the common priority.
-/
import Ezpz.Real.EquivarianceEntry
import Ezpz.Proofs.Lint
set_option linter.unusedSectionVars false
set_option linter.unusedSimpArgs false
namespace Ezpz
open Transc

section Generic
variable {α : Type} [Add α] [Sub α] [Mul α] [Div α] [Neg α] [OfScientific α]
  [LT α] [DecidableLT α] [LE α] [DecidableLE α] [Transc α]

/-! ### A single priority level -/

/-- When all requests have priority `P`, `P` is the only level. -/
theorem levels_single (reqs : List (Constraint α × Nat)) (P : Nat) (hne : reqs ≠ [])
    (hall : ∀ r ∈ reqs, r.2 = P) : levels (enumerate reqs) = [P] := by
  apply sorted_ext _ _ (levels_sorted _) (by simp)
  intro q
  rw [mem_levels, enumerate_priorities]
  constructor
  · rintro ⟨r, hr, rfl⟩
    simp [hall r hr]
  · intro hq
    simp only [List.mem_singleton] at hq
    subst hq
    cases reqs with
    | nil => exact absurd rfl hne
    | cons r rest => exact ⟨r, by simp, hall r (by simp)⟩

/-- **A single priority level**: when all requests have the same priority, the prioritised solve is
one call of `solveInner` on the whole enumerated list, with the LU (and SVD) oracle of call 0. -/
theorem solveWithPriority_single_level (reqs : List (Constraint α × Nat)) (g : List (Nat × α))
    (cfg : Config α) (solve : LinSolve α) (svd : Option (Svd α)) (P : Nat) (hne : reqs ≠ [])
    (hall : ∀ r ∈ reqs, r.2 = P) :
    solveWithPriority reqs g cfg solve svd =
      solveInner (enumerate reqs) g cfg (solve 0) (svd.map (fun s => s 0)) := by
  have hne' : reqs.isEmpty = false := by cases reqs <;> simp_all
  have hP : ∃ r ∈ reqs, r.2 = P := by
    cases reqs with
    | nil => exact absurd rfl hne
    | cons r rest => exact ⟨r, by simp, hall r (by simp)⟩
  unfold solveWithPriority
  rw [hne', levels_single reqs P hne hall]
  simp only [Bool.false_eq_true, if_false, priorityLoop, filter_single_level reqs P P hall hP]
  cases solveInner (enumerate reqs) g cfg (solve 0) (svd.map (fun s => s 0)) with
  | error f => rfl
  | ok o =>
    dsimp only
    cases hu : o.unsatisfied.isEmpty <;> simp [hu]

/-! ### The enumerated union -/

/-- **The enumerated union**: enumerating group 1's requests followed by group 2's requests with
variables shifted by `n1` gives the union (in the layout of `unionEntries`) of the enumerated groups,
group 2's ids moved up by the length of group 1. -/
theorem enumerate_union (n1 : Nat) (reqs1 reqs2 : List (Constraint α × Nat)) :
    enumerate (reqs1 ++ reqs2.map (fun r => (r.1.rename (· + n1), r.2))) =
      unionEntries n1 (enumerate reqs1)
        ((enumerate reqs2).map (Entry.relabel (· + reqs1.length))) := by
  apply List.ext_getElem?
  intro i
  rw [enumerate_getElem?, unionEntries, shiftEntries]
  by_cases hi : i < reqs1.length
  · rw [List.getElem?_append_left hi,
      List.getElem?_append_left (by rw [enumerate_length]; exact hi), enumerate_getElem?]
  · rw [List.getElem?_append_right (by omega),
      List.getElem?_append_right (by rw [enumerate_length]; omega), enumerate_length,
      List.getElem?_map, List.getElem?_map, List.getElem?_map, enumerate_getElem?]
    have e : i - reqs1.length + reqs1.length = i := by omega
    cases reqs2[i - reqs1.length]? with
    | none => rfl
    | some r =>
      simp only [Option.map_some, Entry.relabel, Entry.rename, e]

/-- Whether every declared id is `< n` does not depend on the request ids. -/
theorem declared_relabel (f : Nat → Nat) (es : List (Entry α)) (n : Nat) (h : Declared es n) :
    Declared (es.map (Entry.relabel f)) n := by
  intro e he i hi
  obtain ⟨e0, he0, rfl⟩ := List.mem_map.mp he
  exact h e0 he0 i hi

/-- The enumerated requests declare only ids `< n` when the requests do. -/
theorem declared_enumerate (reqs : List (Constraint α × Nat)) (n : Nat)
    (h : ∀ r ∈ reqs, ∀ i ∈ r.1.nonzeroes.all, i < n) : Declared (enumerate reqs) n := by
  intro e he i hi
  exact h _ (List.mem_of_getElem? (mem_enumerate reqs e he)) i hi

/-! ### Validation of the union -/

/-- No declared id lacks a guess exactly when every declared id is among the guess ids. -/
theorem firstMissing_none_iff (vars : List Nat) (rows : Rows Nat) :
    firstMissing vars rows = none ↔ ∀ v ∈ rows.all, vars.contains v = true := by
  simp only [firstMissing, List.find?_eq_none, Rows.all]
  constructor
  · intro h v hv
    simpa using h v hv
  · intro h v hv
    simpa using h v hv

/-- `Model::new` accepts exactly when validation passes and the column-range test passes. -/
theorem modelNew_ok_validate (es : List (Entry α)) (vars : List Nat)
    (h : modelNew es vars = .ok ()) : validateVariables es vars = .ok () := by
  unfold modelNew at h
  cases hv : validateVariables es vars with
  | error e => simp [hv] at h
  | ok u => rfl

/-- **`Model::new` accepts the union** when it accepts both groups (group 1 declaring ids `< n1`,
group 2 ids `< n2`, one guess per variable; in the union group 2's guess labels are shifted by
`n1`). -/
theorem modelNew_union_ok (n1 n2 : Nat) (es1 es2 : List (Entry α)) (vars1 vars2 : List Nat)
    (hd1 : Declared es1 n1) (hd2 : Declared es2 n2) (hl1 : vars1.length = n1)
    (hl2 : vars2.length = n2) (h1 : modelNew es1 vars1 = .ok ()) (h2 : modelNew es2 vars2 = .ok ()) :
    modelNew (unionEntries n1 es1 es2) (vars1 ++ vars2.map (· + n1)) = .ok () := by
  have hv1 := (validateVariables_ok_iff vars1 es1).mp (modelNew_ok_validate es1 vars1 h1)
  have hv2 := (validateVariables_ok_iff vars2 es2).mp (modelNew_ok_validate es2 vars2 h2)
  have hv : validateVariables (unionEntries n1 es1 es2) (vars1 ++ vars2.map (· + n1)) = .ok () := by
    apply (validateVariables_ok_iff _ _).mpr
    intro e he
    rw [firstMissing_none_iff]
    intro v hv
    rcases List.mem_append.mp he with he | he
    · have := (firstMissing_none_iff vars1 _).mp (hv1 e he) v hv
      simp only [List.contains_iff_mem, List.mem_append] at this ⊢
      exact Or.inl this
    · simp only [shiftEntries, List.mem_map] at he
      obtain ⟨e', he', rfl⟩ := he
      rw [show (Entry.rename (· + n1) e').c = e'.c.rename (· + n1) from rfl,
        nonzeroes_all_rename, List.mem_map] at hv
      obtain ⟨j, hj, rfl⟩ := hv
      have := (firstMissing_none_iff vars2 _).mp (hv2 e' he') j hj
      simp only [List.contains_iff_mem, List.mem_append, List.mem_map] at this ⊢
      exact Or.inr ⟨j, this, rfl⟩
  unfold modelNew
  rw [hv]
  have hlen : (vars1 ++ vars2.map (· + n1)).length = n1 + n2 := by simp [hl1, hl2]
  simp only [hlen, pattern_all_of_declared _ _ (declared_unionEntries n1 n2 es1 es2 hd1 hd2),
    if_true]

/-! ### The sweep of the union -/

/-- The sweep of a concatenation when both parts succeed. -/
theorem unsatisfiedSweep_append_ok (x : Nat → Option α) (es2 : List (Entry α)) (us2 : List Nat)
    (h2 : unsatisfiedSweep es2 x = .ok us2) : ∀ (es1 : List (Entry α)) (us1 : List Nat),
    unsatisfiedSweep es1 x = .ok us1 → unsatisfiedSweep (es1 ++ es2) x = .ok (us1 ++ us2) := by
  intro es1
  induction es1 with
  | nil =>
    intro us1 h1
    simp only [unsatisfiedSweep, Except.ok.injEq] at h1
    subst h1
    simpa using h2
  | cons e rest ih =>
    intro us1 h1
    simp only [List.cons_append]
    unfold unsatisfiedSweep at h1 ⊢
    cases hr : e.c.residual x with
    | none => simp [hr] at h1
    | some r =>
      simp only [hr] at h1 ⊢
      cases hs : isSatisfied e.c.residualDim r with
      | none => simp [hs] at h1
      | some sat =>
        simp only [hs] at h1 ⊢
        cases hrest : unsatisfiedSweep rest x with
        | error err => simp [hrest] at h1
        | ok us =>
          simp only [hrest, Except.ok.injEq] at h1
          rw [ih us hrest]
          subst h1
          cases sat <;> rfl

/-- The sweep of a group depends only on the group's own variables. -/
theorem unsatisfiedSweep_congr_on_vars (x y : Nat → Option α) :
    ∀ (es : List (Entry α)), (∀ i ∈ varsOf es, x i = y i) →
      unsatisfiedSweep es x = unsatisfiedSweep es y := by
  intro es
  induction es with
  | nil => intro _; rfl
  | cons e rest ih =>
    intro h
    have he := (residual_congr_on_vars e.c x y
      (fun i hi => h i ((mem_varsOf _ i).mpr ⟨e, by simp, hi⟩))).1
    have hrest := ih (fun i hi => by
      obtain ⟨e', he', hi'⟩ := (mem_varsOf _ i).mp hi
      exact h i ((mem_varsOf _ i).mpr ⟨e', by simp [he'], hi'⟩))
    simp only [unsatisfiedSweep, he, hrest]

/-- **The sweep of the union** at concatenated values, when both groups' sweeps succeed: group 1's
unsatisfied ids followed by group 2's. -/
theorem unsatisfiedSweep_union (es1 es2 : List (Entry α)) (x1 x2 : List α)
    (hd1 : Declared es1 x1.length) (us1 us2 : List Nat)
    (h1 : unsatisfiedSweep es1 (lookup x1) = .ok us1)
    (h2 : unsatisfiedSweep es2 (lookup x2) = .ok us2) :
    unsatisfiedSweep (unionEntries x1.length es1 es2) (lookup (x1 ++ x2)) = .ok (us1 ++ us2) := by
  apply unsatisfiedSweep_append_ok
  · rw [shiftEntries, unsatisfiedSweep_rename, lookup_append_shift]
    exact h2
  · rw [unsatisfiedSweep_congr_on_vars (lookup (x1 ++ x2)) (lookup x1) es1]
    · exact h1
    · intro i hi
      obtain ⟨e, he, hie⟩ := (mem_varsOf _ _).mp hi
      exact lookup_append_left x1 x2 i (hd1 e he i hie)

/-! ### A converged loop is a run of continuing rounds followed by a returning round -/

/-- If the loop returns `r`, then some number `j` of rounds continue and the next round returns
`r`. -/
theorem newtonLoop_ok_run (es : List (Entry α)) (cfg : Config α)
    (solve : Nat → List (Triplet α) → List α → Except SolveError (List α)) :
    ∀ (fuel k : Nat) (x : List α) (ws : List (Warning α)) (r : NewtonOk α),
      newtonLoop es cfg solve fuel k x ws = .ok r →
      ∃ j y wy, j < fuel ∧ newtonRun es cfg solve j k x ws = some (y, wy) ∧
        newtonStep es cfg solve (k + j) y wy = .done r := by
  intro fuel
  induction fuel with
  | zero => intro k x ws r h; simp [newtonLoop] at h
  | succ fuel ih =>
    intro k x ws r h
    rw [newtonLoop] at h
    cases hs : newtonStep es cfg solve k x ws with
    | done r' =>
      simp only [hs, Except.ok.injEq] at h
      subst h
      exact ⟨0, x, ws, by omega, rfl, by simpa using hs⟩
    | fail e w => simp [hs] at h
    | next y w =>
      simp only [hs] at h
      obtain ⟨j, y', wy', hj, hrun, hdone⟩ := ih (k + 1) y w r h
      refine ⟨j + 1, y', wy', by omega, ?_, ?_⟩
      · rw [newtonRun, hs]; exact hrun
      · rwa [show k + (j + 1) = k + 1 + j from by omega]

end Generic

/-! ### `solveInner` on the union when both groups converge in the same round -/

/-- **`solveInner` on the union** (`solveInner_union_converged`).  Two groups in the contiguous
layout (`Declared es1 n1`, `Declared es2 n2`, one guess per variable), the block-solver hypothesis
on the three LU oracles; both groups solved alone succeed, both return at the residual test
(`byResidual`), in the same round.  Then the union — guess list `g1` followed by `g2` with labels
shifted by `n1` — succeeds with: final values the concatenation of the groups' final values, the
same iteration count, unsatisfied ids group 1's followed by group 2's, the larger of the two solved
priorities, and warnings that begin with both groups' lint warnings. -/
theorem solveInner_union_converged (es1 es2 : List (Entry ℝ)) (n1 n2 : Nat) (cfg : Config ℝ)
    (solveU solve1 solve2 : Nat → List (Triplet ℝ) → List ℝ → Except SolveError (List ℝ))
    (hd1 : Declared es1 n1) (hd2 : Declared es2 n2)
    (hB : BlockSolve solveU solve1 solve2 (numRows es1) (numRows es2) n1 n2)
    (g1 g2 : List (Nat × ℝ)) (hg1 : g1.length = n1) (hg2 : g2.length = n2) (o1 o2 : Outcome ℝ)
    (h1 : solveInner es1 g1 cfg solve1 none = .ok o1)
    (h2 : solveInner es2 g2 cfg solve2 none = .ok o2)
    (hb1 : ∀ r, newton es1 cfg solve1 (g1.map (·.2)) = .ok r → r.byResidual = true)
    (hb2 : ∀ r, newton es2 cfg solve2 (g2.map (·.2)) = .ok r → r.byResidual = true)
    (hit : o1.iterations = o2.iterations) :
    ∃ oU, solveInner (unionEntries n1 es1 es2) (g1 ++ g2.map (fun lv => (lv.1 + n1, lv.2))) cfg
        solveU none = .ok oU ∧
      oU.finalValues = o1.finalValues ++ o2.finalValues ∧ oU.iterations = o1.iterations ∧
      oU.unsatisfied = o1.unsatisfied ++ o2.unsatisfied ∧
      oU.prioritySolved = max o1.prioritySolved o2.prioritySolved ∧
      ∃ ws, oU.warnings = lint es1 ++ lint es2 ++ ws := by
  obtain ⟨nr1, hn1, hm1, hf1, hi1, _, hp1, hu1, _⟩ := solveInner_ok _ _ _ _ _ _ h1
  obtain ⟨nr2, hn2, hm2, hf2, hi2, _, hp2, hu2, _⟩ := solveInner_ok _ _ _ _ _ _ h2
  have hbr1 := hb1 nr1 hn1
  have hbr2 := hb2 nr2 hn2
  obtain ⟨j1, y1, wy1, hj1, hrun1, hdone1⟩ := newtonLoop_ok_run es1 cfg solve1 _ _ _ _ nr1 hn1
  obtain ⟨j2, y2, wy2, hj2, hrun2, hdone2⟩ := newtonLoop_ok_run es2 cfg solve2 _ _ _ _ nr2 hn2
  have hk1 := newtonStep_done_iterations es1 cfg solve1 _ _ _ _ hdone1
  have hk2 := newtonStep_done_iterations es2 cfg solve2 _ _ _ _ hdone2
  have hjj : j2 = j1 := by omega
  subst hjj
  have hx1 : (g1.map (·.2)).length = n1 := by simpa using hg1
  have hx2 : (g2.map (·.2)).length = n2 := by simpa using hg2
  obtain ⟨res, hres, hval, _, hiter, _⟩ := newtonLoop_union_converged es1 es2 cfg solveU solve1
    solve2 n1 n2 hd1 hd2 hB j2 (cfg.maxIterations - j2 - 1) 0 (g1.map (·.2)) (g2.map (·.2)) [] [] []
    y1 y2 wy1 wy2 hx1 hx2 hrun1 hrun2 nr1 nr2 hdone1 hbr1 hdone2 hbr2
  have hfuel : j2 + (cfg.maxIterations - j2 - 1 + 1) = cfg.maxIterations := by omega
  rw [hfuel] at hres
  -- the values the groups return are the values they had reached
  obtain ⟨_, _, _, _, _, _, _, _, _, hnr1⟩ :=
    (newtonStep_done_byResidual_iff es1 cfg solve1 _ y1 wy1 nr1).mp ⟨hdone1, hbr1⟩
  obtain ⟨_, _, _, _, _, _, _, _, _, hnr2⟩ :=
    (newtonStep_done_byResidual_iff es2 cfg solve2 _ y2 wy2 nr2).mp ⟨hdone2, hbr2⟩
  have hv1 : nr1.values = y1 := by rw [hnr1]
  have hv2 : nr2.values = y2 := by rw [hnr2]
  have hy1 : y1.length = n1 := by
    rw [← hv1, newtonLoop_length es1 cfg solve1 _ _ _ _ nr1 hn1]; exact hx1
  -- the pieces of `solveInner` on the union
  have hmU : modelNew (unionEntries n1 es1 es2)
      ((g1 ++ g2.map (fun lv => (lv.1 + n1, lv.2))).map (·.1)) = .ok () := by
    have := modelNew_union_ok n1 n2 es1 es2 (g1.map (·.1)) (g2.map (·.1)) hd1 hd2
      (by simpa using hg1) (by simpa using hg2) hm1 hm2
    simpa [List.map_append, List.map_map, Function.comp_def] using this
  have hgU : (g1 ++ g2.map (fun lv => (lv.1 + n1, lv.2))).map (·.2) =
      g1.map (·.2) ++ g2.map (·.2) := by
    simp [List.map_append, List.map_map, Function.comp_def]
  have hnU : newton (unionEntries n1 es1 es2) cfg solveU
      ((g1 ++ g2.map (fun lv => (lv.1 + n1, lv.2))).map (·.2)) = .ok res := by
    rw [hgU]; exact hres
  have hsU : unsatisfiedSweep (unionEntries n1 es1 es2) (lookup res.values) =
      .ok (o1.unsatisfied ++ o2.unsatisfied) := by
    rw [hval, ← hy1]
    apply unsatisfiedSweep_union es1 es2 y1 y2 (by rw [hy1]; exact hd1)
    · rw [← hv1]; exact hu1
    · rw [← hv2]; exact hu2
  refine ⟨⟨o1.unsatisfied ++ o2.unsatisfied, res.values, res.iterations,
    lint (unionEntries n1 es1 es2) ++ res.warnings, maxPriority (unionEntries n1 es1 es2), none⟩,
    by simp only [solveInner, hmU, hnU, hsU, runAnalysis], ?_, ?_, rfl, ?_, ?_⟩
  · simp only [hval, hf1, hf2, hv1, hv2]
  · simp only [hiter, hi1, hk1]
  · simp only [hp1, hp2, unionEntries, shiftEntries, maxPriority, List.foldl_append, List.foldl_map]
    show List.foldl (fun acc e => max acc e.priority) _ es2 = _
    have key : ∀ (es : List (Entry ℝ)) (a : Nat),
        es.foldl (fun acc e => max acc e.priority) a =
          max a (es.foldl (fun acc e => max acc e.priority) 0) := by
      intro es
      induction es with
      | nil => intro a; simp
      | cons e rest ih =>
        intro a
        simp only [List.foldl_cons]
        rw [ih (max a e.priority), ih (max 0 e.priority)]
        omega
    exact key es2 _
  · have hl : lint (unionEntries n1 es1 es2) = lint es1 ++ lint es2 := by
      rw [unionEntries, shiftEntries, lint, List.filterMap_append]
      show lint es1 ++ lint (es2.map _) = _
      rw [lint_rename]
    exact ⟨res.warnings, by rw [hl]⟩

/-! ### The entry point -/

/-- **C17 at the entry point, one priority level, both groups converging in the same round**
(`solveWithPriority_union_converged`).  `reqs1` (ids `< n1`) and `reqs2` (ids `< n2`), non-empty,
all of priority `P`; `g1`, `g2` one guess per variable; the block-solver hypothesis on the first LU
oracles.  If `solve` succeeds on each group alone, both Newton runs return at the residual test, and
both report the same iteration count, then `solve` on the union — `reqs1` followed by `reqs2` with
variables shifted by `n1`, guesses `g1` followed by `g2` with labels shifted — succeeds with: final
values `o1.finalValues ++ o2.finalValues`, the same iteration count, unsatisfied list group 1's
followed by group 2's moved up by the length of `reqs1`, and solved priority `P`. -/
theorem solveWithPriority_union_converged (reqs1 reqs2 : List (Constraint ℝ × Nat)) (P n1 n2 : Nat)
    (hne1 : reqs1 ≠ []) (hne2 : reqs2 ≠ []) (hP1 : ∀ r ∈ reqs1, r.2 = P)
    (hP2 : ∀ r ∈ reqs2, r.2 = P)
    (hd1 : ∀ r ∈ reqs1, ∀ i ∈ r.1.nonzeroes.all, i < n1)
    (hd2 : ∀ r ∈ reqs2, ∀ i ∈ r.1.nonzeroes.all, i < n2)
    (cfg : Config ℝ) (solveU solve1 solve2 : LinSolve ℝ)
    (hB : BlockSolve (solveU 0) (solve1 0) (solve2 0) (numRows (enumerate reqs1))
      (numRows (enumerate reqs2)) n1 n2)
    (g1 g2 : List (Nat × ℝ)) (hg1 : g1.length = n1) (hg2 : g2.length = n2) (o1 o2 : Outcome ℝ)
    (h1 : solveWithPriority reqs1 g1 cfg solve1 none = .ok o1)
    (h2 : solveWithPriority reqs2 g2 cfg solve2 none = .ok o2)
    (hb1 : ∀ r, newton (enumerate reqs1) cfg (solve1 0) (g1.map (·.2)) = .ok r →
      r.byResidual = true)
    (hb2 : ∀ r, newton (enumerate reqs2) cfg (solve2 0) (g2.map (·.2)) = .ok r →
      r.byResidual = true)
    (hit : o1.iterations = o2.iterations) :
    ∃ oU, solveWithPriority (reqs1 ++ reqs2.map (fun r => (r.1.rename (· + n1), r.2)))
        (g1 ++ g2.map (fun lv => (lv.1 + n1, lv.2))) cfg solveU none = .ok oU ∧
      oU.finalValues = o1.finalValues ++ o2.finalValues ∧ oU.iterations = o1.iterations ∧
      oU.unsatisfied = o1.unsatisfied ++ o2.unsatisfied.map (· + reqs1.length) ∧
      oU.prioritySolved = P := by
  rw [solveWithPriority_single_level reqs1 g1 cfg solve1 none P hne1 hP1] at h1
  rw [solveWithPriority_single_level reqs2 g2 cfg solve2 none P hne2 hP2] at h2
  simp only [Option.map_none] at h1 h2
  have hneU : reqs1 ++ reqs2.map (fun r => (r.1.rename (· + n1), r.2)) ≠ [] := by
    cases reqs1 with
    | nil => exact absurd rfl hne1
    | cons r rest => simp
  have hPU : ∀ r ∈ reqs1 ++ reqs2.map (fun r => (r.1.rename (· + n1), r.2)), r.2 = P := by
    intro r hr
    rcases List.mem_append.mp hr with hr | hr
    · exact hP1 r hr
    · obtain ⟨r0, hr0, rfl⟩ := List.mem_map.mp hr
      exact hP2 r0 hr0
  rw [solveWithPriority_single_level _ _ cfg solveU none P hneU hPU, enumerate_union]
  simp only [Option.map_none]
  -- group 2 with its ids moved up
  have hm2 := (solveInner_ok _ _ _ _ _ _ h2).choose_spec.2.1
  have h2' : solveInner ((enumerate reqs2).map (Entry.relabel (· + reqs1.length))) g2 cfg
      (solve2 0) none = .ok (o2.relabel (· + reqs1.length)) := by
    rw [solveInner_relabel_valid _ _ g2 cfg (solve2 0) none hm2, h2]
    rfl
  have hb2' : ∀ r, newton ((enumerate reqs2).map (Entry.relabel (· + reqs1.length))) cfg (solve2 0)
      (g2.map (·.2)) = .ok r → r.byResidual = true := by
    intro r hr
    rw [newton_relabel] at hr
    cases hn : newton (enumerate reqs2) cfg (solve2 0) (g2.map (·.2)) with
    | error p => obtain ⟨e, w⟩ := p; rw [hn] at hr; simp [relabelLoop] at hr
    | ok r0 =>
      rw [hn] at hr
      simp only [relabelLoop, Except.ok.injEq] at hr
      rw [← hr]
      exact hb2 r0 hn
  obtain ⟨oU, hU, hfv, hiU, hus, hpr, _⟩ := solveInner_union_converged (enumerate reqs1)
    ((enumerate reqs2).map (Entry.relabel (· + reqs1.length))) n1 n2 cfg (solveU 0) (solve1 0)
    (solve2 0) (declared_enumerate reqs1 n1 hd1)
    (declared_relabel _ _ n2 (declared_enumerate reqs2 n2 hd2)) (by rwa [numRows_relabel])
    g1 g2 hg1 hg2 o1 (o2.relabel (· + reqs1.length)) h1 h2' hb1 hb2' hit
  refine ⟨oU, hU, hfv, hiU, hus, ?_⟩
  rw [hpr]
  have e1 := (solveInner_ok _ _ _ _ _ _ h1).choose_spec.2.2.2.2.2.1
  have e2 := (solveInner_ok _ _ _ _ _ _ h2).choose_spec.2.2.2.2.2.1
  have hf1 : ∃ r ∈ reqs1, r.2 = P := by
    cases reqs1 with
    | nil => exact absurd rfl hne1
    | cons r rest => exact ⟨r, by simp, hP1 r (by simp)⟩
  have hf2 : ∃ r ∈ reqs2, r.2 = P := by
    cases reqs2 with
    | nil => exact absurd rfl hne2
    | cons r rest => exact ⟨r, by simp, hP2 r (by simp)⟩
  have m1 := maxPriority_filter (enumerate reqs1) P ((enumerate_priorities reqs1 P).mpr hf1)
  have m2 := maxPriority_filter (enumerate reqs2) P ((enumerate_priorities reqs2 P).mpr hf2)
  rw [filter_single_level reqs1 P P hP1 hf1] at m1
  rw [filter_single_level reqs2 P P hP2 hf2] at m2
  show max o1.prioritySolved o2.prioritySolved = P
  rw [e1, e2, m1, m2, Nat.max_self]

/-! ### Non-vacuity -/

/-- The round after `fixed_round`: at `[v]` the group "variable 0 fixed to `v`" returns at the
residual test. -/
theorem fixed_converged (v : ℝ) (id : Nat) :
    newtonStep [(⟨.fixed 0 v, id, 0⟩ : Entry ℝ)] ⟨30, 1e-5, 1e-5⟩ negSolve 1 [v] [] =
      .done ⟨[v], 1, [], [(0, 0, 1.0)], true⟩ := by
  simp [newtonStep, residualAll, jacobianAll, jacobianFrom, pattern, patternFrom,
    Constraint.residual, Constraint.jacobianRows, Constraint.residualV, Constraint.jacobianV,
    Constraint.residualReads, Constraint.jacobianReads, lookup, takeRows, Constraint.residualDim,
    Res.mk1, maxAbs?, negSolve, applyStep, allFinite, stepInfNorm, stepThreshold, maxAbs0,
    Constraint.nonzeroes]
  intro h
  norm_num at h

/-- The whole Newton run of the group "variable 0 fixed to `v`" from 0: two rounds, returning at the
residual test. -/
theorem fixed_newton (v : ℝ) (hv : 1 ≤ v) (id : Nat) :
    newton [(⟨.fixed 0 v, id, 0⟩ : Entry ℝ)] ⟨30, 1e-5, 1e-5⟩ negSolve [0] =
      .ok ⟨[v], 1, [], [(0, 0, 1.0)], true⟩ := by
  show newtonLoop _ _ _ (28 + 1 + 1) 0 [0] [] = _
  rw [newtonLoop, fixed_round v hv id]
  dsimp only
  rw [newtonLoop, fixed_converged v id]

/-- `solveInner` on that group. -/
theorem fixed_solveInner (v : ℝ) (hv : 1 ≤ v) (id : Nat) :
    solveInner [(⟨.fixed 0 v, id, 0⟩ : Entry ℝ)] [(0, 0)] ⟨30, 1e-5, 1e-5⟩ negSolve none =
      .ok ⟨[], [v], 1, [], 0, none⟩ := by
  have hm : modelNew [(⟨.fixed 0 v, id, 0⟩ : Entry ℝ)] ([((0 : Nat), (0 : ℝ))].map (·.1)) = .ok () := by
    simp [modelNew, validateVariables, firstMissing, Constraint.nonzeroes, pattern, patternFrom,
      takeRows, Constraint.residualDim, List.zipIdx]
  have hn := fixed_newton v hv id
  have hs : unsatisfiedSweep [(⟨.fixed 0 v, id, 0⟩ : Entry ℝ)] (lookup [v]) = .ok [] := by
    simp [unsatisfiedSweep, Constraint.residual, Constraint.residualV, Constraint.residualReads,
      lookup, Constraint.residualDim, Res.mk1, isSatisfied, EPS_real]
    norm_num
  simp only [solveInner, hm]
  simp only [List.map_cons, List.map_nil, hn, hs, runAnalysis]
  simp [lint, lintOne, maxPriority]

/-- Non-vacuity of `solveWithPriority_union_converged`: "variable 0 fixed to 5" and "variable 0
fixed to 7", each from the guess 0 with the exact solver `negSolve`, both return at the residual test
in round 1; all hypotheses hold, and the theorem gives the union's result: values `[5, 7]` after one
iteration, nothing unsatisfied. -/
example : ∃ oU, solveWithPriority [((.fixed 0 5 : Constraint ℝ), 0), (.fixed 1 7, 0)]
      [(0, 0), (1, 0)] ⟨30, 1e-5, 1e-5⟩ (fun _ => negSolve) none = .ok oU ∧
    oU.finalValues = [5, 7] ∧ oU.iterations = 1 ∧ oU.unsatisfied = [] ∧ oU.prioritySolved = 0 := by
  have hsl : ∀ v : ℝ, 1 ≤ v → solveWithPriority [((.fixed 0 v : Constraint ℝ), 0)] [(0, 0)]
      ⟨30, 1e-5, 1e-5⟩ (fun _ => negSolve) none = .ok ⟨[], [v], 1, [], 0, none⟩ := by
    intro v hv
    rw [solveWithPriority_single_level _ _ _ _ none 0 (by simp) (by simp)]
    exact fixed_solveInner v hv 0
  have hb : ∀ v : ℝ, 1 ≤ v → ∀ r, newton (enumerate [((.fixed 0 v : Constraint ℝ), 0)])
      ⟨30, 1e-5, 1e-5⟩ negSolve ([((0 : Nat), (0 : ℝ))].map (·.2)) = .ok r → r.byResidual = true := by
    intro v hv r hr
    have := fixed_newton v hv 0
    rw [show newton (enumerate [((.fixed 0 v : Constraint ℝ), 0)]) ⟨30, 1e-5, 1e-5⟩ negSolve
      ([((0 : Nat), (0 : ℝ))].map (·.2)) = newton [(⟨.fixed 0 v, 0, 0⟩ : Entry ℝ)] ⟨30, 1e-5, 1e-5⟩
        negSolve [0] from rfl, this] at hr
    injection hr with hr
    rw [← hr]
  have hdecl : ∀ v : ℝ, ∀ r ∈ [((.fixed 0 v : Constraint ℝ), 0)], ∀ i ∈ r.1.nonzeroes.all, i < 1 := by
    intro v r hr i hi
    simp only [List.mem_singleton] at hr
    subst hr
    simp [Constraint.nonzeroes, Rows.all] at hi
    omega
  obtain ⟨oU, hU, h1, h2, h3, h4⟩ := solveWithPriority_union_converged
    [((.fixed 0 5 : Constraint ℝ), 0)] [((.fixed 0 7 : Constraint ℝ), 0)] 0 1 1 (by simp) (by simp)
    (by simp) (by simp) (hdecl 5) (hdecl 7) ⟨30, 1e-5, 1e-5⟩ (fun _ => negSolve) (fun _ => negSolve)
    (fun _ => negSolve) (negSolve_block _ _ _ _) [(0, 0)] [(0, 0)] rfl rfl _ _
    (hsl 5 (by norm_num)) (hsl 7 (by norm_num)) (hb 5 (by norm_num)) (hb 7 (by norm_num)) rfl
  exact ⟨oU, hU, h1, h2, h3, h4⟩

end Ezpz
