/-
Small facts recorded next to the `fix:` commits in /repo, so that "the repair does not change what
the constraint means" is a checked statement and not a remark.
-/
import Ezpz.Real.Instance
import Ezpz.Real.Lint
namespace Ezpz

/-- F21 (fix `7c5f1bc`): the numerator of `PointLineDistance`'s signed distance written relative to
the line's first point is the same real number as the line-equation form `A·px + B·py + C` with
`A = p0y − p1y`, `B = p1x − p0x`, `C = p0x·p1y − p1x·p0y` that the code used before.  (In floating
point the old form loses about `|p|²·2⁻⁵³` to the cancellation in `C`; the new one does not.) -/
theorem pointLineDistance_numerator_forms_agree (px py p0x p0y p1x p1y : ℝ) :
    (p0y - p1y) * (px - p0x) + (p1x - p0x) * (py - p0y)
      = (p0y - p1y) * px + (p1x - p0x) * py + (p0x * p1y - p1x * p0y) := by
  ring

/-- … and it is invariant under translating the whole sketch by `(tx, ty)`, term by term: no term
of the new form grows with the distance of the sketch from the origin. -/
theorem pointLineDistance_numerator_translation (px py p0x p0y p1x p1y tx ty : ℝ) :
    ((p0y + ty) - (p1y + ty)) * ((px + tx) - (p0x + tx)) + ((p1x + tx) - (p0x + tx)) * ((py + ty) - (p0y + ty))
      = (p0y - p1y) * (px - p0x) + (p1x - p0x) * (py - p0y) := by
  ring

/-- The old constant term alone is NOT translation invariant: it picks up terms proportional to the
offset (this is what cancelled against `A·px + B·py` and cost the precision). -/
theorem pointLineDistance_old_constant_grows (p0x p0y p1x p1y t : ℝ) :
    (p0x + t) * (p1y + t) - (p1x + t) * (p0y + t)
      = (p0x * p1y - p1x * p0y) + t * ((p0x - p1x) + (p1y - p0y)) := by
  ring

/-- F22 (fix `d85fbd0`): with the guard in place the model's Jacobian of `CircleTangentToCircle`
never divides by a distance below `EPSILON`: either the flag is raised and there is no row, or the
centres are at least `EPSILON` apart. -/
theorem circleTangentToCircle_row_or_flag (v : Nat → ℝ) (c c' : Circ) :
    ((Constraint.circleTangentToCircle c c' : Constraint ℝ).jacobianV v).degenerate = true ∨
    (EPS : ℝ) ≤ Real.sqrt ((v c.center.x - v c'.center.x) * (v c.center.x - v c'.center.x)
        + (v c.center.y - v c'.center.y) * (v c.center.y - v c'.center.y)) := by
  by_cases h : Real.sqrt ((v c.center.x - v c'.center.x) * (v c.center.x - v c'.center.x)
        + (v c.center.y - v c'.center.y) * (v c.center.y - v c'.center.y)) < (EPS : ℝ)
  · left; exact (degenerate_sound_circleTangentToCircle v c c').2.mpr h
  · right; exact not_lt.mp h

end Ezpz
