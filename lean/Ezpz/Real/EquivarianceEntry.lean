/-
C12 at the public entry point `solveWithPriority` (plain `solve`, no freedom analysis), over ℝ:
**neither the listing order of the requests nor the numbering of the variables matters.**

`solveWithPriority` numbers the requests by their position in the caller's list (`enumerate`).  When
the caller reorders the list by a bijection `σ` of the positions (`reqs'[σ i] = reqs[i]`), the entry
lists are therefore not permutations of each other: they are permutations *up to the relabelling of
the ids by `σ`* (`enumerate_perm`).  Ids are pure labels (`Proofs/Relabel.lean`), so:

* `solveWithPriority_perm` — under the row-permutation hypothesis on the LU oracles at every level
  call and when `Model::new` accepts every level: both runs fail or both succeed; on success the
  same final values, iteration count, solved priority; the unsatisfied list of the reordered run is
  a permutation of the original one mapped through `σ` (equal after sorting,
  `solveWithPriority_perm_ok`); the warnings are a permutation of the original ones with `about`
  mapped through `σ`; on failure the same error, `numVars`, `numEqs`.
* `solveWithPriority_perm_general` — without the hypothesis on `Model::new`: the same, except that
  when the two runs fail with a `MissingGuess`, each names *some* request of its own list with a
  missing guess (which one is not invariant: the first in listing order wins).
* `solveWithPriority_renumber` — the requests renamed by a bijection `π` of the variables and the
  guess list reordered to match: same unsatisfied list, iteration count, solved priority, warnings;
  final values reordered by `π`.

The proofs go level by level (`solveWithPriority_rel`): the per-level results of the two runs are
related, related results agree on "nothing unsatisfied", so the priority loop takes the same
decisions.
-/
import Ezpz.Real.EquivarianceRenumber
import Ezpz.Proofs.Relabel
set_option linter.unusedSectionVars false
set_option linter.unusedSimpArgs false
namespace Ezpz
open Transc

/-! ### `enumerate` under a reordering of the caller's list (every scalar type) -/

section Enumerate
variable {α : Type} [Add α] [Sub α] [Mul α] [Div α] [Neg α] [OfScientific α]
  [LT α] [DecidableLT α] [LE α] [DecidableLE α] [Transc α]

/-- Entry `i` of `enumerate reqs` is request `i` with id `i`. -/
theorem enumerate_getElem? (reqs : List (Constraint α × Nat)) (i : Nat) :
    (enumerate reqs)[i]? = (reqs[i]?).map (fun r => (⟨r.1, i, r.2⟩ : Entry α)) := by
  simp only [enumerate, List.getElem?_map, List.getElem?_zipIdx, Nat.zero_add]
  cases reqs[i]? <;> rfl

/-- If `reqs'` is `reqs` reordered by `σ`, then `enumerate reqs'` is the relabelled
`enumerate reqs` reordered by `σ`. -/
theorem enumerate_reordered (σ : Nat → Nat) (n : Nat) (reqs reqs' : List (Constraint α × Nat))
    (h : Reordered σ n reqs reqs') :
    Reordered σ n ((enumerate reqs).map (Entry.relabel σ)) (enumerate reqs') := by
  obtain ⟨h1, h2, h3⟩ := h
  refine ⟨by rw [List.length_map, enumerate_length, h1], by rw [enumerate_length, h2], ?_⟩
  intro i hi
  rw [enumerate_getElem?, h3 i hi, List.getElem?_map, enumerate_getElem?]
  cases reqs[i]? <;> rfl

/-- **`enumerate` of a reordered request list** (`enumerate_perm`): if `σ` is a bijection of the
positions `{0..n-1}` and `reqs'[σ i] = reqs[i]`, the entries of `reqs'` are, up to order, the
entries of `reqs` with ids relabelled by `σ`. -/
theorem enumerate_perm (σ : Nat → Nat) (n : Nat) (hσ : PermOn n σ)
    (reqs reqs' : List (Constraint α × Nat)) (h : Reordered σ n reqs reqs') :
    (enumerate reqs').Perm ((enumerate reqs).map (Entry.relabel σ)) :=
  reorder_perm σ n hσ _ _ (enumerate_reordered σ n reqs reqs' h)

/-- Selecting the requests of priority `≤ p` commutes with the reordering. -/
theorem enumerate_filter_perm (σ : Nat → Nat) (n : Nat) (hσ : PermOn n σ)
    (reqs reqs' : List (Constraint α × Nat)) (h : Reordered σ n reqs reqs') (p : Nat) :
    ((enumerate reqs').filter (fun e => e.priority ≤ p)).Perm
      (((enumerate reqs).filter (fun e => e.priority ≤ p)).map (Entry.relabel σ)) := by
  have := (enumerate_perm σ n hσ reqs reqs' h).filter (fun e => decide (e.priority ≤ p))
  rwa [List.filter_map] at this

/-- A reordered request list visits the same priority levels. -/
theorem levels_enumerate_perm (σ : Nat → Nat) (n : Nat) (hσ : PermOn n σ)
    (reqs reqs' : List (Constraint α × Nat)) (h : Reordered σ n reqs reqs') :
    levels (enumerate reqs') = levels (enumerate reqs) := by
  apply levels_perm_invariant
  intro q
  rw [enumerate_priorities, enumerate_priorities]
  have hp := reorder_perm σ n hσ reqs reqs' h
  exact ⟨fun ⟨r, hr, hq⟩ => ⟨r, hp.mem_iff.mp hr, hq⟩, fun ⟨r, hr, hq⟩ => ⟨r, hp.mem_iff.mpr hr, hq⟩⟩

/-- A reordered request list is empty iff the original is. -/
theorem isEmpty_reordered {β : Type} (σ : Nat → Nat) (n : Nat) (l l' : List β)
    (h : Reordered σ n l l') : l'.isEmpty = l.isEmpty := by
  obtain ⟨h1, h2, _⟩ := h
  cases l <;> cases l' <;> simp_all
  all_goals omega

/-! ### `enumerate` under a renaming of the variables -/

/-- Renaming the variables of every request commutes with `enumerate`. -/
theorem enumerate_rename (π : Nat → Nat) (reqs : List (Constraint α × Nat)) :
    enumerate (reqs.map (fun r => (r.1.rename π, r.2))) = (enumerate reqs).map (Entry.rename π) := by
  apply List.ext_getElem?
  intro i
  rw [enumerate_getElem?, List.getElem?_map, List.getElem?_map, enumerate_getElem?]
  cases reqs[i]? <;> rfl

/-- Selecting the requests of priority `≤ p` commutes with renaming. -/
theorem filter_rename (π : Nat → Nat) (es : List (Entry α)) (p : Nat) :
    (es.map (Entry.rename π)).filter (fun e => e.priority ≤ p) =
      (es.filter (fun e => e.priority ≤ p)).map (Entry.rename π) := by
  rw [List.filter_map]
  rfl

/-- Renaming the variables does not change the priority levels. -/
theorem levels_rename (π : Nat → Nat) (es : List (Entry α)) :
    levels (es.map (Entry.rename π)) = levels es := by
  simp only [levels, List.foldl_map]
  rfl

end Enumerate

/-! ### Reordering the caller's list: one level -/

/-- A request of the caller's list with a declared id that has no guess, named by its position,
together with its first such id. -/
def NamesMissing (reqs : List (Constraint ℝ × Nat)) (vars : List Nat) (err : SolveError) : Prop :=
  ∃ i c p v, reqs[i]? = some (c, p) ∧ firstMissing vars c.nonzeroes = some v ∧
    err = .missingGuess i v

/-- A missing-guess witness among enumerated entries is one in the caller's list. -/
theorem namesMissing_of_enumerate (reqs : List (Constraint ℝ × Nat)) (vars : List Nat) (p : Nat)
    (err : SolveError)
    (h : IsMissingGuessOf ((enumerate reqs).filter (fun e => e.priority ≤ p)) vars err) :
    NamesMissing reqs vars err := by
  obtain ⟨e, he, v, hf, rfl⟩ := h
  exact ⟨e.id, e.c, e.priority, v, mem_enumerate reqs e (List.mem_filter.mp he).1, hf, rfl⟩

/-- The comparison of two successful outcomes, original list vs reordered list: same final values,
iteration count, solved priority and analysis result; the unsatisfied ids are, up to order, the
original ones mapped through `σ`; the warnings are, up to order, the original ones with `about`
mapped through `σ`. -/
def Outcome.EntryPermEq (σ : Nat → Nat) (a b : Outcome ℝ) : Prop :=
  Outcome.PermEq (a.relabel σ) b

/-- The comparison of two failures when every level is a valid model: same error, `numVars`,
`numEqs`; the warnings are, up to order, the original ones with `about` mapped through `σ`. -/
def Failure.EntryPermEq (σ : Nat → Nat) (a b : Failure ℝ) : Prop :=
  Failure.PermEq (a.relabelW σ) b

/-- The comparison of two failures in general: same `numVars`, `numEqs`, warnings up to order and
relabelling; the same error, or both report a `MissingGuess`, each naming some request of its own
list (by its position there) one of whose declared ids has no guess, and that request's first such
id. -/
def Failure.EntryPermEqGen (σ : Nat → Nat) (reqs reqs' : List (Constraint ℝ × Nat))
    (vars : List Nat) (a b : Failure ℝ) : Prop :=
  b.numVars = a.numVars ∧ b.numEqs = a.numEqs ∧
    b.warnings.Perm (a.warnings.map (Warning.relabel σ)) ∧
    (b.error = a.error ∨ (NamesMissing reqs vars a.error ∧ NamesMissing reqs' vars b.error))

/-- Related outcomes agree on whether anything is unsatisfied. -/
theorem Outcome.EntryPermEq.isEmpty {σ : Nat → Nat} {a b : Outcome ℝ}
    (h : Outcome.EntryPermEq σ a b) : b.unsatisfied.isEmpty = a.unsatisfied.isEmpty := by
  have hp : b.unsatisfied.Perm (a.unsatisfied.map σ) := h.2.2.2.2.1
  have hl := hp.length_eq
  rw [List.length_map] at hl
  cases hb : b.unsatisfied <;> cases ha : a.unsatisfied <;> simp_all

section Level
variable (reqs reqs' : List (Constraint ℝ × Nat)) (σ : Nat → Nat) (n : Nat) (hσ : PermOn n σ)
  (hre : Reordered σ n reqs reqs') (g : List (Nat × ℝ)) (cfg : Config ℝ)
  (solve solve' : Nat → List (Triplet ℝ) → List ℝ → Except SolveError (List ℝ)) (p : Nat)
include hσ hre

/-- **One level of the reordered list** (valid model): the solve of the requests of priority `≤ p`
of the reordered list agrees with the solve of those of the original list up to order and the
relabelling of ids by `σ`. -/
theorem level_perm
    (hS : RowPermSolve solve solve'
      (numRows ((enumerate reqs).filter (fun e => e.priority ≤ p))))
    (hm : modelNew ((enumerate reqs).filter (fun e => e.priority ≤ p)) (g.map (·.1)) = .ok ()) :
    ResRel (Failure.EntryPermEq σ) (Outcome.EntryPermEq σ)
      (solveInner ((enumerate reqs).filter (fun e => e.priority ≤ p)) g cfg solve none)
      (solveInner ((enumerate reqs').filter (fun e => e.priority ≤ p)) g cfg solve' none) := by
  have hp := (enumerate_filter_perm σ n hσ reqs reqs' hre p).symm
  have key := solveInner_perm_noAnalysis hp cfg solve solve'
    (by rwa [numRows_relabel]) g (by rw [modelNew_relabel, hm]; rfl)
  rw [solveInner_relabel_valid σ _ g cfg solve none hm] at key
  cases h1 : solveInner ((enumerate reqs).filter (fun e => e.priority ≤ p)) g cfg solve none with
  | ok a =>
    cases h2 : solveInner ((enumerate reqs').filter (fun e => e.priority ≤ p)) g cfg solve' none with
    | ok b => rw [h1, h2] at key; exact key
    | error fb => rw [h1, h2] at key; exact key.elim
  | error fa =>
    cases h2 : solveInner ((enumerate reqs').filter (fun e => e.priority ≤ p)) g cfg solve' none with
    | ok b => rw [h1, h2] at key; exact key.elim
    | error fb => rw [h1, h2] at key; exact key

/-- **One level of the reordered list** (any model): as `level_perm`; when `Model::new` rejects the
level, both calls fail with the lint warnings, and either with the same error or each with a
`MissingGuess` naming some request of its own list. -/
theorem level_perm_general
    (hS : RowPermSolve solve solve'
      (numRows ((enumerate reqs).filter (fun e => e.priority ≤ p)))) :
    ResRel (Failure.EntryPermEqGen σ reqs reqs' (g.map (·.1))) (Outcome.EntryPermEq σ)
      (solveInner ((enumerate reqs).filter (fun e => e.priority ≤ p)) g cfg solve none)
      (solveInner ((enumerate reqs').filter (fun e => e.priority ≤ p)) g cfg solve' none) := by
  cases hm : modelNew ((enumerate reqs).filter (fun e => e.priority ≤ p)) (g.map (·.1)) with
  | ok u =>
    have key := level_perm reqs reqs' σ n hσ hre g cfg solve solve' p hS hm
    cases h1 : solveInner ((enumerate reqs).filter (fun e => e.priority ≤ p)) g cfg solve none with
    | ok a =>
      cases h2 : solveInner ((enumerate reqs').filter (fun e => e.priority ≤ p)) g cfg solve' none with
      | ok b => rw [h1, h2] at key; exact key
      | error fb => rw [h1, h2] at key; exact key.elim
    | error fa =>
      cases h2 : solveInner ((enumerate reqs').filter (fun e => e.priority ≤ p)) g cfg solve' none with
      | ok b => rw [h1, h2] at key; exact key.elim
      | error fb =>
        rw [h1, h2] at key
        obtain ⟨he, hv, hq, hw⟩ := key
        exact ⟨hv, hq, hw, Or.inl he⟩
  | error err =>
    have hp := (enumerate_filter_perm σ n hσ reqs reqs' hre p).symm
    obtain ⟨h1, h1'⟩ := solveInner_relabel_invalid σ _ g cfg solve none err hm
    have hm' : modelNew (((enumerate reqs).filter (fun e => e.priority ≤ p)).map (Entry.relabel σ))
        (g.map (·.1)) = .error (err.relabelId σ) := by rw [modelNew_relabel, hm]; rfl
    obtain ⟨err', _, h2, hl, hkind⟩ := solveInner_perm_invalid hp cfg solve solve' g none none _ hm'
    rw [h1, h2]
    refine ⟨rfl, by rw [numRows_relabel], by rw [lint_relabel] at hl; exact hl, ?_⟩
    rcases hkind with ⟨ha, hb⟩ | ⟨ha, hb⟩
    · left
      rw [hb]
      cases err <;> simp_all [SolveError.relabelId]
    · right
      refine ⟨?_, namesMissing_of_enumerate reqs' _ p err' hb⟩
      obtain ⟨_, _, hk⟩ := modelNew_perm_error (List.Perm.refl _) _ err hm
      rcases hk with ⟨hf, _⟩ | ⟨hk, _⟩
      · subst hf
        obtain ⟨_, _, _, _, habs⟩ := ha
        simp [SolveError.relabelId] at habs
      · exact namesMissing_of_enumerate reqs _ p err hk

end Level

/-! ### Reordering the caller's list: the entry point -/

section Entry
variable (reqs reqs' : List (Constraint ℝ × Nat)) (σ : Nat → Nat) (n : Nat) (hσ : PermOn n σ)
  (hre : Reordered σ n reqs reqs') (g : List (Nat × ℝ)) (cfg : Config ℝ)
  (solve solve' : LinSolve ℝ)
include hσ hre

/-- **The listing order of the requests does not matter at the entry point**
(`solveWithPriority_perm`, plain `solve`).  `reqs'` is `reqs` reordered by a bijection `σ` of the
positions (`reqs'[σ i] = reqs[i]`).  Hypotheses: at the `i`-th level call the two LU oracles satisfy
the row-permutation hypothesis for that level's number of rows; `Model::new` accepts every level.
Then both runs fail or both succeed.  On success: same final values, iteration count, solved
priority; the unsatisfied list is, up to order, the original one mapped through `σ`; the warnings
are, up to order, the original ones with `about` mapped through `σ`.  On failure: same error,
`numVars`, `numEqs`; warnings as above. -/
theorem solveWithPriority_perm
    (hS : ∀ i p, (levels (enumerate reqs))[i]? = some p → RowPermSolve (solve i) (solve' i)
      (numRows ((enumerate reqs).filter (fun e => e.priority ≤ p))))
    (hm : ∀ p ∈ levels (enumerate reqs),
      modelNew ((enumerate reqs).filter (fun e => e.priority ≤ p)) (g.map (·.1)) = .ok ()) :
    ResRel (Failure.EntryPermEq σ) (Outcome.EntryPermEq σ)
      (solveWithPriority reqs g cfg solve none) (solveWithPriority reqs' g cfg solve' none) := by
  apply solveWithPriority_rel _ _ (fun a b h => h.isEmpty) reqs reqs' g g cfg cfg solve solve'
    none none (isEmpty_reordered σ n reqs reqs' hre) (levels_enumerate_perm σ n hσ reqs reqs' hre)
  · intro i p hp
    simp only [levelRun, Option.map_none]
    exact level_perm reqs reqs' σ n hσ hre g cfg (solve i) (solve' i) p (hS i p hp)
      (hm p (List.mem_of_getElem? hp))
  · intro prio
    exact ⟨rfl, rfl, rfl, rfl, List.Perm.refl _, List.Perm.refl _⟩

/-- **The same without assuming that `Model::new` accepts every level**
(`solveWithPriority_perm_general`): both runs fail or both succeed; on success as in
`solveWithPriority_perm`; on failure the same `numVars`, `numEqs`, warnings up to order and
relabelling, and either the same error or two `MissingGuess` errors, each naming some request of its
own list with a missing guess.  (Which request is named is *not* invariant: validation reports the
first one in listing order.) -/
theorem solveWithPriority_perm_general
    (hS : ∀ i p, (levels (enumerate reqs))[i]? = some p → RowPermSolve (solve i) (solve' i)
      (numRows ((enumerate reqs).filter (fun e => e.priority ≤ p)))) :
    ResRel (Failure.EntryPermEqGen σ reqs reqs' (g.map (·.1))) (Outcome.EntryPermEq σ)
      (solveWithPriority reqs g cfg solve none) (solveWithPriority reqs' g cfg solve' none) := by
  apply solveWithPriority_rel _ _ (fun a b h => h.isEmpty) reqs reqs' g g cfg cfg solve solve'
    none none (isEmpty_reordered σ n reqs reqs' hre) (levels_enumerate_perm σ n hσ reqs reqs' hre)
  · intro i p hp
    simp only [levelRun, Option.map_none]
    exact level_perm_general reqs reqs' σ n hσ hre g cfg (solve i) (solve' i) p (hS i p hp)
  · intro prio
    exact ⟨rfl, rfl, rfl, rfl, List.Perm.refl _, List.Perm.refl _⟩

/-- `solveWithPriority_perm_general` spelled out for a successful run: the reordered run succeeds
with the same final values, iteration count and solved priority; its unsatisfied list is a
permutation of the original one mapped through `σ` — the two are equal after sorting — and its
warnings are a permutation of the relabelled warnings.  (No hypothesis on `Model::new`.) -/
theorem solveWithPriority_perm_ok
    (hS : ∀ i p, (levels (enumerate reqs))[i]? = some p → RowPermSolve (solve i) (solve' i)
      (numRows ((enumerate reqs).filter (fun e => e.priority ≤ p))))
    (a : Outcome ℝ) (h : solveWithPriority reqs g cfg solve none = .ok a) :
    ∃ b, solveWithPriority reqs' g cfg solve' none = .ok b ∧
      b.finalValues = a.finalValues ∧ b.iterations = a.iterations ∧
      b.prioritySolved = a.prioritySolved ∧ b.underconstrained = a.underconstrained ∧
      b.unsatisfied.Perm (a.unsatisfied.map σ) ∧
      b.unsatisfied.mergeSort (fun i j => decide (i ≤ j)) =
        (a.unsatisfied.map σ).mergeSort (fun i j => decide (i ≤ j)) ∧
      b.warnings.Perm (a.warnings.map (Warning.relabel σ)) := by
  have key := solveWithPriority_perm_general reqs reqs' σ n hσ hre g cfg solve solve' hS
  rw [h] at key
  cases h2 : solveWithPriority reqs' g cfg solve' none with
  | error fb => rw [h2] at key; exact key.elim
  | ok b =>
    rw [h2] at key
    obtain ⟨h1, h3, h4, h5, h6, h7⟩ := id key
    exact ⟨b, rfl, h1, h3, h4, h5, h6, unsatisfied_sorted_eq _ _ key, h7⟩

/-- `solveWithPriority_perm_general` spelled out for a failing run: the reordered run fails, with
the same `numVars` and `numEqs`, warnings a permutation of the relabelled warnings, and the same
error — or both errors are `MissingGuess`, each naming a request of its own list. -/
theorem solveWithPriority_perm_error
    (hS : ∀ i p, (levels (enumerate reqs))[i]? = some p → RowPermSolve (solve i) (solve' i)
      (numRows ((enumerate reqs).filter (fun e => e.priority ≤ p))))
    (fa : Failure ℝ) (h : solveWithPriority reqs g cfg solve none = .error fa) :
    ∃ fb, solveWithPriority reqs' g cfg solve' none = .error fb ∧
      fb.numVars = fa.numVars ∧ fb.numEqs = fa.numEqs ∧
      fb.warnings.Perm (fa.warnings.map (Warning.relabel σ)) ∧
      (fb.error = fa.error ∨
        (NamesMissing reqs (g.map (·.1)) fa.error ∧ NamesMissing reqs' (g.map (·.1)) fb.error)) := by
  have key := solveWithPriority_perm_general reqs reqs' σ n hσ hre g cfg solve solve' hS
  rw [h] at key
  cases h2 : solveWithPriority reqs' g cfg solve' none with
  | ok b => rw [h2] at key; exact key.elim
  | error fb => rw [h2] at key; exact ⟨fb, rfl, key⟩

end Entry

/-! ### Renumbering the variables: the entry point -/

/-- **The numbering of the variables does not matter at the entry point**
(`solveWithPriority_renumber`, plain `solve`).  `π` is a bijection of `{0..n-1}`; every declared id
of every request is `< n`; the requests are renamed by `π`; the guess list `g'` has its values
reordered by `π` and its labels renumbered consistently; at every level call the LU oracles satisfy
the column-permutation hypothesis.  Then both runs fail or both succeed.  On success: the same
unsatisfied list, iteration count, solved priority and warnings; the final values reordered by `π`
(`b.finalValues[π i] = a.finalValues[i]`).  On failure: the same `numVars`, `numEqs`, warnings, and
the same error except that the variable named by a `MissingGuess` is mapped through `π`. -/
theorem solveWithPriority_renumber (π : Nat → Nat) (n : Nat) (hπ : PermOn n π)
    (reqs : List (Constraint ℝ × Nat)) (hd : ∀ r ∈ reqs, ∀ i ∈ r.1.nonzeroes.all, i < n)
    (cfg : Config ℝ) (solve solve' : LinSolve ℝ)
    (hS : ∀ i, ColPermSolve (solve i) (solve' i) π n) (g g' : List (Nat × ℝ))
    (hval : Reordered π n (g.map (·.2)) (g'.map (·.2)))
    (hlab : ∀ v, v < n → (g'.map (·.1)).contains (π v) = (g.map (·.1)).contains v) :
    SolveRenumEq π n (solveWithPriority reqs g cfg solve none)
      (solveWithPriority (reqs.map (fun r => (r.1.rename π, r.2))) g' cfg solve' none) := by
  have hdecl : ∀ p, Declared ((enumerate reqs).filter (fun e => e.priority ≤ p)) n := by
    intro p e he i hi
    have := mem_enumerate reqs e (List.mem_filter.mp he).1
    exact hd _ (List.mem_of_getElem? this) i hi
  have key : ResRel (Failure.RenumEq π) (Outcome.RenumEq π n)
      (solveWithPriority reqs g cfg solve none)
      (solveWithPriority (reqs.map (fun r => (r.1.rename π, r.2))) g' cfg solve' none) := by
    apply solveWithPriority_rel _ _ (fun a b h => by rw [h.2.1]) reqs _ g g' cfg cfg solve solve'
      none none (by simp) (by rw [enumerate_rename, levels_rename])
    · intro i p _
      simp only [levelRun, Option.map_none]
      rw [enumerate_rename, filter_rename]
      have h := solveInner_renumber π n hπ _ (hdecl p) cfg (solve i) (solve' i) (hS i) g g' hval hlab
      cases h1 : solveInner ((enumerate reqs).filter (fun e => e.priority ≤ p)) g cfg (solve i)
          none with
      | ok a =>
        cases h2 : solveInner (((enumerate reqs).filter (fun e => e.priority ≤ p)).map
            (Entry.rename π)) g' cfg (solve' i) none with
        | ok b => rw [h1, h2] at h; exact h
        | error fb => rw [h1, h2] at h; exact h.elim
      | error fa =>
        cases h2 : solveInner (((enumerate reqs).filter (fun e => e.priority ≤ p)).map
            (Entry.rename π)) g' cfg (solve' i) none with
        | ok b => rw [h1, h2] at h; exact h.elim
        | error fb => rw [h1, h2] at h; exact h
    · intro prio
      exact ⟨hval, rfl, rfl, rfl, rfl, rfl⟩
  cases h1 : solveWithPriority reqs g cfg solve none with
  | ok a =>
    cases h2 : solveWithPriority (reqs.map (fun r => (r.1.rename π, r.2))) g' cfg solve' none with
    | ok b => rw [h1, h2] at key; exact key
    | error fb => rw [h1, h2] at key; exact key.elim
  | error fa =>
    cases h2 : solveWithPriority (reqs.map (fun r => (r.1.rename π, r.2))) g' cfg solve' none with
    | ok b => rw [h1, h2] at key; exact key.elim
    | error fb => rw [h1, h2] at key; exact key

/-! ### Non-vacuity -/

/-- Non-vacuity of `solveWithPriority_perm`: a two-level request list (variable 0 pinned at priority
0, variables 0 and 1 equal at priority 1) passed in both orders; the level calls use exact solvers
of the right sizes (1 row, then 2 rows). -/
example : ∃ solve : LinSolve ℝ,
    ResRel (Failure.EntryPermEq swap01) (Outcome.EntryPermEq swap01)
      (solveWithPriority [((.fixed 0 5 : Constraint ℝ), 0), (.scalarEqual 0 1, 1)] [(0, 0), (1, 0)]
        ⟨30, 1e-5, 1e-5⟩ solve none)
      (solveWithPriority [((.scalarEqual 0 1 : Constraint ℝ), 1), (.fixed 0 5, 0)] [(0, 0), (1, 0)]
        ⟨30, 1e-5, 1e-5⟩ solve none) := by
  obtain ⟨s1, hs1, _⟩ := exists_rowPermSolve 1 2
  obtain ⟨s2, hs2, _⟩ := exists_rowPermSolve 2 2
  have h2 : ∀ i, i < 2 → i = 0 ∨ i = 1 := by omega
  refine ⟨fun i => if i = 0 then s1 else s2,
    solveWithPriority_perm _ _ swap01 2 permOn_swap01 ⟨rfl, rfl, ?_⟩ _ _ _ _ ?_ ?_⟩
  · intro i hi
    rcases h2 i hi with rfl | rfl <;> rfl
  · intro i p hp
    have hl : levels (enumerate [((.fixed 0 5 : Constraint ℝ), 0), (.scalarEqual 0 1, 1)]) = [0, 1] :=
      rfl
    rw [hl] at hp
    match i, hp with
    | 0, hp =>
      obtain rfl : 0 = p := by simpa using hp
      exact hs1
    | 1, hp =>
      obtain rfl : 1 = p := by simpa using hp
      exact hs2
    | i + 2, hp => simp at hp
  · intro p hp
    have hl : levels (enumerate [((.fixed 0 5 : Constraint ℝ), 0), (.scalarEqual 0 1, 1)]) = [0, 1] :=
      rfl
    rw [hl] at hp
    simp only [List.mem_cons, List.mem_nil_iff, or_false] at hp
    rcases hp with rfl | rfl <;>
      simp [enumerate, modelNew, validateVariables, firstMissing, Constraint.nonzeroes, pattern,
        patternFrom, takeRows, Constraint.residualDim, List.zipIdx]

/-- Non-vacuity of `solveWithPriority_renumber`: the same two-level list with the two variables
exchanged and the guesses `1, 2` reordered to `2, 1`. -/
example : ∃ solve : LinSolve ℝ,
    SolveRenumEq swap01 2
      (solveWithPriority [((.fixed 0 5 : Constraint ℝ), 0), (.scalarEqual 0 1, 1)] [(0, 1), (1, 2)]
        ⟨30, 1e-5, 1e-5⟩ solve none)
      (solveWithPriority ([((.fixed 0 5 : Constraint ℝ), 0), (.scalarEqual 0 1, 1)].map
        (fun r => (r.1.rename swap01, r.2))) [(0, 2), (1, 1)] ⟨30, 1e-5, 1e-5⟩ solve none) := by
  have h2 : ∀ i, i < 2 → i = 0 ∨ i = 1 := by omega
  obtain ⟨s, hs, _⟩ := exists_colPermSolve 2 2 swap01 permOn_swap01
  refine ⟨fun _ => s, solveWithPriority_renumber swap01 2 permOn_swap01 _ ?_ _ _ _ (fun _ => hs)
    _ _ ⟨rfl, rfl, ?_⟩ ?_⟩
  · intro r hr i hi
    simp only [List.mem_cons, List.mem_nil_iff, or_false] at hr
    rcases hr with rfl | rfl <;> simp [Constraint.nonzeroes, Rows.all] at hi <;> omega
  · intro i hi
    rcases h2 i hi with rfl | rfl <;> rfl
  · intro v hv
    rcases h2 v hv with rfl | rfl <;> decide

/-- The oracle hypothesis of `solveInner_relabel` cannot be dropped: with an LU oracle that answers
`MissingGuess 0 0`, both the original and the relabelled call pass that error on unchanged, so the
relabelled call is *not* the original result with the named request mapped through `f = (· + 1)`. -/
example : solveInner ([(⟨.fixed 0 5, 0, 0⟩ : Entry ℝ)].map (Entry.relabel (· + 1))) [(0, 0)]
      ⟨30, 1e-5, 1e-5⟩ (fun _ _ _ => .error (.missingGuess 0 0)) none ≠
    relabelResult (· + 1) (solveInner [(⟨.fixed 0 5, 0, 0⟩ : Entry ℝ)] [(0, 0)]
      ⟨30, 1e-5, 1e-5⟩ (fun _ _ _ => .error (.missingGuess 0 0)) none) := by
  have hm : modelNew [(⟨.fixed 0 5, 0, 0⟩ : Entry ℝ)] ([((0 : Nat), (0 : ℝ))].map (·.1)) = .ok () := by
    simp [modelNew, validateVariables, firstMissing, Constraint.nonzeroes, pattern, patternFrom,
      takeRows, Constraint.residualDim, List.zipIdx]
  have hs : newtonStep [(⟨.fixed 0 5, 0, 0⟩ : Entry ℝ)] ⟨30, 1e-5, 1e-5⟩
      (fun _ _ _ => .error (.missingGuess 0 0)) 0 [0] [] = .fail (.missingGuess 0 0) [] := by
    simp [newtonStep, residualAll, jacobianAll, jacobianFrom, pattern, patternFrom,
      Constraint.residual, Constraint.jacobianRows, Constraint.residualV, Constraint.jacobianV,
      Constraint.residualReads, Constraint.jacobianReads, lookup, takeRows, Constraint.residualDim,
      Res.mk1, maxAbs?, Constraint.nonzeroes]
    norm_num
  have hn : newton [(⟨.fixed 0 5, 0, 0⟩ : Entry ℝ)] ⟨30, 1e-5, 1e-5⟩
      (fun _ _ _ => .error (.missingGuess 0 0)) ([((0 : Nat), (0 : ℝ))].map (·.2)) =
        .error (.missingGuess 0 0, []) := by
    show newtonLoop _ _ _ (29 + 1) 0 [0] [] = _
    rw [newtonLoop, hs]
  have h0 : solveInner [(⟨.fixed 0 5, 0, 0⟩ : Entry ℝ)] [(0, 0)] ⟨30, 1e-5, 1e-5⟩
      (fun _ _ _ => .error (.missingGuess 0 0)) none =
      .error ⟨.missingGuess 0 0, lint [(⟨.fixed 0 5, 0, 0⟩ : Entry ℝ)] ++ [], 1, numRows [(⟨.fixed 0 5, 0, 0⟩ : Entry ℝ)]⟩ := by
    simp only [solveInner, hm, hn]
    rfl
  rw [solveInner_relabel_valid _ _ _ _ _ _ hm, h0]
  simp [relabelResult, relabelResultW, Failure.relabel, Failure.relabelW, SolveError.relabelId]

end Ezpz
