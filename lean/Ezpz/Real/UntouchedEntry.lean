/-
C04.1 over ℝ, end to end: a variable that no request mentions is returned exactly at its guess by
every successful `solveWithPriority`, when each level's linear solver is exact (solves the damped
normal equations `(JᵀJ + lam·I) d = -Jᵀ r` of the assembled contributions) with non-zero damping.

* `Ezpz/Proofs/Untouched2.lean` reduces the property, for every scalar type, to `ZeroStepOn`:
  on Jacobians without contributions in column `j` the solver's answer is neutral in slot `j`.
* Here `ZeroStepOn solve j 0` is discharged for exact solvers over ℝ: no contribution in column `j`
  ⇒ column `j` of the assembled matrix is zero (`matOf_eq_zero`) ⇒ the step's component `j` is zero
  (`GN.untouched_var_step_zero`, needs `lam ≠ 0`); and `a + 0 = a`.

`ExactSolve solve R n lam` (from `Ezpz/Real/Union.lean`) fixes the row count `R`; at different
priority levels the number of residual rows differs, so the end-to-end theorems take a row count
per level (`Rs i`).  The weaker `ExactSolveSome` lets the row count depend on the data handed to the
solver (e.g. `R = r.length`); both are covered.
-/
import Ezpz.Proofs.Untouched2
import Ezpz.Properties.C07
import Ezpz.Real.Union
namespace Ezpz
open Transc Matrix

/-- A solver is exact for `n` variables with damping `lam k` in round `k`, for *some* row count
(possibly depending on the data): whatever it returns has `n` components and solves the damped
normal equations of the matrix assembled from the contributions, cut to some number of rows `R`. -/
def ExactSolveSome (solve : Nat → List (Triplet ℝ) → List ℝ → Except SolveError (List ℝ)) (n : Nat)
    (lam : Nat → ℝ) : Prop :=
  ∀ k jac r d, solve k jac r = .ok d →
    d.length = n ∧ ∃ R, GN.IsStep (matOf R n jac) (vecOf R r) (lam k) (vecOf n d)

/-- An exact solver for a fixed row count is in particular exact for some row count. -/
theorem ExactSolve.some {solve : Nat → List (Triplet ℝ) → List ℝ → Except SolveError (List ℝ)}
    {R n : Nat} {lam : Nat → ℝ} (h : ExactSolve solve R n lam) : ExactSolveSome solve n lam :=
  fun k jac r d hd => ⟨(h k jac r d hd).1, R, (h k jac r d hd).2⟩

/-- A solver that is exact for the row count `r.length` of the right-hand side it is given is exact
for some row count. -/
theorem exactSolveSome_of_length
    (solve : Nat → List (Triplet ℝ) → List ℝ → Except SolveError (List ℝ)) (n : Nat) (lam : Nat → ℝ)
    (h : ∀ k jac r d, solve k jac r = .ok d →
      d.length = n ∧ GN.IsStep (matOf r.length n jac) (vecOf r.length r) (lam k) (vecOf n d)) :
    ExactSolveSome solve n lam :=
  fun k jac r d hd => ⟨(h k jac r d hd).1, r.length, (h k jac r d hd).2⟩

/-- A contribution list with no contribution in column `j` assembles to a matrix whose column `j`
is zero. -/
theorem matOf_col_zero (R n : Nat) (ts : List (Triplet ℝ)) (j : Fin n)
    (h : ∀ t ∈ ts, t.2.1 ≠ j.val) (i : Fin R) : matOf R n ts i j = 0 :=
  matOf_eq_zero R n ts i j (fun t ht hc => h t ht hc.2)

/-- **An exact solver with non-zero damping does not move a variable whose column is empty**: for
`j < n`, `ZeroStepOn solve j 0` (zero column ⇒ zero step component; `a + 0 = a`). -/
theorem zeroStepOn_of_exactSome
    (solve : Nat → List (Triplet ℝ) → List ℝ → Except SolveError (List ℝ)) (n : Nat) (lam : Nat → ℝ)
    (hlam : ∀ k, lam k ≠ 0) (hE : ExactSolveSome solve n lam) (j : Nat) (hj : j < n) :
    ZeroStepOn solve j 0 := by
  refine ⟨?_, fun a => add_zero a⟩
  intro k jac r d hcol hd
  obtain ⟨hlen, R, hstep⟩ := hE k jac r d hd
  have h0 := GN.untouched_var_step_zero _ _ _ _ hstep (hlam k) ⟨j, hj⟩
    (matOf_col_zero R n jac ⟨j, hj⟩ hcol)
  have hjd : j < d.length := by omega
  simp only [vecOf, List.getD_eq_getElem?_getD, List.getElem?_eq_getElem hjd,
    Option.getD_some] at h0
  rw [List.getElem?_eq_getElem hjd, h0]

/-- The same for `ExactSolve` of `Ezpz/Real/Union.lean` (fixed row count `R`). -/
theorem zeroStepOn_of_exact
    (solve : Nat → List (Triplet ℝ) → List ℝ → Except SolveError (List ℝ)) (R n : Nat)
    (lam : Nat → ℝ) (hlam : ∀ k, lam k ≠ 0) (hE : ExactSolve solve R n lam) (j : Nat) (hj : j < n) :
    ZeroStepOn solve j 0 :=
  zeroStepOn_of_exactSome solve n lam hlam hE.some j hj

/-- The hypotheses of `zeroStepOn_of_exact` are satisfiable for every size, with the model's damping
constant `1e-9` (`exists_exactSolve`): exact total solvers exist, and they satisfy `ZeroStepOn` —
whereas no exact total solver satisfies the old `ZeroStepAt`. -/
theorem exists_zeroStepOn (R n j : Nat) (hj : j < n) :
    ∃ solve : Nat → List (Triplet ℝ) → List ℝ → Except SolveError (List ℝ),
      ExactSolve solve R n (fun _ => Gen.REGULARIZATION_LAMBDA) ∧
      (∀ k jac r, ∃ d, solve k jac r = .ok d) ∧ ZeroStepOn solve j 0 := by
  have hpos : (0 : ℝ) < Gen.REGULARIZATION_LAMBDA := by
    unfold Gen.REGULARIZATION_LAMBDA; norm_num
  obtain ⟨s, hs, ht⟩ := exists_exactSolve R n (fun _ => Gen.REGULARIZATION_LAMBDA) (fun _ => hpos)
  exact ⟨s, hs, ht, zeroStepOn_of_exact s R n _ (fun _ => ne_of_gt hpos) hs j hj⟩

/-- C04.1 over ℝ, general form — **a variable no request mentions is returned at its guess**: if no
request declares variable `j`, and at every priority level `i` the linear solver is exact for
`g.length` variables (for some row count) with damping `lam i k ≠ 0`, then every successful
`solveWithPriority` returns in slot `j` exactly what the guess list has in slot `j` (for every `j`,
in range or not). -/
theorem unmentioned_variable_returned_at_guess_general (reqs : List (Constraint ℝ × Nat))
    (g : List (Nat × ℝ)) (cfg : Config ℝ) (solve : LinSolve ℝ) (svd : Option (Svd ℝ)) (j : Nat)
    (hu : UnmentionedReq reqs j) (lam : Nat → Nat → ℝ) (hlam : ∀ i k, lam i k ≠ 0)
    (hE : ∀ i, ExactSolveSome (solve i) g.length (lam i)) (o : Outcome ℝ)
    (h : solveWithPriority reqs g cfg solve svd = .ok o) :
    o.finalValues[j]? = (g.map (·.2))[j]? := by
  by_cases hj : j < g.length
  · have hj' : j < (g.map (·.2)).length := by simpa using hj
    have hg : (g.map (·.2))[j]? = some (g.map (·.2))[j] := List.getElem?_eq_getElem hj'
    rw [hg]
    exact untouched_var_fixed' reqs g cfg solve svd j 0 _ hu
      (fun i => zeroStepOn_of_exactSome (solve i) g.length (lam i) (hlam i) (hE i) j hj) hg o h
  · have hlen := C07.final_length reqs g cfg solve svd o h
    rw [List.getElem?_eq_none (by omega), List.getElem?_eq_none (by simp; omega)]

/-- C04.1 over ℝ, end to end — **a variable no request mentions is returned at its guess**: if no
request declares variable `j`, and at every priority level `i` the linear solver is `ExactSolve`
(for that level's row count `Rs i`, `g.length` variables, damping `lam i k ≠ 0`), then every
successful `solveWithPriority` returns `finalValues[j]? = guess j`. -/
theorem unmentioned_variable_returned_at_guess (reqs : List (Constraint ℝ × Nat))
    (g : List (Nat × ℝ)) (cfg : Config ℝ) (solve : LinSolve ℝ) (svd : Option (Svd ℝ)) (j : Nat)
    (hu : UnmentionedReq reqs j) (Rs : Nat → Nat) (lam : Nat → Nat → ℝ) (hlam : ∀ i k, lam i k ≠ 0)
    (hE : ∀ i, ExactSolve (solve i) (Rs i) g.length (lam i)) (o : Outcome ℝ)
    (h : solveWithPriority reqs g cfg solve svd = .ok o) :
    o.finalValues[j]? = (g.map (·.2))[j]? :=
  unmentioned_variable_returned_at_guess_general reqs g cfg solve svd j hu lam hlam
    (fun i => (hE i).some) o h

/-- The same with the model's damping constant `REGULARIZATION_LAMBDA = 1e-9` in every round of
every level. -/
theorem unmentioned_variable_returned_at_guess_model_damping (reqs : List (Constraint ℝ × Nat))
    (g : List (Nat × ℝ)) (cfg : Config ℝ) (solve : LinSolve ℝ) (svd : Option (Svd ℝ)) (j : Nat)
    (hu : UnmentionedReq reqs j) (Rs : Nat → Nat)
    (hE : ∀ i, ExactSolve (solve i) (Rs i) g.length (fun _ => Gen.REGULARIZATION_LAMBDA))
    (o : Outcome ℝ) (h : solveWithPriority reqs g cfg solve svd = .ok o) :
    o.finalValues[j]? = (g.map (·.2))[j]? :=
  unmentioned_variable_returned_at_guess reqs g cfg solve svd j hu Rs
    (fun _ _ => Gen.REGULARIZATION_LAMBDA)
    (fun _ _ => by unfold Gen.REGULARIZATION_LAMBDA; norm_num) hE o h

/-! ### Non-vacuity -/

/-- The request list `[Fixed 0 1]` over two variables does not mention variable 1. -/
example : UnmentionedReq [((.fixed 0 1 : Constraint ℝ), 0)] 1 := by
  simp [UnmentionedReq, Constraint.nonzeroes, Rows.all]

/-- All hypotheses of `unmentioned_variable_returned_at_guess_model_damping` are met by a concrete
instance: requests `[Fixed 0 1]`, two guesses `[(0, 5), (1, 7)]`, `j = 1`, and at every level an
exact total solver for `1 × 2` systems with the model's damping.  The theorem then says: whatever
successful outcome the solve has, its slot 1 holds the guess `7`. -/
example : ∃ solve : LinSolve ℝ,
    (∀ i, ExactSolve (solve i) 1 2 (fun _ => Gen.REGULARIZATION_LAMBDA)) ∧
    (∀ i k jac r, ∃ d, solve i k jac r = .ok d) ∧
    ∀ cfg svd o, solveWithPriority [((.fixed 0 1 : Constraint ℝ), 0)] [(0, 5), (1, 7)] cfg solve
      svd = .ok o → o.finalValues[1]? = some 7 := by
  obtain ⟨s, hs, ht, _⟩ := exists_zeroStepOn 1 2 1 (by norm_num)
  refine ⟨fun _ => s, fun _ => hs, fun _ => ht, ?_⟩
  intro cfg svd o h
  have := unmentioned_variable_returned_at_guess_model_damping
    [((.fixed 0 1 : Constraint ℝ), 0)] [(0, 5), (1, 7)] cfg (fun _ => s) svd 1
    (by simp [UnmentionedReq, Constraint.nonzeroes, Rows.all]) (fun _ => 1) (fun _ => hs) o h
  simpa using this

/-- The conclusion is not vacuous either: with the guess `[(0, 1), (1, 7)]` (variable 0 already at
its target) the solve of `[Fixed 0 1]` succeeds for every linear solver. -/
theorem fixed_example_succeeds (solve : LinSolve ℝ) :
    ∃ o, solveWithPriority [((.fixed 0 1 : Constraint ℝ), 0)] [(0, 1), (1, 7)] ⟨1, 1e-5, 1e-5⟩
      solve none = .ok o := by
  have h0 : (0 : ℝ) ≤ 1e-5 := by norm_num
  simp [solveWithPriority, enumerate, levels, insertLevel, priorityLoop, solveInner, modelNew,
    validateVariables, firstMissing, newton, newtonLoop, newtonStep, residualAll, jacobianAll,
    jacobianFrom, pattern, patternFrom, Constraint.residual, Constraint.jacobianRows,
    Constraint.residualV, Constraint.jacobianV, Constraint.residualReads, Constraint.jacobianReads,
    lookup, takeRows, Constraint.residualDim, Res.mk1, maxAbs?, Constraint.nonzeroes,
    unsatisfiedSweep, isSatisfied, runAnalysis, EPS_real, h0]

/-- A successful solve to which the end-to-end theorem applies: exact solver at every level,
request `[Fixed 0 1]`, `j = 1` unmentioned; the outcome exists and its slot 1 is the guess `7`. -/
example : ∃ (solve : LinSolve ℝ) (o : Outcome ℝ),
    (∀ i, ExactSolve (solve i) 1 2 (fun _ => Gen.REGULARIZATION_LAMBDA)) ∧
    solveWithPriority [((.fixed 0 1 : Constraint ℝ), 0)] [(0, 1), (1, 7)] ⟨1, 1e-5, 1e-5⟩ solve
      none = .ok o ∧ o.finalValues[1]? = some 7 := by
  obtain ⟨s, hs, _, _⟩ := exists_zeroStepOn 1 2 1 (by norm_num)
  obtain ⟨o, ho⟩ := fixed_example_succeeds (fun _ => s)
  refine ⟨fun _ => s, o, fun _ => hs, ho, ?_⟩
  have := unmentioned_variable_returned_at_guess_model_damping
    [((.fixed 0 1 : Constraint ℝ), 0)] [(0, 1), (1, 7)] _ (fun _ => s) none 1
    (by simp [UnmentionedReq, Constraint.nonzeroes, Rows.all]) (fun _ => 1) (fun _ => hs) o ho
  simpa using this

end Ezpz
