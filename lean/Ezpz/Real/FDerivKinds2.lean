/-
C02 — Fréchet bridge, part 2: more constraint kinds are `C¹` (`KindC1`) where their guards are
strictly inactive.

* `hasFDerivAt_of_derivRow`: differentiability of a residual slot + the per-kind directional-derivative
  theorems (`DerivRow`, Real/Deriv*.lean) ⇒ the model's Jacobian row is the Fréchet derivative
  (the derivative is determined by its values along lines; no algebra is redone here).
* `eventually_guard_off`, `differentiableAt_guard`, `continuousAt_guard`: a guard that is strictly
  inactive at `xs` is inactive nearby.
* asked for: `kindC1_pointLineDistance` (`RegularPLD`), `kindC1_verticalPointLineDistance`
  (`RegularVPLD`), `kindC1_horizontalPointLineDistance` (`RegularHPLD`),
  `kindC1_lineTangentToCircle` (`StrictLTC`), `kindC1_symmetric` (`StrictSymmetric`);
* not asked for, same method: `kindC1_arcLength` (`RegularArcLength`),
  `kindC1_circleTangentToCircle` (`StrictCTTC`), `kindC1_linesAtAngle_other`
  (`RegularLinesAtAngle`), `kindC1_arcAngle` (`RegularArcAngle`).
* `RegularAt2`, `kindC1_of_regular2`: all of these together with `RegularAt`; only
  `PointArcCoincident` is not covered.
-/
import Ezpz.Real.FDerivKinds
import Ezpz.Real.DerivA
import Ezpz.Real.DerivB
import Ezpz.Real.DerivC
import Ezpz.Real.DerivD
import Ezpz.Real.DerivE
namespace Ezpz
open Transc Matrix Topology Filter

/-! ### 1. From directional derivatives to the Fréchet derivative -/

/-- The assignment of the point `xs + t • u` is the line through the assignment of `xs` in the
direction of the assignment of `u`. -/
theorem asg_line (n : Nat) (xs u : EuclideanSpace ℝ (Fin n)) (t : ℝ) :
    asg n (xs + t • u) = lineThrough (asg n xs) (asg n u) t := by
  funext i
  simp [asg, lineThrough]

/-- **Bridge from `DerivRow` to `HasFDerivAt`**: if slot `sel` of the residual of `c` is
differentiable at `xs` (as a function of the point of `ℝⁿ`) and along every line through `xs` its
derivative is the model's Jacobian row applied to the direction (`DerivRow`, the per-kind theorems
of `Real/Deriv*.lean`), then the model's Jacobian row is its Fréchet derivative at `xs`. -/
theorem hasFDerivAt_of_derivRow (c : Constraint ℝ) (n : Nat) (xs : EuclideanSpace ℝ (Fin n))
    (sel : Res ℝ → ℝ) (row : Jac ℝ → List (JVar ℝ))
    (hdiff : DifferentiableAt ℝ (fun x => sel (c.residualV (asg n x))) xs)
    (hrow : ∀ u : Nat → ℝ, DerivRow c (asg n xs) u sel row) :
    HasFDerivAt (fun x => sel (c.residualV (asg n x))) (rowCLM n (row (c.jacobianV (asg n xs)))) xs := by
  refine hdiff.hasFDerivAt.congr_fderiv ?_
  ext u
  rw [rowCLM_apply]
  have hline : HasDerivAt (fun t : ℝ => xs + t • u) u 0 := by
    simpa using ((hasDerivAt_id (0 : ℝ)).smul_const u).const_add xs
  have hd' : HasFDerivAt (fun x => sel (c.residualV (asg n x)))
      (fderiv ℝ (fun x => sel (c.residualV (asg n x))) xs) ((fun t : ℝ => xs + t • u) 0) := by
    simp only [zero_smul, add_zero]; exact hdiff.hasFDerivAt
  have h1 := hd'.comp_hasDerivAt (0 : ℝ) hline
  have h2 := hrow (asg n u)
  unfold DerivRow at h2
  have h3 : (fun t : ℝ => sel (c.residualV (lineThrough (asg n xs) (asg n u) t))) =
      ((fun x => sel (c.residualV (asg n x))) ∘ fun t : ℝ => xs + t • u) := by
    funext t
    simp only [Function.comp, asg_line]
  rw [h3] at h2
  exact h1.unique h2

/-! ### 2. Guards that are strictly inactive stay inactive nearby -/

/-- A guard `g x < c` that is strictly false at `xs` (`c < g xs`), with `g` continuous at `xs`, is
false in a neighbourhood of `xs`. -/
theorem eventually_guard_off {E : Type} [TopologicalSpace E] {g : E → ℝ} {c : ℝ} {xs : E}
    (hg : ContinuousAt g xs) (h : c < g xs) : ∀ᶠ x in 𝓝 xs, ¬ g x < c := by
  filter_upwards [hg.eventually (lt_mem_nhds h)] with x hx
  exact not_lt.mpr hx.le

/-- A function that is `A` where a guard fires and `F x` elsewhere is differentiable at a point near
which the guard is off and `F` is differentiable. -/
theorem differentiableAt_guard {n : Nat} (P : EuclideanSpace ℝ (Fin n) → Prop) [DecidablePred P]
    (A : ℝ) (F : EuclideanSpace ℝ (Fin n) → ℝ) (xs : EuclideanSpace ℝ (Fin n))
    (hev : ∀ᶠ x in 𝓝 xs, ¬ P x) (hF : DifferentiableAt ℝ F xs) :
    DifferentiableAt ℝ (fun x => if P x then A else F x) xs := by
  refine hF.congr_of_eventuallyEq ?_
  filter_upwards [hev] with x hx
  rw [if_neg hx]

/-- A function that is `A` where a guard fires and `F x` elsewhere is continuous at a point near
which the guard is off and `F` is continuous. -/
theorem continuousAt_guard {n : Nat} (P : EuclideanSpace ℝ (Fin n) → Prop) [DecidablePred P]
    (A : ℝ) (F : EuclideanSpace ℝ (Fin n) → ℝ) (xs : EuclideanSpace ℝ (Fin n))
    (hev : ∀ᶠ x in 𝓝 xs, ¬ P x) (hF : ContinuousAt F xs) :
    ContinuousAt (fun x => if P x then A else F x) xs := by
  refine hF.congr ?_
  filter_upwards [hev] with x hx
  rw [if_neg hx]

/-- A slot that is constantly `0.0`, with an empty Jacobian row, has that row as Fréchet derivative. -/
theorem hasFDerivAt_zero_slot (n : Nat) (xs : EuclideanSpace ℝ (Fin n))
    (f : EuclideanSpace ℝ (Fin n) → ℝ) (row : List (JVar ℝ)) (hf : ∀ x, f x = 0.0)
    (hrow : row = []) : HasFDerivAt f (rowCLM n row) xs := by
  have : f = fun _ => (0.0 : ℝ) := funext hf
  subst hrow
  rw [this]
  simpa [rowCLM] using hasFDerivAt_const (0.0 : ℝ) xs

/-- A row that is empty at every point, applied to a direction, is continuous. -/
theorem continuousAt_empty_row {n : Nat} (xs : EuclideanSpace ℝ (Fin n))
    (row : EuclideanSpace ℝ (Fin n) → List (JVar ℝ)) (U : Nat → ℝ) (h : ∀ x, row x = []) :
    ContinuousAt (fun x => rowApply (row x) U) xs := by
  have : (fun x => rowApply (row x) U) = fun _ => 0 := by
    funext x; rw [h x]; simp [rowApply]
  rw [this]; exact continuousAt_const

/-! ### 3. `PointLineDistance` -/

/-- **`PointLineDistance(p, l, d)` is `C¹` at every point where the end points of `l` are strictly
farther apart than `EPSILON`** (`RegularPLD`: the residual's guard `hypot A B < EPSILON` is strictly
inactive; the Jacobian kernel has no guard of its own, it divides by the same length and by its
cube `powf _ 1.5`). All id assignments. -/
theorem kindC1_pointLineDistance (p : Pt) (l : Seg) (d : ℝ) (n : Nat)
    (xs : EuclideanSpace ℝ (Fin n)) (h : RegularPLD l (asg n xs)) :
    KindC1 (.pointLineDistance p l d) n xs := by
  have hpos : 0 < Real.sqrt ((asg n xs l.p0.y - asg n xs l.p1.y) * (asg n xs l.p0.y - asg n xs l.p1.y)
      + (asg n xs l.p1.x - asg n xs l.p0.x) * (asg n xs l.p1.x - asg n xs l.p0.x)) :=
    lt_trans EPS_pos h
  have hS := Real.sqrt_pos.mp hpos
  have hev : ∀ᶠ x in 𝓝 xs, ¬ Real.sqrt ((asg n x l.p0.y - asg n x l.p1.y) * (asg n x l.p0.y - asg n x l.p1.y)
      + (asg n x l.p1.x - asg n x l.p0.x) * (asg n x l.p1.x - asg n x l.p0.x)) < EPS := by
    refine eventually_guard_off ?_ h
    simp only [asg]; fun_prop
  constructor
  · refine hasFDerivAt_of_derivRow _ n xs (·.r0) (·.r0) ?_
      (fun u => deriv_pointLineDistance (asg n xs) u p l d h)
    simp only [Constraint.residualV, hypot_real, apply_ite Res.r0, Res.degen, Res.mk1]
    refine differentiableAt_guard _ _ _ xs hev ?_
    simp only [asg] at hpos hS ⊢
    fun_prop (disch := first | exact hpos.ne' | exact hS.ne')
  · refine hasFDerivAt_zero_slot n xs _ _ (fun x => ?_) ?_
    · simp only [Constraint.residualV]; split <;> rfl
    · simp only [Constraint.jacobianV]
  · refine hasFDerivAt_zero_slot n xs _ _ (fun x => ?_) ?_
    · simp only [Constraint.residualV]; split <;> rfl
    · simp only [Constraint.jacobianV]
  · intro U
    simp only [Constraint.jacobianV, hypot_real, powf_real, sqr, rowApply, List.map_cons,
      List.map_nil, List.sum_cons, List.sum_nil, asg] 
    simp only [asg] at hS
    have hS2 : 0 < (-(coord n l.p0.x) xs + (coord n l.p1.x) xs) * (-(coord n l.p0.x) xs + (coord n l.p1.x) xs) +
        ((coord n l.p0.y) xs - (coord n l.p1.y) xs) * ((coord n l.p0.y) xs - (coord n l.p1.y) xs) := by
      linarith
    have hE2 := (Real.sqrt_pos.mpr hS2).ne'
    have hP2 := (Real.rpow_pos_of_pos hS2 1.5).ne'
    fun_prop (disch := first | exact hE2 | exact hP2 | exact Or.inl hS2.ne')
  · intro U
    exact continuousAt_empty_row xs _ U (fun x => by simp only [Constraint.jacobianV])
  · intro U
    exact continuousAt_empty_row xs _ U (fun x => by simp only [Constraint.jacobianV])

/-! ### 4. `VerticalPointLineDistance`, `HorizontalPointLineDistance` -/

/-- Two guards joined by `∨` that are both off nearby. -/
theorem eventually_or_off {E : Type} [TopologicalSpace E] {P Q : E → Prop} {xs : E}
    (hP : ∀ᶠ x in 𝓝 xs, ¬ P x) (hQ : ∀ᶠ x in 𝓝 xs, ¬ Q x) : ∀ᶠ x in 𝓝 xs, ¬ (P x ∨ Q x) := by
  filter_upwards [hP, hQ] with x h1 h2
  exact not_or.mpr ⟨h1, h2⟩

/-- **`VerticalPointLineDistance(p, l, d)` is `C¹` at every point where both parts of its guard are
strictly inactive** (`RegularVPLD`: `EPSILON < |dx|` and `EPSILON < dx² + dy²` for the line's
direction; the residual and the Jacobian kernel have the same guard). All id assignments. -/
theorem kindC1_verticalPointLineDistance (p : Pt) (l : Seg) (d : ℝ) (n : Nat)
    (xs : EuclideanSpace ℝ (Fin n)) (h : RegularVPLD l (asg n xs)) :
    KindC1 (.verticalPointLineDistance p l d) n xs := by
  have hev : ∀ᶠ x in 𝓝 xs, ¬ (|asg n x l.p1.x - asg n x l.p0.x| < EPS ∨
      (asg n x l.p1.x - asg n x l.p0.x) * (asg n x l.p1.x - asg n x l.p0.x) +
        (asg n x l.p1.y - asg n x l.p0.y) * (asg n x l.p1.y - asg n x l.p0.y) < EPS) := by
    refine eventually_or_off (eventually_guard_off ?_ h.1) (eventually_guard_off ?_ h.2)
    · simp only [asg]; fun_prop
    · simp only [asg]; fun_prop
  constructor
  · refine hasFDerivAt_of_derivRow _ n xs (·.r0) (·.r0) ?_
      (fun u => deriv_verticalPointLineDistance (asg n xs) u p l d h)
    simp only [Constraint.residualV, abs_real, apply_ite Res.r0, Res.degen, Res.mk1]
    refine differentiableAt_guard _ _ _ xs hev ?_
    simp only [asg]
    fun_prop
  · refine hasFDerivAt_zero_slot n xs _ _ (fun x => ?_) ?_
    · simp only [Constraint.residualV]; split <;> rfl
    · simp only [Constraint.jacobianV]; split <;> rfl
  · refine hasFDerivAt_zero_slot n xs _ _ (fun x => ?_) ?_
    · simp only [Constraint.residualV]; split <;> rfl
    · simp only [Constraint.jacobianV]; split <;> rfl
  · intro U
    simp only [Constraint.jacobianV, abs_real, apply_ite Jac.r0, apply_ite (fun r => rowApply r U)]
    simp only [rowApply, List.map_cons, List.map_nil, List.sum_cons, List.sum_nil]
    refine continuousAt_guard _ _ _ xs hev ?_
    simp only [asg]
    fun_prop
  · intro U
    exact continuousAt_empty_row xs _ U (fun x => by simp only [Constraint.jacobianV]; split <;> rfl)
  · intro U
    exact continuousAt_empty_row xs _ U (fun x => by simp only [Constraint.jacobianV]; split <;> rfl)

/-- **`HorizontalPointLineDistance(p, l, d)` is `C¹` at every point where both parts of its guard
are strictly inactive** (`RegularHPLD`: `EPSILON < |dy|` and `EPSILON < dx² + dy²` for the line's
direction; the residual and the Jacobian kernel have the same guard, and divide by `dy` and `dy²`).
All id assignments. -/
theorem kindC1_horizontalPointLineDistance (p : Pt) (l : Seg) (d : ℝ) (n : Nat)
    (xs : EuclideanSpace ℝ (Fin n)) (h : RegularHPLD l (asg n xs)) :
    KindC1 (.horizontalPointLineDistance p l d) n xs := by
  have hev : ∀ᶠ x in 𝓝 xs, ¬ (|asg n x l.p1.y - asg n x l.p0.y| < EPS ∨
      (asg n x l.p1.x - asg n x l.p0.x) * (asg n x l.p1.x - asg n x l.p0.x) +
        (asg n x l.p1.y - asg n x l.p0.y) * (asg n x l.p1.y - asg n x l.p0.y) < EPS) := by
    refine eventually_or_off (eventually_guard_off ?_ h.1) (eventually_guard_off ?_ h.2)
    · simp only [asg]; fun_prop
    · simp only [asg]; fun_prop
  have hdy : (coord n l.p1.y) xs - (coord n l.p0.y) xs ≠ 0 := by
    intro h0
    have h1 := h.1
    simp only [asg] at h1
    rw [h0, abs_zero] at h1
    exact lt_irrefl _ (lt_trans EPS_pos h1)
  have hd1 : -(coord n l.p0.y) xs + (coord n l.p1.y) xs ≠ 0 := by intro h0; apply hdy; linarith
  have hd2 : (coord n l.p0.y) xs - (coord n l.p1.y) xs ≠ 0 := by intro h0; apply hdy; linarith
  have hd3 : ((coord n l.p0.y) xs - (coord n l.p1.y) xs) * ((coord n l.p0.y) xs - (coord n l.p1.y) xs) ≠ 0 :=
    mul_ne_zero hd2 hd2
  constructor
  · refine hasFDerivAt_of_derivRow _ n xs (·.r0) (·.r0) ?_
      (fun u => deriv_horizontalPointLineDistance (asg n xs) u p l d h)
    simp only [Constraint.residualV, abs_real, apply_ite Res.r0, Res.degen, Res.mk1, recip]
    refine differentiableAt_guard _ _ _ xs hev ?_
    simp only [asg]
    fun_prop (disch := first | exact hd1 | exact hd2 | exact hd3)
  · refine hasFDerivAt_zero_slot n xs _ _ (fun x => ?_) ?_
    · simp only [Constraint.residualV]; split <;> rfl
    · simp only [Constraint.jacobianV]; split <;> rfl
  · refine hasFDerivAt_zero_slot n xs _ _ (fun x => ?_) ?_
    · simp only [Constraint.residualV]; split <;> rfl
    · simp only [Constraint.jacobianV]; split <;> rfl
  · intro U
    simp only [Constraint.jacobianV, abs_real, apply_ite Jac.r0, apply_ite (fun r => rowApply r U)]
    simp only [rowApply, List.map_cons, List.map_nil, List.sum_cons, List.sum_nil, recip, sqr]
    refine continuousAt_guard _ _ _ xs hev ?_
    simp only [asg]
    fun_prop (disch := first | exact hd1 | exact hd2 | exact hd3)
  · intro U
    exact continuousAt_empty_row xs _ U (fun x => by simp only [Constraint.jacobianV]; split <;> rfl)
  · intro U
    exact continuousAt_empty_row xs _ U (fun x => by simp only [Constraint.jacobianV]; split <;> rfl)

/-! ### 5. `LineTangentToCircle` -/

/-- The Jacobian guard of `LineTangentToCircle` (`dx² + dy² < EPSILON` for the line's direction) is
**strictly** inactive at `v`.  As `EPSILON < 1` this puts the length strictly above `EPSILON` too, so
the residual's guard (`hypot dx dy < EPSILON`) is strictly inactive as well (`strictLTC_residual`). -/
def StrictLTC (l : Seg) (v : Nat → ℝ) : Prop :=
  EPS < segSq v l.p0.x l.p1.x l.p0.y l.p1.y

/-- `StrictLTC` implies the (non-strict) regularity the directional-derivative theorem needs. -/
theorem StrictLTC.regular {l : Seg} {v : Nat → ℝ} (h : StrictLTC l v) :
    RegularLineTangentToCircle l v :=
  not_lt.mpr (le_of_lt h)

/-- Under `StrictLTC` the residual's guard `hypot (p1 − p0) < EPSILON` is strictly inactive. -/
theorem strictLTC_residual {l : Seg} {v : Nat → ℝ} (h : StrictLTC l v) :
    EPS < Real.sqrt ((v l.p1.x - v l.p0.x) * (v l.p1.x - v l.p0.x) +
      (v l.p1.y - v l.p0.y) * (v l.p1.y - v l.p0.y)) := by
  have := eps_lt_sqrt_of_not_lt h.regular
  rw [← segSq_swap] at this
  exact this

/-- **`LineTangentToCircle(l, c)` is `C¹` at every point where the Jacobian guard
(`dx² + dy² < EPSILON`) is strictly inactive** (`StrictLTC`; the residual's guard on the length is then
strictly inactive too). All id assignments. -/
theorem kindC1_lineTangentToCircle (l : Seg) (c : Circ) (n : Nat)
    (xs : EuclideanSpace ℝ (Fin n)) (h : StrictLTC l (asg n xs)) :
    KindC1 (.lineTangentToCircle l c) n xs := by
  have hres := strictLTC_residual h
  have hevR : ∀ᶠ x in 𝓝 xs, ¬ Real.sqrt ((asg n x l.p1.x - asg n x l.p0.x) * (asg n x l.p1.x - asg n x l.p0.x) +
      (asg n x l.p1.y - asg n x l.p0.y) * (asg n x l.p1.y - asg n x l.p0.y)) < EPS := by
    refine eventually_guard_off ?_ hres
    simp only [asg]; fun_prop
  have hevJ : ∀ᶠ x in 𝓝 xs, ¬ (asg n x l.p0.x - asg n x l.p1.x) * (asg n x l.p0.x - asg n x l.p1.x) +
      (asg n x l.p0.y - asg n x l.p1.y) * (asg n x l.p0.y - asg n x l.p1.y) < EPS := by
    refine eventually_guard_off ?_ h
    simp only [asg]; fun_prop
  have hRpos := lt_trans EPS_pos hres
  have hRS := Real.sqrt_pos.mp hRpos
  have hJS : 0 < (asg n xs l.p0.x - asg n xs l.p1.x) * (asg n xs l.p0.x - asg n xs l.p1.x) +
      (asg n xs l.p0.y - asg n xs l.p1.y) * (asg n xs l.p0.y - asg n xs l.p1.y) := lt_trans EPS_pos h
  have hJpos := Real.sqrt_pos.mpr hJS
  have hJ3 := (mul_pos (mul_pos hJpos hJpos) hJpos).ne'
  simp only [asg] at hRpos hRS hJS hJpos hJ3
  constructor
  · refine hasFDerivAt_of_derivRow _ n xs (·.r0) (·.r0) ?_
      (fun u => deriv_lineTangentToCircle (asg n xs) u l c h.regular)
    simp only [Constraint.residualV, hypot_real, apply_ite Res.r0, Res.degen, Res.mk1]
    refine differentiableAt_guard _ _ _ xs hevR ?_
    simp only [asg]
    fun_prop (disch := first | exact hRpos.ne' | exact hRS.ne')
  · refine hasFDerivAt_zero_slot n xs _ _ (fun x => ?_) ?_
    · simp only [Constraint.residualV]; split <;> rfl
    · simp only [Constraint.jacobianV]; split <;> rfl
  · refine hasFDerivAt_zero_slot n xs _ _ (fun x => ?_) ?_
    · simp only [Constraint.residualV]; split <;> rfl
    · simp only [Constraint.jacobianV]; split <;> rfl
  · intro U
    simp only [Constraint.jacobianV, hypot_real, apply_ite Jac.r0, apply_ite (fun r => rowApply r U)]
    simp only [rowApply, List.map_cons, List.map_nil, List.sum_cons, List.sum_nil, sqr, cube]
    refine continuousAt_guard _ _ _ xs hevJ ?_
    simp only [asg]
    fun_prop (disch := first | exact hJpos.ne' | exact hJ3)
  · intro U
    exact continuousAt_empty_row xs _ U (fun x => by simp only [Constraint.jacobianV]; split <;> rfl)
  · intro U
    exact continuousAt_empty_row xs _ U (fun x => by simp only [Constraint.jacobianV]; split <;> rfl)

/-! ### 6. `Symmetric` -/

/-- The Jacobian guard of `Symmetric` (`(|p − q|²)² < EPSILON` for the mirror line's end points) is
**strictly** inactive at `v`.  (The residual kernel has no guard; it divides by `|q − p|²`, which is
non-zero under this hypothesis.) -/
def StrictSymmetric (l : Seg) (v : Nat → ℝ) : Prop :=
  EPS < ((v l.p0.x - v l.p1.x) * (v l.p0.x - v l.p1.x) + (v l.p0.y - v l.p1.y) * (v l.p0.y - v l.p1.y))
      * ((v l.p0.x - v l.p1.x) * (v l.p0.x - v l.p1.x) + (v l.p0.y - v l.p1.y) * (v l.p0.y - v l.p1.y))

/-- `StrictSymmetric` implies the (non-strict) regularity the directional-derivative theorems need. -/
theorem StrictSymmetric.regular {l : Seg} {v : Nat → ℝ} (h : StrictSymmetric l v) :
    RegularSymmetric l v :=
  le_of_lt h

/-- **`Symmetric(l, a, b)` is `C¹` at every point where the Jacobian guard (`(|p − q|²)² < EPSILON`)
is strictly inactive** (`StrictSymmetric`); both rows. All id assignments. -/
theorem kindC1_symmetric (l : Seg) (a b : Pt) (n : Nat)
    (xs : EuclideanSpace ℝ (Fin n)) (h : StrictSymmetric l (asg n xs)) :
    KindC1 (.symmetric l a b) n xs := by
  have hev : ∀ᶠ x in 𝓝 xs, ¬
      ((asg n x l.p0.x - asg n x l.p1.x) * (asg n x l.p0.x - asg n x l.p1.x) +
        (asg n x l.p0.y - asg n x l.p1.y) * (asg n x l.p0.y - asg n x l.p1.y)) *
      ((asg n x l.p0.x - asg n x l.p1.x) * (asg n x l.p0.x - asg n x l.p1.x) +
        (asg n x l.p0.y - asg n x l.p1.y) * (asg n x l.p0.y - asg n x l.p1.y)) < EPS := by
    refine eventually_guard_off ?_ h
    simp only [asg]; fun_prop
  have hr := symmetric_ne h.regular
  have hr' : (asg n xs l.p1.x - asg n xs l.p0.x) * (asg n xs l.p1.x - asg n xs l.p0.x) +
      (asg n xs l.p1.y - asg n xs l.p0.y) * (asg n xs l.p1.y - asg n xs l.p0.y) ≠ 0 := by
    intro h0; apply hr; linarith
  have hr2 := mul_ne_zero hr hr
  simp only [asg] at hr hr' hr2
  constructor
  · refine hasFDerivAt_of_derivRow _ n xs (·.r0) (·.r0) ?_
      (fun u => deriv_symmetric_row0 (asg n xs) u l a b h.regular)
    simp only [Constraint.residualV, Res.mk2, asg]
    fun_prop (disch := first | exact hr' | exact hr)
  · refine hasFDerivAt_of_derivRow _ n xs (·.r1) (·.r1) ?_
      (fun u => deriv_symmetric_row1 (asg n xs) u l a b h.regular)
    simp only [Constraint.residualV, Res.mk2, asg]
    fun_prop (disch := first | exact hr' | exact hr)
  · refine hasFDerivAt_zero_slot n xs _ _ (fun x => ?_) ?_
    · simp only [Constraint.residualV, Res.mk2]
    · simp only [Constraint.jacobianV]; split <;> rfl
  · intro U
    simp only [Constraint.jacobianV, apply_ite Jac.r0, apply_ite (fun r => rowApply r U)]
    simp only [rowApply, List.map_cons, List.map_nil, List.sum_cons, List.sum_nil, sqr]
    refine continuousAt_guard _ _ _ xs hev ?_
    simp only [asg]
    fun_prop (disch := first | exact hr | exact hr2)
  · intro U
    simp only [Constraint.jacobianV, apply_ite Jac.r1, apply_ite (fun r => rowApply r U)]
    simp only [rowApply, List.map_cons, List.map_nil, List.sum_cons, List.sum_nil, sqr]
    refine continuousAt_guard _ _ _ xs hev ?_
    simp only [asg]
    fun_prop (disch := first | exact hr | exact hr2)
  · intro U
    exact continuousAt_empty_row xs _ U (fun x => by simp only [Constraint.jacobianV]; split <;> rfl)

/-! ### 6b. `ArcLength` (not asked for; the same method covers it) -/

/-- **`ArcLength(arc, d)` is `C¹` at every point where its guard (`|start − centre|² < EPSILON`, the
same in the residual and the Jacobian kernel) is strictly inactive** (`RegularArcLength`); both rows.
All id assignments. -/
theorem kindC1_arcLength (arc : ArcD) (d : ℝ) (n : Nat)
    (xs : EuclideanSpace ℝ (Fin n)) (h : RegularArcLength arc (asg n xs)) :
    KindC1 (.arcLength arc d) n xs := by
  have hev : ∀ᶠ x in 𝓝 xs, ¬
      (asg n x arc.start.x - asg n x arc.center.x) * (asg n x arc.start.x - asg n x arc.center.x) +
        (asg n x arc.start.y - asg n x arc.center.y) * (asg n x arc.start.y - asg n x arc.center.y) < EPS := by
    refine eventually_guard_off ?_ h
    simp only [asg]; fun_prop
  have hN : 0 < (asg n xs arc.start.x - asg n xs arc.center.x) * (asg n xs arc.start.x - asg n xs arc.center.x) +
      (asg n xs arc.start.y - asg n xs arc.center.y) * (asg n xs arc.start.y - asg n xs arc.center.y) :=
    lt_trans EPS_pos h
  have hS := Real.sqrt_pos.mpr hN
  have hP9 := (Real.rpow_pos_of_pos hN ((9.0 : ℝ) / 2.0)).ne'
  simp only [asg] at hN hS hP9
  constructor
  · refine hasFDerivAt_of_derivRow _ n xs (·.r0) (·.r0) ?_
      (fun u => deriv_arcLength_row0 (asg n xs) u arc d h)
    simp only [Constraint.residualV, apply_ite Res.r0, Res.degen, Res.mk2, recip, sqr, sqrt_real,
      cos_real, sin_real]
    refine differentiableAt_guard _ _ _ xs hev ?_
    simp only [asg]
    fun_prop (disch := first | exact hN.ne' | exact hS.ne')
  · refine hasFDerivAt_of_derivRow _ n xs (·.r1) (·.r1) ?_
      (fun u => deriv_arcLength_row1 (asg n xs) u arc d h)
    simp only [Constraint.residualV, apply_ite Res.r1, Res.degen, Res.mk2, recip, sqr, sqrt_real,
      cos_real, sin_real]
    refine differentiableAt_guard _ _ _ xs hev ?_
    simp only [asg]
    fun_prop (disch := first | exact hN.ne' | exact hS.ne')
  · refine hasFDerivAt_zero_slot n xs _ _ (fun x => ?_) ?_
    · simp only [Constraint.residualV]; split <;> rfl
    · simp only [Constraint.jacobianV]; split <;> rfl
  · intro U
    simp only [Constraint.jacobianV, apply_ite Jac.r0, apply_ite (fun r => rowApply r U)]
    simp only [rowApply, List.map_cons, List.map_nil, List.sum_cons, List.sum_nil, recip, sqr, cube,
      sqrt_real, sin_real, powf_real]
    refine continuousAt_guard _ _ _ xs hev ?_
    simp only [asg]
    fun_prop (disch := first | exact hN.ne' | exact hS.ne' | exact hP9 | exact Or.inl hN.ne')
  · intro U
    simp only [Constraint.jacobianV, apply_ite Jac.r1, apply_ite (fun r => rowApply r U)]
    simp only [rowApply, List.map_cons, List.map_nil, List.sum_cons, List.sum_nil, recip, sqr, cube,
      sqrt_real, cos_real, powf_real]
    refine continuousAt_guard _ _ _ xs hev ?_
    simp only [asg]
    fun_prop (disch := first | exact hN.ne' | exact hS.ne' | exact hP9 | exact Or.inl hN.ne')
  · intro U
    exact continuousAt_empty_row xs _ U (fun x => by simp only [Constraint.jacobianV]; split <;> rfl)

/-! ### 6c. `CircleTangentToCircle` (not asked for; locally one smooth branch) -/

/-- Strictly regular points of `CircleTangentToCircle`: the Jacobian's guard is **strictly** inactive
(`EPSILON < dist` of the centres; the residual kernel has no guard), the internal/external choice is
strict, and when the internal branch is taken the radii differ (`RegularCTTC` with the first part
strict). -/
def StrictCTTC (a b : Circ) (v : Nat → ℝ) : Prop :=
  (EPS : ℝ) < cttcDist a b v ∧
  cttcG a b v ≠ cttcH a b v ∧
  (cttcG a b v < cttcH a b v → v a.radius ≠ v b.radius)

/-- `StrictCTTC` implies `RegularCTTC`. -/
theorem StrictCTTC.regular {a b : Circ} {v : Nat → ℝ} (h : StrictCTTC a b v) : RegularCTTC a b v :=
  ⟨not_lt.mpr (le_of_lt h.1), h.2.1, h.2.2⟩

/-- Near a strictly regular point the branch-dependent constants of the Jacobian row (the partial
derivatives with respect to the two radii) do not change. -/
theorem cttc_consts_eventually (a b : Circ) (n : Nat) (xs : EuclideanSpace ℝ (Fin n))
    (h : StrictCTTC a b (asg n xs)) (p q r : ℝ) :
    ∀ᶠ x in 𝓝 xs,
      (if cttcG a b (asg n x) < cttcH a b (asg n x) then
        (if asg n x b.radius < asg n x a.radius then p else q) else r) =
      (if cttcG a b (asg n xs) < cttcH a b (asg n xs) then
        (if asg n xs b.radius < asg n xs a.radius then p else q) else r) := by
  obtain ⟨_, hside, hrad⟩ := h
  have hcG : ContinuousAt (fun x => cttcG a b (asg n x)) xs := by
    unfold cttcG cttcDist; simp only [asg]; fun_prop
  have hcH : ContinuousAt (fun x => cttcH a b (asg n x)) xs := by
    unfold cttcH cttcDist; simp only [asg]; fun_prop
  have hcA : ContinuousAt (fun x => asg n x a.radius) xs := by simp only [asg]; fun_prop
  have hcB : ContinuousAt (fun x => asg n x b.radius) xs := by simp only [asg]; fun_prop
  rcases lt_or_gt_of_ne hside with hint | hext
  · have hevI := hcG.eventually_lt hcH hint
    rcases lt_or_gt_of_ne (hrad hint) with hlt | hgt
    · filter_upwards [hevI, hcA.eventually_lt hcB hlt] with x x1 x2
      rw [if_pos x1, if_pos hint, if_neg (not_lt.mpr x2.le), if_neg (not_lt.mpr hlt.le)]
    · filter_upwards [hevI, hcB.eventually_lt hcA hgt] with x x1 x2
      rw [if_pos x1, if_pos hint, if_pos x2, if_pos hgt]
  · filter_upwards [hcH.eventually_lt hcG hext] with x x1
    rw [if_neg (not_lt.mpr x1.le), if_neg (not_lt.mpr hext.le)]

/-- **`CircleTangentToCircle(a, b)` is `C¹` at every strictly regular point** (`StrictCTTC`: centres
strictly farther apart than `EPSILON`, strict internal/external choice, distinct radii on the internal
branch). All id assignments. -/
theorem kindC1_circleTangentToCircle (a b : Circ) (n : Nat)
    (xs : EuclideanSpace ℝ (Fin n)) (h : StrictCTTC a b (asg n xs)) :
    KindC1 (.circleTangentToCircle a b) n xs := by
  have hcD : ContinuousAt (fun x => cttcDist a b (asg n x)) xs := by
    unfold cttcDist; simp only [asg]; fun_prop
  have hevD : ∀ᶠ x in 𝓝 xs, ¬ cttcDist a b (asg n x) < EPS := eventually_guard_off hcD h.1
  have hDpos : 0 < cttcDist a b (asg n xs) := lt_trans EPS_pos h.1
  have hS : 0 < (asg n xs a.center.x - asg n xs b.center.x) * (asg n xs a.center.x - asg n xs b.center.x)
      + (asg n xs a.center.y - asg n xs b.center.y) * (asg n xs a.center.y - asg n xs b.center.y) :=
    Real.sqrt_pos.mp hDpos
  have hcA : ContinuousAt (fun x => asg n x a.radius) xs := by simp only [asg]; fun_prop
  have hcB : ContinuousAt (fun x => asg n x b.radius) xs := by simp only [asg]; fun_prop
  constructor
  · refine hasFDerivAt_of_derivRow _ n xs (·.r0) (·.r0) ?_
      (fun u => deriv_circleTangentToCircle (asg n xs) u a b h.regular)
    simp only [cttc_res]
    obtain ⟨_, hside, hrad⟩ := h
    have hcG : ContinuousAt (fun x => cttcG a b (asg n x)) xs := by
      unfold cttcG cttcDist; simp only [asg]; fun_prop
    have hcH : ContinuousAt (fun x => cttcH a b (asg n x)) xs := by
      unfold cttcH cttcDist; simp only [asg]; fun_prop
    simp only [asg] at hS
    rcases lt_or_gt_of_ne hside with hint | hext
    · have hevI := hcG.eventually_lt hcH hint
      rcases lt_or_gt_of_ne (hrad hint) with hlt | hgt
      · have hF : DifferentiableAt ℝ (fun x => -cttcDist a b (asg n x) +
            -(asg n x a.radius - asg n x b.radius)) xs := by
          unfold cttcDist; simp only [asg]
          fun_prop (disch := exact hS.ne')
        refine hF.congr_of_eventuallyEq ?_
        filter_upwards [hevI, hcA.eventually_lt hcB hlt] with x x1 x2
        rw [if_pos x1, abs_of_neg (by linarith)]
      · have hF : DifferentiableAt ℝ (fun x => -cttcDist a b (asg n x) +
            (asg n x a.radius - asg n x b.radius)) xs := by
          unfold cttcDist; simp only [asg]
          fun_prop (disch := exact hS.ne')
        refine hF.congr_of_eventuallyEq ?_
        filter_upwards [hevI, hcB.eventually_lt hcA hgt] with x x1 x2
        rw [if_pos x1, abs_of_pos (by linarith)]
    · have hF : DifferentiableAt ℝ (fun x => asg n x a.radius + asg n x b.radius -
          cttcDist a b (asg n x)) xs := by
        unfold cttcDist; simp only [asg]
        fun_prop (disch := exact hS.ne')
      refine hF.congr_of_eventuallyEq ?_
      filter_upwards [hcH.eventually_lt hcG hext] with x x1
      rw [if_neg (not_lt.mpr x1.le)]
  · refine hasFDerivAt_zero_slot n xs _ _ (fun x => ?_) ?_
    · simp only [Constraint.residualV, Res.mk1]
    · simp only [Constraint.jacobianV]; split <;> rfl
  · refine hasFDerivAt_zero_slot n xs _ _ (fun x => ?_) ?_
    · simp only [Constraint.residualV, Res.mk1]
    · simp only [Constraint.jacobianV]; split <;> rfl
  · intro U
    have hcst1 := cttc_consts_eventually a b n xs h 1.0 (-1.0) 1.0
    have hcst2 := cttc_consts_eventually a b n xs h (-1.0) 1.0 1.0
    have hF : ContinuousAt (fun x =>
        (-asg n x a.center.x + asg n x b.center.x) * (1.0 / cttcDist a b (asg n x)) * U a.center.x +
        ((-asg n x a.center.y + asg n x b.center.y) * (1.0 / cttcDist a b (asg n x)) * U a.center.y +
        ((if cttcG a b (asg n xs) < cttcH a b (asg n xs) then
            (if asg n xs b.radius < asg n xs a.radius then (1.0 : ℝ) else -1.0) else 1.0) * U a.radius +
        (-(-asg n x a.center.x + asg n x b.center.x) * (1.0 / cttcDist a b (asg n x)) * U b.center.x +
        (-(-asg n x a.center.y + asg n x b.center.y) * (1.0 / cttcDist a b (asg n x)) * U b.center.y +
        ((if cttcG a b (asg n xs) < cttcH a b (asg n xs) then
            (if asg n xs b.radius < asg n xs a.radius then (-1.0 : ℝ) else 1.0) else 1.0) * U b.radius +
          0)))))) xs := by
      have hD0 := hDpos.ne'
      simp only [asg] at hcD hD0 ⊢
      fun_prop (disch := exact hD0)
    refine hF.congr ?_
    filter_upwards [hevD, hcst1, hcst2] with x x1 x2 x3
    rw [cttc_jac (asg n x) a b x1, ← x2, ← x3]
    simp only [rowApply, List.map_cons, List.map_nil, List.sum_cons, List.sum_nil]
  · intro U
    exact continuousAt_empty_row xs _ U (fun x => by simp only [Constraint.jacobianV]; split <;> rfl)
  · intro U
    exact continuousAt_empty_row xs _ U (fun x => by simp only [Constraint.jacobianV]; split <;> rfl)

/-! ### 6d. General angle: `LinesAtAngle(…, Other)`, `ArcAngle` (not asked for) -/

/-- `atan2 (Y x) (X x)` is differentiable (as a function on a real normed space) where `X`, `Y` are
and `(X, Y)` is off the branch cut of `atan2`. -/
theorem differentiableAt_realAtan2 {E : Type} [NormedAddCommGroup E] [NormedSpace ℝ E]
    {X Y : E → ℝ} {xs : E} (hX : DifferentiableAt ℝ X xs) (hY : DifferentiableAt ℝ Y xs)
    (hs : (⟨X xs, Y xs⟩ : ℂ) ∈ Complex.slitPlane) :
    DifferentiableAt ℝ (fun x => realAtan2 (Y x) (X x)) xs := by
  have hmk : ∀ x, ((X x : ℂ) + (Y x : ℂ) * Complex.I) = ⟨X x, Y x⟩ := by
    intro x; apply Complex.ext <;> simp
  have hz : DifferentiableAt ℝ (fun x => ((X x : ℂ) + (Y x : ℂ) * Complex.I)) xs :=
    (Complex.ofRealCLM.differentiableAt.comp xs hX).add
      ((Complex.ofRealCLM.differentiableAt.comp xs hY).mul_const Complex.I)
  have hs' : ((X xs : ℂ) + (Y xs : ℂ) * Complex.I) ∈ Complex.slitPlane := by rw [hmk]; exact hs
  have hl : DifferentiableAt ℝ (Complex.log ∘ fun x => ((X x : ℂ) + (Y x : ℂ) * Complex.I)) xs :=
    DifferentiableAt.comp xs (Complex.hasStrictFDerivAt_log_real hs').hasFDerivAt.differentiableAt hz
  have him : DifferentiableAt ℝ (⇑Complex.imCLM ∘ (Complex.log ∘ fun x =>
      ((X x : ℂ) + (Y x : ℂ) * Complex.I))) xs :=
    DifferentiableAt.comp xs Complex.imCLM.differentiableAt hl
  have hfun : (fun x => realAtan2 (Y x) (X x)) =
      (⇑Complex.imCLM ∘ (Complex.log ∘ fun x => ((X x : ℂ) + (Y x : ℂ) * Complex.I))) := by
    funext x
    simp [realAtan2, Complex.log_im, hmk]
  rw [hfun]
  exact him

/-- `wrapAngleDelta (δ x)` is differentiable where `δ` is and `δ ≢ π (mod 2π)`. -/
theorem differentiableAt_wrapAngleDelta {E : Type} [NormedAddCommGroup E] [NormedSpace ℝ E]
    {δ : E → ℝ} {xs : E} (hδ : DifferentiableAt ℝ δ xs) (hc : Real.cos (δ xs) ≠ -1) :
    DifferentiableAt ℝ (fun x => wrapAngleDelta (δ x)) xs := by
  have hcont : ContinuousAt δ xs := hδ.continuousAt
  by_cases hin : -Real.pi < δ xs ∧ δ xs < Real.pi
  · have e1 := hcont.eventually (lt_mem_nhds hin.1)
    have e2 := hcont.eventually (gt_mem_nhds hin.2)
    refine hδ.congr_of_eventuallyEq ?_
    filter_upwards [e1, e2] with t t1 t2
    simp only [wrapAngleDelta, pi_real]
    rw [if_pos ⟨t1, t2.le⟩]
  · have hout : δ xs < -Real.pi ∨ Real.pi < δ xs := by
      by_contra hcon
      have hcon := not_or.mp hcon
      rcases lt_or_eq_of_le (not_lt.mp hcon.1) with h1 | h1
      · rcases lt_or_eq_of_le (not_lt.mp hcon.2) with h2 | h2
        · exact hin ⟨h1, h2⟩
        · exact hc (by rw [h2, Real.cos_pi])
      · exact hc (by rw [← h1, Real.cos_neg, Real.cos_pi])
    have hat : DifferentiableAt ℝ (fun x => realAtan2 (Real.sin (δ x)) (Real.cos (δ x))) xs :=
      differentiableAt_realAtan2 (X := fun x => Real.cos (δ x)) (Y := fun x => Real.sin (δ x))
        hδ.cos hδ.sin (cos_sin_mem_slitPlane hc)
    refine hat.congr_of_eventuallyEq ?_
    rcases hout with h | h
    · filter_upwards [hcont.eventually (gt_mem_nhds h)] with t ht
      simp only [wrapAngleDelta, pi_real, sin_real, cos_real, atan2_real]
      rw [if_neg (fun hh => absurd hh.1 (not_lt.mpr (le_of_lt ht)))]
    · filter_upwards [hcont.eventually (lt_mem_nhds h)] with t ht
      simp only [wrapAngleDelta, pi_real, sin_real, cos_real, atan2_real]
      rw [if_neg (fun hh => absurd hh.2 (not_le.mpr ht))]

/-- **`LinesAtAngle(l0, l1, Other ang)` is `C¹` at every regular point** (`RegularLinesAtAngle`: both
segments strictly longer than `EPSILON` — the guard of both kernels —, the current angle not `π`
(off the branch cut of `atan2`), the angle error not `≡ π (mod 2π)` (off the jump of the wrap)).
All id assignments. -/
theorem kindC1_linesAtAngle_other (l0 l1 : Seg) (ang : Angle ℝ) (n : Nat)
    (xs : EuclideanSpace ℝ (Fin n)) (h : RegularLinesAtAngle l0 l1 ang (asg n xs)) :
    KindC1 (.linesAtAngle l0 l1 (.other ang)) n xs := by
  obtain ⟨h0, h1, hs, hc⟩ := h
  have hev : ∀ᶠ x in 𝓝 xs, ¬ (Real.sqrt (segSqD l0 (asg n x)) < EPS ∨
      Real.sqrt (segSqD l1 (asg n x)) < EPS) := by
    refine eventually_or_off (eventually_guard_off ?_ h0) (eventually_guard_off ?_ h1)
    · unfold segSqD; simp only [asg]; fun_prop
    · unfold segSqD; simp only [asg]; fun_prop
  have p0 : 0 < segSqD l0 (asg n xs) := Real.sqrt_pos.mp (EPS_pos.trans h0)
  have p1 : 0 < segSqD l1 (asg n xs) := Real.sqrt_pos.mp (EPS_pos.trans h1)
  constructor
  · refine hasFDerivAt_of_derivRow _ n xs (·.r0) (·.r0) ?_
      (fun u => deriv_linesAtAngle_other l0 l1 ang (asg n xs) u ⟨h0, h1, hs, hc⟩)
    have hδ : DifferentiableAt ℝ (fun x => laDelta l0 l1 ang (asg n x)) xs := by
      unfold laDelta
      refine DifferentiableAt.sub_const ?_ _
      refine differentiableAt_realAtan2 ?_ ?_ (by rw [Complex.mem_slitPlane_iff]; exact hs)
      · unfold laDot; simp only [asg]; fun_prop
      · unfold laCross; simp only [asg]; fun_prop
    refine (differentiableAt_wrapAngleDelta hδ hc).congr_of_eventuallyEq ?_
    filter_upwards [hev] with x hx
    unfold segSqD at hx
    simp only [Constraint.residualV, linesAtAngleResidual, hypot_real]
    rw [if_neg hx]
    rfl
  · refine hasFDerivAt_zero_slot n xs _ _ (fun x => ?_) ?_
    · simp only [Constraint.residualV, linesAtAngleResidual]; split <;> rfl
    · simp only [Constraint.jacobianV, linesAtAngleJac]; split <;> rfl
  · refine hasFDerivAt_zero_slot n xs _ _ (fun x => ?_) ?_
    · simp only [Constraint.residualV, linesAtAngleResidual]; split <;> rfl
    · simp only [Constraint.jacobianV, linesAtAngleJac]; split <;> rfl
  · intro U
    simp only [Constraint.jacobianV, linesAtAngleJac, hypot_real, apply_ite Jac.r0,
      apply_ite (fun r => rowApply r U)]
    simp only [jvars4, rowApply, List.map_cons, List.map_nil, List.sum_cons, List.sum_nil, sqr]
    unfold segSqD at hev p0 p1
    refine continuousAt_guard _ _ _ xs hev ?_
    have q0 := (Real.sqrt_pos.mpr p0).ne'
    have q1 := (Real.sqrt_pos.mpr p1).ne'
    have r0 := mul_ne_zero q0 q0
    have r1 := mul_ne_zero q1 q1
    simp only [asg] at r0 r1 ⊢
    fun_prop (disch := first | exact r0 | exact r1)
  · intro U
    exact continuousAt_empty_row xs _ U
      (fun x => by simp only [Constraint.jacobianV, linesAtAngleJac]; split <;> rfl)
  · intro U
    exact continuousAt_empty_row xs _ U
      (fun x => by simp only [Constraint.jacobianV, linesAtAngleJac]; split <;> rfl)

/-- **`ArcAngle(a, ang)` is `C¹` at every regular point** (`RegularArcAngle`: that of `LinesAtAngle`
on the two radii centre→start, centre→stop). -/
theorem kindC1_arcAngle (a : ArcD) (ang : Angle ℝ) (n : Nat)
    (xs : EuclideanSpace ℝ (Fin n)) (h : RegularArcAngle a ang (asg n xs)) :
    KindC1 (.arcAngle a ang) n xs := by
  have := kindC1_linesAtAngle_other ⟨a.center, a.start⟩ ⟨a.center, a.stop⟩ ang n xs h
  exact ⟨this.d0, this.d1, this.d2, this.c0, this.c1, this.c2⟩

/-- Non-vacuity of `StrictLTC`: the segment `(0,0)–(1,0)`. -/
example : StrictLTC ⟨⟨0, 1⟩, ⟨2, 3⟩⟩ (fun i => if i = 2 then 1 else 0) := by
  unfold StrictLTC segSq
  norm_num [EPS_real]

/-- Non-vacuity of `StrictCTTC`, internal tangency: circles `(0,0), r = 2` and `(1,0), r = 1`. -/
example : StrictCTTC ⟨⟨0, 1⟩, 2⟩ ⟨⟨3, 4⟩, 5⟩
    (fun i => if i = 2 then 2 else if i = 3 ∨ i = 5 then 1 else 0) := by
  norm_num [StrictCTTC, cttcG, cttcH, cttcDist, EPS_real]

/-- Non-vacuity of `StrictCTTC`, external tangency with equal radii: `(0,0), r = 1/2`; `(1,0), r = 1/2`. -/
example : StrictCTTC ⟨⟨0, 1⟩, 2⟩ ⟨⟨3, 4⟩, 5⟩
    (fun i => if i = 2 ∨ i = 5 then 1 / 2 else if i = 3 then 1 else 0) := by
  norm_num [StrictCTTC, cttcG, cttcH, cttcDist, EPS_real]

/-- Non-vacuity of `StrictSymmetric`: the mirror line `(0,0)–(0,1)`. -/
example : StrictSymmetric ⟨⟨0, 1⟩, ⟨2, 3⟩⟩ (fun i => if i = 3 then 1 else 0) := by
  unfold StrictSymmetric; rw [EPS_real]; norm_num

/-! ### 7. All covered kinds together -/

/-- **Regularity of a request at an assignment, second version** — `RegularAt` extended with nine
more kinds; for each, every guard of both the residual and the Jacobian kernel is strictly inactive
(and the kind's other non-smooth points are excluded):

* `PointLineDistance`: `RegularPLD` (`EPSILON < hypot A B`; the Jacobian kernel has no guard),
* `VerticalPointLineDistance`: `RegularVPLD` (`EPSILON < |dx|`, `EPSILON < dx² + dy²`),
* `HorizontalPointLineDistance`: `RegularHPLD` (`EPSILON < |dy|`, `EPSILON < dx² + dy²`),
* `LineTangentToCircle`: `StrictLTC` (`EPSILON < dx² + dy²`, which implies `EPSILON < hypot dx dy`),
* `Symmetric`: `StrictSymmetric` (`EPSILON < (dx² + dy²)²`; the residual kernel has no guard),
* `ArcLength`: `RegularArcLength` (`EPSILON < |start − centre|²`; same guard in both kernels),
* `CircleTangentToCircle`: `StrictCTTC` (`EPSILON < dist` of the centres — the Jacobian's guard; the
  residual kernel has none —, strict internal/external choice, distinct radii on the internal branch),
* `LinesAtAngle(…, Other ang)`: `RegularLinesAtAngle` (`EPSILON < ` both lengths — the guard of both
  kernels —, current angle `≠ π`, angle error `≢ π (mod 2π)`),
* `ArcAngle`: `RegularArcAngle` (the same for the two radii),

and `RegularAt` for every other kind (so `False` only for `PointArcCoincident`). -/
def RegularAt2 : Constraint ℝ → (Nat → ℝ) → Prop
  | .pointLineDistance _ l _, v => RegularPLD l v
  | .verticalPointLineDistance _ l _, v => RegularVPLD l v
  | .horizontalPointLineDistance _ l _, v => RegularHPLD l v
  | .lineTangentToCircle l _, v => StrictLTC l v
  | .symmetric l _ _, v => StrictSymmetric l v
  | .arcLength a _, v => RegularArcLength a v
  | .circleTangentToCircle a b, v => StrictCTTC a b v
  | .linesAtAngle l0 l1 (.other ang), v => RegularLinesAtAngle l0 l1 ang v
  | .arcAngle a ang, v => RegularArcAngle a ang v
  | c, v => RegularAt c v

/-- `RegularAt2` extends `RegularAt`. -/
theorem regularAt2_of_regularAt (c : Constraint ℝ) (v : Nat → ℝ) (h : RegularAt c v) :
    RegularAt2 c v := by
  cases c with
  | linesAtAngle l0 l1 k => cases k <;> first | exact h | exact (h : False).elim
  | _ => first | exact h | exact (h : False).elim

/-- **Every kind covered by `RegularAt2` is `C¹` where it is regular**:
`RegularAt2 c (asg n xs) → KindC1 c n xs` (every kind except `PointArcCoincident`: the 15 of `RegularAt` and the nine above). -/
theorem kindC1_of_regular2 (c : Constraint ℝ) (n : Nat) (xs : EuclideanSpace ℝ (Fin n))
    (h : RegularAt2 c (asg n xs)) : KindC1 c n xs := by
  cases c with
  | pointLineDistance p l d => exact kindC1_pointLineDistance p l d n xs h
  | verticalPointLineDistance p l d => exact kindC1_verticalPointLineDistance p l d n xs h
  | horizontalPointLineDistance p l d => exact kindC1_horizontalPointLineDistance p l d n xs h
  | lineTangentToCircle l c => exact kindC1_lineTangentToCircle l c n xs h
  | symmetric l a b => exact kindC1_symmetric l a b n xs h
  | arcLength a d => exact kindC1_arcLength a d n xs h
  | circleTangentToCircle a b => exact kindC1_circleTangentToCircle a b n xs h
  | arcAngle a ang => exact kindC1_arcAngle a ang n xs h
  | linesAtAngle l0 l1 k =>
    cases k with
    | other ang => exact kindC1_linesAtAngle_other l0 l1 ang n xs h
    | parallel => exact kindC1_of_regular _ n xs h
    | perpendicular => exact kindC1_of_regular _ n xs h
  | _ => exact kindC1_of_regular _ n xs h

end Ezpz
