/-
The freedom analysis `dofCalculate` (`solver/find_dof.rs::calculate`) over ℝ: a closed form of its
output, the list-level membership criterion in the well-separated case, and — combined with the
exact linear algebra of `Ezpz/Real/Kernel.lean` — the statement that a variable is reported iff it
takes part in the null space of the Jacobian.

The gap hypotheses are written without a `max`: "`x = 0 ∨ ∀ x' in the list, tol * x' < x`", which
(as `tol > 0`) is the same as "`x = 0 ∨ tol * max < x`"; `gap_of_bound` gives the latter form.
-/
import Ezpz.Real.Kernel
import Ezpz.Real.Instance
import Ezpz.Model.Solve
namespace Ezpz
open Transc

section Generic
variable {α : Type} [Add α] [Sub α] [Mul α] [Div α] [Neg α] [OfScientific α]
  [LT α] [DecidableLT α] [LE α] [DecidableLE α] [Transc α]

omit [Sub α] [Div α] [Neg α] [LE α] [DecidableLE α] in
/-- ∀α: the reported list is strictly increasing and only holds variable indices below `n`. -/
theorem dofCalculate_sorted_lt (sigma : List α) (V : List (List α)) (n : Nat) (out : List Nat)
    (h : dofCalculate sigma V n = .ok out) : out.Pairwise (· < ·) ∧ ∀ j ∈ out, j < n := by
  unfold dofCalculate at h
  split at h
  · simp at h
  · dsimp only at h
    split at h
    · injection h with h; subst h
      exact ⟨List.Pairwise.filter _ List.pairwise_lt_range,
        fun j hj => by simpa using (List.mem_filter.mp hj).1⟩
    · simp at h
end Generic

/-- Entry `V[j][k]`, `0` when out of range. -/
def entryR (V : List (List ℝ)) (j k : Nat) : ℝ := ((V[j]?).bind (fun row => row[k]?)).getD 0

/-- Number of non-zero singular values. -/
noncomputable def dofRank (sigma : List ℝ) : Nat := (sigma.filter (fun s => decide (s ≠ 0))).length

/-- Participation of variable `j`: the norm of row `j` of `V` restricted to columns `r..n-1`. -/
noncomputable def partic (V : List (List ℝ)) (r n j : Nat) : ℝ :=
  Real.sqrt (∑ k ∈ Finset.Ico r n, entryR V j k ^ 2)

/-- The accumulation loop `sum_sq += v*v` is the initial value plus the sum of squares. -/
theorem foldl_add_sqr (f : Nat → ℝ) (l : List Nat) (a : ℝ) :
    l.foldl (fun acc k => acc + sqr (f k)) a = a + (l.map (fun k => f k ^ 2)).sum := by
  induction l generalizing a with
  | nil => simp
  | cons x l ih =>
    rw [List.foldl_cons, ih, List.map_cons, List.sum_cons]
    unfold sqr
    ring

/-- A list sum over `rank..n` (as the code enumerates it) is the `Finset.Ico` sum. -/
theorem sum_filter_range (g : Nat → ℝ) (r n : Nat) :
    (((List.range n).filter (fun k => decide (r ≤ k))).map g).sum = ∑ k ∈ Finset.Ico r n, g k := by
  rw [← List.sum_toFinset g (List.Nodup.filter _ List.nodup_range)]
  congr 1
  ext k
  simp [and_comm]

/-- The code's participation expression for variable `j` is `partic`. -/
theorem partic_eq (V : List (List ℝ)) (r n j : Nat) :
    Transc.sqrt (((List.range n).filter (fun k => decide (r ≤ k))).foldl
      (fun acc k => acc + sqr (((V[j]?).bind (fun row => row[k]?)).getD 0.0)) 0.0) = partic V r n j := by
  have := foldl_add_sqr (fun k => ((V[j]?).bind (fun row => row[k]?)).getD 0.0)
    ((List.range n).filter (fun k => decide (r ≤ k))) 0.0
  rw [this, sum_filter_range, lit_0, zero_add]
  rfl

/-- `fold(a, max)` is an upper bound of the start value and of every element. -/
theorem foldl_rmax_ge (l : List ℝ) (a : ℝ) :
    a ≤ l.foldl max a ∧ ∀ x ∈ l, x ≤ l.foldl max a := by
  induction l generalizing a with
  | nil => simp
  | cons y l ih =>
    rw [List.foldl_cons]
    obtain ⟨h1, h2⟩ := ih (max a y)
    refine ⟨le_trans (le_max_left _ _) h1, ?_⟩
    intro x hx
    rcases List.mem_cons.mp hx with rfl | hx
    · exact le_trans (le_max_right _ _) h1
    · exact h2 x hx

/-- `fold(a, max)` is the start value or one of the elements. -/
theorem foldl_rmax_mem (l : List ℝ) (a : ℝ) : l.foldl max a = a ∨ l.foldl max a ∈ l := by
  induction l generalizing a with
  | nil => simp
  | cons y l ih =>
    rw [List.foldl_cons]
    rcases ih (max a y) with h | h
    · rcases max_choice a y with h' | h'
      · left; rw [h, h']
      · right; rw [h, h']; exact List.mem_cons_self
    · right; exact List.mem_cons_of_mem _ h

/-- The rank tolerance over ℝ is `1e-8`. -/
theorem DOF_RANK_TOLERANCE_real : (Gen.DOF_RANK_TOLERANCE : ℝ) = 1e-8 := rfl
/-- The participation tolerance over ℝ is `1e-3`. -/
theorem DOF_PARTICIPATION_TOLERANCE_real : (Gen.DOF_PARTICIPATION_TOLERANCE : ℝ) = 1e-3 := rfl
/-- The rank tolerance is positive. -/
theorem DOF_RANK_TOLERANCE_pos : (0 : ℝ) < Gen.DOF_RANK_TOLERANCE := by
  rw [DOF_RANK_TOLERANCE_real]; norm_num
/-- The participation tolerance is positive. -/
theorem DOF_PARTICIPATION_TOLERANCE_pos : (0 : ℝ) < Gen.DOF_PARTICIPATION_TOLERANCE := by
  rw [DOF_PARTICIPATION_TOLERANCE_real]; norm_num

/-- A participation is a square root, hence non-negative. -/
theorem partic_nonneg (V : List (List ℝ)) (r n j : Nat) : 0 ≤ partic V r n j := Real.sqrt_nonneg _

/-- A participation is non-zero iff row `j` of `V` has a non-zero entry in some column `r ≤ k < n`. -/
theorem partic_ne_zero_iff (V : List (List ℝ)) (r n j : Nat) :
    partic V r n j ≠ 0 ↔ ∃ k, r ≤ k ∧ k < n ∧ entryR V j k ≠ 0 := by
  unfold partic
  have hnn : 0 ≤ ∑ k ∈ Finset.Ico r n, entryR V j k ^ 2 :=
    Finset.sum_nonneg (fun k _ => sq_nonneg _)
  rw [Ne, Real.sqrt_eq_zero hnn, Finset.sum_eq_zero_iff_of_nonneg (fun k _ => sq_nonneg _)]
  constructor
  · intro h
    by_contra hno
    apply h
    intro k hk
    rw [Finset.mem_Ico] at hk
    by_contra hne
    exact hno ⟨k, hk.1, hk.2, fun h0 => hne (by rw [h0]; ring)⟩
  · rintro ⟨k, hk1, hk2, hne⟩ h
    exact hne (pow_eq_zero_iff two_ne_zero |>.mp (h k (Finset.mem_Ico.mpr ⟨hk1, hk2⟩)))

/-- Under the spectrum gap, the coded rank (values above `1e-8·σ_max`) is the number of non-zero
singular values. -/
theorem rank_eq (s0 : ℝ) (rest : List ℝ)
    (hgapS : ∀ s ∈ s0 :: rest, s = 0 ∨ ∀ s' ∈ s0 :: rest, Gen.DOF_RANK_TOLERANCE * s' < s) :
    ((s0 :: rest).filter (fun s => decide (Gen.DOF_RANK_TOLERANCE * rest.foldl fmax s0 < s))).length
      = dofRank (s0 :: rest) := by
  unfold dofRank
  congr 1
  apply List.filter_congr
  intro s hs
  have hfm : rest.foldl fmax s0 = rest.foldl max s0 := rfl
  rw [hfm]
  obtain ⟨hge0, hge⟩ := foldl_rmax_ge rest s0
  have hmem : rest.foldl max s0 ∈ s0 :: rest := by
    rcases foldl_rmax_mem rest s0 with h | h
    · rw [h]; exact List.mem_cons_self
    · exact List.mem_cons_of_mem _ h
  have hle : s ≤ rest.foldl max s0 := by
    rcases List.mem_cons.mp hs with rfl | h
    · exact hge0
    · exact hge s h
  rw [decide_eq_decide]
  rcases hgapS s hs with h0 | hgt
  · subst h0
    constructor
    · intro h
      have := mul_nonneg (le_of_lt DOF_RANK_TOLERANCE_pos) hle
      exact absurd h (not_lt.mpr this)
    · intro h; exact absurd rfl h
  · constructor
    · intro _ h0
      have h1 := hgt s hs
      rw [h0] at h1
      simp at h1
    · intro _
      exact hgt _ hmem

/-- The largest participation, as the code computes it (`fold(0.0, fmax)`). -/
noncomputable def maxPartic (V : List (List ℝ)) (r n : Nat) : ℝ :=
  ((List.range n).map (partic V r n)).foldl max 0

/-- **Closed form of the freedom analysis over ℝ** (no gap on the participations needed): with a
non-empty spectrum that has the gap, and `V` at least `n × n`, the analysis succeeds and reports the
`j < n` whose participation exceeds `1e-3` times the largest participation, the participation being
taken over the columns from `rank = #non-zero singular values` on. -/
theorem dofCalculate_eq (sigma : List ℝ) (V : List (List ℝ)) (n : Nat)
    (hne : sigma ≠ [])
    (hV : ∀ j < n, ∃ row, V[j]? = some row ∧ n ≤ row.length)
    (hgapS : ∀ s ∈ sigma, s = 0 ∨ ∀ s' ∈ sigma, Gen.DOF_RANK_TOLERANCE * s' < s) :
    dofCalculate sigma V n = .ok ((List.range n).filter (fun j =>
      decide (Gen.DOF_PARTICIPATION_TOLERANCE * maxPartic V (dofRank sigma) n
        < partic V (dofRank sigma) n j))) := by
  obtain ⟨s0, rest, rfl⟩ := List.exists_cons_of_ne_nil hne
  unfold dofCalculate
  simp only [maxOf?]
  rw [rank_eq s0 rest hgapS]
  simp only [partic_eq]
  split
  · congr 1
    apply List.filter_congr
    intro j hj
    have hjn : j < n := by simpa using hj
    rw [List.getD_eq_getElem?_getD, List.getElem?_map, List.getElem?_range hjn]
    simp only [Option.map_some, Option.getD_some]
    unfold maxPartic
    rw [lit_0]
    rfl
  · rename_i hall
    exfalso
    apply hall
    apply List.all_eq_true.mpr
    intro j hj
    apply List.all_eq_true.mpr
    intro k hk
    have hjn : j < n := by simpa using hj
    have hkn : k < n := by
      have := (List.mem_filter.mp hk).1
      simpa using this
    obtain ⟨row, hrow, hlen⟩ := hV j hjn
    simp [hrow, List.getElem?_eq_getElem (show k < row.length by omega)]

/-- **Membership in the freedom analysis' report** (ℝ, well-separated case): under the spectrum gap
(every singular value is `0` or above `1e-8·σ_max`) and the participation gap (every participation
is `0` or above `1e-3·max participation`), variable `j` is reported iff `j < n` and some column
`k ≥ rank` of `V` (a null column) has a non-zero entry in row `j`. -/
theorem mem_dofCalculate_iff (sigma : List ℝ) (V : List (List ℝ)) (n : Nat)
    (hne : sigma ≠ [])
    (hV : ∀ j < n, ∃ row, V[j]? = some row ∧ n ≤ row.length)
    (hgapS : ∀ s ∈ sigma, s = 0 ∨ ∀ s' ∈ sigma, Gen.DOF_RANK_TOLERANCE * s' < s)
    (hgapP : ∀ j < n, partic V (dofRank sigma) n j = 0 ∨
      ∀ j' < n, Gen.DOF_PARTICIPATION_TOLERANCE * partic V (dofRank sigma) n j'
        < partic V (dofRank sigma) n j) :
    ∃ out, dofCalculate sigma V n = .ok out ∧
      ∀ j, j ∈ out ↔ j < n ∧ ∃ k, dofRank sigma ≤ k ∧ k < n ∧ entryR V j k ≠ 0 := by
  refine ⟨_, dofCalculate_eq sigma V n hne hV hgapS, ?_⟩
  intro j
  rw [List.mem_filter, List.mem_range, decide_eq_true_iff, ← partic_ne_zero_iff]
  apply and_congr_right
  intro hjn
  obtain ⟨hge0, hge⟩ := foldl_rmax_ge ((List.range n).map (partic V (dofRank sigma) n)) 0
  constructor
  · intro h h0
    rw [h0] at h
    exact absurd h (not_lt.mpr (mul_nonneg (le_of_lt DOF_PARTICIPATION_TOLERANCE_pos) hge0))
  · intro hne0
    have hpos : 0 < partic V (dofRank sigma) n j :=
      lt_of_le_of_ne (partic_nonneg _ _ _ _) (Ne.symm hne0)
    rcases foldl_rmax_mem ((List.range n).map (partic V (dofRank sigma) n)) 0 with h | h
    · unfold maxPartic; rw [h, mul_zero]; exact hpos
    · obtain ⟨j', hj', hj'eq⟩ := List.mem_map.mp h
      rcases hgapP j hjn with h0 | hgt
      · exact absurd h0 hne0
      · unfold maxPartic
        rw [← hj'eq]
        exact hgt j' (by simpa using hj')

/-- The spectrum gap forces every singular value to be non-negative. -/
theorem gap_nonneg (sigma : List ℝ)
    (hgapS : ∀ s ∈ sigma, s = 0 ∨ ∀ s' ∈ sigma, Gen.DOF_RANK_TOLERANCE * s' < s) :
    ∀ s ∈ sigma, 0 ≤ s := by
  intro s hs
  rcases hgapS s hs with h0 | hgt
  · exact le_of_eq h0.symm
  · have h := hgt s hs
    rw [DOF_RANK_TOLERANCE_real] at h
    by_contra hneg
    have hneg : s < 0 := not_le.mp hneg
    have : (1e-8 : ℝ) * s > s := by
      have h8 : (1e-8 : ℝ) < 1 := by norm_num
      nlinarith
    linarith

/-- For a non-increasing non-negative spectrum the zero singular values are exactly those at
positions `≥ rank` (positions beyond the list count as zero: padding). -/
theorem getD_eq_zero_iff_rank (sigma : List ℝ) (hs : sigma.Pairwise (· ≥ ·))
    (hnn : ∀ s ∈ sigma, 0 ≤ s) (k : Nat) : sigma.getD k 0 = 0 ↔ dofRank sigma ≤ k := by
  induction sigma generalizing k with
  | nil => simp [dofRank]
  | cons s rest ih =>
    obtain ⟨hhead, htail⟩ := List.pairwise_cons.mp hs
    have ih' := ih htail (fun a ha => hnn a (List.mem_cons_of_mem _ ha))
    by_cases h0 : s = 0
    · have hall : ∀ a ∈ rest, a = 0 := fun a ha =>
        le_antisymm (h0 ▸ hhead a ha) (hnn a (List.mem_cons_of_mem _ ha))
      have hr0 : dofRank rest = 0 := by
        unfold dofRank
        rw [List.length_eq_zero_iff, List.filter_eq_nil_iff]
        intro a ha
        simp [hall a ha]
      have hr : dofRank (s :: rest) = 0 := by
        unfold dofRank at hr0 ⊢
        rw [List.filter_cons]
        simpa [h0] using hall
      rw [hr]
      cases k with
      | zero => simp [h0]
      | succ k =>
        simp only [List.getD_cons_succ, Nat.zero_le, iff_true]
        exact (ih' k).mpr (by omega)
    · have hr : dofRank (s :: rest) = dofRank rest + 1 := by
        unfold dofRank
        rw [List.filter_cons]
        simp [h0]
      rw [hr]
      cases k with
      | zero => simp [h0]
      | succ k =>
        simp only [List.getD_cons_succ, Nat.add_le_add_iff_right]
        exact ih' k

open Matrix in
/-- **Freedom analysis reports exactly the variables that can still move** (ℝ, well-separated
case).  Let `J` be the Jacobian, `sigma`/`V` the SVD output as lists, meeting the SVD contract
`SvdSpec` (with `sigma` padded by zeros and read non-increasing).  Under the spectrum gap and the
participation gap, the analysis succeeds and variable `j < n` is reported iff there is a direction
`v` with `J v = 0` (all constraints stay satisfied to first order) and `v j ≠ 0`. -/
theorem dof_spec {m : Type} [Fintype m] {n : Nat} (J : Matrix m (Fin n) ℝ)
    (sigma : List ℝ) (V : List (List ℝ))
    (hne : sigma ≠ [])
    (hsorted : sigma.Pairwise (· ≥ ·))
    (hV : ∀ j < n, ∃ row, V[j]? = some row ∧ n ≤ row.length)
    (hgapS : ∀ s ∈ sigma, s = 0 ∨ ∀ s' ∈ sigma, Gen.DOF_RANK_TOLERANCE * s' < s)
    (hgapP : ∀ j < n, partic V (dofRank sigma) n j = 0 ∨
      ∀ j' < n, Gen.DOF_PARTICIPATION_TOLERANCE * partic V (dofRank sigma) n j'
        < partic V (dofRank sigma) n j)
    (hsvd : GN.SvdSpec J (fun k : Fin n => sigma.getD k 0) (fun j k : Fin n => entryR V j k)) :
    ∃ out, dofCalculate sigma V n = .ok out ∧
      ∀ (j : Nat) (hj : j < n), j ∈ out ↔ ∃ v : Fin n → ℝ, J *ᵥ v = 0 ∧ v ⟨j, hj⟩ ≠ 0 := by
  obtain ⟨out, hout, hmem⟩ := mem_dofCalculate_iff sigma V n hne hV hgapS hgapP
  refine ⟨out, hout, ?_⟩
  intro j hj
  have hz := getD_eq_zero_iff_rank sigma hsorted (gap_nonneg sigma hgapS)
  rw [GN.participates_iff hsvd, hmem]
  constructor
  · rintro ⟨_, k, hk1, hk2, hne⟩
    exact ⟨⟨k, hk2⟩, (hz k).mpr hk1, hne⟩
  · rintro ⟨k, hk0, hne⟩
    exact ⟨hj, k.1, (hz k.1).mp hk0, k.2, hne⟩

open Matrix in
/-- **A variable mentioned by no constraint is always reported** (zero Jacobian column), under the
hypotheses of `dof_spec`. -/
theorem unmentioned_reported {m : Type} [Fintype m] {n : Nat} (J : Matrix m (Fin n) ℝ)
    (sigma : List ℝ) (V : List (List ℝ))
    (hne : sigma ≠ [])
    (hsorted : sigma.Pairwise (· ≥ ·))
    (hV : ∀ j < n, ∃ row, V[j]? = some row ∧ n ≤ row.length)
    (hgapS : ∀ s ∈ sigma, s = 0 ∨ ∀ s' ∈ sigma, Gen.DOF_RANK_TOLERANCE * s' < s)
    (hgapP : ∀ j < n, partic V (dofRank sigma) n j = 0 ∨
      ∀ j' < n, Gen.DOF_PARTICIPATION_TOLERANCE * partic V (dofRank sigma) n j'
        < partic V (dofRank sigma) n j)
    (hsvd : GN.SvdSpec J (fun k : Fin n => sigma.getD k 0) (fun j k : Fin n => entryR V j k))
    (j : Nat) (hj : j < n) (hcol : ∀ i, J i ⟨j, hj⟩ = 0) :
    ∃ out, dofCalculate sigma V n = .ok out ∧ j ∈ out := by
  obtain ⟨out, hout, hmem⟩ := dof_spec J sigma V hne hsorted hV hgapS hgapP hsvd
  exact ⟨out, hout, (hmem j hj).mpr (GN.unmentioned_in_kernel J ⟨j, hj⟩ hcol)⟩

open Matrix in
/-- **A fully pinned variable is never reported**: if some Jacobian row is `c • e_j` with `c ≠ 0`
(what a `Fixed` request contributes), `j` is not in the report, under the hypotheses of
`dof_spec`. -/
theorem pinned_not_reported {m : Type} [Fintype m] {n : Nat} (J : Matrix m (Fin n) ℝ)
    (sigma : List ℝ) (V : List (List ℝ))
    (hne : sigma ≠ [])
    (hsorted : sigma.Pairwise (· ≥ ·))
    (hV : ∀ j < n, ∃ row, V[j]? = some row ∧ n ≤ row.length)
    (hgapS : ∀ s ∈ sigma, s = 0 ∨ ∀ s' ∈ sigma, Gen.DOF_RANK_TOLERANCE * s' < s)
    (hgapP : ∀ j < n, partic V (dofRank sigma) n j = 0 ∨
      ∀ j' < n, Gen.DOF_PARTICIPATION_TOLERANCE * partic V (dofRank sigma) n j'
        < partic V (dofRank sigma) n j)
    (hsvd : GN.SvdSpec J (fun k : Fin n => sigma.getD k 0) (fun j k : Fin n => entryR V j k))
    (j : Nat) (hj : j < n) (i : m) (c : ℝ) (hc : c ≠ 0)
    (hrow : ∀ j', J i j' = if j' = ⟨j, hj⟩ then c else 0) :
    ∃ out, dofCalculate sigma V n = .ok out ∧ j ∉ out := by
  obtain ⟨out, hout, hmem⟩ := dof_spec J sigma V hne hsorted hV hgapS hgapP hsvd
  refine ⟨out, hout, fun hin => ?_⟩
  obtain ⟨v, hv, hvj⟩ := (hmem j hj).mp hin
  exact hvj (GN.pinned_not_in_kernel J ⟨j, hj⟩ i c hc hrow v hv)

open Matrix in
/-- **What the participation number measures**: under the SVD contract, with a non-increasing
non-negative spectrum, the squared participation of variable `j` computed by the code is the
squared length of the orthogonal projection of the unit vector `e_j` on `ker J`
(`GN.kerProj`, characterised by `GN.kerProj_in_kernel`, `GN.kerProj_residual_orth`,
`GN.kerProj_unique`). -/
theorem partic_sq_eq_projection {m : Type} [Fintype m] {n : Nat} (J : Matrix m (Fin n) ℝ)
    (sigma : List ℝ) (V : List (List ℝ))
    (hsorted : sigma.Pairwise (· ≥ ·)) (hnn : ∀ s ∈ sigma, 0 ≤ s)
    (hsvd : GN.SvdSpec J (fun k : Fin n => sigma.getD k 0) (fun j k : Fin n => entryR V j k))
    (j : Fin n) :
    partic V (dofRank sigma) n j ^ 2 =
      GN.kerProj (fun k : Fin n => sigma.getD k 0) (fun j k : Fin n => entryR V j k) j ⬝ᵥ
      GN.kerProj (fun k : Fin n => sigma.getD k 0) (fun j k : Fin n => entryR V j k) j := by
  rw [← GN.participation_eq_projection hsvd j]
  unfold partic
  rw [Real.sq_sqrt (Finset.sum_nonneg (fun k _ => sq_nonneg _)), Finset.sum_filter,
    Fin.sum_univ_eq_sum_range (fun k => if sigma.getD k 0 = 0 then entryR V j k ^ 2 else 0) n,
    ← Finset.sum_filter]
  apply Finset.sum_congr _ (fun _ _ => rfl)
  ext k
  rw [Finset.mem_Ico, Finset.mem_filter, Finset.mem_range,
    getD_eq_zero_iff_rank sigma hsorted hnn k, and_comm]

/-- The gap hypotheses in the "`> tolerance · maximum`" form: any upper bound `M` of the values
(e.g. `σ_max`, the head of a non-increasing spectrum) can be used to establish them. -/
theorem gap_of_bound (tol M : ℝ) (htol : 0 ≤ tol) (xs : List ℝ) (hM : ∀ x ∈ xs, x ≤ M)
    (h : ∀ x ∈ xs, x = 0 ∨ tol * M < x) :
    ∀ x ∈ xs, x = 0 ∨ ∀ x' ∈ xs, tol * x' < x := by
  intro x hx
  rcases h x hx with h0 | hgt
  · exact Or.inl h0
  · exact Or.inr (fun x' hx' => lt_of_le_of_lt (mul_le_mul_of_nonneg_left (hM x' hx') htol) hgt)

/-! ### Non-vacuity: the 1×2 system `J = [1 0]` (variable 0 pinned, variable 1 unmentioned),
`sigma = [1]`, `V = I₂` meets every hypothesis, and the report is `[1]`. -/

section Example
open Matrix

/-- Example: one non-zero singular value. -/
private theorem ex_rank : dofRank [1] = 1 := by simp [dofRank]

/-- Example: variable 0 has participation 0. -/
private theorem ex_p0 : partic [[1, 0], [0, 1]] 1 2 0 = 0 := by
  have : Finset.Ico 1 2 = {1} := by decide
  simp [partic, this, entryR]

/-- Example: variable 1 has participation 1. -/
private theorem ex_p1 : partic [[1, 0], [0, 1]] 1 2 1 = 1 := by
  have : Finset.Ico 1 2 = {1} := by decide
  simp [partic, this, entryR]

/-- Example: `V` is 2×2. -/
private theorem ex_hV : ∀ j < 2, ∃ row, ([[1, 0], [0, 1]] : List (List ℝ))[j]? = some row ∧
    2 ≤ row.length := by
  intro j hj
  have : j = 0 ∨ j = 1 := by omega
  rcases this with rfl | rfl <;> simp

/-- Example: the spectrum gap holds. -/
private theorem ex_gapS : ∀ s ∈ ([1] : List ℝ), s = 0 ∨
    ∀ s' ∈ ([1] : List ℝ), Gen.DOF_RANK_TOLERANCE * s' < s := by
  intro s hs
  simp only [List.mem_singleton] at hs
  subst hs
  right
  intro s' hs'
  simp only [List.mem_singleton] at hs'
  subst hs'
  rw [DOF_RANK_TOLERANCE_real]; norm_num

/-- Example: the participation gap holds. -/
private theorem ex_gapP : ∀ j < 2, partic [[1, 0], [0, 1]] (dofRank [1]) 2 j = 0 ∨
    ∀ j' < 2, Gen.DOF_PARTICIPATION_TOLERANCE * partic [[1, 0], [0, 1]] (dofRank [1]) 2 j'
      < partic [[1, 0], [0, 1]] (dofRank [1]) 2 j := by
  intro j hj
  rw [ex_rank]
  have : j = 0 ∨ j = 1 := by omega
  rcases this with rfl | rfl
  · exact Or.inl ex_p0
  · right
    intro j' hj'
    have : j' = 0 ∨ j' = 1 := by omega
    rcases this with rfl | rfl
    · rw [ex_p0, ex_p1]; norm_num
    · rw [ex_p1, DOF_PARTICIPATION_TOLERANCE_real]; norm_num

/-- Example: `sigma = [1]`, `V = I₂` meet the SVD contract for `J = [1 0]`. -/
private theorem ex_svd : GN.SvdSpec (!![1, 0] : Matrix (Fin 1) (Fin 2) ℝ)
    (fun k : Fin 2 => ([1] : List ℝ).getD k 0)
    (fun j k : Fin 2 => entryR [[1, 0], [0, 1]] j k) := by
  have hV : (fun j k : Fin 2 => entryR [[1, 0], [0, 1]] j k) = (1 : Matrix (Fin 2) (Fin 2) ℝ) := by
    ext a b
    fin_cases a <;> fin_cases b <;> simp [entryR]
  rw [hV]
  constructor
  · simp
  · rw [transpose_one, Matrix.one_mul, Matrix.mul_one]
    ext a b
    fin_cases a <;> fin_cases b <;> simp [Matrix.mul_apply]

/-- All hypotheses of `mem_dofCalculate_iff` / `dof_spec` hold for the concrete system, and the
report is exactly `[1]`: the unmentioned variable, not the pinned one. -/
example : dofCalculate ([1] : List ℝ) [[1, 0], [0, 1]] 2 = .ok [1] := by
  rw [dofCalculate_eq _ _ _ (by simp) ex_hV ex_gapS, ex_rank]
  have hmax : maxPartic [[1, 0], [0, 1]] 1 2 = 1 := by
    simp [maxPartic, List.range_succ, ex_p0, ex_p1]
  have hr : List.range 2 = [0, 1] := by decide
  rw [hmax, hr]
  simp [List.filter_cons, ex_p0, ex_p1, DOF_PARTICIPATION_TOLERANCE_real]
  norm_num

example : ∃ out, dofCalculate ([1] : List ℝ) [[1, 0], [0, 1]] 2 = .ok out ∧
    ∀ (j : Nat) (hj : j < 2), j ∈ out ↔
      ∃ v : Fin 2 → ℝ, (!![1, 0] : Matrix (Fin 1) (Fin 2) ℝ) *ᵥ v = 0 ∧ v ⟨j, hj⟩ ≠ 0 :=
  dof_spec _ _ _ (by simp) (by simp) ex_hV ex_gapS ex_gapP ex_svd

end Example

end Ezpz
