/-
C17 when the groups need DIFFERENT numbers of rounds — any number of groups, up to the entry point.

`Real/UnionUnequalRounds.lean` treats two variable-disjoint groups at the level of the Newton loop.
Here:

1. `freeStep_union`, `freeStep_union_inv`, `freeStep_union_iff`, `freeRun_union`,
   `freeRun_union_inv`, `freeRun_union_iff` — a free round (`FreeStep`: a round computed from the
   data of a request list, both stopping tests ignored) of the two-group union at `x1 ++ x2` is the
   concatenation of the groups' free rounds, and conversely; the same for `j` free rounds.
1b. `freeStep_relabel`, `freeRun_relabel`, `done_byResidual_of_relabel` — request ids are labels:
   free rounds and the residual test do not see them.
2. `EGroup`, `unionAll`, `totalN`, `startAll` — the union of `k` groups of entries in the contiguous
   layout (an iterated `unionEntries`; each group carries the map `lab` under which its request ids
   appear in the union).  `freeRun_unionAll_inv`, `freeRun_unionAll`, `freeRun_unionAll_iff`: `j`
   free rounds of the `k`-fold union split into `j` free rounds of every group, and conversely
   (exact solvers with one common positive damping).
3. `unionAll_done_blocks` — when the `k`-fold union's round returns at the residual test, every
   group's own round at its block returns at the residual test.
4. `LocalHyp`, `radius`, `radius_pos`, `radius_spec`, `LGroup`, `LGroup.Ok`,
   `unionMany_unequal_rounds_loop_partial` — `k` groups, each near a regular zero, every solo loop
   and the union's loop return at the residual test, NO relation between the iteration counts
   assumed: no solo count exceeds the union's, block `i` of the union's values is group `i`'s solo
   result advanced by the missing free rounds, within `2 · (1/2)^(solo rounds) ‖xᵢ − xsᵢ‖` of it.
5. `ManyEx` — three groups meeting every hypothesis of item 4.
6. `enumerate_unionRuns`, `totalN_eGroups`, `startAll_eGroups`: the enumerated requests, number of
   variables and guess values of `unionMany` (`Real/UnionMany.lean`) are a `unionAll`;
   `freeRun_unionMany`: item 2 for the enumerated `unionMany`.
7. `unionRuns_unequal_rounds_partial` — item 4 for the Newton run (`newton`) of the enumerated
   `unionMany`.
8. `solveWithPriority_unionMany_unequal_partial` — the ENTRY POINT for `k ≥ 1` groups, one priority
   level, no freedom analysis: final values and iteration counts of `solve` on the union against
   those of `solve` on every group alone.
9. `ManyEx` (second part) — three groups meeting every hypothesis of item 8.

Not done: the union's unsatisfied list (it is the sweep at the union's final values, which are not
the solo final values — stated as such in item 8, no comparison with the solo lists), a union or a
group that returns at the step test, several priority levels, freedom analysis.
-/
import Ezpz.Real.UnionUnequalRounds
import Ezpz.Real.UnionMany
set_option linter.unusedSectionVars false
set_option linter.unusedSimpArgs false
set_option linter.unusedVariables false
namespace Ezpz
open Transc Matrix Topology

/-! ### 1. Free rounds of the two-group union -/

section Two
variable (es1 es2 : List (Entry ℝ))
  (solveU solve1 solve2 : Nat → List (Triplet ℝ) → List ℝ → Except SolveError (List ℝ))

/-- **A free round of the union is the concatenation of the groups' free rounds** (direction
"groups ⇒ union").  Both groups declared (`Declared esi ni`), `BlockSolve` for the three solvers,
`x1` has `n1` values and `x2` has `n2`.  If group 1's data give a free round `x1 → x1'` and group
2's data a free round `x2 → x2'` (round number `k`, stopping tests ignored), then the union's data at
`x1 ++ x2` give the free round `x1 ++ x2 → x1' ++ x2'`. -/
theorem freeStep_union (n1 n2 : Nat) (hd1 : Declared es1 n1) (hd2 : Declared es2 n2)
    (hB : BlockSolve solveU solve1 solve2 (numRows es1) (numRows es2) n1 n2)
    (k : Nat) (x1 x2 x1' x2' : List ℝ) (hx1 : x1.length = n1) (hx2 : x2.length = n2)
    (h1 : FreeStep es1 solve1 k x1 x1') (h2 : FreeStep es2 solve2 k x2 x2') :
    FreeStep (unionEntries n1 es1 es2) solveU k (x1 ++ x2) (x1' ++ x2') := by
  subst hx1 hx2
  obtain ⟨r1, wr1, t1, wj1, d1, g1, rfl⟩ := h1
  obtain ⟨r2, wr2, t2, wj2, d2, g2, rfl⟩ := h2
  have hr := residualAll_union es1 es2 x1 x2 g1.hdecl r1 r2 wr1 wr2 g1.hres g2.hres
  have hj := jacobianAll_union es1 es2 x1 x2 g1.hdecl t1 t2 wj1 wj2 g1.hjac g2.hjac
  have hs : solveU k (blockJac (numRows es1) x1.length t1 t2) (r1 ++ r2) = .ok (d1 ++ d2) :=
    hB k t1 t2 r1 r2 d1 d2 (residualAll_length _ es1 r1 wr1 g1.hres)
      (residualAll_length _ es2 r2 wr2 g2.hres)
      (jacobianAll_in_range es1 _ _ g1.hdecl t1 wj1 g1.hjac)
      (jacobianAll_in_range es2 _ _ g2.hdecl t2 wj2 g2.hjac) g1.hstep g2.hstep g1.hlen g2.hlen
  refine ⟨r1 ++ r2, wr1 ++ wr2, blockJac (numRows es1) x1.length t1 t2, wj1 ++ wj2, d1 ++ d2,
    ⟨?_, hr, hj, hs, ?_⟩, ?_⟩
  · rw [List.length_append]
    exact declared_unionEntries x1.length x2.length es1 es2 hd1 hd2
  · simp [g1.hlen, g2.hlen]
  · rw [applyStep_append x1 x2 d1 d2 g1.hlen]

/-- **A free round of the union splits into free rounds of the groups** (direction "union ⇒
groups").  Both groups declared, `BlockSolve`, both groups' solvers answer on in-range data
(`AnswersInRange`) with steps of the right length (exact solvers that always answer satisfy both).
If the union's data at `x1 ++ x2` give a free round to `xU'`, then `xU' = x1' ++ x2'` where `xi'` is
the result of group `i`'s free round from `xi`. -/
theorem freeStep_union_inv (n1 n2 : Nat) (hd1 : Declared es1 n1) (hd2 : Declared es2 n2)
    (hB : BlockSolve solveU solve1 solve2 (numRows es1) (numRows es2) n1 n2)
    (hA1 : AnswersInRange solve1 (numRows es1) n1)
    (hlen1 : ∀ k jac r d, solve1 k jac r = .ok d → d.length = n1)
    (hA2 : AnswersInRange solve2 (numRows es2) n2)
    (hlen2 : ∀ k jac r d, solve2 k jac r = .ok d → d.length = n2)
    (k : Nat) (x1 x2 xU' : List ℝ) (hx1 : x1.length = n1) (hx2 : x2.length = n2)
    (hU : FreeStep (unionEntries n1 es1 es2) solveU k (x1 ++ x2) xU') :
    ∃ x1' x2', FreeStep es1 solve1 k x1 x1' ∧ FreeStep es2 solve2 k x2 x2' ∧ xU' = x1' ++ x2' := by
  have hd1' : Declared es1 x1.length := by rw [hx1]; exact hd1
  have hd2' : Declared es2 x2.length := by rw [hx2]; exact hd2
  obtain ⟨r, wr, jac, wj, d, g, hxU⟩ := id hU
  have hres := g.hres
  have hjac := g.hjac
  rw [← hx1] at hres hjac
  obtain ⟨r1, wr1, r2, wr2, hr1, hr2, _, _⟩ := residualAll_union_ok_inv es1 es2 x1 x2 hd1' r wr hres
  obtain ⟨t1, wj1, t2, wj2, hj1, hj2, _, _⟩ := jacobianAll_union_ok_inv es1 es2 x1 x2 hd1' jac wj hjac
  obtain ⟨d1, hs1⟩ := hA1 k t1 r1 (residualAll_length _ es1 r1 wr1 hr1)
    (jacobianAll_in_range es1 _ _ hd1 t1 wj1 hj1)
  obtain ⟨d2, hs2⟩ := hA2 k t2 r2 (residualAll_length _ es2 r2 wr2 hr2)
    (jacobianAll_in_range es2 _ _ hd2 t2 wj2 hj2)
  have F1 : FreeStep es1 solve1 k x1 (applyStep x1 d1) :=
    ⟨r1, wr1, t1, wj1, d1, ⟨hd1', hr1, hj1, hs1, by rw [hlen1 k t1 r1 d1 hs1, hx1]⟩, rfl⟩
  have F2 : FreeStep es2 solve2 k x2 (applyStep x2 d2) :=
    ⟨r2, wr2, t2, wj2, d2, ⟨hd2', hr2, hj2, hs2, by rw [hlen2 k t2 r2 d2 hs2, hx2]⟩, rfl⟩
  exact ⟨_, _, F1, F2, hU.unique
    (freeStep_union es1 es2 solveU solve1 solve2 n1 n2 hd1 hd2 hB k x1 x2 _ _ hx1 hx2 F1 F2)⟩

/-- **Free rounds of the union ⇔ free rounds of both groups** (one round): under the hypotheses of
`freeStep_union_inv`, the union's data give a free round from `x1 ++ x2` to `xU'` exactly when
`xU' = x1' ++ x2'` for free rounds `x1 → x1'` of group 1 and `x2 → x2'` of group 2. -/
theorem freeStep_union_iff (n1 n2 : Nat) (hd1 : Declared es1 n1) (hd2 : Declared es2 n2)
    (hB : BlockSolve solveU solve1 solve2 (numRows es1) (numRows es2) n1 n2)
    (hA1 : AnswersInRange solve1 (numRows es1) n1)
    (hlen1 : ∀ k jac r d, solve1 k jac r = .ok d → d.length = n1)
    (hA2 : AnswersInRange solve2 (numRows es2) n2)
    (hlen2 : ∀ k jac r d, solve2 k jac r = .ok d → d.length = n2)
    (k : Nat) (x1 x2 xU' : List ℝ) (hx1 : x1.length = n1) (hx2 : x2.length = n2) :
    FreeStep (unionEntries n1 es1 es2) solveU k (x1 ++ x2) xU' ↔
      ∃ x1' x2', FreeStep es1 solve1 k x1 x1' ∧ FreeStep es2 solve2 k x2 x2' ∧ xU' = x1' ++ x2' := by
  constructor
  · exact freeStep_union_inv es1 es2 solveU solve1 solve2 n1 n2 hd1 hd2 hB hA1 hlen1 hA2 hlen2 k
      x1 x2 xU' hx1 hx2
  · rintro ⟨x1', x2', h1, h2, rfl⟩
    exact freeStep_union es1 es2 solveU solve1 solve2 n1 n2 hd1 hd2 hB k x1 x2 x1' x2' hx1 hx2 h1 h2

/-- **`j` free rounds of the union from the groups' free rounds** (direction "groups ⇒ union"):
both groups declared, `BlockSolve`; if `j` free rounds of group 1 lead from `x1` to `y1` and `j` free
rounds of group 2 from `x2` to `y2` (same starting round number `k`), then `j` free rounds of the
union lead from `x1 ++ x2` to `y1 ++ y2`. -/
theorem freeRun_union (n1 n2 : Nat) (hd1 : Declared es1 n1) (hd2 : Declared es2 n2)
    (hB : BlockSolve solveU solve1 solve2 (numRows es1) (numRows es2) n1 n2)
    {j k : Nat} {x1 y1 : List ℝ} (h1 : FreeRun es1 solve1 j k x1 y1) :
    ∀ (x2 y2 : List ℝ), x1.length = n1 → x2.length = n2 → FreeRun es2 solve2 j k x2 y2 →
      FreeRun (unionEntries n1 es1 es2) solveU j k (x1 ++ x2) (y1 ++ y2) := by
  induction h1 with
  | zero k x1 =>
    intro x2 y2 _ _ h2
    cases h2
    exact .zero k _
  | succ j k x1 x1' y1 hs1 _ ih =>
    intro x2 y2 hx1 hx2 h2
    cases h2 with
    | succ _ _ _ x2' _ hs2 hr2 =>
      exact .succ j k _ (x1' ++ x2') _
        (freeStep_union es1 es2 solveU solve1 solve2 n1 n2 hd1 hd2 hB k x1 x2 x1' x2' hx1 hx2 hs1 hs2)
        (ih x2' y2 (by rw [hs1.length, hx1]) (by rw [hs2.length, hx2]) hr2)

/-- **`j` free rounds of the union split into `j` free rounds of both groups** (direction "union ⇒
groups"): under the hypotheses of `freeStep_union_inv`, if `j` free rounds of the union lead from
`x1 ++ x2` to `yU`, then `yU = y1 ++ y2` with `yi` the result of `j` free rounds of group `i` from
`xi`. -/
theorem freeRun_union_inv (n1 n2 : Nat) (hd1 : Declared es1 n1) (hd2 : Declared es2 n2)
    (hB : BlockSolve solveU solve1 solve2 (numRows es1) (numRows es2) n1 n2)
    (hA1 : AnswersInRange solve1 (numRows es1) n1)
    (hlen1 : ∀ k jac r d, solve1 k jac r = .ok d → d.length = n1)
    (hA2 : AnswersInRange solve2 (numRows es2) n2)
    (hlen2 : ∀ k jac r d, solve2 k jac r = .ok d → d.length = n2) :
    ∀ (j k : Nat) (x1 x2 yU : List ℝ), x1.length = n1 → x2.length = n2 →
      FreeRun (unionEntries n1 es1 es2) solveU j k (x1 ++ x2) yU →
      ∃ y1 y2, FreeRun es1 solve1 j k x1 y1 ∧ FreeRun es2 solve2 j k x2 y2 ∧ yU = y1 ++ y2 := by
  intro j
  induction j with
  | zero =>
    intro k x1 x2 yU _ _ h
    cases h
    exact ⟨x1, x2, .zero k x1, .zero k x2, rfl⟩
  | succ j ih =>
    intro k x1 x2 yU hx1 hx2 h
    cases h with
    | succ _ _ _ xU' _ hs hr =>
      obtain ⟨x1', x2', hs1, hs2, rfl⟩ := freeStep_union_inv es1 es2 solveU solve1 solve2 n1 n2 hd1
        hd2 hB hA1 hlen1 hA2 hlen2 k x1 x2 xU' hx1 hx2 hs
      obtain ⟨y1, y2, hr1, hr2, hy⟩ :=
        ih (k + 1) x1' x2' yU (by rw [hs1.length, hx1]) (by rw [hs2.length, hx2]) hr
      exact ⟨y1, y2, .succ j k x1 x1' y1 hs1 hr1, .succ j k x2 x2' y2 hs2 hr2, hy⟩

/-- **`j` free rounds of the union ⇔ `j` free rounds of both groups.** -/
theorem freeRun_union_iff (n1 n2 : Nat) (hd1 : Declared es1 n1) (hd2 : Declared es2 n2)
    (hB : BlockSolve solveU solve1 solve2 (numRows es1) (numRows es2) n1 n2)
    (hA1 : AnswersInRange solve1 (numRows es1) n1)
    (hlen1 : ∀ k jac r d, solve1 k jac r = .ok d → d.length = n1)
    (hA2 : AnswersInRange solve2 (numRows es2) n2)
    (hlen2 : ∀ k jac r d, solve2 k jac r = .ok d → d.length = n2)
    (j k : Nat) (x1 x2 yU : List ℝ) (hx1 : x1.length = n1) (hx2 : x2.length = n2) :
    FreeRun (unionEntries n1 es1 es2) solveU j k (x1 ++ x2) yU ↔
      ∃ y1 y2, FreeRun es1 solve1 j k x1 y1 ∧ FreeRun es2 solve2 j k x2 y2 ∧ yU = y1 ++ y2 := by
  constructor
  · exact freeRun_union_inv es1 es2 solveU solve1 solve2 n1 n2 hd1 hd2 hB hA1 hlen1 hA2 hlen2 j k
      x1 x2 yU hx1 hx2
  · rintro ⟨y1, y2, h1, h2, rfl⟩
    exact freeRun_union es1 es2 solveU solve1 solve2 n1 n2 hd1 hd2 hB h1 x2 y2 hx1 hx2 h2

end Two

/-! ### 1b. Request ids are labels: free rounds do not see them -/

/-- Relabelling by the identity changes nothing. -/
@[simp] theorem Entry.relabel_self (e : Entry ℝ) : e.relabel (fun i => i) = e := rfl

/-- Relabelling a list by the identity changes nothing. -/
@[simp] theorem map_relabel_self (es : List (Entry ℝ)) :
    es.map (Entry.relabel (fun i => i)) = es := by
  induction es with
  | nil => rfl
  | cons e rest ih => simp [ih]

/-- Whether every declared id is `< n` does not depend on the request ids (converse of
`declared_relabel`). -/
theorem declared_of_relabel (f : Nat → Nat) (es : List (Entry ℝ)) (n : Nat)
    (h : Declared (es.map (Entry.relabel f)) n) : Declared es n :=
  fun e he i hi => h (e.relabel f) (List.mem_map_of_mem he) i hi

/-- The residual of the relabelled requests evaluates exactly when the original one does, to the
same components. -/
theorem residualAll_relabel_ok (f : Nat → Nat) (es : List (Entry ℝ)) (x : Nat → Option ℝ)
    (r : List ℝ) :
    (∃ w, residualAll (es.map (Entry.relabel f)) x = .ok (r, w)) ↔
      ∃ w, residualAll es x = .ok (r, w) := by
  rw [residualAll_relabel]
  cases residualAll es x with
  | error e => simp [Except.map]
  | ok p => obtain ⟨a, b⟩ := p; simp [Except.map]

/-- The Jacobian of the relabelled requests evaluates exactly when the original one does, to the
same contributions. -/
theorem jacobianAll_relabel_ok (f : Nat → Nat) (es : List (Entry ℝ)) (x : Nat → Option ℝ)
    (t : List (Triplet ℝ)) :
    (∃ w, jacobianAll (es.map (Entry.relabel f)) x = .ok (t, w)) ↔
      ∃ w, jacobianAll es x = .ok (t, w) := by
  rw [jacobianAll_relabel]
  cases jacobianAll es x with
  | error e => simp [Except.map]
  | ok p => obtain ⟨a, b⟩ := p; simp [Except.map]

/-- **A free round does not see the request ids.** -/
theorem freeStep_relabel (f : Nat → Nat) (es : List (Entry ℝ))
    (solve : Nat → List (Triplet ℝ) → List ℝ → Except SolveError (List ℝ)) (k : Nat)
    (x x' : List ℝ) :
    FreeStep (es.map (Entry.relabel f)) solve k x x' ↔ FreeStep es solve k x x' := by
  constructor
  · rintro ⟨r, wr, jac, wj, d, g, rfl⟩
    obtain ⟨wr0, hr⟩ := (residualAll_relabel_ok f es _ r).mp ⟨wr, g.hres⟩
    obtain ⟨wj0, hj⟩ := (jacobianAll_relabel_ok f es _ jac).mp ⟨wj, g.hjac⟩
    exact ⟨r, wr0, jac, wj0, d, ⟨declared_of_relabel f es _ g.hdecl, hr, hj, g.hstep, g.hlen⟩, rfl⟩
  · rintro ⟨r, wr, jac, wj, d, g, rfl⟩
    obtain ⟨wr0, hr⟩ := (residualAll_relabel_ok f es _ r).mpr ⟨wr, g.hres⟩
    obtain ⟨wj0, hj⟩ := (jacobianAll_relabel_ok f es _ jac).mpr ⟨wj, g.hjac⟩
    exact ⟨r, wr0, jac, wj0, d, ⟨declared_relabel f es _ g.hdecl, hr, hj, g.hstep, g.hlen⟩, rfl⟩

/-- **Free rounds do not see the request ids.** -/
theorem freeRun_relabel (f : Nat → Nat) (es : List (Entry ℝ))
    (solve : Nat → List (Triplet ℝ) → List ℝ → Except SolveError (List ℝ)) (j k : Nat)
    (x y : List ℝ) :
    FreeRun (es.map (Entry.relabel f)) solve j k x y ↔ FreeRun es solve j k x y := by
  constructor
  · intro h
    induction h with
    | zero k x => exact .zero k x
    | succ j k x x' y hs _ ih => exact .succ j k x x' y ((freeStep_relabel f es solve k x x').mp hs) ih
  · intro h
    induction h with
    | zero k x => exact .zero k x
    | succ j k x x' y hs _ ih => exact .succ j k x x' y ((freeStep_relabel f es solve k x x').mpr hs) ih

/-- **Whether a round returns at the residual test does not depend on the request ids** (nor on the
solver or the incoming warnings). -/
theorem done_byResidual_of_relabel (f : Nat → Nat) (es : List (Entry ℝ)) (cfg : Config ℝ)
    (solve solve' : Nat → List (Triplet ℝ) → List ℝ → Except SolveError (List ℝ)) (k : Nat)
    (x : List ℝ) (ws ws' : List (Warning ℝ))
    (h : ∃ res, newtonStep (es.map (Entry.relabel f)) cfg solve k x ws = .done res ∧
      res.byResidual = true) :
    ∃ res, newtonStep es cfg solve' k x ws' = .done res ∧ res.byResidual = true := by
  obtain ⟨res, h⟩ := h
  obtain ⟨r, wr, jac, wj, m, hr, hj, hm, hl, _⟩ :=
    (newtonStep_done_byResidual_iff _ cfg solve k x ws res).mp h
  obtain ⟨wr0, hr0⟩ := (residualAll_relabel_ok f es _ r).mp ⟨wr, hr⟩
  obtain ⟨wj0, hj0⟩ := (jacobianAll_relabel_ok f es _ jac).mp ⟨wj, hj⟩
  exact ⟨_, (newtonStep_done_byResidual_iff es cfg solve' k x ws' _).mpr
    ⟨r, wr0, jac, wj0, m, hr0, hj0, hm, hl, rfl⟩⟩

/-! ### 2. The union of `k` groups of entries -/

/-- A group at the level of entries: its requests `es` over the ids `0 … n-1`, its number of
variables `n`, the solver it is solved with on its own, its start values `x`, and the map `lab`
that says under which request id each of its requests appears in the union (`fun i => i` when the
groups' request ids are used as they are; `(· + number of requests before the group)` in the
enumerated `unionMany`).  Request ids only label warnings and reports; no value depends on them. -/
structure EGroup where
  /-- the group's requests -/
  es : List (Entry ℝ)
  /-- the group's number of variables -/
  n : Nat
  /-- the group's own solver -/
  solve : Nat → List (Triplet ℝ) → List ℝ → Except SolveError (List ℝ)
  /-- the group's start values -/
  x : List ℝ
  /-- how the group's request ids appear in the union -/
  lab : Nat → Nat

/-- The group's requests as they appear in the union, before the variable shift: request ids mapped
through `lab`. -/
def EGroup.ues (G : EGroup) : List (Entry ℝ) := G.es.map (Entry.relabel G.lab)

/-- Relabelling keeps the number of rows. -/
theorem EGroup.numRows_ues (G : EGroup) : numRows G.ues = numRows G.es := numRows_relabel _ _

/-- **The union of `k` groups of entries** in the contiguous layout: the first group (its request
ids mapped through its `lab`) united (`unionEntries`) with the union of the others, so that group
`i`'s variable ids are shifted by `n_0 + … + n_{i-1}`. -/
def unionAll : List EGroup → List (Entry ℝ)
  | [] => []
  | G :: rest => unionEntries G.n G.ues (unionAll rest)

/-- The union's number of variables: the sum of the groups' numbers of variables. -/
def totalN : List EGroup → Nat
  | [] => 0
  | G :: rest => G.n + totalN rest

/-- The union's start values: the groups' start values concatenated. -/
def startAll (Gs : List EGroup) : List ℝ := (Gs.map (·.x)).flatten

/-- The union's number of variables is the sum of the groups'. -/
theorem totalN_eq_sum (Gs : List EGroup) : totalN Gs = (Gs.map (·.n)).sum := by
  induction Gs with
  | nil => rfl
  | cons G rest ih => simp [totalN, ih]

/-- The union's rows are the groups' rows. -/
theorem numRows_unionAll_cons (G : EGroup) (rest : List EGroup) :
    numRows (unionAll (G :: rest)) = numRows G.es + numRows (unionAll rest) := by
  rw [← G.numRows_ues]; exact numRows_unionEntries _ _ _

/-- The union of declared groups declares only ids below the total number of variables. -/
theorem declared_unionAll : ∀ Gs : List EGroup, (∀ G ∈ Gs, Declared G.es G.n) →
    Declared (unionAll Gs) (totalN Gs) := by
  intro Gs
  induction Gs with
  | nil => intro _ e he; simp [unionAll] at he
  | cons G rest ih =>
    intro h
    exact declared_unionEntries G.n (totalN rest) G.ues (unionAll rest)
      (declared_relabel _ _ _ (h G (by simp))) (ih (fun G' hG' => h G' (by simp [hG'])))

/-- The start values of the union have one value per variable when every group's have. -/
theorem startAll_length : ∀ Gs : List EGroup, (∀ G ∈ Gs, G.x.length = G.n) →
    (startAll Gs).length = totalN Gs := by
  intro Gs
  induction Gs with
  | nil => intro _; rfl
  | cons G rest ih =>
    intro h
    have := ih (fun G' hG' => h G' (by simp [hG']))
    simp only [startAll] at this
    simp only [startAll, List.map_cons, List.flatten_cons, List.length_append, totalN,
      h G (by simp), this]

/-- The union of a non-empty list of groups whose first group is non-empty is non-empty. -/
theorem unionAll_ne_nil (G : EGroup) (rest : List EGroup) (h : G.es ≠ []) :
    unionAll (G :: rest) ≠ [] := by
  simp only [unionAll, unionEntries, EGroup.ues]
  intro hc
  exact h (List.map_eq_nil_iff.mp (List.append_eq_nil_iff.mp hc).1)

/-- The union with an empty second group is the first group. -/
theorem unionEntries_nil_right (n : Nat) (es : List (Entry ℝ)) : unionEntries n es [] = es := by
  simp [unionEntries, shiftEntries]

/-- Free rounds of the empty request list from the empty value list, for a solver that is exact for
`0 × 0` systems and answers: nothing moves. -/
theorem freeRun_nil (solve : Nat → List (Triplet ℝ) → List ℝ → Except SolveError (List ℝ))
    (lam : Nat → ℝ) (hS : ExactSolve solve 0 0 lam)
    (hA : AnswersInRange solve 0 0) : ∀ j k : Nat, FreeRun [] solve j k [] [] := by
  intro j
  induction j with
  | zero => intro k; exact .zero k []
  | succ j ih =>
    intro k
    obtain ⟨d, hd⟩ := hA k [] [] rfl (by intro t ht; simp at ht)
    have hl := (hS k [] [] d hd).1
    have hd0 : d = [] := List.length_eq_zero_iff.mp hl
    subst hd0
    refine .succ j k [] [] [] ⟨[], [], [], [], [], ⟨?_, rfl, rfl, hd, rfl⟩, rfl⟩ (ih (k + 1))
    intro e he
    simp at he

/-- **`j` free rounds of the `k`-fold union split into `j` free rounds of every group** (direction
"union ⇒ groups").  Every group declared, every group's solver exact with the damping `lam k > 0`
(`ExactSolve`) and answering on in-range data (`AnswersInRange`), every group's start `G.x` with
`G.n` values; the union's solver exact with the same damping for the union's dimensions and
answering on in-range data.  If `j` free rounds of the union lead from the concatenated starts to
`yU`, then `yU` is the concatenation of lists `ys`, one per group, and `ys i` is the result of `j`
free rounds of group `i` from its own start, computed with its own solver. -/
theorem freeRun_unionAll_inv (lam : Nat → ℝ) (hlam : ∀ k, 0 < lam k) (j k : Nat) :
    ∀ (Gs : List EGroup), (∀ G ∈ Gs, Declared G.es G.n) →
      (∀ G ∈ Gs, ExactSolve G.solve (numRows G.es) G.n lam) →
      (∀ G ∈ Gs, AnswersInRange G.solve (numRows G.es) G.n) →
      (∀ G ∈ Gs, G.x.length = G.n) →
      ∀ (solveU : Nat → List (Triplet ℝ) → List ℝ → Except SolveError (List ℝ)),
      ExactSolve solveU (numRows (unionAll Gs)) (totalN Gs) lam →
      AnswersInRange solveU (numRows (unionAll Gs)) (totalN Gs) →
      ∀ yU, FreeRun (unionAll Gs) solveU j k (startAll Gs) yU →
      ∃ ys : List (List ℝ), yU = ys.flatten ∧
        List.Forall₂ (fun G y => FreeRun G.es G.solve j k G.x y) Gs ys := by
  intro Gs
  induction Gs with
  | nil =>
    intro _ _ _ _ solveU _ _ yU h
    have hl := h.length
    simp only [startAll, List.map_nil, List.flatten_nil, List.length_nil] at hl
    exact ⟨[], by simpa using hl, .nil⟩
  | cons G rest ih =>
    intro hd hS hA hx solveU hU hAU yU h
    have hdR : ∀ G' ∈ rest, Declared G'.es G'.n := fun G' hG' => hd G' (by simp [hG'])
    have hSR : ∀ G' ∈ rest, ExactSolve G'.solve (numRows G'.es) G'.n lam :=
      fun G' hG' => hS G' (by simp [hG'])
    have hAR : ∀ G' ∈ rest, AnswersInRange G'.solve (numRows G'.es) G'.n :=
      fun G' hG' => hA G' (by simp [hG'])
    have hxR : ∀ G' ∈ rest, G'.x.length = G'.n := fun G' hG' => hx G' (by simp [hG'])
    obtain ⟨sR, hsR, htR⟩ := exists_exactSolve (numRows (unionAll rest)) (totalN rest) lam hlam
    have hAsR : AnswersInRange sR (numRows (unionAll rest)) (totalN rest) :=
      fun k jac r _ _ => htR k jac r
    rw [numRows_unionAll_cons] at hU hAU
    have hB : BlockSolve solveU G.solve sR (numRows G.ues) (numRows (unionAll rest)) G.n
        (totalN rest) := by
      rw [G.numRows_ues]
      exact blockSolve_of_exact solveU G.solve sR _ _ _ _ lam hlam hU (hS G (by simp)) hsR
        (fun k jac r hr hj => hAU k jac r hr hj)
    have hstart : startAll (G :: rest) = G.x ++ startAll rest := by
      simp [startAll]
    rw [hstart] at h
    obtain ⟨y1, yR, h1, hR, rfl⟩ := freeRun_union_inv G.ues (unionAll rest) solveU G.solve sR G.n
      (totalN rest) (declared_relabel _ _ _ (hd G (by simp))) (declared_unionAll rest hdR) hB
      (by rw [G.numRows_ues]; exact hA G (by simp))
      (fun k jac r d h => (hS G (by simp) k jac r d h).1) hAsR
      (fun k jac r d h => (hsR k jac r d h).1) j k G.x (startAll rest) yU (hx G (by simp))
      (startAll_length rest hxR) h
    obtain ⟨ys, rfl, hys⟩ := ih hdR hSR hAR hxR sR hsR hAsR yR hR
    exact ⟨y1 :: ys, by simp, .cons ((freeRun_relabel _ _ _ _ _ _ _).mp h1) hys⟩

/-- **`j` free rounds of the `k`-fold union from the groups' free rounds** (direction "groups ⇒
union"): under the hypotheses of `freeRun_unionAll_inv`, if for every group `j` free rounds lead
from its start to `ys i`, then `j` free rounds of the union (with the union's solver) lead from the
concatenated starts to the concatenation of the `ys i`. -/
theorem freeRun_unionAll (lam : Nat → ℝ) (hlam : ∀ k, 0 < lam k) (j k : Nat) :
    ∀ (Gs : List EGroup), (∀ G ∈ Gs, Declared G.es G.n) →
      (∀ G ∈ Gs, ExactSolve G.solve (numRows G.es) G.n lam) →
      (∀ G ∈ Gs, G.x.length = G.n) →
      ∀ (solveU : Nat → List (Triplet ℝ) → List ℝ → Except SolveError (List ℝ)),
      ExactSolve solveU (numRows (unionAll Gs)) (totalN Gs) lam →
      AnswersInRange solveU (numRows (unionAll Gs)) (totalN Gs) →
      ∀ ys : List (List ℝ), List.Forall₂ (fun G y => FreeRun G.es G.solve j k G.x y) Gs ys →
      FreeRun (unionAll Gs) solveU j k (startAll Gs) ys.flatten := by
  intro Gs
  induction Gs with
  | nil =>
    intro _ _ _ solveU hU hAU ys h
    cases h
    exact freeRun_nil solveU lam hU hAU j k
  | cons G rest ih =>
    intro hd hS hx solveU hU hAU ys h
    have hdR : ∀ G' ∈ rest, Declared G'.es G'.n := fun G' hG' => hd G' (by simp [hG'])
    have hSR : ∀ G' ∈ rest, ExactSolve G'.solve (numRows G'.es) G'.n lam :=
      fun G' hG' => hS G' (by simp [hG'])
    have hxR : ∀ G' ∈ rest, G'.x.length = G'.n := fun G' hG' => hx G' (by simp [hG'])
    obtain ⟨sR, hsR, htR⟩ := exists_exactSolve (numRows (unionAll rest)) (totalN rest) lam hlam
    have hAsR : AnswersInRange sR (numRows (unionAll rest)) (totalN rest) :=
      fun k jac r _ _ => htR k jac r
    rw [numRows_unionAll_cons] at hU hAU
    have hB : BlockSolve solveU G.solve sR (numRows G.ues) (numRows (unionAll rest)) G.n
        (totalN rest) := by
      rw [G.numRows_ues]
      exact blockSolve_of_exact solveU G.solve sR _ _ _ _ lam hlam hU (hS G (by simp)) hsR
        (fun k jac r hr hj => hAU k jac r hr hj)
    cases h with
    | cons h1 hR =>
      rename_i y1 ysR
      have hstart : startAll (G :: rest) = G.x ++ startAll rest := by
        simp [startAll]
      rw [hstart, List.flatten_cons]
      exact freeRun_union G.ues (unionAll rest) solveU G.solve sR G.n (totalN rest)
        (declared_relabel _ _ _ (hd G (by simp)))
        (declared_unionAll rest hdR) hB ((freeRun_relabel _ _ _ _ _ _ _).mpr h1) (startAll rest)
        ysR.flatten (hx G (by simp))
        (startAll_length rest hxR) (ih hdR hSR hxR sR hsR hAsR ysR hR)

/-- **`j` free rounds of the `k`-fold union ⇔ `j` free rounds of every group.** -/
theorem freeRun_unionAll_iff (lam : Nat → ℝ) (hlam : ∀ k, 0 < lam k) (j k : Nat)
    (Gs : List EGroup) (hd : ∀ G ∈ Gs, Declared G.es G.n)
    (hS : ∀ G ∈ Gs, ExactSolve G.solve (numRows G.es) G.n lam)
    (hA : ∀ G ∈ Gs, AnswersInRange G.solve (numRows G.es) G.n)
    (hx : ∀ G ∈ Gs, G.x.length = G.n)
    (solveU : Nat → List (Triplet ℝ) → List ℝ → Except SolveError (List ℝ))
    (hU : ExactSolve solveU (numRows (unionAll Gs)) (totalN Gs) lam)
    (hAU : AnswersInRange solveU (numRows (unionAll Gs)) (totalN Gs)) (yU : List ℝ) :
    FreeRun (unionAll Gs) solveU j k (startAll Gs) yU ↔
      ∃ ys : List (List ℝ), yU = ys.flatten ∧
        List.Forall₂ (fun G y => FreeRun G.es G.solve j k G.x y) Gs ys := by
  constructor
  · exact freeRun_unionAll_inv lam hlam j k Gs hd hS hA hx solveU hU hAU yU
  · rintro ⟨ys, rfl, h⟩
    exact freeRun_unionAll lam hlam j k Gs hd hS hx solveU hU hAU ys h

/-! ### 3. The residual test of the `k`-fold union, block by block -/

/-- Two list relations that hold along the same pair of lists combine, and membership in the first
list may be used. -/
theorem forall₂_combine {A B : Type} {R S T : A → B → Prop} {l : List A} {u : List B}
    (hR : List.Forall₂ R l u) (hS : List.Forall₂ S l u)
    (h : ∀ a b, a ∈ l → R a b → S a b → T a b) : List.Forall₂ T l u := by
  induction hR with
  | nil => exact .nil
  | cons hab _ ih =>
    cases hS with
    | cons hs hS' =>
      exact .cons (h _ _ (by simp) hab hs)
        (ih hS' (fun a b ha => h a b (by simp [ha])))

/-- **When the `k`-fold union's round returns at the residual test, every group's own round at its
block returns at the residual test** (every group non-empty and declared; `zs i` has `n_i` values;
the solvers and the incoming warnings play no role). -/
theorem unionAll_done_blocks (cfg : Config ℝ) (kk : Nat) :
    ∀ (Gs : List EGroup) (zs : List (List ℝ)), List.Forall₂ (fun G z => z.length = G.n) Gs zs →
      (∀ G ∈ Gs, Declared G.es G.n) → (∀ G ∈ Gs, G.es ≠ []) →
      ∀ (solveU : Nat → List (Triplet ℝ) → List ℝ → Except SolveError (List ℝ))
        (ws : List (Warning ℝ)) (res : NewtonOk ℝ),
      newtonStep (unionAll Gs) cfg solveU kk zs.flatten ws = .done res → res.byResidual = true →
      List.Forall₂ (fun G z => ∀ ws', ∃ r, newtonStep G.es cfg G.solve kk z ws' = .done r ∧
        r.byResidual = true) Gs zs := by
  intro Gs zs hlen
  induction hlen with
  | nil => intro _ _ _ _ _ _ _; exact .nil
  | cons hz hrest ih =>
    rename_i G z rest zsR
    intro hd hne solveU ws res hdone hb
    have hdR : ∀ G' ∈ rest, Declared G'.es G'.n := fun G' hG' => hd G' (by simp [hG'])
    have hneR : ∀ G' ∈ rest, G'.es ≠ [] := fun G' hG' => hne G' (by simp [hG'])
    cases hrest with
    | nil =>
      refine .cons ?_ .nil
      intro ws'
      simp only [unionAll, unionEntries_nil_right, List.flatten_cons, List.flatten_nil,
        List.append_nil] at hdone
      exact done_byResidual_of_relabel G.lab G.es cfg solveU G.solve kk z ws ws' ⟨res, hdone, hb⟩
    | cons hz2 hrest' =>
      rename_i G2 z2 rest' zsR'
      have hne2 : unionAll (G2 :: rest') ≠ [] := unionAll_ne_nil G2 rest' (hneR G2 (by simp))
      have hd1 : Declared G.ues z.length := by
        rw [hz]; exact declared_relabel _ _ _ (hd G (by simp))
      have hne1 : G.ues ≠ [] := fun hc => hne G (by simp) (List.map_eq_nil_iff.mp hc)
      have hdone' : newtonStep (unionEntries z.length G.ues (unionAll (G2 :: rest'))) cfg solveU kk
          (z ++ (z2 :: zsR').flatten) ws = .done res := by
        rw [hz]; exact hdone
      have hboth := (residual_test_union_iff G.ues (unionAll (G2 :: rest')) cfg solveU
        G.solve solveU kk z (z2 :: zsR').flatten ws ws ws hd1 hne1 hne2).mp ⟨res, hdone', hb⟩
      obtain ⟨resR, hR, hbR⟩ := hboth.2
      exact .cons (fun ws' => done_byResidual_of_relabel G.lab G.es cfg G.solve G.solve kk z ws ws'
        hboth.1) (ih hdR hneR solveU ws resR hR hbR)

/-! ### 4. `k` groups that need different numbers of rounds -/

/-- The local-convergence hypotheses of `extra_free_rounds_close` on a group: ids `< n`, every
request regular at `xs` (`RegularAt3`), `xs` a zero of the group's residual map,
`0 < lam < c ≤ σ_min(J(xs))²`. -/
def LocalHyp (es : List (Entry ℝ)) (n : Nat) (xs : EuclideanSpace ℝ (Fin n)) (lam c : ℝ) : Prop :=
  Declared es n ∧ (∀ e ∈ es, RegularAt3 e.c (asg n xs)) ∧ rOf es n xs = 0 ∧ 0 < lam ∧ lam < c ∧
    ∀ v : Fin n → ℝ, c * (v ⬝ᵥ v) ≤ (JOf es n xs *ᵥ v) ⬝ᵥ (JOf es n xs *ᵥ v)

open Classical in
/-- **The convergence radius of a group**: a radius `ρ > 0` as provided by
`extra_free_rounds_close` for the group's data `(es, n, xs, lam, c)` (chosen once and for all; `1`
when the local-convergence hypotheses fail).  It depends on nothing else — not on the configuration,
the solver, the start or the other groups. -/
noncomputable def radius (es : List (Entry ℝ)) (n : Nat) (xs : EuclideanSpace ℝ (Fin n))
    (lam c : ℝ) : ℝ :=
  if h : LocalHyp es n xs lam c then
    Classical.choose (extra_free_rounds_close es n h.1 xs h.2.1 h.2.2.1 lam c h.2.2.2.1 h.2.2.2.2.1
      h.2.2.2.2.2)
  else 1

/-- The convergence radius is positive. -/
theorem radius_pos (es : List (Entry ℝ)) (n : Nat) (xs : EuclideanSpace ℝ (Fin n)) (lam c : ℝ) :
    0 < radius es n xs lam c := by
  unfold radius
  split
  · rename_i h
    exact (Classical.choose_spec (extra_free_rounds_close es n h.1 xs h.2.1 h.2.2.1 lam c h.2.2.2.1
      h.2.2.2.2.1 h.2.2.2.2.2)).1
  · exact one_pos

/-- **What the convergence radius gives** (the conclusion of `extra_free_rounds_close` with
`ρ := radius es n xs lam c`): for every start `x` (`n` values) within the radius of `xs`, if the
group alone continues for `j` rounds to `y` and `jU ≥ j` free rounds lead from `x` to `z`, then `z`
has `n` values, `z` is `y` advanced by `jU − j` free rounds, `‖z − y‖ ≤ 2 · (1/2)^j ‖x − xs‖` and
`‖z − xs‖ ≤ (1/2)^jU ‖x − xs‖`. -/
theorem radius_spec (es : List (Entry ℝ)) (n : Nat) (xs : EuclideanSpace ℝ (Fin n)) (lam c : ℝ)
    (h : LocalHyp es n xs lam c) :
    ∀ (cfg : Config ℝ) (solve : Nat → List (Triplet ℝ) → List ℝ → Except SolveError (List ℝ)),
      ExactSolve solve (numRows es) n (fun _ => lam) →
      ∀ (x : List ℝ), x.length = n → ‖pointOf n x - xs‖ ≤ radius es n xs lam c →
      ∀ (j jU k : Nat) (ws : List (Warning ℝ)) (y z : List ℝ) (wy : List (Warning ℝ)), j ≤ jU →
        newtonRun es cfg solve j k x ws = some (y, wy) → FreeRun es solve jU k x z →
        z.length = n ∧ FreeRun es solve (jU - j) (k + j) y z ∧
          ‖pointOf n z - pointOf n y‖ ≤ 2 * (1 / 2) ^ j * ‖pointOf n x - xs‖ ∧
          ‖pointOf n z - xs‖ ≤ (1 / 2) ^ jU * ‖pointOf n x - xs‖ := by
  unfold radius
  rw [dif_pos h]
  exact (Classical.choose_spec (extra_free_rounds_close es n h.1 xs h.2.1 h.2.2.1 lam c h.2.2.2.1
    h.2.2.2.2.1 h.2.2.2.2.2)).2

/-- A group with everything the unequal-rounds theorem talks about: the entries, number of
variables, solver and start of `EGroup`, a point `xs` (the group's regular zero), the conditioning
constant `c`, and the solo Newton loop's fuel, incoming warnings and returned record. -/
structure LGroup extends EGroup where
  /-- the group's regular zero -/
  xs : EuclideanSpace ℝ (Fin n)
  /-- the conditioning constant: `lam < c ≤ σ_min(J(xs))²` -/
  c : ℝ
  /-- fuel of the solo loop -/
  fuel : Nat
  /-- warnings the solo loop starts with -/
  ws : List (Warning ℝ)
  /-- the record the solo loop returns -/
  res : NewtonOk ℝ

/-- The hypotheses on one group of `unionMany_unequal_rounds_loop_partial`: non-empty; the
local-convergence hypotheses (`LocalHyp`: declared, regular at the zero `xs`,
`0 < lam < c ≤ σ_min²`); the group's solver exact with damping `lam` and answering on in-range data;
the start has `n` values and lies within the group's convergence radius of `xs`; the solo loop
(configuration `cfg`, starting round `k`) returns the record `res` at the residual test. -/
structure LGroup.Ok (lam : ℝ) (cfg : Config ℝ) (k : Nat) (G : LGroup) : Prop where
  /-- the group has a request -/
  ne : G.es ≠ []
  /-- local-convergence hypotheses at `xs` -/
  loc : LocalHyp G.es G.n G.xs lam G.c
  /-- the group's solver is exact with damping `lam` -/
  exact : ExactSolve G.solve (numRows G.es) G.n (fun _ => lam)
  /-- the group's solver answers on in-range data -/
  answers : AnswersInRange G.solve (numRows G.es) G.n
  /-- one start value per variable -/
  len : G.x.length = G.n
  /-- the start is within the convergence radius of `xs` -/
  near : ‖pointOf G.n G.x - G.xs‖ ≤ radius G.es G.n G.xs lam G.c
  /-- the solo loop returns `res` -/
  loop : newtonLoop G.es cfg G.solve G.fuel k G.x G.ws = .ok G.res
  /-- … at the residual test -/
  flag : G.res.byResidual = true

/-- **C17 with unequal round counts for any number of groups, at the level of the Newton loop's
results** (`_partial`: the loop `newtonLoop`, not the entry point `solveWithPriority`; returns at the
residual test only).

Hypotheses.  `lam > 0`; a list `Gs` of groups, each satisfying `LGroup.Ok lam cfg k`: non-empty,
declared, regular at a zero `xsᵢ` of its residual map, `lam < cᵢ ≤ σ_min(Jᵢ(xsᵢ))²`, solver exact
with damping `lam` and answering on in-range data, start `xᵢ` (`nᵢ` values) within the group's
convergence radius `ρᵢ = radius …` of `xsᵢ` (`radius_pos`: `ρᵢ > 0`; it depends on the group's
`(es, n, xs, lam, c)` only), and the solo loop (configuration `cfg`, starting round `k`, any fuel)
RETURNS AT THE RESIDUAL TEST with record `resᵢ`.  The union (`unionAll`: group `i`'s variable ids
shifted by `n_0 + … + n_{i-1}`, its request ids mapped through any `labᵢ`) is run from the concatenated starts with a solver that is exact with damping
`lam` for the union's dimensions and answers on in-range data, same configuration and starting
round, any fuel, and RETURNS AT THE RESIDUAL TEST with record `resU`.  No relation between the
iteration counts is assumed.

Conclusion: `resU.values` is the concatenation of lists `zs`, one per group, and for every group `i`:
`zᵢ` has `nᵢ` values; `resᵢ.iterations ≤ resU.iterations`; `zᵢ` is `resᵢ.values` advanced by
`resU.iterations − resᵢ.iterations` free rounds (group `i`'s data and solver only, its stopping
tests ignored); `‖zᵢ − resᵢ.values‖ ≤ 2 · (1/2)^(resᵢ.iterations − k) ‖xᵢ − xsᵢ‖`; and
`‖zᵢ − xsᵢ‖ ≤ (1/2)^(resU.iterations − k) ‖xᵢ − xsᵢ‖`. -/
theorem unionMany_unequal_rounds_loop_partial (lam : ℝ) (hlam : 0 < lam) (cfg : Config ℝ) (k : Nat)
    (Gs : List LGroup) (hG : ∀ G ∈ Gs, G.Ok lam cfg k)
    (solveU : Nat → List (Triplet ℝ) → List ℝ → Except SolveError (List ℝ))
    (hU : ExactSolve solveU (numRows (unionAll (Gs.map (·.toEGroup))))
      (totalN (Gs.map (·.toEGroup))) (fun _ => lam))
    (hAU : AnswersInRange solveU (numRows (unionAll (Gs.map (·.toEGroup))))
      (totalN (Gs.map (·.toEGroup))))
    (fuelU : Nat) (ws : List (Warning ℝ)) (resU : NewtonOk ℝ)
    (hlU : newtonLoop (unionAll (Gs.map (·.toEGroup))) cfg solveU fuelU k
      (startAll (Gs.map (·.toEGroup))) ws = .ok resU)
    (hbU : resU.byResidual = true) :
    ∃ zs : List (List ℝ), resU.values = zs.flatten ∧
      List.Forall₂ (fun G z => z.length = G.n ∧ G.res.iterations ≤ resU.iterations ∧
        FreeRun G.es G.solve (resU.iterations - G.res.iterations) G.res.iterations G.res.values z ∧
        ‖pointOf G.n z - pointOf G.n G.res.values‖ ≤
          2 * (1 / 2) ^ (G.res.iterations - k) * ‖pointOf G.n G.x - G.xs‖ ∧
        ‖pointOf G.n z - G.xs‖ ≤ (1 / 2) ^ (resU.iterations - k) * ‖pointOf G.n G.x - G.xs‖)
        Gs zs := by
  have hE : ∀ E ∈ Gs.map (·.toEGroup), ∃ G ∈ Gs, E = G.toEGroup := by
    intro E hE
    obtain ⟨G, hG', rfl⟩ := List.mem_map.mp hE
    exact ⟨G, hG', rfl⟩
  have hdE : ∀ E ∈ Gs.map (·.toEGroup), Declared E.es E.n := by
    intro E h; obtain ⟨G, hm, rfl⟩ := hE E h; exact (hG G hm).loc.1
  have hSE : ∀ E ∈ Gs.map (·.toEGroup), ExactSolve E.solve (numRows E.es) E.n (fun _ => lam) := by
    intro E h; obtain ⟨G, hm, rfl⟩ := hE E h; exact (hG G hm).exact
  have hAE : ∀ E ∈ Gs.map (·.toEGroup), AnswersInRange E.solve (numRows E.es) E.n := by
    intro E h; obtain ⟨G, hm, rfl⟩ := hE E h; exact (hG G hm).answers
  have hxE : ∀ E ∈ Gs.map (·.toEGroup), E.x.length = E.n := by
    intro E h; obtain ⟨G, hm, rfl⟩ := hE E h; exact (hG G hm).len
  have hneE : ∀ E ∈ Gs.map (·.toEGroup), E.es ≠ [] := by
    intro E h; obtain ⟨G, hm, rfl⟩ := hE E h; exact (hG G hm).ne
  obtain ⟨jU, wU, runU, itU, doneU⟩ := newtonLoop_byResidual_run _ cfg solveU fuelU k _ ws resU hlU hbU
  have FU := freeRun_of_run _ solveU cfg _ (declared_unionAll _ hdE) jU k _ ws resU.values wU
    (startAll_length _ hxE) runU
  obtain ⟨zs, hz, hF⟩ := freeRun_unionAll_inv (fun _ => lam) (fun _ => hlam) jU k _ hdE hSE hAE hxE
    solveU hU hAU _ FU
  have hlenF : List.Forall₂ (fun (E : EGroup) (z : List ℝ) => z.length = E.n)
      (Gs.map (·.toEGroup)) zs :=
    forall₂_combine hF hF (fun E z hm h _ => by rw [h.length]; exact hxE E hm)
  rw [hz] at doneU
  have hD := unionAll_done_blocks cfg (k + jU) _ zs hlenF hdE hneE solveU wU resU doneU hbU
  rw [List.forall₂_map_left_iff] at hF hD
  refine ⟨zs, hz, forall₂_combine hF hD ?_⟩
  intro G z hm F D
  have h := hG G hm
  obtain ⟨j, wy, run, it, _⟩ :=
    newtonLoop_byResidual_run G.es cfg G.solve G.fuel k G.x G.ws G.res h.loop h.flag
  have hle : j ≤ jU := run_le_of_free_done G.es G.solve cfg G.n h.loc.1 j jU k G.x G.ws G.res.values
    z wy h.len run F (fun ws' => by
      obtain ⟨r, hr, _⟩ := D ws'
      exact ⟨r, hr⟩)
  obtain ⟨hzl, G1, b1, e1⟩ := radius_spec G.es G.n G.xs lam G.c h.loc cfg G.solve h.exact G.x h.len
    h.near j jU k G.ws G.res.values z wy hle run F
  have s1 : G.res.iterations - k = j := by omega
  have sU : resU.iterations - k = jU := by omega
  have t1 : resU.iterations - G.res.iterations = jU - j := by omega
  rw [s1, sU, t1, it]
  exact ⟨hzl, by omega, G1, b1, e1⟩

/-! ### 5. Non-vacuity: three groups -/

namespace ManyEx
open UnequalEx

/-- The one-request group "variable 0 is `v`" (request id `id`). -/
def fx (v : ℝ) (id : Nat) : List (Entry ℝ) := [⟨.fixed 0 v, id, 0⟩]

/-- The request is regular everywhere (`Fixed` has no guard). -/
theorem fx_regular (v : ℝ) (id : Nat) : ∀ e ∈ fx v id, RegularAt3 e.c (asg 1 (pointOf 1 [v])) := by
  intro e he
  simp only [fx, List.mem_singleton] at he
  subst he
  exact trivial

/-- `[v]` is a zero of the group's residual map. -/
theorem fx_zero (v : ℝ) (id : Nat) : rOf (fx v id) 1 (pointOf 1 [v]) = 0 :=
  rOf_eq_zero_of (fx v id) 1 _ [v - v] []
    (by rw [coordList_pointOf 1 [v] rfl]; exact (fx_eval v v id).1) (by simp)

/-- The group's Jacobian is `[1]`: `σ_min² = 1 ≥ 1/2`. -/
theorem fx_conditioned (v : ℝ) (id : Nat) (w : Fin 1 → ℝ) :
    (1 / 2 : ℝ) * (w ⬝ᵥ w) ≤
      (JOf (fx v id) 1 (pointOf 1 [v]) *ᵥ w) ⬝ᵥ (JOf (fx v id) 1 (pointOf 1 [v]) *ᵥ w) := by
  rw [JOf_eq (fx v id) 1 (pointOf 1 [v]) [(0, 0, 1.0)] []
    (by rw [coordList_pointOf 1 [v] rfl]; exact (fx_eval v v id).2)]
  show (1 / 2 : ℝ) * (w ⬝ᵥ w) ≤ (matOf 1 1 [(0, 0, 1.0)] *ᵥ w) ⬝ᵥ (matOf 1 1 [(0, 0, 1.0)] *ᵥ w)
  simp [matOf, Matrix.mulVec, dotProduct]
  nlinarith [mul_self_nonneg (w 0)]

/-- The group alone, started at its solution `[v]`, returns at the residual test in round 0. -/
theorem fx_done (v : ℝ) (id : Nat)
    (s : Nat → List (Triplet ℝ) → List ℝ → Except SolveError (List ℝ)) :
    newtonStep (fx v id) cfg s 0 [v] [] = .done ⟨[v], 0, [], [(0, 0, 1.0)], true⟩ := by
  obtain ⟨hr, hj⟩ := fx_eval v v id
  rw [fx, newtonStep_eval _ _ s 0 [v] [] _ _ _ _ _ hr hj rfl, if_pos (by
    simp only [cfg, sub_self]; norm_num)]
  rfl

/-- The group as an `LGroup`: started at its solution, one round of fuel, the record it returns. -/
noncomputable def grp (v : ℝ) (id : Nat)
    (s : Nat → List (Triplet ℝ) → List ℝ → Except SolveError (List ℝ)) : LGroup :=
  { es := fx v id, n := 1, solve := s, x := [v], xs := pointOf 1 [v], c := 1 / 2, fuel := 1,
    ws := [], res := ⟨[v], 0, [], [(0, 0, 1.0)], true⟩, lab := fun i => i }

/-- The group meets every hypothesis of `unionMany_unequal_rounds_loop_partial` (damping `1e-9`,
`c = 1/2`, an exact solver that always answers). -/
theorem grp_ok (v : ℝ) (id : Nat)
    (s : Nat → List (Triplet ℝ) → List ℝ → Except SolveError (List ℝ))
    (hs : ExactSolve s 1 1 (fun _ => (1e-9 : ℝ))) (htot : ∀ k jac r, ∃ d, s k jac r = .ok d) :
    (grp v id s).Ok 1e-9 cfg 0 where
  ne := by simp [grp, fx]
  loc := ⟨declared_fixed v id, fx_regular v id, fx_zero v id, by norm_num,
    by show (1e-9 : ℝ) < 1 / 2; norm_num, fx_conditioned v id⟩
  exact := hs
  answers := fun k jac r _ _ => htot k jac r
  len := rfl
  near := by
    show ‖pointOf 1 [v] - pointOf 1 [v]‖ ≤ _
    rw [sub_self, norm_zero]
    exact (radius_pos _ _ _ _ _).le
  loop := by
    show newtonLoop (fx v id) cfg s 1 0 [v] [] = _
    rw [newtonLoop, fx_done v id s]
    rfl
  flag := rfl

/-- **The hypotheses of `unionMany_unequal_rounds_loop_partial` are consistent for three groups**
(the cheap instance: "variable is 5", "variable is 7", "variable is 9", each started at its solution
so that the opaque radii are met; exact solvers with the code's damping `1e-9`; all four loops return
at the residual test in round 0), and its conclusion is obtained for this run. -/
example : ∃ (Gs : List LGroup)
    (solveU : Nat → List (Triplet ℝ) → List ℝ → Except SolveError (List ℝ)) (resU : NewtonOk ℝ),
    Gs.length = 3 ∧ (∀ G ∈ Gs, G.Ok 1e-9 cfg 0) ∧
    ExactSolve solveU (numRows (unionAll (Gs.map (·.toEGroup)))) (totalN (Gs.map (·.toEGroup)))
      (fun _ => (1e-9 : ℝ)) ∧
    AnswersInRange solveU (numRows (unionAll (Gs.map (·.toEGroup))))
      (totalN (Gs.map (·.toEGroup))) ∧
    newtonLoop (unionAll (Gs.map (·.toEGroup))) cfg solveU 1 0 (startAll (Gs.map (·.toEGroup))) [] =
      .ok resU ∧ resU.byResidual = true ∧
    ∃ zs : List (List ℝ), resU.values = zs.flatten ∧
      List.Forall₂ (fun G z => z.length = G.n ∧ G.res.iterations ≤ resU.iterations) Gs zs := by
  obtain ⟨s, es, ts⟩ := exists_exactSolve 1 1 (fun _ => (1e-9 : ℝ)) (fun _ => by norm_num)
  let Gs : List LGroup := [grp 5 0 s, grp 7 1 s, grp 9 2 s]
  obtain ⟨sU, eU, tU⟩ := exists_exactSolve (numRows (unionAll (Gs.map (·.toEGroup))))
    (totalN (Gs.map (·.toEGroup))) (fun _ => (1e-9 : ℝ)) (fun _ => by norm_num)
  have hok : ∀ G ∈ Gs, G.Ok 1e-9 cfg 0 := by
    intro G hG
    simp only [Gs, List.mem_cons, List.mem_nil_iff, or_false] at hG
    rcases hG with rfl | rfl | rfl <;> exact grp_ok _ _ s es ts
  have hAU : AnswersInRange sU (numRows (unionAll (Gs.map (·.toEGroup))))
      (totalN (Gs.map (·.toEGroup))) := fun k jac r _ _ => tU k jac r
  -- the union's loop returns in round 0
  obtain ⟨w23, h23, _, _⟩ := residual_test_union_record (fx 7 1) (fx 9 2) cfg sU s s 0 [7] [9] [] [] []
    (declared_fixed 7 1) _ _ (fx_done 7 1 s) rfl (fx_done 9 2 s) rfl
  obtain ⟨wU, hUd, _, _⟩ := residual_test_union_record (fx 5 0) (unionEntries 1 (fx 7 1) (fx 9 2)) cfg
    sU s sU 0 [5] ([7] ++ [9]) [] [] [] (declared_fixed 5 0) _ _ (fx_done 5 0 s) rfl h23 rfl
  have hun : unionAll (Gs.map (·.toEGroup)) =
      unionEntries 1 (fx 5 0) (unionEntries 1 (fx 7 1) (fx 9 2)) := by
    simp [Gs, unionAll, unionEntries_nil_right, grp, EGroup.ues]
  have hst : startAll (Gs.map (·.toEGroup)) = [5] ++ ([7] ++ [9]) := by
    simp [Gs, startAll, grp]
  obtain ⟨rU, lU, bU⟩ : ∃ rU, newtonLoop (unionAll (Gs.map (·.toEGroup))) cfg sU 1 0
      (startAll (Gs.map (·.toEGroup))) [] = .ok rU ∧ rU.byResidual = true := by
    rw [hun, hst]
    obtain ⟨rU, hrU, bU⟩ : ∃ rU, newtonStep (unionEntries 1 (fx 5 0)
        (unionEntries 1 (fx 7 1) (fx 9 2))) cfg sU 0 ([5] ++ ([7] ++ [9])) [] = .done rU ∧
        rU.byResidual = true := ⟨_, hUd, rfl⟩
    exact ⟨rU, by rw [newtonLoop, hrU], bU⟩
  obtain ⟨zs, hz, hF⟩ := unionMany_unequal_rounds_loop_partial 1e-9 (by norm_num) cfg 0 Gs hok sU eU
    hAU 1 [] rU lU bU
  exact ⟨Gs, sU, rU, rfl, hok, eU, hAU, lU, bU, zs, hz, hF.imp (fun _ _ h => ⟨h.1, h.2.1⟩)⟩

end ManyEx

/-! ### 6. The enumerated `unionMany` of `Real/UnionMany.lean` is such a union -/

/-- A run of `Real/UnionMany.lean` as a group of entries: its enumerated requests, its number of
variables, its first LU oracle, its guess values; in the union its request ids are moved up by
`off` (the number of requests of the groups before it). -/
def GroupRun.toE (off : Nat) (G : GroupRun) : EGroup :=
  { es := enumerate G.reqs, n := G.n, solve := G.solve 0, x := G.g.map (·.2), lab := (· + off) }

/-- The runs as groups of entries, the request ids of each moved up by the number of requests of
the runs before it (plus `off`). -/
def eGroups : Nat → List GroupRun → List EGroup
  | _, [] => []
  | off, G :: rest => G.toE off :: eGroups (off + G.reqs.length) rest

/-- Relabelling distributes over the two-group union. -/
theorem map_relabel_unionEntries (f : Nat → Nat) (n : Nat) (a b : List (Entry ℝ)) :
    (unionEntries n a b).map (Entry.relabel f) =
      unionEntries n (a.map (Entry.relabel f)) (b.map (Entry.relabel f)) := by
  simp only [unionEntries, shiftEntries, List.map_append, List.map_map]
  congr 1

/-- **The enumerated requests of `unionMany` are a `unionAll`**: enumerating the union of the runs'
requests (and moving all request ids up by `off`) gives the contiguous union of the runs' enumerated
requests, run `i`'s request ids moved up by `off` plus the number of requests of the runs before it.
-/
theorem enumerate_unionRuns : ∀ (Gs : List GroupRun) (off : Nat),
    (enumerate (unionRuns Gs).1).map (Entry.relabel (· + off)) = unionAll (eGroups off Gs) := by
  intro Gs
  induction Gs with
  | nil => intro off; rfl
  | cons G rest ih =>
    intro off
    have hu : unionRuns (G :: rest) = union2 (G.reqs, G.n, G.g) (unionRuns rest) := rfl
    rw [hu]
    simp only [union2, eGroups, unionAll]
    rw [enumerate_union, map_relabel_unionEntries, ← ih (off + G.reqs.length), List.map_map]
    congr 1
    apply List.map_congr_left
    intro e _
    simp only [Function.comp, Entry.relabel]
    congr 1
    omega

/-- The enumerated requests of `unionMany`, with the request ids as they are. -/
theorem enumerate_unionRuns_zero (Gs : List GroupRun) :
    enumerate (unionRuns Gs).1 = unionAll (eGroups 0 Gs) := by
  rw [← enumerate_unionRuns Gs 0]
  exact (map_relabel_self _).symm

/-- The number of variables of `unionMany` is that of the union of the entry groups. -/
theorem totalN_eGroups : ∀ (Gs : List GroupRun) (off : Nat),
    totalN (eGroups off Gs) = (unionRuns Gs).2.1 := by
  intro Gs
  induction Gs with
  | nil => intro off; rfl
  | cons G rest ih =>
    intro off
    have hu : unionRuns (G :: rest) = union2 (G.reqs, G.n, G.g) (unionRuns rest) := rfl
    rw [hu]
    simp only [union2, eGroups, totalN, ih]
    rfl

/-- The guess values of `unionMany` are the start values of the union of the entry groups. -/
theorem startAll_eGroups : ∀ (Gs : List GroupRun) (off : Nat),
    startAll (eGroups off Gs) = (unionRuns Gs).2.2.map (·.2) := by
  intro Gs
  induction Gs with
  | nil => intro off; rfl
  | cons G rest ih =>
    intro off
    have hu : unionRuns (G :: rest) = union2 (G.reqs, G.n, G.g) (unionRuns rest) := rfl
    rw [hu]
    simp only [union2]
    rw [union_guess_values, ← ih (off + G.reqs.length)]
    simp [startAll, eGroups, GroupRun.toE]

/-- Every entry group of `eGroups` comes from one of the runs. -/
theorem mem_eGroups : ∀ (Gs : List GroupRun) (off : Nat) (E : EGroup), E ∈ eGroups off Gs →
    ∃ G ∈ Gs, ∃ off', E = G.toE off' := by
  intro Gs
  induction Gs with
  | nil => intro off E h; simp [eGroups] at h
  | cons G rest ih =>
    intro off E h
    simp only [eGroups, List.mem_cons] at h
    rcases h with rfl | h
    · exact ⟨G, by simp, off, rfl⟩
    · obtain ⟨G', hG', off', rfl⟩ := ih _ E h
      exact ⟨G', by simp [hG'], off', rfl⟩

/-- A relation that does not look at the label map holds along `eGroups` iff it holds along the
runs. -/
theorem forall₂_eGroups (P : EGroup → List ℝ → Prop) (Q : GroupRun → List ℝ → Prop)
    (hPQ : ∀ G off y, P (G.toE off) y ↔ Q G y) : ∀ (Gs : List GroupRun) (off : Nat)
    (ys : List (List ℝ)), List.Forall₂ P (eGroups off Gs) ys ↔ List.Forall₂ Q Gs ys := by
  intro Gs
  induction Gs with
  | nil => intro off ys; simp [eGroups]
  | cons G rest ih =>
    intro off ys
    simp only [eGroups, List.forall₂_cons_left_iff, hPQ, ih]

/-- **`freeRun_unionMany`: `j` free rounds of the enumerated `unionMany` ⇔ `j` free rounds of every
group.**  Runs `Gs` of `Real/UnionMany.lean` (only `reqs`, `n`, `g`, `solve 0` are used): every
group's requests mention only ids `< n`, one guess per variable, every group's first LU oracle exact
with damping `lam k > 0` and answering on in-range data; the union's solver exact with the same
damping for the union's dimensions and answering on in-range data.  Then `j` free rounds of the
enumerated requests of `unionMany` lead from the union's guess values to `yU` exactly when `yU` is
the concatenation of lists `ys`, one per group, with `ys i` the result of `j` free rounds of group
`i`'s enumerated requests from its own guess values with its own oracle. -/
theorem freeRun_unionMany (lam : Nat → ℝ) (hlam : ∀ k, 0 < lam k) (j k : Nat) (Gs : List GroupRun)
    (hd : ∀ G ∈ Gs, ∀ r ∈ G.reqs, ∀ i ∈ r.1.nonzeroes.all, i < G.n)
    (hS : ∀ G ∈ Gs, ExactSolve (G.solve 0) (numRows (enumerate G.reqs)) G.n lam)
    (hA : ∀ G ∈ Gs, AnswersInRange (G.solve 0) (numRows (enumerate G.reqs)) G.n)
    (hx : ∀ G ∈ Gs, G.g.length = G.n)
    (solveU : Nat → List (Triplet ℝ) → List ℝ → Except SolveError (List ℝ))
    (hU : ExactSolve solveU (numRows (enumerate (unionRuns Gs).1)) (unionRuns Gs).2.1 lam)
    (hAU : AnswersInRange solveU (numRows (enumerate (unionRuns Gs).1)) (unionRuns Gs).2.1)
    (yU : List ℝ) :
    FreeRun (enumerate (unionRuns Gs).1) solveU j k ((unionRuns Gs).2.2.map (·.2)) yU ↔
      ∃ ys : List (List ℝ), yU = ys.flatten ∧
        List.Forall₂ (fun G y => FreeRun (enumerate G.reqs) (G.solve 0) j k (G.g.map (·.2)) y)
          Gs ys := by
  rw [enumerate_unionRuns_zero, ← totalN_eGroups Gs 0] at hU hAU
  rw [enumerate_unionRuns_zero, ← startAll_eGroups Gs 0]
  rw [freeRun_unionAll_iff lam hlam j k (eGroups 0 Gs)
    (fun E hE => by
      obtain ⟨G, hG, off', rfl⟩ := mem_eGroups Gs 0 E hE
      exact declared_enumerate G.reqs G.n (hd G hG))
    (fun E hE => by
      obtain ⟨G, hG, off', rfl⟩ := mem_eGroups Gs 0 E hE
      exact hS G hG)
    (fun E hE => by
      obtain ⟨G, hG, off', rfl⟩ := mem_eGroups Gs 0 E hE
      exact hA G hG)
    (fun E hE => by
      obtain ⟨G, hG, off', rfl⟩ := mem_eGroups Gs 0 E hE
      simpa [GroupRun.toE] using hx G hG)
    solveU hU hAU yU]
  constructor
  · rintro ⟨ys, h1, h2⟩
    exact ⟨ys, h1, (forall₂_eGroups _ _ (fun G off y => Iff.rfl) Gs 0 ys).mp h2⟩
  · rintro ⟨ys, h1, h2⟩
    exact ⟨ys, h1, (forall₂_eGroups _ _ (fun G off y => Iff.rfl) Gs 0 ys).mpr h2⟩

/-! ### 7. The unequal-rounds theorem for the Newton run of the enumerated `unionMany` -/

/-- A run of `Real/UnionMany.lean` (its requests `reqs`, number of variables `n`, guesses `g`, LU
oracles `solve`; the field `o` is not used here) together with a point `xs` (the group's regular
zero), the conditioning constant `c` and the record `res` of the group's solo Newton run. -/
structure LRun extends GroupRun where
  /-- the group's regular zero -/
  xs : EuclideanSpace ℝ (Fin n)
  /-- the conditioning constant: `lam < c ≤ σ_min(J(xs))²` -/
  c : ℝ
  /-- the record the solo Newton run returns -/
  res : NewtonOk ℝ

/-- The hypotheses on one run of `unionRuns_unequal_rounds_partial`: non-empty; the
local-convergence hypotheses (`LocalHyp`) for the enumerated requests at `xs`; the first LU oracle
exact with damping `lam` and answering on in-range data; one guess per variable, the guess values
within the convergence radius of `xs`; the solo Newton run (`newton`, the one `solveInner` performs)
returns `res` at the residual test. -/
structure LRun.Ok (lam : ℝ) (cfg : Config ℝ) (L : LRun) : Prop where
  /-- the group has a request -/
  ne : L.reqs ≠ []
  /-- local-convergence hypotheses at `xs` -/
  loc : LocalHyp (enumerate L.reqs) L.n L.xs lam L.c
  /-- the first LU oracle is exact with damping `lam` -/
  exact : ExactSolve (L.solve 0) (numRows (enumerate L.reqs)) L.n (fun _ => lam)
  /-- the first LU oracle answers on in-range data -/
  answers : AnswersInRange (L.solve 0) (numRows (enumerate L.reqs)) L.n
  /-- one guess per variable -/
  len : L.g.length = L.n
  /-- the guess values are within the convergence radius of `xs` -/
  near : ‖pointOf L.n (L.g.map (·.2)) - L.xs‖ ≤ radius (enumerate L.reqs) L.n L.xs lam L.c
  /-- the solo Newton run returns `res` -/
  loop : newton (enumerate L.reqs) cfg (L.solve 0) (L.g.map (·.2)) = .ok L.res
  /-- … at the residual test -/
  flag : L.res.byResidual = true

/-- The run as an `LGroup` (request ids moved up by `off` in the union; fuel and starting warnings
those of `newton`). -/
def LRun.toL (cfg : Config ℝ) (off : Nat) (L : LRun) : LGroup :=
  { toEGroup := L.toGroupRun.toE off, xs := L.xs, c := L.c, fuel := cfg.maxIterations, ws := [],
    res := L.res }

/-- The runs as `LGroup`s, request ids moved up as in `eGroups`. -/
def lGroups (cfg : Config ℝ) : Nat → List LRun → List LGroup
  | _, [] => []
  | off, L :: rest => L.toL cfg off :: lGroups cfg (off + L.reqs.length) rest

/-- The entry groups of `lGroups` are the `eGroups` of the underlying runs. -/
theorem lGroups_toE (cfg : Config ℝ) : ∀ (Ls : List LRun) (off : Nat),
    (lGroups cfg off Ls).map (·.toEGroup) = eGroups off (Ls.map (·.toGroupRun)) := by
  intro Ls
  induction Ls with
  | nil => intro off; rfl
  | cons L rest ih =>
    intro off
    simp only [lGroups, List.map_cons, eGroups, ih]
    rfl

/-- Every group of `lGroups` comes from one of the runs. -/
theorem mem_lGroups (cfg : Config ℝ) : ∀ (Ls : List LRun) (off : Nat) (G : LGroup),
    G ∈ lGroups cfg off Ls → ∃ L ∈ Ls, ∃ off', G = L.toL cfg off' := by
  intro Ls
  induction Ls with
  | nil => intro off G h; simp [lGroups] at h
  | cons L rest ih =>
    intro off G h
    simp only [lGroups, List.mem_cons] at h
    rcases h with rfl | h
    · exact ⟨L, by simp, off, rfl⟩
    · obtain ⟨L', hL', off', rfl⟩ := ih _ G h
      exact ⟨L', by simp [hL'], off', rfl⟩

/-- A relation that does not look at the label map holds along `lGroups` iff it holds along the
runs. -/
theorem forall₂_lGroups (cfg : Config ℝ) (P : LGroup → List ℝ → Prop) (Q : LRun → List ℝ → Prop)
    (hPQ : ∀ L off y, P (L.toL cfg off) y ↔ Q L y) : ∀ (Ls : List LRun) (off : Nat)
    (ys : List (List ℝ)), List.Forall₂ P (lGroups cfg off Ls) ys ↔ List.Forall₂ Q Ls ys := by
  intro Ls
  induction Ls with
  | nil => intro off ys; simp [lGroups]
  | cons L rest ih =>
    intro off ys
    simp only [lGroups, List.forall₂_cons_left_iff, hPQ, ih]

/-- **C17 with unequal round counts for the Newton run of `unionMany`** (any number of groups;
`_partial`: the Newton run `newton` that `solveInner` performs on the enumerated requests — not the
lint, the unsatisfied sweep and the report around it; returns at the residual test only).

Hypotheses.  `lam > 0`; runs `Ls`, each satisfying `LRun.Ok lam cfg`: non-empty, its enumerated
requests declared and regular at a zero `xsᵢ`, `lam < cᵢ ≤ σ_min(Jᵢ(xsᵢ))²`, first LU oracle exact
with damping `lam` and answering on in-range data, one guess per variable with the guess values
within the convergence radius `radius …` (`radius_pos`) of `xsᵢ`, and the solo Newton run RETURNS AT
THE RESIDUAL TEST with record `resᵢ`.  The union is `unionMany` of `Real/UnionMany.lean` (requests
concatenated, group `i`'s variable ids shifted by `n_0 + … + n_{i-1}`, guesses likewise); its solver
is exact with damping `lam` for the union's dimensions and answers on in-range data; its Newton run
RETURNS AT THE RESIDUAL TEST with record `resU`.  No relation between the iteration counts is
assumed.

Conclusion: `resU.values` is the concatenation of lists `zs`, one per run, and for every run `i`:
`zᵢ` has `nᵢ` values; `resᵢ.iterations ≤ resU.iterations`; `zᵢ` is `resᵢ.values` advanced by
`resU.iterations − resᵢ.iterations` free rounds (run `i`'s enumerated requests and oracle only, its
stopping tests ignored); `‖zᵢ − resᵢ.values‖ ≤ 2 · (1/2)^(resᵢ.iterations) ‖guessᵢ − xsᵢ‖`; and
`‖zᵢ − xsᵢ‖ ≤ (1/2)^(resU.iterations) ‖guessᵢ − xsᵢ‖`. -/
theorem unionRuns_unequal_rounds_partial (lam : ℝ) (hlam : 0 < lam) (cfg : Config ℝ)
    (Ls : List LRun) (hL : ∀ L ∈ Ls, L.Ok lam cfg)
    (solveU : Nat → List (Triplet ℝ) → List ℝ → Except SolveError (List ℝ))
    (hU : ExactSolve solveU (numRows (enumerate (unionRuns (Ls.map (·.toGroupRun))).1))
      (unionRuns (Ls.map (·.toGroupRun))).2.1 (fun _ => lam))
    (hAU : AnswersInRange solveU (numRows (enumerate (unionRuns (Ls.map (·.toGroupRun))).1))
      (unionRuns (Ls.map (·.toGroupRun))).2.1)
    (resU : NewtonOk ℝ)
    (hlU : newton (enumerate (unionRuns (Ls.map (·.toGroupRun))).1) cfg solveU
      ((unionRuns (Ls.map (·.toGroupRun))).2.2.map (·.2)) = .ok resU)
    (hbU : resU.byResidual = true) :
    ∃ zs : List (List ℝ), resU.values = zs.flatten ∧
      List.Forall₂ (fun L z => z.length = L.n ∧ L.res.iterations ≤ resU.iterations ∧
        FreeRun (enumerate L.reqs) (L.solve 0) (resU.iterations - L.res.iterations)
          L.res.iterations L.res.values z ∧
        ‖pointOf L.n z - pointOf L.n L.res.values‖ ≤
          2 * (1 / 2) ^ L.res.iterations * ‖pointOf L.n (L.g.map (·.2)) - L.xs‖ ∧
        ‖pointOf L.n z - L.xs‖ ≤
          (1 / 2) ^ resU.iterations * ‖pointOf L.n (L.g.map (·.2)) - L.xs‖) Ls zs := by
  have hG : ∀ G ∈ lGroups cfg 0 Ls, G.Ok lam cfg 0 := by
    intro G hG
    obtain ⟨L, hm, off', rfl⟩ := mem_lGroups cfg Ls 0 G hG
    have h := hL L hm
    have hne : enumerate L.reqs ≠ [] := by
      intro hc
      have := enumerate_length L.reqs
      rw [hc] at this
      exact h.ne (List.length_eq_zero_iff.mp this.symm)
    exact ⟨hne, h.loc, h.exact, h.answers,
      by simpa [LRun.toL, GroupRun.toE] using h.len, h.near, h.loop, h.flag⟩
  rw [enumerate_unionRuns_zero, ← totalN_eGroups _ 0, ← lGroups_toE cfg] at hU hAU
  rw [enumerate_unionRuns_zero, ← startAll_eGroups _ 0, ← lGroups_toE cfg] at hlU
  obtain ⟨zs, hz, hF⟩ := unionMany_unequal_rounds_loop_partial lam hlam cfg 0 (lGroups cfg 0 Ls) hG
    solveU hU hAU cfg.maxIterations [] resU hlU hbU
  refine ⟨zs, hz, (forall₂_lGroups cfg _ _ (fun L off y => ?_) Ls 0 zs).mp hF⟩
  simp only [Nat.sub_zero]
  exact Iff.rfl

/-! ### 8. The entry point `solveWithPriority`, final values -/

/-- The entry-point hypotheses on one run: all its requests have priority `P`, and `solve` on the
group alone (no freedom analysis) succeeds with the outcome `o`. -/
structure LRun.Solved (P : Nat) (cfg : Config ℝ) (L : LRun) : Prop where
  /-- every request has priority `P` -/
  prio : ∀ r ∈ L.reqs, r.2 = P
  /-- the group solves alone -/
  solved : solveWithPriority L.reqs L.g cfg L.solve none = .ok L.o

/-- **C17 with unequal round counts at the entry point `solveWithPriority`, final values and
iteration counts** (any number `k ≥ 1` of groups, one priority level, no freedom analysis;
`_partial`: all Newton runs return at the residual test, and nothing is said about the union's
unsatisfied list beyond where it is computed).

Hypotheses: those of `unionRuns_unequal_rounds_partial` on every run (`LRun.Ok lam cfg`; in
particular the solo Newton run returns at the residual test), every request of every run has
priority `P` and every run solves alone with outcome `oᵢ` (`LRun.Solved`); the union's first LU
oracle is exact with damping `lam` for the union's dimensions and answers on in-range data; `solve`
on `unionMany` succeeds with outcome `oU` and its Newton run returns at the residual test.  No
relation between the iteration counts is assumed.

Conclusion: `oU.finalValues` is the concatenation of lists `zs`, one per run, and for every run `i`:
`zᵢ` has `nᵢ` values; `oᵢ.iterations ≤ oU.iterations`; `zᵢ` is `oᵢ.finalValues` advanced by
`oU.iterations − oᵢ.iterations` free rounds of run `i`'s own data;
`‖zᵢ − oᵢ.finalValues‖ ≤ 2 · (1/2)^(oᵢ.iterations) ‖guessᵢ − xsᵢ‖` and
`‖zᵢ − xsᵢ‖ ≤ (1/2)^(oU.iterations) ‖guessᵢ − xsᵢ‖`.  The union's unsatisfied list is the
satisfaction sweep of the union's enumerated requests AT `zs.flatten` — not at the solo final values,
so it equals the solo lists moved up (`unsatMany`) only when no request's error crosses the `1e-4`
threshold between `oᵢ.finalValues` and `zᵢ`; this is not claimed. -/
theorem solveWithPriority_unionMany_unequal_partial (P : Nat) (lam : ℝ) (hlam : 0 < lam)
    (cfg : Config ℝ) (Ls : List LRun) (hne : Ls ≠ []) (hL : ∀ L ∈ Ls, L.Ok lam cfg)
    (hS : ∀ L ∈ Ls, L.Solved P cfg) (solveU : LinSolve ℝ)
    (hU : ExactSolve (solveU 0) (numRows (enumerate (unionRuns (Ls.map (·.toGroupRun))).1))
      (unionRuns (Ls.map (·.toGroupRun))).2.1 (fun _ => lam))
    (hAU : AnswersInRange (solveU 0) (numRows (enumerate (unionRuns (Ls.map (·.toGroupRun))).1))
      (unionRuns (Ls.map (·.toGroupRun))).2.1)
    (oU : Outcome ℝ)
    (hsU : solveWithPriority (unionRuns (Ls.map (·.toGroupRun))).1
      (unionRuns (Ls.map (·.toGroupRun))).2.2 cfg solveU none = .ok oU)
    (hbU : ∀ r, newton (enumerate (unionRuns (Ls.map (·.toGroupRun))).1) cfg (solveU 0)
      ((unionRuns (Ls.map (·.toGroupRun))).2.2.map (·.2)) = .ok r → r.byResidual = true) :
    ∃ zs : List (List ℝ), oU.finalValues = zs.flatten ∧
      unsatisfiedSweep (enumerate (unionRuns (Ls.map (·.toGroupRun))).1) (lookup zs.flatten) =
        .ok oU.unsatisfied ∧
      List.Forall₂ (fun L z => z.length = L.n ∧ L.o.iterations ≤ oU.iterations ∧
        FreeRun (enumerate L.reqs) (L.solve 0) (oU.iterations - L.o.iterations)
          L.o.iterations L.o.finalValues z ∧
        ‖pointOf L.n z - pointOf L.n L.o.finalValues‖ ≤
          2 * (1 / 2) ^ L.o.iterations * ‖pointOf L.n (L.g.map (·.2)) - L.xs‖ ∧
        ‖pointOf L.n z - L.xs‖ ≤
          (1 / 2) ^ oU.iterations * ‖pointOf L.n (L.g.map (·.2)) - L.xs‖) Ls zs := by
  -- the union is a single non-empty priority level
  have hPU : ∀ r ∈ (unionRuns (Ls.map (·.toGroupRun))).1, r.2 = P := by
    apply unionMany_priority P
    intro grp hgrp
    simp only [List.mem_map] at hgrp
    obtain ⟨G, ⟨L, hLm, rfl⟩, rfl⟩ := hgrp
    exact (hS L hLm).prio
  have hneU : (unionRuns (Ls.map (·.toGroupRun))).1 ≠ [] := by
    cases Ls with
    | nil => exact absurd rfl hne
    | cons L rest => exact unionMany_ne_nil _ _ (hL L (by simp)).ne
  rw [solveWithPriority_single_level _ _ cfg solveU none P hneU hPU] at hsU
  simp only [Option.map_none] at hsU
  obtain ⟨nrU, hnU, _, hfU, hiU, _, _, hswU, _⟩ := solveInner_ok _ _ _ _ _ _ hsU
  obtain ⟨zs, hz, hF⟩ := unionRuns_unequal_rounds_partial lam hlam cfg Ls hL (solveU 0) hU hAU nrU hnU
    (hbU nrU hnU)
  refine ⟨zs, by rw [hfU, hz], by rw [← hz]; exact hswU, forall₂_combine hF hF ?_⟩
  intro L z hm h _
  have hs := (hS L hm).solved
  rw [solveWithPriority_single_level L.reqs L.g cfg L.solve none P (hL L hm).ne (hS L hm).prio] at hs
  simp only [Option.map_none] at hs
  obtain ⟨nr, hn, _, hf, hi, _⟩ := solveInner_ok _ _ _ _ _ _ hs
  have hres : nr = L.res := by
    have := hn.symm.trans (hL L hm).loop
    injection this
  subst hres
  rw [hf, hi, hiU]
  exact h

/-! ### 9. Non-vacuity of the entry-point theorem: three groups -/

namespace ManyEx
open UnequalEx

/-- The one-request group "variable 0 is `v`" as a request list (priority 0). -/
def rq (v : ℝ) : List (Constraint ℝ × Nat) := [((.fixed 0 v : Constraint ℝ), 0)]

/-- The run: guess `v` (the solution), one oracle `s` for every call, the outcome and the Newton
record of the solo solve. -/
noncomputable def lrun (v : ℝ)
    (s : Nat → List (Triplet ℝ) → List ℝ → Except SolveError (List ℝ)) : LRun :=
  { reqs := rq v, n := 1, g := [(0, v)], solve := fun _ => s, o := ⟨[], [v], 0, [], 0, none⟩,
    xs := pointOf 1 [v], c := 1 / 2, res := ⟨[v], 0, [], [(0, 0, 1.0)], true⟩ }

/-- The solo Newton run from the solution returns in round 0 at the residual test. -/
theorem rq_newton (v : ℝ) (s : Nat → List (Triplet ℝ) → List ℝ → Except SolveError (List ℝ)) :
    newton (enumerate (rq v)) cfg s [v] = .ok ⟨[v], 0, [], [(0, 0, 1.0)], true⟩ := by
  show newtonLoop (fx v 0) cfg s (29 + 1) 0 [v] [] = _
  rw [newtonLoop, fx_done v 0 s]

/-- `solveInner` on the group from its solution. -/
theorem rq_solveInner (v : ℝ) (s : Nat → List (Triplet ℝ) → List ℝ → Except SolveError (List ℝ)) :
    solveInner (enumerate (rq v)) [(0, v)] cfg s none = .ok ⟨[], [v], 0, [], 0, none⟩ := by
  have hm : modelNew (enumerate (rq v)) ([((0 : Nat), v)].map (·.1)) = .ok () := by
    show modelNew [(⟨.fixed 0 v, 0, 0⟩ : Entry ℝ)] _ = _
    simp [modelNew, validateVariables, firstMissing, Constraint.nonzeroes, pattern, patternFrom,
      takeRows, Constraint.residualDim, List.zipIdx]
  have hn := rq_newton v s
  have hs : unsatisfiedSweep (enumerate (rq v)) (lookup [v]) = .ok [] := by
    show unsatisfiedSweep [(⟨.fixed 0 v, 0, 0⟩ : Entry ℝ)] _ = _
    simp [unsatisfiedSweep, Constraint.residual, Constraint.residualV, Constraint.residualReads,
      lookup, Constraint.residualDim, Res.mk1, isSatisfied, EPS_real]
    norm_num
  simp only [solveInner, hm]
  simp only [List.map_cons, List.map_nil, hn, hs, runAnalysis]
  show Except.ok _ = Except.ok _
  simp [lint, lintOne, maxPriority, enumerate, rq, List.zipIdx]

/-- The run meets `LRun.Ok`. -/
theorem lrun_ok (v : ℝ) (s : Nat → List (Triplet ℝ) → List ℝ → Except SolveError (List ℝ))
    (hs : ExactSolve s 1 1 (fun _ => (1e-9 : ℝ))) (htot : ∀ k jac r, ∃ d, s k jac r = .ok d) :
    (lrun v s).Ok 1e-9 cfg where
  ne := by simp [lrun, rq]
  loc := ⟨declared_fixed v 0, fx_regular v 0, fx_zero v 0, by norm_num,
    by show (1e-9 : ℝ) < 1 / 2; norm_num, fx_conditioned v 0⟩
  exact := hs
  answers := fun k jac r _ _ => htot k jac r
  len := rfl
  near := by
    show ‖pointOf 1 [v] - pointOf 1 [v]‖ ≤ _
    rw [sub_self, norm_zero]
    exact (radius_pos _ _ _ _ _).le
  loop := rq_newton v s
  flag := rfl

/-- The run meets `LRun.Solved`. -/
theorem lrun_solved (v : ℝ) (s : Nat → List (Triplet ℝ) → List ℝ → Except SolveError (List ℝ)) :
    (lrun v s).Solved 0 cfg where
  prio := by simp [lrun, rq]
  solved := by
    show solveWithPriority (rq v) [(0, v)] cfg (fun _ => s) none = _
    rw [solveWithPriority_single_level _ _ _ _ none 0 (by simp [rq]) (by simp [rq])]
    exact rq_solveInner v s

/-- **The hypotheses of `solveWithPriority_unionMany_unequal_partial` are consistent for three
groups** ("variable is 5", "… 7", "… 9", each guessed at its solution so that the opaque radii are
met; exact solvers with the code's damping `1e-9`; the union's solve succeeds by
`solveWithPriority_unionMany_converged`), and its conclusion is obtained for this run. -/
example : ∃ (Ls : List LRun) (solveU : LinSolve ℝ) (oU : Outcome ℝ), Ls.length = 3 ∧
    (∀ L ∈ Ls, L.Ok 1e-9 cfg) ∧ (∀ L ∈ Ls, L.Solved 0 cfg) ∧
    solveWithPriority (unionRuns (Ls.map (·.toGroupRun))).1
      (unionRuns (Ls.map (·.toGroupRun))).2.2 cfg solveU none = .ok oU ∧
    ∃ zs : List (List ℝ), oU.finalValues = zs.flatten ∧
      List.Forall₂ (fun L z => z.length = L.n ∧ L.o.iterations ≤ oU.iterations) Ls zs := by
  obtain ⟨s, es, ts⟩ := exists_exactSolve 1 1 (fun _ => (1e-9 : ℝ)) (fun _ => by norm_num)
  let Ls : List LRun := [lrun 5 s, lrun 7 s, lrun 9 s]
  have hmem : ∀ L ∈ Ls, ∃ v, L = lrun v s := by
    intro L hL
    simp only [Ls, List.mem_cons, List.mem_nil_iff, or_false] at hL
    rcases hL with rfl | rfl | rfl <;> exact ⟨_, rfl⟩
  have hok : ∀ L ∈ Ls, L.Ok 1e-9 cfg := by
    intro L hL; obtain ⟨v, rfl⟩ := hmem L hL; exact lrun_ok v s es ts
  have hso : ∀ L ∈ Ls, L.Solved 0 cfg := by
    intro L hL; obtain ⟨v, rfl⟩ := hmem L hL; exact lrun_solved v s
  obtain ⟨sU, eU, tU⟩ := exists_exactSolve
    (numRows (enumerate (unionRuns (Ls.map (·.toGroupRun))).1))
    (unionRuns (Ls.map (·.toGroupRun))).2.1 (fun _ => (1e-9 : ℝ)) (fun _ => by norm_num)
  have hGok : ∀ G ∈ Ls.map (·.toGroupRun), G.Ok 0 cfg (fun _ => (1e-9 : ℝ)) 0 := by
    intro G hG
    obtain ⟨L, hL, rfl⟩ := List.mem_map.mp hG
    obtain ⟨v, rfl⟩ := hmem L hL
    exact ⟨(lrun_ok v s es ts).ne, (lrun_solved v s).prio,
      fun r hr i hi => declared_fixed v 0 ⟨r.1, 0, r.2⟩ (by
        simp only [lrun, rq, List.mem_singleton] at hr
        subst hr
        simp) i hi,
      rfl, (lrun_solved v s).solved,
      fun r hr => by
        have := (rq_newton v s).symm.trans hr
        injection this with this
        rw [← this],
      rfl, es⟩
  obtain ⟨oU, hoU, _, _, _, _, hflag⟩ := solveWithPriority_unionMany_converged 0 cfg
    (fun _ => (1e-9 : ℝ)) (fun _ => by norm_num) 0 (Ls.map (·.toGroupRun)) (by simp [Ls]) hGok
    (fun _ => sU) eU (fun k jac r _ _ => tU k jac r)
  obtain ⟨zs, hz, _, hF⟩ := solveWithPriority_unionMany_unequal_partial 0 1e-9 (by norm_num) cfg Ls
    (by simp [Ls]) hok hso (fun _ => sU) eU (fun k jac r _ _ => tU k jac r) oU hoU hflag
  exact ⟨Ls, fun _ => sU, oU, rfl, hok, hso, hoU, zs, hz, hF.imp (fun _ _ h => ⟨h.1, h.2.1⟩)⟩

end ManyEx

end Ezpz
