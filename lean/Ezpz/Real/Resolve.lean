/-
C11 over ℝ: the order laws `MaxLaws` hold, so the residual test is inherited by sub-lists and
concatenations; a convergence tolerance below `EPSILON` makes the residual test imply the
satisfaction sweep's verdict; and the C11 statements with the hypotheses reduced accordingly.
-/
import Ezpz.Real.Instance
import Ezpz.Properties.C11
set_option linter.unusedSectionVars false
namespace Ezpz
open Transc

/-- The order laws of `≤` and `fmax = max` hold over ℝ. -/
theorem maxLaws_real : MaxLaws ℝ where
  le_trans := fun _ _ _ => le_trans
  le_fmax_left := fun a b => le_max_left a b
  le_fmax_right := fun a b => le_max_right a b
  fmax_le := fun _ _ _ => max_le

namespace C11

/-- The default convergence tolerance (`1e-8`) is below `EPSILON` (`1e-4`). -/
theorem default_tolerance_lt_EPS : (Config.default : Config ℝ).convergenceTolerance < EPS := by
  show (Gen.DEFAULT_CONVERGENCE_TOLERANCE : ℝ) < Gen.EPSILON
  unfold Gen.DEFAULT_CONVERGENCE_TOLERANCE Gen.EPSILON
  norm_num

/-- **Residual test ⇒ satisfaction sweep** (over ℝ): if the residual test passes at `x` and the
convergence tolerance is *strictly* below `EPSILON`, every request's own verdict at `x` is
"satisfied".  (The two tests are different: the loop compares the largest component with the
tolerance using `≤`, the sweep compares each request's components with `EPSILON` using `<`.  The
converse fails: `|r| = 1e-5` is satisfied but does not pass the default residual test.) -/
theorem converged_satisfied (es : List (Entry ℝ)) (cfg : Config ℝ) (x : List ℝ)
    (hc : ConvergedAt es cfg x) (htol : cfg.convergenceTolerance < EPS) :
    ∀ e ∈ es, satisfiedAt e (lookup x) = true := by
  obtain ⟨_, h1, _, h4⟩ := (convergedAt_iff maxLaws_real es cfg x).mp hc
  intro e he
  obtain ⟨r, hr⟩ := h1 e he
  have hrows := h4 e he
  unfold entryRows at hrows
  unfold satisfiedAt
  rw [hr] at hrows ⊢
  simp only at hrows ⊢
  have hlt : ∀ y ∈ takeRows e.c.residualDim r.r0 r.r1 r.r2, |y| < EPS :=
    fun y hy => lt_of_le_of_lt (hrows y hy) htol
  rcases residualDim_range e.c with hd | hd | hd <;> rw [hd] at hlt ⊢ <;>
    simp [takeRows] at hlt <;> simp [isSatisfied, hlt]

/-- C11.1 over ℝ — **a configuration that already satisfies the constraints is returned
untouched**: if model creation succeeds, the residual test passes at the guesses for the whole
request list, the tolerance is below `EPSILON` and at least one round is allowed, then the solve
(no analysis) succeeds for every LU oracle, returns the guesses bit for bit with 0 iterations and
nothing unsatisfied, and reports the largest requested priority. -/
theorem converged_guess_untouched_real (reqs : List (Constraint ℝ × Nat)) (g : List (Nat × ℝ))
    (cfg : Config ℝ) (solve : LinSolve ℝ) (hcap : 1 ≤ cfg.maxIterations)
    (htol : cfg.convergenceTolerance < EPS)
    (hm : modelNew (enumerate reqs) (g.map (·.1)) = .ok ())
    (hc : ConvergedAt (enumerate reqs) cfg (g.map (·.2))) :
    ∃ o, solveWithPriority reqs g cfg solve none = .ok o ∧ o.finalValues = g.map (·.2) ∧
      o.iterations = 0 ∧ o.unsatisfied = [] ∧ o.prioritySolved = maxPriority (enumerate reqs) :=
  converged_guess_untouched_of_full maxLaws_real reqs g cfg solve none hcap hm hc
    (converged_satisfied _ cfg _ hc htol) (fun _ _ => ⟨none, rfl⟩)

/-- C11.2 over ℝ — **a solved sketch does not drift at the public entry point**: if a prioritised
solve returned `o` from its top level (automatic for single-priority lists) and its top-level
Newton run stopped at the residual test, then solving the same requests again from `o.finalValues`
(any LU oracle, no analysis) returns the same values with 0 iterations; with a tolerance below
`EPSILON` nothing is unsatisfied and the solved priority is the largest requested priority. -/
theorem resolve_is_identity_real (reqs : List (Constraint ℝ × Nat)) (g g' : List (Nat × ℝ))
    (cfg : Config ℝ) (solve solve' : LinSolve ℝ) (svd : Option (Svd ℝ)) (o : Outcome ℝ)
    (hne : reqs ≠ []) (h : solveWithPriority reqs g cfg solve svd = .ok o)
    (hids : g'.map (·.1) = g.map (·.1)) (hvals : g'.map (·.2) = o.finalValues)
    (htop : o.prioritySolved = maxPriority (enumerate reqs))
    (hb : ∀ i nr, newton (enumerate reqs) cfg (solve i) (g.map (·.2)) = .ok nr →
      nr.byResidual = true) :
    ∃ o', solveWithPriority reqs g' cfg solve' none = .ok o' ∧ o'.finalValues = o.finalValues ∧
      o'.iterations = 0 ∧
      (cfg.convergenceTolerance < EPS →
        o'.unsatisfied = [] ∧ o'.prioritySolved = maxPriority (enumerate reqs)) := by
  have hc := solve_residual_stop_converged reqs g cfg solve svd o hne h htop hb
  obtain ⟨o', ho', h1, h2, _⟩ := resolve_is_identity_solve maxLaws_real reqs g g' cfg solve solve'
    svd none o h hids hvals htop hc (fun _ _ => ⟨none, rfl⟩)
  refine ⟨o', ho', h1, h2, ?_⟩
  intro htol
  -- the first solve's sweep ran at the same values, so it listed nothing either
  obtain ⟨P, i, _, hs, hp⟩ := C03.result_is_subset_solve reqs g cfg solve svd o hne h
  rw [← hp, htop, filter_le_maxPriority] at hs
  obtain ⟨nr, _, hm, hf, hit, _, _, hu, _⟩ := solveInner_ok _ _ _ _ _ _ hs
  have hcap : 1 ≤ cfg.maxIterations := by
    have := solveInner_iterations_lt _ _ _ _ _ _ hs
    omega
  rw [← hvals] at hc
  obtain ⟨o'', ho'', _, _, h3, h4⟩ := converged_guess_untouched_real reqs g' cfg solve' hcap htol
    (by rw [hids]; exact hm) hc
  rw [ho'] at ho''
  injection ho'' with ho''
  subst ho''
  exact ⟨h3, h4⟩

/-- C11.2 + C11.3 over ℝ — **re-solving with further constraints that the result already satisfies
returns it unchanged**: as `resolve_is_identity_real`, for the request list `reqs ++ extra`, when
the residual test passes at `o.finalValues` for `extra` and model creation succeeds for the longer
list. -/
theorem resolve_with_extra_real (reqs extra : List (Constraint ℝ × Nat)) (g g' : List (Nat × ℝ))
    (cfg : Config ℝ) (solve solve' : LinSolve ℝ) (svd : Option (Svd ℝ)) (o : Outcome ℝ)
    (hne : reqs ≠ []) (h : solveWithPriority reqs g cfg solve svd = .ok o)
    (hvals : g'.map (·.2) = o.finalValues)
    (htop : o.prioritySolved = maxPriority (enumerate reqs))
    (hb : ∀ i nr, newton (enumerate reqs) cfg (solve i) (g.map (·.2)) = .ok nr →
      nr.byResidual = true)
    (hextra : ConvergedAt (enumerate extra) cfg o.finalValues)
    (hm : modelNew (enumerate (reqs ++ extra)) (g'.map (·.1)) = .ok ()) :
    ∃ o', solveWithPriority (reqs ++ extra) g' cfg solve' none = .ok o' ∧
      o'.finalValues = o.finalValues ∧ o'.iterations = 0 ∧
      (cfg.convergenceTolerance < EPS →
        o'.unsatisfied = [] ∧ o'.prioritySolved = maxPriority (enumerate (reqs ++ extra))) := by
  obtain ⟨o', ho', h1, h2, h3⟩ := resolve_with_extra_untouched maxLaws_real reqs extra g g' cfg
    solve solve' svd none o hne h hvals htop hb hextra hm (fun _ _ => ⟨none, rfl⟩)
  refine ⟨o', ho', h1, h2, fun htol => h3 ?_⟩
  have hc := solve_residual_stop_converged reqs g cfg solve svd o hne h htop hb
  exact converged_satisfied _ cfg _
    (ConvergedAt_enumerate_append maxLaws_real reqs extra cfg _ hc hextra) htol

/-! ### Non-vacuity -/

/-- Two requests with priorities 3 and 7 over ℝ. -/
noncomputable def exReqsR : List (Constraint ℝ × Nat) :=
  [(Constraint.fixed 0 1, 3), (Constraint.fixed 1 2, 7)]

/-- The residual test passes for `exReqsR` at `x0 = 1, x1 = 2` with the default configuration. -/
theorem exReqsR_converged : ConvergedAt (enumerate exReqsR) Config.default [1, 2] := by
  rw [convergedAt_iff maxLaws_real]
  refine ⟨by simp [enumerate, exReqsR], ?_, ?_, ?_⟩
  · intro e he
    simp [enumerate, exReqsR] at he
    rcases he with rfl | rfl <;> simp [Constraint.residual, Constraint.residualReads, lookup]
  · intro e he
    simp [enumerate, exReqsR] at he
    rcases he with rfl | rfl <;> simp [Constraint.jacobianRows, Constraint.jacobianReads, lookup]
  · intro e he
    simp [enumerate, exReqsR] at he
    rcases he with rfl | rfl <;>
      simp [entryRows, Constraint.residual, Constraint.residualReads, lookup, Constraint.residualV,
        Constraint.residualDim, takeRows, Res.mk1, Config.default,
        Gen.DEFAULT_CONVERGENCE_TOLERANCE] <;> norm_num

/-- The hypotheses of `converged_guess_untouched_real` hold for `exReqsR` at the guesses
`x0 = 1, x1 = 2` with the default configuration; the conclusion for every LU oracle. -/
example (solve : LinSolve ℝ) :
    ∃ o, solveWithPriority exReqsR [(0, 1), (1, 2)] Config.default solve none = .ok o ∧
      o.finalValues = [1, 2] ∧ o.iterations = 0 ∧ o.unsatisfied = [] ∧
      o.prioritySolved = maxPriority (enumerate exReqsR) :=
  converged_guess_untouched_real exReqsR [(0, 1), (1, 2)] Config.default solve (by decide)
    default_tolerance_lt_EPS (by decide) exReqsR_converged

/-- The largest requested priority of `exReqsR` is 7. -/
example : maxPriority (enumerate exReqsR) = 7 := by decide

/-- The two tests are different: at `x0 = 1 + 1e-5` the request `Fixed(0, 1)` is satisfied in the
sweep's sense (`|r| < 1e-4`) but the default residual test (`|r| ≤ 1e-8`) does not pass. -/
example : satisfiedAt (⟨Constraint.fixed 0 (1:ℝ), 0, 0⟩ : Entry ℝ) (lookup [1 + 1e-5]) = true ∧
    ¬ ConvergedAt [(⟨Constraint.fixed 0 (1:ℝ), 0, 0⟩ : Entry ℝ)] Config.default [1 + 1e-5] := by
  constructor
  · simp [satisfiedAt, Constraint.residual, Constraint.residualReads, lookup, Constraint.residualV,
      Constraint.residualDim, isSatisfied, Res.mk1, EPS_real]
    norm_num [abs_lt]
  · rw [convergedAt_iff maxLaws_real]
    rintro ⟨_, _, _, h⟩
    have := h _ (List.mem_singleton_self _) (1e-5) (by
      simp [entryRows, Constraint.residual, Constraint.residualReads, lookup, Constraint.residualV,
        Constraint.residualDim, takeRows, Res.mk1])
    simp [Config.default, Gen.DEFAULT_CONVERGENCE_TOLERANCE] at this
    norm_num [abs_le] at this

end C11
end Ezpz
