/-
C02 — the local-convergence theorem for the MODEL's residual map, for **every** kind of request
(`PointArcCoincident` included) under the regularity hypothesis `RegularAt3`
(Real/FDerivKinds3.lean).  Same statements as Real/FDerivEntry2.lean with `RegularAt3` in place of
`RegularAt2`; a fully determined example system with a `PointArcCoincident` request (`pac1`); and a
concrete point (`pacB`, the point at distance exactly `EPSILON` from the arc's centre) that meets the
non-strict `RegularPAC0 ∧ RegularPAC1 ∧ RegularPAC2` but where `KindC1` fails (`pacB_not_kindC1`).
-/
import Ezpz.Real.FDerivEntry2
import Ezpz.Real.FDerivKinds3
namespace Ezpz
open Transc Matrix Topology Filter

/-- **`hasFDerivAt_rOf` under `RegularAt3`** (all 23 kinds, `PointArcCoincident` included): for
requests with ids `< n` that are all regular at `xs` (every guard of the residual and of the Jacobian
kernel strictly inactive; for `PointArcCoincident`, `StrictPAC`), the model's assembled residual map
has at `xs` the Fréchet derivative given by the model's assembled Jacobian at `xs`, and the assembled
Jacobian is continuous at `xs`. -/
theorem hasFDerivAt_rOf_regular3 (es : List (Entry ℝ)) (n : Nat) (hd : Declared es n)
    (xs : EuclideanSpace ℝ (Fin n)) (hk : ∀ e ∈ es, RegularAt3 e.c (asg n xs)) :
    HasFDerivAt (rOf es n) (GN.euclCLM (JOf es n xs)) xs ∧ ContinuousAt (JOf es n) xs :=
  ⟨hasFDerivAt_rOf_of_kindC1 es n hd xs (fun e he => kindC1_of_regular3 e.c n xs (hk e he)),
    continuousAt_JOf_of_kindC1 es n hd xs (fun e he => kindC1_of_regular3 e.c n xs (hk e he))⟩

/-- **`model_local_C02` under `RegularAt3`**: `es` with ids `< n`, every request regular at `xs`
(`RegularAt3`; any of the 23 kinds), `xs` a zero of the model's residual map,
`0 < lam < c ≤ σ_min(JOf es n xs)²`.  Then there is `ρ > 0` such that the exact damped Gauss–Newton
iteration built from the model's residual and Jacobian (`gnMap`), started within `ρ` of `xs`, halves
its error every round, stays within `ρ` of `xs`, and never moves farther than `1.5 ‖x0 − xs‖` from
the guess. -/
theorem model_local_C02_regular3 (es : List (Entry ℝ)) (n : Nat) (hd : Declared es n)
    (xs : EuclideanSpace ℝ (Fin n)) (hk : ∀ e ∈ es, RegularAt3 e.c (asg n xs))
    (hxs : rOf es n xs = 0) (lam c : ℝ) (hlam : 0 < lam) (hc : lam < c)
    (hJ : ∀ v : Fin n → ℝ, c * (v ⬝ᵥ v) ≤ (JOf es n xs *ᵥ v) ⬝ᵥ (JOf es n xs *ᵥ v)) :
    ∃ ρ : ℝ, 0 < ρ ∧ ∀ x0, ‖x0 - xs‖ ≤ ρ → ∀ k : ℕ,
      ‖(gnMap es n lam)^[k] x0 - xs‖ ≤ (1 / 2) ^ k * ‖x0 - xs‖ ∧
      ‖(gnMap es n lam)^[k] x0 - xs‖ ≤ ρ ∧
      ‖(gnMap es n lam)^[k] x0 - x0‖ ≤ 1.5 * ‖x0 - xs‖ :=
  model_local_C02_of_kindC1 es n hd xs (fun e he => kindC1_of_regular3 e.c n xs (hk e he)) hxs lam c
    hlam hc hJ

/-- **C02 for the executed rounds of the model's loop, under `RegularAt3`** (exact solver, exact
real arithmetic; any of the 23 kinds): `es` with ids `< n`, every request regular at `xs`
(`RegularAt3`), `xs` a zero of the model's residual, `0 < lam < c ≤ σ_min(JOf es n xs)²`.  There is
`ρ > 0` such that for every exact solver with damping `lam`, every configuration, and every guess
list `x` of `n` values within `ρ` of `xs`: whenever `j` rounds of the model's `newtonStep` continue
from `x` to `y`, `‖y − xs‖ ≤ 2^-j ‖x − xs‖` and `‖y − x‖ ≤ 1.5 ‖x − xs‖`.  A statement about the
rounds the loop executed; nothing is claimed about when the loop's stopping tests fire, and nothing
about `f64`. -/
theorem model_newtonRun_C02_3 (es : List (Entry ℝ)) (n : Nat) (hd : Declared es n)
    (xs : EuclideanSpace ℝ (Fin n)) (hk : ∀ e ∈ es, RegularAt3 e.c (asg n xs))
    (hxs : rOf es n xs = 0) (lam c : ℝ) (hlam : 0 < lam) (hc : lam < c)
    (hJ : ∀ v : Fin n → ℝ, c * (v ⬝ᵥ v) ≤ (JOf es n xs *ᵥ v) ⬝ᵥ (JOf es n xs *ᵥ v)) :
    ∃ ρ : ℝ, 0 < ρ ∧
      ∀ (cfg : Config ℝ) (solve : Nat → List (Triplet ℝ) → List ℝ → Except SolveError (List ℝ)),
        ExactSolve solve (numRows es) n (fun _ => lam) →
        ∀ (x : List ℝ), x.length = n → ‖pointOf n x - xs‖ ≤ ρ →
        ∀ (j k : Nat) (ws : List (Warning ℝ)) (y : List ℝ) (wy : List (Warning ℝ)),
          newtonRun es cfg solve j k x ws = some (y, wy) →
          ‖pointOf n y - xs‖ ≤ (1 / 2) ^ j * ‖pointOf n x - xs‖ ∧
          ‖pointOf n y - pointOf n x‖ ≤ 1.5 * ‖pointOf n x - xs‖ := by
  obtain ⟨ρ, hρ, hball⟩ := model_local_C02_regular3 es n hd xs hk hxs lam c hlam hc hJ
  refine ⟨ρ, hρ, ?_⟩
  intro cfg solve hS x hx hx0 j k ws y wy hrun
  obtain ⟨_, hy⟩ := newtonRun_eq_iterate es n cfg solve lam hlam hS j k x ws y wy hx hrun
  rw [hy]
  exact ⟨(hball _ hx0 j).1, (hball _ hx0 j).2.2⟩

/-- The `RegularAt2` versions are special cases. -/
theorem regularAt3_of_all_regularAt2 (es : List (Entry ℝ)) (v : Nat → ℝ)
    (hk : ∀ e ∈ es, RegularAt2 e.c v) : ∀ e ∈ es, RegularAt3 e.c v :=
  fun e he => regularAt3_of_regularAt2 e.c v (hk e he)

/-! ### Non-vacuity: a fully determined system with a `PointArcCoincident` request -/

/-- "Point on arc": arc with centre `(v0, v1)` fixed at `(0, 0)`, start `(v2, v3)` fixed at `(1, 0)`,
stop `(v4, v5)` fixed at `(0, 1)`; point `P = (v6, v7)` with `v6` fixed at `0`, on the arc.
8 variables, 7 + 3 rows. -/
def pac1 : List (Entry ℝ) :=
  [⟨.fixed 0 0, 0, 0⟩, ⟨.fixed 1 0, 1, 0⟩, ⟨.fixed 2 1, 2, 0⟩, ⟨.fixed 3 0, 3, 0⟩,
   ⟨.fixed 4 0, 4, 0⟩, ⟨.fixed 5 1, 5, 0⟩, ⟨.fixed 6 0, 6, 0⟩,
   ⟨.pointArcCoincident ⟨⟨0, 1⟩, ⟨2, 3⟩, ⟨4, 5⟩⟩ ⟨6, 7⟩, 7, 0⟩]

/-- All ids of "Point on arc" are `< 8`. -/
theorem pac1_declared : Declared pac1 8 := by
  intro e he i hi
  simp only [pac1, List.mem_cons, List.not_mem_nil, or_false] at he
  rcases he with rfl | rfl | rfl | rfl | rfl | rfl | rfl | rfl <;>
    simp [Constraint.nonzeroes, Rows.all, Pt.vars] at hi <;> omega

/-- Every request of "Point on arc" is regular at `(0, 0, 1, 0, 0, 1, 0, 1)` (`P` is the arc's stop
point): the `PointArcCoincident` request is strictly regular there because `r0 = 0` and the radius is
`1 > EPSILON` (`strictPAC_of_r0_zero`). -/
theorem pac1_regular :
    ∀ e ∈ pac1, RegularAt3 e.c (asg 8 (pointOf 8 [0, 0, 1, 0, 0, 1, 0, 1])) := by
  intro e he
  simp only [pac1, List.mem_cons, List.not_mem_nil, or_false] at he
  rcases he with rfl | rfl | rfl | rfl | rfl | rfl | rfl | rfl
  · exact trivial
  · exact trivial
  · exact trivial
  · exact trivial
  · exact trivial
  · exact trivial
  · exact trivial
  · show StrictPAC _ _ _
    refine strictPAC_of_r0_zero ?_ ?_
    · simp only [pacR0, asg_pointOf 8 [0, 0, 1, 0, 0, 1, 0, 1] rfl]
      norm_num
    · simp only [asg_pointOf 8 [0, 0, 1, 0, 0, 1, 0, 1] rfl]
      norm_num [EPS_real]

/-- `(0, 0, 1, 0, 0, 1, 0, 1)` solves "Point on arc": the model's residual map vanishes there (row 0
of the `PointArcCoincident` request is `1 − 1`, and the point is inside the gate, so rows 1 and 2 are
`0.0`). -/
theorem pac1_zero : rOf pac1 8 (pointOf 8 [0, 0, 1, 0, 0, 1, 0, 1]) = 0 := by
  apply (WithLp.ofLp_injective 2)
  funext i
  rw [rOf_apply pac1 8 pac1_declared]
  show resRow pac1 i.val _ = (0 : ℝ)
  obtain ⟨i, hi⟩ := i
  have hi10 : i < 10 := hi
  have hG : (0 : ℝ) ≤ ANG_TOL := ANG_TOL_pos.le
  interval_cases i <;>
    simp [pac1, resRow, Constraint.residualDim, Constraint.residualV, Res.mk1,
      takeRows, asg_pointOf, hG, lit_0]

/-- The conditioning hypothesis of `model_local_C02_regular3` for "Point on arc" at its solution, with
`c = 1/10`. -/
theorem pac1_conditioned (v : Fin 8 → ℝ) :
    (1 / 10 : ℝ) * (v ⬝ᵥ v) ≤ (JOf pac1 8 (pointOf 8 [0, 0, 1, 0, 0, 1, 0, 1]) *ᵥ v) ⬝ᵥ
      (JOf pac1 8 (pointOf 8 [0, 0, 1, 0, 0, 1, 0, 1]) *ᵥ v) := by
  have h := JOf_dot pac1 8 pac1_declared (pointOf 8 [0, 0, 1, 0, 0, 1, 0, 1]) (WithLp.toLp 2 v)
  rw [show (WithLp.toLp 2 v).ofLp = v from rfl] at h
  rw [h]
  have hn : numRows pac1 = 10 := rfl
  have hv : ∀ k (hk : k < 8), asg 8 (WithLp.toLp 2 v) k = v ⟨k, hk⟩ := fun k hk => asg_lt 8 _ k hk
  have hE : ¬ (1 : ℝ) < EPS := by rw [EPS_real]; norm_num
  have hE' : (EPS : ℝ) ≤ 1 := by rw [EPS_real]; norm_num
  have hG : (0 : ℝ) ≤ ANG_TOL := ANG_TOL_pos.le
  rw [hn]
  simp [Finset.sum_range_succ, pac1, jacRow, Constraint.residualDim, Constraint.jacobianV,
    distJacRow, rowApply, takeRows, asg_pointOf, hv, dotProduct, Fin.sum_univ_succ, hE, hE', hG]
  rw [lit_1]
  nlinarith [sq_nonneg (v 0), sq_nonneg (v 1), sq_nonneg (v 2), sq_nonneg (v 3), sq_nonneg (v 4),
    sq_nonneg (v 5), sq_nonneg (v 6), sq_nonneg (v 7),
    sq_nonneg (-v 1 + (v 7 + (-v 2 + v 0)) - v 7 / 2), sq_nonneg (v 0 - v 1 - v 2 + v 7 / 2),
    sq_nonneg (v 0 + v 1), sq_nonneg (v 0 + v 2), sq_nonneg (v 1 - v 2)]

/-- **Non-vacuity of `model_local_C02_regular3` and of `RegularAt3` with a `PointArcCoincident`
request**: "Point on arc" (seven `Fixed`, one `PointArcCoincident`; 8 variables, 10 rows), its
solution `(0, 0, 1, 0, 0, 1, 0, 1)`, the code's damping `lam = 1e-9` and `c = 1/10` meet every
hypothesis. -/
example : ∃ ρ : ℝ, 0 < ρ ∧ ∀ x0, ‖x0 - pointOf 8 [0, 0, 1, 0, 0, 1, 0, 1]‖ ≤ ρ → ∀ k : ℕ,
    ‖(gnMap pac1 8 1e-9)^[k] x0 - pointOf 8 [0, 0, 1, 0, 0, 1, 0, 1]‖ ≤
      (1 / 2) ^ k * ‖x0 - pointOf 8 [0, 0, 1, 0, 0, 1, 0, 1]‖ ∧
    ‖(gnMap pac1 8 1e-9)^[k] x0 - pointOf 8 [0, 0, 1, 0, 0, 1, 0, 1]‖ ≤ ρ ∧
    ‖(gnMap pac1 8 1e-9)^[k] x0 - x0‖ ≤ 1.5 * ‖x0 - pointOf 8 [0, 0, 1, 0, 0, 1, 0, 1]‖ :=
  model_local_C02_regular3 pac1 8 pac1_declared _ pac1_regular pac1_zero 1e-9 (1 / 10)
    (by norm_num) (by norm_num) pac1_conditioned

/-- **Non-vacuity of `model_newtonRun_C02_3`**: the same system meets its hypotheses, and an exact
solver with the code's damping exists. -/
example : (∃ ρ : ℝ, 0 < ρ ∧
      ∀ (cfg : Config ℝ) (solve : Nat → List (Triplet ℝ) → List ℝ → Except SolveError (List ℝ)),
        ExactSolve solve (numRows pac1) 8 (fun _ => (1e-9 : ℝ)) →
        ∀ (x : List ℝ), x.length = 8 → ‖pointOf 8 x - pointOf 8 [0, 0, 1, 0, 0, 1, 0, 1]‖ ≤ ρ →
        ∀ (j k : Nat) (ws : List (Warning ℝ)) (y : List ℝ) (wy : List (Warning ℝ)),
          newtonRun pac1 cfg solve j k x ws = some (y, wy) →
          ‖pointOf 8 y - pointOf 8 [0, 0, 1, 0, 0, 1, 0, 1]‖ ≤
            (1 / 2) ^ j * ‖pointOf 8 x - pointOf 8 [0, 0, 1, 0, 0, 1, 0, 1]‖ ∧
          ‖pointOf 8 y - pointOf 8 x‖ ≤ 1.5 * ‖pointOf 8 x - pointOf 8 [0, 0, 1, 0, 0, 1, 0, 1]‖) ∧
    ∃ solve, ExactSolve solve (numRows pac1) 8 (fun _ => (1e-9 : ℝ)) :=
  ⟨model_newtonRun_C02_3 pac1 8 pac1_declared _ pac1_regular pac1_zero 1e-9 (1 / 10)
    (by norm_num) (by norm_num) pac1_conditioned,
   (exists_exactSolve _ _ _ (fun _ => by norm_num)).imp fun _ h => h.1⟩

/-- `RegularAt3` is satisfiable for `PointArcCoincident` (where `RegularAt2` was `False`). -/
example : RegularAt3 (.pointArcCoincident ⟨⟨0, 1⟩, ⟨2, 3⟩, ⟨4, 5⟩⟩ ⟨6, 7⟩)
    (asg 8 (pointOf 8 [0, 0, 1, 0, 0, 1, 0, 1])) :=
  pac1_regular ⟨.pointArcCoincident ⟨⟨0, 1⟩, ⟨2, 3⟩, ⟨4, 5⟩⟩ ⟨6, 7⟩, 7, 0⟩ (by simp [pac1])

/-! ### Why row 0's guards must be *strictly* inactive: a point allowed by `RegularPAC0` where the
model's Jacobian row 0 is discontinuous -/

/-- Where the `Distance` sub-row's guard fires (`|centre − p| < EPSILON`), row 0 of the model's
Jacobian has no entry at the point's ids: applied to a direction that vanishes on the ids of the
arc's start and centre it gives `0`. -/
theorem pac_jac_r0_guarded (arc : ArcD) (p : Pt) (w : Nat → ℝ)
    (h1 : Real.sqrt ((w arc.center.x - w p.x) * (w arc.center.x - w p.x)
      + (w arc.center.y - w p.y) * (w arc.center.y - w p.y)) < EPS) (U : Nat → ℝ)
    (hU : U arc.start.x = 0 ∧ U arc.start.y = 0 ∧ U arc.center.x = 0 ∧ U arc.center.y = 0) :
    rowApply ((Constraint.pointArcCoincident arc p).jacobianV w).r0 U = 0 := by
  obtain ⟨a, b, c, d⟩ := hU
  simp only [Constraint.jacobianV, distJacRow, hypot_real, abs_real]
  rw [if_pos h1]
  split_ifs <;> simp [rowApply, a, b, c, d]

/-- The assignment of the eighth unit vector of `ℝ⁸`. -/
theorem asg_single7 (i : Nat) :
    asg 8 (EuclideanSpace.single (7 : Fin 8) (1 : ℝ)) i = if i = 7 then 1 else 0 := by
  by_cases h : i < 8
  · rw [asg_lt 8 _ i h]
    interval_cases i <;> simp
  · rw [asg_ge 8 _ i h, if_neg (by omega)]

/-- The boundary point: arc with centre `(0,0)`, start `(1,0)`, stop `(1,1)`; point `(0, EPSILON)`,
at distance **exactly** `EPSILON = 1e-4` from the centre. -/
noncomputable def pacB : EuclideanSpace ℝ (Fin 8) := pointOf 8 [0, 0, 1, 0, 1, 1, 0, 1e-4]

/-- `pacB` meets the three per-row conditions of Real/DerivC.lean (`RegularPAC0` — non-strict —,
`RegularPAC1`, `RegularPAC2`: strictly outside the gate, orientation `1`, start and end cross products
`−1e-4`), i.e. `StrictPAC` with its first conjunct *not* strengthened. -/
theorem pacB_regular :
    RegularPAC0 ⟨⟨0, 1⟩, ⟨2, 3⟩, ⟨4, 5⟩⟩ ⟨6, 7⟩ (asg 8 pacB) ∧
    RegularPAC1 ⟨⟨0, 1⟩, ⟨2, 3⟩, ⟨4, 5⟩⟩ ⟨6, 7⟩ (asg 8 pacB) ∧
    RegularPAC2 ⟨⟨0, 1⟩, ⟨2, 3⟩, ⟨4, 5⟩⟩ ⟨6, 7⟩ (asg 8 pacB) := by
  have hs : Real.sqrt 100000000 = 10000 := by
    rw [show (100000000 : ℝ) = 10000 * 10000 by norm_num]; exact Real.sqrt_mul_self (by norm_num)
  refine ⟨?_, Or.inr ?_, Or.inr ?_⟩
  · simp only [RegularPAC0, pacB, asg_pointOf 8 [0, 0, 1, 0, 1, 1, 0, 1e-4] rfl]
    norm_num [EPS_real, hs]
  · simp only [pacR0, pacOrient, pacStartRaw, pacB, asg_pointOf 8 [0, 0, 1, 0, 1, 1, 0, 1e-4] rfl]
    norm_num [ANG_TOL_real, hs]
  · simp only [pacR0, pacOrient, pacEndRaw, pacB, asg_pointOf 8 [0, 0, 1, 0, 1, 1, 0, 1e-4] rfl]
    norm_num [ANG_TOL_real, hs]

/-- **At `pacB` the model's Jacobian row 0 of `PointArcCoincident` is not continuous**: applied to the
direction `e₇` (the point's `y`) it is `1` at `pacB` and `0` at `pacB + t·e₇` for every
`−EPSILON < t < 0` (there `|centre − p| = EPSILON + t < EPSILON`, the `Distance` sub-row's guard
fires and the kernel drops the point's entries).  So `RegularPAC0` (non-strict) is not enough for
field `c0` of `KindC1`; `StrictPAC0` is. -/
theorem pacB_row0_not_continuous :
    ¬ ContinuousAt (fun x => rowApply ((Constraint.pointArcCoincident
      ⟨⟨0, 1⟩, ⟨2, 3⟩, ⟨4, 5⟩⟩ ⟨6, 7⟩).jacobianV (asg 8 x)).r0 (fun i => if i = 7 then 1 else 0))
      pacB := by
  intro hc
  have hγ : ContinuousAt (fun t : ℝ => pacB + t • EuclideanSpace.single (7 : Fin 8) (1 : ℝ)) 0 := by
    fun_prop
  have hc' : ContinuousAt (fun x => rowApply ((Constraint.pointArcCoincident
      ⟨⟨0, 1⟩, ⟨2, 3⟩, ⟨4, 5⟩⟩ ⟨6, 7⟩).jacobianV (asg 8 x)).r0 (fun i => if i = 7 then 1 else 0))
      (pacB + (0 : ℝ) • EuclideanSpace.single (7 : Fin 8) (1 : ℝ)) := by
    simpa using hc
  have hcomp := ContinuousAt.comp
    (f := fun t : ℝ => pacB + t • EuclideanSpace.single (7 : Fin 8) (1 : ℝ)) hc' hγ
  -- value at `t = 0`
  have h0 : rowApply ((Constraint.pointArcCoincident ⟨⟨0, 1⟩, ⟨2, 3⟩, ⟨4, 5⟩⟩ ⟨6, 7⟩).jacobianV
      (asg 8 pacB)).r0 (fun i => if i = 7 then 1 else 0) = 1 := by
    rw [pac_jac_r0 _ _ _ pacB_regular.1]
    simp only [pacRow0, rowApply, List.map_cons, List.map_nil, List.sum_cons, List.sum_nil, pacB,
      asg_pointOf 8 [0, 0, 1, 0, 1, 1, 0, 1e-4] rfl]
    have hs : Real.sqrt 100000000 = 10000 := by
      rw [show (100000000 : ℝ) = 10000 * 10000 by norm_num]; exact Real.sqrt_mul_self (by norm_num)
    norm_num [hs]
  -- value at `−EPSILON < t < 0`
  have hneg : ∀ t : ℝ, -1e-4 < t → t < 0 →
      rowApply ((Constraint.pointArcCoincident ⟨⟨0, 1⟩, ⟨2, 3⟩, ⟨4, 5⟩⟩ ⟨6, 7⟩).jacobianV
        (asg 8 (pacB + t • EuclideanSpace.single (7 : Fin 8) (1 : ℝ)))).r0
        (fun i => if i = 7 then 1 else 0) = 0 := by
    intro t ht1 ht2
    refine pac_jac_r0_guarded _ _ _ ?_ _ (by simp)
    simp only [asg_line, lineThrough, asg_single7, pacB, asg_pointOf 8 [0, 0, 1, 0, 1, 1, 0, 1e-4] rfl]
    rw [Real.sqrt_lt' EPS_pos, EPS_real]
    norm_num
    have hs1 : 0 < t + 1 / 10000 := by norm_num at ht1; linarith
    have hs2 : 0 < 1 / 10000 - (t + 1 / 10000) := by linarith
    nlinarith [mul_pos hs1 hs2]
  have hval : (1 / 2 : ℝ) < ((fun x => rowApply ((Constraint.pointArcCoincident
      ⟨⟨0, 1⟩, ⟨2, 3⟩, ⟨4, 5⟩⟩ ⟨6, 7⟩).jacobianV (asg 8 x)).r0 (fun i => if i = 7 then 1 else 0)) ∘
      fun t : ℝ => pacB + t • EuclideanSpace.single (7 : Fin 8) (1 : ℝ)) 0 := by
    simp only [Function.comp, zero_smul, add_zero, h0]
    norm_num
  have e1 := (hcomp.eventually (lt_mem_nhds hval)).filter_mono
    (nhdsWithin_le_nhds (s := Set.Iio (0 : ℝ)))
  have e2 : ∀ᶠ t in 𝓝[<] (0 : ℝ), t ∈ Set.Ioo (-1e-4 : ℝ) 0 := Ioo_mem_nhdsLT (by norm_num)
  obtain ⟨t, ht, ht1, ht2⟩ := (e1.and e2).exists
  simp only [Function.comp] at ht
  rw [hneg t ht1 ht2] at ht
  norm_num at ht

/-- **`KindC1` fails at `pacB`**, a point where `RegularPAC0 ∧ RegularPAC1 ∧ RegularPAC2` holds
(`pacB_regular`): the strengthening of the first conjunct of `StrictPAC` to strict inequalities is
forced. -/
theorem pacB_not_kindC1 :
    ¬ KindC1 (.pointArcCoincident ⟨⟨0, 1⟩, ⟨2, 3⟩, ⟨4, 5⟩⟩ ⟨6, 7⟩) 8 pacB :=
  fun h => pacB_row0_not_continuous (h.c0 _)

end Ezpz
