/-
C14, tolerance clause — a SATISFIABLE "the step-size test cannot fire" condition.

`StepTestSilent cfg solve` (`Proofs/Caps.lean`) quantifies over every value vector `x`; as the step
threshold `τ·(‖x‖∞ + τ)` is unbounded in `x` for `τ > 0`, it can only hold when the step tolerance is
0.  Here the condition is restricted to the value vectors the run actually visits
(`iterates`, `Proofs/Visited.lean`):

* `StepTestSilentOn cfg solve xs` — at every `x ∈ xs`, whenever the LU oracle answers a residual
  vector that fails the residual test with a step `d`, the step norm exceeds `stepThreshold cfg x`;
* `newtonLoop_byResidual_of_silentOn`, `newton_byResidual_of_silentOn` (every scalar type, every
  oracle): a successful run whose visited vectors satisfy it returned at the residual test;
* `StepTestSilent.on`: the old condition implies the new one on every list;
* over ℝ, at the outcome: `solve_within_tolerance_of_silentOn` (any number of priority levels: the
  condition for the returned level's run), `solve_within_tolerance_single_level_of_silentOn`;
* `negSolve_silentOn`: for the exact step `d = -r` the condition holds on every list of vectors whose
  step thresholds are at most the convergence tolerance;
* non-vacuity with the code's DEFAULT configuration (cap 35, convergence tolerance `1e-8`, step
  tolerance `1e-12 > 0`): "variable 0 fixed to 5" from the guess 0 takes one real step, visits exactly
  `[0]` and `[5]`, the condition holds there (while `StepTestSilent` does NOT hold for this
  configuration), and the outcome `[5]` is within the tolerance.
-/
import Ezpz.Real.ToleranceEntry
import Ezpz.Proofs.Visited
set_option linter.unusedSectionVars false
set_option linter.unusedSimpArgs false
namespace Ezpz.C14
open Ezpz Transc

section Generic

variable {α : Type} [Add α] [Sub α] [Mul α] [Div α] [Neg α] [OfScientific α]
  [LT α] [DecidableLT α] [LE α] [DecidableLE α] [Transc α]

/-- **The step-size test is silent on the value vectors `xs`**: at every `x ∈ xs`, whenever the LU
oracle is asked for a step (for a residual vector `r` whose largest absolute entry fails the residual
test) and answers `d`, the ∞-norm of `d` is not within the step threshold at `x`. -/
def StepTestSilentOn (cfg : Config α)
    (solve : Nat → List (Triplet α) → List α → Except SolveError (List α))
    (xs : List (List α)) : Prop :=
  ∀ x ∈ xs, ∀ (k : Nat) (jac : List (Triplet α)) (r d : List α) (largest : α),
    solve k jac r = .ok d → maxAbs? r = some largest → ¬ largest ≤ cfg.convergenceTolerance →
    ¬ stepInfNorm d ≤ stepThreshold cfg x

/-- The unrestricted condition `StepTestSilent` implies the restricted one on every list. -/
theorem StepTestSilent.on (cfg : Config α)
    (solve : Nat → List (Triplet α) → List α → Except SolveError (List α))
    (h : StepTestSilent cfg solve) (xs : List (List α)) : StepTestSilentOn cfg solve xs :=
  fun x _ k jac r d largest hd hm hl => h k jac r d x largest hd hm hl

/-- The restricted condition is inherited by sublists (any list all of whose members are members). -/
theorem StepTestSilentOn.mono (cfg : Config α)
    (solve : Nat → List (Triplet α) → List α → Except SolveError (List α))
    (xs ys : List (List α)) (hsub : ∀ x ∈ xs, x ∈ ys) (h : StepTestSilentOn cfg solve ys) :
    StepTestSilentOn cfg solve xs :=
  fun x hx => h x (hsub x hx)

/-- If the step-size test is silent at `x`, a round at `x` that returns does so at the residual
test. -/
theorem newtonStep_byResidual_of_silentOn (es : List (Entry α)) (cfg : Config α)
    (solve : Nat → List (Triplet α) → List α → Except SolveError (List α))
    (k : Nat) (x : List α) (hs : StepTestSilentOn cfg solve [x]) (ws : List (Warning α))
    (r : NewtonOk α) (h : newtonStep es cfg solve k x ws = .done r) : r.byResidual = true := by
  unfold newtonStep at h
  split at h
  · cases h
  · split at h
    · cases h
    · split at h
      · cases h
      · rename_i largest hm
        split at h
        · injection h with h; subst h; rfl
        · rename_i hl
          split at h
          · cases h
          · rename_i d hd
            split at h
            · cases h
            · split at h
              · cases h
              · split at h
                · rename_i hstep
                  exact absurd hstep (hs x (by simp) k _ _ d largest hd hm hl)
                · cases h

/-- A round that continues with the incoming warnings `ws` is the round that `stepNext` records. -/
theorem stepNext_of_next (es : List (Entry α)) (cfg : Config α)
    (solve : Nat → List (Triplet α) → List α → Except SolveError (List α))
    (k : Nat) (x : List α) (ws : List (Warning α)) (x' : List α) (ws' : List (Warning α))
    (h : newtonStep es cfg solve k x ws = .next x' ws') : stepNext es cfg solve k x = some x' := by
  rw [newtonStep_prepend] at h
  unfold stepNext
  cases hs : newtonStep es cfg solve k x [] with
  | done r => rw [hs] at h; simp [StepResult.prepend] at h
  | fail e w => rw [hs] at h; simp [StepResult.prepend] at h
  | next y w =>
    rw [hs] at h
    simp only [StepResult.prepend] at h
    injection h with h1 _
    rw [h1]

/-- If the step-size test is silent on the value vectors the loop visits, every successful loop
returned at the residual test. -/
theorem newtonLoop_byResidual_of_silentOn (es : List (Entry α)) (cfg : Config α)
    (solve : Nat → List (Triplet α) → List α → Except SolveError (List α)) :
    ∀ (fuel k : Nat) (x : List α) (ws : List (Warning α)) (r : NewtonOk α),
      StepTestSilentOn cfg solve (iteratesFrom es cfg solve fuel k x) →
      newtonLoop es cfg solve fuel k x ws = .ok r → r.byResidual = true := by
  intro fuel
  induction fuel with
  | zero => intro k x ws r _ h; simp [newtonLoop] at h
  | succ fuel ih =>
    intro k x ws r hs h
    unfold newtonLoop at h
    split at h
    · rename_i r' hst
      injection h with h; subst h
      refine newtonStep_byResidual_of_silentOn es cfg solve k x ?_ ws _ hst
      exact StepTestSilentOn.mono cfg solve _ _ (by simp [iteratesFrom]) hs
    · cases h
    · rename_i x' ws' hst
      have hn := stepNext_of_next es cfg solve k x ws x' ws' hst
      refine ih (k + 1) x' ws' r ?_ h
      refine StepTestSilentOn.mono cfg solve _ _ ?_ hs
      intro y hy
      simp only [iteratesFrom, hn, List.mem_cons]
      exact Or.inr hy

/-- C14 — **a successful Newton run whose visited value vectors satisfy the restricted condition
returned at the residual test.**  For every scalar type and every LU oracle. -/
theorem newton_byResidual_of_silentOn (es : List (Entry α)) (cfg : Config α)
    (solve : Nat → List (Triplet α) → List α → Except SolveError (List α)) (x : List α)
    (hs : StepTestSilentOn cfg solve (iterates es cfg solve x)) (r : NewtonOk α)
    (h : newton es cfg solve x = .ok r) : r.byResidual = true :=
  newtonLoop_byResidual_of_silentOn es cfg solve _ _ _ _ r hs h

end Generic

/-! ### At the outcome, over ℝ -/

/-- C14.6, ghost-free and satisfiable with a positive step tolerance — any number of priority
levels.  If, for every level call `i`, the step-size test is silent on the value vectors visited by
the Newton run of the RETURNED level (the requests of priority `≤ o.prioritySolved`, LU oracle
`solve i`, started at the guesses), then a successful prioritised solve has every residual component
of every attempted request within the convergence tolerance at `o.finalValues`. -/
theorem solve_within_tolerance_of_silentOn (reqs : List (Constraint ℝ × Nat)) (g : List (Nat × ℝ))
    (cfg : Config ℝ) (solve : LinSolve ℝ) (svd : Option (Svd ℝ)) (o : Outcome ℝ)
    (h : solveWithPriority reqs g cfg solve svd = .ok o)
    (hsil : ∀ i, StepTestSilentOn cfg (solve i)
      (iterates ((enumerate reqs).filter (fun e => e.priority ≤ o.prioritySolved)) cfg (solve i)
        (g.map (·.2)))) :
    ∀ (j : Nat) (c : Constraint ℝ) (p : Nat), reqs[j]? = some (c, p) → p ≤ o.prioritySolved →
      ∃ r, c.residual (lookup o.finalValues) = some r ∧
        ∀ v ∈ takeRows c.residualDim r.r0 r.r1 r.r2, |v| ≤ cfg.convergenceTolerance := by
  intro j c p hj hp
  have hne : reqs ≠ [] := by rintro rfl; simp at hj
  obtain ⟨i, nr, hn, _, hres⟩ := solve_within_tolerance reqs g cfg solve svd o hne h
  exact hres (newton_byResidual_of_silentOn _ cfg (solve i) _ (hsil i) nr hn) j c p hj hp

/-- C14.6 for a single priority level, ghost-free and satisfiable with a positive step tolerance: all
requests have the same priority, the prioritised solve succeeds with `o`, and the step-size test is
silent on the value vectors visited by the Newton run on the whole list (LU oracle of call 0).  Then
every residual component of **every** request at `o.finalValues` is within the convergence
tolerance. -/
theorem solve_within_tolerance_single_level_of_silentOn (reqs : List (Constraint ℝ × Nat))
    (g : List (Nat × ℝ)) (cfg : Config ℝ) (solve : LinSolve ℝ) (svd : Option (Svd ℝ))
    (o : Outcome ℝ) (P : Nat) (hall : ∀ r ∈ reqs, r.2 = P)
    (h : solveWithPriority reqs g cfg solve svd = .ok o)
    (hsil : StepTestSilentOn cfg (solve 0)
      (iterates (enumerate reqs) cfg (solve 0) (g.map (·.2)))) :
    ∀ (j : Nat) (c : Constraint ℝ) (p : Nat), reqs[j]? = some (c, p) →
      ∃ r, c.residual (lookup o.finalValues) = some r ∧
        ∀ v ∈ takeRows c.residualDim r.r0 r.r1 r.r2, |v| ≤ cfg.convergenceTolerance :=
  solve_within_tolerance_single_level reqs g cfg solve svd o P hall h
    (fun nr hn => newton_byResidual_of_silentOn _ cfg (solve 0) _ hsil nr hn)

/-! ### The exact step `d = -r` -/

/-- The ∞-norm of a step bounds the absolute value of each of its entries. -/
theorem le_stepInfNorm (d : List ℝ) (v : ℝ) (hv : v ∈ d) : |v| ≤ stepInfNorm d := by
  unfold stepInfNorm
  cases hmd : maxAbs? d with
  | none =>
    have : d = [] := by
      cases d with
      | nil => rfl
      | cons a b => simp [maxAbs?] at hmd
    subst this
    cases hv
  | some m =>
    rw [Option.getD_some]
    exact ((maxAbs?_spec d m).mp hmd).1 v hv

/-- **The exact Newton step `d = -r` is silent on every list of value vectors whose step thresholds
are at most the convergence tolerance**: the step is as long as the residual, which failed the
residual test. -/
theorem negSolve_silentOn (cfg : Config ℝ) (xs : List (List ℝ))
    (hx : ∀ x ∈ xs, stepThreshold cfg x ≤ cfg.convergenceTolerance) :
    StepTestSilentOn cfg negSolve xs := by
  intro x hxm k jac r d largest hd hm hl
  simp only [negSolve, Except.ok.injEq] at hd
  subst hd
  obtain ⟨_, y, hy, hyl⟩ := (maxAbs?_spec r largest).mp hm
  have h1 : |(-y)| ≤ stepInfNorm (r.map (fun v => -v)) :=
    le_stepInfNorm _ _ (List.mem_map.mpr ⟨y, hy, rfl⟩)
  rw [abs_neg, hyl] at h1
  intro hle
  exact hl (le_trans h1 (le_trans hle (hx x hxm)))

/-! ### Non-vacuity with the default configuration (positive step tolerance) -/

/-- The request list of the example: "variable 0 is 5". -/
def tvReqs : List (Constraint ℝ × Nat) := [(.fixed 0 5, 0)]
/-- Its one entry. -/
def tvE : Entry ℝ := ⟨.fixed 0 5, 0, 0⟩

/-- The enumerated request list of the example. -/
theorem tvEnumerate : enumerate tvReqs = [tvE] := rfl

/-- The default configuration over ℝ: cap 35, convergence tolerance `1e-8`, step tolerance `1e-12`. -/
theorem default_real : (Config.default : Config ℝ) = ⟨35, 1e-8, 1e-12⟩ := rfl

/-- Round 0 with the default configuration: from the guess `[0]` one exact step to `[5]`; neither
stopping test fires. -/
theorem tvStep0 : newtonStep [tvE] (Config.default : Config ℝ) negSolve 0 [0] [] = .next [5] [] := by
  simp [tvE, default_real, newtonStep, residualAll, jacobianAll, jacobianFrom, pattern, patternFrom,
    Constraint.residual, Constraint.jacobianRows, Constraint.residualV, Constraint.jacobianV,
    Constraint.residualReads, Constraint.jacobianReads, lookup, takeRows, Constraint.residualDim,
    Res.mk1, maxAbs?, negSolve, applyStep, allFinite, stepInfNorm, stepThreshold, maxAbs0,
    Constraint.nonzeroes]
  rw [if_neg (by norm_num), if_neg (by norm_num [lit_0])]

/-- Round 1 with the default configuration: at `[5]` the residual test passes. -/
theorem tvStep1 : newtonStep [tvE] (Config.default : Config ℝ) negSolve 1 [5] [] =
    .done ⟨[5], 1, [], [(0, 0, 1.0)], true⟩ := by
  simp [tvE, default_real, newtonStep, residualAll, jacobianAll, jacobianFrom, pattern, patternFrom,
    Constraint.residual, Constraint.jacobianRows, Constraint.residualV, Constraint.jacobianV,
    Constraint.residualReads, Constraint.jacobianReads, lookup, takeRows, Constraint.residualDim,
    Res.mk1, maxAbs?, negSolve, applyStep, allFinite, stepInfNorm, stepThreshold, maxAbs0,
    Constraint.nonzeroes]
  norm_num

/-- The run visits exactly the guess `[0]` and the stepped vector `[5]`. -/
theorem tvIterates : iterates [tvE] (Config.default : Config ℝ) negSolve [0] = [[0], [5]] := by
  have h0 : stepNext [tvE] (Config.default : Config ℝ) negSolve 0 [0] = some [5] := by
    simp only [stepNext, tvStep0]
  have h1 : stepNext [tvE] (Config.default : Config ℝ) negSolve 1 [5] = none := by
    simp only [stepNext, tvStep1]
  show iteratesFrom _ _ _ (34 + 1) 0 [0] = _
  rw [iteratesFrom, h0]
  show [0] :: iteratesFrom _ _ _ (33 + 1) 1 [5] = _
  rw [iteratesFrom, h1]

/-- The Newton run: one real step, then the residual test. -/
theorem tvNewton : newton [tvE] (Config.default : Config ℝ) negSolve [0] =
    .ok ⟨[5], 1, [], [(0, 0, 1.0)], true⟩ := by
  show newtonLoop _ _ _ (33 + 1 + 1) 0 [0] [] = _
  rw [newtonLoop, tvStep0]
  dsimp only
  rw [newtonLoop, tvStep1]

/-- The prioritised solve of the example succeeds with the value 5 after one iteration. -/
theorem tvSolve : solveWithPriority tvReqs [(0, 0)] (Config.default : Config ℝ) (fun _ => negSolve)
    none = .ok ⟨[], [5], 1, [], 0, none⟩ := by
  rw [solveWithPriority_single_level _ _ _ _ none 0 (by simp [tvReqs]) (by simp [tvReqs])]
  have hm : modelNew [tvE] ([((0 : Nat), (0 : ℝ))].map (·.1)) = .ok () := by
    simp [tvE, modelNew, validateVariables, firstMissing, Constraint.nonzeroes, pattern, patternFrom,
      takeRows, Constraint.residualDim, List.zipIdx]
  have hs : unsatisfiedSweep [tvE] (lookup [5]) = .ok [] := by
    simp [tvE, unsatisfiedSweep, Constraint.residual, Constraint.residualV, Constraint.residualReads,
      lookup, Constraint.residualDim, Res.mk1, isSatisfied, EPS_real]
    norm_num
  have hn := tvNewton
  rw [tvEnumerate]
  simp only [solveInner, hm, Option.map_none]
  simp only [List.map_cons, List.map_nil, hn, hs, runAnalysis]
  simp [lint, lintOne, maxPriority, tvE]

/-- The restricted condition holds on the visited vectors of the example: the step thresholds at
`[0]` and `[5]` (`1e-24` and about `5e-12`) are below the convergence tolerance `1e-8`. -/
theorem tvSilentOn : StepTestSilentOn (Config.default : Config ℝ) negSolve
    (iterates (enumerate tvReqs) (Config.default : Config ℝ) negSolve
      ([((0 : Nat), (0 : ℝ))].map (·.2))) := by
  show StepTestSilentOn _ _ (iterates [tvE] _ negSolve [0])
  rw [tvIterates]
  apply negSolve_silentOn
  intro x hx
  simp only [List.mem_cons, List.not_mem_nil, or_false] at hx
  rcases hx with rfl | rfl
  · simp [default_real, stepThreshold, maxAbs0]
    norm_num [lit_0]
  · simp [default_real, stepThreshold, maxAbs0]
    norm_num [lit_0]

/-- The UNRESTRICTED condition fails for the same configuration and oracle (positive step
tolerance): at the value vector `[1e12]` the threshold exceeds the step `[-1]` answered for the
residual `[1]`. -/
theorem tv_not_silent : ¬ StepTestSilent (Config.default : Config ℝ) negSolve := by
  intro h
  refine h 0 [] [1] [-1] [1e12] 1 (by simp [negSolve]) (by simp [maxAbs?]) ?_ ?_
  · simp [default_real]; norm_num
  · simp [default_real, stepInfNorm, maxAbs?, stepThreshold, maxAbs0]
    norm_num [lit_0]

/-- **Non-vacuity of `solve_within_tolerance_single_level_of_silentOn` (and of
`newton_byResidual_of_silentOn`) with a positive step tolerance**: the code's default configuration
(step tolerance `1e-12`), the request "variable 0 is 5", the guess 0, the exact step.  The run takes
one real step (`iterations = 1`, the value moves from 0 to 5), the restricted condition holds on the
two visited vectors, and the theorem bounds the residual at the returned value by `1e-8`. -/
example : 0 < (Config.default : Config ℝ).stepTolerance ∧
    solveWithPriority tvReqs [(0, 0)] (Config.default : Config ℝ) (fun _ => negSolve) none =
      .ok ⟨[], [5], 1, [], 0, none⟩ ∧
    StepTestSilentOn (Config.default : Config ℝ) negSolve
      (iterates (enumerate tvReqs) (Config.default : Config ℝ) negSolve
        ([((0 : Nat), (0 : ℝ))].map (·.2))) ∧
    ¬ StepTestSilent (Config.default : Config ℝ) negSolve ∧
    ∀ (j : Nat) (c : Constraint ℝ) (p : Nat), tvReqs[j]? = some (c, p) →
      ∃ r, c.residual (lookup [5]) = some r ∧
        ∀ v ∈ takeRows c.residualDim r.r0 r.r1 r.r2, |v| ≤ (1e-8 : ℝ) :=
  ⟨by simp [default_real]; norm_num, tvSolve, tvSilentOn, tv_not_silent,
    solve_within_tolerance_single_level_of_silentOn tvReqs [(0, 0)] _ (fun _ => negSolve) none _ 0
      (by simp [tvReqs]) tvSolve tvSilentOn⟩

/-- The same instance through the multi-level form `solve_within_tolerance_of_silentOn`. -/
example : ∀ (j : Nat) (c : Constraint ℝ) (p : Nat), tvReqs[j]? = some (c, p) → p ≤ 0 →
      ∃ r, c.residual (lookup [5]) = some r ∧
        ∀ v ∈ takeRows c.residualDim r.r0 r.r1 r.r2, |v| ≤ (1e-8 : ℝ) :=
  solve_within_tolerance_of_silentOn tvReqs [(0, 0)] _ (fun _ => negSolve) none _ tvSolve
    (fun _ => by
      show StepTestSilentOn _ negSolve (iterates ((enumerate tvReqs).filter _) _ negSolve _)
      rw [show (enumerate tvReqs).filter (fun e => decide (e.priority ≤ 0)) = enumerate tvReqs from by
        simp [tvEnumerate, tvE]]
      exact tvSilentOn)

end Ezpz.C14
