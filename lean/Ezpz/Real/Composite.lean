/-
What the composite constraint constructors of `kcl-ezpz/src/constraints/composite.rs` mean over ℝ.

For each composite (`Ezpz/Model/Composite.lean`) we say what holds at a configuration
`v : Nat → ℝ` at which every live error-measure component of every returned basic constraint is
exactly `0` (`AllZeroAt`) and the residual guards of the returned constraints are inactive
(`AllGuardOff`), in the coordinate vocabulary of `Ezpz/Real/Meaning.lean` (`Geo.*`, `pt`, `dir`).

Summary.
* `linesParallel` / `linesPerpendicular`: `d0 × d1 = 0` / `d0 · d1 = 0`.
* `parallelLinesDistance l0 l1 d`: parallel AND `l0.p0` at signed distance `d` from the directed line
  `l1`; hence every point of `l0`'s supporting line is at signed distance `d` from `l1`.
* `pointBisectsArc arc p` (`p ≠ centre`): `p` on the circle about the centre through `start`
  (nothing about the sweep) AND `end` is the mirror image of `start` in the line centre → `p`;
  hence equal radii, `p` equidistant from `start` and `end`, and opposite signed angles.
  The antipode of the true midpoint of the arc is accepted as well.
* `circleArcCoincident circle arc`: same centre and `|start − c| = |end − c|` — and NOTHING about
  `circle.radius`, although the Rust doc comment says "have the same center and radius".
-/
import Ezpz.Model.Composite
import Ezpz.Real.Meaning
import Ezpz.Real.MeaningArcs
set_option linter.unusedSectionVars false
set_option linter.unusedSimpArgs false
set_option linter.unusedVariables false
namespace Ezpz
open Transc Geo

/-! ## 0. "All live components are zero", "guards inactive" -/

/-- Every *live* error-measure component of `c` (the first `c.residualDim` ones) is exactly `0` at
the configuration `v`. -/
def Constraint.ZeroAt (c : Constraint ℝ) (v : Nat → ℝ) : Prop :=
  (c.residualV v).r0 = 0 ∧ (2 ≤ c.residualDim → (c.residualV v).r1 = 0) ∧
    (3 ≤ c.residualDim → (c.residualV v).r2 = 0)

/-- The residual guard of `c` is inactive at `v` (the degeneracy flag is not raised). -/
def Constraint.GuardOff (c : Constraint ℝ) (v : Nat → ℝ) : Prop :=
  (c.residualV v).degenerate = false

/-- Every constraint of the list has all its live components `0` at `v`. -/
def AllZeroAt (cs : List (Constraint ℝ)) (v : Nat → ℝ) : Prop := ∀ c ∈ cs, c.ZeroAt v

/-- No constraint of the list has its residual guard active at `v`. -/
def AllGuardOff (cs : List (Constraint ℝ)) (v : Nat → ℝ) : Prop := ∀ c ∈ cs, c.GuardOff v

/-- For a list of two constraints, `AllZeroAt` is the conjunction. -/
theorem allZeroAt_pair (a b : Constraint ℝ) (v : Nat → ℝ) :
    AllZeroAt [a, b] v ↔ a.ZeroAt v ∧ b.ZeroAt v := by
  simp [AllZeroAt]

/-- For a list of two constraints, `AllGuardOff` is the conjunction. -/
theorem allGuardOff_pair (a b : Constraint ℝ) (v : Nat → ℝ) :
    AllGuardOff [a, b] v ↔ a.GuardOff v ∧ b.GuardOff v := by
  simp [AllGuardOff]

/-- A constraint all of whose live components are `0` is reported satisfied by `is_satisfied`
(so the exact statements below are about configurations the solver accepts). -/
theorem isSatisfied_of_zeroAt (c : Constraint ℝ) (v : Nat → ℝ) (h : c.ZeroAt v) :
    isSatisfied c.residualDim (c.residualV v) = some true := by
  have he := EPS_pos
  obtain ⟨h0, h1, h2⟩ := h
  cases c <;>
    simp_all [Constraint.residualDim, isSatisfied_one, isSatisfied_two, isSatisfied_three]

/-- The two distance vocabularies agree: `arcDist v p q` is `dist2 (pt v p) (pt v q)`. -/
theorem arcDist_eq_dist2 (v : Nat → ℝ) (p q : Pt) : arcDist v p q = dist2 (pt v p) (pt v q) := rfl

section Composite
variable (v : Nat → ℝ)

/-! ## 1. `linesParallel`, `linesPerpendicular` -/

/-- `lines_parallel` has no guard. -/
theorem guardOff_linesParallel (l0 l1 : Seg) :
    (Constraint.linesParallel l0 l1 : Constraint ℝ).GuardOff v := rfl

/-- `lines_parallel([l0, l1])`: its (single) error component is `0` iff the direction vectors are
linearly dependent, `d0 × d1 = 0` (parallel, anti-parallel, or a collapsed line). -/
theorem zero_iff_linesParallel (l0 l1 : Seg) :
    (Constraint.linesParallel l0 l1 : Constraint ℝ).ZeroAt v ↔
      cross (dir v l0) (dir v l1) = 0 := by
  rw [← zero_iff_parallel v l0 l1]
  simp [Constraint.ZeroAt, Constraint.linesParallel, Constraint.residualDim]

/-- `lines_perpendicular` has no guard. -/
theorem guardOff_linesPerpendicular (l0 l1 : Seg) :
    (Constraint.linesPerpendicular l0 l1 : Constraint ℝ).GuardOff v := rfl

/-- `lines_perpendicular([l0, l1])`: its (single) error component is `0` iff the direction vectors
are orthogonal, `d0 · d1 = 0` (includes a collapsed line). -/
theorem zero_iff_linesPerpendicular (l0 l1 : Seg) :
    (Constraint.linesPerpendicular l0 l1 : Constraint ℝ).ZeroAt v ↔
      dot (dir v l0) (dir v l1) = 0 := by
  rw [← zero_iff_perpendicular v l0 l1]
  simp [Constraint.ZeroAt, Constraint.linesPerpendicular, Constraint.residualDim]

/-! ## 2. `parallelLinesDistance` -/

/-- The only guard among the constraints returned by `parallel_lines_distance` is the one of
`PointLineDistance`: it is inactive iff the second line `l1` is not shorter than `EPSILON`. -/
theorem guardOff_parallelLinesDistance (l0 l1 : Seg) (d : ℝ) :
    AllGuardOff (Constraint.parallelLinesDistance l0 l1 d) v ↔
      ¬ dist2 (pt v l1.p0) (pt v l1.p1) < (EPS : ℝ) := by
  rw [← guard_pointLineDistance v l0.p0 l1 d]
  unfold Constraint.parallelLinesDistance
  rw [allGuardOff_pair]
  simp [Constraint.GuardOff, guardOff_linesParallel v l0 l1]
  exact fun _ => guardOff_linesParallel v l0 l1

/-- … and then `l1` is not collapsed. -/
theorem l1_ne_of_guardOff_parallelLinesDistance (l0 l1 : Seg) (d : ℝ)
    (hg : AllGuardOff (Constraint.parallelLinesDistance l0 l1 d) v) :
    dot (dir v l1) (dir v l1) ≠ 0 := by
  rw [guardOff_parallelLinesDistance] at hg
  intro h0
  apply hg
  have : pt v l1.p0 = pt v l1.p1 := (dot_vec_self_eq_zero_iff _ _).1 h0
  rw [(dist2_eq_zero_iff _ _).2 this]
  exact EPS_pos

/-- **`parallel_lines_distance([l0, l1], d)`**, guards inactive: all error components of the two
returned constraints are `0` iff the lines are parallel (`d0 × d1 = 0`) AND the first end `l0.p0`
of the first line is at signed distance `d` from the directed line `l1.p0 → l1.p1` (positive on
its left). -/
theorem zero_iff_parallelLinesDistance (l0 l1 : Seg) (d : ℝ)
    (hg : AllGuardOff (Constraint.parallelLinesDistance l0 l1 d) v) :
    AllZeroAt (Constraint.parallelLinesDistance l0 l1 d) v ↔
      cross (dir v l0) (dir v l1) = 0 ∧
      signedLineDist (pt v l0.p0) (pt v l1.p0) (pt v l1.p1) = d := by
  unfold Constraint.parallelLinesDistance at hg ⊢
  rw [allGuardOff_pair] at hg
  rw [allZeroAt_pair, zero_iff_linesParallel, ← zero_iff_pointLineDistance v l0.p0 l1 d hg.2]
  simp [Constraint.ZeroAt, Constraint.residualDim]

/-- Parallel lines: every point `l0.p0 + t · d0` of the supporting line of `l0` is at the same
signed distance from the directed line `l1` as `l0.p0` is. -/
theorem signedLineDist_const_of_parallel (l0 l1 : Seg)
    (hpar : cross (dir v l0) (dir v l1) = 0) (t : ℝ) :
    signedLineDist ⟨(pt v l0.p0).x + t * (dir v l0).x, (pt v l0.p0).y + t * (dir v l0).y⟩
        (pt v l1.p0) (pt v l1.p1)
      = signedLineDist (pt v l0.p0) (pt v l1.p0) (pt v l1.p1) := by
  unfold signedLineDist
  congr 1
  simp only [cross, dir, vec, pt] at hpar ⊢
  linear_combination (-t) * hpar

/-- The same in implicit form (`l0` not collapsed): every point `q` with `d0 × (q − l0.p0) = 0`,
i.e. every point of the supporting line of `l0`, is at the same signed distance from `l1`. -/
theorem signedLineDist_const_of_parallel' (l0 l1 : Seg)
    (hpar : cross (dir v l0) (dir v l1) = 0) (h0 : dot (dir v l0) (dir v l0) ≠ 0)
    (q : P2) (hq : cross (dir v l0) (vec (pt v l0.p0) q) = 0) :
    signedLineDist q (pt v l1.p0) (pt v l1.p1)
      = signedLineDist (pt v l0.p0) (pt v l1.p0) (pt v l1.p1) := by
  unfold signedLineDist
  congr 1
  simp only [cross, dot, dir, vec, pt] at hpar h0 hq ⊢
  apply mul_left_cancel₀ h0
  linear_combination
    (-((q.x - v l0.p0.x) * (v l0.p1.x - v l0.p0.x) + (q.y - v l0.p0.y) * (v l0.p1.y - v l0.p0.y)))
        * hpar
      + ((v l1.p1.x - v l1.p0.x) * (v l0.p1.x - v l0.p0.x)
          + (v l1.p1.y - v l1.p0.y) * (v l0.p1.y - v l0.p0.y)) * hq

/-- **The two lines really are at distance `d`.**  When all error components of
`parallel_lines_distance([l0, l1], d)` are `0` (guards inactive), every point
`l0.p0 + t · (l0.p1 − l0.p0)` of the supporting line of `l0` is at signed distance `d` from the
directed line `l1`. -/
theorem parallelLinesDistance_every_point (l0 l1 : Seg) (d : ℝ)
    (hg : AllGuardOff (Constraint.parallelLinesDistance l0 l1 d) v)
    (h : AllZeroAt (Constraint.parallelLinesDistance l0 l1 d) v) (t : ℝ) :
    signedLineDist ⟨(pt v l0.p0).x + t * (dir v l0).x, (pt v l0.p0).y + t * (dir v l0).y⟩
        (pt v l1.p0) (pt v l1.p1) = d := by
  obtain ⟨hpar, hd⟩ := (zero_iff_parallelLinesDistance v l0 l1 d hg).1 h
  rw [signedLineDist_const_of_parallel v l0 l1 hpar t, hd]

/-- In particular the other end `l0.p1` is at signed distance `d` from `l1` as well. -/
theorem parallelLinesDistance_p1 (l0 l1 : Seg) (d : ℝ)
    (hg : AllGuardOff (Constraint.parallelLinesDistance l0 l1 d) v)
    (h : AllZeroAt (Constraint.parallelLinesDistance l0 l1 d) v) :
    signedLineDist (pt v l0.p1) (pt v l1.p0) (pt v l1.p1) = d := by
  have := parallelLinesDistance_every_point v l0 l1 d hg h 1
  have e : (⟨(pt v l0.p0).x + 1 * (dir v l0).x, (pt v l0.p0).y + 1 * (dir v l0).y⟩ : P2)
      = pt v l0.p1 := by
    simp only [dir, vec, pt, P2.mk.injEq]; constructor <;> ring
  rwa [e] at this

/-- … and so is every point of the supporting line of `l0` given implicitly (`l0` not collapsed). -/
theorem parallelLinesDistance_on_line (l0 l1 : Seg) (d : ℝ)
    (hg : AllGuardOff (Constraint.parallelLinesDistance l0 l1 d) v)
    (h : AllZeroAt (Constraint.parallelLinesDistance l0 l1 d) v)
    (h0 : dot (dir v l0) (dir v l0) ≠ 0)
    (q : P2) (hq : cross (dir v l0) (vec (pt v l0.p0) q) = 0) :
    signedLineDist q (pt v l1.p0) (pt v l1.p1) = d := by
  obtain ⟨hpar, hd⟩ := (zero_iff_parallelLinesDistance v l0 l1 d hg).1 h
  rw [signedLineDist_const_of_parallel' v l0 l1 hpar h0 q hq, hd]

/-- Unsigned form: every point of the supporting line of `l0` is at Euclidean distance `|d|` from
the foot of its perpendicular on `l1`. -/
theorem parallelLinesDistance_unsigned (l0 l1 : Seg) (d : ℝ)
    (hg : AllGuardOff (Constraint.parallelLinesDistance l0 l1 d) v)
    (h : AllZeroAt (Constraint.parallelLinesDistance l0 l1 d) v) (t : ℝ) :
    dist2 ⟨(pt v l0.p0).x + t * (dir v l0).x, (pt v l0.p0).y + t * (dir v l0).y⟩
      (foot ⟨(pt v l0.p0).x + t * (dir v l0).x, (pt v l0.p0).y + t * (dir v l0).y⟩
        (pt v l1.p0) (pt v l1.p1)) = |d| := by
  rw [← abs_signedLineDist _ _ _ (l1_ne_of_guardOff_parallelLinesDistance v l0 l1 d hg),
    parallelLinesDistance_every_point v l0 l1 d hg h t]

/-- With the guard ACTIVE (`l1` shorter than `EPSILON`) the distance part is switched off: all
error components are `0` iff `d0 × d1 = 0`, whatever `d` is. -/
theorem zero_iff_parallelLinesDistance_guarded (l0 l1 : Seg) (d : ℝ)
    (hg : dist2 (pt v l1.p0) (pt v l1.p1) < (EPS : ℝ)) :
    AllZeroAt (Constraint.parallelLinesDistance l0 l1 d) v ↔
      cross (dir v l0) (dir v l1) = 0 := by
  rw [← guard_pointLineDistance v l0.p0 l1 d] at hg
  have hz : (Constraint.pointLineDistance l0.p0 l1 d).residualV v = Res.degen := by
    simp only [Constraint.residualV] at hg ⊢
    split at hg
    · rename_i hgg; rw [if_pos hgg]
    · simp [Res.mk1] at hg
  unfold Constraint.parallelLinesDistance
  rw [allZeroAt_pair, zero_iff_linesParallel]
  simp [Constraint.ZeroAt, Constraint.residualDim, hz, Res.degen, lit_0]

/-! ## 3. `pointBisectsArc` -/

/-- Pure geometry: (`a ≠ b`) `m` is the mirror image of `s` in the line `ab` iff, seen from `a`,
`m` and `s` have the same component along `b − a` and opposite components across it:
`(b−a) · (s−a) = (b−a) · (m−a)` and `(b−a) × (s−a) = −(b−a) × (m−a)`. -/
theorem mirror_iff_dot_cross (m s a b : P2) (hab : dot (vec a b) (vec a b) ≠ 0) :
    m = mirror s a b ↔
      dot (vec a b) (vec a s) = dot (vec a b) (vec a m) ∧
      cross (vec a b) (vec a s) = -cross (vec a b) (vec a m) := by
  rw [eq_mirror_iff m s a b hab]
  simp only [cross, dot, vec, mid]
  constructor
  · rintro ⟨h1, h2⟩
    constructor <;> linarith
  · rintro ⟨h1, h2⟩
    constructor <;> linarith

/-- Pure geometry: if `s` and `m` have the same component along `u ≠ 0` and opposite components
across it, they have the same length. -/
theorem len_eq_of_dot_cross (u s m : P2) (hu : dot u u ≠ 0)
    (hd : dot u s = dot u m) (hc : cross u s = -cross u m) : len s = len m := by
  have h1 := dot_sq_add_cross_sq u s
  have h2 := dot_sq_add_cross_sq u m
  rw [hd, hc, neg_sq, h2, mul_pow, mul_pow, len_sq] at h1
  have h3 : len m ^ 2 = len s ^ 2 := mul_left_cancel₀ hu h1
  exact ((pow_left_inj₀ (len_nonneg s) (len_nonneg m) two_ne_zero).1 h3.symm)

/-- `point_bisects_arc` has no residual guard (neither `PointArcCoincident` nor `Symmetric` ever
raises the flag) — although `Symmetric` divides by `|p − centre|²`. -/
theorem guardOff_pointBisectsArc (arc : ArcD) (p : Pt) :
    AllGuardOff (Constraint.pointBisectsArc arc p) v := by
  unfold Constraint.pointBisectsArc
  rw [allGuardOff_pair]
  exact ⟨(measures_pointArcCoincident v arc p).2.2.2, rfl⟩

/-- **`point_bisects_arc(arc, p)`**, `p ≠ centre`: all (3 + 2) error components of the two returned
constraints are `0` iff

* `p` is on the circle about `arc.center` through `arc.start`
  (`|centre − p| = |centre − start|`) — this is *all* `PointArcCoincident` says at zero error:
  nothing about `p` lying within the sweep of the arc (`zero_iff_pointArcCoincident`); and
* `arc.end` is the mirror image of `arc.start` in the line from the centre to `p`. -/
theorem zero_iff_pointBisectsArc (arc : ArcD) (p : Pt) (hp : pt v p ≠ pt v arc.center) :
    AllZeroAt (Constraint.pointBisectsArc arc p) v ↔
      dist2 (pt v arc.center) (pt v p) = dist2 (pt v arc.center) (pt v arc.start) ∧
      pt v arc.stop = mirror (pt v arc.start) (pt v arc.center) (pt v p) := by
  have hax : dot (dir v ⟨arc.center, p⟩) (dir v ⟨arc.center, p⟩) ≠ 0 := by
    intro h0
    exact hp ((dot_vec_self_eq_zero_iff _ _).1 h0).symm
  unfold Constraint.pointBisectsArc
  rw [allZeroAt_pair, ← arcDist_eq_dist2, ← arcDist_eq_dist2, ← zero_iff_pointArcCoincident,
    ← (zero_iff_symmetric v ⟨arc.center, p⟩ arc.start arc.stop hax).1]
  simp [Constraint.ZeroAt, Constraint.residualDim]

/-- The same with the mirror condition in dot/cross form: seen from the centre `c`,
`(p−c) · (start−c) = (p−c) · (end−c)` and `(p−c) × (start−c) = −(p−c) × (end−c)`. -/
theorem zero_iff_pointBisectsArc' (arc : ArcD) (p : Pt) (hp : pt v p ≠ pt v arc.center) :
    AllZeroAt (Constraint.pointBisectsArc arc p) v ↔
      dist2 (pt v arc.center) (pt v p) = dist2 (pt v arc.center) (pt v arc.start) ∧
      dot (vec (pt v arc.center) (pt v p)) (vec (pt v arc.center) (pt v arc.start))
        = dot (vec (pt v arc.center) (pt v p)) (vec (pt v arc.center) (pt v arc.stop)) ∧
      cross (vec (pt v arc.center) (pt v p)) (vec (pt v arc.center) (pt v arc.start))
        = -cross (vec (pt v arc.center) (pt v p)) (vec (pt v arc.center) (pt v arc.stop)) := by
  have hax : dot (vec (pt v arc.center) (pt v p)) (vec (pt v arc.center) (pt v p)) ≠ 0 := by
    intro h0
    exact hp ((dot_vec_self_eq_zero_iff _ _).1 h0).symm
  rw [zero_iff_pointBisectsArc v arc p hp, mirror_iff_dot_cross _ _ _ _ hax]

/-- **The bisecting property.**  When all error components of `point_bisects_arc(arc, p)` are `0`
and `p ≠ centre`, then with `c` the centre:

1. `(p−c) · (start−c) = (p−c) · (end−c)` and `(p−c) × (start−c) = −(p−c) × (end−c)`;
2. `|start − c| = |end − c|` (the arc is a genuine arc) and `|p − c|` is that same radius;
3. `p` is equidistant from `start` and `end`;
4. the signed angles from `p − c` to `start − c` and to `end − c` are negatives of each other
   modulo `2π`, and as real numbers of `(−π, π]` unless `start` is diametrically opposite `p`
   (angle `π`, in which case `start = end` and both angles are `π`). -/
theorem pointBisectsArc_bisects (arc : ArcD) (p : Pt) (hp : pt v p ≠ pt v arc.center)
    (h : AllZeroAt (Constraint.pointBisectsArc arc p) v) :
    (dot (vec (pt v arc.center) (pt v p)) (vec (pt v arc.center) (pt v arc.start))
        = dot (vec (pt v arc.center) (pt v p)) (vec (pt v arc.center) (pt v arc.stop)) ∧
     cross (vec (pt v arc.center) (pt v p)) (vec (pt v arc.center) (pt v arc.start))
        = -cross (vec (pt v arc.center) (pt v p)) (vec (pt v arc.center) (pt v arc.stop))) ∧
    (dist2 (pt v arc.center) (pt v arc.start) = dist2 (pt v arc.center) (pt v arc.stop) ∧
     dist2 (pt v arc.center) (pt v p) = dist2 (pt v arc.center) (pt v arc.start)) ∧
    dist2 (pt v p) (pt v arc.start) = dist2 (pt v p) (pt v arc.stop) ∧
    ((angleFromTo (vec (pt v arc.center) (pt v p)) (vec (pt v arc.center) (pt v arc.stop))
        : Real.Angle)
      = -(angleFromTo (vec (pt v arc.center) (pt v p)) (vec (pt v arc.center) (pt v arc.start))
        : Real.Angle)) ∧
    (angleFromTo (vec (pt v arc.center) (pt v p)) (vec (pt v arc.center) (pt v arc.start))
        ≠ Real.pi →
      angleFromTo (vec (pt v arc.center) (pt v p)) (vec (pt v arc.center) (pt v arc.stop))
        = -angleFromTo (vec (pt v arc.center) (pt v p))
            (vec (pt v arc.center) (pt v arc.start))) := by
  have hax : dot (vec (pt v arc.center) (pt v p)) (vec (pt v arc.center) (pt v p)) ≠ 0 := by
    intro h0
    exact hp ((dot_vec_self_eq_zero_iff _ _).1 h0).symm
  obtain ⟨hcirc, hd, hc⟩ := (zero_iff_pointBisectsArc' v arc p hp).1 h
  have hlen := len_eq_of_dot_cross _ _ _ hax hd hc
  rw [len_vec, len_vec] at hlen
  have hconj : (⟨dot (vec (pt v arc.center) (pt v p)) (vec (pt v arc.center) (pt v arc.stop)),
      cross (vec (pt v arc.center) (pt v p)) (vec (pt v arc.center) (pt v arc.stop))⟩ : ℂ)
      = (starRingEnd ℂ)
        ⟨dot (vec (pt v arc.center) (pt v p)) (vec (pt v arc.center) (pt v arc.start)),
         cross (vec (pt v arc.center) (pt v p)) (vec (pt v arc.center) (pt v arc.start))⟩ := by
    apply Complex.ext
    · simp [hd]
    · simp [hc]
  refine ⟨⟨hd, hc⟩, ⟨hlen, hcirc⟩, ?_, ?_, ?_⟩
  · -- equidistance: |p − s|² = |u|² + |s|² − 2 u·s
    have hs := congrArg (fun x => x ^ 2) hlen
    simp only [dist2] at hs ⊢
    rw [Real.sq_sqrt (by positivity), Real.sq_sqrt (by positivity)] at hs
    congr 1
    simp only [dot, vec, pt] at hd hs ⊢
    linear_combination hs - 2 * hd
  · unfold angleFromTo
    rw [hconj, Complex.arg_conj_coe_angle]
  · intro hne
    unfold angleFromTo at hne ⊢
    rw [hconj, Complex.arg_conj, if_neg hne]

/-- KNOWN LIMIT of `point_bisects_arc`, proved on a witness: the point diametrically opposite the
true midpoint of the arc is accepted too.  Quarter arc about `(0,0)` from `(1,0)` to `(0,1)`:
the point `(−√2/2, −√2/2)` (at 225°, outside the arc) makes all five error components `0`. -/
noncomputable def bisectFar : Nat → ℝ := fun i =>
  if i = 2 ∨ i = 5 then 1 else if i = 6 ∨ i = 7 then -(Real.sqrt 2 / 2) else 0

/-- A correct bisecting configuration: quarter arc about `(0,0)` (ids 0,1) from `(1,0)` (ids 2,3) to
`(0,1)` (ids 4,5), point `(√2/2, √2/2)` (ids 6,7). -/
noncomputable def bisectEx : Nat → ℝ := fun i =>
  if i = 2 ∨ i = 5 then 1 else if i = 6 ∨ i = 7 then Real.sqrt 2 / 2 else 0

/-- The arc of the two configurations above. -/
def bisectArc : ArcD := ⟨⟨0, 1⟩, ⟨2, 3⟩, ⟨4, 5⟩⟩

/-- Non-vacuity of `zero_iff_pointBisectsArc` / `pointBisectsArc_bisects`: centre `(0,0)`, start
`(1,0)`, end `(0,1)`, `p = (√2/2, √2/2)`: `p ≠ centre` and all five error components are `0`. -/
example : pt bisectEx ⟨6, 7⟩ ≠ pt bisectEx bisectArc.center ∧
    AllZeroAt (Constraint.pointBisectsArc bisectArc ⟨6, 7⟩) bisectEx := by
  have h2 : Real.sqrt 2 * Real.sqrt 2 = 2 := Real.mul_self_sqrt (by norm_num)
  have hpos : 0 < Real.sqrt 2 := Real.sqrt_pos.2 (by norm_num)
  have hp : pt bisectEx ⟨6, 7⟩ ≠ pt bisectEx bisectArc.center := by
    simp only [pt, bisectEx, bisectArc, P2.mk.injEq]
    norm_num
  refine ⟨hp, ?_⟩
  rw [zero_iff_pointBisectsArc' _ _ _ hp]
  refine ⟨?_, ?_, ?_⟩
  · simp only [dist2, pt, bisectEx, bisectArc]
    congr 1
    norm_num
    nlinarith
  · simp only [dot, vec, pt, bisectEx, bisectArc]; norm_num
  · simp only [cross, vec, pt, bisectEx, bisectArc]; norm_num

/-- KNOWN LIMIT, witness: with `p = (−√2/2, −√2/2)` — on the circle, but on the far side, at 225°,
outside the quarter arc from 0° to 90° — all five error components of `point_bisects_arc` are `0`
as well.  (The composite inherits this from `PointArcCoincident`, whose zero set ignores the sweep,
and from `Symmetric`, whose axis is a full line.) -/
theorem pointBisectsArc_accepts_antipode :
    pt bisectFar ⟨6, 7⟩ ≠ pt bisectFar bisectArc.center ∧
    AllZeroAt (Constraint.pointBisectsArc bisectArc ⟨6, 7⟩) bisectFar ∧
    dot (vec (pt bisectFar bisectArc.center) (pt bisectFar ⟨6, 7⟩))
      (vec (pt bisectFar bisectArc.center) (pt bisectFar bisectArc.start)) < 0 := by
  have h2 : Real.sqrt 2 * Real.sqrt 2 = 2 := Real.mul_self_sqrt (by norm_num)
  have hpos : 0 < Real.sqrt 2 := Real.sqrt_pos.2 (by norm_num)
  have hp : pt bisectFar ⟨6, 7⟩ ≠ pt bisectFar bisectArc.center := by
    simp only [pt, bisectFar, bisectArc, P2.mk.injEq]
    norm_num
  refine ⟨hp, ?_, ?_⟩
  · rw [zero_iff_pointBisectsArc' _ _ _ hp]
    refine ⟨?_, ?_, ?_⟩
    · simp only [dist2, pt, bisectFar, bisectArc]
      congr 1
      norm_num
      nlinarith
    · simp only [dot, vec, pt, bisectFar, bisectArc]; norm_num
    · simp only [cross, vec, pt, bisectFar, bisectArc]; norm_num
  · simp only [dot, vec, pt, bisectFar, bisectArc]; norm_num [hpos]

/-! ## 4. `circleArcCoincident` -/

/-- `circle_arc_coincident` has no residual guard. -/
theorem guardOff_circleArcCoincident (circle : Circ) (arc : ArcD) :
    AllGuardOff (Constraint.circleArcCoincident circle arc) v := by
  unfold Constraint.circleArcCoincident
  rw [allGuardOff_pair]
  exact ⟨rfl, rfl⟩

/-- **What `circle_arc_coincident(circle, arc)` DOES say**: all (2 + 1) error components of the two
returned constraints are `0` iff the circle's centre and the arc's centre are the same point AND
the arc's start and end are at the same distance from the arc's centre.  The circle's radius
does not occur. -/
theorem zero_iff_circleArcCoincident (circle : Circ) (arc : ArcD) :
    AllZeroAt (Constraint.circleArcCoincident circle arc) v ↔
      pt v circle.center = pt v arc.center ∧
      dist2 (pt v arc.center) (pt v arc.start) = dist2 (pt v arc.center) (pt v arc.stop) := by
  unfold Constraint.circleArcCoincident
  rw [allZeroAt_pair, ← zero_iff_pointsCoincident,
    ← zero_iff_linesEqualLength v ⟨arc.center, arc.start⟩ ⟨arc.center, arc.stop⟩]
  simp [Constraint.ZeroAt, Constraint.residualDim]

/-- The error measures of the constraints returned by `circle_arc_coincident` do not depend on the
value of the circle's radius variable (when that id is not also used as a coordinate id of the
circle's centre or of the arc): two configurations that differ only there have the same error
measures. -/
theorem circleArcCoincident_residual_indep_radius (circle : Circ) (arc : ArcD)
    (hfresh : circle.radius ∉ circle.center.vars ++ arc.vars)
    (v' : Nat → ℝ) (hv : ∀ i, i ≠ circle.radius → v' i = v i) :
    ∀ c ∈ (Constraint.circleArcCoincident circle arc : List (Constraint ℝ)),
      c.residualV v' = c.residualV v := by
  simp only [Pt.vars, ArcD.vars, List.mem_append, List.mem_cons, List.not_mem_nil, or_false,
    not_or] at hfresh
  obtain ⟨⟨h1, h2⟩, h3, h4, h5, h6, h7, h8⟩ := hfresh
  have e1 := hv _ (Ne.symm h1)
  have e2 := hv _ (Ne.symm h2)
  have e3 := hv _ (Ne.symm h3)
  have e4 := hv _ (Ne.symm h4)
  have e5 := hv _ (Ne.symm h5)
  have e6 := hv _ (Ne.symm h6)
  have e7 := hv _ (Ne.symm h7)
  have e8 := hv _ (Ne.symm h8)
  intro c hc
  simp only [Constraint.circleArcCoincident, List.mem_cons, List.not_mem_nil, or_false] at hc
  rcases hc with rfl | rfl
  · simp only [Constraint.residualV, e1, e2, e7, e8]
  · simp only [Constraint.residualV, e3, e4, e5, e6, e7, e8]

/-- Consequently: from any configuration at which `circle_arc_coincident` has zero error, the
circle's radius can be set to ANY value `r` and the error stays zero. -/
theorem circleArcCoincident_radius_free (circle : Circ) (arc : ArcD)
    (hfresh : circle.radius ∉ circle.center.vars ++ arc.vars)
    (h : AllZeroAt (Constraint.circleArcCoincident circle arc) v) (r : ℝ) :
    AllZeroAt (Constraint.circleArcCoincident circle arc) (Function.update v circle.radius r) ∧
    Function.update v circle.radius r circle.radius = r := by
  refine ⟨?_, Function.update_self _ _ _⟩
  intro c hc
  have e := circleArcCoincident_residual_indep_radius v circle arc hfresh
    (Function.update v circle.radius r) (fun i hi => Function.update_of_ne hi _ _) c hc
  have := h c hc
  unfold Constraint.ZeroAt at this ⊢
  rwa [e]

/-- Witness configuration: circle centre `(0,0)` (ids 0,1), circle radius `5` (id 2); arc centre
`(0,0)` (ids 3,4), start `(1,0)` (ids 5,6), end `(0,1)` (ids 7,8). -/
def cacWitness : Nat → ℝ := fun i => if i = 2 then 5 else if i = 5 ∨ i = 8 then 1 else 0

/-- The circle of the witness. -/
def cacCircle : Circ := ⟨⟨0, 1⟩, 2⟩

/-- The arc of the witness. -/
def cacArc : ArcD := ⟨⟨3, 4⟩, ⟨5, 6⟩, ⟨7, 8⟩⟩

/-- **What `circle_arc_coincident` does NOT say**, although its Rust doc comment reads "Constraints a
circle and a circular arc to have the same center and radius": there is a configuration (circle
about `(0,0)` with radius `5`; arc about `(0,0)` from `(1,0)` to `(0,1)`, so of radius `1`) at which
both returned constraints have all error components `0`, no guard is active, both are reported
satisfied — and the circle's radius `5` differs from the arc's radius `|start − centre| = 1`. -/
theorem circleArcCoincident_does_not_fix_radius :
    ∃ (v : Nat → ℝ) (circle : Circ) (arc : ArcD),
      circle.radius ∉ circle.center.vars ++ arc.vars ∧
      AllZeroAt (Constraint.circleArcCoincident circle arc) v ∧
      AllGuardOff (Constraint.circleArcCoincident circle arc) v ∧
      (∀ c ∈ (Constraint.circleArcCoincident circle arc : List (Constraint ℝ)),
        isSatisfied c.residualDim (c.residualV v) = some true) ∧
      v circle.radius = 5 ∧
      dist2 (pt v arc.center) (pt v arc.start) = 1 ∧
      dist2 (pt v arc.center) (pt v arc.stop) = 1 ∧
      v circle.radius ≠ dist2 (pt v arc.center) (pt v arc.start) := by
  have hs : dist2 (pt cacWitness cacArc.center) (pt cacWitness cacArc.start) = 1 := by
    simp [dist2, pt, cacWitness, cacArc]
  have he : dist2 (pt cacWitness cacArc.center) (pt cacWitness cacArc.stop) = 1 := by
    simp [dist2, pt, cacWitness, cacArc]
  have hz : AllZeroAt (Constraint.circleArcCoincident cacCircle cacArc) cacWitness := by
    rw [zero_iff_circleArcCoincident, hs, he]
    exact ⟨by simp [pt, cacWitness, cacArc, cacCircle], rfl⟩
  refine ⟨cacWitness, cacCircle, cacArc, by decide, hz,
    guardOff_circleArcCoincident _ _ _, fun c hc => isSatisfied_of_zeroAt c _ (hz c hc), ?_, hs, he, ?_⟩
  · simp [cacWitness, cacCircle]
  · rw [hs]; simp [cacWitness, cacCircle]

end Composite

/-! ## 5. `circle.radius` is not mentioned at all (any scalar type) -/

section Generic
variable {α : Type} [Add α] [Sub α] [Mul α] [Div α] [Neg α] [OfScientific α]
  [LT α] [DecidableLT α] [LE α] [DecidableLE α] [Transc α]

/-- For every scalar type: when `circle.radius` is a fresh id (not one of the coordinate ids of the
circle's centre or of the arc), none of the constraints returned by `circle_arc_coincident`
declares it in its Jacobian sparsity pattern (`nonzeroes`), reads it in its residual, or reads it in
its Jacobian.  The solver therefore never moves the radius on account of this composite. -/
theorem circleArcCoincident_radius_not_mentioned (circle : Circ) (arc : ArcD)
    (hfresh : circle.radius ∉ circle.center.vars ++ arc.vars) :
    ∀ c ∈ (Constraint.circleArcCoincident circle arc : List (Constraint α)),
      circle.radius ∉ c.nonzeroes.all ∧ circle.radius ∉ c.residualReads ∧
      circle.radius ∉ c.jacobianReads := by
  simp only [Pt.vars, ArcD.vars, List.mem_append, List.mem_cons, List.not_mem_nil, or_false,
    not_or] at hfresh
  obtain ⟨⟨h1, h2⟩, h3, h4, h5, h6, h7, h8⟩ := hfresh
  intro c hc
  simp only [Constraint.circleArcCoincident, List.mem_cons, List.not_mem_nil, or_false] at hc
  rcases hc with rfl | rfl <;>
    simp [Constraint.nonzeroes, Constraint.residualReads, Constraint.jacobianReads, Rows.all,
      Seg.vars, Pt.vars, *]

end Generic

/-! ## 6. Non-vacuity for `parallelLinesDistance` -/

namespace CompositeEx
open MeaningEx

/-- A concrete assignment: `(0,0)` (ids 0,1), `(4,0)` (ids 2,3), `(1,2)` (ids 4,5), `(3,2)`
(ids 6,7); every other variable is `0`. -/
noncomputable def vPar : Nat → ℝ := fun i =>
  if i = 2 then 4 else if i = 4 then 1 else if i = 5 ∨ i = 7 then 2 else if i = 6 then 3 else 0

/-- The line `l1`: `(0,0) → (4,0)` (ids 0,1 and 2,3). -/
def parL1 : Seg := ⟨⟨0, 1⟩, ⟨2, 3⟩⟩

/-- The line `l0`: `(1,2) → (3,2)` (ids 4,5 and 6,7). -/
def parL0 : Seg := ⟨⟨4, 5⟩, ⟨6, 7⟩⟩

/-- `|(0,0) − (4,0)| = 4`. -/
theorem parL1_len : dist2 (pt vPar parL1.p0) (pt vPar parL1.p1) = 4 := by
  have h0 : pt vPar parL1.p0 = ⟨0, 0⟩ := by simp [pt, vPar, parL1]
  have h1 : pt vPar parL1.p1 = ⟨4, 0⟩ := by simp [pt, vPar, parL1]
  rw [h0, h1]
  simp only [dist2]
  rw [show ((0 : ℝ) - 4) ^ 2 + (0 - 0) ^ 2 = 4 ^ 2 by norm_num]
  exact Real.sqrt_sq (by norm_num)

/-- Non-vacuity of `zero_iff_parallelLinesDistance` and its consequences: `l1` is the x-axis
segment `(0,0) → (4,0)`, `l0 = (1,2) → (3,2)`, `d = 2`: the guard is inactive and all error
components of `parallel_lines_distance([l0, l1], 2)` are `0` (and with `d = −2` they are not). -/
example :
    AllGuardOff (Constraint.parallelLinesDistance parL0 parL1 (2 : ℝ)) vPar ∧
    AllZeroAt (Constraint.parallelLinesDistance parL0 parL1 (2 : ℝ)) vPar ∧
    ¬ AllZeroAt (Constraint.parallelLinesDistance parL0 parL1 (-2 : ℝ)) vPar := by
  have hg : ∀ d : ℝ, AllGuardOff (Constraint.parallelLinesDistance parL0 parL1 d) vPar := by
    intro d
    rw [guardOff_parallelLinesDistance, parL1_len, EPS_real]; norm_num
  have hsd : signedLineDist (pt vPar parL0.p0) (pt vPar parL1.p0) (pt vPar parL1.p1) = 2 := by
    unfold signedLineDist
    rw [len_vec, parL1_len]
    simp only [cross, vec, pt, vPar, parL0, parL1]; norm_num
  have hcr : cross (dir vPar parL0) (dir vPar parL1) = 0 := by
    simp only [cross, dir, vec, pt, vPar, parL0, parL1]; norm_num
  refine ⟨hg 2, ?_, ?_⟩
  · rw [zero_iff_parallelLinesDistance _ _ _ _ (hg 2)]
    exact ⟨hcr, hsd⟩
  · rw [zero_iff_parallelLinesDistance _ _ _ _ (hg (-2)), hsd]
    norm_num

end CompositeEx

end Ezpz
