/-
Non-vacuity of `result_is_filtered_solve` (`Ezpz/Proofs/PriorityEntry.lean`) over ℝ: a concrete
two-level request list whose prioritised solve succeeds with an unsatisfied request, so that the
position map `pos` does real work.
-/
import Ezpz.Proofs.PriorityEntry
import Ezpz.Real.Instance
set_option linter.unusedSectionVars false
set_option linter.unusedSimpArgs false
namespace Ezpz
open Transc

/-- An LU oracle that always answers "no step". -/
def zeroSolve : LinSolve ℝ := fun _ _ _ _ => .ok [0]

/-- One round of "variable 0 fixed to 7" from 0 with the zero-step oracle: the residual is 7, the
step is 0, the loop returns at the step-size test with the value unchanged. -/
theorem fixed7_round (id : Nat) :
    newtonStep [(⟨.fixed 0 7, id, 0⟩ : Entry ℝ)] ⟨30, 1e-5, 1e-5⟩ (zeroSolve 0) 0 [0] [] =
      .done ⟨[0], 0, [], [(0, 0, 1.0)], false⟩ := by
  simp [newtonStep, residualAll, jacobianAll, jacobianFrom, pattern, patternFrom,
    Constraint.residual, Constraint.jacobianRows, Constraint.residualV, Constraint.jacobianV,
    Constraint.residualReads, Constraint.jacobianReads, lookup, takeRows, Constraint.residualDim,
    Res.mk1, maxAbs?, zeroSolve, applyStep, allFinite, stepInfNorm, stepThreshold, maxAbs0,
    Constraint.nonzeroes]
  norm_num

/-- `solveInner` on the single request "variable 0 fixed to 7" (caller position `id`) from 0 with the
zero-step oracle: success after 0 iterations, value unchanged, the request reported unsatisfied. -/
theorem fixed7_solveInner (id : Nat) :
    solveInner [(⟨.fixed 0 7, id, 0⟩ : Entry ℝ)] [(0, 0)] ⟨30, 1e-5, 1e-5⟩ (zeroSolve 0) none =
      .ok ⟨[id], [0], 0, [], 0, none⟩ := by
  have hm : modelNew [(⟨.fixed 0 7, id, 0⟩ : Entry ℝ)] ([((0 : Nat), (0 : ℝ))].map (·.1)) = .ok () := by
    simp [modelNew, validateVariables, firstMissing, Constraint.nonzeroes, pattern, patternFrom,
      takeRows, Constraint.residualDim, List.zipIdx]
  have hn : newton [(⟨.fixed 0 7, id, 0⟩ : Entry ℝ)] ⟨30, 1e-5, 1e-5⟩ (zeroSolve 0) [0] =
      .ok ⟨[0], 0, [], [(0, 0, 1.0)], false⟩ := by
    show newtonLoop _ _ _ (29 + 1) 0 [0] [] = _
    rw [newtonLoop, fixed7_round id]
  have hs : unsatisfiedSweep [(⟨.fixed 0 7, id, 0⟩ : Entry ℝ)] (lookup [0]) = .ok [id] := by
    simp [unsatisfiedSweep, Constraint.residual, Constraint.residualV, Constraint.residualReads,
      lookup, Constraint.residualDim, Res.mk1, isSatisfied, EPS_real]
    norm_num
  simp only [solveInner, hm]
  simp only [List.map_cons, List.map_nil, hn, hs, runAnalysis]
  simp [lint, lintOne, maxPriority]

/-- The two-level list: "variable 0 fixed to 5" at priority 1 (position 0) and "variable 0 fixed to
7" at priority 0 (position 1). -/
def twoLevel : List (Constraint ℝ × Nat) := [(.fixed 0 5, 1), (.fixed 0 7, 0)]

/-- The prioritised solve of the two-level list (zero-step oracle) succeeds at priority 0 and reports
the request at caller position 1 unsatisfied. -/
theorem twoLevel_solve :
    solveWithPriority twoLevel [(0, 0)] ⟨30, 1e-5, 1e-5⟩ zeroSolve none =
      .ok ⟨[1], [0], 0, [], 0, none⟩ := by
  have hl : levels (enumerate twoLevel) = [0, 1] := rfl
  unfold solveWithPriority
  rw [hl]
  simp only [twoLevel, List.isEmpty_cons, Bool.false_eq_true, if_false, priorityLoop]
  rw [show (enumerate [((.fixed 0 5 : Constraint ℝ), 1), (.fixed 0 7, 0)]).filter
    (fun e => e.priority ≤ 0) = [(⟨.fixed 0 7, 1, 0⟩ : Entry ℝ)] from rfl]
  simp only [Option.map, fixed7_solveInner 1]
  rfl

/-- The fresh solve of the requests of priority `≤ 0` reports position 0 (of the filtered list). -/
theorem twoLevel_filtered_solve :
    solveWithPriority (filteredReqs twoLevel 0) [(0, 0)] ⟨30, 1e-5, 1e-5⟩ zeroSolve none =
      .ok ⟨[0], [0], 0, [], 0, none⟩ := by
  have hfr : filteredReqs twoLevel 0 = [((.fixed 0 7 : Constraint ℝ), 0)] := rfl
  have hl : levels (enumerate [((.fixed 0 7 : Constraint ℝ), 0)]) = [0] := rfl
  rw [hfr]
  unfold solveWithPriority
  rw [hl]
  simp only [List.isEmpty_cons, Bool.false_eq_true, if_false, priorityLoop]
  rw [show (enumerate [((.fixed 0 7 : Constraint ℝ), 0)]).filter
    (fun e => e.priority ≤ 0) = [(⟨.fixed 0 7, 0, 0⟩ : Entry ℝ)] from rfl]
  simp only [Option.map, fixed7_solveInner 0]
  rfl

/-- **Non-vacuity of `result_is_filtered_solve`**: its hypothesis holds for the two-level list, the
outcome it promises is the one computed directly, and the position map is not the identity there:
the filtered run reports position 0, the original run position `pos twoLevel 0 0 = 1`. -/
example : ∃ o o', solveWithPriority twoLevel [(0, 0)] ⟨30, 1e-5, 1e-5⟩ zeroSolve none = .ok o ∧
    o.prioritySolved = 0 ∧
    solveWithPriority (filteredReqs twoLevel o.prioritySolved) [(0, 0)] ⟨30, 1e-5, 1e-5⟩ zeroSolve
      none = .ok o' ∧
    o = o'.relabel (pos twoLevel o.prioritySolved) ∧
    o.unsatisfied = [1] ∧ o'.unsatisfied = [0] ∧ pos twoLevel 0 0 = 1 := by
  obtain ⟨o', h1, h2⟩ := result_is_filtered_solve twoLevel [(0, 0)] ⟨30, 1e-5, 1e-5⟩ zeroSolve none
    _ twoLevel_solve
  refine ⟨_, o', twoLevel_solve, rfl, h1, h2, rfl, ?_, rfl⟩
  have h3 : solveWithPriority (filteredReqs twoLevel 0) [(0, 0)] ⟨30, 1e-5, 1e-5⟩ zeroSolve none =
      .ok o' := h1
  rw [twoLevel_filtered_solve] at h3
  injection h3 with h3
  rw [← h3]

end Ezpz
