/-
C13 over ℝ, angle kinds: `LinesAtAngle(l0, l1, Other ang)` and `ArcAngle(a, ang)`.
The residual is `wrapAngleDelta (atan2 cross dot - target)`; its Jacobian row is the derivative of
that along every line, away from the guards (`|l0|, |l1| > EPS`), the branch cut of `atan2`
(current angle = π) and the jump of the wrap (`δ ≡ π mod 2π`).
-/
import Ezpz.Real.Deriv
import Mathlib.Analysis.SpecialFunctions.Complex.LogDeriv
namespace Ezpz
open Transc Filter Topology

/-- Derivative of `atan2 (y t) (x t)` along a differentiable curve off the branch cut. -/
theorem hasDerivAt_realAtan2 {x y : ℝ → ℝ} {x' y' t0 : ℝ}
    (hx : HasDerivAt x x' t0) (hy : HasDerivAt y y' t0)
    (hs : (⟨x t0, y t0⟩ : ℂ) ∈ Complex.slitPlane) :
    HasDerivAt (fun t => realAtan2 (y t) (x t))
      ((x t0 * y' - y t0 * x') / (x t0 ^ 2 + y t0 ^ 2)) t0 := by
  have hz : HasDerivAt (fun t => ((x t : ℂ) + (y t : ℂ) * Complex.I))
      ((x' : ℂ) + (y' : ℂ) * Complex.I) t0 :=
    hx.ofReal_comp.add (hy.ofReal_comp.mul_const Complex.I)
  have hs' : ((x t0 : ℂ) + (y t0 : ℂ) * Complex.I) ∈ Complex.slitPlane := by
    have : ((x t0 : ℂ) + (y t0 : ℂ) * Complex.I) = ⟨x t0, y t0⟩ := by
      apply Complex.ext <;> simp
    rw [this]; exact hs
  have hl := hz.clog_real hs'
  have him := Complex.imCLM.hasFDerivAt.comp_hasDerivAt t0 hl
  have hfun : (fun t => realAtan2 (y t) (x t)) =
      (⇑Complex.imCLM ∘ fun t => Complex.log ((x t : ℂ) + (y t : ℂ) * Complex.I)) := by
    funext t
    have : ((x t : ℂ) + (y t : ℂ) * Complex.I) = ⟨x t, y t⟩ := by
      apply Complex.ext <;> simp
    simp [realAtan2, Complex.log_im, this]
  rw [hfun]
  refine him.congr_deriv ?_
  simp [Complex.div_im, Complex.normSq_apply]
  ring

/-- A point of the unit circle other than `-1` is off the branch cut. -/
theorem cos_sin_mem_slitPlane {δ : ℝ} (h : Real.cos δ ≠ -1) :
    (⟨Real.cos δ, Real.sin δ⟩ : ℂ) ∈ Complex.slitPlane := by
  rw [Complex.mem_slitPlane_iff]
  by_cases hs : Real.sin δ = 0
  · left
    have h1 := Real.sin_sq_add_cos_sq δ
    rw [hs] at h1
    have h2 : Real.cos δ = 1 ∨ Real.cos δ = -1 := by
      have h3 : (Real.cos δ - 1) * (Real.cos δ + 1) = 0 := by nlinarith
      rcases mul_eq_zero.mp h3 with h4 | h4
      · left; linarith
      · right; linarith
    rcases h2 with h2 | h2
    · show 0 < Real.cos δ
      rw [h2]; exact one_pos
    · exact absurd h2 h
  · right; exact hs

/-- `wrapAngleDelta` has derivative 1 (chain rule: `δ'`) wherever `δ ≢ π (mod 2π)`. -/
theorem hasDerivAt_wrapAngleDelta {δ : ℝ → ℝ} {δ' : ℝ} (hδ : HasDerivAt δ δ' 0)
    (hc : Real.cos (δ 0) ≠ -1) :
    HasDerivAt (fun t => wrapAngleDelta (δ t)) δ' 0 := by
  have hcont : ContinuousAt δ 0 := hδ.continuousAt
  by_cases hin : -Real.pi < δ 0 ∧ δ 0 < Real.pi
  · -- identity branch in a neighbourhood
    have e1 := hcont.eventually (lt_mem_nhds hin.1)
    have e2 := hcont.eventually (gt_mem_nhds hin.2)
    refine hδ.congr_of_eventuallyEq ?_
    filter_upwards [e1, e2] with t t1 t2
    simp only [wrapAngleDelta, pi_real]
    rw [if_pos ⟨t1, t2.le⟩]
  · -- `atan2 (sin δ) (cos δ)` branch in a neighbourhood
    have hout : δ 0 < -Real.pi ∨ Real.pi < δ 0 := by
      by_contra hcon
      have hcon := not_or.mp hcon
      rcases lt_or_eq_of_le (not_lt.mp hcon.1) with h1 | h1
      · rcases lt_or_eq_of_le (not_lt.mp hcon.2) with h2 | h2
        · exact hin ⟨h1, h2⟩
        · exact hc (by rw [h2, Real.cos_pi])
      · exact hc (by rw [← h1, Real.cos_neg, Real.cos_pi])
    have hat := hasDerivAt_realAtan2 (x := fun t => Real.cos (δ t)) (y := fun t => Real.sin (δ t))
      hδ.cos hδ.sin (cos_sin_mem_slitPlane hc)
    have hat' : HasDerivAt (fun t => realAtan2 (Real.sin (δ t)) (Real.cos (δ t))) δ' 0 := by
      refine hat.congr_deriv ?_
      have h1 := Real.sin_sq_add_cos_sq (δ 0)
      have h2 : Real.cos (δ 0) ^ 2 + Real.sin (δ 0) ^ 2 = 1 := by linarith
      rw [h2]
      linear_combination δ' * h1
    refine hat'.congr_of_eventuallyEq ?_
    rcases hout with h | h
    · filter_upwards [hcont.eventually (gt_mem_nhds h)] with t ht
      simp only [wrapAngleDelta, pi_real, sin_real, cos_real, atan2_real]
      rw [if_neg (fun hh => absurd hh.1 (not_lt.mpr (le_of_lt ht)))]
    · filter_upwards [hcont.eventually (lt_mem_nhds h)] with t ht
      simp only [wrapAngleDelta, pi_real, sin_real, cos_real, atan2_real]
      rw [if_neg (fun hh => absurd hh.2 (not_le.mpr ht))]

/-! ### LinesAtAngle (general angle) -/

/-- Dot product of the direction vectors of `l0`, `l1` at `v`. -/
def laDot (l0 l1 : Seg) (v : Nat → ℝ) : ℝ :=
  (v l0.p1.x - v l0.p0.x) * (v l1.p1.x - v l1.p0.x) + (v l0.p1.y - v l0.p0.y) * (v l1.p1.y - v l1.p0.y)

/-- Cross product of the direction vectors of `l0`, `l1` at `v`. -/
def laCross (l0 l1 : Seg) (v : Nat → ℝ) : ℝ :=
  (v l0.p1.x - v l0.p0.x) * (v l1.p1.y - v l1.p0.y) - (v l0.p1.y - v l0.p0.y) * (v l1.p1.x - v l1.p0.x)

/-- Squared length of `l` at `v` (in the sign convention of the model's `hypot` arguments). -/
def segSqD (l : Seg) (v : Nat → ℝ) : ℝ :=
  (v l.p0.x - v l.p1.x) * (v l.p0.x - v l.p1.x) + (v l.p0.y - v l.p1.y) * (v l.p0.y - v l.p1.y)

/-- The unwrapped angle error `atan2 cross dot - target` at `v`. -/
noncomputable def laDelta (l0 l1 : Seg) (ang : Angle ℝ) (v : Nat → ℝ) : ℝ :=
  realAtan2 (laCross l0 l1 v) (laDot l0 l1 v) - ang.toRadians

/-- Regular configuration for `LinesAtAngle(l0, l1, Other ang)`: both lines strictly longer than
`EPS`, the current angle not exactly `π` (the vector `(dot, cross)` off the negative real axis, where
`atan2` jumps), and the angle error `δ` not congruent to `π` modulo `2π` (where the wrap jumps). -/
def RegularLinesAtAngle (l0 l1 : Seg) (ang : Angle ℝ) (v : Nat → ℝ) : Prop :=
  EPS < Real.sqrt (segSqD l0 v) ∧ EPS < Real.sqrt (segSqD l1 v) ∧
  (0 < laDot l0 l1 v ∨ laCross l0 l1 v ≠ 0) ∧
  Real.cos (laDelta l0 l1 ang v) ≠ -1

/-- The stronger, simpler condition: `δ` strictly inside `(-π, π)`. -/
def RegularLinesAtAngleStrict (l0 l1 : Seg) (ang : Angle ℝ) (v : Nat → ℝ) : Prop :=
  EPS < Real.sqrt (segSqD l0 v) ∧ EPS < Real.sqrt (segSqD l1 v) ∧
  (0 < laDot l0 l1 v ∨ laCross l0 l1 v ≠ 0) ∧
  (-Real.pi < laDelta l0 l1 ang v ∧ laDelta l0 l1 ang v < Real.pi)

theorem cos_ne_neg_one_of_mem_Ioo {δ : ℝ} (h1 : -Real.pi < δ) (h2 : δ < Real.pi) :
    Real.cos δ ≠ -1 := by
  have h := Real.cos_lt_cos_of_nonneg_of_le_pi (abs_nonneg δ) le_rfl (abs_lt.mpr ⟨h1, h2⟩)
  rw [Real.cos_pi, Real.cos_abs] at h
  exact h.ne'

theorem RegularLinesAtAngleStrict.regular {l0 l1 : Seg} {ang : Angle ℝ} {v : Nat → ℝ}
    (h : RegularLinesAtAngleStrict l0 l1 ang v) : RegularLinesAtAngle l0 l1 ang v :=
  ⟨h.1, h.2.1, h.2.2.1, cos_ne_neg_one_of_mem_Ioo h.2.2.2.1 h.2.2.2.2⟩

theorem continuous_segSqD (v u : Nat → ℝ) (l : Seg) :
    Continuous (fun t => segSqD l (lineThrough v u t)) := by
  unfold segSqD lineThrough; fun_prop

theorem hasDerivAt_laDot (v u : Nat → ℝ) (l0 l1 : Seg) :
    HasDerivAt (fun t => laDot l0 l1 (lineThrough v u t))
      ((u l0.p1.x - u l0.p0.x) * (v l1.p1.x - v l1.p0.x) + (v l0.p1.x - v l0.p0.x) * (u l1.p1.x - u l1.p0.x)
       + ((u l0.p1.y - u l0.p0.y) * (v l1.p1.y - v l1.p0.y) + (v l0.p1.y - v l0.p0.y) * (u l1.p1.y - u l1.p0.y))) 0 := by
  unfold laDot
  apply HasDerivAt.congr_deriv
  · deriv_poly
  · lits
    ring

theorem hasDerivAt_laCross (v u : Nat → ℝ) (l0 l1 : Seg) :
    HasDerivAt (fun t => laCross l0 l1 (lineThrough v u t))
      ((u l0.p1.x - u l0.p0.x) * (v l1.p1.y - v l1.p0.y) + (v l0.p1.x - v l0.p0.x) * (u l1.p1.y - u l1.p0.y)
       - ((u l0.p1.y - u l0.p0.y) * (v l1.p1.x - v l1.p0.x) + (v l0.p1.y - v l0.p0.y) * (u l1.p1.x - u l1.p0.x))) 0 := by
  unfold laCross
  apply HasDerivAt.congr_deriv
  · deriv_poly
  · lits
    ring

/-- Lagrange identity: `dot² + cross² = |l0|²·|l1|²`. -/
theorem laDot_sq_add_laCross_sq (l0 l1 : Seg) (v : Nat → ℝ) :
    laDot l0 l1 v ^ 2 + laCross l0 l1 v ^ 2 = segSqD l0 v * segSqD l1 v := by
  unfold laDot laCross segSqD; ring

/-- Derivative of the unwrapped angle error along a line, in the form of the model's Jacobian. -/
theorem hasDerivAt_laDelta (v u : Nat → ℝ) (l0 l1 : Seg) (ang : Angle ℝ)
    (h0 : segSqD l0 v ≠ 0) (h1 : segSqD l1 v ≠ 0)
    (hs : 0 < laDot l0 l1 v ∨ laCross l0 l1 v ≠ 0) :
    HasDerivAt (fun t => laDelta l0 l1 ang (lineThrough v u t))
      ((v l0.p0.y - v l0.p1.y) / segSqD l0 v * u l0.p0.x + ((-v l0.p0.x + v l0.p1.x) / segSqD l0 v * u l0.p0.y
      + ((-v l0.p0.y + v l0.p1.y) / segSqD l0 v * u l0.p1.x + ((v l0.p0.x - v l0.p1.x) / segSqD l0 v * u l0.p1.y
      + ((-v l1.p0.y + v l1.p1.y) / segSqD l1 v * u l1.p0.x + ((v l1.p0.x - v l1.p1.x) / segSqD l1 v * u l1.p0.y
      + ((v l1.p0.y - v l1.p1.y) / segSqD l1 v * u l1.p1.x + ((-v l1.p0.x + v l1.p1.x) / segSqD l1 v * u l1.p1.y
      + 0)))))))) 0 := by
  have hline : lineThrough v u 0 = v := by funext i; simp [lineThrough]
  have hat := hasDerivAt_realAtan2 (hasDerivAt_laDot v u l0 l1) (hasDerivAt_laCross v u l0 l1)
    (by rw [Complex.mem_slitPlane_iff, hline]; exact hs)
  unfold laDelta
  refine (hat.sub_const ang.toRadians).congr_deriv ?_
  rw [hline, laDot_sq_add_laCross_sq]
  unfold laDot laCross
  field_simp
  unfold segSqD
  ring

theorem lineThrough_zero (v u : Nat → ℝ) : lineThrough v u 0 = v := by
  funext i; simp [lineThrough]

/-- Near `t = 0` the residual of `linesAtAngle … (.other ang)` is the wrapped angle error. -/
theorem linesAtAngle_other_residual_eventuallyEq (l0 l1 : Seg) (ang : Angle ℝ) (v u : Nat → ℝ)
    (h0 : EPS < Real.sqrt (segSqD l0 v)) (h1 : EPS < Real.sqrt (segSqD l1 v)) :
    ∀ᶠ t in 𝓝 (0 : ℝ), (linesAtAngleResidual (lineThrough v u t) l0 l1 (.other ang)).r0 =
      wrapAngleDelta (laDelta l0 l1 ang (lineThrough v u t)) := by
  have c0 : ContinuousAt (fun t => Real.sqrt (segSqD l0 (lineThrough v u t))) 0 :=
    (Real.continuous_sqrt.comp (continuous_segSqD v u l0)).continuousAt
  have c1 : ContinuousAt (fun t => Real.sqrt (segSqD l1 (lineThrough v u t))) 0 :=
    (Real.continuous_sqrt.comp (continuous_segSqD v u l1)).continuousAt
  have e0 := eventually_not_lt c0 (by simpa [lineThrough_zero] using h0)
  have e1 := eventually_not_lt c1 (by simpa [lineThrough_zero] using h1)
  filter_upwards [e0, e1] with t t0 t1
  unfold segSqD at t0 t1
  simp only [linesAtAngleResidual, hypot_real]
  rw [if_neg (by rintro (h | h); exact t0 h; exact t1 h)]
  rfl

theorem deriv_linesAtAngle_other (l0 l1 : Seg) (ang : Angle ℝ) (v u : Nat → ℝ)
    (hreg : RegularLinesAtAngle l0 l1 ang v) :
    DerivRow (.linesAtAngle l0 l1 (.other ang)) v u (·.r0) (·.r0) := by
  obtain ⟨h0, h1, hs, hc⟩ := hreg
  have p0 : 0 < segSqD l0 v := Real.sqrt_pos.mp (EPS_pos.trans h0)
  have p1 : 0 < segSqD l1 v := Real.sqrt_pos.mp (EPS_pos.trans h1)
  have hd := hasDerivAt_wrapAngleDelta
    (hasDerivAt_laDelta v u l0 l1 ang p0.ne' p1.ne' hs) (by simpa [lineThrough_zero] using hc)
  unfold DerivRow
  simp only [Constraint.residualV]
  refine HasDerivAt.congr_of_eventuallyEq ?_ (linesAtAngle_other_residual_eventuallyEq l0 l1 ang v u h0 h1)
  refine hd.congr_deriv ?_
  have hj : ¬ (Real.sqrt (segSqD l0 v) < EPS ∨ Real.sqrt (segSqD l1 v) < EPS) := by
    rintro (h | h)
    · exact absurd h (not_lt.mpr h0.le)
    · exact absurd h (not_lt.mpr h1.le)
  have m0 : Real.sqrt (segSqD l0 v) * Real.sqrt (segSqD l0 v) = segSqD l0 v := Real.mul_self_sqrt p0.le
  have m1 : Real.sqrt (segSqD l1 v) * Real.sqrt (segSqD l1 v) = segSqD l1 v := Real.mul_self_sqrt p1.le
  unfold segSqD at hj m0 m1
  simp only [Constraint.jacobianV, linesAtAngleJac, hypot_real, sqr]
  rw [if_neg hj]
  simp only [jvars4, rowApply, List.map_cons, List.map_nil, List.sum_cons, List.sum_nil, m0, m1, segSqD]

/-- `LinesAtAngle` under the simpler hypothesis `-π < δ < π`. -/
theorem deriv_linesAtAngle_other_of_strict (l0 l1 : Seg) (ang : Angle ℝ) (v u : Nat → ℝ)
    (hreg : RegularLinesAtAngleStrict l0 l1 ang v) :
    DerivRow (.linesAtAngle l0 l1 (.other ang)) v u (·.r0) (·.r0) :=
  deriv_linesAtAngle_other l0 l1 ang v u hreg.regular

/-- Non-vacuity: two unit segments along the x-axis, target angle 0. -/
example : RegularLinesAtAngleStrict ⟨⟨0, 1⟩, ⟨2, 3⟩⟩ ⟨⟨4, 5⟩, ⟨6, 7⟩⟩ ⟨0, false⟩
    (fun i => if i = 2 ∨ i = 6 then 1 else 0) := by
  have harg : realAtan2 0 1 = 0 := by
    unfold realAtan2
    have : (⟨1, 0⟩ : ℂ) = 1 := by apply Complex.ext <;> simp
    rw [this, Complex.arg_one]
  refine ⟨?_, ?_, ?_, ?_⟩
  · norm_num [segSqD, EPS_real]
  · norm_num [segSqD, EPS_real]
  · left; norm_num [laDot]
  · norm_num [laDelta, laDot, laCross, Angle.toRadians, harg, Real.pi_pos]

/-! ### ArcAngle -/

/-- Regular configuration for `ArcAngle(a, ang)`: that of `LinesAtAngle` on the two radii
centre→start and centre→stop. -/
def RegularArcAngle (a : ArcD) (ang : Angle ℝ) (v : Nat → ℝ) : Prop :=
  RegularLinesAtAngle ⟨a.center, a.start⟩ ⟨a.center, a.stop⟩ ang v

theorem deriv_arcAngle (a : ArcD) (ang : Angle ℝ) (v u : Nat → ℝ)
    (hreg : RegularArcAngle a ang v) :
    DerivRow (.arcAngle a ang) v u (·.r0) (·.r0) :=
  deriv_linesAtAngle_other ⟨a.center, a.start⟩ ⟨a.center, a.stop⟩ ang v u hreg

/-- `ArcAngle` under the simpler hypothesis `-π < δ < π`. -/
theorem deriv_arcAngle_of_strict (a : ArcD) (ang : Angle ℝ) (v u : Nat → ℝ)
    (hreg : RegularLinesAtAngleStrict ⟨a.center, a.start⟩ ⟨a.center, a.stop⟩ ang v) :
    DerivRow (.arcAngle a ang) v u (·.r0) (·.r0) :=
  deriv_arcAngle a ang v u hreg.regular

/-- Non-vacuity: centre at the origin, start = stop = (1, 0), target angle 0. -/
example : RegularArcAngle ⟨⟨0, 1⟩, ⟨2, 3⟩, ⟨2, 3⟩⟩ ⟨0, false⟩ (fun i => if i = 2 then 1 else 0) := by
  have harg : realAtan2 0 1 = 0 := by
    unfold realAtan2
    have : (⟨1, 0⟩ : ℂ) = 1 := by apply Complex.ext <;> simp
    rw [this, Complex.arg_one]
  refine ⟨?_, ?_, ?_, ?_⟩
  · norm_num [segSqD, EPS_real]
  · norm_num [segSqD, EPS_real]
  · left; norm_num [laDot]
  · norm_num [laDelta, laDot, laCross, Angle.toRadians, harg]

end Ezpz
