/-
C12, part B, lifted to the Newton loop and to `solveInner` over ℝ: **the numbering of the variables
does not matter**.  `π` is a bijection of `{0..n-1}` (`PermOn n π`), the renumbered requests are
`es.map (Entry.rename π)`, the value list is reordered to match (`Reordered π n x x'`:
`x'[π i] = x[i]`).

* `ColPermSolve` (in `Proofs/EquivHelpers.lean`) is the hypothesis on the two linear solvers: with
  the columns of the contributions mapped through `π` the second answers the reordered step.  Exact
  solvers that always answer satisfy it (`colPermSolve_of_exact`, from `GN.step_col_perm` and
  `GN.step_unique`); such solvers exist (`exists_colPermSolve`).
* a reordering is a permutation of the list (`reorder_perm`), so the stopping tests see the same
  numbers (`maxAbs0_perm`, `stepInfNorm_perm`);
* one round (`newtonStep_renumber`), the loop (`newtonLoop_renumber`, `newton_renumber`) and
  `solveInner` (`solveInner_renumber`) of the renumbered system: same constructor, round number,
  stopping test, error, warnings (identical), unsatisfied ids; values reordered; last Jacobian with
  columns mapped through `π`.
-/
import Ezpz.Real.Equivariance
import Mathlib.Data.List.FinRange
namespace Ezpz
open Transc

/-! ### A reordering is a permutation -/

/-- **A list reordered by a bijection of its positions is a permutation of the list.** -/
theorem reorder_perm {β : Type} (π : Nat → Nat) (n : Nat) (hπ : PermOn n π) (x x' : List β)
    (h : Reordered π n x x') : x'.Perm x := by
  obtain ⟨hx, hx', hr⟩ := h
  subst hx'
  have key := Equiv.Perm.ofFn_comp_perm (equivOfPermOn x'.length π hπ)
    (fun i : Fin x'.length => x'[i.val])
  rw [List.ofFn_getElem] at key
  have e2 : List.ofFn ((fun i : Fin x'.length => x'[i.val]) ∘ equivOfPermOn x'.length π hπ) = x := by
    apply List.ext_getElem (by simp [hx])
    intro i h1 h2
    have hi : i < x'.length := by simpa using h1
    have := hr i hi
    have hlt : π i < x'.length := hπ.1 i hi
    rw [List.getElem?_eq_getElem hlt, List.getElem?_eq_getElem h2] at this
    injection this with this
    simp only [List.getElem_ofFn, Function.comp, equivOfPermOn_val]
    exact this
  rw [e2] at key
  exact key.symm

/-! ### Exact solvers satisfy the column-permutation hypothesis -/

section Exact
open Matrix

/-- Mapping the columns of the contributions through a bijection of `{0..n-1}` permutes the columns
of the dense matrix. -/
theorem matOf_renameTriplet (R n : Nat) (π : Nat → Nat) (h : PermOn n π) (ts : List (Triplet ℝ))
    (hcols : ∀ t ∈ ts, t.2.1 < n) :
    matOf R n (ts.map (renameTriplet π)) =
      (matOf R n ts).submatrix id (equivOfPermOn n π h).symm := by
  ext i j
  simp only [matOf, submatrix_apply, id, List.filter_map, List.map_map]
  have e1 : ((fun t : Triplet ℝ => t.2.2) ∘ renameTriplet π) = fun t => t.2.2 := rfl
  rw [e1]
  congr 2
  apply List.filter_congr
  intro t ht
  have key := equivOfPermOn_symm_iff n π h t.2.1 (hcols t ht) j
  show decide (t.1 = i.val ∧ π t.2.1 = j.val) = decide _
  rw [Bool.eq_iff_iff, decide_eq_true_iff, decide_eq_true_iff, key]

/-- **Exact solvers satisfy the column-permutation hypothesis**: if both solvers are exact for
`R × n` systems with the same positive damping and always answer, then `ColPermSolve` holds
(`GN.step_col_perm`: the renumbered system's steps are the reordered steps; `GN.step_unique`). -/
theorem colPermSolve_of_exact (solve solve' : Nat → List (Triplet ℝ) → List ℝ →
    Except SolveError (List ℝ)) (R n : Nat) (π : Nat → Nat) (hπ : PermOn n π) (lam : Nat → ℝ)
    (hlam : ∀ k, 0 < lam k)
    (h : ExactSolve solve R n lam) (h' : ExactSolve solve' R n lam)
    (htot : ∀ k jac r, ∃ d, solve k jac r = .ok d)
    (htot' : ∀ k jac r, ∃ d, solve' k jac r = .ok d) :
    ColPermSolve solve solve' π n := by
  intro k jac r hcols
  obtain ⟨d, hd⟩ := htot k jac r
  obtain ⟨d', hd'⟩ := htot' k (jac.map (renameTriplet π)) r
  obtain ⟨hlen, hstep⟩ := h k jac r d hd
  obtain ⟨hlen', hstep'⟩ := h' k _ r d' hd'
  rw [hd, hd']
  refine ⟨by rw [hlen, hlen'], fun _ i hi => ?_⟩
  rw [matOf_renameTriplet R n π hπ jac hcols] at hstep'
  have hstep2 := (GN.step_col_perm (equivOfPermOn n π hπ).symm (matOf R n jac) (vecOf R r) (lam k)
    (vecOf n d)).mpr hstep
  have huniq := GN.step_unique _ _ _ (hlam k) _ _ hstep' hstep2
  have := congrFun huniq (equivOfPermOn n π hπ ⟨i, hi⟩)
  simp only [Function.comp, Equiv.symm_apply_apply, vecOf, equivOfPermOn_val,
    List.getD_eq_getElem?_getD] at this
  have h1 : π i < d'.length := by rw [hlen']; exact hπ.1 i hi
  have h2 : i < d.length := by rw [hlen]; exact hi
  rw [List.getElem?_eq_getElem h1, List.getElem?_eq_getElem h2] at this ⊢
  simpa using this

/-- Solvers satisfying the column-permutation hypothesis exist for all dimensions and all
renumberings (one exact solver used for both systems). -/
theorem exists_colPermSolve (R n : Nat) (π : Nat → Nat) (hπ : PermOn n π) :
    ∃ solve : Nat → List (Triplet ℝ) → List ℝ → Except SolveError (List ℝ),
      ColPermSolve solve solve π n ∧ ExactSolve solve R n (fun _ => 1) := by
  obtain ⟨s, hs, ht⟩ := exists_exactSolve R n (fun _ => 1) (fun _ => one_pos)
  exact ⟨s, colPermSolve_of_exact s s R n π hπ (fun _ => 1) (fun _ => one_pos) hs hs ht ht, hs⟩

end Exact

/-! ### One round -/

section
variable (π : Nat → Nat) (n : Nat) (hπ : PermOn n π) (es : List (Entry ℝ)) (hd : Declared es n)
  (cfg : Config ℝ)
  (solve solve' : Nat → List (Triplet ℝ) → List ℝ → Except SolveError (List ℝ))
include hπ hd

/-- **One round of the renumbered system visits the reordered iterate** (`newtonStep_renumber`):
under the column-permutation hypothesis, the round of the renumbered requests at the reordered
values has the same constructor, round number, stopping test, error and warnings (identical); the
values it returns or continues with are the original ones reordered by `π`; the last Jacobian has
its columns mapped through `π`. -/
theorem newtonStep_renumber (hS : ColPermSolve solve solve' π n) (k : Nat) (x x' : List ℝ)
    (hx : Reordered π n x x') (ws : List (Warning ℝ)) :
    StepResult.RenumEq π n (newtonStep es cfg solve k x ws)
      (newtonStep (es.map (Entry.rename π)) cfg solve' k x' ws) := by
  have hr' := residualAll_reorder π x x' n hx.2.2 es hd
  have hj' := jacobianAll_reorder_perm π x x' n hπ.1 hπ.2 hx.2.2 es hd
  cases hr : residualAll es (lookup x) with
  | error e =>
    rw [hr] at hr'
    simp only [newtonStep, hr, hr']
    exact ⟨rfl, rfl⟩
  | ok p =>
    obtain ⟨r, w1⟩ := p
    rw [hr] at hr'
    cases hj : jacobianAll es (lookup x) with
    | error e =>
      rw [hj] at hj'
      simp only [newtonStep, hr, hr', hj, hj', Except.map]
      exact ⟨rfl, rfl⟩
    | ok q =>
      obtain ⟨jac, w2⟩ := q
      rw [hj] at hj'
      simp only [Except.map] at hj'
      cases hmax : maxAbs? r with
      | none =>
        simp only [newtonStep, hr, hr', hj, hj', hmax]
        exact ⟨rfl, rfl⟩
      | some m =>
        rw [newtonStep_eval es cfg solve k x ws r w1 jac w2 m hr hj hmax,
          newtonStep_eval _ cfg solve' k x' ws r w1 _ w2 m hr' hj' hmax]
        by_cases hl : m ≤ cfg.convergenceTolerance
        · rw [if_pos hl, if_pos hl]
          exact ⟨hx, rfl, rfl, rfl, rfl⟩
        · rw [if_neg hl, if_neg hl]
          have hcols : ∀ t ∈ jac, t.2.1 < n :=
            fun t ht => (jacobianAll_in_range es _ n hd jac w2 hj t ht).2
          have hsol := hS k jac r hcols
          cases hs : solve k jac r with
          | error e =>
            cases hs' : solve' k (jac.map (renameTriplet π)) r with
            | error e' => rw [hs, hs'] at hsol; exact ⟨hsol, rfl⟩
            | ok d' => rw [hs, hs'] at hsol; exact hsol.elim
          | ok d =>
            cases hs' : solve' k (jac.map (renameTriplet π)) r with
            | error e' => rw [hs, hs'] at hsol; exact hsol.elim
            | ok d' =>
              rw [hs, hs'] at hsol
              obtain ⟨hlen, hre⟩ := hsol
              dsimp only
              have hcond : d'.length ≠ x'.length ↔ d.length ≠ x.length := by
                rw [hlen, hx.2.1, ← hx.1]
              by_cases h1 : d.length ≠ x.length
              · rw [if_pos h1, if_pos (hcond.mpr h1)]
                exact ⟨rfl, rfl⟩
              · rw [if_neg h1, if_neg (fun h => h1 (hcond.mp h))]
                have hdn : d.length = n := by rw [← hx.1]; exact not_not.mp h1
                have hdr : Reordered π n d d' := ⟨hdn, by rw [hlen, hdn], hre hdn⟩
                have hyr := applyStep_reordered π n x x' d d' hx hdr
                have hfin : allFinite (applyStep x' d') = allFinite (applyStep x d) :=
                  all_perm (reorder_perm π n hπ _ _ hyr) _
                have hnorm : stepInfNorm d' = stepInfNorm d :=
                  stepInfNorm_perm _ _ (reorder_perm π n hπ _ _ hdr)
                have hthr : stepThreshold cfg x' = stepThreshold cfg x :=
                  stepThreshold_perm cfg _ _ (reorder_perm π n hπ _ _ hx)
                rw [hfin, hnorm, hthr]
                by_cases h2 : (!allFinite (applyStep x d)) = true
                · rw [if_pos h2, if_pos h2]; exact ⟨rfl, rfl⟩
                · rw [if_neg h2, if_neg h2]
                  by_cases h3 : stepInfNorm d ≤ stepThreshold cfg x
                  · rw [if_pos h3, if_pos h3]; exact ⟨hyr, rfl, rfl, rfl, rfl⟩
                  · rw [if_neg h3, if_neg h3]; exact ⟨hyr, rfl⟩

/-! ### The loop -/

/-- **The renumbered run visits the reordered iterates** (`newtonLoop_renumber`): same iteration
count, stopping test, error and warnings; returned values reordered by `π`; last Jacobian with
columns mapped through `π`. -/
theorem newtonLoop_renumber (hS : ColPermSolve solve solve' π n) :
    ∀ (fuel k : Nat) (x x' : List ℝ) (ws : List (Warning ℝ)), Reordered π n x x' →
      LoopRenumEq π n (newtonLoop es cfg solve fuel k x ws)
        (newtonLoop (es.map (Entry.rename π)) cfg solve' fuel k x' ws) := by
  intro fuel
  induction fuel with
  | zero => intro k x x' ws _; exact ⟨rfl, rfl⟩
  | succ fuel ih =>
    intro k x x' ws hx
    have hstep := newtonStep_renumber π n hπ es hd cfg solve solve' hS k x x' hx ws
    rw [newtonLoop, newtonLoop]
    cases h1 : newtonStep es cfg solve k x ws with
    | done a =>
      cases h2 : newtonStep (es.map (Entry.rename π)) cfg solve' k x' ws with
      | done b => rw [h1, h2] at hstep; exact hstep
      | fail e w => rw [h1, h2] at hstep; exact hstep.elim
      | next y w => rw [h1, h2] at hstep; exact hstep.elim
    | fail e w =>
      cases h2 : newtonStep (es.map (Entry.rename π)) cfg solve' k x' ws with
      | done b => rw [h1, h2] at hstep; exact hstep.elim
      | fail e' w' => rw [h1, h2] at hstep; exact hstep
      | next y w => rw [h1, h2] at hstep; exact hstep.elim
    | next y w =>
      cases h2 : newtonStep (es.map (Entry.rename π)) cfg solve' k x' ws with
      | done b => rw [h1, h2] at hstep; exact hstep.elim
      | fail e' w' => rw [h1, h2] at hstep; exact hstep.elim
      | next y' w' =>
        rw [h1, h2] at hstep
        obtain ⟨hy, rfl⟩ := hstep
        exact ih (k + 1) y y' w' hy

/-- **`newton` on the renumbered system from the reordered guess.** -/
theorem newton_renumber (hS : ColPermSolve solve solve' π n) (x x' : List ℝ)
    (hx : Reordered π n x x') :
    LoopRenumEq π n (newton es cfg solve x) (newton (es.map (Entry.rename π)) cfg solve' x') :=
  newtonLoop_renumber π n hπ es hd cfg solve solve' hS cfg.maxIterations 0 x x' [] hx

/-! ### `solveInner` -/

/-- **`solveInner` on the renumbered system with the guess list reordered to match** (no freedom
analysis).  `g'` has its values reordered by `π` and its labels renumbered consistently on
`{0..n-1}`; every declared id is `< n`.  Then both calls fail or both succeed; on success: same
unsatisfied ids, iteration count, priority and warnings, final values reordered by `π`; on failure:
same `numVars`, `numEqs`, warnings, and the same error except that the variable named by a
`MissingGuess` is mapped through `π`. -/
theorem solveInner_renumber (hS : ColPermSolve solve solve' π n) (g g' : List (Nat × ℝ))
    (hval : Reordered π n (g.map (·.2)) (g'.map (·.2)))
    (hlab : ∀ v, v < n → (g'.map (·.1)).contains (π v) = (g.map (·.1)).contains v) :
    SolveRenumEq π n (solveInner es g cfg solve none)
      (solveInner (es.map (Entry.rename π)) g' cfg solve' none) := by
  have hgn : g.length = n := by simpa using hval.1
  have hgn' : g'.length = n := by simpa using hval.2.1
  have hm := modelNew_renumber π (g.map (·.1)) (g'.map (·.1)) n hπ.1 (by simpa using hgn)
    (by simpa using hgn') hlab es hd
  have hN := newton_renumber π n hπ es hd cfg solve solve' hS _ _ hval
  unfold solveInner
  rw [hm, lint_rename, numRows_rename, maxPriority_rename, hgn, hgn']
  cases hm0 : modelNew es (g.map (·.1)) with
  | error e =>
    simp only [Except.mapError]
    refine ⟨rfl, rfl, rfl, ?_⟩
    cases e with
    | missingGuess id v => exact Or.inr ⟨id, v, rfl, rfl⟩
    | _ => exact Or.inl rfl
  | ok u =>
    simp only [Except.mapError]
    cases h1 : newton es cfg solve (g.map (·.2)) with
    | error p =>
      obtain ⟨e, w⟩ := p
      cases h2 : newton (es.map (Entry.rename π)) cfg solve' (g'.map (·.2)) with
      | ok b => rw [h1, h2] at hN; exact hN.elim
      | error p' =>
        obtain ⟨e', w'⟩ := p'
        rw [h1, h2] at hN
        obtain ⟨rfl, rfl⟩ := hN
        exact ⟨rfl, rfl, rfl, Or.inl rfl⟩
    | ok a =>
      cases h2 : newton (es.map (Entry.rename π)) cfg solve' (g'.map (·.2)) with
      | error p' => rw [h1, h2] at hN; exact hN.elim
      | ok b =>
        rw [h1, h2] at hN
        obtain ⟨hv, hi, _, hw, _⟩ := hN
        dsimp only
        rw [unsatisfiedSweep_reorder π a.values b.values n hv.2.2 es hd, hw]
        cases unsatisfiedSweep es (lookup a.values) with
        | error e => exact ⟨rfl, rfl, rfl, Or.inl rfl⟩
        | ok us => exact ⟨hv, rfl, hi, rfl, rfl, rfl⟩

end

/-! ### Non-vacuity -/

/-- `swap01` is a bijection of `{0, 1}`. -/
theorem permOn_swap01 : PermOn 2 swap01 := by
  have h2 : ∀ i, i < 2 → i = 0 ∨ i = 1 := by omega
  constructor
  · intro i hi
    rcases h2 i hi with rfl | rfl <;> decide
  · intro p q hp hq
    rcases h2 p hp with rfl | rfl <;> rcases h2 q hq with rfl | rfl <;> simp [swap01]

/-- All hypotheses of `solveInner_renumber` hold for a concrete model (variable 0 pinned, variables
0 and 1 equal) with the two variables exchanged and the guesses `1, 2` reordered to `2, 1`, with an
exact solver from `exists_colPermSolve`. -/
example : ∃ solve : Nat → List (Triplet ℝ) → List ℝ → Except SolveError (List ℝ),
    SolveRenumEq swap01 2
      (solveInner [(⟨.fixed 0 5, 0, 0⟩ : Entry ℝ), ⟨.scalarEqual 0 1, 1, 0⟩] [(0, 1), (1, 2)]
        ⟨30, 1e-5, 1e-5⟩ solve none)
      (solveInner ([(⟨.fixed 0 5, 0, 0⟩ : Entry ℝ), ⟨.scalarEqual 0 1, 1, 0⟩].map
        (Entry.rename swap01)) [(0, 2), (1, 1)] ⟨30, 1e-5, 1e-5⟩ solve none) := by
  have h2 : ∀ i, i < 2 → i = 0 ∨ i = 1 := by omega
  obtain ⟨s, hs, _⟩ := exists_colPermSolve 2 2 swap01 permOn_swap01
  refine ⟨s, solveInner_renumber swap01 2 permOn_swap01 _ ?_ _ s s hs _ _ ⟨rfl, rfl, ?_⟩ ?_⟩
  · intro e he i hi
    simp only [List.mem_cons, List.mem_nil_iff, or_false] at he
    rcases he with rfl | rfl <;> simp [Constraint.nonzeroes, Rows.all] at hi <;> omega
  · intro i hi
    rcases h2 i hi with rfl | rfl <;> rfl
  · intro v hv
    rcases h2 v hv with rfl | rfl <;> decide

end Ezpz
