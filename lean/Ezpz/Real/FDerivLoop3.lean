/-
C02 at the RESULT of the model's loop and at the public entry point, for EVERY constraint kind.

`Real/FDerivLoop.lean` states `model_newtonLoop_C02`, `model_solveInner_C02` and
`model_solve_C02_single_level` under `RegularAt2`, which is `False` for `PointArcCoincident`.
`Real/FDerivKinds3.lean` closes that gap (`StrictPAC`, `kindC1_pointArcCoincident`, `RegularAt3`,
`kindC1_of_regular3`: all 23 kinds).  Here the three theorems are restated under `RegularAt3`; the
proofs are those of `FDerivLoop.lean` with `kindC1_of_regular3` in place of `kindC1_of_regular2`.
Non-vacuity: `pac1` (Real/FDerivEntry3.lean: seven `Fixed` and one `PointArcCoincident`, 8 variables,
10 rows) meets every hypothesis at its solution with the code's damping `1e-9` and `c = 1/10`.
-/
import Ezpz.Real.FDerivLoop
import Ezpz.Real.FDerivEntry3
namespace Ezpz
open Transc Matrix Topology

/-- **C02 at the result of the model's loop, every kind** (`RegularAt3`: `RegularAt2`, and
`StrictPAC` for `PointArcCoincident`): the statement of `model_newtonLoop_C02_of_kindC1` for requests
that are regular at the zero `xs`. -/
theorem model_newtonLoop_C02_3 (es : List (Entry ℝ)) (n : Nat) (hd : Declared es n)
    (xs : EuclideanSpace ℝ (Fin n)) (hk : ∀ e ∈ es, RegularAt3 e.c (asg n xs))
    (hxs : rOf es n xs = 0) (lam c : ℝ) (hlam : 0 < lam) (hc : lam < c)
    (hJ : ∀ v : Fin n → ℝ, c * (v ⬝ᵥ v) ≤ (JOf es n xs *ᵥ v) ⬝ᵥ (JOf es n xs *ᵥ v)) :
    ∃ ρ : ℝ, 0 < ρ ∧
      ∀ (cfg : Config ℝ) (solve : Nat → List (Triplet ℝ) → List ℝ → Except SolveError (List ℝ)),
        ExactSolve solve (numRows es) n (fun _ => lam) →
        ∀ (x : List ℝ), x.length = n → ‖pointOf n x - xs‖ ≤ ρ →
        ∀ (fuel k : Nat) (ws : List (Warning ℝ)) (res : NewtonOk ℝ),
          newtonLoop es cfg solve fuel k x ws = .ok res →
          k ≤ res.iterations ∧ res.values.length = n ∧
          ‖pointOf n res.values - xs‖ ≤ (1 / 2) ^ (res.iterations - k) * ‖pointOf n x - xs‖ ∧
          ‖pointOf n res.values - pointOf n x‖ ≤ 1.5 * ‖pointOf n x - xs‖ ∧
          (res.byResidual = false →
            ‖pointOf n res.values - xs‖ ≤
              (1 / 2) ^ (res.iterations - k + 1) * ‖pointOf n x - xs‖) :=
  model_newtonLoop_C02_of_kindC1 es n hd xs (fun e he => kindC1_of_regular3 e.c n xs (hk e he)) hxs
    lam c hlam hc hJ

/-- **C02 at the outcome of `solveInner`, every kind** (`RegularAt3`): as `model_solveInner_C02`. -/
theorem model_solveInner_C02_3 (es : List (Entry ℝ)) (n : Nat) (hd : Declared es n)
    (xs : EuclideanSpace ℝ (Fin n)) (hk : ∀ e ∈ es, RegularAt3 e.c (asg n xs))
    (hxs : rOf es n xs = 0) (lam c : ℝ) (hlam : 0 < lam) (hc : lam < c)
    (hJ : ∀ v : Fin n → ℝ, c * (v ⬝ᵥ v) ≤ (JOf es n xs *ᵥ v) ⬝ᵥ (JOf es n xs *ᵥ v)) :
    ∃ ρ : ℝ, 0 < ρ ∧
      ∀ (cfg : Config ℝ) (solve : Nat → List (Triplet ℝ) → List ℝ → Except SolveError (List ℝ))
        (analyze : Option (List (Triplet ℝ) → Except SolveError (List ℝ × List (List ℝ)))),
        ExactSolve solve (numRows es) n (fun _ => lam) →
        ∀ (g : List (Nat × ℝ)), g.length = n → ‖pointOf n (g.map (·.2)) - xs‖ ≤ ρ →
        ∀ (o : Outcome ℝ), solveInner es g cfg solve analyze = .ok o →
          o.finalValues.length = n ∧
          ‖pointOf n o.finalValues - xs‖ ≤
            (1 / 2) ^ o.iterations * ‖pointOf n (g.map (·.2)) - xs‖ ∧
          ‖pointOf n o.finalValues - pointOf n (g.map (·.2))‖ ≤
            1.5 * ‖pointOf n (g.map (·.2)) - xs‖ := by
  obtain ⟨ρ, hρ, hloop⟩ := model_newtonLoop_C02_3 es n hd xs hk hxs lam c hlam hc hJ
  refine ⟨ρ, hρ, ?_⟩
  intro cfg solve analyze hS g hg hg0 o ho
  obtain ⟨nr, hn, _, hv, hi, _⟩ := solveInner_ok es g cfg solve analyze o ho
  have hgl : (g.map (·.2)).length = n := by rw [List.length_map]; exact hg
  have hn' : newtonLoop es cfg solve cfg.maxIterations 0 (g.map (·.2)) [] = .ok nr := by
    rw [← hn]; rfl
  have hB := hloop cfg solve hS (g.map (·.2)) hgl
  have hC := hB hg0
  have hD := hC cfg.maxIterations 0 [] nr
  obtain ⟨_, hlen, h1, h2, _⟩ := hD hn'
  rw [Nat.sub_zero] at h1
  rw [hv, hi]
  exact ⟨hlen, h1, h2⟩

/-- **C02 at the public entry point, one priority level, every kind** (`RegularAt3`): as
`model_solve_C02_single_level`; no constraint kind is excluded any more. -/
theorem model_solve_C02_single_level_3 (reqs : List (Constraint ℝ × Nat)) (P n : Nat)
    (hne : reqs ≠ []) (hall : ∀ r ∈ reqs, r.2 = P)
    (hd : ∀ r ∈ reqs, ∀ i ∈ r.1.nonzeroes.all, i < n)
    (xs : EuclideanSpace ℝ (Fin n)) (hk : ∀ r ∈ reqs, RegularAt3 r.1 (asg n xs))
    (hxs : rOf (enumerate reqs) n xs = 0) (lam c : ℝ) (hlam : 0 < lam) (hc : lam < c)
    (hJ : ∀ v : Fin n → ℝ, c * (v ⬝ᵥ v) ≤
      (JOf (enumerate reqs) n xs *ᵥ v) ⬝ᵥ (JOf (enumerate reqs) n xs *ᵥ v)) :
    ∃ ρ : ℝ, 0 < ρ ∧
      ∀ (cfg : Config ℝ) (solve : LinSolve ℝ) (svd : Option (Svd ℝ)),
        ExactSolve (solve 0) (numRows (enumerate reqs)) n (fun _ => lam) →
        ∀ (g : List (Nat × ℝ)), g.length = n → ‖pointOf n (g.map (·.2)) - xs‖ ≤ ρ →
        ∀ (o : Outcome ℝ), solveWithPriority reqs g cfg solve svd = .ok o →
          o.finalValues.length = n ∧
          ‖pointOf n o.finalValues - xs‖ ≤
            (1 / 2) ^ o.iterations * ‖pointOf n (g.map (·.2)) - xs‖ ∧
          ‖pointOf n o.finalValues - pointOf n (g.map (·.2))‖ ≤
            1.5 * ‖pointOf n (g.map (·.2)) - xs‖ := by
  have hk' : ∀ e ∈ enumerate reqs, RegularAt3 e.c (asg n xs) := by
    intro e he
    exact hk _ (List.mem_of_getElem? (mem_enumerate reqs e he))
  obtain ⟨ρ, hρ, hin⟩ := model_solveInner_C02_3 (enumerate reqs) n (declared_enumerate reqs n hd) xs hk'
    hxs lam c hlam hc hJ
  refine ⟨ρ, hρ, ?_⟩
  intro cfg solve svd hS g hg hg0 o ho
  rw [solveWithPriority_single_level reqs g cfg solve svd P hne hall] at ho
  exact hin cfg (solve 0) _ hS g hg hg0 o ho

/-- **Non-vacuity** of `model_solveInner_C02_3` with a `PointArcCoincident` request: `pac1`, its
solution `(0,0,1,0,0,1,0,1)`, the code's damping `1e-9` and `c = 1/10` meet every hypothesis, and an
exact solver with that damping exists. -/
example : (∃ ρ : ℝ, 0 < ρ ∧
      ∀ (cfg : Config ℝ) (solve : Nat → List (Triplet ℝ) → List ℝ → Except SolveError (List ℝ))
        (analyze : Option (List (Triplet ℝ) → Except SolveError (List ℝ × List (List ℝ)))),
        ExactSolve solve (numRows pac1) 8 (fun _ => (1e-9 : ℝ)) →
        ∀ (g : List (Nat × ℝ)), g.length = 8 →
          ‖pointOf 8 (g.map (·.2)) - pointOf 8 [0, 0, 1, 0, 0, 1, 0, 1]‖ ≤ ρ →
        ∀ (o : Outcome ℝ), solveInner pac1 g cfg solve analyze = .ok o →
          o.finalValues.length = 8 ∧
          ‖pointOf 8 o.finalValues - pointOf 8 [0, 0, 1, 0, 0, 1, 0, 1]‖ ≤
            (1 / 2) ^ o.iterations * ‖pointOf 8 (g.map (·.2)) - pointOf 8 [0, 0, 1, 0, 0, 1, 0, 1]‖ ∧
          ‖pointOf 8 o.finalValues - pointOf 8 (g.map (·.2))‖ ≤
            1.5 * ‖pointOf 8 (g.map (·.2)) - pointOf 8 [0, 0, 1, 0, 0, 1, 0, 1]‖) ∧
    ∃ solve, ExactSolve solve (numRows pac1) 8 (fun _ => (1e-9 : ℝ)) :=
  ⟨model_solveInner_C02_3 pac1 8 pac1_declared _ pac1_regular pac1_zero 1e-9 (1 / 10)
    (by norm_num) (by norm_num) pac1_conditioned,
   (exists_exactSolve _ _ _ (fun _ => by norm_num)).imp fun _ h => h.1⟩

end Ezpz
