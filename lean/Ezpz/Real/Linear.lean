/-
C04.2 — the linear kinds are affine: their Jacobian rows do not depend on the configuration and the
error measure is `A x - b` with `A` given by those rows (for every assignment of ids, aliasing
included).
-/
import Ezpz.Real.Instance
namespace Ezpz
open Transc

/-- The kinds the property calls linear (plus `CircleRadius`, which is of the same form). -/
def Constraint.isLinearKind {α : Type} : Constraint α → Bool
  | .fixed .. | .horizontal .. | .vertical .. | .pointsCoincident .. | .midpoint .. | .scalarEqual ..
  | .horizontalDistance .. | .verticalDistance .. | .circleRadius .. => true
  | _ => false

/-- The Jacobian of a linear kind is the same at every configuration, never degenerate. -/
theorem linear_kinds_constant_jacobian (c : Constraint ℝ) (h : c.isLinearKind = true) (v w : Nat → ℝ) :
    c.jacobianV v = c.jacobianV w ∧ (c.jacobianV v).degenerate = false ∧
      (c.residualV v).degenerate = false := by
  cases c <;> simp [Constraint.isLinearKind] at h <;>
    simp [Constraint.jacobianV, Constraint.residualV, Res.mk1, Res.mk2]

/-- C04.2 — **affine**: for a linear kind, the difference of the error measure between two
configurations is the (constant) Jacobian row applied to the difference of the configurations —
row by row, for all id assignments. -/
theorem linear_kinds_affine (c : Constraint ℝ) (h : c.isLinearKind = true) (v w : Nat → ℝ) :
    (c.residualV v).r0 - (c.residualV w).r0 = rowApply (c.jacobianV w).r0 (fun i => v i - w i) ∧
    (c.residualV v).r1 - (c.residualV w).r1 = rowApply (c.jacobianV w).r1 (fun i => v i - w i) ∧
    (c.residualV v).r2 - (c.residualV w).r2 = rowApply (c.jacobianV w).r2 (fun i => v i - w i) := by
  cases c <;> simp [Constraint.isLinearKind] at h <;>
    simp [Constraint.jacobianV, Constraint.residualV, Res.mk1, Res.mk2, rowApply, lit_0, lit_1,
      lit_half, lit_2] <;> (try constructor) <;> ring

/-- Non-vacuity: `Midpoint` is a linear kind with two live rows. -/
example : (Constraint.midpoint ⟨⟨0, 1⟩, ⟨2, 3⟩⟩ ⟨4, 5⟩ : Constraint ℝ).isLinearKind = true := rfl

end Ezpz
