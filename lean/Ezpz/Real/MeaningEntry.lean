/-
C01, part 3: the verdict of a successful solve, composed with the per-kind geometric meaning.

`Ezpz/Properties/C01.lean` says which requests are listed as unsatisfied in terms of
`satisfiedAt e (lookup o.finalValues)` (the `Option`-valued residual over a *partial* assignment);
`Ezpz/Real/Meaning.lean` / `MeaningArcs.lean` say what `isSatisfied dim (c.residualV v)` means
geometrically for a *total* assignment `v`.  This file connects the two:

* §1 (every scalar type): `satisfiedAt` over a value list is the threshold test on
  `residualV (valuesOf x)` whenever the slots read are in range, and "not satisfied" then means
  "some live component is not below `EPSILON`" (the out-of-bounds and `unreachable!` readings are
  excluded);
* §2 (every scalar type): in a successful solve every attempted request reads in range, and it is
  listed iff that threshold test fails (`listed_iff'`, `attempted_unlisted_iff`,
  `attempted_listed_iff`), with a wrapper for an arbitrary meaning predicate;
* §3 (over ℝ): end-to-end statements for all 23 kinds: an attempted request is unlisted iff its
  geometric meaning holds within tolerance at the returned coordinates, and listed iff it is
  violated by at least `EPSILON` in some component.
-/
import Ezpz.Properties.C01
import Ezpz.Proofs.Report
import Ezpz.Proofs.Lint
import Ezpz.Real.Meaning
import Ezpz.Real.MeaningArcs
import Ezpz.Real.UnionEntry
set_option linter.unusedSectionVars false
set_option linter.unusedSimpArgs false
namespace Ezpz.C01
open Ezpz Transc

section Generic
variable {α : Type} [Add α] [Sub α] [Mul α] [Div α] [Neg α] [OfScientific α]
  [LT α] [DecidableLT α] [LE α] [DecidableLE α] [Transc α]

/-! ## 1. `satisfiedAt` over a value list -/

/-- The total assignment the kernels are evaluated at when the solver holds the value list `x`:
slot `i` of the list (and the literal `0.0` for an index beyond its end, which a constraint whose
reads are in range never looks at). -/
def valuesOf (x : List α) : Nat → α := fun i => (lookup x i).getD 0.0

/-- Every slot the residual of `c` indexes exists in a value list of length `n`. -/
def ReadsInRange (c : Constraint α) (n : Nat) : Prop := ∀ i ∈ c.residualReads, i < n

/-- Inside the list, `valuesOf` is the list element. -/
theorem valuesOf_of_lt (x : List α) (i : Nat) (h : i < x.length) : valuesOf x i = x[i] := by
  simp [valuesOf, lookup, h]

/-- The range check of `Constraint.residual` on a value list is `ReadsInRange`. -/
theorem reads_all_isSome_iff (c : Constraint α) (x : List α) :
    c.residualReads.all (fun i => (lookup x i).isSome) = true ↔ ReadsInRange c x.length := by
  simp [ReadsInRange, lookup, List.all_eq_true]

/-- The declared variables being in range (what `Model::new` checks) puts the reads in range. -/
theorem readsInRange_of_declared (c : Constraint α) (n : Nat)
    (h : ∀ id ∈ c.nonzeroes.all, id < n) : ReadsInRange c n :=
  fun i hi => h i (residualReads_subset c i hi)

/-- `Constraint.residual` on a value list returns a value exactly when the reads are in range, and
the value is then `residualV` at `valuesOf x`. -/
theorem residual_eq_some_iff (c : Constraint α) (x : List α) (r : Res α) :
    c.residual (lookup x) = some r ↔ ReadsInRange c x.length ∧ c.residualV (valuesOf x) = r := by
  unfold Constraint.residual
  by_cases h : c.residualReads.all (fun i => (lookup x i).isSome) = true
  · rw [if_pos h]
    have := (reads_all_isSome_iff c x).mp h
    simp only [Option.some.injEq]
    exact ⟨fun e => ⟨this, e⟩, fun e => e.2⟩
  · rw [if_neg h]
    have := (reads_all_isSome_iff c x).not.mp h
    exact ⟨fun e => (by cases e), fun e => absurd e.1 this⟩

/-- With the reads in range, `Constraint.residual` is `residualV` at `valuesOf x`. -/
theorem residual_of_inRange (c : Constraint α) (x : List α) (h : ReadsInRange c x.length) :
    c.residual (lookup x) = some (c.residualV (valuesOf x)) :=
  (residual_eq_some_iff c x _).mpr ⟨h, rfl⟩

/-- `Constraint.residual` on a value list is the out-of-bounds panic exactly when some read is out
of range. -/
theorem residual_eq_none_iff (c : Constraint α) (x : List α) :
    c.residual (lookup x) = none ↔ ¬ ReadsInRange c x.length := by
  constructor
  · intro h hin
    rw [residual_of_inRange c x hin] at h
    cases h
  · intro h
    cases hr : c.residual (lookup x) with
    | none => rfl
    | some r => exact absurd ((residual_eq_some_iff c x r).mp hr).1 h

/-- Every kind has 1, 2 or 3 residual rows, so `is_satisfied` never reaches its `unreachable!`. -/
theorem residualDim_cases (c : Constraint α) :
    c.residualDim = 1 ∨ c.residualDim = 2 ∨ c.residualDim = 3 := by
  cases c <;> simp [Constraint.residualDim]

/-- `is_satisfied` answers "no" iff one of the first `d` error components is not below `EPSILON`
in absolute value (`d ∈ {1,2,3}`). -/
theorem isSatisfied_false_iff (d : Nat) (r : Res α) (hd : d = 1 ∨ d = 2 ∨ d = 3) :
    isSatisfied d r = some false ↔
      (¬ abs r.r0 < EPS) ∨ (2 ≤ d ∧ ¬ abs r.r1 < EPS) ∨ (3 ≤ d ∧ ¬ abs r.r2 < EPS) := by
  rcases hd with h | h | h <;> subst h <;>
    by_cases h0 : abs r.r0 < EPS <;> by_cases h1 : abs r.r1 < EPS <;>
    by_cases h2 : abs r.r2 < EPS <;> simp [isSatisfied, h0, h1, h2]

/-- For a kind's own number of rows, `is_satisfied` answers `some true` or `some false`. -/
theorem isSatisfied_ne_true_iff (c : Constraint α) (r : Res α) :
    ¬ isSatisfied c.residualDim r = some true ↔ isSatisfied c.residualDim r = some false := by
  rcases residualDim_cases c with h | h | h <;> rw [h] <;>
    cases hb : isSatisfied _ r with
    | none => simp [isSatisfied] at hb
    | some b => cases b <;> simp

/-- **Item 1, unconditional form.**  The sweep's verdict for an entry at the value list `x` is
"satisfied" iff the slots it reads are in range *and* the threshold test on the error measure at
the total assignment `valuesOf x` succeeds. -/
theorem satisfiedAt_true_iff (e : Entry α) (x : List α) :
    satisfiedAt e (lookup x) = true ↔
      ReadsInRange e.c x.length ∧
      isSatisfied e.c.residualDim (e.c.residualV (valuesOf x)) = some true := by
  unfold satisfiedAt
  cases hr : e.c.residual (lookup x) with
  | none =>
    have := (residual_eq_none_iff e.c x).mp hr
    simp [this]
  | some r =>
    obtain ⟨hin, hv⟩ := (residual_eq_some_iff e.c x r).mp hr
    subst hv
    cases hs : isSatisfied e.c.residualDim (e.c.residualV (valuesOf x)) with
    | none => simp [hs]
    | some b => simp [hs, hin]

/-- **Item 1.**  For an entry whose reads are in range, the sweep's verdict at the value list `x`
is "satisfied" iff `is_satisfied` answers `true` on the error measure at `valuesOf x`. -/
theorem satisfiedAt_iff_residualV (e : Entry α) (x : List α) (h : ReadsInRange e.c x.length) :
    satisfiedAt e (lookup x) = true ↔
      isSatisfied e.c.residualDim (e.c.residualV (valuesOf x)) = some true := by
  rw [satisfiedAt_true_iff]; exact ⟨fun h' => h'.2, fun h' => ⟨h, h'⟩⟩

/-- **Item 1, negative verdict.**  For an entry whose reads are in range, the verdict "not
satisfied" means that `is_satisfied` answered `false`, i.e. that one of the live error components
at `valuesOf x` is not below `EPSILON` in absolute value; it is neither the out-of-bounds reading
nor the unsupported-row-count reading of `satisfiedAt … = false`. -/
theorem satisfiedAt_false_iff (e : Entry α) (x : List α) (h : ReadsInRange e.c x.length) :
    (satisfiedAt e (lookup x) = false ↔
      isSatisfied e.c.residualDim (e.c.residualV (valuesOf x)) = some false) ∧
    (isSatisfied e.c.residualDim (e.c.residualV (valuesOf x)) = some false ↔
      (¬ abs (e.c.residualV (valuesOf x)).r0 < EPS) ∨
      (2 ≤ e.c.residualDim ∧ ¬ abs (e.c.residualV (valuesOf x)).r1 < EPS) ∨
      (3 ≤ e.c.residualDim ∧ ¬ abs (e.c.residualV (valuesOf x)).r2 < EPS)) := by
  refine ⟨?_, isSatisfied_false_iff _ _ (residualDim_cases e.c)⟩
  rw [← isSatisfied_ne_true_iff, ← satisfiedAt_iff_residualV e x h]
  cases satisfiedAt e (lookup x) <;> simp

/-! ## 2. The verdict of a successful solve -/

/-- **Item 2.**  `listed_iff` without its uniqueness hypothesis (the ids handed out by `enumerate`
are the list positions, hence distinct): an attempted request is listed iff its verdict is "not
satisfied". -/
theorem listed_iff' (reqs : List (Constraint α × Nat)) (g : List (Nat × α))
    (cfg : Config α) (solve : LinSolve α) (svd : Option (Svd α)) (o : Outcome α)
    (hne : reqs ≠ []) (h : solveWithPriority reqs g cfg solve svd = .ok o)
    (e : Entry α) (he : e ∈ enumerate reqs) (hp : e.priority ≤ o.prioritySolved) :
    e.id ∈ o.unsatisfied ↔ satisfiedAt e (lookup o.finalValues) = false := by
  apply listed_iff reqs g cfg solve svd o hne h e he hp
  intro e' he' hid
  have h1 := mem_enumerate reqs e he
  have h2 := mem_enumerate reqs e' he'
  rw [hid, h1] at h2
  cases e; cases e'
  simp only [Option.some.injEq, Prod.mk.injEq] at h2 hid
  obtain ⟨hc, hpr⟩ := h2
  simp only [Entry.mk.injEq]
  exact ⟨hc.symm, hid, hpr.symm⟩

/-- A successful sweep evaluated every residual without an out-of-bounds read. -/
theorem sweep_ok_residual (x : Nat → Option α) :
    ∀ (es : List (Entry α)) (us : List Nat), unsatisfiedSweep es x = .ok us →
      ∀ e ∈ es, ∃ r, e.c.residual x = some r := by
  intro es
  induction es with
  | nil => intro us _ e he; simp at he
  | cons e0 rest ih =>
    intro us h e he
    unfold unsatisfiedSweep at h
    split at h
    · simp at h
    · rename_i r hr
      split at h
      · simp at h
      · split at h
        · simp at h
        · rename_i us' hrest
          rcases List.mem_cons.mp he with rfl | he
          · exact ⟨r, hr⟩
          · exact ih us' hrest e he

/-- "Request `i` of `reqs` is the constraint `c`, and it was attempted in the successful solve that
returned `o`": the solve succeeded, the request at position `i` is `c` with some priority `p`, and
`p` is at most the solved priority. -/
structure Attempted (reqs : List (Constraint α × Nat)) (g : List (Nat × α)) (cfg : Config α)
    (solve : LinSolve α) (svd : Option (Svd α)) (o : Outcome α) (i : Nat) (c : Constraint α) :
    Prop where
  /-- the solve succeeded and returned `o` -/
  ok : solveWithPriority reqs g cfg solve svd = .ok o
  /-- request `i` is `c`, with a priority that was attempted -/
  req : ∃ p, reqs[i]? = some (c, p) ∧ p ≤ o.prioritySolved

variable {reqs : List (Constraint α × Nat)} {g : List (Nat × α)} {cfg : Config α}
  {solve : LinSolve α} {svd : Option (Svd α)} {o : Outcome α} {i : Nat} {c : Constraint α}

/-- The request list of an attempted request is not empty. -/
theorem Attempted.ne_nil (h : Attempted reqs g cfg solve svd o i c) : reqs ≠ [] := by
  obtain ⟨p, hi, _⟩ := h.req
  intro hnil; subst hnil; simp at hi

/-- In a successful solve every attempted request reads only slots that exist in the returned
value list (otherwise the satisfaction sweep would have panicked). -/
theorem Attempted.readsInRange (h : Attempted reqs g cfg solve svd o i c) :
    ReadsInRange c o.finalValues.length := by
  obtain ⟨p, hi, hp⟩ := h.req
  obtain ⟨P, k, _, hs, hP⟩ := C03.result_is_subset_solve reqs g cfg solve svd o h.ne_nil h.ok
  obtain ⟨nr, _, _, hf, _, _, _, hu, _⟩ := solveInner_ok _ _ _ _ _ _ hs
  have hmem : (⟨c, i, p⟩ : Entry α) ∈ (enumerate reqs).filter (fun e => e.priority ≤ P) := by
    rw [List.mem_filter]
    exact ⟨enumerate_mem_of_get reqs i c p hi, by simpa [hP] using hp⟩
  obtain ⟨r, hr⟩ := sweep_ok_residual _ _ _ hu _ hmem
  rw [hf]
  exact ((residual_eq_some_iff c nr.values r).mp hr).1

/-- An attempted request is **listed** as unsatisfied iff `is_satisfied` answers `false` on its
error measure at the returned values. -/
theorem attempted_listed_iff (h : Attempted reqs g cfg solve svd o i c) :
    i ∈ o.unsatisfied ↔
      isSatisfied c.residualDim (c.residualV (valuesOf o.finalValues)) = some false := by
  obtain ⟨p, hi, hp⟩ := h.req
  have hl := listed_iff' reqs g cfg solve svd o h.ne_nil h.ok ⟨c, i, p⟩
    (enumerate_mem_of_get reqs i c p hi) hp
  exact hl.trans (satisfiedAt_false_iff ⟨c, i, p⟩ o.finalValues h.readsInRange).1

/-- An attempted request is **not listed** iff `is_satisfied` answers `true` on its error measure
at the returned values. -/
theorem attempted_unlisted_iff (h : Attempted reqs g cfg solve svd o i c) :
    i ∉ o.unsatisfied ↔
      isSatisfied c.residualDim (c.residualV (valuesOf o.finalValues)) = some true := by
  rw [attempted_listed_iff h, ← isSatisfied_ne_true_iff, not_not]

/-- **Item 3.**  If `solveWithPriority reqs g cfg solve svd = .ok o`, request `i` is the constraint
`c` with a priority `≤ o.prioritySolved`, and `i` is not in `o.unsatisfied`, then all slots `c`
reads exist in the returned value list and every live component of its error measure at the
returned values is below `EPSILON`: `isSatisfied c.residualDim (c.residualV v) = some true` for
`v = valuesOf o.finalValues`.  (No in-range hypothesis is needed: it is a conclusion.) -/
theorem attempted_unlisted_residual_small (reqs : List (Constraint α × Nat)) (g : List (Nat × α))
    (cfg : Config α) (solve : LinSolve α) (svd : Option (Svd α)) (o : Outcome α)
    (h : solveWithPriority reqs g cfg solve svd = .ok o)
    (i : Nat) (c : Constraint α) (p : Nat) (hi : reqs[i]? = some (c, p))
    (hp : p ≤ o.prioritySolved) (hnot : i ∉ o.unsatisfied) :
    ReadsInRange c o.finalValues.length ∧
    isSatisfied c.residualDim (c.residualV (valuesOf o.finalValues)) = some true ∧
    (abs (c.residualV (valuesOf o.finalValues)).r0 < EPS ∧
      (2 ≤ c.residualDim → abs (c.residualV (valuesOf o.finalValues)).r1 < EPS) ∧
      (3 ≤ c.residualDim → abs (c.residualV (valuesOf o.finalValues)).r2 < EPS)) := by
  have ha : Attempted reqs g cfg solve svd o i c := ⟨h, p, hi, hp⟩
  have hs := (attempted_unlisted_iff ha).mp hnot
  exact ⟨ha.readsInRange, hs, (isSatisfied_iff _ _ (residualDim_cases c)).mp hs⟩

/-- **Item 5, every scalar type.**  A listed attempted request has a live error component at the
returned values that is *not* below `EPSILON` in absolute value. -/
theorem attempted_listed_residual_large (reqs : List (Constraint α × Nat)) (g : List (Nat × α))
    (cfg : Config α) (solve : LinSolve α) (svd : Option (Svd α)) (o : Outcome α)
    (h : solveWithPriority reqs g cfg solve svd = .ok o)
    (i : Nat) (c : Constraint α) (p : Nat) (hi : reqs[i]? = some (c, p))
    (hp : p ≤ o.prioritySolved) (hin : i ∈ o.unsatisfied) :
    ReadsInRange c o.finalValues.length ∧
    ((¬ abs (c.residualV (valuesOf o.finalValues)).r0 < EPS) ∨
      (2 ≤ c.residualDim ∧ ¬ abs (c.residualV (valuesOf o.finalValues)).r1 < EPS) ∨
      (3 ≤ c.residualDim ∧ ¬ abs (c.residualV (valuesOf o.finalValues)).r2 < EPS)) := by
  have ha : Attempted reqs g cfg solve svd o i c := ⟨h, p, hi, hp⟩
  exact ⟨ha.readsInRange,
    (isSatisfied_false_iff _ _ (residualDim_cases c)).mp ((attempted_listed_iff ha).mp hin)⟩

/-- **Wrapper for all kinds at once.**  Whatever proposition `M` the threshold test of `c` at the
returned values is equivalent to (the `satisfied_<kind>` theorems provide one for each of the 23
kinds), an attempted request `c` is unlisted iff `M` holds and listed iff `M` fails. -/
theorem attempted_meaning (h : Attempted reqs g cfg solve svd o i c) {M : Prop}
    (hM : isSatisfied c.residualDim (c.residualV (valuesOf o.finalValues)) = some true ↔ M) :
    (i ∉ o.unsatisfied ↔ M) ∧ (i ∈ o.unsatisfied ↔ ¬ M) := by
  have h1 := (attempted_unlisted_iff h).trans hM
  exact ⟨h1, by rw [← h1, not_not]⟩

/-- A request whose threshold test succeeds at the returned values for a reason that does not
depend on the geometry (an active residual guard, `satisfied_of_guard_*` / `guarded_*`) is never
listed. -/
theorem attempted_never_listed (h : Attempted reqs g cfg solve svd o i c)
    (hs : isSatisfied c.residualDim (c.residualV (valuesOf o.finalValues)) = some true) :
    i ∉ o.unsatisfied :=
  (attempted_unlisted_iff h).mpr hs

end Generic

/-! ## 3. End-to-end over ℝ: listed iff the geometric meaning fails at the returned coordinates -/

section Real
open Geo

/-- The coordinates a successful solve returns, as a total assignment (variable `i` ↦ slot `i` of
`final_values`). -/
abbrev _root_.Ezpz.Outcome.assignment (o : Outcome ℝ) : Nat → ℝ := valuesOf o.finalValues

/-- Over ℝ the assignment is the value list, read with default `0`. -/
theorem assignment_eq (o : Outcome ℝ) (i : Nat) : o.assignment i = o.finalValues.getD i 0 := by
  simp [Outcome.assignment, valuesOf, lookup, lit_0]

variable {reqs : List (Constraint ℝ × Nat)} {g : List (Nat × ℝ)} {cfg : Config ℝ}
  {solve : LinSolve ℝ} {svd : Option (Svd ℝ)} {o : Outcome ℝ} {i : Nat}

/-- "Not both below `e`" is "one of them at least `e`". -/
private theorem not_lt_and (a b e : ℝ) : ¬ (a < e ∧ b < e) ↔ e ≤ a ∨ e ≤ b := by
  rw [not_and_or, not_lt, not_lt]

/-! ### Scalars and points -/

/-- **Distance, end to end.**  An attempted `Distance(p0, p1, d)` request is unlisted iff the
returned points are at distance `d` up to `EPSILON`, and listed iff the distance is off by at
least `EPSILON`. -/
theorem distance_end_to_end {p0 p1 : Pt} {d : ℝ}
    (h : Attempted reqs g cfg solve svd o i (.distance p0 p1 d)) :
    (i ∉ o.unsatisfied ↔ |dist2 (pt o.assignment p0) (pt o.assignment p1) - d| < (EPS : ℝ)) ∧
    (i ∈ o.unsatisfied ↔ (EPS : ℝ) ≤ |dist2 (pt o.assignment p0) (pt o.assignment p1) - d|) := by
  have := attempted_meaning h (satisfied_distance o.assignment p0 p1 d)
  rwa [not_lt] at this

/-- The same in explicit form (the statement asked for in the audit): if the solve succeeds,
request `i` is `Distance(p0, p1, d)` with an attempted priority and `i` is not listed, then the
returned points are at distance `d` up to `EPSILON`. -/
theorem distance_holds_when_unlisted (reqs : List (Constraint ℝ × Nat)) (g : List (Nat × ℝ))
    (cfg : Config ℝ) (solve : LinSolve ℝ) (svd : Option (Svd ℝ)) (o : Outcome ℝ)
    (h : solveWithPriority reqs g cfg solve svd = .ok o)
    (i : Nat) (p0 p1 : Pt) (d : ℝ) (p : Nat) (hi : reqs[i]? = some (.distance p0 p1 d, p))
    (hp : p ≤ o.prioritySolved) (hnot : i ∉ o.unsatisfied) :
    |dist2 (pt o.assignment p0) (pt o.assignment p1) - d| < (EPS : ℝ) :=
  (distance_end_to_end ⟨h, p, hi, hp⟩).1.mp hnot

/-- … and if `i` is listed, the distance is off by at least `EPSILON`. -/
theorem distance_violated_when_listed (reqs : List (Constraint ℝ × Nat)) (g : List (Nat × ℝ))
    (cfg : Config ℝ) (solve : LinSolve ℝ) (svd : Option (Svd ℝ)) (o : Outcome ℝ)
    (h : solveWithPriority reqs g cfg solve svd = .ok o)
    (i : Nat) (p0 p1 : Pt) (d : ℝ) (p : Nat) (hi : reqs[i]? = some (.distance p0 p1 d, p))
    (hp : p ≤ o.prioritySolved) (hin : i ∈ o.unsatisfied) :
    (EPS : ℝ) ≤ |dist2 (pt o.assignment p0) (pt o.assignment p1) - d| :=
  (distance_end_to_end ⟨h, p, hi, hp⟩).2.mp hin

/-- **VerticalDistance, end to end**: unlisted iff `p0` is `d` above `p1` up to `EPSILON`. -/
theorem verticalDistance_end_to_end {p0 p1 : Pt} {d : ℝ}
    (h : Attempted reqs g cfg solve svd o i (.verticalDistance p0 p1 d)) :
    (i ∉ o.unsatisfied ↔
      |((pt o.assignment p0).y - (pt o.assignment p1).y) - d| < (EPS : ℝ)) ∧
    (i ∈ o.unsatisfied ↔
      (EPS : ℝ) ≤ |((pt o.assignment p0).y - (pt o.assignment p1).y) - d|) := by
  have := attempted_meaning h (satisfied_verticalDistance o.assignment p0 p1 d)
  rwa [not_lt] at this

/-- **HorizontalDistance, end to end**: unlisted iff `p0` is `d` to the right of `p1` up to
`EPSILON`. -/
theorem horizontalDistance_end_to_end {p0 p1 : Pt} {d : ℝ}
    (h : Attempted reqs g cfg solve svd o i (.horizontalDistance p0 p1 d)) :
    (i ∉ o.unsatisfied ↔
      |((pt o.assignment p0).x - (pt o.assignment p1).x) - d| < (EPS : ℝ)) ∧
    (i ∈ o.unsatisfied ↔
      (EPS : ℝ) ≤ |((pt o.assignment p0).x - (pt o.assignment p1).x) - d|) := by
  have := attempted_meaning h (satisfied_horizontalDistance o.assignment p0 p1 d)
  rwa [not_lt] at this

/-- **Vertical, end to end**: unlisted iff the ends' abscissae differ by less than `EPSILON`. -/
theorem vertical_end_to_end {l : Seg}
    (h : Attempted reqs g cfg solve svd o i (.vertical l)) :
    (i ∉ o.unsatisfied ↔ |(pt o.assignment l.p0).x - (pt o.assignment l.p1).x| < (EPS : ℝ)) ∧
    (i ∈ o.unsatisfied ↔ (EPS : ℝ) ≤ |(pt o.assignment l.p0).x - (pt o.assignment l.p1).x|) := by
  have := attempted_meaning h (satisfied_vertical o.assignment l)
  rwa [not_lt] at this

/-- **Horizontal, end to end**: unlisted iff the ends' ordinates differ by less than `EPSILON`. -/
theorem horizontal_end_to_end {l : Seg}
    (h : Attempted reqs g cfg solve svd o i (.horizontal l)) :
    (i ∉ o.unsatisfied ↔ |(pt o.assignment l.p0).y - (pt o.assignment l.p1).y| < (EPS : ℝ)) ∧
    (i ∈ o.unsatisfied ↔ (EPS : ℝ) ≤ |(pt o.assignment l.p0).y - (pt o.assignment l.p1).y|) := by
  have := attempted_meaning h (satisfied_horizontal o.assignment l)
  rwa [not_lt] at this

/-- **Fixed, end to end**: unlisted iff the returned value of the variable is within `EPSILON` of
the target, listed iff it is off by at least `EPSILON`. -/
theorem fixed_end_to_end {id : Nat} {e : ℝ}
    (h : Attempted reqs g cfg solve svd o i (.fixed id e)) :
    (i ∉ o.unsatisfied ↔ |o.assignment id - e| < (EPS : ℝ)) ∧
    (i ∈ o.unsatisfied ↔ (EPS : ℝ) ≤ |o.assignment id - e|) := by
  have := attempted_meaning h (satisfied_fixed o.assignment id e)
  rwa [not_lt] at this

/-- **ScalarEqual, end to end**: unlisted iff the two returned values differ by less than
`EPSILON`. -/
theorem scalarEqual_end_to_end {x y : Nat}
    (h : Attempted reqs g cfg solve svd o i (.scalarEqual x y)) :
    (i ∉ o.unsatisfied ↔ |o.assignment x - o.assignment y| < (EPS : ℝ)) ∧
    (i ∈ o.unsatisfied ↔ (EPS : ℝ) ≤ |o.assignment x - o.assignment y|) := by
  have := attempted_meaning h (satisfied_scalarEqual o.assignment x y)
  rwa [not_lt] at this

/-- **CircleRadius, end to end**: unlisted iff the returned radius is within `EPSILON` of the
target. -/
theorem circleRadius_end_to_end {c : Circ} {r : ℝ}
    (h : Attempted reqs g cfg solve svd o i (.circleRadius c r)) :
    (i ∉ o.unsatisfied ↔ |o.assignment c.radius - r| < (EPS : ℝ)) ∧
    (i ∈ o.unsatisfied ↔ (EPS : ℝ) ≤ |o.assignment c.radius - r|) := by
  have := attempted_meaning h (satisfied_circleRadius o.assignment c r)
  rwa [not_lt] at this

/-- **PointsCoincident, end to end**: unlisted iff both coordinate differences of the returned
points are below `EPSILON`; listed iff one of them is at least `EPSILON`. -/
theorem pointsCoincident_end_to_end {p0 p1 : Pt}
    (h : Attempted reqs g cfg solve svd o i (.pointsCoincident p0 p1)) :
    (i ∉ o.unsatisfied ↔
      |(pt o.assignment p0).x - (pt o.assignment p1).x| < (EPS : ℝ) ∧
      |(pt o.assignment p0).y - (pt o.assignment p1).y| < (EPS : ℝ)) ∧
    (i ∈ o.unsatisfied ↔
      (EPS : ℝ) ≤ |(pt o.assignment p0).x - (pt o.assignment p1).x| ∨
      (EPS : ℝ) ≤ |(pt o.assignment p0).y - (pt o.assignment p1).y|) := by
  have := attempted_meaning h (satisfied_pointsCoincident o.assignment p0 p1)
  rwa [not_lt_and] at this

/-- Consequence: the returned points of an unlisted attempted `PointsCoincident` request are
closer than `√2 · EPSILON`. -/
theorem pointsCoincident_dist_when_unlisted {p0 p1 : Pt}
    (h : Attempted reqs g cfg solve svd o i (.pointsCoincident p0 p1))
    (hnot : i ∉ o.unsatisfied) :
    dist2 (pt o.assignment p0) (pt o.assignment p1) < Real.sqrt 2 * (EPS : ℝ) :=
  (satisfied_pointsCoincident_dist o.assignment p0 p1).1 ((attempted_unlisted_iff h).mp hnot)

/-! ### Lines -/

/-- **Midpoint, end to end**: unlisted iff the returned point is within `EPSILON` of the midpoint
of the returned segment in each coordinate. -/
theorem midpoint_end_to_end {l : Seg} {p : Pt}
    (h : Attempted reqs g cfg solve svd o i (.midpoint l p)) :
    (i ∉ o.unsatisfied ↔
      |(pt o.assignment p).x - (mid (pt o.assignment l.p0) (pt o.assignment l.p1)).x| < (EPS : ℝ) ∧
      |(pt o.assignment p).y - (mid (pt o.assignment l.p0) (pt o.assignment l.p1)).y| < (EPS : ℝ)) ∧
    (i ∈ o.unsatisfied ↔
      (EPS : ℝ) ≤ |(pt o.assignment p).x - (mid (pt o.assignment l.p0) (pt o.assignment l.p1)).x| ∨
      (EPS : ℝ) ≤ |(pt o.assignment p).y - (mid (pt o.assignment l.p0) (pt o.assignment l.p1)).y|) := by
  have := attempted_meaning h (satisfied_midpoint o.assignment l p)
  rwa [not_lt_and] at this

/-- **LinesEqualLength, end to end**: unlisted iff the two returned lengths differ by less than
`EPSILON`. -/
theorem linesEqualLength_end_to_end {l0 l1 : Seg}
    (h : Attempted reqs g cfg solve svd o i (.linesEqualLength l0 l1)) :
    (i ∉ o.unsatisfied ↔
      |dist2 (pt o.assignment l0.p0) (pt o.assignment l0.p1)
        - dist2 (pt o.assignment l1.p0) (pt o.assignment l1.p1)| < (EPS : ℝ)) ∧
    (i ∈ o.unsatisfied ↔
      (EPS : ℝ) ≤ |dist2 (pt o.assignment l0.p0) (pt o.assignment l0.p1)
        - dist2 (pt o.assignment l1.p0) (pt o.assignment l1.p1)|) := by
  have := attempted_meaning h (satisfied_linesEqualLength o.assignment l0 l1)
  rwa [not_lt] at this

/-- **PointLineDistance, end to end** (residual guard inactive at the returned coordinates, i.e.
the returned line is not shorter than `EPSILON`): unlisted iff the signed distance of the point
from the line is `d` up to `EPSILON`. -/
theorem pointLineDistance_end_to_end {p : Pt} {l : Seg} {d : ℝ}
    (h : Attempted reqs g cfg solve svd o i (.pointLineDistance p l d))
    (hg : ((Constraint.pointLineDistance p l d).residualV o.assignment).degenerate = false) :
    (i ∉ o.unsatisfied ↔
      |signedLineDist (pt o.assignment p) (pt o.assignment l.p0) (pt o.assignment l.p1) - d|
        < (EPS : ℝ)) ∧
    (i ∈ o.unsatisfied ↔
      (EPS : ℝ) ≤
        |signedLineDist (pt o.assignment p) (pt o.assignment l.p0) (pt o.assignment l.p1) - d|) := by
  have := attempted_meaning h (satisfied_pointLineDistance o.assignment p l d hg)
  rwa [not_lt] at this

/-- `PointLineDistance` with the guard active at the returned coordinates (returned line shorter
than `EPSILON`) is never listed, whatever the geometry. -/
theorem pointLineDistance_guard_never_listed {p : Pt} {l : Seg} {d : ℝ}
    (h : Attempted reqs g cfg solve svd o i (.pointLineDistance p l d))
    (hg : ((Constraint.pointLineDistance p l d).residualV o.assignment).degenerate = true) :
    i ∉ o.unsatisfied :=
  attempted_never_listed h (satisfied_of_guard_pointLineDistance o.assignment p l d hg)

/-- **VerticalPointLineDistance, end to end** (guard inactive): unlisted iff
`|Δx| · |height − d| < EPSILON` at the returned coordinates. -/
theorem verticalPointLineDistance_end_to_end {p : Pt} {l : Seg} {d : ℝ}
    (h : Attempted reqs g cfg solve svd o i (.verticalPointLineDistance p l d))
    (hg : ((Constraint.verticalPointLineDistance p l d).residualV o.assignment).degenerate
      = false) :
    (i ∉ o.unsatisfied ↔
      |(dir o.assignment l).x| * |((pt o.assignment p).y
        - yOnLine (pt o.assignment l.p0) (pt o.assignment l.p1) (pt o.assignment p).x) - d|
        < (EPS : ℝ)) ∧
    (i ∈ o.unsatisfied ↔
      (EPS : ℝ) ≤ |(dir o.assignment l).x| * |((pt o.assignment p).y
        - yOnLine (pt o.assignment l.p0) (pt o.assignment l.p1) (pt o.assignment p).x) - d|) := by
  have := attempted_meaning h (satisfied_verticalPointLineDistance o.assignment p l d hg)
  rwa [not_lt] at this

/-- `VerticalPointLineDistance` with the guard active at the returned coordinates is never
listed. -/
theorem verticalPointLineDistance_guard_never_listed {p : Pt} {l : Seg} {d : ℝ}
    (h : Attempted reqs g cfg solve svd o i (.verticalPointLineDistance p l d))
    (hg : ((Constraint.verticalPointLineDistance p l d).residualV o.assignment).degenerate
      = true) :
    i ∉ o.unsatisfied :=
  attempted_never_listed h (satisfied_of_guard_verticalPointLineDistance o.assignment p l d hg)

/-- **HorizontalPointLineDistance, end to end** (guard inactive): unlisted iff the horizontal
offset of the returned point from the returned line is `d` up to `EPSILON`. -/
theorem horizontalPointLineDistance_end_to_end {p : Pt} {l : Seg} {d : ℝ}
    (h : Attempted reqs g cfg solve svd o i (.horizontalPointLineDistance p l d))
    (hg : ((Constraint.horizontalPointLineDistance p l d).residualV o.assignment).degenerate
      = false) :
    (i ∉ o.unsatisfied ↔
      |((pt o.assignment p).x
        - xOnLine (pt o.assignment l.p0) (pt o.assignment l.p1) (pt o.assignment p).y) - d|
        < (EPS : ℝ)) ∧
    (i ∈ o.unsatisfied ↔
      (EPS : ℝ) ≤ |((pt o.assignment p).x
        - xOnLine (pt o.assignment l.p0) (pt o.assignment l.p1) (pt o.assignment p).y) - d|) := by
  have := attempted_meaning h (satisfied_horizontalPointLineDistance o.assignment p l d hg)
  rwa [not_lt] at this

/-- `HorizontalPointLineDistance` with the guard active at the returned coordinates is never
listed. -/
theorem horizontalPointLineDistance_guard_never_listed {p : Pt} {l : Seg} {d : ℝ}
    (h : Attempted reqs g cfg solve svd o i (.horizontalPointLineDistance p l d))
    (hg : ((Constraint.horizontalPointLineDistance p l d).residualV o.assignment).degenerate
      = true) :
    i ∉ o.unsatisfied :=
  attempted_never_listed h (satisfied_of_guard_horizontalPointLineDistance o.assignment p l d hg)

/-- **Symmetric, end to end** (returned axis not collapsed): unlisted iff the returned `b` is
within `EPSILON` of the mirror image of the returned `a` in each coordinate. -/
theorem symmetric_end_to_end {l : Seg} {a b : Pt}
    (h : Attempted reqs g cfg solve svd o i (.symmetric l a b))
    (hax : dot (dir o.assignment l) (dir o.assignment l) ≠ 0) :
    (i ∉ o.unsatisfied ↔
      |(mirror (pt o.assignment a) (pt o.assignment l.p0) (pt o.assignment l.p1)).x
        - (pt o.assignment b).x| < (EPS : ℝ) ∧
      |(mirror (pt o.assignment a) (pt o.assignment l.p0) (pt o.assignment l.p1)).y
        - (pt o.assignment b).y| < (EPS : ℝ)) ∧
    (i ∈ o.unsatisfied ↔
      (EPS : ℝ) ≤ |(mirror (pt o.assignment a) (pt o.assignment l.p0) (pt o.assignment l.p1)).x
        - (pt o.assignment b).x| ∨
      (EPS : ℝ) ≤ |(mirror (pt o.assignment a) (pt o.assignment l.p0) (pt o.assignment l.p1)).y
        - (pt o.assignment b).y|) := by
  have := attempted_meaning h (satisfied_symmetric o.assignment l a b hax)
  rwa [not_lt_and] at this

/-- **Parallel, end to end**: unlisted iff `|d0 × d1| < EPSILON` for the returned direction
vectors, where `|d0 × d1| = |d0| |d1| |sin ∠(d0, d1)|`; listed iff `|d0 × d1| ≥ EPSILON`. -/
theorem parallel_end_to_end {l0 l1 : Seg}
    (h : Attempted reqs g cfg solve svd o i (.linesAtAngle l0 l1 .parallel)) :
    (i ∉ o.unsatisfied ↔ |cross (dir o.assignment l0) (dir o.assignment l1)| < (EPS : ℝ)) ∧
    (i ∈ o.unsatisfied ↔ (EPS : ℝ) ≤ |cross (dir o.assignment l0) (dir o.assignment l1)|) ∧
    (|cross (dir o.assignment l0) (dir o.assignment l1)| =
      len (dir o.assignment l0) * len (dir o.assignment l1) *
        |Real.sin (angleFromTo (dir o.assignment l0) (dir o.assignment l1))|) := by
  have := attempted_meaning h (satisfied_parallel o.assignment l0 l1).1
  rw [not_lt] at this
  exact ⟨this.1, this.2, (satisfied_parallel o.assignment l0 l1).2⟩

/-- **Perpendicular, end to end**: unlisted iff `|d0 · d1| < EPSILON` for the returned direction
vectors, where `|d0 · d1| = |d0| |d1| |cos ∠(d0, d1)|`; listed iff `|d0 · d1| ≥ EPSILON`. -/
theorem perpendicular_end_to_end {l0 l1 : Seg}
    (h : Attempted reqs g cfg solve svd o i (.linesAtAngle l0 l1 .perpendicular)) :
    (i ∉ o.unsatisfied ↔ |dot (dir o.assignment l0) (dir o.assignment l1)| < (EPS : ℝ)) ∧
    (i ∈ o.unsatisfied ↔ (EPS : ℝ) ≤ |dot (dir o.assignment l0) (dir o.assignment l1)|) ∧
    (|dot (dir o.assignment l0) (dir o.assignment l1)| =
      len (dir o.assignment l0) * len (dir o.assignment l1) *
        |Real.cos (angleFromTo (dir o.assignment l0) (dir o.assignment l1))|) := by
  have := attempted_meaning h (satisfied_perpendicular o.assignment l0 l1).1
  rw [not_lt] at this
  exact ⟨this.1, this.2, (satisfied_perpendicular o.assignment l0 l1).2⟩

/-- **LinesAtAngle(Other θ), end to end** (guard inactive: neither returned line shorter than
`EPSILON`): unlisted iff the signed angle from `d0` to `d1` is within `EPSILON` radians of `θ`
modulo a full turn; listed iff it is at least `EPSILON` away from `θ + 2πk` for every `k`. -/
theorem linesAtAngle_other_end_to_end {l0 l1 : Seg} {θ : Angle ℝ}
    (h : Attempted reqs g cfg solve svd o i (.linesAtAngle l0 l1 (.other θ)))
    (hg : ((Constraint.linesAtAngle l0 l1 (.other θ)).residualV o.assignment).degenerate = false) :
    (i ∉ o.unsatisfied ↔ ∃ k : ℤ,
      |angleFromTo (dir o.assignment l0) (dir o.assignment l1) - θ.toRadians + 2 * Real.pi * k|
        < (EPS : ℝ)) ∧
    (i ∈ o.unsatisfied ↔ ∀ k : ℤ, (EPS : ℝ) ≤
      |angleFromTo (dir o.assignment l0) (dir o.assignment l1) - θ.toRadians + 2 * Real.pi * k|) := by
  have := attempted_meaning h (satisfied_linesAtAngle_other o.assignment l0 l1 θ hg)
  simpa only [not_exists, not_lt] using this

/-- `LinesAtAngle(Other θ)` with the guard active at the returned coordinates (a returned line
shorter than `EPSILON`) is never listed, whatever the angle. -/
theorem linesAtAngle_other_guard_never_listed {l0 l1 : Seg} {θ : Angle ℝ}
    (h : Attempted reqs g cfg solve svd o i (.linesAtAngle l0 l1 (.other θ)))
    (hg : ((Constraint.linesAtAngle l0 l1 (.other θ)).residualV o.assignment).degenerate = true) :
    i ∉ o.unsatisfied :=
  attempted_never_listed h (satisfied_of_guard_linesAtAngle_other o.assignment l0 l1 θ hg)

/-! ### Circles and arcs -/

/-- **LineTangentToCircle, end to end** (guard inactive: returned line not shorter than
`EPSILON`): unlisted iff the signed distance of the returned centre from the directed line is
within `EPSILON` of the returned radius. -/
theorem lineTangentToCircle_end_to_end {l : Seg} {c : Circ}
    (h : Attempted reqs g cfg solve svd o i (.lineTangentToCircle l c))
    (hg : ¬ arcDist o.assignment l.p0 l.p1 < (EPS : ℝ)) :
    (i ∉ o.unsatisfied ↔
      |arcLineDist o.assignment l c.center - o.assignment c.radius| < (EPS : ℝ)) ∧
    (i ∈ o.unsatisfied ↔
      (EPS : ℝ) ≤ |arcLineDist o.assignment l c.center - o.assignment c.radius|) := by
  have := attempted_meaning h (satisfied_lineTangentToCircle o.assignment l c hg)
  rwa [not_lt] at this

/-- `LineTangentToCircle` with the guard active at the returned coordinates is never listed. -/
theorem lineTangentToCircle_guard_never_listed {l : Seg} {c : Circ}
    (h : Attempted reqs g cfg solve svd o i (.lineTangentToCircle l c))
    (hg : arcDist o.assignment l.p0 l.p1 < (EPS : ℝ)) :
    i ∉ o.unsatisfied :=
  attempted_never_listed h (guarded_lineTangentToCircle o.assignment l c hg).2

/-- **CircleTangentToCircle, end to end**: unlisted iff the returned centre distance is within
`EPSILON` of `ra + rb` or of `|ra − rb|`; listed iff it is at least `EPSILON` away from both. -/
theorem circleTangentToCircle_end_to_end {a b : Circ}
    (h : Attempted reqs g cfg solve svd o i (.circleTangentToCircle a b)) :
    (i ∉ o.unsatisfied ↔
      (|arcDist o.assignment a.center b.center - (o.assignment a.radius + o.assignment b.radius)|
        < (EPS : ℝ) ∨
       |arcDist o.assignment a.center b.center - (|o.assignment a.radius - o.assignment b.radius|)|
        < (EPS : ℝ))) ∧
    (i ∈ o.unsatisfied ↔
      ((EPS : ℝ) ≤
        |arcDist o.assignment a.center b.center - (o.assignment a.radius + o.assignment b.radius)| ∧
       (EPS : ℝ) ≤
        |arcDist o.assignment a.center b.center
          - (|o.assignment a.radius - o.assignment b.radius|)|)) := by
  have := attempted_meaning h (satisfied_circleTangentToCircle o.assignment a b)
  rwa [not_or, not_lt, not_lt] at this

/-- **ArcRadius, end to end**: unlisted iff both the returned start radius and the returned end
radius are within `EPSILON` of `r`. -/
theorem arcRadius_end_to_end {a : ArcD} {r : ℝ}
    (h : Attempted reqs g cfg solve svd o i (.arcRadius a r)) :
    (i ∉ o.unsatisfied ↔
      (|arcDist o.assignment a.center a.start - r| < (EPS : ℝ) ∧
       |arcDist o.assignment a.center a.stop - r| < (EPS : ℝ))) ∧
    (i ∈ o.unsatisfied ↔
      ((EPS : ℝ) ≤ |arcDist o.assignment a.center a.start - r| ∨
       (EPS : ℝ) ≤ |arcDist o.assignment a.center a.stop - r|)) := by
  have := attempted_meaning h (satisfied_arcRadius o.assignment a r)
  rwa [not_lt_and] at this

/-- **Arc, end to end**: unlisted iff `|ds − de| · (ds + de) < EPSILON` for the returned distances
`ds`, `de` of start and end from the centre. -/
theorem isArc_end_to_end {a : ArcD}
    (h : Attempted reqs g cfg solve svd o i (.isArc a)) :
    (i ∉ o.unsatisfied ↔
      |arcDist o.assignment a.start a.center - arcDist o.assignment a.stop a.center| *
        (arcDist o.assignment a.start a.center + arcDist o.assignment a.stop a.center)
        < (EPS : ℝ)) ∧
    (i ∈ o.unsatisfied ↔
      (EPS : ℝ) ≤ |arcDist o.assignment a.start a.center - arcDist o.assignment a.stop a.center| *
        (arcDist o.assignment a.start a.center + arcDist o.assignment a.stop a.center)) := by
  have := attempted_meaning h (satisfied_isArc o.assignment a)
  rwa [not_lt] at this

/-- **PointArcCoincident, end to end**: unlisted iff the returned point is within `EPSILON` of the
circle about the returned centre through the returned start (nothing about the sweep). -/
theorem pointArcCoincident_end_to_end {arc : ArcD} {p : Pt}
    (h : Attempted reqs g cfg solve svd o i (.pointArcCoincident arc p)) :
    (i ∉ o.unsatisfied ↔
      |arcDist o.assignment arc.center p - arcDist o.assignment arc.center arc.start|
        < (EPS : ℝ)) ∧
    (i ∈ o.unsatisfied ↔
      (EPS : ℝ) ≤
        |arcDist o.assignment arc.center p - arcDist o.assignment arc.center arc.start|) := by
  have := attempted_meaning h (satisfied_pointArcCoincident o.assignment arc p)
  rwa [not_lt] at this

/-- **ArcLength, end to end** (guard inactive: returned squared radius at least `EPSILON`):
unlisted iff both `u·w / r² − cos (d / r)` and `u×w / r² − sin (d / r)` are below `EPSILON` in
absolute value at the returned coordinates. -/
theorem arcLength_end_to_end {a : ArcD} {d : ℝ}
    (h : Attempted reqs g cfg solve svd o i (.arcLength a d))
    (hg : ¬ arcDist o.assignment a.center a.start ^ 2 < (EPS : ℝ)) :
    (i ∉ o.unsatisfied ↔
      (|arcDot o.assignment a.center a.start a.stop / arcDist o.assignment a.center a.start ^ 2
          - Real.cos (d / arcDist o.assignment a.center a.start)| < (EPS : ℝ) ∧
       |arcCross o.assignment a.center a.start a.stop / arcDist o.assignment a.center a.start ^ 2
          - Real.sin (d / arcDist o.assignment a.center a.start)| < (EPS : ℝ))) ∧
    (i ∈ o.unsatisfied ↔
      ((EPS : ℝ) ≤
        |arcDot o.assignment a.center a.start a.stop / arcDist o.assignment a.center a.start ^ 2
          - Real.cos (d / arcDist o.assignment a.center a.start)| ∨
       (EPS : ℝ) ≤
        |arcCross o.assignment a.center a.start a.stop / arcDist o.assignment a.center a.start ^ 2
          - Real.sin (d / arcDist o.assignment a.center a.start)|)) := by
  have := attempted_meaning h (satisfied_arcLength o.assignment a d hg)
  rwa [not_lt_and] at this

/-- `ArcLength` with the guard active at the returned coordinates (returned radius below `0.01`)
is never listed, whatever `d` is. -/
theorem arcLength_guard_never_listed {a : ArcD} {d : ℝ}
    (h : Attempted reqs g cfg solve svd o i (.arcLength a d))
    (hg : arcDist o.assignment a.center a.start ^ 2 < (EPS : ℝ)) :
    i ∉ o.unsatisfied :=
  attempted_never_listed h (guarded_arcLength o.assignment a d hg).2

/-- **ArcAngle, end to end** (guards inactive: neither returned radius below `EPSILON`): unlisted
iff the returned swept angle is within `EPSILON` of the requested angle modulo whole turns. -/
theorem arcAngle_end_to_end {a : ArcD} {θ : Angle ℝ}
    (h : Attempted reqs g cfg solve svd o i (.arcAngle a θ))
    (hs : ¬ arcDist o.assignment a.center a.start < (EPS : ℝ))
    (he : ¬ arcDist o.assignment a.center a.stop < (EPS : ℝ)) :
    (i ∉ o.unsatisfied ↔
      ∃ k : ℤ, |arcSweep o.assignment a - θ.toRadians - 2 * Real.pi * k| < (EPS : ℝ)) ∧
    (i ∈ o.unsatisfied ↔
      ∀ k : ℤ, (EPS : ℝ) ≤ |arcSweep o.assignment a - θ.toRadians - 2 * Real.pi * k|) := by
  have := attempted_meaning h (satisfied_arcAngle o.assignment a θ hs he)
  simpa only [not_exists, not_lt] using this

/-- `ArcAngle` with a guard active at the returned coordinates is never listed. -/
theorem arcAngle_guard_never_listed {a : ArcD} {θ : Angle ℝ}
    (h : Attempted reqs g cfg solve svd o i (.arcAngle a θ))
    (hg : arcDist o.assignment a.center a.start < (EPS : ℝ) ∨
      arcDist o.assignment a.center a.stop < (EPS : ℝ)) :
    i ∉ o.unsatisfied :=
  attempted_never_listed h (guarded_arcAngle o.assignment a θ hg).2

/-! ### Non-vacuity -/

/-- The hypotheses are satisfiable: the request list "variable 0 fixed to 5" from the guess `0`,
solved with the exact linear solver `negSolve`, succeeds; request 0 is attempted and not listed, and
the end-to-end theorem gives `|x₀ − 5| < EPSILON` at the returned coordinates (which are `[5]`). -/
example : ∃ o : Outcome ℝ,
    Attempted [((.fixed 0 5 : Constraint ℝ), 0)] [(0, 0)] ⟨30, 1e-5, 1e-5⟩ (fun _ => negSolve) none
      o 0 (.fixed 0 5) ∧
    0 ∉ o.unsatisfied ∧ o.finalValues = [5] ∧ |o.assignment 0 - 5| < (EPS : ℝ) := by
  have hs : solveWithPriority [((.fixed 0 5 : Constraint ℝ), 0)] [(0, 0)]
      ⟨30, 1e-5, 1e-5⟩ (fun _ => negSolve) none = .ok ⟨[], [5], 1, [], 0, none⟩ := by
    rw [solveWithPriority_single_level _ _ _ _ none 0 (by simp) (by simp)]
    exact fixed_solveInner 5 (by norm_num) 0
  have ha : Attempted [((.fixed 0 5 : Constraint ℝ), 0)] [(0, 0)] ⟨30, 1e-5, 1e-5⟩
      (fun _ => negSolve) none ⟨[], [5], 1, [], 0, none⟩ 0 (.fixed 0 5) :=
    ⟨hs, 0, by simp, by simp⟩
  have hn : (0 : Nat) ∉ (⟨[], [5], 1, [], 0, none⟩ : Outcome ℝ).unsatisfied := by simp
  exact ⟨_, ha, hn, rfl, (fixed_end_to_end ha).1.mp hn⟩

end Real

end Ezpz.C01
