/-
C17 with unequal round counts: verdicts, positions, and a genuinely unequal run at the entry point.

`Real/UnionUnequalMany.lean` proves `solveWithPriority_unionMany_unequal_partial`.  Here:

1. `unsatisfiedSweep_of_satisfiedAt`, `unsatisfiedSweep_unionRuns`,
   `solveWithPriority_unionMany_unequal_verdicts_partial` — if every request of every group has the
   same satisfaction verdict (`satisfiedAt`, the test the sweep uses) at the group's block `zᵢ` of the
   union's final values as at the group's solo final values, the union's unsatisfied list is
   `unsatMany` (the solo lists moved up by the number of requests of the groups before).
   `solveWithPriority_unionMany_equal_counts_unsat`: when all counts are equal the verdict hypothesis
   holds by itself (the blocks are the solo results), recovering the equal-count conclusion.
2. `forall₂_split`, `flatten_block_getElem?`, `abs_coord_le_norm`,
   `solveWithPriority_unionMany_unequal_positions_partial` — the union's value at index
   `(Σ_{j<i} nⱼ) + t` is `zᵢ[t]`, and it is within `2·(1/2)^(oᵢ.iterations)‖guessᵢ − xsᵢ‖` of the solo
   value `oᵢ.finalValues[t]`: "for every variable".
3. `UnequalEntryEx` — two `Fixed`-only groups through `solveWithPriority` with genuinely unequal
   iteration counts (solo 0 and 1, union 1), no radii involved (`unequal_entry_run`).
4. `ManyEx` (third part) — the verdict hypothesis and the position theorem instantiated on the three
   groups of `Real/UnionUnequalMany.lean`.

Not done: deriving the verdict hypothesis from a quantitative margin (every solo error component at
distance more than the bound from the `1e-4` threshold); a run with unequal counts INSIDE the opaque
radii of `LRun.Ok` (the radii are existential, so item 3 goes through `solveWithPriority` directly).
-/
import Ezpz.Real.UnionUnequalMany
set_option linter.unusedSectionVars false
set_option linter.unusedSimpArgs false
set_option linter.unusedVariables false
namespace Ezpz
open Transc Matrix Topology

/-! ### 1. Verdicts -/

/-- **The sweep is determined by the verdicts.**  `es` mentions only ids below the length of `x`; the
sweep at `y` succeeds with the list `us`; every entry of `es` has the same verdict (`satisfiedAt`)
at `x` as at `y`.  Then the sweep at `x` succeeds with the same list `us`. -/
theorem unsatisfiedSweep_of_satisfiedAt (es : List (Entry ℝ)) (x y : List ℝ)
    (hdx : Declared es x.length) (us : List Nat)
    (hy : unsatisfiedSweep es (lookup y) = .ok us)
    (hv : ∀ e ∈ es, satisfiedAt e (lookup x) = satisfiedAt e (lookup y)) :
    unsatisfiedSweep es (lookup x) = .ok us := by
  obtain ⟨us', hx⟩ := unsatisfiedSweep_ok x es hdx
  rw [hx, unsatisfiedSweep_eq _ _ _ hx, unsatisfiedSweep_eq _ _ _ hy]
  congr 2
  apply List.filter_congr
  intro e he
  rw [hv e he]

/-- **The sweep of the enumerated `unionMany` at concatenated values**: if `zs i` has `n_i` values,
group `i`'s enumerated requests mention only ids `< n_i`, and the sweep of group `i`'s enumerated
requests at `zs i` gives the list recorded in `G.o.unsatisfied`, then the sweep of the union's
enumerated requests at the concatenation gives `unsatMany` (every group's list moved up by the
number of requests of the groups before it). -/
theorem unsatisfiedSweep_unionRuns : ∀ (Gs : List GroupRun) (zs : List (List ℝ)),
    List.Forall₂ (fun G z => z.length = G.n ∧ Declared (enumerate G.reqs) G.n ∧
      unsatisfiedSweep (enumerate G.reqs) (lookup z) = .ok G.o.unsatisfied) Gs zs →
    unsatisfiedSweep (enumerate (unionRuns Gs).1) (lookup zs.flatten) = .ok (unsatMany Gs) := by
  intro Gs zs h
  induction h with
  | nil => rfl
  | cons hz hrest ih =>
    rename_i G z rest zsR
    obtain ⟨hl, hd, hs⟩ := hz
    have hu : unionRuns (G :: rest) = union2 (G.reqs, G.n, G.g) (unionRuns rest) := rfl
    rw [hu]
    simp only [union2, List.flatten_cons, unsatMany]
    rw [enumerate_union, ← hl]
    apply unsatisfiedSweep_union _ _ z zsR.flatten (by rw [hl]; exact hd) _ _ hs
    rw [unsatisfiedSweep_relabel, ih]
    rfl

/-- **C17 with unequal round counts at the entry point: the unsatisfied list** (`_partial`: as
`solveWithPriority_unionMany_unequal_partial` — one priority level, no freedom analysis, all Newton
runs return at the residual test — and the verdict hypothesis below is assumed, not derived).

Hypotheses: exactly those of `solveWithPriority_unionMany_unequal_partial`.

Conclusion: `oU.finalValues` is the concatenation of lists `zs`, one per run, with all the
conclusions of `solveWithPriority_unionMany_unequal_partial` for every `zᵢ`, and: IF for every run
`i` and every request `e` of its enumerated request list the satisfaction verdict (`satisfiedAt`:
every error component below `1e-4` in absolute value — the test the sweep applies) is the same at
`zᵢ` as at the solo final values `oᵢ.finalValues`, THEN the union's unsatisfied list is
`unsatMany`: the solo unsatisfied lists, run `i`'s moved up by the number of requests of the runs
before it (`mem_unsatMany`, `unsatMany_split` say where each id sits). -/
theorem solveWithPriority_unionMany_unequal_verdicts_partial (P : Nat) (lam : ℝ) (hlam : 0 < lam)
    (cfg : Config ℝ) (Ls : List LRun) (hne : Ls ≠ []) (hL : ∀ L ∈ Ls, L.Ok lam cfg)
    (hS : ∀ L ∈ Ls, L.Solved P cfg) (solveU : LinSolve ℝ)
    (hU : ExactSolve (solveU 0) (numRows (enumerate (unionRuns (Ls.map (·.toGroupRun))).1))
      (unionRuns (Ls.map (·.toGroupRun))).2.1 (fun _ => lam))
    (hAU : AnswersInRange (solveU 0) (numRows (enumerate (unionRuns (Ls.map (·.toGroupRun))).1))
      (unionRuns (Ls.map (·.toGroupRun))).2.1)
    (oU : Outcome ℝ)
    (hsU : solveWithPriority (unionRuns (Ls.map (·.toGroupRun))).1
      (unionRuns (Ls.map (·.toGroupRun))).2.2 cfg solveU none = .ok oU)
    (hbU : ∀ r, newton (enumerate (unionRuns (Ls.map (·.toGroupRun))).1) cfg (solveU 0)
      ((unionRuns (Ls.map (·.toGroupRun))).2.2.map (·.2)) = .ok r → r.byResidual = true) :
    ∃ zs : List (List ℝ), oU.finalValues = zs.flatten ∧
      List.Forall₂ (fun L z => z.length = L.n ∧ L.o.iterations ≤ oU.iterations ∧
        FreeRun (enumerate L.reqs) (L.solve 0) (oU.iterations - L.o.iterations)
          L.o.iterations L.o.finalValues z ∧
        ‖pointOf L.n z - pointOf L.n L.o.finalValues‖ ≤
          2 * (1 / 2) ^ L.o.iterations * ‖pointOf L.n (L.g.map (·.2)) - L.xs‖ ∧
        ‖pointOf L.n z - L.xs‖ ≤
          (1 / 2) ^ oU.iterations * ‖pointOf L.n (L.g.map (·.2)) - L.xs‖) Ls zs ∧
      (List.Forall₂ (fun L z => ∀ e ∈ enumerate L.reqs,
          satisfiedAt e (lookup z) = satisfiedAt e (lookup L.o.finalValues)) Ls zs →
        oU.unsatisfied = unsatMany (Ls.map (·.toGroupRun))) := by
  obtain ⟨zs, hz, hsw, hF⟩ := solveWithPriority_unionMany_unequal_partial P lam hlam cfg Ls hne hL hS
    solveU hU hAU oU hsU hbU
  refine ⟨zs, hz, hF, fun hV => ?_⟩
  have hsweeps : List.Forall₂ (fun (G : GroupRun) (z : List ℝ) => z.length = G.n ∧
      Declared (enumerate G.reqs) G.n ∧
      unsatisfiedSweep (enumerate G.reqs) (lookup z) = .ok G.o.unsatisfied)
      (Ls.map (·.toGroupRun)) zs := by
    rw [List.forall₂_map_left_iff]
    refine forall₂_combine hF hV ?_
    intro L z hm h hv
    have hs := (hS L hm).solved
    rw [solveWithPriority_single_level L.reqs L.g cfg L.solve none P (hL L hm).ne (hS L hm).prio]
      at hs
    simp only [Option.map_none] at hs
    obtain ⟨nr, _, _, hf, _, _, _, hu, _⟩ := solveInner_ok _ _ _ _ _ _ hs
    refine ⟨h.1, (hL L hm).loc.1, ?_⟩
    rw [← hf] at hu
    exact unsatisfiedSweep_of_satisfiedAt _ z L.o.finalValues
      (by rw [h.1]; exact (hL L hm).loc.1) _ hu hv
  have := unsatisfiedSweep_unionRuns _ zs hsweeps
  rw [hsw] at this
  injection this

/-- A list related entrywise to another by `b = f a` is its image under `f`. -/
theorem forall₂_eq_map {A B : Type} (f : A → B) {l : List A} {u : List B}
    (h : List.Forall₂ (fun a b => b = f a) l u) : u = l.map f := by
  induction h with
  | nil => rfl
  | cons h _ ih => rw [h, List.map_cons, ih]

/-- **Consistency with the equal-count theorem**: under the hypotheses of
`solveWithPriority_unionMany_unequal_partial`, if every run reports the union's iteration count,
every block `zᵢ` IS the solo result (zero extra free rounds), the verdict hypothesis of
`solveWithPriority_unionMany_unequal_verdicts_partial` holds trivially, and the union's unsatisfied
list is `unsatMany` — the conclusion of `solveWithPriority_unionMany_converged`. -/
theorem solveWithPriority_unionMany_equal_counts_unsat (P : Nat) (lam : ℝ) (hlam : 0 < lam)
    (cfg : Config ℝ) (Ls : List LRun) (hne : Ls ≠ []) (hL : ∀ L ∈ Ls, L.Ok lam cfg)
    (hS : ∀ L ∈ Ls, L.Solved P cfg) (solveU : LinSolve ℝ)
    (hU : ExactSolve (solveU 0) (numRows (enumerate (unionRuns (Ls.map (·.toGroupRun))).1))
      (unionRuns (Ls.map (·.toGroupRun))).2.1 (fun _ => lam))
    (hAU : AnswersInRange (solveU 0) (numRows (enumerate (unionRuns (Ls.map (·.toGroupRun))).1))
      (unionRuns (Ls.map (·.toGroupRun))).2.1)
    (oU : Outcome ℝ)
    (hsU : solveWithPriority (unionRuns (Ls.map (·.toGroupRun))).1
      (unionRuns (Ls.map (·.toGroupRun))).2.2 cfg solveU none = .ok oU)
    (hbU : ∀ r, newton (enumerate (unionRuns (Ls.map (·.toGroupRun))).1) cfg (solveU 0)
      ((unionRuns (Ls.map (·.toGroupRun))).2.2.map (·.2)) = .ok r → r.byResidual = true)
    (heq : ∀ L ∈ Ls, L.o.iterations = oU.iterations) :
    oU.finalValues = (Ls.map (fun L => L.o.finalValues)).flatten ∧
      oU.unsatisfied = unsatMany (Ls.map (·.toGroupRun)) := by
  obtain ⟨zs, hz, hF, himp⟩ := solveWithPriority_unionMany_unequal_verdicts_partial P lam hlam cfg
    Ls hne hL hS solveU hU hAU oU hsU hbU
  have hzs : List.Forall₂ (fun (L : LRun) (z : List ℝ) => z = L.o.finalValues) Ls zs :=
    forall₂_combine hF hF (fun L z hm h _ => by
      have hfr := h.2.2.1
      rw [heq L hm, Nat.sub_self] at hfr
      cases hfr
      rfl)
  refine ⟨?_, himp (hzs.imp (fun L z h e _ => by rw [h]))⟩
  rw [hz, forall₂_eq_map _ hzs]

/-! ### 2. Positions -/

/-- A list relation along `pre ++ L :: post` splits the second list accordingly. -/
theorem forall₂_split {A B : Type} {R : A → B → Prop} : ∀ (pre : List A) (L : A) (post : List A)
    (zs : List B), List.Forall₂ R (pre ++ L :: post) zs →
    ∃ zpre z zpost, zs = zpre ++ z :: zpost ∧ List.Forall₂ R pre zpre ∧ R L z ∧
      List.Forall₂ R post zpost := by
  intro pre
  induction pre with
  | nil =>
    intro L post zs h
    cases h with
    | cons h1 h2 => exact ⟨[], _, _, rfl, .nil, h1, h2⟩
  | cons a pre ih =>
    intro L post zs h
    cases h with
    | cons h1 h2 =>
      obtain ⟨zpre, z, zpost, rfl, hp, hz, hq⟩ := ih L post _ h2
      exact ⟨_ :: zpre, z, zpost, rfl, .cons h1 hp, hz, hq⟩

/-- The concatenation of lists of the prescribed lengths has the total length. -/
theorem flatten_length_of_forall₂ {A : Type} (n : A → Nat) : ∀ (Ls : List A) (zs : List (List ℝ)),
    List.Forall₂ (fun L z => z.length = n L) Ls zs → zs.flatten.length = (Ls.map n).sum := by
  intro Ls zs h
  induction h with
  | nil => rfl
  | cons h1 _ ih => simp [h1, ih]

/-- **Where block `i` sits in a concatenation** (`List.flatten` indexing): if `zs i` has `n i`
entries for every `i`, and `L` stands after `pre` and before `post`, then the block `z` of `L` is
`zs[pre.length]`, and entry `(Σ_{j ∈ pre} n j) + t` of the concatenation is `z[t]` for `t < n L`. -/
theorem flatten_block_getElem? {A : Type} (n : A → Nat) (pre post : List A) (L : A)
    (zs : List (List ℝ)) (h : List.Forall₂ (fun L z => z.length = n L) (pre ++ L :: post) zs) :
    ∃ z, zs[pre.length]? = some z ∧ z.length = n L ∧
      ∀ t, t < n L → zs.flatten[(pre.map n).sum + t]? = z[t]? := by
  obtain ⟨zpre, z, zpost, rfl, hp, hz, _⟩ := forall₂_split pre L post zs h
  have hlen := hp.length_eq
  have hfl := flatten_length_of_forall₂ n pre zpre hp
  refine ⟨z, ?_, hz, ?_⟩
  · rw [List.getElem?_append_right (by omega), hlen]
    simp
  · intro t ht
    simp only [List.flatten_append, List.flatten_cons]
    rw [List.getElem?_append_right (by omega), hfl, Nat.add_sub_cancel_left,
      List.getElem?_append_left (by omega)]

/-- A coordinate difference is at most the Euclidean distance of the points: for lists `z`, `y` with
`n` values and `t < n`, `|z[t] − y[t]| ≤ ‖pointOf n z − pointOf n y‖`. -/
theorem abs_coord_le_norm (n : Nat) (z y : List ℝ) (t : Nat) (ht : t < n) :
    |z.getD t 0 - y.getD t 0| ≤ ‖pointOf n z - pointOf n y‖ := by
  have hc : (pointOf n z - pointOf n y) ⟨t, ht⟩ = z.getD t 0 - y.getD t 0 := rfl
  rw [← hc, ← Real.norm_eq_abs]
  exact PiLp.norm_apply_le (pointOf n z - pointOf n y) ⟨t, ht⟩

/-- **C17 with unequal round counts at the entry point, variable by variable** (`_partial`: as
`solveWithPriority_unionMany_unequal_partial`).

Hypotheses: exactly those of `solveWithPriority_unionMany_unequal_partial`.

Conclusion: for every run `L` standing after the runs `pre` and before the runs `post`
(`Ls = pre ++ L :: post`) there is a list `z` — `L`'s block of the union's final values — with all
the conclusions of `solveWithPriority_unionMany_unequal_partial`, and for EVERY VARIABLE `t < L.n` of
the run: the union's final value at index `(Σ_{L' ∈ pre} L'.n) + t` is `z[t]`, the union's final
value `a` at that index and the solo final value `b = L.o.finalValues[t]` both exist, and
`|a − b| ≤ 2 · (1/2)^(L.o.iterations) ‖guess_L − xs_L‖`. -/
theorem solveWithPriority_unionMany_unequal_positions_partial (P : Nat) (lam : ℝ) (hlam : 0 < lam)
    (cfg : Config ℝ) (Ls : List LRun) (hne : Ls ≠ []) (hL : ∀ L ∈ Ls, L.Ok lam cfg)
    (hS : ∀ L ∈ Ls, L.Solved P cfg) (solveU : LinSolve ℝ)
    (hU : ExactSolve (solveU 0) (numRows (enumerate (unionRuns (Ls.map (·.toGroupRun))).1))
      (unionRuns (Ls.map (·.toGroupRun))).2.1 (fun _ => lam))
    (hAU : AnswersInRange (solveU 0) (numRows (enumerate (unionRuns (Ls.map (·.toGroupRun))).1))
      (unionRuns (Ls.map (·.toGroupRun))).2.1)
    (oU : Outcome ℝ)
    (hsU : solveWithPriority (unionRuns (Ls.map (·.toGroupRun))).1
      (unionRuns (Ls.map (·.toGroupRun))).2.2 cfg solveU none = .ok oU)
    (hbU : ∀ r, newton (enumerate (unionRuns (Ls.map (·.toGroupRun))).1) cfg (solveU 0)
      ((unionRuns (Ls.map (·.toGroupRun))).2.2.map (·.2)) = .ok r → r.byResidual = true)
    (pre post : List LRun) (L : LRun) (hsplit : Ls = pre ++ L :: post) :
    ∃ z : List ℝ, z.length = L.n ∧ L.o.iterations ≤ oU.iterations ∧
      FreeRun (enumerate L.reqs) (L.solve 0) (oU.iterations - L.o.iterations)
        L.o.iterations L.o.finalValues z ∧
      ‖pointOf L.n z - pointOf L.n L.o.finalValues‖ ≤
        2 * (1 / 2) ^ L.o.iterations * ‖pointOf L.n (L.g.map (·.2)) - L.xs‖ ∧
      ‖pointOf L.n z - L.xs‖ ≤
        (1 / 2) ^ oU.iterations * ‖pointOf L.n (L.g.map (·.2)) - L.xs‖ ∧
      ∀ t, t < L.n →
        oU.finalValues[(pre.map (·.n)).sum + t]? = z[t]? ∧
        ∃ a b, oU.finalValues[(pre.map (·.n)).sum + t]? = some a ∧ L.o.finalValues[t]? = some b ∧
          |a - b| ≤ 2 * (1 / 2) ^ L.o.iterations * ‖pointOf L.n (L.g.map (·.2)) - L.xs‖ := by
  obtain ⟨zs, hz, _, hF⟩ := solveWithPriority_unionMany_unequal_partial P lam hlam cfg Ls hne hL hS
    solveU hU hAU oU hsU hbU
  subst hsplit
  obtain ⟨zpre, z, zpost, rfl, hp, hzL, _⟩ := forall₂_split pre L post zs hF
  have hlens : List.Forall₂ (fun (L : LRun) (z : List ℝ) => z.length = L.n) (pre ++ L :: post)
      (zpre ++ z :: zpost) := hF.imp (fun _ _ h => h.1)
  obtain ⟨z', hz', _, hidx⟩ := flatten_block_getElem? (fun L : LRun => L.n) pre post L _ hlens
  have hzz : z' = z := by
    have hl := hp.length_eq
    rw [List.getElem?_append_right (by omega), hl] at hz'
    simpa using hz'.symm
  subst hzz
  -- the solo final values have one value per variable
  have hm : L ∈ pre ++ L :: post := by simp
  have hs := (hS L hm).solved
  rw [solveWithPriority_single_level L.reqs L.g cfg L.solve none P (hL L hm).ne (hS L hm).prio] at hs
  simp only [Option.map_none] at hs
  obtain ⟨nr, hn, _, hf, _⟩ := solveInner_ok _ _ _ _ _ _ hs
  have hlo : L.o.finalValues.length = L.n := by
    rw [hf, newtonLoop_length _ cfg _ _ _ _ _ nr hn]
    simpa using (hL L hm).len
  refine ⟨z', hzL.1, hzL.2.1, hzL.2.2.1, hzL.2.2.2.1, hzL.2.2.2.2, ?_⟩
  intro t ht
  have h1 : oU.finalValues[(pre.map (·.n)).sum + t]? = z'[t]? := by
    rw [hz]; exact hidx t ht
  refine ⟨h1, z'[t]'(by rw [hzL.1]; exact ht), L.o.finalValues[t]'(by rw [hlo]; exact ht), ?_, ?_, ?_⟩
  · rw [h1, List.getElem?_eq_getElem]
  · rw [List.getElem?_eq_getElem]
  · refine le_trans ?_ hzL.2.2.2.1
    have := abs_coord_le_norm L.n z' L.o.finalValues t ht
    have e1 : z'.getD t 0 = z'[t]'(by rw [hzL.1]; exact ht) := by
      rw [List.getD_eq_getElem?_getD, List.getElem?_eq_getElem, Option.getD_some]
    have e2 : L.o.finalValues.getD t 0 = L.o.finalValues[t]'(by rw [hlo]; exact ht) := by
      rw [List.getD_eq_getElem?_getD, List.getElem?_eq_getElem, Option.getD_some]
    rwa [e1, e2] at this

/-! ### 3. A genuinely unequal run through the entry point (no radii) -/

namespace UnequalEntryEx
open UnequalEx ManyEx

/-- `7/(1+1e-9)` is within `1e-8` below `7`. -/
theorem a7_close : |a7 - 7| ≤ 1 / 100000000 := by
  have h1 : a7 ≤ 7 := by
    unfold a7; rw [div_le_iff₀ (by norm_num)]; norm_num
  have h2 : 7 - 1 / 100000000 ≤ a7 := by
    unfold a7; rw [le_div_iff₀ (by norm_num)]; norm_num
  rw [abs_le]
  constructor <;> linarith

/-- The one-request group "variable 0 is `v`" at a value `a` with `|a − v| ≤ 1e-5` returns at the
residual test, in whatever round `k` and with whatever incoming warnings. -/
theorem fx_done_at (v a : ℝ) (id k : Nat) (ws : List (Warning ℝ)) (h : |a - v| ≤ 1e-5)
    (s : Nat → List (Triplet ℝ) → List ℝ → Except SolveError (List ℝ)) :
    newtonStep (fx v id) cfg s k [a] ws = .done ⟨[a], k, ws ++ [] ++ [], [(0, 0, 1.0)], true⟩ := by
  obtain ⟨hr, hj⟩ := fx_eval v a id
  rw [fx, newtonStep_eval _ _ s k [a] ws _ _ _ _ _ hr hj rfl, if_pos (by
    show |a - v| ≤ (1e-5 : ℝ); exact h)]

section Run
variable (s sU : Nat → List (Triplet ℝ) → List ℝ → Except SolveError (List ℝ))
  (hs : ExactSolve s 1 1 (fun _ => (1e-9 : ℝ)))
  (htot : ∀ k jac r, ∃ d, s k jac r = .ok d)

include hs htot

/-- "Variable 0 is 7" (any request id) started at `[0]` continues in round 0 to `[7/(1+1e-9)]`. -/
theorem fx7_next (id : Nat) : newtonStep (fx 7 id) cfg s 0 [0] [] = .next [a7] [] := by
  obtain ⟨hr, hj⟩ := fx_eval 7 0 id
  have hd := s_answer s hs htot 0 (0 - 7)
  have e : -((0 : ℝ) - 7) / (1 + 1e-9) = a7 := by unfold a7; ring
  rw [e] at hd
  have hpos : (0 : ℝ) < a7 := by unfold a7; positivity
  have hbig : (1 : ℝ) ≤ a7 := by
    unfold a7; rw [le_div_iff₀ (by norm_num)]; norm_num
  rw [fx, newtonStep_eval _ _ s 0 [0] [] _ _ _ _ _ hr hj rfl, if_neg (by
    simp only [cfg]; norm_num), hd]
  simp [cfg, applyStep, allFinite, stepInfNorm, stepThreshold, maxAbs0, maxAbs?, abs_of_pos hpos]
  rw [lit_0]
  norm_num
  linarith

/-- **Group 2 alone needs ONE round**: the Newton run of "variable 0 is 7" from `[0]` returns at the
residual test with iteration count 1 and value `[7/(1+1e-9)]`. -/
theorem rq7_newton :
    newton (enumerate (rq 7)) cfg s [0] = .ok ⟨[a7], 1, [], [(0, 0, 1.0)], true⟩ := by
  show newtonLoop (fx 7 0) cfg s (29 + 1) 0 [0] [] = _
  rw [newtonLoop, fx7_next s hs htot 0]
  show newtonLoop (fx 7 0) cfg s (28 + 1) 1 [a7] [] = _
  rw [newtonLoop, fx_done_at 7 a7 0 1 [] (le_trans a7_close (by norm_num)) s]
  rfl

/-- `solveInner` on group 2 from the guess 0: one iteration, value `7/(1+1e-9)`, satisfied. -/
theorem rq7_solveInner :
    solveInner (enumerate (rq 7)) [(0, 0)] cfg s none = .ok ⟨[], [a7], 1, [], 0, none⟩ := by
  have hm : modelNew (enumerate (rq 7)) ([((0 : Nat), (0 : ℝ))].map (·.1)) = .ok () := by
    show modelNew [(⟨.fixed 0 7, 0, 0⟩ : Entry ℝ)] _ = _
    simp [modelNew, validateVariables, firstMissing, Constraint.nonzeroes, pattern, patternFrom,
      takeRows, Constraint.residualDim, List.zipIdx]
  have hn := rq7_newton s hs htot
  have hc : |a7 - 7| < 1e-4 := lt_of_le_of_lt a7_close (by norm_num)
  have hsw : unsatisfiedSweep (enumerate (rq 7)) (lookup [a7]) = .ok [] := by
    show unsatisfiedSweep [(⟨.fixed 0 7, 0, 0⟩ : Entry ℝ)] _ = _
    simp [unsatisfiedSweep, Constraint.residual, Constraint.residualV, Constraint.residualReads,
      lookup, Constraint.residualDim, Res.mk1, isSatisfied, EPS_real, hc]
  simp only [solveInner, hm]
  simp only [List.map_cons, List.map_nil, hn, hsw, runAnalysis]
  show Except.ok _ = Except.ok _
  simp [lint, lintOne, maxPriority, enumerate, rq, List.zipIdx]

end Run

/-- The union's request list: "variable 0 is 5" followed by "variable 0 is 7" with its variable id
shifted by 1 (the layout of `unionMany`). -/
def reqsU : List (Constraint ℝ × Nat) := rq 5 ++ (rq 7).map (fun r => (r.1.rename (· + 1), r.2))

/-- The union's guesses: 5 for variable 0, 0 for variable 1. -/
def guessU : List (Nat × ℝ) := [(0, 5)] ++ [((0 : Nat), (0 : ℝ))].map (fun lv => (lv.1 + 1, lv.2))

/-- The union's request list is "variable 0 is 5, variable 1 is 7", its guesses `0 ↦ 5, 1 ↦ 0`, and
it is the `unionMany` of the two groups. -/
theorem reqsU_eq : reqsU = [((.fixed 0 5 : Constraint ℝ), 0), ((.fixed 1 7 : Constraint ℝ), 0)] ∧
    guessU = [(0, 5), (1, 0)] ∧
    unionMany [(rq 5, 1, [(0, 5)]), (rq 7, 1, [(0, 0)])] = (reqsU, 2, guessU) := by
  refine ⟨rfl, rfl, ?_⟩
  simp [unionMany, union2, reqsU, guessU, rq, Constraint.rename]

/-- The union's enumerated requests are the union of `UnequalEx.g1` and `UnequalEx.g2`. -/
theorem enumerate_reqsU : enumerate reqsU = unionEntries 1 g1 g2 := rfl

/-- **A genuinely unequal run through the public entry point** (two `Fixed`-only groups, no
convergence radii).  Tolerances `1e-5`, 30 rounds; `s` an exact `1 × 1` solver and `sU` an exact
`2 × 2` solver with the code's damping `1e-9`, both always answering.

* Group 1 "variable 0 is 5" guessed at 5: `solve` succeeds with ZERO iterations, value `[5]`.
* Group 2 "variable 0 is 7" guessed at 0: `solve` succeeds with ONE iteration, value `[7/(1+1e-9)]`.
* The union (group 2's variable renumbered to 1) guessed at `[5, 0]`: `solve` succeeds with ONE
  iteration — the larger of the two — and values `[5, 7/(1+1e-9)]`; nothing is unsatisfied.

So the union ran one round more than group 1 alone; group 1's block received one free round (a zero
step) and its value is unchanged; block by block the union's values are the solo values, hence within
the bound `2·(1/2)^(solo iterations)·‖guess − solution‖` of
`solveWithPriority_unionMany_unequal_partial` (both differences are 0). -/
theorem unequal_entry_run
    (s sU : Nat → List (Triplet ℝ) → List ℝ → Except SolveError (List ℝ))
    (hs : ExactSolve s 1 1 (fun _ => (1e-9 : ℝ))) (htot : ∀ k jac r, ∃ d, s k jac r = .ok d)
    (hU : ExactSolve sU (1 + 1) (1 + 1) (fun _ => (1e-9 : ℝ)))
    (htotU : ∀ k jac r, ∃ d, sU k jac r = .ok d) :
    solveWithPriority (rq 5) [(0, 5)] cfg (fun _ => s) none = .ok ⟨[], [5], 0, [], 0, none⟩ ∧
    solveWithPriority (rq 7) [(0, 0)] cfg (fun _ => s) none = .ok ⟨[], [a7], 1, [], 0, none⟩ ∧
    ∃ oU, solveWithPriority reqsU guessU cfg (fun _ => sU) none = .ok oU ∧
      oU.finalValues = [5] ++ [a7] ∧ oU.iterations = 1 ∧ oU.unsatisfied = [] ∧
      oU.prioritySolved = 0 ∧
      ‖pointOf 1 [5] - pointOf 1 [5]‖ ≤ 2 * (1 / 2) ^ 0 * ‖pointOf 1 [5] - pointOf 1 [5]‖ ∧
      ‖pointOf 1 [a7] - pointOf 1 [a7]‖ ≤ 2 * (1 / 2) ^ 1 * ‖pointOf 1 [0] - pointOf 1 [7]‖ := by
  have hB : BlockSolve sU s s 1 1 1 1 := blockSolve_of_exact sU s s 1 1 1 1 (fun _ => 1e-9)
    (fun _ => by norm_num) hU hs hs (fun k jac r _ _ => htotU k jac r)
  refine ⟨(lrun_solved 5 s).solved, ?_, ?_⟩
  · rw [solveWithPriority_single_level _ _ _ _ none 0 (by simp [rq]) (by simp [rq])]
    exact rq7_solveInner s hs htot
  -- the union's Newton run: round 0 continues, round 1 returns at the residual test
  obtain ⟨wU, h0⟩ := union_next s sU hs htot hB
  obtain ⟨wsU, h1, _, _⟩ := residual_test_union_record g1 g2 cfg sU s s 1 [5] [a7] wU [] []
    (declared_fixed 5 0) _ _ (fx_done_at 5 5 0 1 [] (by norm_num) s) rfl
    (fx_done_at 7 a7 1 1 [] (le_trans a7_close (by norm_num)) s) rfl
  have h1' : newtonStep (unionEntries 1 g1 g2) cfg sU 1 ([5] ++ [a7]) wU = .done
      ⟨[5] ++ [a7], 1, wsU, blockJac (numRows g1) 1 [(0, 0, 1.0)] [(0, 0, 1.0)], true⟩ := h1
  have hn : newton (unionEntries 1 g1 g2) cfg sU (guessU.map (·.2)) = .ok
      ⟨[5] ++ [a7], 1, wsU, blockJac (numRows g1) 1 [(0, 0, 1.0)] [(0, 0, 1.0)], true⟩ := by
    show newtonLoop (unionEntries 1 g1 g2) cfg sU (29 + 1) 0 ([5] ++ [0]) [] = _
    rw [newtonLoop, h0]
    show newtonLoop (unionEntries 1 g1 g2) cfg sU (28 + 1) 1 ([5] ++ [a7]) wU = _
    rw [newtonLoop, h1']
  have hm : modelNew (unionEntries 1 g1 g2) (guessU.map (·.1)) = .ok () := by
    show modelNew [(⟨.fixed 0 5, 0, 0⟩ : Entry ℝ), ⟨.fixed 1 7, 1, 0⟩] [0, 1] = _
    simp [modelNew, validateVariables, firstMissing, Constraint.nonzeroes, pattern, patternFrom,
      takeRows, Constraint.residualDim, List.zipIdx]
  have hc : |a7 - 7| < 1e-4 := lt_of_le_of_lt a7_close (by norm_num)
  have hsw : unsatisfiedSweep (unionEntries 1 g1 g2) (lookup ([5] ++ [a7])) = .ok [] := by
    show unsatisfiedSweep [(⟨.fixed 0 5, 0, 0⟩ : Entry ℝ), ⟨.fixed 1 7, 1, 0⟩] (lookup [5, a7]) = _
    simp [unsatisfiedSweep, Constraint.residual, Constraint.residualV, Constraint.residualReads,
      lookup, Constraint.residualDim, Res.mk1, isSatisfied, EPS_real, hc]
    norm_num
  refine ⟨⟨[], [5] ++ [a7], 1, lint (unionEntries 1 g1 g2) ++ wsU,
    maxPriority (unionEntries 1 g1 g2), none⟩, ?_, rfl, rfl, rfl, ?_, ?_, ?_⟩
  · rw [solveWithPriority_single_level _ _ _ _ none 0 (by simp [reqsU, rq]) (by simp [reqsU, rq]),
      enumerate_reqsU]
    simp only [solveInner, hm, hn, hsw, runAnalysis, Option.map_none]
  · rfl
  · rw [sub_self, norm_zero, mul_zero]
  · rw [sub_self, norm_zero]; positivity

/-- Exact always-answering solvers of the required sizes exist, so `unequal_entry_run` is about
actual runs. -/
example : ∃ (s sU : Nat → List (Triplet ℝ) → List ℝ → Except SolveError (List ℝ)) (oU : Outcome ℝ),
    (solveWithPriority (rq 5) [(0, 5)] cfg (fun _ => s) none).map (·.iterations) = .ok 0 ∧
    (solveWithPriority (rq 7) [(0, 0)] cfg (fun _ => s) none).map (·.iterations) = .ok 1 ∧
    solveWithPriority reqsU guessU cfg (fun _ => sU) none = .ok oU ∧ oU.iterations = 1 ∧
    oU.finalValues = [5, a7] := by
  obtain ⟨s, es, ts⟩ := exists_exactSolve 1 1 (fun _ => (1e-9 : ℝ)) (fun _ => by norm_num)
  obtain ⟨sU, eU, tU⟩ := exists_exactSolve (1 + 1) (1 + 1) (fun _ => (1e-9 : ℝ))
    (fun _ => by norm_num)
  obtain ⟨h1, h2, oU, h3, h4, h5, _⟩ := unequal_entry_run s sU es ts eU tU
  exact ⟨s, sU, oU, by rw [h1]; rfl, by rw [h2]; rfl, h3, h5, h4⟩

end UnequalEntryEx

/-! ### 4. Non-vacuity of the verdict and position theorems: three groups -/

namespace ManyEx
open UnequalEx

/-- **The hypotheses of `solveWithPriority_unionMany_unequal_verdicts_partial` (including the
verdict hypothesis) and of `solveWithPriority_unionMany_unequal_positions_partial` are consistent**:
the three runs "variable is 5", "… 7", "… 9" of `Real/UnionUnequalMany.lean` (each guessed at its
solution, exact solvers with damping `1e-9`).  The union's unsatisfied list is `unsatMany`, and the
union's value at index `1 + 0` is the value of the middle run's block. -/
example : ∃ (Ls : List LRun) (solveU : LinSolve ℝ) (oU : Outcome ℝ), Ls.length = 3 ∧
    (∀ L ∈ Ls, L.Ok 1e-9 cfg) ∧ (∀ L ∈ Ls, L.Solved 0 cfg) ∧
    solveWithPriority (unionRuns (Ls.map (·.toGroupRun))).1
      (unionRuns (Ls.map (·.toGroupRun))).2.2 cfg solveU none = .ok oU ∧
    (∃ zs : List (List ℝ), oU.finalValues = zs.flatten ∧
      List.Forall₂ (fun L z => ∀ e ∈ enumerate L.reqs,
        satisfiedAt e (lookup z) = satisfiedAt e (lookup L.o.finalValues)) Ls zs) ∧
    oU.unsatisfied = unsatMany (Ls.map (·.toGroupRun)) ∧
    ∃ z : List ℝ, z.length = 1 ∧ oU.finalValues[1 + 0]? = z[0]? ∧
      ∃ a b, oU.finalValues[1 + 0]? = some a ∧ (7 : ℝ) = b ∧ |a - b| ≤ 0 := by
  obtain ⟨s, es, ts⟩ := exists_exactSolve 1 1 (fun _ => (1e-9 : ℝ)) (fun _ => by norm_num)
  let Ls : List LRun := [lrun 5 s, lrun 7 s, lrun 9 s]
  have hmem : ∀ L ∈ Ls, ∃ v, L = lrun v s := by
    intro L hL
    simp only [Ls, List.mem_cons, List.mem_nil_iff, or_false] at hL
    rcases hL with rfl | rfl | rfl <;> exact ⟨_, rfl⟩
  have hok : ∀ L ∈ Ls, L.Ok 1e-9 cfg := by
    intro L hL; obtain ⟨v, rfl⟩ := hmem L hL; exact lrun_ok v s es ts
  have hso : ∀ L ∈ Ls, L.Solved 0 cfg := by
    intro L hL; obtain ⟨v, rfl⟩ := hmem L hL; exact lrun_solved v s
  obtain ⟨sU, eU, tU⟩ := exists_exactSolve
    (numRows (enumerate (unionRuns (Ls.map (·.toGroupRun))).1))
    (unionRuns (Ls.map (·.toGroupRun))).2.1 (fun _ => (1e-9 : ℝ)) (fun _ => by norm_num)
  have hGok : ∀ G ∈ Ls.map (·.toGroupRun), G.Ok 0 cfg (fun _ => (1e-9 : ℝ)) 0 := by
    intro G hG
    obtain ⟨L, hL, rfl⟩ := List.mem_map.mp hG
    obtain ⟨v, rfl⟩ := hmem L hL
    exact ⟨(lrun_ok v s es ts).ne, (lrun_solved v s).prio,
      fun r hr i hi => declared_fixed v 0 ⟨r.1, 0, r.2⟩ (by
        simp only [lrun, rq, List.mem_singleton] at hr
        subst hr
        simp) i hi,
      rfl, (lrun_solved v s).solved,
      fun r hr => by
        have := (rq_newton v s).symm.trans hr
        injection this with this
        rw [← this],
      rfl, es⟩
  obtain ⟨oU, hoU, _, hiU, _, _, hflag⟩ := solveWithPriority_unionMany_converged 0 cfg
    (fun _ => (1e-9 : ℝ)) (fun _ => by norm_num) 0 (Ls.map (·.toGroupRun)) (by simp [Ls]) hGok
    (fun _ => sU) eU (fun k jac r _ _ => tU k jac r)
  obtain ⟨zs, hz, hF, himp⟩ := solveWithPriority_unionMany_unequal_verdicts_partial 0 1e-9
    (by norm_num) cfg Ls (by simp [Ls]) hok hso (fun _ => sU) eU (fun k jac r _ _ => tU k jac r) oU
    hoU hflag
  have hzs : List.Forall₂ (fun (L : LRun) (z : List ℝ) => z = L.o.finalValues) Ls zs :=
    forall₂_combine hF hF (fun L z hm h _ => by
      obtain ⟨v, rfl⟩ := hmem L hm
      have hfr := h.2.2.1
      rw [hiU] at hfr
      cases hfr
      rfl)
  have hV : List.Forall₂ (fun (L : LRun) (z : List ℝ) => ∀ e ∈ enumerate L.reqs,
      satisfiedAt e (lookup z) = satisfiedAt e (lookup L.o.finalValues)) Ls zs :=
    hzs.imp (fun L z h e _ => by rw [h])
  obtain ⟨z, hzl, _, _, hd, _, hpos⟩ := solveWithPriority_unionMany_unequal_positions_partial 0 1e-9
    (by norm_num) cfg Ls (by simp [Ls]) hok hso (fun _ => sU) eU (fun k jac r _ _ => tU k jac r) oU
    hoU hflag [lrun 5 s] [lrun 9 s] (lrun 7 s) rfl
  obtain ⟨h1, a, b, ha, hb, hab⟩ := hpos 0 (by show 0 < 1; omega)
  refine ⟨Ls, fun _ => sU, oU, rfl, hok, hso, hoU, ⟨zs, hz, hV⟩, himp hV, z, hzl, h1, a, 7, ha, rfl,
    ?_⟩
  have hb7 : b = 7 := by
    have : (lrun 7 s).o.finalValues[0]? = some (7 : ℝ) := rfl
    rw [this] at hb
    injection hb with hb
    exact hb.symm
  rw [hb7] at hab
  refine le_trans hab ?_
  show 2 * (1 / 2 : ℝ) ^ 0 * ‖pointOf 1 [7] - pointOf 1 [7]‖ ≤ 0
  rw [sub_self, norm_zero, mul_zero]

end ManyEx

end Ezpz
