/-
C17 when the groups need DIFFERENT numbers of rounds.

`Real/Union.lean` proves that while both groups keep iterating the union's values are the
concatenation of the groups' values, and `Real/UnionMany.lean` reaches the entry point under the
restriction that all groups report the same iteration count.  Here: group 1 is done after `j1`
rounds, group 2 after `j2 ≥ j1` rounds.  The union runs `j2` rounds, so group 1's variables receive
`j2 − j1` extra exact damped rounds computed from group 1's data only.

* `extra_rounds_close` (one group): near a regular zero `xs`, the values after `j` and after `j' ≥ j`
  continuing rounds differ by at most `2 · (1/2)^j ‖x − xs‖`.
* `FreeStep` / `FreeRun`: rounds of a group computed from its own data (residual, Jacobian, its
  solver's step, `applyStep`) with BOTH stopping tests ignored — what the union does to a group's
  block, because in the union the stopping tests are global.
* `union_next_blocks`, `union_run_blocks`, `union_run_blocks2`: a CONTINUING round of the union
  advances each block by a free round of its own group (from `union_values_split` and the inversion
  lemmas of `Proofs/Union.lean`); no solo run of group 1 is needed, only that its solver answers.
* `union_unequal_rounds_partial` (executed rounds): the union's run of `j2` continuing rounds has on
  group 2's variables exactly group 2's solo values and on group 1's variables group 1's solo values
  advanced by `j2 − j1` free rounds, within `2 · (1/2)^j1 ‖x1 − xs1‖` of group 1's solo values (and
  within `(1/2)^j2 ‖x1 − xs1‖` of `xs1`).  That the union continues for `j2` rounds is a hypothesis:
  the union's step test is global (`step_test_is_global`) and may stop it earlier.
* `union_unequal_rounds_loop_partial` (results of `newtonLoop`): if the two solo loops and the
  union's loop all return at the residual test, then — with NO assumption relating the three
  iteration counts — neither solo count exceeds the union's, and each block of the union's result is
  the group's solo result advanced by the missing free rounds, within
  `2 · (1/2)^(solo rounds) ‖xi − xsi‖` of the solo result.
* `UnequalEx`: a concrete run with `j1 = 0 < j2 = 1` meeting every hypothesis.

Not done: the entry point `solveWithPriority` (needs `solveInner`'s lint/sweep/freedom analysis on
the union as in `Real/UnionEntry.lean`, whose `unsatisfied` list is computed at `z1 ++ z2`, not at
the solo values), and a union that returns at the step test.  For `k` groups: `unionMany`
(`Real/UnionMany.lean`) is an iterated `unionEntries`, so apply `union_run_blocks2` with "group 1" :=
the union of the first `k − 1` groups; the one missing lemma is that a `FreeStep` of
`unionEntries n1 es1 es2` at `x1 ++ x2` is the concatenation of the groups' `FreeStep`s (immediate
from `residualAll_union_ok_inv`, `jacobianAll_union_ok_inv`, `BlockSolve` and `applyStep_append`),
after which `FreeRun` of the `k`-fold union splits into the `k` groups' `FreeRun`s and
`extra_free_rounds_close` bounds every block separately.
-/
import Ezpz.Real.Union
import Ezpz.Real.UnionEntry
import Ezpz.Real.FDerivEntry3
namespace Ezpz
open Transc Matrix Topology

/-! ### 1. One group: extra rounds move the values little -/

/-- Triangle inequality through the solution for two iterates of a map that halves the distance to
`xs` every round. -/
theorem iterate_close {E : Type} [SeminormedAddCommGroup E] (a b xs : E) (D : ℝ) (j j' : Nat)
    (hjj : j ≤ j') (hD : 0 ≤ D) (ha : ‖a - xs‖ ≤ (1 / 2) ^ j * D) (hb : ‖b - xs‖ ≤ (1 / 2) ^ j' * D) :
    ‖b - a‖ ≤ 2 * (1 / 2) ^ j * D := by
  have hpow : ((1 : ℝ) / 2) ^ j' ≤ (1 / 2) ^ j :=
    pow_le_pow_of_le_one (by norm_num) (by norm_num) hjj
  have h1 : ‖b - a‖ ≤ ‖b - xs‖ + ‖a - xs‖ := by
    have : b - a = (b - xs) - (a - xs) := by abel
    rw [this]; exact norm_sub_le _ _
  have h2 : (1 / 2 : ℝ) ^ j' * D ≤ (1 / 2) ^ j * D := mul_le_mul_of_nonneg_right hpow hD
  linarith

/-- **Extra rounds move a group's values by at most twice the earlier error bound** (one group).
Hypotheses: those of `model_newtonRun_C02_3` — `es` with ids `< n` (`Declared`), every request
regular at `xs` (`RegularAt3`), `xs` a zero of the model's residual map, `0 < lam < c ≤ σ_min(J)²`.
There is `ρ > 0` such that for every start `x` of `n` values within `ρ` of `xs`, and two runs of
continuing rounds from `x` — `j` rounds reaching `y`, `j' ≥ j` rounds reaching `y'`; the two runs
may use different configurations, exact solvers (damping `lam`), starting round numbers and incoming
warnings — `‖y' − y‖ ≤ 2 · (1/2)^j ‖x − xs‖`.  (Triangle inequality through `xs`.)  Nothing is
claimed about when the stopping tests fire. -/
theorem extra_rounds_close (es : List (Entry ℝ)) (n : Nat) (hd : Declared es n)
    (xs : EuclideanSpace ℝ (Fin n)) (hk : ∀ e ∈ es, RegularAt3 e.c (asg n xs))
    (hxs : rOf es n xs = 0) (lam c : ℝ) (hlam : 0 < lam) (hc : lam < c)
    (hJ : ∀ v : Fin n → ℝ, c * (v ⬝ᵥ v) ≤ (JOf es n xs *ᵥ v) ⬝ᵥ (JOf es n xs *ᵥ v)) :
    ∃ ρ : ℝ, 0 < ρ ∧
      ∀ (cfg cfg' : Config ℝ)
        (solve solve' : Nat → List (Triplet ℝ) → List ℝ → Except SolveError (List ℝ)),
        ExactSolve solve (numRows es) n (fun _ => lam) →
        ExactSolve solve' (numRows es) n (fun _ => lam) →
        ∀ (x : List ℝ), x.length = n → ‖pointOf n x - xs‖ ≤ ρ →
        ∀ (j j' k k' : Nat) (ws ws' : List (Warning ℝ)) (y y' : List ℝ) (wy wy' : List (Warning ℝ)),
          j ≤ j' →
          newtonRun es cfg solve j k x ws = some (y, wy) →
          newtonRun es cfg' solve' j' k' x ws' = some (y', wy') →
          ‖pointOf n y' - pointOf n y‖ ≤ 2 * (1 / 2) ^ j * ‖pointOf n x - xs‖ := by
  obtain ⟨ρ, hρ, hrun⟩ := model_newtonRun_C02_3 es n hd xs hk hxs lam c hlam hc hJ
  refine ⟨ρ, hρ, ?_⟩
  intro cfg cfg' solve solve' hS hS' x hx hx0 j j' k k' ws ws' y y' wy wy' hjj h h'
  exact iterate_close _ _ xs _ j j' hjj (norm_nonneg _)
    (hrun cfg solve hS x hx hx0 j k ws y wy h).1 (hrun cfg' solve' hS' x hx hx0 j' k' ws' y' wy' h').1

/-! ### 2. Rounds of a group with its stopping tests ignored -/

section Free
variable (es : List (Entry ℝ))
  (solve : Nat → List (Triplet ℝ) → List ℝ → Except SolveError (List ℝ))

/-- **One round of a group computed from its own data, both stopping tests ignored**: residual and
Jacobian evaluate at `x`, the group's solver answers a step `d` with one component per variable, and
`x' = applyStep x d`.  (This is `GroupRound` of `Proofs/Union.lean` plus the new values; it includes
`Declared es x.length`.)  Neither the residual test nor the step test is consulted: this is how the
union treats a group's block, because the union's tests are global. -/
def FreeStep (k : Nat) (x x' : List ℝ) : Prop :=
  ∃ r wr jac wj d, GroupRound es solve k x r wr jac wj d ∧ x' = applyStep x d

/-- `j` rounds of a group from its own data with both stopping tests ignored, starting at round
number `k`. -/
inductive FreeRun : Nat → Nat → List ℝ → List ℝ → Prop
  | zero (k : Nat) (x : List ℝ) : FreeRun 0 k x x
  | succ (j k : Nat) (x x' y : List ℝ) : FreeStep es solve k x x' → FreeRun j (k + 1) x' y →
      FreeRun (j + 1) k x y

variable {es solve}

/-- A free round keeps the number of values. -/
theorem FreeStep.length {k : Nat} {x x' : List ℝ} (h : FreeStep es solve k x x') :
    x'.length = x.length := by
  obtain ⟨r, wr, jac, wj, d, g, rfl⟩ := h
  exact applyStep_length x d g.hlen

/-- Free rounds keep the number of values. -/
theorem FreeRun.length {j k : Nat} {x y : List ℝ} (h : FreeRun es solve j k x y) :
    y.length = x.length := by
  induction h with
  | zero => rfl
  | succ j k x x' y hs _ ih => rw [ih, hs.length]

/-- A free round is determined by the group's data. -/
theorem FreeStep.unique {k : Nat} {x a b : List ℝ} (ha : FreeStep es solve k x a)
    (hb : FreeStep es solve k x b) : a = b := by
  obtain ⟨r, wr, jac, wj, d, g, rfl⟩ := ha
  obtain ⟨r', wr', jac', wj', d', g', rfl⟩ := hb
  have h1 := g.hres.symm.trans g'.hres
  have h2 := g.hjac.symm.trans g'.hjac
  simp only [Except.ok.injEq, Prod.mk.injEq] at h1 h2
  obtain ⟨rfl, rfl⟩ := h1
  obtain ⟨rfl, rfl⟩ := h2
  have h3 := g.hstep.symm.trans g'.hstep
  simp only [Except.ok.injEq] at h3
  rw [h3]

/-- Free rounds are determined by the group's data. -/
theorem FreeRun.unique {j k : Nat} {x a b : List ℝ} (ha : FreeRun es solve j k x a)
    (hb : FreeRun es solve j k x b) : a = b := by
  induction ha with
  | zero => cases hb; rfl
  | succ j k x x' y hs _ ih =>
    cases hb with
    | succ _ _ _ x'' _ hs' hr' =>
      have := hs.unique hs'
      subst this
      exact ih hr'

/-- `a + b` free rounds are `a` free rounds followed by `b` free rounds. -/
theorem FreeRun.split : ∀ (a b k : Nat) (x z : List ℝ), FreeRun es solve (a + b) k x z →
    ∃ y, FreeRun es solve a k x y ∧ FreeRun es solve b (k + a) y z := by
  intro a
  induction a with
  | zero =>
    intro b k x z h
    exact ⟨x, .zero k x, by simpa using h⟩
  | succ a ih =>
    intro b k x z h
    have e : a + 1 + b = (a + b) + 1 := by omega
    rw [e] at h
    cases h with
    | succ _ _ _ x' _ hs hr =>
      obtain ⟨y, h1, h2⟩ := ih b (k + 1) x' z hr
      refine ⟨y, .succ a k x x' y hs h1, ?_⟩
      have e2 : k + (a + 1) = k + 1 + a := by omega
      rw [e2]; exact h2

variable (es solve)

/-- **A continuing round of the model's `newtonStep` is a free round** (for declared ids): the
model's round that continues computes exactly the group's data and applies the solver's step. -/
theorem freeStep_of_next (cfg : Config ℝ) (k : Nat) (x x' : List ℝ) (ws ws' : List (Warning ℝ))
    (hd : Declared es x.length) (h : newtonStep es cfg solve k x ws = .next x' ws') :
    FreeStep es solve k x x' := by
  obtain ⟨r, wr, jac, wj, m, d, hr, hj, _, _, hs, hlen, _, _, rfl, _⟩ :=
    newtonStep_next_inv es cfg solve k x ws x' ws' h
  exact ⟨r, wr, jac, wj, d, ⟨hd, hr, hj, hs, hlen⟩, rfl⟩

/-- **`j` continuing rounds of the model's loop are `j` free rounds.** -/
theorem freeRun_of_run (cfg : Config ℝ) (n : Nat) (hd : Declared es n) :
    ∀ (j k : Nat) (x : List ℝ) (ws : List (Warning ℝ)) (y : List ℝ) (wy : List (Warning ℝ)),
      x.length = n → newtonRun es cfg solve j k x ws = some (y, wy) → FreeRun es solve j k x y := by
  intro j
  induction j with
  | zero =>
    intro k x ws y wy _ h
    simp only [newtonRun, Option.some.injEq, Prod.mk.injEq] at h
    obtain ⟨rfl, rfl⟩ := h
    exact .zero k x
  | succ j ih =>
    intro k x ws y wy hx h
    unfold newtonRun at h
    split at h
    · rename_i x' ws' hs
      have hl := newtonStep_next_length es cfg solve k x x' ws ws' hs
      exact .succ j k x x' y (freeStep_of_next es solve cfg k x x' ws ws' (by rw [hx]; exact hd) hs)
        (ih (k + 1) x' ws' y wy (by rw [hl, hx]) h)
    · simp at h

/-- **A free round with an exact solver is one application of `gnMap`** (the stopping tests play no
role in `newtonStep_eq_gnMap`). -/
theorem freeStep_eq_gnMap (n : Nat) (lam : Nat → ℝ) (hS : ExactSolve solve (numRows es) n lam)
    (k : Nat) (hlam : 0 < lam k) (x x' : List ℝ) (hx : x.length = n)
    (h : FreeStep es solve k x x') :
    x'.length = n ∧ pointOf n x' = gnMap es n (lam k) (pointOf n x) := by
  obtain ⟨r, wr, jac, wj, d, g, rfl⟩ := h
  obtain ⟨hdn, hstep⟩ := hS k jac r d g.hstep
  refine ⟨by rw [applyStep_length x d g.hlen, hx], ?_⟩
  have hstep' : GN.IsStep (JOf es n (pointOf n x)) (rOf es n (pointOf n x)).ofLp (lam k)
      (vecOf n d) := by
    rw [rOf_eq es n (pointOf n x) r wr (by rw [coordList_pointOf n x hx]; exact g.hres),
      JOf_eq es n (pointOf n x) jac wj (by rw [coordList_pointOf n x hx]; exact g.hjac)]
    exact hstep
  have hd := (GN.step_iff_eq_inv _ _ _ hlam _).mp hstep'
  apply (WithLp.ofLp_injective 2)
  unfold gnMap
  rw [WithLp.ofLp_sub, GN.euclCLM_apply]
  show vecOf n (applyStep x d) = vecOf n x - _
  rw [vecOf_applyStep n x d hx hdn, sub_eq_add_neg, ← hd]

/-- **Free rounds with an exact solver of constant damping are iterates of `gnMap`.** -/
theorem freeRun_eq_iterate (n : Nat) (lam : ℝ) (hlam : 0 < lam)
    (hS : ExactSolve solve (numRows es) n (fun _ => lam)) {j k : Nat} {x y : List ℝ}
    (h : FreeRun es solve j k x y) (hx : x.length = n) :
    y.length = n ∧ pointOf n y = (gnMap es n lam)^[j] (pointOf n x) := by
  induction h with
  | zero => exact ⟨hx, rfl⟩
  | succ j k x x' y hs _ ih =>
    obtain ⟨hx', hp⟩ := freeStep_eq_gnMap es solve n (fun _ => lam) hS k hlam x x' hx hs
    obtain ⟨hy, hpy⟩ := ih hx'
    exact ⟨hy, by rw [hpy, hp, Function.iterate_succ_apply]⟩

/-- `a + b` continuing rounds of the model's loop are `a` continuing rounds followed by `b`. -/
theorem newtonRun_split (cfg : Config ℝ) : ∀ (a b k : Nat) (x : List ℝ) (ws : List (Warning ℝ))
    (z : List ℝ) (wz : List (Warning ℝ)), newtonRun es cfg solve (a + b) k x ws = some (z, wz) →
    ∃ y wy, newtonRun es cfg solve a k x ws = some (y, wy) ∧
      newtonRun es cfg solve b (k + a) y wy = some (z, wz) := by
  intro a
  induction a with
  | zero =>
    intro b k x ws z wz h
    exact ⟨x, ws, rfl, by simpa using h⟩
  | succ a ih =>
    intro b k x ws z wz h
    have e : a + 1 + b = (a + b) + 1 := by omega
    rw [e] at h
    unfold newtonRun at h
    split at h
    · rename_i x' ws' hs
      obtain ⟨y, wy, h1, h2⟩ := ih b (k + 1) x' ws' z wz h
      refine ⟨y, wy, ?_, ?_⟩
      · rw [newtonRun, hs]; exact h1
      · have e2 : k + (a + 1) = k + 1 + a := by omega
        rw [e2]; exact h2
    · simp at h

/-- **A solo run cannot continue past a round where the group's own round returns**: if the group
alone continues for `j` rounds from `x`, and after `jU` free rounds from `x` (values `z`) the group's
own round number `k + jU` returns (whatever the incoming warnings), then `j ≤ jU`. -/
theorem run_le_of_free_done (cfg : Config ℝ) (n : Nat) (hd : Declared es n) (j jU k : Nat)
    (x : List ℝ) (ws : List (Warning ℝ)) (y z : List ℝ) (wy : List (Warning ℝ)) (hx : x.length = n)
    (hrun : newtonRun es cfg solve j k x ws = some (y, wy)) (hfree : FreeRun es solve jU k x z)
    (hdone : ∀ ws', ∃ res, newtonStep es cfg solve (k + jU) z ws' = .done res) : j ≤ jU := by
  by_contra hlt
  have e : j = jU + ((j - jU - 1) + 1) := by omega
  rw [e] at hrun
  obtain ⟨y', wy', h1, h2⟩ := newtonRun_split es solve cfg jU _ k x ws y wy hrun
  have hy' : z = y' := hfree.unique (freeRun_of_run es solve cfg n hd jU k x ws y' wy' hx h1)
  subst hy'
  obtain ⟨res, hres⟩ := hdone wy'
  unfold newtonRun at h2
  rw [hres] at h2
  simp at h2

end Free

/-! ### 3. The union's continuing rounds, block by block -/

section UnionBlocks
variable (es1 es2 : List (Entry ℝ)) (cfg : Config ℝ)
  (solveU solve1 solve2 : Nat → List (Triplet ℝ) → List ℝ → Except SolveError (List ℝ))

/-- "The solver answers on in-range data": for a right-hand side with `R` entries and contributions
with rows `< R` and columns `< n` it returns some step (no claim which). -/
def AnswersInRange (solve : Nat → List (Triplet ℝ) → List ℝ → Except SolveError (List ℝ))
    (R n : Nat) : Prop :=
  ∀ k jac r, r.length = R → (∀ t ∈ jac, t.1 < R ∧ t.2.1 < n) → ∃ d, solve k jac r = .ok d

/-- **One continuing round of the union, seen from the groups.**  Hypotheses: both groups declared,
`BlockSolve`, group 1's solver answers on in-range data with a step of `n1` components
(`AnswersInRange`, and `hlen1` — exact solvers satisfy it), group 2's free round from `x2` gives
`x2'`.  If the union's round from `x1 ++ x2` CONTINUES to `xU'`, then group 1 has a free round from
`x1` to some `x1'` and `xU' = x1' ++ x2'`: each block is advanced by its own group's data, whatever
the groups' own stopping tests would have said. -/
theorem union_next_blocks (n1 n2 : Nat) (hd1 : Declared es1 n1) (hd2 : Declared es2 n2)
    (hB : BlockSolve solveU solve1 solve2 (numRows es1) (numRows es2) n1 n2)
    (hA1 : AnswersInRange solve1 (numRows es1) n1)
    (hlen1 : ∀ k jac r d, solve1 k jac r = .ok d → d.length = n1)
    (k : Nat) (x1 x2 : List ℝ) (ws : List (Warning ℝ)) (xU' : List ℝ) (wsU' : List (Warning ℝ))
    (hx1 : x1.length = n1) (hx2 : x2.length = n2) (x2' : List ℝ)
    (h2 : FreeStep es2 solve2 k x2 x2')
    (hU : newtonStep (unionEntries n1 es1 es2) cfg solveU k (x1 ++ x2) ws = .next xU' wsU') :
    ∃ x1', FreeStep es1 solve1 k x1 x1' ∧ xU' = x1' ++ x2' := by
  subst hx1 hx2
  obtain ⟨r, wr, jac, wj, m, d, hr, hj, _⟩ := newtonStep_next_inv _ cfg solveU k _ ws xU' wsU' hU
  obtain ⟨r1, wr1, r2, wr2, hr1, _, _, _⟩ := residualAll_union_ok_inv es1 es2 x1 x2 hd1 r wr hr
  obtain ⟨t1, wj1, t2, wj2, hj1, _, _, _⟩ := jacobianAll_union_ok_inv es1 es2 x1 x2 hd1 jac wj hj
  obtain ⟨d1, hs1⟩ := hA1 k t1 r1 (residualAll_length _ es1 r1 wr1 hr1)
    (jacobianAll_in_range es1 _ _ hd1 t1 wj1 hj1)
  have g1 : GroupRound es1 solve1 k x1 r1 wr1 t1 wj1 d1 :=
    ⟨hd1, hr1, hj1, hs1, hlen1 k t1 r1 d1 hs1⟩
  obtain ⟨r2', wr2', t2', wj2', d2, g2, rfl⟩ := h2
  refine ⟨applyStep x1 d1, ⟨r1, wr1, t1, wj1, d1, g1, rfl⟩, ?_⟩
  exact (union_values_split es1 es2 cfg solveU solve1 solve2 k x1 x2 ws r1 r2' wr1 wr2' t1 t2'
    wj1 wj2' d1 d2 g1 g2 hB).1 xU' wsU' hU

/-- **`j` continuing rounds of the union, seen from the groups**: under the hypotheses of
`union_next_blocks`, if group 2 has `j` free rounds from `x2` to `y2` and the union continues for
`j` rounds from `x1 ++ x2` to `yU`, then group 1 has `j` free rounds from `x1` to some `z1` and
`yU = z1 ++ y2`. -/
theorem union_run_blocks (n1 n2 : Nat) (hd1 : Declared es1 n1) (hd2 : Declared es2 n2)
    (hB : BlockSolve solveU solve1 solve2 (numRows es1) (numRows es2) n1 n2)
    (hA1 : AnswersInRange solve1 (numRows es1) n1)
    (hlen1 : ∀ k jac r d, solve1 k jac r = .ok d → d.length = n1)
    {j k : Nat} {x2 y2 : List ℝ} (h2 : FreeRun es2 solve2 j k x2 y2) :
    ∀ (x1 : List ℝ) (ws : List (Warning ℝ)) (yU : List ℝ) (wU : List (Warning ℝ)),
      x1.length = n1 → x2.length = n2 →
      newtonRun (unionEntries n1 es1 es2) cfg solveU j k (x1 ++ x2) ws = some (yU, wU) →
      ∃ z1, FreeRun es1 solve1 j k x1 z1 ∧ yU = z1 ++ y2 := by
  induction h2 with
  | zero k x2 =>
    intro x1 ws yU wU _ _ h
    simp only [newtonRun, Option.some.injEq, Prod.mk.injEq] at h
    exact ⟨x1, .zero k x1, h.1.symm⟩
  | succ j k x2 x2' y2 hs2 _ ih =>
    intro x1 ws yU wU hx1 hx2 h
    unfold newtonRun at h
    split at h
    · rename_i xU' wsU' hU
      obtain ⟨x1', hs1, rfl⟩ := union_next_blocks es1 es2 cfg solveU solve1 solve2 n1 n2 hd1 hd2 hB
        hA1 hlen1 k x1 x2 ws xU' wsU' hx1 hx2 x2' hs2 hU
      obtain ⟨z1, hr1, hz⟩ := ih x1' wsU' yU wU (by rw [hs1.length, hx1]) (by rw [hs2.length, hx2]) h
      exact ⟨z1, .succ j k x1 x1' z1 hs1 hr1, hz⟩
    · simp at h

/-- From a continuing round of the union, group 2 has a free round (symmetric to the group-1 part
of `union_next_blocks`): group 2's solver answers on in-range data with steps of `n2` components. -/
theorem freeStep2_of_union_next (n1 n2 : Nat) (hd1 : Declared es1 n1) (hd2 : Declared es2 n2)
    (hA2 : AnswersInRange solve2 (numRows es2) n2)
    (hlen2 : ∀ k jac r d, solve2 k jac r = .ok d → d.length = n2)
    (k : Nat) (x1 x2 : List ℝ) (ws : List (Warning ℝ)) (xU' : List ℝ) (wsU' : List (Warning ℝ))
    (hx1 : x1.length = n1) (hx2 : x2.length = n2)
    (hU : newtonStep (unionEntries n1 es1 es2) cfg solveU k (x1 ++ x2) ws = .next xU' wsU') :
    ∃ x2', FreeStep es2 solve2 k x2 x2' := by
  subst hx1 hx2
  obtain ⟨r, wr, jac, wj, m, d, hr, hj, _⟩ := newtonStep_next_inv _ cfg solveU k _ ws xU' wsU' hU
  obtain ⟨r1, wr1, r2, wr2, _, hr2, _, _⟩ := residualAll_union_ok_inv es1 es2 x1 x2 hd1 r wr hr
  obtain ⟨t1, wj1, t2, wj2, _, hj2, _, _⟩ := jacobianAll_union_ok_inv es1 es2 x1 x2 hd1 jac wj hj
  obtain ⟨d2, hs2⟩ := hA2 k t2 r2 (residualAll_length _ es2 r2 wr2 hr2)
    (jacobianAll_in_range es2 _ _ hd2 t2 wj2 hj2)
  exact ⟨applyStep x2 d2, r2, wr2, t2, wj2, d2, ⟨hd2, hr2, hj2, hs2, hlen2 k t2 r2 d2 hs2⟩, rfl⟩

/-- **`j` continuing rounds of the union split into free rounds of both groups** (no solo run of
either group is assumed): `BlockSolve`, both groups declared, both groups' solvers answer on
in-range data with steps of the right length.  If the union continues for `j` rounds from
`x1 ++ x2` to `yU`, then `yU = z1 ++ z2` with `z1`, `z2` the results of `j` free rounds of group 1
from `x1` and of group 2 from `x2`. -/
theorem union_run_blocks2 (n1 n2 : Nat) (hd1 : Declared es1 n1) (hd2 : Declared es2 n2)
    (hB : BlockSolve solveU solve1 solve2 (numRows es1) (numRows es2) n1 n2)
    (hA1 : AnswersInRange solve1 (numRows es1) n1)
    (hlen1 : ∀ k jac r d, solve1 k jac r = .ok d → d.length = n1)
    (hA2 : AnswersInRange solve2 (numRows es2) n2)
    (hlen2 : ∀ k jac r d, solve2 k jac r = .ok d → d.length = n2) :
    ∀ (j k : Nat) (x1 x2 : List ℝ) (ws : List (Warning ℝ)) (yU : List ℝ) (wU : List (Warning ℝ)),
      x1.length = n1 → x2.length = n2 →
      newtonRun (unionEntries n1 es1 es2) cfg solveU j k (x1 ++ x2) ws = some (yU, wU) →
      ∃ z1 z2, FreeRun es1 solve1 j k x1 z1 ∧ FreeRun es2 solve2 j k x2 z2 ∧ yU = z1 ++ z2 := by
  intro j
  induction j with
  | zero =>
    intro k x1 x2 ws yU wU _ _ h
    simp only [newtonRun, Option.some.injEq, Prod.mk.injEq] at h
    exact ⟨x1, x2, .zero k x1, .zero k x2, h.1.symm⟩
  | succ j ih =>
    intro k x1 x2 ws yU wU hx1 hx2 h
    unfold newtonRun at h
    split at h
    · rename_i xU' wsU' hU
      obtain ⟨x2', hs2⟩ := freeStep2_of_union_next es1 es2 cfg solveU solve2 n1 n2 hd1 hd2 hA2 hlen2
        k x1 x2 ws xU' wsU' hx1 hx2 hU
      obtain ⟨x1', hs1, rfl⟩ := union_next_blocks es1 es2 cfg solveU solve1 solve2 n1 n2 hd1 hd2 hB
        hA1 hlen1 k x1 x2 ws xU' wsU' hx1 hx2 x2' hs2 hU
      obtain ⟨z1, z2, hr1, hr2, hz⟩ :=
        ih (k + 1) x1' x2' wsU' yU wU (by rw [hs1.length, hx1]) (by rw [hs2.length, hx2]) h
      exact ⟨z1, z2, .succ j k x1 x1' z1 hs1 hr1, .succ j k x2 x2' z2 hs2 hr2, hz⟩
    · simp at h

end UnionBlocks

/-! ### 4. Two groups that need different numbers of rounds -/

/-- **C17 with unequal round counts, at the level of the executed rounds** (two groups; `_partial`:
not yet the entry point `solveWithPriority`).

Hypotheses.  Group 1: `es1` with ids `< n1` (`Declared`), every request regular at `xs1`
(`RegularAt3`), `xs1` a zero of group 1's residual map, `0 < lam < c ≤ σ_min(J1(xs1))²` — the
hypotheses of `model_newtonRun_C02_3`.  Group 2: only `Declared es2 n2` (no regularity).  Solvers:
group 1's solver is exact with damping `lam` (`ExactSolve`) and answers on in-range data
(`AnswersInRange`; both hold for the solvers of `exists_exactSolve`); the three solvers satisfy
`BlockSolve` (`blockSolve_of_exact`: exact solvers with a common positive damping do).  Start: `x1`
(`n1` values) within `ρ` of `xs1`, `x2` (`n2` values) anywhere.  Runs, all with the same
configuration and starting round number `k`:
* group 1 alone continues for `j1` rounds, reaching `y1` (its solo values when its own residual test
  then fires — that the test fires is not used);
* group 2 alone continues for `j2 ≥ j1` rounds, reaching `y2`;
* the union continues for `j2` rounds from `x1 ++ x2`, reaching `yU`.  This is a hypothesis: the
  union's stopping tests are global (`step_test_is_global`), so it is NOT implied by the groups'
  runs — group 1's solo run does not continue beyond `j1`, and the union's step test can fire
  although group 2's does not.  The theorem is about unions that do not stop before round `j2`.

Conclusion: `yU = z1 ++ y2` where the group-2 block is EXACTLY group 2's solo values `y2`, and the
group-1 block `z1` (`n1` values) is group 1's solo values `y1` advanced by `j2 − j1` further rounds
computed from group 1's data only, with group 1's stopping tests ignored
(`FreeRun es1 solve1 (j2 - j1) (k + j1) y1 z1` — this is what "continuing rounds beyond `j1`" means
for group 1 inside the union).  Moreover `‖z1 − y1‖ ≤ 2 · (1/2)^j1 ‖x1 − xs1‖` and
`‖z1 − xs1‖ ≤ (1/2)^j2 ‖x1 − xs1‖`: the union's values for group 1 differ from the solo result by at
most twice the solo run's own error bound, and are at least as close to the exact solution as that
bound. -/
theorem union_unequal_rounds_partial (es1 es2 : List (Entry ℝ)) (n1 n2 : Nat)
    (hd1 : Declared es1 n1) (hd2 : Declared es2 n2)
    (xs1 : EuclideanSpace ℝ (Fin n1)) (hk1 : ∀ e ∈ es1, RegularAt3 e.c (asg n1 xs1))
    (hxs1 : rOf es1 n1 xs1 = 0) (lam c : ℝ) (hlam : 0 < lam) (hc : lam < c)
    (hJ1 : ∀ v : Fin n1 → ℝ, c * (v ⬝ᵥ v) ≤ (JOf es1 n1 xs1 *ᵥ v) ⬝ᵥ (JOf es1 n1 xs1 *ᵥ v)) :
    ∃ ρ : ℝ, 0 < ρ ∧
      ∀ (cfg : Config ℝ)
        (solveU solve1 solve2 : Nat → List (Triplet ℝ) → List ℝ → Except SolveError (List ℝ)),
        ExactSolve solve1 (numRows es1) n1 (fun _ => lam) →
        AnswersInRange solve1 (numRows es1) n1 →
        BlockSolve solveU solve1 solve2 (numRows es1) (numRows es2) n1 n2 →
        ∀ (x1 x2 : List ℝ), x1.length = n1 → x2.length = n2 → ‖pointOf n1 x1 - xs1‖ ≤ ρ →
        ∀ (j1 j2 k : Nat) (ws ws1 ws2 : List (Warning ℝ)) (y1 y2 yU : List ℝ)
          (wy1 wy2 wU : List (Warning ℝ)), j1 ≤ j2 →
          newtonRun es1 cfg solve1 j1 k x1 ws1 = some (y1, wy1) →
          newtonRun es2 cfg solve2 j2 k x2 ws2 = some (y2, wy2) →
          newtonRun (unionEntries n1 es1 es2) cfg solveU j2 k (x1 ++ x2) ws = some (yU, wU) →
          ∃ z1, yU = z1 ++ y2 ∧ z1.length = n1 ∧
            FreeRun es1 solve1 (j2 - j1) (k + j1) y1 z1 ∧
            ‖pointOf n1 z1 - pointOf n1 y1‖ ≤ 2 * (1 / 2) ^ j1 * ‖pointOf n1 x1 - xs1‖ ∧
            ‖pointOf n1 z1 - xs1‖ ≤ (1 / 2) ^ j2 * ‖pointOf n1 x1 - xs1‖ := by
  obtain ⟨ρ, hρ, hball⟩ := model_local_C02_regular3 es1 n1 hd1 xs1 hk1 hxs1 lam c hlam hc hJ1
  refine ⟨ρ, hρ, ?_⟩
  intro cfg solveU solve1 solve2 hS1 hA1 hB x1 x2 hx1 hx2 hx0 j1 j2 k ws ws1 ws2 y1 y2 yU wy1 wy2 wU
    hjj h1 h2 hU
  have hF2 := freeRun_of_run es2 solve2 cfg n2 hd2 j2 k x2 ws2 y2 wy2 hx2 h2
  have hF1 := freeRun_of_run es1 solve1 cfg n1 hd1 j1 k x1 ws1 y1 wy1 hx1 h1
  obtain ⟨z1, hZ, hyU⟩ := union_run_blocks es1 es2 cfg solveU solve1 solve2 n1 n2 hd1 hd2 hB hA1
    (fun k jac r d h => (hS1 k jac r d h).1) hF2 x1 ws yU wU hx1 hx2 hU
  obtain ⟨hz1, hpz⟩ := freeRun_eq_iterate es1 solve1 n1 lam hlam hS1 hZ hx1
  obtain ⟨_, hpy⟩ := freeRun_eq_iterate es1 solve1 n1 lam hlam hS1 hF1 hx1
  have hZ' : FreeRun es1 solve1 (j1 + (j2 - j1)) k x1 z1 := by
    rw [Nat.add_sub_cancel' hjj]; exact hZ
  obtain ⟨y, ha, hb⟩ := FreeRun.split j1 (j2 - j1) k x1 z1 hZ'
  have hy : y = y1 := ha.unique hF1
  subst hy
  refine ⟨z1, hyU, hz1, hb, ?_, ?_⟩
  · rw [hpz, hpy]
    exact iterate_close _ _ xs1 _ j1 j2 hjj (norm_nonneg _) (hball _ hx0 j1).1 (hball _ hx0 j2).1
  · rw [hpz]; exact (hball _ hx0 j2).1

/-- **Item 1 for free rounds**: under the hypotheses of `extra_rounds_close` there is `ρ > 0` such
that for every start `x` (`n` values) within `ρ` of `xs`, if the group alone continues for `j` rounds
to `y` and `jU ≥ j` free rounds (stopping tests ignored) lead from `x` to `z`, then `z` has `n`
values, `z` is `y` advanced by `jU − j` free rounds, `‖z − y‖ ≤ 2 · (1/2)^j ‖x − xs‖` and
`‖z − xs‖ ≤ (1/2)^jU ‖x − xs‖`. -/
theorem extra_free_rounds_close (es : List (Entry ℝ)) (n : Nat) (hd : Declared es n)
    (xs : EuclideanSpace ℝ (Fin n)) (hk : ∀ e ∈ es, RegularAt3 e.c (asg n xs))
    (hxs : rOf es n xs = 0) (lam c : ℝ) (hlam : 0 < lam) (hc : lam < c)
    (hJ : ∀ v : Fin n → ℝ, c * (v ⬝ᵥ v) ≤ (JOf es n xs *ᵥ v) ⬝ᵥ (JOf es n xs *ᵥ v)) :
    ∃ ρ : ℝ, 0 < ρ ∧
      ∀ (cfg : Config ℝ) (solve : Nat → List (Triplet ℝ) → List ℝ → Except SolveError (List ℝ)),
        ExactSolve solve (numRows es) n (fun _ => lam) →
        ∀ (x : List ℝ), x.length = n → ‖pointOf n x - xs‖ ≤ ρ →
        ∀ (j jU k : Nat) (ws : List (Warning ℝ)) (y z : List ℝ) (wy : List (Warning ℝ)), j ≤ jU →
          newtonRun es cfg solve j k x ws = some (y, wy) → FreeRun es solve jU k x z →
          z.length = n ∧ FreeRun es solve (jU - j) (k + j) y z ∧
            ‖pointOf n z - pointOf n y‖ ≤ 2 * (1 / 2) ^ j * ‖pointOf n x - xs‖ ∧
            ‖pointOf n z - xs‖ ≤ (1 / 2) ^ jU * ‖pointOf n x - xs‖ := by
  obtain ⟨ρ, hρ, hball⟩ := model_local_C02_regular3 es n hd xs hk hxs lam c hlam hc hJ
  refine ⟨ρ, hρ, ?_⟩
  intro cfg solve hS x hx hx0 j jU k ws y z wy hjj hrun hZ
  have hF := freeRun_of_run es solve cfg n hd j k x ws y wy hx hrun
  obtain ⟨hz, hpz⟩ := freeRun_eq_iterate es solve n lam hlam hS hZ hx
  obtain ⟨_, hpy⟩ := freeRun_eq_iterate es solve n lam hlam hS hF hx
  have hZ' : FreeRun es solve (j + (jU - j)) k x z := by
    rw [Nat.add_sub_cancel' hjj]; exact hZ
  obtain ⟨y', ha, hb⟩ := FreeRun.split j (jU - j) k x z hZ'
  have hy : y' = y := ha.unique hF
  subst hy
  refine ⟨hz, hb, ?_, ?_⟩
  · rw [hpz, hpy]
    exact iterate_close _ _ xs _ j jU hjj (norm_nonneg _) (hball _ hx0 j).1 (hball _ hx0 jU).1
  · rw [hpz]; exact (hball _ hx0 jU).1

/-- A loop that returns at the residual test: the continuing rounds before the returning round, and
the record (`values` are the values the returning round was entered with, `iterations` its number). -/
theorem newtonLoop_byResidual_run (es : List (Entry ℝ)) (cfg : Config ℝ)
    (solve : Nat → List (Triplet ℝ) → List ℝ → Except SolveError (List ℝ)) (fuel k : Nat)
    (x : List ℝ) (ws : List (Warning ℝ)) (res : NewtonOk ℝ)
    (h : newtonLoop es cfg solve fuel k x ws = .ok res) (hb : res.byResidual = true) :
    ∃ j wy, newtonRun es cfg solve j k x ws = some (res.values, wy) ∧ res.iterations = k + j ∧
      newtonStep es cfg solve (k + j) res.values wy = .done res := by
  obtain ⟨j, y, wy, _, hrun, hdone⟩ := newtonLoop_ok_run es cfg solve fuel k x ws res h
  obtain ⟨r, wr, jac, wj, m, _, _, _, _, hres⟩ :=
    (newtonStep_done_byResidual_iff es cfg solve (k + j) y wy res).mp ⟨hdone, hb⟩
  have hv : res.values = y := by rw [hres]
  have hi : res.iterations = k + j := by rw [hres]
  rw [hv]
  exact ⟨j, wy, hrun, hi, hdone⟩

/-- **C17 with unequal round counts, at the level of the Newton loop's results** (two groups;
`_partial`: the loop `newtonLoop`, not yet the entry point `solveWithPriority`; returns at the
residual test only).

Hypotheses.  Both groups non-empty, declared (`Declared esi ni`), regular at zeros `xsi` of their
residual maps (`RegularAt3`), `0 < lam < ci ≤ σ_min(Ji(xsi))²`.  Solvers: both groups' solvers exact
with damping `lam` (`ExactSolve`) and answering on in-range data (`AnswersInRange`), `BlockSolve` for
the three solvers.  Starts `xi` (`ni` values) within `ρi` of `xsi`.  The three loops — group 1 alone,
group 2 alone, the union from `x1 ++ x2`, same configuration and starting round `k`, any fuel — all
RETURN AT THE RESIDUAL TEST with records `res1`, `res2`, `resU`.  (A union that returns at the step
test is not covered: that test is global, `step_test_is_global`.)  No relation between the three
iteration counts is assumed.

Conclusion: neither group alone needs more rounds than the union
(`resi.iterations ≤ resU.iterations`); `resU.values = z1 ++ z2` where `zi` (`ni` values) is group
`i`'s solo result advanced by `resU.iterations − resi.iterations` free rounds (group `i`'s data only,
its stopping tests ignored); and
`‖zi − resi.values‖ ≤ 2 · (1/2)^(resi.iterations − k) ‖xi − xsi‖`,
`‖zi − xsi‖ ≤ (1/2)^(resU.iterations − k) ‖xi − xsi‖`. -/
theorem union_unequal_rounds_loop_partial (es1 es2 : List (Entry ℝ)) (n1 n2 : Nat)
    (hd1 : Declared es1 n1) (hd2 : Declared es2 n2) (hne1 : es1 ≠ []) (hne2 : es2 ≠ [])
    (xs1 : EuclideanSpace ℝ (Fin n1)) (hk1 : ∀ e ∈ es1, RegularAt3 e.c (asg n1 xs1))
    (hxs1 : rOf es1 n1 xs1 = 0)
    (xs2 : EuclideanSpace ℝ (Fin n2)) (hk2 : ∀ e ∈ es2, RegularAt3 e.c (asg n2 xs2))
    (hxs2 : rOf es2 n2 xs2 = 0)
    (lam c1 c2 : ℝ) (hlam : 0 < lam) (hc1 : lam < c1) (hc2 : lam < c2)
    (hJ1 : ∀ v : Fin n1 → ℝ, c1 * (v ⬝ᵥ v) ≤ (JOf es1 n1 xs1 *ᵥ v) ⬝ᵥ (JOf es1 n1 xs1 *ᵥ v))
    (hJ2 : ∀ v : Fin n2 → ℝ, c2 * (v ⬝ᵥ v) ≤ (JOf es2 n2 xs2 *ᵥ v) ⬝ᵥ (JOf es2 n2 xs2 *ᵥ v)) :
    ∃ ρ1 ρ2 : ℝ, 0 < ρ1 ∧ 0 < ρ2 ∧
      ∀ (cfg : Config ℝ)
        (solveU solve1 solve2 : Nat → List (Triplet ℝ) → List ℝ → Except SolveError (List ℝ)),
        ExactSolve solve1 (numRows es1) n1 (fun _ => lam) →
        AnswersInRange solve1 (numRows es1) n1 →
        ExactSolve solve2 (numRows es2) n2 (fun _ => lam) →
        AnswersInRange solve2 (numRows es2) n2 →
        BlockSolve solveU solve1 solve2 (numRows es1) (numRows es2) n1 n2 →
        ∀ (x1 x2 : List ℝ), x1.length = n1 → x2.length = n2 →
        ‖pointOf n1 x1 - xs1‖ ≤ ρ1 → ‖pointOf n2 x2 - xs2‖ ≤ ρ2 →
        ∀ (fuel1 fuel2 fuelU k : Nat) (ws ws1 ws2 : List (Warning ℝ)) (res1 res2 resU : NewtonOk ℝ),
          newtonLoop es1 cfg solve1 fuel1 k x1 ws1 = .ok res1 → res1.byResidual = true →
          newtonLoop es2 cfg solve2 fuel2 k x2 ws2 = .ok res2 → res2.byResidual = true →
          newtonLoop (unionEntries n1 es1 es2) cfg solveU fuelU k (x1 ++ x2) ws = .ok resU →
          resU.byResidual = true →
          ∃ z1 z2, resU.values = z1 ++ z2 ∧ z1.length = n1 ∧ z2.length = n2 ∧
            res1.iterations ≤ resU.iterations ∧ res2.iterations ≤ resU.iterations ∧
            FreeRun es1 solve1 (resU.iterations - res1.iterations) res1.iterations res1.values z1 ∧
            FreeRun es2 solve2 (resU.iterations - res2.iterations) res2.iterations res2.values z2 ∧
            ‖pointOf n1 z1 - pointOf n1 res1.values‖ ≤
              2 * (1 / 2) ^ (res1.iterations - k) * ‖pointOf n1 x1 - xs1‖ ∧
            ‖pointOf n2 z2 - pointOf n2 res2.values‖ ≤
              2 * (1 / 2) ^ (res2.iterations - k) * ‖pointOf n2 x2 - xs2‖ ∧
            ‖pointOf n1 z1 - xs1‖ ≤ (1 / 2) ^ (resU.iterations - k) * ‖pointOf n1 x1 - xs1‖ ∧
            ‖pointOf n2 z2 - xs2‖ ≤ (1 / 2) ^ (resU.iterations - k) * ‖pointOf n2 x2 - xs2‖ := by
  obtain ⟨ρ1, hρ1, hclose1⟩ := extra_free_rounds_close es1 n1 hd1 xs1 hk1 hxs1 lam c1 hlam hc1 hJ1
  obtain ⟨ρ2, hρ2, hclose2⟩ := extra_free_rounds_close es2 n2 hd2 xs2 hk2 hxs2 lam c2 hlam hc2 hJ2
  refine ⟨ρ1, ρ2, hρ1, hρ2, ?_⟩
  intro cfg solveU solve1 solve2 hS1 hA1 hS2 hA2 hB x1 x2 hx1 hx2 hx01 hx02 fuel1 fuel2 fuelU k
    ws ws1 ws2 res1 res2 resU hl1 hb1 hl2 hb2 hlU hbU
  obtain ⟨j1, wy1, run1, it1, _⟩ := newtonLoop_byResidual_run es1 cfg solve1 fuel1 k x1 ws1 res1 hl1 hb1
  obtain ⟨j2, wy2, run2, it2, _⟩ := newtonLoop_byResidual_run es2 cfg solve2 fuel2 k x2 ws2 res2 hl2 hb2
  obtain ⟨jU, wU, runU, itU, doneU⟩ :=
    newtonLoop_byResidual_run _ cfg solveU fuelU k (x1 ++ x2) ws resU hlU hbU
  obtain ⟨z1, z2, F1, F2, hyU⟩ := union_run_blocks2 es1 es2 cfg solveU solve1 solve2 n1 n2 hd1 hd2 hB
    hA1 (fun k jac r d h => (hS1 k jac r d h).1) hA2 (fun k jac r d h => (hS2 k jac r d h).1)
    jU k x1 x2 ws resU.values wU hx1 hx2 runU
  have hz1 : z1.length = n1 := by rw [F1.length, hx1]
  have hz2 : z2.length = n2 := by rw [F2.length, hx2]
  -- the union's returning round, in the form `residual_test_union_iff` expects
  have doneU' : newtonStep (unionEntries z1.length es1 es2) cfg solveU (k + jU) (z1 ++ z2) wU =
      .done resU := by
    rw [hz1, ← hyU]; exact doneU
  have hd1' : Declared es1 z1.length := by rw [hz1]; exact hd1
  have hboth := fun ws1' ws2' => (residual_test_union_iff es1 es2 cfg solveU solve1 solve2 (k + jU)
    z1 z2 wU ws1' ws2' hd1' hne1 hne2).mp ⟨resU, doneU', hbU⟩
  have hle1 : j1 ≤ jU := run_le_of_free_done es1 solve1 cfg n1 hd1 j1 jU k x1 ws1 res1.values z1 wy1
    hx1 run1 F1 (fun ws' => by
      obtain ⟨⟨r, hr, _⟩, _⟩ := hboth ws' []
      exact ⟨r, hr⟩)
  have hle2 : j2 ≤ jU := run_le_of_free_done es2 solve2 cfg n2 hd2 j2 jU k x2 ws2 res2.values z2 wy2
    hx2 run2 F2 (fun ws' => by
      obtain ⟨_, ⟨r, hr, _⟩⟩ := hboth [] ws'
      exact ⟨r, hr⟩)
  obtain ⟨_, G1, b1, e1⟩ := hclose1 cfg solve1 hS1 x1 hx1 hx01 j1 jU k ws1 res1.values z1 wy1 hle1
    run1 F1
  obtain ⟨_, G2, b2, e2⟩ := hclose2 cfg solve2 hS2 x2 hx2 hx02 j2 jU k ws2 res2.values z2 wy2 hle2
    run2 F2
  have s1 : res1.iterations - k = j1 := by omega
  have s2 : res2.iterations - k = j2 := by omega
  have sU : resU.iterations - k = jU := by omega
  have t1 : resU.iterations - res1.iterations = jU - j1 := by omega
  have t2 : resU.iterations - res2.iterations = jU - j2 := by omega
  rw [s1, s2, sU, t1, t2, it1, it2]
  exact ⟨z1, z2, hyU, hz1, hz2, by omega, by omega, G1, G2, b1, b2, e1, e2⟩

/-! ### 5. Non-vacuity: a union that keeps iterating although group 1 alone is done -/

namespace UnequalEx

/-- Group 1: "variable 0 is 5" (one variable). -/
def g1 : List (Entry ℝ) := [⟨.fixed 0 5, 0, 0⟩]
/-- Group 2: "variable 0 is 7" (one variable). -/
def g2 : List (Entry ℝ) := [⟨.fixed 0 7, 1, 0⟩]
/-- Tolerances `1e-5`, 30 rounds. -/
def cfg : Config ℝ := ⟨30, 1e-5, 1e-5⟩
/-- Where group 2's variable lands after one exact damped step from 0. -/
noncomputable def a7 : ℝ := 7 / (1 + 1e-9)

/-- Residual and Jacobian of a one-variable `Fixed` entry at the value `a`. -/
theorem fx_eval (v a : ℝ) (id : Nat) :
    residualAll [(⟨.fixed 0 v, id, 0⟩ : Entry ℝ)] (lookup [a]) = .ok ([a - v], []) ∧
    jacobianAll [(⟨.fixed 0 v, id, 0⟩ : Entry ℝ)] (lookup [a]) = .ok ([(0, 0, 1.0)], []) := by
  refine ⟨?_, ?_⟩
  · simp [residualAll, Constraint.residual, Constraint.residualV,
      Constraint.residualReads, lookup, takeRows, Constraint.residualDim, Res.mk1]
  · simp [jacobianAll, jacobianFrom, pattern, patternFrom,
      Constraint.jacobianRows, Constraint.jacobianV,
      Constraint.jacobianReads, lookup, takeRows, Constraint.residualDim, Constraint.nonzeroes]

/-- What an exact solver with damping `lam` answers on the `1 × 1` system with matrix `[1]` and
residual `ρ`: the step `[-ρ / (1 + lam k)]`. -/
theorem exactSolve_one_by_one (s : Nat → List (Triplet ℝ) → List ℝ → Except SolveError (List ℝ))
    (lam : Nat → ℝ) (hlam : ∀ k, 0 < lam k) (hs : ExactSolve s 1 1 lam) (k : Nat) (ρ : ℝ)
    (d : List ℝ) (h : s k [(0, 0, 1.0)] [ρ] = .ok d) : d = [-ρ / (1 + lam k)] := by
  obtain ⟨hl, hst⟩ := hs k _ _ d h
  match d, hl with
  | [d0], _ =>
    have h0 := congrFun hst 0
    simp [matOf, vecOf, Matrix.mulVec, dotProduct, Matrix.add_apply, Matrix.mul_apply,
      Matrix.one_apply] at h0
    have hp : (1 + lam k) ≠ 0 := by have := hlam k; positivity
    have hd0 : d0 = -ρ / (1 + lam k) := by
      field_simp
      linarith
    rw [hd0]

section Run
variable (s sU : Nat → List (Triplet ℝ) → List ℝ → Except SolveError (List ℝ))
  (hs : ExactSolve s 1 1 (fun _ => (1e-9 : ℝ)))
  (htot : ∀ k jac r, ∃ d, s k jac r = .ok d)

/-- Group 1 alone, started at its solution `[5]`, returns at the residual test in round 0: it has
ZERO continuing rounds. -/
theorem g1_done : newtonStep g1 cfg s 0 [5] [] = .done ⟨[5], 0, [], [(0, 0, 1.0)], true⟩ := by
  obtain ⟨hr, hj⟩ := fx_eval 5 5 0
  rw [g1, newtonStep_eval _ _ s 0 [5] [] _ _ _ _ _ hr hj rfl, if_pos (by
    simp only [cfg]; norm_num)]
  rfl

include hs htot

/-- What the solver answers for a one-variable `Fixed` entry with residual `ρ`. -/
theorem s_answer (k : Nat) (ρ : ℝ) : s k [(0, 0, 1.0)] [ρ] = .ok [-ρ / (1 + 1e-9)] := by
  obtain ⟨d, hd⟩ := htot k [(0, 0, 1.0)] [ρ]
  rw [hd, exactSolve_one_by_one s (fun _ => 1e-9) (fun _ => by norm_num) hs k ρ d hd]

/-- Group 2 alone, started at `[0]`, continues in round 0 to `[7/(1+1e-9)]`: ONE continuing round. -/
theorem g2_next : newtonStep g2 cfg s 0 [0] [] = .next [a7] [] := by
  obtain ⟨hr, hj⟩ := fx_eval 7 0 1
  have hd := s_answer s hs htot 0 (0 - 7)
  have e : -((0 : ℝ) - 7) / (1 + 1e-9) = a7 := by unfold a7; ring
  rw [e] at hd
  have hpos : (0 : ℝ) < a7 := by unfold a7; positivity
  have hbig : (1 : ℝ) ≤ a7 := by
    unfold a7; rw [le_div_iff₀ (by norm_num)]; norm_num
  rw [g2, newtonStep_eval _ _ s 0 [0] [] _ _ _ _ _ hr hj rfl, if_neg (by
    simp only [cfg]; norm_num), hd]
  simp [cfg, applyStep, allFinite, stepInfNorm, stepThreshold, maxAbs0, maxAbs?, abs_of_pos hpos]
  rw [lit_0]
  norm_num
  linarith

/-- **The union continues in round 0 although group 1 alone would return**: from `[5, 0]` to
`[5, 7/(1+1e-9)]`; group 1's block received one free round (a zero step). -/
theorem union_next (hB : BlockSolve sU s s 1 1 1 1) :
    ∃ wU, newtonStep (unionEntries 1 g1 g2) cfg sU 0 ([5] ++ [0]) [] = .next ([5] ++ [a7]) wU := by
  obtain ⟨hr1, hj1⟩ := fx_eval 5 5 0
  obtain ⟨hr2, hj2⟩ := fx_eval 7 0 1
  have hd1 := s_answer s hs htot 0 (5 - 5)
  have hd2 := s_answer s hs htot 0 (0 - 7)
  have e : -((0 : ℝ) - 7) / (1 + 1e-9) = a7 := by unfold a7; ring
  rw [e] at hd2
  have e1 : -((5 : ℝ) - 5) / (1 + 1e-9) = 0 := by norm_num
  rw [e1] at hd1
  have hpos : (0 : ℝ) < a7 := by unfold a7; positivity
  have hbig : (1 : ℝ) ≤ a7 := by
    unfold a7; rw [le_div_iff₀ (by norm_num)]; norm_num
  have G1 : GroupRound g1 s 0 [5] [5 - 5] [] [(0, 0, 1.0)] [] [0] :=
    ⟨declared_fixed 5 0, hr1, hj1, hd1, rfl⟩
  have G2 : GroupRound g2 s 0 [0] [0 - 7] [] [(0, 0, 1.0)] [] [a7] :=
    ⟨declared_fixed 7 1, hr2, hj2, hd2, rfl⟩
  have h := newtonStep_union_eq g1 g2 cfg sU s s 0 [5] [0] [] _ _ _ _ _ _ _ _ _ _ G1 G2 hB _ rfl
  refine ⟨[], ?_⟩
  show newtonStep (unionEntries [(5 : ℝ)].length g1 g2) cfg sU 0 ([5] ++ [0]) [] = _
  rw [h]
  simp [cfg, applyStep, allFinite, stepInfNorm, stepThreshold, maxAbs0, maxAbs?, abs_of_pos hpos,
    fmax_real]
  rw [if_neg (by norm_num), if_neg]
  rintro ⟨_, h2⟩
  rw [lit_0] at h2
  norm_num at h2
  linarith

end Run

/-- Group 1's request is regular everywhere (`Fixed` has no guard). -/
theorem g1_regular : ∀ e ∈ g1, RegularAt3 e.c (asg 1 (pointOf 1 [5])) := by
  intro e he
  simp only [g1, List.mem_singleton] at he
  subst he
  exact trivial

/-- `[5]` is a zero of group 1's residual map. -/
theorem g1_zero : rOf g1 1 (pointOf 1 [5]) = 0 :=
  rOf_eq_zero_of g1 1 _ [5 - 5] []
    (by rw [coordList_pointOf 1 [5] rfl]; exact (fx_eval 5 5 0).1) (by simp)

/-- Group 1's Jacobian is `[1]`: `σ_min² = 1 ≥ 1/2`. -/
theorem g1_conditioned (v : Fin 1 → ℝ) :
    (1 / 2 : ℝ) * (v ⬝ᵥ v) ≤
      (JOf g1 1 (pointOf 1 [5]) *ᵥ v) ⬝ᵥ (JOf g1 1 (pointOf 1 [5]) *ᵥ v) := by
  rw [JOf_eq g1 1 (pointOf 1 [5]) [(0, 0, 1.0)] []
    (by rw [coordList_pointOf 1 [5] rfl]; exact (fx_eval 5 5 0).2)]
  show (1 / 2 : ℝ) * (v ⬝ᵥ v) ≤ (matOf 1 1 [(0, 0, 1.0)] *ᵥ v) ⬝ᵥ (matOf 1 1 [(0, 0, 1.0)] *ᵥ v)
  simp [matOf, Matrix.mulVec, dotProduct]
  nlinarith [mul_self_nonneg (v 0)]

/-- **Non-vacuity of `union_unequal_rounds_partial` with genuinely unequal round counts**
(`j1 = 0 < j2 = 1`): group 1 "variable 0 is 5" started at its solution returns alone in round 0
(zero continuing rounds), group 2 "variable 0 is 7" started at 0 continues for one round; with exact
solvers of the code's damping `1e-9` (`exists_exactSolve`, `blockSolve_of_exact`) the union continues
for one round from `[5, 0]` — although group 1 alone is done — and every hypothesis of the theorem
holds (`c = 1/2`), so its conclusion is obtained for this run. -/
example : ∃ (solveU solve1 solve2 : Nat → List (Triplet ℝ) → List ℝ → Except SolveError (List ℝ))
    (wU : List (Warning ℝ)),
    newtonStep g1 cfg solve1 0 [5] [] = .done ⟨[5], 0, [], [(0, 0, 1.0)], true⟩ ∧
    newtonRun g1 cfg solve1 0 0 [5] [] = some ([5], []) ∧
    newtonRun g2 cfg solve2 1 0 [0] [] = some ([a7], []) ∧
    newtonRun (unionEntries 1 g1 g2) cfg solveU 1 0 ([5] ++ [0]) [] = some ([5] ++ [a7], wU) ∧
    ∃ z1, [5] ++ [a7] = z1 ++ [a7] ∧ z1.length = 1 ∧
      FreeRun g1 solve1 (1 - 0) (0 + 0) [5] z1 ∧
      ‖pointOf 1 z1 - pointOf 1 [5]‖ ≤ 2 * (1 / 2) ^ 0 * ‖pointOf 1 [5] - pointOf 1 [5]‖ ∧
      ‖pointOf 1 z1 - pointOf 1 [5]‖ ≤ (1 / 2) ^ 1 * ‖pointOf 1 [5] - pointOf 1 [5]‖ := by
  obtain ⟨ρ, hρ, H⟩ := union_unequal_rounds_partial g1 g2 1 1 (declared_fixed 5 0)
    (declared_fixed 7 1) (pointOf 1 [5]) g1_regular g1_zero 1e-9 (1 / 2) (by norm_num) (by norm_num)
    g1_conditioned
  obtain ⟨s, es, ts⟩ := exists_exactSolve 1 1 (fun _ => (1e-9 : ℝ)) (fun _ => by norm_num)
  obtain ⟨sU, eU, tU⟩ := exists_exactSolve (1 + 1) (1 + 1) (fun _ => (1e-9 : ℝ))
    (fun _ => by norm_num)
  have hB : BlockSolve sU s s 1 1 1 1 := blockSolve_of_exact sU s s 1 1 1 1 (fun _ => 1e-9)
    (fun _ => by norm_num) eU es es (fun k jac r _ _ => tU k jac r)
  obtain ⟨wU, hU⟩ := union_next s sU es ts hB
  have run2 : newtonRun g2 cfg s 1 0 [0] [] = some ([a7], []) := by
    rw [newtonRun, g2_next s es ts]; rfl
  have runU : newtonRun (unionEntries 1 g1 g2) cfg sU 1 0 ([5] ++ [0]) [] =
      some ([5] ++ [a7], wU) := by
    rw [newtonRun, hU]; rfl
  refine ⟨sU, s, s, wU, g1_done s, rfl, run2, runU, ?_⟩
  exact H cfg sU s s es (fun k jac r _ _ => ts k jac r) hB [5] [0] rfl rfl
    (by rw [sub_self, norm_zero]; exact hρ.le) 0 1 0 [] [] [] [5] [a7] ([5] ++ [a7]) [] [] wU
    (by omega) rfl run2 runU

/-- Group 2's request is regular everywhere. -/
theorem g2_regular : ∀ e ∈ g2, RegularAt3 e.c (asg 1 (pointOf 1 [7])) := by
  intro e he
  simp only [g2, List.mem_singleton] at he
  subst he
  exact trivial

/-- `[7]` is a zero of group 2's residual map. -/
theorem g2_zero : rOf g2 1 (pointOf 1 [7]) = 0 :=
  rOf_eq_zero_of g2 1 _ [7 - 7] []
    (by rw [coordList_pointOf 1 [7] rfl]; exact (fx_eval 7 7 1).1) (by simp)

/-- Group 2's Jacobian is `[1]`. -/
theorem g2_conditioned (v : Fin 1 → ℝ) :
    (1 / 2 : ℝ) * (v ⬝ᵥ v) ≤
      (JOf g2 1 (pointOf 1 [7]) *ᵥ v) ⬝ᵥ (JOf g2 1 (pointOf 1 [7]) *ᵥ v) := by
  rw [JOf_eq g2 1 (pointOf 1 [7]) [(0, 0, 1.0)] []
    (by rw [coordList_pointOf 1 [7] rfl]; exact (fx_eval 7 7 1).2)]
  show (1 / 2 : ℝ) * (v ⬝ᵥ v) ≤ (matOf 1 1 [(0, 0, 1.0)] *ᵥ v) ⬝ᵥ (matOf 1 1 [(0, 0, 1.0)] *ᵥ v)
  simp [matOf, Matrix.mulVec, dotProduct]
  nlinarith [mul_self_nonneg (v 0)]

/-- Group 2 alone, started at its solution `[7]`, returns at the residual test in round 0. -/
theorem g2_done (s : Nat → List (Triplet ℝ) → List ℝ → Except SolveError (List ℝ)) :
    newtonStep g2 cfg s 0 [7] [] = .done ⟨[7], 0, [], [(0, 0, 1.0)], true⟩ := by
  obtain ⟨hr, hj⟩ := fx_eval 7 7 1
  rw [g2, newtonStep_eval _ _ s 0 [7] [] _ _ _ _ _ hr hj rfl, if_pos (by
    simp only [cfg]; norm_num)]
  rfl

/-- **The hypotheses of `union_unequal_rounds_loop_partial` are consistent** (the cheap instance:
both groups started at their solutions, so that the opaque radii `ρ1`, `ρ2` are met; all three loops
return at the residual test in round 0).  A run with different solo counts inside the radii cannot be
exhibited without knowing the radii; `union_unequal_rounds_partial` has such an instance above. -/
example : ∃ (solveU solve1 solve2 : Nat → List (Triplet ℝ) → List ℝ → Except SolveError (List ℝ))
    (res1 res2 resU : NewtonOk ℝ),
    newtonLoop g1 cfg solve1 1 0 [5] [] = .ok res1 ∧ res1.byResidual = true ∧
    newtonLoop g2 cfg solve2 1 0 [7] [] = .ok res2 ∧ res2.byResidual = true ∧
    newtonLoop (unionEntries 1 g1 g2) cfg solveU 1 0 ([5] ++ [7]) [] = .ok resU ∧
    resU.byResidual = true ∧
    ∃ z1 z2, resU.values = z1 ++ z2 ∧ z1.length = 1 ∧ z2.length = 1 ∧
      res1.iterations ≤ resU.iterations ∧ res2.iterations ≤ resU.iterations := by
  obtain ⟨ρ1, ρ2, hρ1, hρ2, H⟩ := union_unequal_rounds_loop_partial g1 g2 1 1 (declared_fixed 5 0)
    (declared_fixed 7 1) (by simp [g1]) (by simp [g2]) (pointOf 1 [5]) g1_regular g1_zero
    (pointOf 1 [7]) g2_regular g2_zero 1e-9 (1 / 2) (1 / 2) (by norm_num) (by norm_num)
    (by norm_num) g1_conditioned g2_conditioned
  obtain ⟨s, es, ts⟩ := exists_exactSolve 1 1 (fun _ => (1e-9 : ℝ)) (fun _ => by norm_num)
  obtain ⟨sU, eU, tU⟩ := exists_exactSolve (1 + 1) (1 + 1) (fun _ => (1e-9 : ℝ))
    (fun _ => by norm_num)
  have hB : BlockSolve sU s s 1 1 1 1 := blockSolve_of_exact sU s s 1 1 1 1 (fun _ => 1e-9)
    (fun _ => by norm_num) eU es es (fun k jac r _ _ => tU k jac r)
  obtain ⟨wsU, hU, _, _⟩ := residual_test_union_record g1 g2 cfg sU s s 0 [5] [7] [] [] []
    (declared_fixed 5 0) _ _ (g1_done s) rfl (g2_done s) rfl
  have l1 : newtonLoop g1 cfg s 1 0 [5] [] = .ok ⟨[5], 0, [], [(0, 0, 1.0)], true⟩ := by
    rw [newtonLoop, g1_done s]
  have l2 : newtonLoop g2 cfg s 1 0 [7] [] = .ok ⟨[7], 0, [], [(0, 0, 1.0)], true⟩ := by
    rw [newtonLoop, g2_done s]
  obtain ⟨rU, lU, bU⟩ : ∃ rU, newtonLoop (unionEntries 1 g1 g2) cfg sU 1 0 ([5] ++ [7]) [] = .ok rU ∧
      rU.byResidual = true := by
    refine ⟨⟨[5] ++ [7], 0, wsU, blockJac (numRows g1) 1 [(0, 0, 1.0)] [(0, 0, 1.0)], true⟩, ?_, rfl⟩
    have hU' : newtonStep (unionEntries 1 g1 g2) cfg sU 0 ([5] ++ [7]) [] =
        .done ⟨[5] ++ [7], 0, wsU, blockJac (numRows g1) 1 [(0, 0, 1.0)] [(0, 0, 1.0)], true⟩ := hU
    rw [newtonLoop, hU']
  have hA : AnswersInRange s 1 1 := fun k jac r _ _ => ts k jac r
  obtain ⟨z1, z2, h1, h2, h3, h4, h5, _⟩ := H cfg sU s s es hA es hA hB [5] [7] rfl rfl
    (by rw [sub_self, norm_zero]; exact hρ1.le) (by rw [sub_self, norm_zero]; exact hρ2.le)
    1 1 1 0 [] [] [] _ _ _ l1 rfl l2 rfl lU bU
  exact ⟨sU, s, s, _, _, _, l1, rfl, l2, rfl, lU, bU, z1, z2, h1, h2, h3, h4, h5⟩

end UnequalEx

end Ezpz
