/-
C14 over ℝ, at the public entry point `solveWithPriority`.

Part A — the tolerance clause lifted from `newton` (`C14.converged_within_tolerance`) to the outcome:
* `solve_within_tolerance_stacked`, `solve_within_tolerance`: for every non-empty request list, a
  successful prioritised solve returns the result of one Newton run on the attempted requests
  (those of priority `≤ o.prioritySolved`); if that run returned at the residual test, every
  residual component of every attempted request at `o.finalValues` is within the convergence
  tolerance in absolute value.
* `solve_within_tolerance_single_level`: with one priority level the run is `newton` on the whole
  list with LU oracle 0, and the bound covers every request.
* `stepTestSilent_of_zero_stepTolerance`: an observable sufficient condition over ℝ for "returned
  at the residual test" (`StepTestSilent`, `Proofs/Caps.lean`): step tolerance 0 and an oracle that
  never answers a non-converged residual with the zero step.  `solve_within_tolerance_of_silent`
  and `solve_within_tolerance_single_level_of_silent` are the ghost-free statements.
* Non-vacuity examples at the end of part A.

Part B — a machine-checked witness of finding F11 (`cap_not_monotone_multi_level`): with two
priority levels, a success under cap 1 is NOT reproduced under cap 2, with the exact Newton step
as LU oracle.
-/
import Ezpz.Real.Tolerance
import Ezpz.Real.UnionEntry
import Ezpz.Proofs.Caps
set_option linter.unusedSectionVars false
set_option linter.unusedSimpArgs false
namespace Ezpz.C14
open Ezpz Transc


/-! ## Part A — the tolerance clause at the outcome -/

/-- C14.6 (stacked form) — **errors within the tolerance, at the public outcome.**  For a non-empty
request list, a successful prioritised solve returns the values of one Newton run (`nr`, with the
LU oracle of some level call `i`) on the attempted requests — those of priority at most
`o.prioritySolved`.  If that run returned at the residual test (ghost flag `byResidual`), the
stacked residual vector of the attempted requests at `o.finalValues` exists and every component is
at most `cfg.convergenceTolerance` in absolute value. -/
theorem solve_within_tolerance_stacked (reqs : List (Constraint ℝ × Nat)) (g : List (Nat × ℝ))
    (cfg : Config ℝ) (solve : LinSolve ℝ) (svd : Option (Svd ℝ)) (o : Outcome ℝ)
    (hne : reqs ≠ []) (h : solveWithPriority reqs g cfg solve svd = .ok o) :
    ∃ i nr, newton ((enumerate reqs).filter (fun e => e.priority ≤ o.prioritySolved)) cfg (solve i)
        (g.map (·.2)) = .ok nr ∧ o.finalValues = nr.values ∧
      (nr.byResidual = true → ∃ rs ws,
        residualAll ((enumerate reqs).filter (fun e => e.priority ≤ o.prioritySolved))
          (lookup o.finalValues) = .ok (rs, ws) ∧
        ∀ v ∈ rs, |v| ≤ cfg.convergenceTolerance) := by
  obtain ⟨P, i, _, hs, hp⟩ := C03.result_is_subset_solve reqs g cfg solve svd o hne h
  obtain ⟨nr, hn, _, hv, _⟩ := solveInner_ok _ _ _ _ _ _ hs
  rw [hp]
  refine ⟨i, nr, hn, hv, ?_⟩
  intro hb
  rw [hv]
  exact converged_within_tolerance _ cfg (solve i) _ nr hn hb

/-- C14.6 — **every residual component of every attempted request is within the tolerance.**  Same
hypotheses as `solve_within_tolerance_stacked`; the conclusion is per request: for every request
`(c, p)` at position `j` of the caller's list with `p ≤ o.prioritySolved`, the residual of `c` at
`o.finalValues` exists and each of its `c.residualDim` components is at most
`cfg.convergenceTolerance` in absolute value. -/
theorem solve_within_tolerance (reqs : List (Constraint ℝ × Nat)) (g : List (Nat × ℝ))
    (cfg : Config ℝ) (solve : LinSolve ℝ) (svd : Option (Svd ℝ)) (o : Outcome ℝ)
    (hne : reqs ≠ []) (h : solveWithPriority reqs g cfg solve svd = .ok o) :
    ∃ i nr, newton ((enumerate reqs).filter (fun e => e.priority ≤ o.prioritySolved)) cfg (solve i)
        (g.map (·.2)) = .ok nr ∧ o.finalValues = nr.values ∧
      (nr.byResidual = true → ∀ (j : Nat) (c : Constraint ℝ) (p : Nat), reqs[j]? = some (c, p) → p ≤ o.prioritySolved →
        ∃ r, c.residual (lookup o.finalValues) = some r ∧
          ∀ v ∈ takeRows c.residualDim r.r0 r.r1 r.r2, |v| ≤ cfg.convergenceTolerance) := by
  obtain ⟨i, nr, hn, hv, hres⟩ := solve_within_tolerance_stacked reqs g cfg solve svd o hne h
  refine ⟨i, nr, hn, hv, ?_⟩
  intro hb j c p hj hp
  obtain ⟨rs, ws, hr, hbound⟩ := hres hb
  have hmem : (⟨c, j, p⟩ : Entry ℝ) ∈
      (enumerate reqs).filter (fun e => e.priority ≤ o.prioritySolved) := by
    simp only [List.mem_filter, decide_eq_true_eq]
    exact ⟨enumerate_mem_of_get reqs j c p hj, hp⟩
  obtain ⟨r, hr1, hr2⟩ := residualAll_mem _ _ rs ws hr _ hmem
  exact ⟨r, hr1, fun v hvm => hbound v (hr2 v hvm)⟩

/-- C14.6, ghost-free — if the step-size test is silent for every level's LU oracle
(`StepTestSilent`: it can never fire), a successful prioritised solve has every residual component
of every attempted request within the convergence tolerance at `o.finalValues`. -/
theorem solve_within_tolerance_of_silent (reqs : List (Constraint ℝ × Nat)) (g : List (Nat × ℝ))
    (cfg : Config ℝ) (solve : LinSolve ℝ) (svd : Option (Svd ℝ)) (o : Outcome ℝ)
    (hsil : ∀ i, StepTestSilent cfg (solve i))
    (h : solveWithPriority reqs g cfg solve svd = .ok o) :
    ∀ (j : Nat) (c : Constraint ℝ) (p : Nat), reqs[j]? = some (c, p) → p ≤ o.prioritySolved →
      ∃ r, c.residual (lookup o.finalValues) = some r ∧
        ∀ v ∈ takeRows c.residualDim r.r0 r.r1 r.r2, |v| ≤ cfg.convergenceTolerance := by
  intro j c p hj hp
  have hne : reqs ≠ [] := by rintro rfl; simp at hj
  obtain ⟨i, nr, hn, _, hres⟩ := solve_within_tolerance reqs g cfg solve svd o hne h
  exact hres (newton_byResidual_of_silent _ cfg (solve i) (hsil i) _ nr hn) j c p hj hp

/-- C14.6 for a single priority level — if all requests have the same priority, the prioritised
solve succeeds with `o`, and the Newton run on the whole list (LU oracle of call 0) returned at the
residual test, then every residual component of **every** request at `o.finalValues` is within the
convergence tolerance. -/
theorem solve_within_tolerance_single_level (reqs : List (Constraint ℝ × Nat)) (g : List (Nat × ℝ))
    (cfg : Config ℝ) (solve : LinSolve ℝ) (svd : Option (Svd ℝ)) (o : Outcome ℝ) (P : Nat)
    (hall : ∀ r ∈ reqs, r.2 = P)
    (h : solveWithPriority reqs g cfg solve svd = .ok o)
    (hb : ∀ nr, newton (enumerate reqs) cfg (solve 0) (g.map (·.2)) = .ok nr →
      nr.byResidual = true) :
    ∀ (j : Nat) (c : Constraint ℝ) (p : Nat), reqs[j]? = some (c, p) →
      ∃ r, c.residual (lookup o.finalValues) = some r ∧
        ∀ v ∈ takeRows c.residualDim r.r0 r.r1 r.r2, |v| ≤ cfg.convergenceTolerance := by
  intro j c p hj
  have hne : reqs ≠ [] := by rintro rfl; simp at hj
  rw [solveWithPriority_one_level reqs g cfg solve svd P hne hall] at h
  obtain ⟨nr, hn, _, hv, _⟩ := solveInner_ok _ _ _ _ _ _ h
  obtain ⟨rs, ws, hr, hbound⟩ := converged_within_tolerance _ cfg (solve 0) _ nr hn (hb nr hn)
  rw [hv]
  obtain ⟨r, hr1, hr2⟩ := residualAll_mem _ _ rs ws hr _ (enumerate_mem_of_get reqs j c p hj)
  exact ⟨r, hr1, fun v hvm => hbound v (hr2 v hvm)⟩

/-- The single-level statement without the ghost flag: the step-size test is silent for LU
oracle 0. -/
theorem solve_within_tolerance_single_level_of_silent (reqs : List (Constraint ℝ × Nat))
    (g : List (Nat × ℝ)) (cfg : Config ℝ) (solve : LinSolve ℝ) (svd : Option (Svd ℝ))
    (o : Outcome ℝ) (P : Nat) (hall : ∀ r ∈ reqs, r.2 = P)
    (h : solveWithPriority reqs g cfg solve svd = .ok o)
    (hsil : StepTestSilent cfg (solve 0)) :
    ∀ (j : Nat) (c : Constraint ℝ) (p : Nat), reqs[j]? = some (c, p) →
      ∃ r, c.residual (lookup o.finalValues) = some r ∧
        ∀ v ∈ takeRows c.residualDim r.r0 r.r1 r.r2, |v| ≤ cfg.convergenceTolerance :=
  solve_within_tolerance_single_level reqs g cfg solve svd o P hall h
    (fun nr hn => newton_byResidual_of_silent _ cfg (solve 0) hsil _ nr hn)

/-- **An observable condition under which the step-size test can never fire** (over ℝ): the step
tolerance is 0, the convergence tolerance is not negative, and the LU oracle never answers a
residual vector that fails the residual test with the zero step. -/
theorem stepTestSilent_of_zero_stepTolerance (cfg : Config ℝ)
    (solve : Nat → List (Triplet ℝ) → List ℝ → Except SolveError (List ℝ))
    (hτ : cfg.stepTolerance = 0)
    (hnz : ∀ k jac r d, solve k jac r = .ok d → (∃ v ∈ r, ¬ |v| ≤ cfg.convergenceTolerance) →
      ∃ v ∈ d, v ≠ 0) : StepTestSilent cfg solve := by
  intro k jac r d x largest hd hm hl
  obtain ⟨_, y, hy, hyl⟩ := (maxAbs?_spec r largest).mp hm
  obtain ⟨v, hv, hv0⟩ := hnz k jac r d hd ⟨y, hy, by rw [hyl]; exact hl⟩
  have hthr : stepThreshold cfg x = 0 := by simp [stepThreshold, hτ]
  rw [hthr]
  intro hle
  unfold stepInfNorm at hle
  cases hmd : maxAbs? d with
  | none =>
    have : d = [] := by
      cases d with
      | nil => rfl
      | cons a b => simp [maxAbs?] at hmd
    subst this
    cases hv
  | some m =>
    rw [hmd, Option.getD_some] at hle
    have hb := ((maxAbs?_spec d m).mp hmd).1 v hv
    have : |v| ≤ 0 := le_trans hb hle
    exact hv0 (abs_nonpos_iff.mp this)

/-- The exact Newton step `d = -r` (`negSolve`) with step tolerance 0 and a non-negative
convergence tolerance: the step-size test is silent. -/
theorem negSolve_silent (cap : Nat) (tol : ℝ) (htol : 0 ≤ tol) :
    StepTestSilent (⟨cap, tol, 0⟩ : Config ℝ) negSolve := by
  apply stepTestSilent_of_zero_stepTolerance _ _ rfl
  intro k jac r d hd hex
  obtain ⟨v, hv, hvt⟩ := hex
  simp only [negSolve, Except.ok.injEq] at hd
  subst hd
  refine ⟨-v, List.mem_map.mpr ⟨v, hv, rfl⟩, ?_⟩
  intro h0
  have : v = 0 := by linarith
  subst this
  simp at hvt
  exact absurd htol (not_le.mpr hvt)

/-! ### Non-vacuity of part A -/

/-- Non-vacuity of `solve_within_tolerance` / `solve_within_tolerance_single_level` (ghost form):
"variable 0 fixed to 5" from the guess 0 with the exact step and tolerances `1e-5` succeeds, the
Newton run returned at the residual test, and the conclusion holds: the residual `5 - 5` is within
`1e-5`. -/
example : ∃ o, solveWithPriority [((.fixed 0 5 : Constraint ℝ), 0)] [(0, 0)] ⟨30, 1e-5, 1e-5⟩
      (fun _ => negSolve) none = .ok o ∧
    (∀ nr, newton (enumerate [((.fixed 0 5 : Constraint ℝ), 0)]) ⟨30, 1e-5, 1e-5⟩ negSolve
      ([((0 : Nat), (0 : ℝ))].map (·.2)) = .ok nr → nr.byResidual = true) ∧
    ∀ (j : Nat) (c : Constraint ℝ) (p : Nat), [((.fixed 0 5 : Constraint ℝ), 0)][j]? = some (c, p) →
      ∃ r, c.residual (lookup o.finalValues) = some r ∧
        ∀ v ∈ takeRows c.residualDim r.r0 r.r1 r.r2, |v| ≤ (1e-5 : ℝ) := by
  have hs : solveWithPriority [((.fixed 0 5 : Constraint ℝ), 0)] [(0, 0)] ⟨30, 1e-5, 1e-5⟩
      (fun _ => negSolve) none = .ok ⟨[], [5], 1, [], 0, none⟩ := by
    rw [solveWithPriority_single_level _ _ _ _ none 0 (by simp) (by simp)]
    exact fixed_solveInner 5 (by norm_num) 0
  have hb : ∀ nr, newton (enumerate [((.fixed 0 5 : Constraint ℝ), 0)]) ⟨30, 1e-5, 1e-5⟩ negSolve
      ([((0 : Nat), (0 : ℝ))].map (·.2)) = .ok nr → nr.byResidual = true := by
    intro nr hr
    have := fixed_newton 5 (by norm_num) 0
    rw [show newton (enumerate [((.fixed 0 5 : Constraint ℝ), 0)]) ⟨30, 1e-5, 1e-5⟩ negSolve
      ([((0 : Nat), (0 : ℝ))].map (·.2)) = newton [(⟨.fixed 0 5, 0, 0⟩ : Entry ℝ)] ⟨30, 1e-5, 1e-5⟩
        negSolve [0] from rfl, this] at hr
    injection hr with hr
    rw [← hr]
  exact ⟨_, hs, hb, solve_within_tolerance_single_level _ _ _ (fun _ => negSolve) none _ 0
    (by simp) hs hb⟩


/-! ## Part B — F11: with several levels, raising the cap can change a success -/

/-- Witness entry: "variable 0 is 5", request 0, priority 0. -/
def wE0 : Entry ℝ := ⟨.fixed 0 5, 0, 0⟩
/-- Witness entry: "variable 1 is 7", request 1, priority 1. -/
def wE1 : Entry ℝ := ⟨.fixed 1 7, 1, 1⟩
/-- The witness request list: two `Fixed` requests on two priority levels. -/
def wReqs : List (Constraint ℝ × Nat) := [(.fixed 0 5, 0), (.fixed 1 7, 1)]
/-- The witness guesses: variable 0 starts at its target, variable 1 at 0. -/
def wGuess : List (Nat × ℝ) := [(0, 5), (1, 0)]
/-- The witness configuration: convergence tolerance `1e-5`, step tolerance `τ` (the cap is set by
`withCap`). -/
noncomputable def wCfg (τ : ℝ) : Config ℝ := ⟨30, 1e-5, τ⟩

/-- The enumerated witness list. -/
theorem wEnumerate : enumerate wReqs = [wE0, wE1] := rfl
/-- The witness has the two levels 0 and 1. -/
theorem wLevels : levels (enumerate wReqs) = [0, 1] := by decide

/-- Level 0, round 0: the residual test passes at the guess. -/
theorem wStepA (τ : ℝ) (c : Nat) : newtonStep [wE0] (withCap (wCfg τ) c) negSolve 0 [5, 0] [] =
    .done ⟨[5, 0], 0, [], [(0, 0, 1.0)], true⟩ := by
  simp [wE0, wCfg, withCap, newtonStep, residualAll, jacobianAll, jacobianFrom, pattern, patternFrom,
    Constraint.residual, Constraint.jacobianRows, Constraint.residualV, Constraint.jacobianV,
    Constraint.residualReads, Constraint.jacobianReads, lookup, takeRows, Constraint.residualDim,
    Res.mk1, maxAbs?, negSolve, applyStep, allFinite, stepInfNorm, stepThreshold, maxAbs0,
    Constraint.nonzeroes]
  norm_num

/-- Level 1, round 0: one exact Newton step to `[5, 7]`. -/
theorem wStepB (τ : ℝ) (h0 : 0 ≤ τ) (h1 : τ ≤ 1) (c : Nat) :
    newtonStep [wE0, wE1] (withCap (wCfg τ) c) negSolve 0 [5, 0] [] =
    .next [5, 7] [] := by
  simp [wE0, wE1, wCfg, withCap, newtonStep, residualAll, jacobianAll, jacobianFrom, pattern, patternFrom,
    Constraint.residual, Constraint.jacobianRows, Constraint.residualV, Constraint.jacobianV,
    Constraint.residualReads, Constraint.jacobianReads, lookup, takeRows, Constraint.residualDim,
    Res.mk1, maxAbs?, negSolve, applyStep, allFinite, stepInfNorm, stepThreshold, maxAbs0,
    Constraint.nonzeroes]
  rw [if_neg (by norm_num), if_neg (by norm_num [lit_0]; nlinarith)]

/-- Level 1, round 1: the residual test passes at `[5, 7]`. -/
theorem wStepC (τ : ℝ) (c : Nat) : newtonStep [wE0, wE1] (withCap (wCfg τ) c) negSolve 1 [5, 7] [] =
    .done ⟨[5, 7], 1, [], [(0, 0, 1.0), (1, 1, 1.0)], true⟩ := by
  simp [wE0, wE1, wCfg, withCap, newtonStep, residualAll, jacobianAll, jacobianFrom, pattern, patternFrom,
    Constraint.residual, Constraint.jacobianRows, Constraint.residualV, Constraint.jacobianV,
    Constraint.residualReads, Constraint.jacobianReads, lookup, takeRows, Constraint.residualDim,
    Res.mk1, maxAbs?, negSolve, applyStep, allFinite, stepInfNorm, stepThreshold, maxAbs0,
    Constraint.nonzeroes]
  norm_num

/-- Level 0 validates. -/
theorem wModel0 : modelNew [wE0] (wGuess.map (·.1)) = .ok () := by
  simp [wE0, wGuess, modelNew, validateVariables, firstMissing, Constraint.nonzeroes, pattern, patternFrom,
    takeRows, Constraint.residualDim, List.zipIdx]

/-- Level 1 validates. -/
theorem wModel1 : modelNew [wE0, wE1] (wGuess.map (·.1)) = .ok () := by
  simp [wE0, wE1, wGuess, modelNew, validateVariables, firstMissing, Constraint.nonzeroes, pattern, patternFrom,
    takeRows, Constraint.residualDim, List.zipIdx]

/-- Level 0's request is satisfied at `[5, 0]`. -/
theorem wSweep0 : unsatisfiedSweep [wE0] (lookup [5, 0]) = .ok [] := by
  simp [wE0, unsatisfiedSweep, Constraint.residual, Constraint.residualV, Constraint.residualReads,
    lookup, Constraint.residualDim, Res.mk1, isSatisfied, EPS_real]
  norm_num

/-- Both requests are satisfied at `[5, 7]`. -/
theorem wSweep1 : unsatisfiedSweep [wE0, wE1] (lookup [5, 7]) = .ok [] := by
  simp [wE0, wE1, unsatisfiedSweep, Constraint.residual, Constraint.residualV, Constraint.residualReads,
    lookup, Constraint.residualDim, Res.mk1, isSatisfied, EPS_real]
  norm_num

/-- Level 0 (the request "variable 0 is 5" alone, started at its solution) succeeds under every
positive cap, with 0 iterations. -/
theorem wLevel0 (τ : ℝ) (c : Nat) : solveInner [wE0] wGuess (withCap (wCfg τ) (c + 1)) negSolve none =
    .ok ⟨[], [5, 0], 0, [], 0, none⟩ := by
  have hn : newton [wE0] (withCap (wCfg τ) (c + 1)) negSolve (wGuess.map (·.2)) =
      .ok ⟨[5, 0], 0, [], [(0, 0, 1.0)], true⟩ := by
    show newtonLoop _ _ _ (c + 1) 0 [5, 0] [] = _
    rw [newtonLoop, wStepA]
  simp only [solveInner, wModel0, hn, wSweep0, runAnalysis]
  simp [lint, lintOne, maxPriority, wE0]

/-- Level 1 (both requests) runs out of iterations under cap 1. -/
theorem wLevel1_cap1 (τ : ℝ) (h0 : 0 ≤ τ) (h1 : τ ≤ 1) :
    ∃ f, solveInner [wE0, wE1] wGuess (withCap (wCfg τ) 1) negSolve none = .error f ∧
    f.error = .didNotConverge := by
  have hn : newton [wE0, wE1] (withCap (wCfg τ) 1) negSolve (wGuess.map (·.2)) =
      .error (.didNotConverge, []) := by
    show newtonLoop _ _ _ (0 + 1) 0 [5, 0] [] = _
    rw [newtonLoop, wStepB τ h0 h1]
    rfl
  simp only [solveInner, wModel1, hn]
  exact ⟨_, rfl, rfl⟩

/-- Level 1 succeeds under every cap `≥ 2`, after one iteration. -/
theorem wLevel1_cap2 (τ : ℝ) (h0 : 0 ≤ τ) (h1 : τ ≤ 1) (c : Nat) :
    solveInner [wE0, wE1] wGuess (withCap (wCfg τ) (c + 2)) negSolve none =
    .ok ⟨[], [5, 7], 1, [], 1, none⟩ := by
  have hn : newton [wE0, wE1] (withCap (wCfg τ) (c + 2)) negSolve (wGuess.map (·.2)) =
      .ok ⟨[5, 7], 1, [], [(0, 0, 1.0), (1, 1, 1.0)], true⟩ := by
    show newtonLoop _ _ _ (c + 1 + 1) 0 [5, 0] [] = _
    rw [newtonLoop, wStepB τ h0 h1]
    dsimp only
    rw [newtonLoop, wStepC]
  simp only [solveInner, wModel1, hn, wSweep1, runAnalysis]
  simp [lint, lintOne, maxPriority, wE0, wE1]

/-- The requests attempted at level 0. -/
theorem wFilter0 : (enumerate wReqs).filter (fun e => e.priority ≤ 0) = [wE0] := by
  simp [wEnumerate, wE0, wE1]

/-- The requests attempted at level 1. -/
theorem wFilter1 : (enumerate wReqs).filter (fun e => e.priority ≤ 1) = [wE0, wE1] := by
  simp [wEnumerate, wE0, wE1]

/-- Under cap 1 the prioritised solve returns level 0's outcome: level 1 ran out of iterations, and
an error after a held success is swallowed. -/
theorem wSolve_cap1 (τ : ℝ) (h0 : 0 ≤ τ) (h1 : τ ≤ 1) :
    solveWithPriority wReqs wGuess (withCap (wCfg τ) 1) (fun _ => negSolve) none =
    .ok ⟨[], [5, 0], 0, [], 0, none⟩ := by
  obtain ⟨f, hf, _⟩ := wLevel1_cap1 τ h0 h1
  have hne : wReqs.isEmpty = false := rfl
  unfold solveWithPriority
  rw [hne, wLevels]
  simp only [Bool.false_eq_true, if_false, priorityLoop, wFilter0, wFilter1, Option.map_none,
    wLevel0 τ 0, hf]
  simp

/-- Under every cap `≥ 2` the prioritised solve returns level 1's outcome. -/
theorem wSolve_cap2 (τ : ℝ) (h0 : 0 ≤ τ) (h1 : τ ≤ 1) (c : Nat) :
    solveWithPriority wReqs wGuess (withCap (wCfg τ) (c + 2)) (fun _ => negSolve) none =
    .ok ⟨[], [5, 7], 1, [], 1, none⟩ := by
  have hne : wReqs.isEmpty = false := rfl
  unfold solveWithPriority
  rw [hne, wLevels]
  simp only [Bool.false_eq_true, if_false, priorityLoop, wFilter0, wFilter1, Option.map_none,
    wLevel0 τ (c + 1), wLevel1_cap2 τ h0 h1 c]
  simp

/-- **F11, machine-checked: with several priority levels, a success under an iteration cap is not
reproduced under a larger cap.**  Requests "variable 0 is 5" (priority 0) and "variable 1 is 7"
(priority 1), guesses `[5, 0]`, tolerances `1e-5`, the exact Newton step `d = -r` as the LU oracle
of every level.  Under cap 1 level 0 succeeds at once and level 1 runs out of iterations, so level
0's outcome is returned (`prioritySolved = 0`, values `[5, 0]`, 0 iterations); under cap 2 level 1
converges and its outcome is returned (`prioritySolved = 1`, values `[5, 7]`, 1 iteration).  Both
results are `Ok` with nothing unsatisfied, and they differ. -/
theorem cap_not_monotone_multi_level :
    ∃ (reqs : List (Constraint ℝ × Nat)) (g : List (Nat × ℝ)) (cfg : Config ℝ) (solve : LinSolve ℝ)
      (c c' : Nat) (o o' : Outcome ℝ), c < c' ∧
      solveWithPriority reqs g (withCap cfg c) solve none = .ok o ∧
      solveWithPriority reqs g (withCap cfg c') solve none = .ok o' ∧
      o.unsatisfied = [] ∧ o'.unsatisfied = [] ∧
      o.prioritySolved = 0 ∧ o'.prioritySolved = 1 ∧
      o.finalValues = [5, 0] ∧ o'.finalValues = [5, 7] ∧ o ≠ o' := by
  refine ⟨wReqs, wGuess, wCfg 1e-5, fun _ => negSolve, 1, 2, _, _, by decide,
    wSolve_cap1 _ (by norm_num) (by norm_num), wSolve_cap2 _ (by norm_num) (by norm_num) 0,
    rfl, rfl, rfl, rfl, rfl, rfl, ?_⟩
  intro heq
  have := congrArg Outcome.prioritySolved heq
  simp at this

/-- Hence the multi-level analogue of `solve_cap_monotone_single_level` is false over ℝ. -/
theorem solve_cap_monotone_multi_level_false :
    ¬ ∀ (reqs : List (Constraint ℝ × Nat)) (g : List (Nat × ℝ)) (cfg : Config ℝ)
      (solve : LinSolve ℝ) (svd : Option (Svd ℝ)) (c c' : Nat) (o : Outcome ℝ), c ≤ c' →
      solveWithPriority reqs g (withCap cfg c) solve svd = .ok o →
      solveWithPriority reqs g (withCap cfg c') solve svd = .ok o := by
  intro hall
  have h := hall wReqs wGuess (wCfg 1e-5) (fun _ => negSolve) none 1 2 _ (by decide)
    (wSolve_cap1 _ (by norm_num) (by norm_num))
  rw [wSolve_cap2 _ (by norm_num) (by norm_num) 0] at h
  injection h with h
  have := congrArg Outcome.prioritySolved h
  simp at this

/-- The witness is consistent with `solve_cap_monotone_err`: what changes between the two caps is a
*lower* level's "did not converge", which the loop swallows; the entry point's own result is `Ok`
under both caps. -/
example : ∃ f, levelRun (enumerate wReqs) wGuess (withCap (wCfg 1e-5) 1) (fun _ => negSolve) none 1 1 =
    .error f ∧ f.error = .didNotConverge := by
  obtain ⟨f, hf, he⟩ := wLevel1_cap1 1e-5 (by norm_num) (by norm_num)
  exact ⟨f, by unfold levelRun; rw [wFilter1]; exact hf, he⟩

/-! ### Non-vacuity of the ghost-free form of part A -/

/-- Non-vacuity of `solve_within_tolerance_of_silent` on a two-level list: the requests of part B
with step tolerance 0, convergence tolerance `1e-5`, cap 2 and the exact step.  The step-size test
is silent, the solve succeeds at level 1 (after a genuine Newton step), and the theorem bounds the
residuals of both requests at the returned values `[5, 7]`. -/
example : StepTestSilent (withCap (wCfg 0) 2) negSolve ∧
    solveWithPriority wReqs wGuess (withCap (wCfg 0) 2) (fun _ => negSolve) none =
      .ok ⟨[], [5, 7], 1, [], 1, none⟩ ∧
    ∀ (j : Nat) (c : Constraint ℝ) (p : Nat), wReqs[j]? = some (c, p) → p ≤ 1 →
      ∃ r, c.residual (lookup [5, 7]) = some r ∧
        ∀ v ∈ takeRows c.residualDim r.r0 r.r1 r.r2, |v| ≤ (1e-5 : ℝ) := by
  have hsil : StepTestSilent (withCap (wCfg 0) 2) negSolve := negSolve_silent 2 _ (by norm_num [wCfg])
  have hs := wSolve_cap2 0 le_rfl (by norm_num) 0
  exact ⟨hsil, hs, solve_within_tolerance_of_silent wReqs wGuess _ (fun _ => negSolve) none _
    (fun _ => hsil) hs⟩

end Ezpz.C14
