/-
C11 (re-solving from a converged result returns that result): the restriction to results that
returned at the RESIDUAL test is necessary.

A result that stopped on the STEP-SIZE test is not a fixed point of `solve`.  The witness is the run
of `Real/StepExamples.lean` — request "variable 0 is 5" on two variables, guesses `[(0, 0), (1, 7)]`,
an exact total solver of the damped normal equations with the code's damping `1e-9` — under a
configuration whose step tolerance is so large (`10`) that the step-size test fires right after the
first step, and whose convergence tolerance is so small (`1e-12`) that the point reached by that
step, `5 / (1 + 1e-9)`, does not pass the residual test.

NOTE on iteration counts: the loop reports `iterations = this_iteration`, the INDEX of the round in
which it returned (model `newtonStep`: `.done ⟨_, k, ..⟩`; `newton.rs`: `iterations: this_iteration`),
for both kinds of return.  A step-size return in round 0 therefore has `iterations = 0` although one
solver step was applied.  `step_stop_not_fixed_point_round1` is a variant in which the step-size
return happens in round 1 (`iterations = 1`).
-/
import Ezpz.Real.StepExamples
set_option linter.unusedSimpArgs false
namespace Ezpz.StepEx
open Ezpz Transc Matrix

/-- Convergence tolerance `1e-12`, step tolerance `10`, 30 rounds. -/
def ssCfg : Config ℝ := ⟨30, 1e-12, 10⟩

/-- Where variable 0 lands after one exact damped step from `x0`: `x0 + (5 - x0) / (1 + 1e-9)`. -/
noncomputable def ssNext (x0 : ℝ) : ℝ := x0 + (5 - x0) / (1 + 1e-9)

/-- Where variable 0 lands after a second exact damped step, from `sxA`. -/
noncomputable def sxB : ℝ := ssNext sxA

/-- One step from 0 lands at `sxA`. -/
theorem ssNext_zero : ssNext 0 = sxA := by unfold ssNext sxA; ring

/-- `sxA` is NOT within the residual tolerance `1e-12` of 5. -/
theorem sxA_far : (1e-12 : ℝ) < |sxA - 5| := by
  have e : sxA - 5 = -(5 * 1e-9 / (1 + 1e-9)) := by unfold sxA; field_simp; ring
  rw [e, abs_neg, abs_of_nonneg (by positivity), lt_div_iff₀ (by norm_num)]
  norm_num

/-- The second step really moves variable 0: `sxB ≠ sxA`. -/
theorem sxB_ne_sxA : sxB ≠ sxA := by
  unfold sxB ssNext
  intro h
  have h2 : (5 - sxA) / (1 + 1e-9) = 0 := by linarith
  have h3 : (5 : ℝ) - sxA = 0 := by
    rcases div_eq_zero_iff.mp h2 with h | h
    · exact h
    · norm_num at h
  have := sxA_far
  rw [show sxA - 5 = 0 by linarith] at this
  norm_num at this

section Run
variable (s : Nat → List (Triplet ℝ) → List ℝ → Except SolveError (List ℝ))
  (hs : ExactSolve s 1 2 (fun _ => Gen.REGULARIZATION_LAMBDA))
  (htot : ∀ k jac r, ∃ d, s k jac r = .ok d)
include hs htot

/-- One round under `ssCfg` from `[x0, 7]`, when `x0` fails the residual test (`|x0 − 5| > 1e-12`)
and is not absurdly far from 5 (`|x0 − 5| ≤ 170`): the exact damped solver answers
`[(5 − x0)/(1+1e-9), 0]`, the values become `[ssNext x0, 7]`, and the STEP-SIZE test fires
(`|step| ≤ 10 · (‖x‖∞ + 10)`): the round returns with `byResidual = false` and iteration count `k`. -/
theorem ss_step (k : Nat) (x0 : ℝ) (hfar : (1e-12 : ℝ) < |x0 - 5|) (hnear : |x0 - 5| ≤ 170) :
    newtonStep sxEs ssCfg s k [x0, 7] [] =
      .done ⟨[ssNext x0, 7], k, [], [(0, 0, 1.0)], false⟩ := by
  obtain ⟨hr, hj, hm⟩ := sx_eval x0 7
  obtain ⟨d, hd⟩ := htot k [(0, 0, 1.0)] [x0 - 5]
  have hd' := exactSolve_one_by_two s (fun _ => Gen.REGULARIZATION_LAMBDA)
    (fun _ => by rw [lambda_real]; norm_num) hs k (x0 - 5) d hd
  subst hd'
  have e : -(x0 - 5) / (1 + Gen.REGULARIZATION_LAMBDA) = (5 - x0) / (1 + 1e-9) := by
    rw [lambda_real]; ring
  rw [e] at hd
  have hstep : |(5 - x0) / (1 + 1e-9)| ≤ 170 := by
    rw [abs_div, abs_sub_comm, abs_of_pos (show (0 : ℝ) < 1 + 1e-9 by norm_num),
      div_le_iff₀ (by norm_num)]
    have : (0 : ℝ) ≤ |x0 - 5| := abs_nonneg _
    nlinarith
  rw [newtonStep_eval _ _ s k [x0, 7] [] _ _ _ _ _ hr hj hm, if_neg (by
    simp only [ssCfg]; exact not_le.mpr hfar), hd]
  simp [ssCfg, applyStep, allFinite, stepInfNorm, stepThreshold, maxAbs0, maxAbs?, ssNext]
  have h7 : (7 : ℝ) ≤ max (max 0.0 |x0|) 7 := le_max_right _ _
  linarith

/-- The model-level fact of the first solve: round 0 from the guesses `[0, 7]` is a RETURN at the
step-size test (`byResidual = false`) with values `[sxA, 7]` (and iteration count 0). -/
theorem ss_step_first :
    newtonStep sxEs ssCfg s 0 [0, 7] [] = .done ⟨[sxA, 7], 0, [], [(0, 0, 1.0)], false⟩ := by
  have h := ss_step s hs htot 0 0 (by norm_num) (by norm_num)
  rwa [ssNext_zero] at h

/-- The model-level fact of the re-solve: round 0 from `[sxA, 7]` does NOT pass the residual test; it
takes another step, to `[sxB, 7]`, and returns at the step-size test again. -/
theorem ss_step_again :
    newtonStep sxEs ssCfg s 0 [sxA, 7] [] = .done ⟨[sxB, 7], 0, [], [(0, 0, 1.0)], false⟩ := by
  refine ss_step s hs htot 0 sxA sxA_far ?_
  have : |sxA - 5| ≤ 1e-5 := sxA_close
  have : (1e-5 : ℝ) ≤ 170 := by norm_num
  linarith

/-- The Newton run of the first solve: a return in round 0 at the step-size test. -/
theorem ss_newton_first : newton sxEs ssCfg s [0, 7] =
    .ok ⟨[sxA, 7], 0, [], [(0, 0, 1.0)], false⟩ := by
  show newtonLoop _ _ _ (29 + 1) 0 [0, 7] [] = _
  rw [newtonLoop, ss_step_first s hs htot]

/-- The Newton run of the re-solve: a return in round 0 at the step-size test, at new values. -/
theorem ss_newton_again : newton sxEs ssCfg s [sxA, 7] =
    .ok ⟨[sxB, 7], 0, [], [(0, 0, 1.0)], false⟩ := by
  show newtonLoop _ _ _ (29 + 1) 0 [sxA, 7] [] = _
  rw [newtonLoop, ss_step_again s hs htot]

end Run

/-- `sxB` is within the satisfaction threshold `1e-4` of 5 (it is closer to 5 than `sxA`). -/
theorem sxB_close : |sxB - 5| ≤ 1e-5 := by
  have e : sxB - 5 = (sxA - 5) * (1e-9 / (1 + 1e-9)) := by unfold sxB ssNext; field_simp; ring
  rw [e, abs_mul, abs_of_nonneg (show (0 : ℝ) ≤ 1e-9 / (1 + 1e-9) by positivity)]
  have h1 : (1e-9 : ℝ) / (1 + 1e-9) ≤ 1 := by rw [div_le_iff₀ (by norm_num)]; norm_num
  have h2 := sxA_close
  have h3 : (0 : ℝ) ≤ |sxA - 5| := abs_nonneg _
  nlinarith

/-- The model validates for any guess values of the two variables. -/
theorem ss_model (a b : ℝ) :
    modelNew sxEs (([(0, a), (1, b)] : List (Nat × ℝ)).map (·.1)) = .ok () := sx_model

/-- The request is satisfied (threshold `1e-4`) at `[x0, 7]` whenever `|x0 − 5| ≤ 1e-5`. -/
theorem ss_sweep (x0 : ℝ) (h : |x0 - 5| ≤ 1e-5) :
    unsatisfiedSweep sxEs (lookup [x0, 7]) = .ok [] := by
  simp [sxEs, unsatisfiedSweep, Constraint.residual, Constraint.residualV, Constraint.residualReads,
    lookup, Constraint.residualDim, Res.mk1, isSatisfied, EPS_real]
  have : (1e-5 : ℝ) < 1e-4 := by norm_num
  exact decide_eq_true (lt_of_le_of_lt h this)

section Run2
variable (s : Nat → List (Triplet ℝ) → List ℝ → Except SolveError (List ℝ))
  (hs : ExactSolve s 1 2 (fun _ => Gen.REGULARIZATION_LAMBDA))
  (htot : ∀ k jac r, ∃ d, s k jac r = .ok d)
include hs htot

/-- `solveInner` of the first solve: success, values `[sxA, 7]`, nothing unsatisfied. -/
theorem ss_inner_first : solveInner sxEs sxG ssCfg s none = .ok ⟨[], [sxA, 7], 0, [], 0, none⟩ := by
  have hn : newton sxEs ssCfg s (sxG.map (·.2)) = .ok ⟨[sxA, 7], 0, [], [(0, 0, 1.0)], false⟩ :=
    ss_newton_first s hs htot
  simp only [solveInner, sx_model, hn, ss_sweep sxA sxA_close, runAnalysis]
  simp [lint, lintOne, maxPriority, sxEs]

/-- `solveInner` of the re-solve: success, values `[sxB, 7]`, nothing unsatisfied. -/
theorem ss_inner_again : solveInner sxEs [(0, sxA), (1, 7)] ssCfg s none =
    .ok ⟨[], [sxB, 7], 0, [], 0, none⟩ := by
  have hn : newton sxEs ssCfg s (([(0, sxA), (1, 7)] : List (Nat × ℝ)).map (·.2)) =
      .ok ⟨[sxB, 7], 0, [], [(0, 0, 1.0)], false⟩ := ss_newton_again s hs htot
  simp only [solveInner, ss_model, hn, ss_sweep sxB sxB_close, runAnalysis]
  simp [lint, lintOne, maxPriority, sxEs]

/-- The first prioritised solve: success at `[sxA, 7]`, nothing unsatisfied, iteration count 0. -/
theorem ss_run_first : solveWithPriority sxReqs sxG ssCfg (fun _ => s) none =
    .ok ⟨[], [sxA, 7], 0, [], 0, none⟩ := by
  rw [solveWithPriority_single_level sxReqs sxG ssCfg (fun _ => s) none 0 (by simp [sxReqs])
    (by simp [sxReqs]), sxEnumerate]
  exact ss_inner_first s hs htot

/-- The prioritised re-solve from the first result: success at `[sxB, 7]` — different values. -/
theorem ss_run_again : solveWithPriority sxReqs [(0, sxA), (1, 7)] ssCfg (fun _ => s) none =
    .ok ⟨[], [sxB, 7], 0, [], 0, none⟩ := by
  rw [solveWithPriority_single_level sxReqs _ ssCfg (fun _ => s) none 0 (by simp [sxReqs])
    (by simp [sxReqs]), sxEnumerate]
  exact ss_inner_again s hs htot

end Run2

/-! ### The witness -/

/-- **A result that stopped on the step-size test is not a fixed point of `solve`** (version for
EVERY exact solver).  Request "variable 0 is 5", guesses `[(0, 0), (1, 7)]`, configuration
`ssCfg` (convergence tolerance `1e-12`, step tolerance `10`, 30 rounds), and as LU oracle any `solve`
whose first-level solver is an exact total solver of the damped normal equations (`1 × 2` systems,
the code's damping `1e-9`).  Then:

1. round 0 of the Newton loop is a RETURN at the STEP-SIZE test (`newtonStep … = .done nr` with
   `nr.byResidual = false`), and that is the result of the whole Newton run; the prioritised solve
   succeeds with outcome `o`: values `[5/(1+1e-9), 7]`, nothing unsatisfied (the sweep uses the `1e-4`
   threshold), returned from the top priority level, iteration count 0 (the loop reports the index
   of the round in which it returned, and the step-size return happens in round 0);
2. solving the same requests again from `o.finalValues` (same variable ids, same configuration,
   same oracle) succeeds with an outcome `o'` whose values are DIFFERENT: variable 0 moves again,
   from `sxA = 5/(1+1e-9)` to `sxB = sxA + (5 − sxA)/(1+1e-9)`, because `|sxA − 5| > 1e-12`.

So every hypothesis of `resolve_is_identity_real` except "the run stopped at the residual test"
holds and its conclusion fails: C11's restriction to results converged by the residual test is
necessary. -/
theorem step_stop_not_fixed_point_of_exact (solve : LinSolve ℝ)
    (hs : ExactSolve (solve 0) 1 2 (fun _ => Gen.REGULARIZATION_LAMBDA))
    (htot : ∀ k jac r, ∃ d, solve 0 k jac r = .ok d) :
    ∃ (nr : NewtonOk ℝ) (o o' : Outcome ℝ),
      -- 1. the first solve returns at the step-size test
      newtonStep (enumerate sxReqs) ssCfg (solve 0) 0 (sxG.map (·.2)) [] = .done nr ∧
      nr.byResidual = false ∧ nr.values = [sxA, 7] ∧
      newton (enumerate sxReqs) ssCfg (solve 0) (sxG.map (·.2)) = .ok nr ∧
      solveWithPriority sxReqs sxG ssCfg solve none = .ok o ∧
      o.finalValues = [sxA, 7] ∧ o.unsatisfied = [] ∧ o.iterations = 0 ∧
      o.prioritySolved = maxPriority (enumerate sxReqs) ∧
      -- 2. re-solving from that result moves the values again
      solveWithPriority sxReqs ((sxG.map (·.1)).zip o.finalValues) ssCfg solve none = .ok o' ∧
      o'.finalValues = [sxB, 7] ∧ o'.unsatisfied = [] ∧ o'.iterations = 0 ∧
      o'.finalValues ≠ o.finalValues ∧ o'.finalValues[0]? ≠ o.finalValues[0]? := by
  have h1 : solveWithPriority sxReqs sxG ssCfg solve none = .ok ⟨[], [sxA, 7], 0, [], 0, none⟩ := by
    rw [solveWithPriority_single_level sxReqs sxG ssCfg solve none 0 (by simp [sxReqs])
      (by simp [sxReqs]), sxEnumerate]
    exact ss_inner_first (solve 0) hs htot
  have h2 : solveWithPriority sxReqs [(0, sxA), (1, 7)] ssCfg solve none =
      .ok ⟨[], [sxB, 7], 0, [], 0, none⟩ := by
    rw [solveWithPriority_single_level sxReqs _ ssCfg solve none 0 (by simp [sxReqs])
      (by simp [sxReqs]), sxEnumerate]
    exact ss_inner_again (solve 0) hs htot
  refine ⟨⟨[sxA, 7], 0, [], [(0, 0, 1.0)], false⟩, _, _, ss_step_first (solve 0) hs htot, rfl, rfl,
    ss_newton_first (solve 0) hs htot, h1, rfl, rfl, rfl, rfl, h2, rfl, rfl, rfl, ?_, ?_⟩
  · simp [sxB_ne_sxA]
  · simp [sxB_ne_sxA]

/-- **A result that stopped on the step-size test is not a fixed point of `solve`** (existential
form): there are a configuration (convergence tolerance `1e-12`, step tolerance `10`, 30 rounds) and
an LU oracle that is, at every level, an exact total solver of the damped normal equations with the
code's damping `1e-9`, such that the solve of "variable 0 is 5" from `[(0, 0), (1, 7)]` succeeds by
returning in round 0 at the STEP-SIZE test (`byResidual = false`) with values `[5/(1+1e-9), 7]` and
nothing unsatisfied, and solving again from exactly those values succeeds with different values
(variable 0 moves again).  C11's restriction to results converged by the residual test is
necessary. -/
theorem step_stop_not_fixed_point : ∃ (cfg : Config ℝ) (solve : LinSolve ℝ) (nr : NewtonOk ℝ)
    (o o' : Outcome ℝ),
    cfg = ⟨30, 1e-12, 10⟩ ∧
    (∀ i, ExactSolve (solve i) 1 sxG.length (fun _ => Gen.REGULARIZATION_LAMBDA)) ∧
    (∀ i k jac r, ∃ d, solve i k jac r = .ok d) ∧
    newtonStep (enumerate sxReqs) cfg (solve 0) 0 (sxG.map (·.2)) [] = .done nr ∧
    nr.byResidual = false ∧
    newton (enumerate sxReqs) cfg (solve 0) (sxG.map (·.2)) = .ok nr ∧
    solveWithPriority sxReqs sxG cfg solve none = .ok o ∧
    o.finalValues = [sxA, 7] ∧ o.unsatisfied = [] ∧
    o.prioritySolved = maxPriority (enumerate sxReqs) ∧
    solveWithPriority sxReqs ((sxG.map (·.1)).zip o.finalValues) cfg solve none = .ok o' ∧
    o'.finalValues ≠ o.finalValues ∧ o'.finalValues[0]? ≠ o.finalValues[0]? := by
  have hpos : (0 : ℝ) < Gen.REGULARIZATION_LAMBDA := by rw [lambda_real]; norm_num
  obtain ⟨s, hs, ht⟩ := exists_exactSolve 1 2 (fun _ => (Gen.REGULARIZATION_LAMBDA : ℝ)) (fun _ => hpos)
  obtain ⟨nr, o, o', a1, a2, _, a4, a5, a6, a7, _, a9, a10, _, _, _, a13, a14⟩ :=
    step_stop_not_fixed_point_of_exact (fun _ => s) hs ht
  exact ⟨ssCfg, fun _ => s, nr, o, o', rfl, fun _ => hs, fun _ => ht, a1, a2, a4, a5, a6, a7, a9, a10,
    a13, a14⟩

/-- **The hypothesis "stopped at the residual test" of `resolve_is_identity_real` cannot be
dropped.**  For the witness run every other hypothesis of that theorem holds (`reqs ≠ []`, the
first solve succeeded with `o`, same ids, values `o.finalValues`, returned from the top level), the
hypothesis `hb` fails (the Newton run of level 0 has `byResidual = false`), and the conclusion
fails: NO outcome of the re-solve has the values of `o`. -/
theorem resolve_is_identity_needs_residual_stop (solve : LinSolve ℝ)
    (hs : ExactSolve (solve 0) 1 2 (fun _ => Gen.REGULARIZATION_LAMBDA))
    (htot : ∀ k jac r, ∃ d, solve 0 k jac r = .ok d) :
    ∃ (g' : List (Nat × ℝ)) (o : Outcome ℝ),
      sxReqs ≠ [] ∧ solveWithPriority sxReqs sxG ssCfg solve none = .ok o ∧
      g'.map (·.1) = sxG.map (·.1) ∧ g'.map (·.2) = o.finalValues ∧
      o.prioritySolved = maxPriority (enumerate sxReqs) ∧
      (∃ nr, newton (enumerate sxReqs) ssCfg (solve 0) (sxG.map (·.2)) = .ok nr ∧
        nr.byResidual = false) ∧
      ¬ ∃ o', solveWithPriority sxReqs g' ssCfg solve none = .ok o' ∧
        o'.finalValues = o.finalValues := by
  obtain ⟨nr, o, o', _, a2, _, a4, a5, a6, _, _, a9, a10, _, _, _, a13, _⟩ :=
    step_stop_not_fixed_point_of_exact solve hs htot
  refine ⟨(sxG.map (·.1)).zip o.finalValues, o, by simp [sxReqs], a5, ?_, ?_, a9, ⟨nr, a4, a2⟩, ?_⟩
  · rw [a6]; rfl
  · rw [a6]; rfl
  · rintro ⟨o'', h, hv⟩
    rw [a10] at h
    injection h with h
    subst h
    exact a13 hv

/-! ### Variant: the step-size return happens in round 1, after a continuing round

With the step tolerance `1e-5` of `sxCfg` and a convergence tolerance of `1e-30`, round 0 continues
(a genuine step `0 → sxA`), round 1 takes the step `sxA → sxB` and returns at the step-size test:
the outcome has `iterations = 1`.  Re-solving from `[sxB, 7]` moves variable 0 once more. -/

/-- Convergence tolerance `1e-30`, step tolerance `1e-5`, 30 rounds. -/
def ssCfg2 : Config ℝ := ⟨30, 1e-30, 1e-5⟩

/-- Where variable 0 lands after a third exact damped step, from `sxB`. -/
noncomputable def sxC : ℝ := ssNext sxB

/-- The distance to 5 shrinks by the factor `1e-9 / (1 + 1e-9)` at every exact damped step. -/
theorem ssNext_dist (x0 : ℝ) : ssNext x0 - 5 = (x0 - 5) * (1e-9 / (1 + 1e-9)) := by
  unfold ssNext; field_simp; ring

/-- `sxB` is NOT within `1e-30` of 5. -/
theorem sxB_far : (1e-30 : ℝ) < |sxB - 5| := by
  have h := sxA_far
  have e : |sxB - 5| = |sxA - 5| * (1e-9 / (1 + 1e-9)) := by
    unfold sxB
    rw [ssNext_dist, abs_mul, abs_of_nonneg (show (0 : ℝ) ≤ 1e-9 / (1 + 1e-9) by positivity)]
  have h1 : (1e-10 : ℝ) ≤ 1e-9 / (1 + 1e-9) := by rw [le_div_iff₀ (by norm_num)]; norm_num
  rw [e]
  have h2 : (1e-12 : ℝ) * 1e-10 ≤ |sxA - 5| * (1e-9 / (1 + 1e-9)) :=
    mul_le_mul h.le h1 (by norm_num) (abs_nonneg _)
  have h3 : (1e-30 : ℝ) < 1e-12 * 1e-10 := by norm_num
  linarith

/-- The third step really moves variable 0: `sxC ≠ sxB`. -/
theorem sxC_ne_sxB : sxC ≠ sxB := by
  unfold sxC
  intro h
  have h2 : (5 - sxB) / (1 + 1e-9) = 0 := by unfold ssNext at h; linarith
  have h3 : (5 : ℝ) - sxB = 0 := by
    rcases div_eq_zero_iff.mp h2 with h | h
    · exact h
    · norm_num at h
  have := sxB_far
  rw [show sxB - 5 = 0 by linarith] at this
  norm_num at this

/-- `sxC` is within `1e-5` of 5. -/
theorem sxC_close : |sxC - 5| ≤ 1e-5 := by
  unfold sxC
  rw [ssNext_dist, abs_mul, abs_of_nonneg (show (0 : ℝ) ≤ 1e-9 / (1 + 1e-9) by positivity)]
  have h1 : (1e-9 : ℝ) / (1 + 1e-9) ≤ 1 := by rw [div_le_iff₀ (by norm_num)]; norm_num
  have h2 := sxB_close
  have h3 : (0 : ℝ) ≤ |sxB - 5| := abs_nonneg _
  nlinarith

section Run3
variable (s : Nat → List (Triplet ℝ) → List ℝ → Except SolveError (List ℝ))
  (hs : ExactSolve s 1 2 (fun _ => Gen.REGULARIZATION_LAMBDA))
  (htot : ∀ k jac r, ∃ d, s k jac r = .ok d)
include hs htot

/-- One round under `ssCfg2` from `[x0, 7]`, when `1e-30 < |x0 − 5| ≤ 7e-5`: the exact damped step
is taken, the values become `[ssNext x0, 7]`, and the STEP-SIZE test fires: the round returns with
`byResidual = false` and iteration count `k`. -/
theorem ss2_step (k : Nat) (x0 : ℝ) (hfar : (1e-30 : ℝ) < |x0 - 5|) (hnear : |x0 - 5| ≤ 7e-5) :
    newtonStep sxEs ssCfg2 s k [x0, 7] [] =
      .done ⟨[ssNext x0, 7], k, [], [(0, 0, 1.0)], false⟩ := by
  obtain ⟨hr, hj, hm⟩ := sx_eval x0 7
  obtain ⟨d, hd⟩ := htot k [(0, 0, 1.0)] [x0 - 5]
  have hd' := exactSolve_one_by_two s (fun _ => Gen.REGULARIZATION_LAMBDA)
    (fun _ => by rw [lambda_real]; norm_num) hs k (x0 - 5) d hd
  subst hd'
  have e : -(x0 - 5) / (1 + Gen.REGULARIZATION_LAMBDA) = (5 - x0) / (1 + 1e-9) := by
    rw [lambda_real]; ring
  rw [e] at hd
  have hstep : |(5 - x0) / (1 + 1e-9)| ≤ 7e-5 := by
    rw [abs_div, abs_sub_comm, abs_of_pos (show (0 : ℝ) < 1 + 1e-9 by norm_num),
      div_le_iff₀ (by norm_num)]
    have : (0 : ℝ) ≤ |x0 - 5| := abs_nonneg _
    nlinarith
  rw [newtonStep_eval _ _ s k [x0, 7] [] _ _ _ _ _ hr hj hm, if_neg (by
    simp only [ssCfg2]; exact not_le.mpr hfar), hd]
  simp [ssCfg2, applyStep, allFinite, stepInfNorm, stepThreshold, maxAbs0, maxAbs?, ssNext]
  have h7 : (7 : ℝ) ≤ max (max 0.0 |x0|) 7 := le_max_right _ _
  nlinarith

/-- Round 0 under `ssCfg2`: from `[0, 7]` the residual test fails, the step `[sxA, 0]` is too large
for the step-size test, and the loop continues at `[sxA, 7]`. -/
theorem ss2_step0 : newtonStep sxEs ssCfg2 s 0 [0, 7] [] = .next [sxA, 7] [] := by
  obtain ⟨hr, hj, hm⟩ := sx_eval 0 7
  obtain ⟨d, hd⟩ := htot 0 [(0, 0, 1.0)] [0 - 5]
  have hd' := exactSolve_one_by_two s (fun _ => Gen.REGULARIZATION_LAMBDA)
    (fun _ => by rw [lambda_real]; norm_num) hs 0 (0 - 5) d hd
  subst hd'
  have e : -((0 : ℝ) - 5) / (1 + Gen.REGULARIZATION_LAMBDA) = sxA := by
    rw [lambda_real]; unfold sxA; ring
  rw [e] at hd
  have hpos : (0 : ℝ) < sxA := by unfold sxA; positivity
  have hbig : (1 : ℝ) ≤ sxA := by
    unfold sxA; rw [le_div_iff₀ (by norm_num)]; norm_num
  rw [newtonStep_eval _ _ s 0 [0, 7] [] _ _ _ _ _ hr hj hm, if_neg (by
    simp only [ssCfg2]; norm_num), hd]
  simp [ssCfg2, applyStep, allFinite, stepInfNorm, stepThreshold, maxAbs0, maxAbs?, abs_of_pos hpos]
  rw [lit_0]
  norm_num
  linarith

/-- The Newton run of the first solve under `ssCfg2`: one continuing round, then a return at the
step-size test in round 1. -/
theorem ss2_newton_first : newton sxEs ssCfg2 s [0, 7] =
    .ok ⟨[sxB, 7], 1, [], [(0, 0, 1.0)], false⟩ := by
  show newtonLoop _ _ _ (28 + 1 + 1) 0 [0, 7] [] = _
  rw [newtonLoop, ss2_step0 s hs htot]
  dsimp only
  rw [newtonLoop, ss2_step s hs htot 1 sxA (lt_trans (by norm_num) sxA_far)
    (le_trans sxA_close (by norm_num))]
  rfl

/-- The Newton run of the re-solve under `ssCfg2`: a return at the step-size test in round 0, at new
values. -/
theorem ss2_newton_again : newton sxEs ssCfg2 s [sxB, 7] =
    .ok ⟨[sxC, 7], 0, [], [(0, 0, 1.0)], false⟩ := by
  show newtonLoop _ _ _ (29 + 1) 0 [sxB, 7] [] = _
  rw [newtonLoop, ss2_step s hs htot 0 sxB sxB_far (le_trans sxB_close (by norm_num))]
  rfl

/-- `solveInner` of the first solve under `ssCfg2`. -/
theorem ss2_inner_first : solveInner sxEs sxG ssCfg2 s none =
    .ok ⟨[], [sxB, 7], 1, [], 0, none⟩ := by
  have hn : newton sxEs ssCfg2 s (sxG.map (·.2)) = .ok ⟨[sxB, 7], 1, [], [(0, 0, 1.0)], false⟩ :=
    ss2_newton_first s hs htot
  simp only [solveInner, sx_model, hn, ss_sweep sxB sxB_close, runAnalysis]
  simp [lint, lintOne, maxPriority, sxEs]

/-- `solveInner` of the re-solve under `ssCfg2`. -/
theorem ss2_inner_again : solveInner sxEs [(0, sxB), (1, 7)] ssCfg2 s none =
    .ok ⟨[], [sxC, 7], 0, [], 0, none⟩ := by
  have hn : newton sxEs ssCfg2 s (([(0, sxB), (1, 7)] : List (Nat × ℝ)).map (·.2)) =
      .ok ⟨[sxC, 7], 0, [], [(0, 0, 1.0)], false⟩ := ss2_newton_again s hs htot
  simp only [solveInner, ss_model, hn, ss_sweep sxC sxC_close, runAnalysis]
  simp [lint, lintOne, maxPriority, sxEs]

end Run3

/-- **Variant with `iterations = 1`**: under `ssCfg2` (convergence tolerance `1e-30`, step tolerance
`1e-5`, 30 rounds) and any oracle whose first-level solver is an exact total damped solver, the
solve of "variable 0 is 5" from `[(0, 0), (1, 7)]` takes a continuing round 0, then returns in
round 1 at the STEP-SIZE test (`byResidual = false`): outcome `o` with `iterations = 1`, values
`[sxB, 7]`, nothing unsatisfied.  Solving again from `o.finalValues` succeeds with different values
(`[sxC, 7]`, variable 0 moves again) — after 0 iterations, because the re-solve's own step-size
return happens in its round 0. -/
theorem step_stop_not_fixed_point_round1 (solve : LinSolve ℝ)
    (hs : ExactSolve (solve 0) 1 2 (fun _ => Gen.REGULARIZATION_LAMBDA))
    (htot : ∀ k jac r, ∃ d, solve 0 k jac r = .ok d) :
    ∃ (nr : NewtonOk ℝ) (o o' : Outcome ℝ),
      newton (enumerate sxReqs) ssCfg2 (solve 0) (sxG.map (·.2)) = .ok nr ∧
      nr.byResidual = false ∧
      solveWithPriority sxReqs sxG ssCfg2 solve none = .ok o ∧
      o.finalValues = [sxB, 7] ∧ o.unsatisfied = [] ∧ o.iterations = 1 ∧
      o.prioritySolved = maxPriority (enumerate sxReqs) ∧
      solveWithPriority sxReqs ((sxG.map (·.1)).zip o.finalValues) ssCfg2 solve none = .ok o' ∧
      o'.finalValues = [sxC, 7] ∧ o'.unsatisfied = [] ∧ o'.iterations = 0 ∧
      o'.finalValues ≠ o.finalValues ∧ o'.finalValues[0]? ≠ o.finalValues[0]? := by
  have h1 : solveWithPriority sxReqs sxG ssCfg2 solve none =
      .ok ⟨[], [sxB, 7], 1, [], 0, none⟩ := by
    rw [solveWithPriority_single_level sxReqs sxG ssCfg2 solve none 0 (by simp [sxReqs])
      (by simp [sxReqs]), sxEnumerate]
    exact ss2_inner_first (solve 0) hs htot
  have h2 : solveWithPriority sxReqs [(0, sxB), (1, 7)] ssCfg2 solve none =
      .ok ⟨[], [sxC, 7], 0, [], 0, none⟩ := by
    rw [solveWithPriority_single_level sxReqs _ ssCfg2 solve none 0 (by simp [sxReqs])
      (by simp [sxReqs]), sxEnumerate]
    exact ss2_inner_again (solve 0) hs htot
  refine ⟨⟨[sxB, 7], 1, [], [(0, 0, 1.0)], false⟩, _, _, ss2_newton_first (solve 0) hs htot, rfl,
    h1, rfl, rfl, rfl, rfl, h2, rfl, rfl, rfl, ?_, ?_⟩
  · simp [sxC_ne_sxB]
  · simp [sxC_ne_sxB]

end Ezpz.StepEx
