/-
The damped Gauss–Newton step over ℝ, as a relation: `IsStep J r lam d :≡ (JᵀJ + lam·I) d = -Jᵀ r`.
The LU solve of the code is held to this relation by the step certificate checked on every recorded
trace.  Everything here is exact real linear algebra (any finite index types).
-/
import Mathlib.LinearAlgebra.Matrix.PosDef
import Mathlib.Data.Matrix.Block
namespace Ezpz.GN
open Matrix

variable {m n : Type} [Fintype m] [Fintype n] [DecidableEq n]

theorem dot_self_nonneg {k : Type} [Fintype k] (v : k → ℝ) : 0 ≤ v ⬝ᵥ v :=
  Finset.sum_nonneg (fun i _ => mul_self_nonneg (v i))

/-- `d` solves the damped normal equations of `(J, r)` with damping `lam`. -/
def IsStep (J : Matrix m n ℝ) (r : m → ℝ) (lam : ℝ) (d : n → ℝ) : Prop :=
  (Jᵀ * J + lam • (1 : Matrix n n ℝ)) *ᵥ d = -(Jᵀ *ᵥ r)

/-- The normal-equation identity behind every statement below: `lam·d = Jᵀ(-(r + J d))`. -/
theorem step_identity (J : Matrix m n ℝ) (r : m → ℝ) (lam : ℝ) (d : n → ℝ) (h : IsStep J r lam d) :
    lam • d = Jᵀ *ᵥ (-(r + J *ᵥ d)) := by
  unfold IsStep at h
  rw [add_mulVec, smul_mulVec, one_mulVec, ← mulVec_mulVec] at h
  rw [neg_add, mulVec_add, mulVec_neg, mulVec_neg]
  have : lam • d = -(Jᵀ *ᵥ r) - Jᵀ *ᵥ (J *ᵥ d) := by rw [← h]; abel
  rw [this]; abel

/-- C04.1 — **an unmentioned variable is not moved**: if column `j` of the Jacobian is zero and
`lam ≠ 0`, the step leaves variable `j` where it is. -/
theorem untouched_var_step_zero (J : Matrix m n ℝ) (r : m → ℝ) (lam : ℝ) (d : n → ℝ)
    (h : IsStep J r lam d) (hlam : lam ≠ 0) (j : n) (hcol : ∀ i, J i j = 0) : d j = 0 := by
  have := congrFun (step_identity J r lam d h) j
  simp only [Pi.smul_apply, smul_eq_mul, mulVec, dotProduct, transpose_apply, hcol, zero_mul,
    Finset.sum_const_zero] at this
  exact (mul_eq_zero.mp this).resolve_left hlam

/-- Quadratic form of the damped normal matrix: `dᵀ(JᵀJ + lam I)d = ‖J d‖² + lam‖d‖²`. -/
theorem quad_form (J : Matrix m n ℝ) (lam : ℝ) (d : n → ℝ) :
    d ⬝ᵥ ((Jᵀ * J + lam • (1 : Matrix n n ℝ)) *ᵥ d) = (J *ᵥ d) ⬝ᵥ (J *ᵥ d) + lam * (d ⬝ᵥ d) := by
  rw [add_mulVec, smul_mulVec, one_mulVec, dotProduct_add, dotProduct_smul, smul_eq_mul,
    ← mulVec_mulVec, dotProduct_mulVec, vecMul_transpose]

/-- C02.2 — **the step is unique** for positive damping. -/
theorem step_unique (J : Matrix m n ℝ) (r : m → ℝ) (lam : ℝ) (hlam : 0 < lam) (d d' : n → ℝ)
    (h : IsStep J r lam d) (h' : IsStep J r lam d') : d = d' := by
  have hz : (Jᵀ * J + lam • (1 : Matrix n n ℝ)) *ᵥ (d - d') = 0 := by
    rw [mulVec_sub, h, h']; simp
  have hq := quad_form J lam (d - d')
  rw [hz, dotProduct_zero] at hq
  have h1 : 0 ≤ (J *ᵥ (d - d')) ⬝ᵥ (J *ᵥ (d - d')) := dot_self_nonneg _
  have h2 : 0 ≤ (d - d') ⬝ᵥ (d - d') := dot_self_nonneg _
  have h3 : (d - d') ⬝ᵥ (d - d') = 0 := by nlinarith
  have := dotProduct_self_eq_zero.mp h3
  exact sub_eq_zero.mp this

/-- C02.2 — **descent**: the step never increases the linearised residual's first-order term:
`⟨Jᵀr, d⟩ = -(‖J d‖² + lam‖d‖²) ≤ 0`. -/
theorem step_descent (J : Matrix m n ℝ) (r : m → ℝ) (lam : ℝ) (hlam : 0 ≤ lam) (d : n → ℝ)
    (h : IsStep J r lam d) : (Jᵀ *ᵥ r) ⬝ᵥ d ≤ 0 := by
  have hq := quad_form J lam d
  rw [h] at hq
  have h1 : 0 ≤ (J *ᵥ d) ⬝ᵥ (J *ᵥ d) := dot_self_nonneg _
  have h2 : 0 ≤ d ⬝ᵥ d := dot_self_nonneg _
  have : d ⬝ᵥ -(Jᵀ *ᵥ r) = -((Jᵀ *ᵥ r) ⬝ᵥ d) := by rw [dotProduct_neg, dotProduct_comm]
  rw [this] at hq
  nlinarith [mul_nonneg hlam h2]

/-- `d = 0` is the step exactly at a stationary point of the least-squares problem. -/
theorem step_zero_iff (J : Matrix m n ℝ) (r : m → ℝ) (lam : ℝ) :
    IsStep J r lam 0 ↔ Jᵀ *ᵥ r = 0 := by
  unfold IsStep
  rw [mulVec_zero]
  constructor
  · intro h; exact neg_eq_zero.mp h.symm
  · intro h; rw [h, neg_zero]

/-! ### Row / column permutations (C12) -/

/-- C12.2a — permuting the rows (the order of the requests' equations) does not change which steps
solve the damped normal equations. -/
theorem step_row_perm {m' : Type} [Fintype m'] (σ : m' ≃ m) (J : Matrix m n ℝ) (r : m → ℝ)
    (lam : ℝ) (d : n → ℝ) :
    IsStep (J.submatrix σ id) (r ∘ σ) lam d ↔ IsStep J r lam d := by
  unfold IsStep
  have h1 : (J.submatrix σ id)ᵀ * (J.submatrix σ id) = Jᵀ * J := by
    ext i j
    simp only [mul_apply, transpose_apply, submatrix_apply, id]
    exact Equiv.sum_comp σ (fun k => J k i * J k j)
  have h2 : (J.submatrix σ id)ᵀ *ᵥ (r ∘ σ) = Jᵀ *ᵥ r := by
    ext i
    simp only [mulVec, dotProduct, transpose_apply, submatrix_apply, id, Function.comp]
    exact Equiv.sum_comp σ (fun k => J k i * r k)
  rw [h1, h2]

/-- C12.2b — renumbering the variables (a column permutation `τ`) permutes the step:
`d` solves the renumbered system iff `d ∘ τ⁻¹` solves the original one. -/
theorem step_col_perm {n' : Type} [Fintype n'] [DecidableEq n'] (τ : n' ≃ n) (J : Matrix m n ℝ)
    (r : m → ℝ) (lam : ℝ) (d : n → ℝ) :
    IsStep (J.submatrix id τ) r lam (d ∘ τ) ↔ IsStep J r lam d := by
  unfold IsStep
  have h1 : (J.submatrix id τ)ᵀ * (J.submatrix id τ) = (Jᵀ * J).submatrix τ τ := by
    rw [transpose_submatrix]
    ext a b
    simp [mul_apply, submatrix_apply]
  have h2 : ((Jᵀ * J + lam • (1 : Matrix n n ℝ)).submatrix τ τ) =
      (J.submatrix id τ)ᵀ * (J.submatrix id τ) + lam • (1 : Matrix n' n' ℝ) := by
    rw [h1]
    ext a b
    simp [Matrix.one_apply, submatrix_apply]
  have h3 : (J.submatrix id τ)ᵀ *ᵥ r = (Jᵀ *ᵥ r) ∘ τ := by
    ext a
    simp [mulVec, dotProduct, submatrix_apply]
  rw [← h2, h3, submatrix_mulVec_equiv]
  have hd : (d ∘ τ) ∘ τ.symm = d := by ext a; simp
  rw [hd]
  constructor
  · intro h
    ext a
    have := congrFun h (τ.symm a)
    simpa using this
  · intro h
    ext a
    have := congrFun h (τ a)
    simpa using this

end Ezpz.GN
